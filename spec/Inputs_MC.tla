------------------------------ MODULE Inputs_MC ------------------------------
(* B3 for the functional layer: laws of Inputs that TLC decides for every       *)
(* scenario of the universe.  They are the property's clauses stated as         *)
(* relations between runs, not restatements of the definitions.                 *)
EXTENDS InputsUniv, TLC
CONSTANTS Part, NParts
VARIABLE sc

MInit == sc \in UniversePart(Part, NParts)
MNext == UNCHANGED sc
\* only the trees with a non-regular entry (for the negative control of the walk)
MInitSpecial == sc \in FileScenariosOf(SpecialTrees)

Files == ~UsesStdin(sc.args)
LibSc == [sc EXCEPT !.cmd = "lib"]
NameHasPrefix(key, name) == IsPrefixOf(name \o <<Colon>>, key)
\* the rows of tally t that do not come from the source called name
Others(t, name) == [k \in {x \in DOMAIN t : ~NameHasPrefix(x, name)} |-> t[k]]
Scale(t, c) == [k \in DOMAIN t |-> c * t[k]]

LDomain == InDomain(sc)

\* expansion is per argument, in order: mentions(args1 ++ args2) = mentions(args1) ++ mentions(args2)
LAdditive ==
  Files => \A k \in 0..Len(sc.args) :
    ExpandAll(sc.tree, sc.args, sc.rec) =
      ExpandAll(sc.tree, SubSeq(sc.args, 1, k), sc.rec) \o ExpandAll(sc.tree, SubSeq(sc.args, k + 1, Len(sc.args)), sc.rec)

\* -R dir: every regular file below the directory exactly once, never a directory
LWalk ==
  Files /\ sc.rec => \A k \in DOMAIN sc.args :
    KindAt(sc.tree, sc.args[k]) = "dir" =>
      LET e == ExpandArg(sc.tree, sc.args[k], sc.rec) IN
      /\ \A i \in DOMAIN e : Regular(NodeAt(sc.tree, e[i])) /\ IsPathPrefix(sc.args[k], e[i])
      /\ \A i, j \in DOMAIN e : e[i] = e[j] => i = j
      /\ \A n \in DOMAIN sc.tree :
           (Regular(sc.tree[n]) /\ IsPathPrefix(sc.args[k], sc.tree[n].p)) => \E i \in DOMAIN e : e[i] = sc.tree[n].p

\* the walk written like filepath.Walk + callback sends every regular file below the directory to the
\* readers, once, in walk order - whatever non-regular entries sit before, between or after them - for the
\* callback of the code and for one that passes non-regular entries over silently
WalkLaw(policy) ==
  Files /\ sc.rec => \A k \in DOMAIN sc.args :
    KindAt(sc.tree, sc.args[k]) = "dir" =>
      LET w == WalkImpl(sc.tree, sc.args[k], policy) IN
      /\ RegularOnly(sc.tree, w) = ExpandArg(sc.tree, sc.args[k], sc.rec)
      /\ \A i, j \in DOMAIN w : w[i] = w[j] => i = j
      /\ {w[i] : i \in DOMAIN w} \subseteq WalkSet(sc.tree, sc.args[k]) \cup WalkMay(sc.tree, sc.args[k])
LWalkImpl == WalkLaw("code") /\ WalkLaw("regular")
\* negative control (must be REFUTED): answering filepath.SkipDir for a FIFO / socket / device node
CtlWalkSkipdir == WalkLaw("skipdir")

\* non-regular entries below a -R directory change nothing about what is demanded: same mentions and same
\* outcome as in the tree without them; without such entries exactly one end of the run is allowed
LSpecial ==
  LET keep == SelectSeq(sc.tree, LAMBDA n : n.p \notin MayPaths(sc))
      bare == [sc EXCEPT !.tree = keep] IN
  /\ Mentions(bare) = Mentions(sc) /\ OutcomeFull(bare) = OutcomeFull(sc)
  /\ MayTotal(bare) = 0 /\ AllowedEnd(OutcomeFull(bare), 0) = {<<OutcomeFull(sc).exit, OutcomeFull(sc).msg>>}
  /\ <<OutcomeFull(sc).exit, OutcomeFull(sc).msg>> \in AllowedEnd(OutcomeFull(sc), MayTotal(sc))
  /\ MayTotal(sc) > 0 => <<2, "read">> \in AllowedEnd(OutcomeFull(sc), MayTotal(sc))
  /\ MayTotal(sc) >= Cardinality(MayPaths(sc))

\* a gzip file of several members is the gzip file of the concatenation: all members are delivered
LMembers ==
  \A j \in DOMAIN sc.tree :
    sc.tree[j].k = "mgz" =>
      LET ms == Members(sc.tree[j]) IN
      /\ Len(ms) >= 2 /\ Flatten(ms) = sc.tree[j].data
      /\ [i \in DOMAIN ms |-> Len(ms[i])] = sc.tree[j].mem
      /\ OutcomeFull(sc) = OutcomeFull([sc EXCEPT !.tree[j].k = "gz", !.tree[j].mem = <<>>])

\* an argument is never dropped: a glob/path without hits is kept literally and is reported
LLiteral ==
  Files => \A k \in DOMAIN sc.args :
    LET e == ExpandArg(sc.tree, sc.args[k], sc.rec) IN
    /\ (e = <<>>) => (sc.rec /\ KindAt(sc.tree, sc.args[k]) = "dir")
    /\ (GlobSet(sc.tree, sc.args[k]) = {}) =>
         (e = <<sc.args[k]>> /\ ReadOutcome(sc, [std |-> FALSE, p |-> sc.args[k]]).err = 1)
    /\ \A i, j \in DOMAIN e : e[i] = e[j] => i = j

\* read exactly once per mention: seen through the library (every line is a row) the multiplicity of
\* line i of source s is the number of mentions of s
LOnce ==
  LET ms == Mentions(sc) t == OutcomeFull(LibSc).tally IN
  \A i \in DOMAIN ms :
    LET ro == ReadOutcome(sc, ms[i])
        lines == LinesOf(ro.full)
        cnt == Cardinality({j \in DOMAIN ms : ms[j] = ms[i]}) IN
    \A n \in DOMAIN lines : t[RowKey(NameOf(ms[i]), n, lines[n])] = cnt

\* mentioning everything twice doubles every row (no de-duplication, no caching)
LTwice ==
  Files => OutcomeFull([LibSc EXCEPT !.args = sc.args \o sc.args]).tally = Scale(OutcomeFull(LibSc).tally, 2)

\* a failing input changes nothing about the other inputs: compare with the same run where the
\* damaged file is healthy; whatever the failing input delivers, all other rows are identical
LIsolation ==
  \A j \in DOMAIN sc.tree :
    sc.tree[j].k \in {"truncgz", "crcgz", "badgz"} =>
      LET healthy == [LibSc EXCEPT !.tree[j].k = "gz"]
          name == PathStr(sc.tree[j].p)
          mentioned == \E i \in DOMAIN Mentions(sc) : Mentions(sc)[i].p = sc.tree[j].p IN
      \A cut \in {0, 1, 4, Len(sc.tree[j].data)} :
        LET o == OutcomeCut(LibSc, cut) IN
        /\ Others(o.tally, name) = Others(OutcomeFull(healthy).tally, name)
        /\ mentioned => o.nerr > 0 /\ OutcomeCut(sc, cut).exit = 2 /\ OutcomeCut(sc, cut).msg = "read"
\* ... and the same for an argument that cannot be opened at all: dropping it changes only the error count
LMissing ==
  Files => \A k \in DOMAIN sc.args :
    (GlobSet(sc.tree, sc.args[k]) = {} /\ Len(sc.args) > 1) =>
      LET rest == [sc EXCEPT !.args = SubSeq(sc.args, 1, k - 1) \o SubSeq(sc.args, k + 1, Len(sc.args))] IN
      /\ OutcomeFull(sc).tally = OutcomeFull(rest).tally
      /\ OutcomeFull(sc).nerr = OutcomeFull(rest).nerr + 1
      /\ OutcomeFull(sc).exit = 2

\* -z is transparent for inputs that are not gzip: same outcome as without -z
LPlainUnderZ ==
  (Files /\ sc.gz /\ \A i \in DOMAIN Mentions(sc) : KindAt(sc.tree, Mentions(sc)[i].p) \notin GzKinds) =>
    LET o == OutcomeFull(sc) p == OutcomeFull([sc EXCEPT !.gz = FALSE]) IN
    o.tally = p.tally /\ o.exit = p.exit /\ o.nerr = p.nerr
\* gzip content is delivered decompressed: same outcome as the plain file with that content
LDecoded ==
  \A j \in DOMAIN sc.tree :
    (sc.gz /\ sc.tree[j].k \in {"gz", "mgz"}) =>
       OutcomeFull(sc) = OutcomeFull([sc EXCEPT !.tree[j].k = "file", !.tree[j].mem = <<>>])

\* the transport is transparent: a FIFO, /dev/stdin or a process substitution delivers, and fails,
\* exactly like the regular file with the same bytes - although it cannot be rewound and reports size 0
LTransport ==
  \A j \in DOMAIN sc.tree :
    (sc.tree[j].tr = "pipe" /\ sc.tree[j].p \notin MayPaths(sc)) =>
      LET asreg == [sc EXCEPT !.tree[j].tr = "reg"] IN
      /\ ReportedSize(sc.tree[j].k, sc.tree[j].data, "pipe") = 0
      /\ Mentions(asreg) = Mentions(sc)
      /\ \A cut \in {0, 1, 4} : OutcomeCut(sc, cut) = OutcomeCut(asreg, cut)
      /\ OutcomeFull(sc) = OutcomeFull(asreg)
\* the descriptor limit is not an input of the outcome: the run under the smallest admissible limit is
\* in the domain and demands the same rows, error count and exit status, for any number of mentions
LLimit ==
  LET low == [sc EXCEPT !.nofile = sc.readers + FdReserve] IN
  /\ InDomain(low) /\ MaxOpen(low) = MaxOpen(sc) /\ MaxOpen(sc) + FdReserve <= low.nofile
  /\ OutcomeFull(low) = OutcomeFull(sc)

\* exit-status precedence: read error (2) > parse error (2) > nothing matched (1) > 0
LExit ==
  \A o \in {OutcomeCut(sc, 0), OutcomeFull(sc)} :
    /\ o.nerr > 0 => o.exit = 2 /\ o.msg = "read"
    /\ (o.nerr = 0 /\ o.parse > 0) => o.exit = 2 /\ o.msg = "parse"
    /\ (o.nerr = 0 /\ o.parse = 0 /\ o.matched = 0) => o.exit = 1 /\ o.msg = "none"
    /\ (o.nerr = 0 /\ o.parse = 0 /\ o.matched > 0) => o.exit = 0 /\ o.msg = "none"
    /\ o.nerr = Cardinality({i \in DOMAIN Mentions(sc) : ReadOutcome(sc, Mentions(sc)[i]).err = 1})
    /\ sc.cmd = "filter" => o.parse = 0
=============================================================================

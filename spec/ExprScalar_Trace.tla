-------------------------- MODULE ExprScalar_Trace --------------------------
(* B2 for C11: every recorded evaluation of the real compiler                   *)
(*   {f, args, pos, got, cerr, panic}                                           *)
(* (seeded random calls, and the replayed B1 vectors) must satisfy the          *)
(* specification: Matches(Expect(f, args, pos), got).  The trace spec is total: *)
(* every record is consumed, the indices the specification cannot explain are   *)
(* collected in `bad` and written by the Final invariant.                        *)
EXTENDS ExprScalar, Json, TLC

Trace == ndJsonDeserialize("trace.ndjson")

VARIABLES l, bad, nontrivial
tvars == <<l, bad, nontrivial>>

Known(r) == r.f \in Funcs /\ Len(r.pos) = Len(r.args) /\ Len(r.args) >= 1
SpecOK(r) ==
  /\ Known(r)
  /\ ~r.panic                                   \* whatever the arguments: the helper returns
  /\ Matches(r.f, r.args, Expect(r.f, r.args, r.pos), r.got, r.cerr)
Demands(r) == Known(r) /\ Expect(r.f, r.args, r.pos).k # "any"
\* how a rejected record disagrees (used to classify findings)
Class(r) ==
  IF ~Known(r) THEN "unknown" ELSE IF r.panic THEN "panic"
  ELSE LET e == Expect(r.f, r.args, r.pos) IN
       IF ~(e.ce = "*" \/ (e.ce = "y") = r.cerr) THEN "cerr" ELSE e.k

TInit == l = 1 /\ bad = <<>> /\ nontrivial = 0
TNext ==
  /\ l <= Len(Trace)
  /\ l' = l + 1
  /\ bad' = IF SpecOK(Trace[l]) THEN bad ELSE Append(bad, [t |-> l, l |-> l, f |-> Trace[l].f, class |-> Class(Trace[l])])
  /\ nontrivial' = nontrivial + (IF Demands(Trace[l]) THEN 1 ELSE 0)
TSpec == TInit /\ [][TNext]_tvars

Final == (l = Len(Trace) + 1) =>
  JsonSerialize("bad.json", [bad |-> bad, consumed |-> l - 1, done |-> TRUE, nontrivial |-> nontrivial])
=============================================================================

---------------------------- MODULE ExprSizesLaws ----------------------------
(* C08, sizes: laws about the POOLS of ExprTotal that the generator replays on   *)
(* the real code (constant-level; checked by TLC on a one-state behaviour).      *)
(* On the real code a cut beyond a value or a store beyond a buffer is only      *)
(* observable as a crash, and only beyond the allocation's capacity; the laws    *)
(* state that the pools contain, for EVERY pair of units of length and EVERY     *)
(* plausible fixed capacity, the points that ExprSizes' counterexamples call     *)
(* for - by a margin that no allocation slack covers.                            *)
EXTENDS ExprTotal

CONSTANT Thorough
VARIABLE x
Init == x = 0
Next == x' = x

\* the character table against the encoding and the decoder of the runtime
TableOK == EncDecLaw(3) /\ UnitLaw(3)
\* the measures of the pooled texts, as the driver cross-checks them on the real strings
PoolTexts == TextPool \cup TextArrays
(* For every pair of units there is a pooled text on which they differ by more    *)
(* than any allocation slack - a helper that measures in one and cuts in the      *)
(* other goes beyond the capacity, not only beyond the length.                    *)
Apart(t, u1, u2) == Meas(u1, t) > SlackBound(Meas(u2, t))
TextAdequate == \A u1 \in Units : \A u2 \in Units \ {u1} : \E t \in TextPool : Apart(t, u1, u2) \/ Apart(t, u2, u1)
(* ... and for every such text and pair, windows of every shape among the         *)
(* offsets tried with it - a suffix ("the last k") and an inner window beyond     *)
(* the shorter measure, not only the whole value (which a shortcut may answer).   *)
WindowsOf(t, u) == {Norm(Meas(u, t), l, k) : l \in Offsets(t), k \in Offsets(t)}
Beyond(t, u1, u2, shape) == \E w \in WindowsOf(t, u1) : Shape(w, Meas(u1, t)) = shape /\ w[2] > SlackBound(Meas(u2, t))
WindowAdequate ==
  \A u1 \in Units : \A u2 \in Units \ {u1} :
     /\ \A t \in TextPool : Apart(t, u1, u2) => {Shape(w, Meas(u1, t)) : w \in WindowsOf(t, u1)} = Shapes /\ Beyond(t, u1, u2, "suffix")
     /\ (\E t \in TextPool : Apart(t, u1, u2)) =>
           \E t \in TextPool : Apart(t, u1, u2) /\ Beyond(t, u1, u2, "inner") /\ Beyond(t, u1, u2, "prefix")
\* the byte/rune pair in particular sits on both sides of the small-buffer sizes 32 and 64
BoundaryTexts == \A n \in {32, 64} : \E t \in TextPool : Meas("rune", t) = n /\ Meas("byte", t) = n + 1
(* Every helper without an upper limit is called with every count up to 10 and    *)
(* with a count beyond every plausible fixed capacity (plus its leading           *)
(* positions of another kind).                                                    *)
ArityAdequate ==
  \A f \in Variadic :
     /\ \A n \in 1..10 : n >= MinArgs(f) => n \in ProbedArities(f, Thorough)
     /\ \A K \in BufSizes : \E n \in ProbedArities(f, Thorough) : n > K + Len(Sig[f].kinds)
     /\ \A K \in {4, 8, 16, 32, 64, 128} : {K, K + 1} \subseteq ProbedArities(f, Thorough)
PoolLaws == TableOK /\ TextAdequate /\ WindowAdequate /\ BoundaryTexts /\ ArityAdequate
=============================================================================

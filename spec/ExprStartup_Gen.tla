--------------------------- MODULE ExprStartup_Gen ---------------------------
(* B1 for ExprStartup: every scenario (switches, funcs files, expression, match)  *)
(* with the value of the ABSTRACT layer - the inlined expression evaluated in the *)
(* run's environment - and the inlined tree itself, which the driver also sends   *)
(* through the real command line; one call site with its value on 16 lines for    *)
(* the contention replay.                                                         *)
EXTENDS ExprStartup_MC, Json

Enc(v) == IF v = ERR THEN [k |-> "err", v |-> <<>>] ELSE [k |-> "out", v |-> v]
RECURSIVE HasMissing(_)
HasMissing(t) == t.t = "missing" \/ \E i \in 1..Len(t.a) : HasMissing(t.a[i])
Group(files) == IF files = FEnv THEN "env" ELSE IF files = FTwo THEN "two" ELSE IF files = FOne THEN "one" ELSE IF files = FBad THEN "bad" ELSE IF files = FSite THEN "site" ELSE "gen"
RecOf(s) ==
  [kind |-> "startup", g |-> Group(s.files), flags |-> s.flags, files |-> s.files, expr |-> s.expr, m |-> s.m,
   inl |-> IF HasMissing(InlinedExpr(s)) THEN Lit(<<>>) ELSE InlinedExpr(s), inlok |-> ~HasMissing(InlinedExpr(s)), exp |-> Enc(Expected(s))]
SiteRec ==
  [kind |-> "site", files |-> FSite, expr |-> SiteExpr,
   inl |-> InlinedExpr([flags |-> <<>>, files |-> FSite, expr |-> SiteExpr, m |-> <<>>, opt |-> TRUE]),
   lines |-> [i \in 1..Cardinality(SiteLines) |->
               LET l == SetToSeq(SiteLines)[i] IN [m |-> l, exp |-> Enc(Expected([flags |-> <<>>, files |-> FSite, expr |-> SiteExpr, m |-> l, opt |-> TRUE]))]]]
GScn == {s \in Scenarios : s.opt /\ s.files # FSite}
SiteTag == [flags |-> <<>>, files |-> <<>>, expr |-> Lit(<<>>), m |-> <<>>, opt |-> FALSE]
GInit == sc \in GScn \cup {SiteTag} /\ pc = <<"done", 0>> /\ env = DefaultEnv /\ tab = <<>> /\ regs = <<>> /\ cache = {} /\ out = <<>>
GNext == FALSE /\ UNCHANGED vars
Dump == IF sc = SiteTag THEN PrintT("VFJ " \o ToJson(SiteRec)) ELSE PrintT("VFJ " \o ToJson(RecOf(sc)))
=============================================================================

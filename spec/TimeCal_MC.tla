----------------------------- MODULE TimeCal_MC -----------------------------
(* B3 for C18: the property's laws, decided by TLC on the model TimeCal.           *)
(* Every state below a group header is one case; LawOK is the invariant.           *)
(*   day   : Civil / DaysFromCivil are inverse for every day 1969..2101, the next  *)
(*           day is the calendar successor, weekdays cycle, the ISO week is the    *)
(*           week of its Thursday counted from the first Thursday of the year      *)
(*           (1..53), it changes on Mondays only, quarter is 1..4 with             *)
(*           January-March = 1                                                     *)
(*   dst   : in the rule zones the offset is one of two values, changes only at a  *)
(*           rule instant (exactly two change days in every year; every day of     *)
(*           every sixth year - of every year when Thorough - probed around the   *)
(*           hours rules use), and both sides of a change are a Sunday on the      *)
(*           local calendar; a skipped local hour is no reading, a repeated one is *)
(*           ambiguous                                                             *)
(*   rt    : Parse(Format(t)) = t truncated to the precision of the layout for     *)
(*           every layout with date, time and numeric offset, in every zone;       *)
(*           layouts without offset resolve to t or are ambiguous (repeated hour), *)
(*           never skipped; every one-character corruption of a printed text, its  *)
(*           truncation and its extension are rejected                             *)
(*   unix  : the decimal text of an instant converts back to the instant           *)
(*   dur   : DurParse(DurText(n)) = n, h/m/s arithmetic, canonical text            *)
EXTENDS TimeCal, TLC

CONSTANT Thorough

VARIABLE c

RuleZones == {"America/New_York", "Europe/Berlin", "Australia/Sydney"}
RTFormats == {f \in KnownFormats : LET lay == Layout(f) IN HasDate(lay) /\ HasTime(lay) /\ HasNumOff(lay) /\ Parseable(lay)}
ZonelessFormats == {f \in KnownFormats : LET lay == Layout(f) IN HasDate(lay) /\ HasTime(lay) /\ ~HasNumOff(lay) /\ Parseable(lay)}

Succ(cv) == IF cv.d < DaysInMonth(cv.y, cv.m) THEN [cv EXCEPT !.d = cv.d + 1]
            ELSE IF cv.m < 12 THEN [y |-> cv.y, m |-> cv.m + 1, d |-> 1] ELSE [y |-> cv.y + 1, m |-> 1, d |-> 1]

DayLaw(d) ==
  LET cv == Civil(d)
      w  == IsoWeek(d)
      thu == d - IsoWd(d) + 4                        \* the Thursday of d's ISO week
      q  == Quarter(cv.m)
  IN /\ DaysFromCivil(cv.y, cv.m, cv.d) = d
     /\ cv.m \in 1..12 /\ cv.d \in 1..DaysInMonth(cv.y, cv.m)
     /\ Civil(d + 1) = Succ(cv)
     /\ Weekday(d + 1) = (Weekday(d) + 1) % 7
     /\ IsoWd(d) = (IF Weekday(d) = 0 THEN 7 ELSE Weekday(d))
     /\ YearDay(d) \in 1..(IF IsLeap(cv.y) THEN 366 ELSE 365)
     /\ w.w \in 1..53
     /\ w.y = Civil(thu).y /\ w.w = (YearDay(thu) - 1) \div 7 + 1
     /\ (IsoWd(d) # 7 => IsoWeek(d + 1) = w)
     /\ (IsoWd(d) = 7 => IsoWeek(d + 1) # w /\ IsoWeek(d + 1) \in {[y |-> w.y, w |-> w.w + 1], [y |-> w.y + 1, w |-> 1]})
     /\ q \in 1..4 /\ 3 * (q - 1) < cv.m /\ cv.m <= 3 * q /\ (cv.m \in 1..3 <=> q = 1)

Anchors ==
  /\ Civil(0) = [y |-> 1970, m |-> 1, d |-> 1] /\ Weekday(0) = 4
  /\ DaysFromCivil(2000, 3, 1) = 11017 /\ DaysFromCivil(2100, 1, 1) = 47482 /\ MaxDay = 47846
  /\ IsoWeek(DaysFromCivil(2021, 1, 3)) = [y |-> 2020, w |-> 53]
  /\ IsoWeek(DaysFromCivil(2024, 12, 30)) = [y |-> 2025, w |-> 1]
  /\ UnixDigits(Inst(17361, 9600)) = <<49, 53, 48, 48, 48, 48, 48, 48, 48, 48>>          \* 1500000000
  /\ UnixDigits(Inst(47482, 0)) = <<52, 49, 48, 50, 52, 52, 52, 56, 48, 48>>             \* 4102444800
  /\ UnixDigits(Inst(0, 0)) = <<48>> /\ UnixDigits(Inst(0, 7)) = <<55>> /\ UnixDigits(Inst(0, 100)) = <<49, 48, 48>>
  \* 2024: New York Mar 10 / Nov 3, Berlin Mar 31 / Oct 27, Sydney Apr 7 / Oct 6
  /\ Transitions("ny", 2024) = [on |-> Inst(DaysFromCivil(2024, 3, 10), 25200), off |-> Inst(DaysFromCivil(2024, 11, 3), 21600)]
  /\ Transitions("berlin", 2024) = [on |-> Inst(DaysFromCivil(2024, 3, 31), 3600), off |-> Inst(DaysFromCivil(2024, 10, 27), 3600)]
  /\ Transitions("sydney", 2024) = [on |-> Inst(DaysFromCivil(2024, 10, 5), 57600), off |-> Inst(DaysFromCivil(2024, 4, 6), 57600)]
  /\ Offset(Zone("Australia/Sydney"), Inst(DaysFromCivil(2024, 1, 1), 0)) = 39600
  /\ Offset(Zone("America/New_York"), Inst(DaysFromCivil(2024, 7, 1), 0)) = 0 - 14400

Probe == {0, 3599, 3600, 21599, 21600, 25199, 25200, 57599, 57600, 86399}
DstDayLaw(z, d) ==
  LET zd == Zone(z)
      o0 == Offset(zd, Inst(d, 0))
      o1 == Offset(zd, Inst(d + 1, 0))
      tr == Transitions(zd.kind, Civil(d).y)
      At == {t \in {tr.on, tr.off} : t.d = d}
  IN /\ o0 \in {zd.std, zd.dst} /\ zd.dst = zd.std + 3600
     /\ (o0 = o1 => At = {} /\ \A s \in Probe : Offset(zd, Inst(d, s)) = o0)
     /\ (o0 # o1 => /\ Cardinality(At) = 1
                    /\ LET t == CHOOSE t \in At : TRUE IN
                       /\ \A s \in Probe \cup {t.s - 1, t.s} : Offset(zd, Inst(d, s)) = (IF s < t.s THEN o0 ELSE o1)
                       /\ Local(zd, Plus(t, 0 - 1)).wd = 0 /\ Local(zd, t).wd = 0
                       /\ Local(zd, t).mi = 0 /\ Local(zd, t).ss = 0)
DstYearLaw(z, y) ==
  LET zd == Zone(z) IN
  Cardinality({d \in DaysFromCivil(y, 1, 1)..DaysFromCivil(y, 12, 31) :
               Offset(zd, Inst(d, 0)) # Offset(zd, Inst(d + 1, 0))}) = 2

\* printed text and its reading
Corruptions(s) == {[i \in 1..Len(s) |-> IF i = k THEN 120 ELSE s[i]] : k \in 1..Len(s)}
                  \cup {SubSeq(s, 1, Len(s) - 1), s \o <<120>>, s \o <<48>>, <<>>}
RtLaw(z, t) ==
  LET zd == Zone(z) l == Local(zd, t) IN
  /\ \A f \in RTFormats :
       LET lay == Layout(f) s == Format(lay, l) r == ParseM(lay, s) IN
       /\ r.ok /\ r.hasoff /\ r.off = l.off
       /\ (YearCarried(lay, l) => Resolve(r, zd) = [k |-> "one", t |-> Inst(t.d, TruncSecs(lay, t.s))])
       /\ \A bad \in Corruptions(s) : ~ParseM(lay, bad).ok
  /\ \A f \in ZonelessFormats :
       LET lay == Layout(f) s == Format(lay, l) r == ParseM(lay, s) q == Resolve(r, zd) IN
       /\ r.ok /\ ~r.hasoff
       /\ q.k \in {"one", "two", "out"}
       /\ (q.k = "one" /\ YearCarried(lay, l) => q.t = Inst(t.d, TruncSecs(lay, t.s)))
       /\ (q.k = "two" => zd.kind # "fixed")
       /\ \A bad \in Corruptions(s) : ~ParseM(lay, bad).ok
  /\ InstOfDigits(UnixDigits(t)) = [ok |-> TRUE, t |-> t]
  \* the bucket layouts are nested truncations of one reading
  /\ LET full == Format(BucketLayout("seconds"), l) IN
     /\ Format(BucketLayout("nanos"), l) = full
     /\ \A k \in {"minutes", "hours", "days", "months", "years"} : IsPrefixOf(Format(BucketLayout(k), l), full)
     /\ Len(Format(BucketLayout("minutes"), l)) = 16 /\ Len(Format(BucketLayout("hours"), l)) = 13
     /\ Len(Format(BucketLayout("days"), l)) = 10 /\ Len(Format(BucketLayout("months"), l)) = 7
     /\ Len(Format(BucketLayout("years"), l)) = 4

\* a skipped local hour is never the reading of an instant; the repeated hour is read as "two"
GapLaw(z, y) ==
  LET zd == Zone(z) tr == Transitions(zd.kind, y)
      lay == Layout("2006-01-02 15:04:05")
      lon == Local(zd, tr.on)                 \* first reading after the gap: hh:00:00 in DST
      gap == [lon EXCEPT !.hh = lon.hh - 1, !.mi = 30]
      loff == Local(zd, tr.off)               \* first reading of the repeated hour (standard time)
  IN /\ Resolve(ParseM(lay, Format(lay, gap)), zd).k = "none"
     /\ Resolve(ParseM(lay, Format(lay, [loff EXCEPT !.mi = 30])), zd).k = "two"

DurLaw(n) ==
  LET s == DurText(n) r == DurParse(s) a == AbsI(n) IN
  /\ r = [k |-> "ok", v |-> n]
  /\ s[Len(s)] = 115
  /\ (a < 60 => Len(SelectSeq(s, LAMBDA ch : ch \in {104, 109})) = 0)
  /\ (a >= 3600 => Len(SelectSeq(s, LAMBDA ch : ch = 104)) = 1 /\ Len(SelectSeq(s, LAMBDA ch : ch = 109)) = 1)
  /\ DurParse(Itoa(a) \o <<115>>) = [k |-> "ok", v |-> a]
  /\ (a <= 270000 => DurParse(Itoa(a) \o <<104>>) = [k |-> "ok", v |-> a * 3600])
  /\ DurParse(Itoa(a)).k = (IF a = 0 THEN "ok" ELSE "err")
  /\ DurParse(s \o <<120>>).k = "err"

H(g, z, n) == [k |-> "hdr", g |-> g, z |-> z, n |-> n]
Groups == {H("anchor", "", 0)} \cup {H("day", "", b) : b \in 0..48} \cup {H("dst", z, y) : z \in RuleZones, y \in 1996..2100}
          \cup {H("rt", z, y) : z \in ZoneNames, y \in IF Thorough THEN 1970..2100 ELSE {1970, 2000, 2024, 2038, 2068, 2069, 2100}}
          \cup {H("dur", "", b) : b \in 0..(IF Thorough THEN 99 ELSE 9)}

RtInstants(z, y) ==
  LET zd == Zone(z)
      months == IF Thorough THEN {1, 3, 7, 11} ELSE {1, 3, 11}
      base == {Norm(DaysFromCivil(y, m, 1), dl - off) : m \in months, dl \in {0 - 1, 0, 45296}, off \in {zd.std, zd.dst}}
      trs == IF zd.kind = "fixed" THEN {}
             ELSE LET tr == Transitions(zd.kind, y) IN
                  {Plus(t, dl) : t \in {tr.on, tr.off}, dl \in {0 - 3600, 0 - 1, 0, 1799, 3599, 3600}}
  IN {t \in base \cup trs : InZoneDomain(zd, t)}

Cases(h) ==
  CASE h.g = "anchor" -> {[k |-> "anchor"]}
    [] h.g = "day" -> {[k |-> "day", d |-> d] : d \in {d \in (h.n * 1000 - 400)..(h.n * 1000 + 599) : d <= MaxDay + 400}}
    [] h.g = "dst" -> IF DaysFromCivil(h.n, 1, 2) < Zone(h.z).from THEN {}
                      ELSE {[k |-> "dstday", z |-> h.z, d |-> d] :
                              d \in IF Thorough \/ h.n % 6 = 0 THEN DaysFromCivil(h.n, 1, 2)..DaysFromCivil(h.n, 12, 31) ELSE {}}
                           \cup {[k |-> "dstyear", z |-> h.z, y |-> h.n]}
    [] h.g = "rt" -> {[k |-> "rt", z |-> h.z, t |-> t] : t \in RtInstants(h.z, h.n)}
    [] h.g = "dur" -> {[k |-> "dur", n |-> n] : n \in (h.n * 1000 - 100)..(h.n * 1000 + 899)}
                      \cup {[k |-> "dur", n |-> n * 3600 + dl] : n \in (h.n * 30)..(h.n * 30 + 29), dl \in {0 - 1, 0, 1, 60}}
                      \cup {[k |-> "dur", n |-> 0 - (n * 3599)] : n \in (h.n * 30)..(h.n * 30 + 29)}
                      \cup {[k |-> "dur", n |-> 999999999 - h.n], [k |-> "dur", n |-> h.n - 999999999]}

Init == c \in Groups
Next == c.k = "hdr" /\ \E x \in Cases(c) : c' = x

LawOK ==
  CASE c.k = "hdr" -> TRUE
    [] c.k = "anchor" -> Anchors
    [] c.k = "day" -> DayLaw(c.d)
    [] c.k = "dstday" -> DstDayLaw(c.z, c.d)
    [] c.k = "dstyear" -> DstYearLaw(c.z, c.y) /\ GapLaw(c.z, c.y)
    [] c.k = "rt" -> RtLaw(c.z, c.t)
    [] c.k = "dur" -> DurLaw(c.n)
=============================================================================

------------------------------ MODULE MathExpr ------------------------------
(* C19 - the formula language of `{! ...}` (pkg/expressions/stdmath).           *)
(*                                                                              *)
(* Part 1  operator table (documented order of operations), trees               *)
(* Part 2  exact values: rationals <<n, d>> with an explicit domain (magnitude, *)
(*         denominators, a bound on the float64 rounding error of the real      *)
(*         evaluation); outside the domain the specification demands nothing    *)
(* Part 3  surface syntax: token spellings, the printer PrintF(tree, variant)    *)
(* Part 4  the reference grammar ParseRef (precedence climbing with binding     *)
(*         powers, written from docs/usage/math.md) and the classification      *)
(*         Class(tokens) in {"wf", "mal", "undoc"} by a flat scan               *)
(* Part 5  an implementation-shaped transcription of tokenizeExpr,              *)
(*         compileTokens/getNextExpr/getNextOp/compileToken and opCodeOrder     *)
(*                                                                              *)
(* A formula is a sequence of tokens; a token is a TLA+ string used as a tag    *)
(* ("2", "0x1F", "[x]", "<<", "(", "abs").  The text handed to the real code is *)
(* the concatenation of the tokens, with or without blanks between them.        *)
EXTENDS Integers, Sequences, FiniteSets, TLC

\* ===================================================================== Part 1
\* Levels as the property lists them (^ before * / % before + - before
\* comparisons before && ||); the places of the shift and bit operators are the
\* ones of the implementation's table (the documentation only says "common
\* order of operations"): an assumption recorded by the check.
BinOps == {"^", "<<", ">>", "*", "/", "%", "&", "|", "+", "-",
           "==", "=", "<=", ">=", "<", ">", "&&", "||"}
CmpOps == {"==", "=", "<=", ">=", "<", ">"}
Prec(op) ==
  CASE op = "^" -> 7
    [] op \in {"<<", ">>"} -> 6
    [] op \in {"*", "/", "%"} -> 5
    [] op \in {"&", "|"} -> 4
    [] op \in {"+", "-"} -> 3
    [] op \in CmpOps -> 2
    [] op \in {"&&", "||"} -> 1
UnChars == {"-", "!"}                       \* written directly before the value
ExactFuncs == {"abs", "floor", "ceil", "round"}
OtherFuncs == {"sqrt", "sin", "asin", "cos", "acos", "tan", "atan",
               "exp", "exp2", "log", "log10", "log2"}      \* no value model: constant/variable law only
Funcs == ExactFuncs \cup OtherFuncs

Num(q) == [k |-> "num", q |-> q]            \* q = <<n, d>>, d > 0, lowest terms
Var(i) == [k |-> "var", i |-> i]            \* i-th variable
Un(op, a) == [k |-> "un", op |-> op, a |-> a]
Bin(op, l, r) == [k |-> "bin", op |-> op, l |-> l, r |-> r]

\* ===================================================================== Part 2
AbsI(x) == IF x < 0 THEN 0 - x ELSE x
SgnI(x) == IF x < 0 THEN 0 - 1 ELSE IF x > 0 THEN 1 ELSE 0
MaxI(a, b) == IF a > b THEN a ELSE b
RECURSIVE GCD(_, _)
GCD(a, b) == IF b = 0 THEN a ELSE GCD(b, a % b)
RECURSIVE P2(_)
P2(k) == IF k = 0 THEN 1 ELSE 2 * P2(k - 1)

NLIM == 1000000                             \* |numerator| of every value in the domain
DLIM == 1024                                \* denominator of every value in the domain
EXACT == 0 - 99                             \* error exponent of a value float64 computes exactly
IsPow2(d) == d \in {1, 2, 4, 8, 16, 32, 64, 128, 256, 512, 1024}

(* A value: def = inside the domain; n/d; e = EXACT, or an exponent with        *)
(* |float64 result - n/d| <= 10^e (a coarse, sound interval analysis: the real  *)
(* code computes in float64, every operation rounds with relative error         *)
(* < 1.2e-16).  Values whose bound exceeds 10^-6 are outside the domain.        *)
Undef == [def |-> FALSE, n |-> 0, d |-> 1, e |-> 0]
\* smallest k with |n/d| < 10^k
Mag10(n, d) ==
  LET q == AbsI(n) \div d IN
  IF q < 1 THEN 0 ELSE IF q < 10 THEN 1 ELSE IF q < 100 THEN 2 ELSE IF q < 1000 THEN 3
  ELSE IF q < 10000 THEN 4 ELSE IF q < 100000 THEN 5 ELSE IF q < 1000000 THEN 6 ELSE 7
\* smallest k with 1/|n/d| <= 10^k   (n # 0)
InvMag10(n, d) ==
  LET q == (d + AbsI(n) - 1) \div AbsI(n) IN
  IF q <= 1 THEN 0 ELSE IF q <= 10 THEN 1 ELSE IF q <= 100 THEN 2 ELSE IF q <= 1000 THEN 3 ELSE 4
MulFits(a, b) == a = 0 \/ b = 0 \/ AbsI(a) <= 2000000000 \div AbsI(b)

\* n/d (d > 0) computed from operands whose propagated error exponent is ein
Mk(n, d, ein) ==
  LET g == GCD(AbsI(n), d)
      n1 == SgnI(n) * (AbsI(n) \div g)
      d1 == d \div g
  IN IF AbsI(n1) > NLIM \/ d1 > DLIM THEN Undef
     ELSE IF ein = EXACT /\ IsPow2(d1) THEN [def |-> TRUE, n |-> n1, d |-> d1, e |-> EXACT]
     ELSE LET enew == Mag10(n1, d1) - 15
              e == IF ein = EXACT THEN enew ELSE MaxI(ein, enew) + 1
          IN IF e > 0 - 6 THEN Undef ELSE [def |-> TRUE, n |-> n1, d |-> d1, e |-> e]
I(n) == Mk(n, 1, EXACT)
Q(q) == Mk(q[1], q[2], EXACT)
ErrTerm(x, extra) == IF x.e = EXACT THEN EXACT ELSE x.e + extra

RAdd(x, y) == Mk(x.n * y.d + y.n * x.d, x.d * y.d, MaxI(x.e, y.e))
RSub(x, y) == Mk(x.n * y.d - y.n * x.d, x.d * y.d, MaxI(x.e, y.e))
RMul(x, y) ==
  IF ~MulFits(x.n, y.n) THEN Undef
  ELSE Mk(x.n * y.n, x.d * y.d, MaxI(ErrTerm(x, Mag10(y.n, y.d)), ErrTerm(y, Mag10(x.n, x.d))))
RDiv(x, y) ==
  IF y.n = 0 THEN Undef                      \* +-Inf / NaN: outside the domain
  ELSE Mk(SgnI(y.n) * x.n * y.d, x.d * AbsI(y.n),
          MaxI(ErrTerm(x, InvMag10(y.n, y.d)),
               ErrTerm(y, Mag10(x.n, x.d) + 2 * InvMag10(y.n, y.d))))
RCmp(x, y) == SgnI(x.n * y.d - y.n * x.d)
\* is the float64 comparison certain to agree with the rational one?
CmpDecided(x, y) ==
  IF RCmp(x, y) # 0 THEN MaxI(x.e, y.e) <= 0 - 8      \* distinct values of the domain differ by > 9e-7
  ELSE x.e = EXACT /\ y.e = EXACT
Truth(v) == IF v.n # 0 THEN (IF v.e <= 0 - 8 THEN "t" ELSE "u")
            ELSE (IF v.e = EXACT THEN "f" ELSE "u")
B01(b) == I(IF b THEN 1 ELSE 0)

\* b^k for b >= 0, or -1 when it does not fit
RECURSIVE IPow(_, _)
IPow(b, k) == IF k = 0 THEN 1
              ELSE LET p == IPow(b, k - 1) IN IF p < 0 \/ ~MulFits(p, b) THEN 0 - 1 ELSE p * b
RPow(x, y) ==
  IF ~(x.e = EXACT /\ y.e = EXACT /\ y.d = 1 /\ AbsI(y.n) <= 32) THEN Undef    \* integer exponents only
  ELSE LET k == AbsI(y.n)
           pn == IPow(AbsI(x.n), k)
           pd == IPow(x.d, k)
           sg == IF x.n < 0 /\ k % 2 = 1 THEN 0 - 1 ELSE 1
       IN IF pn < 0 \/ pd < 0 THEN Undef
          ELSE IF y.n >= 0 THEN Mk(sg * pn, pd, EXACT)
          ELSE IF x.n = 0 THEN Undef ELSE Mk(sg * pd, pn, EXACT)

\* integer-only operators: on exactly computed integers (the code truncates to int64)
IntArg(v) == v.e = EXACT /\ v.d = 1
RECURSIVE BitAnd(_, _), BitOr(_, _)
BitAnd(a, b) == IF a = 0 \/ b = 0 THEN 0 ELSE (a % 2) * (b % 2) + 2 * BitAnd(a \div 2, b \div 2)
BitOr(a, b) == IF a = 0 THEN b ELSE IF b = 0 THEN a
               ELSE MaxI(a % 2, b % 2) + 2 * BitOr(a \div 2, b \div 2)
RInt(op, x, y) ==
  IF ~(IntArg(x) /\ IntArg(y) /\ x.n >= 0) THEN Undef
  ELSE CASE op = "%"  -> IF y.n > 0 THEN I(x.n % y.n) ELSE Undef      \* zero / negative: only "no crash"
         [] op = "<<" -> IF y.n >= 0 /\ y.n <= 20 /\ x.n <= NLIM \div P2(y.n) THEN I(x.n * P2(y.n)) ELSE Undef
         [] op = ">>" -> IF y.n < 0 \/ y.n > 62 THEN Undef ELSE IF y.n > 20 THEN I(0) ELSE I(x.n \div P2(y.n))
         [] op = "&"  -> IF y.n >= 0 THEN I(BitAnd(x.n, y.n)) ELSE Undef
         [] op = "|"  -> IF y.n >= 0 THEN I(BitOr(x.n, y.n)) ELSE Undef

BinVal(op, x, y) ==
  IF ~(x.def /\ y.def) THEN Undef
  ELSE CASE op = "+" -> RAdd(x, y)
         [] op = "-" -> RSub(x, y)
         [] op = "*" -> RMul(x, y)
         [] op = "/" -> RDiv(x, y)
         [] op = "^" -> RPow(x, y)
         [] op \in {"%", "<<", ">>", "&", "|"} -> RInt(op, x, y)
         [] op \in CmpOps ->
              IF ~CmpDecided(x, y) THEN Undef
              ELSE LET c == RCmp(x, y) IN
                   B01(CASE op \in {"==", "="} -> c = 0 [] op = "<" -> c < 0 [] op = "<=" -> c <= 0
                         [] op = ">" -> c > 0 [] op = ">=" -> c >= 0)
         [] op \in {"&&", "||"} ->
              LET a == Truth(x)
                  b == Truth(y) IN
              IF a = "u" \/ b = "u" THEN Undef
              ELSE B01(IF op = "&&" THEN a = "t" /\ b = "t" ELSE a = "t" \/ b = "t")

UnVal(op, x) ==
  IF ~x.def THEN Undef
  ELSE CASE op = "-" -> [x EXCEPT !.n = 0 - x.n]
         [] op = "!" -> IF Truth(x) = "u" THEN Undef ELSE B01(Truth(x) = "f")
         [] op = "abs" -> [x EXCEPT !.n = AbsI(x.n)]
         [] op = "floor" -> IF x.e = EXACT THEN I(x.n \div x.d) ELSE Undef
         [] op = "ceil" -> IF x.e = EXACT THEN I(0 - ((0 - x.n) \div x.d)) ELSE Undef
         [] op = "round" -> IF x.e # EXACT \/ x.d = 2 THEN Undef        \* ties: direction not documented
                            ELSE I(SgnI(x.n) * ((2 * AbsI(x.n) + x.d) \div (2 * x.d)))
         [] OTHER -> Undef

\* bind: sequence of <<n, d>>, the values of the variables 1..Len(bind)
RECURSIVE Value(_, _)
Value(t, bind) ==
  CASE t.k = "num" -> Q(t.q)
    [] t.k = "var" -> IF t.i \in DOMAIN bind THEN Q(bind[t.i]) ELSE Undef
    [] t.k = "un" -> UnVal(t.op, Value(t.a, bind))
    [] t.k = "bin" -> BinVal(t.op, Value(t.l, bind), Value(t.r, bind))
    [] OTHER -> Undef
SameVal(a, b) == a.def = b.def /\ (a.def => a.n = b.n /\ a.d = b.d)

RECURSIVE NOps(_), VarFree(_), Subst(_, _)
NOps(t) == CASE t.k = "un" -> 1 + NOps(t.a) [] t.k = "bin" -> 1 + NOps(t.l) + NOps(t.r) [] OTHER -> 0
VarFree(t) == CASE t.k = "var" -> FALSE [] t.k = "un" -> VarFree(t.a)
                [] t.k = "bin" -> VarFree(t.l) /\ VarFree(t.r) [] OTHER -> TRUE
\* every variable replaced by the constant it is bound to (non-negative bindings only: a literal has no sign)
Subst(t, bind) ==
  CASE t.k = "var" -> IF bind[t.i][1] >= 0 THEN Num(bind[t.i]) ELSE Un("-", Num(<<0 - bind[t.i][1], bind[t.i][2]>>))
    [] t.k = "un" -> Un(t.op, Subst(t.a, bind))
    [] t.k = "bin" -> Bin(t.op, Subst(t.l, bind), Subst(t.r, bind))
    [] OTHER -> t

\* ===================================================================== Part 3
MaxLit == 20
HexD == <<"0", "1", "2", "3", "4", "5", "6", "7", "8", "9", "A", "B", "C", "D", "E", "F">>
HexL == <<"0", "1", "2", "3", "4", "5", "6", "7", "8", "9", "a", "b", "c", "d", "e", "f">>
RECURSIVE HexS(_, _), BinS(_)
HexS(n, tab) == IF n < 16 THEN tab[n + 1] ELSE HexS(n \div 16, tab) \o tab[(n % 16) + 1]
BinS(n) == IF n < 2 THEN ToString(n) ELSE BinS(n \div 2) \o ToString(n % 2)
NumStyles == {"d", "x", "xl", "b", "f"}
Spell(n, st) ==
  CASE st = "d" -> ToString(n)
    [] st = "x" -> "0x" \o HexS(n, HexD)
    [] st = "xl" -> "0x" \o HexS(n, HexL)
    [] st = "b" -> "0b" \o BinS(n)
    [] st = "f" -> ToString(n) \o ".0"
FracTable == [s \in {"0.5", "1.5", "2.5", "0.25", "0.75", "2.50", "0.1"} |->
               CASE s = "0.5" -> <<1, 2>> [] s = "1.5" -> <<3, 2>> [] s = "2.5" -> <<5, 2>>
                 [] s = "0.25" -> <<1, 4>> [] s = "0.75" -> <<3, 4>> [] s = "2.50" -> <<5, 2>>
                 [] s = "0.1" -> <<1, 10>>]
\* The spellings of 0..MaxLit, written out (TLC re-evaluates computed tables at every use); the law
\* SpellTableOK (MathExpr_MC) checks every entry against the positional definition Spell above.
LitD == <<"0", "1", "2", "3", "4", "5", "6", "7", "8", "9", "10", "11", "12", "13", "14", "15", "16", "17", "18", "19", "20">>
LitX == <<"0x0", "0x1", "0x2", "0x3", "0x4", "0x5", "0x6", "0x7", "0x8", "0x9", "0xA", "0xB", "0xC", "0xD", "0xE", "0xF", "0x10", "0x11", "0x12", "0x13", "0x14">>
LitXL == <<"0x0", "0x1", "0x2", "0x3", "0x4", "0x5", "0x6", "0x7", "0x8", "0x9", "0xa", "0xb", "0xc", "0xd", "0xe", "0xf", "0x10", "0x11", "0x12", "0x13", "0x14">>
LitB == <<"0b0", "0b1", "0b10", "0b11", "0b100", "0b101", "0b110", "0b111", "0b1000", "0b1001", "0b1010", "0b1011", "0b1100", "0b1101", "0b1110", "0b1111", "0b10000", "0b10001", "0b10010", "0b10011", "0b10100">>
LitF == <<"0.0", "1.0", "2.0", "3.0", "4.0", "5.0", "6.0", "7.0", "8.0", "9.0", "10.0", "11.0", "12.0", "13.0", "14.0", "15.0", "16.0", "17.0", "18.0", "19.0", "20.0">>
LitSeq(st) == CASE st = "d" -> LitD [] st = "x" -> LitX [] st = "xl" -> LitXL [] st = "b" -> LitB [] st = "f" -> LitF
SpellTableOK == \A st \in NumStyles : Len(LitSeq(st)) = MaxLit + 1 /\ \A n \in 0..MaxLit : LitSeq(st)[n + 1] = Spell(n, st)
InSeq(s, sq) == \E i \in 1..Len(sq) : sq[i] = s
IdxIn(s, sq) == CHOOSE i \in 1..Len(sq) : sq[i] = s
LitStyleOf(s) == IF InSeq(s, LitD) THEN "d" ELSE IF InSeq(s, LitX) THEN "x" ELSE IF InSeq(s, LitXL) THEN "xl"
                 ELSE IF InSeq(s, LitB) THEN "b" ELSE IF InSeq(s, LitF) THEN "f" ELSE ""
FracDom == {"0.5", "1.5", "2.5", "0.25", "0.75", "2.50", "0.1"}
IsLit(s) == s \in FracDom \/ LitStyleOf(s) # ""
LitVal(s) == IF s \in FracDom THEN FracTable[s] ELSE <<IdxIn(s, LitSeq(LitStyleOf(s))) - 1, 1>>
NumSpell(q, st) == IF q[2] = 1 /\ q[1] <= MaxLit THEN LitSeq(st)[q[1] + 1]
                   ELSE CHOOSE s \in FracDom : FracTable[s] = q /\ s # "2.50"

NVars == 8
VarBare == <<"x", "y", "z", "w", "p", "q", "r", "s">>
VarStyles == {"bare", "boxed", "idx"}
VarSpellDef(i, st) ==
  CASE st = "bare" -> VarBare[i]
    [] st = "boxed" -> "[" \o VarBare[i] \o "]"
    [] st = "idx" -> "[" \o ToString(i - 1) \o "]"
VarBoxed == <<"[x]", "[y]", "[z]", "[w]", "[p]", "[q]", "[r]", "[s]">>
VarIdxS == <<"[0]", "[1]", "[2]", "[3]", "[4]", "[5]", "[6]", "[7]">>
VarSeq(st) == CASE st = "bare" -> VarBare [] st = "boxed" -> VarBoxed [] st = "idx" -> VarIdxS
VarTableOK == \A st \in VarStyles : \A i \in 1..NVars : VarSeq(st)[i] = VarSpellDef(i, st)
VarSpell(i, st) == VarSeq(st)[i]
VarStyleOf(s) == IF InSeq(s, VarBare) THEN "bare" ELSE IF InSeq(s, VarBoxed) THEN "boxed"
                 ELSE IF InSeq(s, VarIdxS) THEN "idx" ELSE ""
IsVar(s) == VarStyleOf(s) # ""
VarIdx(s) == IdxIn(s, VarSeq(VarStyleOf(s)))

(* variant: par = "min" (only the parentheses the grammar needs) | "full"       *)
(* (every operand, even a leaf, in parentheses); imp: the `*` before a group is *)
(* left out; num / var: spellings.                                              *)
Paren(s) == <<"(">> \o s \o <<")">>
RECURSIVE Pr(_, _)
Pr(t, v) ==
  CASE t.k = "num" -> <<NumSpell(t.q, v.num)>>
    [] t.k = "var" -> <<VarSpell(t.i, v.var)>>
    [] t.k = "un" ->
         IF t.op \in Funcs THEN <<t.op>> \o Paren(Pr(t.a, v))
         ELSE <<t.op>> \o (IF v.par = "full" \/ t.a.k = "bin" \/ (t.a.k = "un" /\ t.a.op \in UnChars)
                           THEN Paren(Pr(t.a, v)) ELSE Pr(t.a, v))
    [] t.k = "bin" ->
         LET lp == v.par = "full" \/ (t.l.k = "bin" /\ Prec(t.l.op) < Prec(t.op))
             imp == v.imp /\ t.op = "*"
             rp == imp \/ v.par = "full" \/ (t.r.k = "bin" /\ Prec(t.r.op) <= Prec(t.op))
         IN (IF lp THEN Paren(Pr(t.l, v)) ELSE Pr(t.l, v))
            \o (IF imp THEN <<>> ELSE <<t.op>>)
            \o (IF rp THEN Paren(Pr(t.r, v)) ELSE Pr(t.r, v))
PrintF(t, v) == Pr(t, v)
Variants == [par : {"min", "full"}, imp : BOOLEAN, num : NumStyles, var : VarStyles]
V0 == [par |-> "min", imp |-> FALSE, num |-> "d", var |-> "bare"]

\* ===================================================================== Part 4
POK(t, rest) == [ok |-> TRUE, t |-> t, rest |-> rest]
PFail == [ok |-> FALSE, t |-> <<>>, rest |-> <<>>]
(*  Expr    ::= Operand { binop Operand }      levels by Prec, equal levels left to right            *)
(*  Operand ::= [ "-" | "!" ] Atom                                                                    *)
(*  Atom    ::= number | variable | "(" Expr ")" | function "(" Expr ")"                              *)
(*  a "(" where an operator is expected is an implied "*" (docs: {! 2(1+1)} => 4)                     *)
RECURSIVE PAtom(_), PExpr(_, _), PLoop(_, _, _)
PAtom(toks) ==
  IF toks = <<>> THEN PFail
  ELSE LET h == toks[1] IN
       IF IsLit(h) THEN POK(Num(LitVal(h)), Tail(toks))
       ELSE IF IsVar(h) THEN POK(Var(VarIdx(h)), Tail(toks))
       ELSE IF h = "(" THEN
            LET r == PExpr(Tail(toks), 1) IN
            IF r.ok /\ r.rest # <<>> /\ r.rest[1] = ")" THEN POK(r.t, Tail(r.rest)) ELSE PFail
       ELSE IF h \in Funcs /\ Len(toks) >= 2 /\ toks[2] = "(" THEN
            LET r == PAtom(Tail(toks)) IN IF r.ok THEN POK(Un(h, r.t), r.rest) ELSE PFail
       ELSE PFail
POperand(toks) ==
  IF toks # <<>> /\ toks[1] \in UnChars THEN
     LET r == PAtom(Tail(toks)) IN IF r.ok THEN POK(Un(toks[1], r.t), r.rest) ELSE PFail
  ELSE PAtom(toks)
PExpr(toks, minp) == LET r == POperand(toks) IN IF r.ok THEN PLoop(r.t, r.rest, minp) ELSE PFail
PLoop(left, toks, minp) ==
  IF toks = <<>> THEN POK(left, toks)
  ELSE LET h == toks[1]
           imp == h = "("
       IN IF ~(imp \/ h \in BinOps) THEN POK(left, toks)
          ELSE LET op == IF imp THEN "*" ELSE h IN
               IF Prec(op) < minp THEN POK(left, toks)
               ELSE LET r == PExpr(IF imp THEN toks ELSE Tail(toks), Prec(op) + 1) IN
                    IF r.ok THEN PLoop(Bin(op, left, r.t), r.rest, minp) ELSE PFail
ParseRef(toks) == LET r == PExpr(toks, 1) IN
                  IF r.ok /\ r.rest = <<>> THEN [ok |-> TRUE, t |-> r.t] ELSE [ok |-> FALSE, t |-> <<>>]

(* Classification by a flat scan, independent of the grammar above:             *)
(*   "mal"   must be rejected: empty formula or group, unbalanced parentheses,  *)
(*           a binary operator where a value is expected (leading, or adjacent  *)
(*           to another operator), an operator with nothing after it            *)
(*   "undoc" not covered by the documentation (two unary operators in a row,    *)
(*           two values in a row, a function name without a group, "!" after a  *)
(*           value, unknown words): any verdict, but no crash                   *)
(*   "wf"    must be accepted and evaluate to the value of ParseRef             *)
RECURSIVE BalFrom(_, _, _)
BalFrom(toks, i, depth) ==
  IF i > Len(toks) THEN depth = 0
  ELSE IF toks[i] = "(" THEN BalFrom(toks, i + 1, depth + 1)
  ELSE IF toks[i] = ")" THEN depth > 0 /\ BalFrom(toks, i + 1, depth - 1)
  ELSE BalFrom(toks, i + 1, depth)
Balanced(toks) == BalFrom(toks, 1, 0)
IsValueTok(h) == ~(h \in BinOps \/ h \in UnChars \/ h \in Funcs \/ h = "(" \/ h = ")")
RECURSIVE Scan(_, _, _, _, _)
\* st: "E" a value is expected, "U" after a unary operator, "F" after a function name, "A" after a value
Scan(toks, i, st, mal, und) ==
  IF i > Len(toks) THEN [mal |-> mal \/ st \in {"E", "U"}, und |-> und \/ st = "F"]
  ELSE LET h == toks[i] IN
       IF st \in {"E", "U"} THEN
            IF h = "(" THEN Scan(toks, i + 1, "E", mal, und)
            ELSE IF h \in Funcs THEN Scan(toks, i + 1, "F", mal, und)
            ELSE IF h \in UnChars THEN Scan(toks, i + 1, "U", mal, und \/ st = "U")
            ELSE IF h = ")" THEN Scan(toks, i + 1, "A", TRUE, und)
            ELSE IF h \in BinOps THEN Scan(toks, i + 1, "E", TRUE, und)
            ELSE Scan(toks, i + 1, "A", mal, und \/ ~(IsLit(h) \/ IsVar(h)))
       ELSE IF st = "F" THEN
            IF h = "(" THEN Scan(toks, i + 1, "E", mal, und) ELSE Scan(toks, i, "A", mal, TRUE)
       ELSE IF h \in BinOps THEN Scan(toks, i + 1, "E", mal, und)
            ELSE IF h = "(" THEN Scan(toks, i + 1, "E", mal, und)
            ELSE IF h = ")" THEN Scan(toks, i + 1, "A", mal, und)
            ELSE IF h = "!" THEN Scan(toks, i + 1, "A", mal, TRUE)      \* not an operator here: part of a word
            ELSE IF h \in Funcs THEN Scan(toks, i + 1, "F", mal, TRUE)
            ELSE Scan(toks, i + 1, "A", mal, TRUE)
Class(toks) ==
  IF toks = <<>> \/ ~Balanced(toks) THEN "mal"
  ELSE LET s == Scan(toks, 1, "E", FALSE, FALSE) IN
       IF s.mal THEN "mal" ELSE IF s.und THEN "undoc" ELSE "wf"

\* ===================================================================== Part 5
(* The text: a sequence of units - one-character strings for blanks,            *)
(* parentheses, operator characters and "!", and one unit per word (a maximal   *)
(* run of other characters: "2", "0x1F", "[x]", "abs"); the tokenizer only      *)
(* ever appends such characters to its buffer, so a word behaves like one       *)
(* character.                                                                   *)
OpUnits(op) ==
  CASE op = "<<" -> <<"<", "<">> [] op = ">>" -> <<">", ">">> [] op = "==" -> <<"=", "=">>
    [] op = "<=" -> <<"<", "=">> [] op = ">=" -> <<">", "=">> [] op = "&&" -> <<"&", "&">>
    [] op = "||" -> <<"|", "|">> [] OTHER -> <<op>>
PairOp(a, b) ==
  CASE a = "<" /\ b = "<" -> "<<" [] a = ">" /\ b = ">" -> ">>" [] a = "=" /\ b = "=" -> "=="
    [] a = "<" /\ b = "=" -> "<=" [] a = ">" /\ b = "=" -> ">=" [] a = "&" /\ b = "&" -> "&&"
    [] a = "|" /\ b = "|" -> "||" [] OTHER -> ""
RECURSIVE Render(_, _)
Render(toks, spaced) ==
  IF toks = <<>> THEN <<>>
  ELSE (IF toks[1] \in BinOps THEN OpUnits(toks[1]) ELSE <<toks[1]>>)
       \o (IF spaced /\ Len(toks) > 1 THEN <<" ">> ELSE <<>>) \o Render(Tail(toks), spaced)

\* What is left of a formula when the blanks inside parentheses are dropped (the tokenizer copies a
\* group's text without them and tokenizes it again): two operator characters become one operator,
\* `(2 < < 3)` is read as `(2 << 3)`.  Used to tell this known leniency from other accepted malformed formulas.
RECURSIVE GMerge(_, _, _)
GMerge(toks, i, depth) ==
  IF i > Len(toks) THEN <<>>
  ELSE LET h == toks[i] IN
       IF h = "(" THEN <<h>> \o GMerge(toks, i + 1, depth + 1)
       ELSE IF h = ")" THEN <<h>> \o GMerge(toks, i + 1, depth - 1)
       ELSE IF depth > 0 /\ i < Len(toks) /\ PairOp(h, toks[i + 1]) # ""
            THEN <<PairOp(h, toks[i + 1])>> \o GMerge(toks, i + 2, depth)
       ELSE <<h>> \o GMerge(toks, i + 1, depth)
GroupMerge(toks) == GMerge(toks, 1, 0)

\* ops.go: orderOfOps / opCodeOrder / prefixInOps / hasUnaryOp
OrderOfOps == <<{"^"}, {">>", "<<"}, {"*", "/", "%"}, {"&", "|"}, {"+", "-"},
                {"==", "=", "<=", ">=", ">", "<"}, {"&&", "||"}>>
RECURSIVE OrderFrom(_, _, _)
OrderFrom(op0, op1, i) ==           \* -1 op0 first, 0 same level, 1 op1 first, 2 = panic("op not found")
  IF i > Len(OrderOfOps) THEN 2
  ELSE LET has0 == op0 \in OrderOfOps[i]
           has1 == op1 \in OrderOfOps[i]
       IN IF has0 /\ has1 THEN 0 ELSE IF has0 THEN 0 - 1 ELSE IF has1 THEN 1 ELSE OrderFrom(op0, op1, i + 1)
OpCodeOrder(op0, op1) == OrderFrom(op0, op1, 1)
PrefixInOps(s, i) ==
  LET two == IF i + 1 <= Len(s) THEN PairOp(s[i], s[i + 1]) ELSE "" IN
  IF two # "" THEN two ELSE IF s[i] \in BinOps THEN s[i] ELSE ""
UniKeys == Funcs \cup UnChars

ITok(val, t) == [val |-> val, t |-> t]
RECURSIVE ITokLoop(_, _, _, _, _)
ITokLoop(s, i, ret, sb, parens) ==
  IF i > Len(s) THEN
       IF parens > 0 THEN [err |-> "unclosed", toks |-> <<>>]
       ELSE [err |-> "", toks |-> IF sb # <<>> THEN Append(ret, ITok(sb, "lit")) ELSE ret]
  ELSE LET r == s[i] IN
       IF r = "(" /\ parens > 0 THEN ITokLoop(s, i + 1, ret, Append(sb, "("), parens + 1)
       ELSE IF r = "(" /\ sb # <<>> THEN
            ITokLoop(s, i + 1, Append(ret, ITok(sb, IF Len(sb) = 1 /\ sb[1] \in UniKeys THEN "mod" ELSE "lit")),
                     <<>>, parens + 1)
       ELSE IF r = "(" THEN ITokLoop(s, i + 1, ret, sb, parens + 1)
       ELSE IF r = ")" THEN
            IF parens - 1 = 0 THEN ITokLoop(s, i + 1, Append(ret, ITok(sb, "group")), <<>>, 0)
            ELSE IF parens - 1 < 0 THEN [err |-> "overclosed", toks |-> <<>>]
            ELSE ITokLoop(s, i + 1, ret, Append(sb, ")"), parens - 1)
       ELSE IF r = " " THEN ITokLoop(s, i + 1, ret, sb, parens)
       ELSE IF parens = 0 /\ sb = <<>> /\ (ret = <<>> \/ ret[Len(ret)].t = "op") /\ r \in UnChars THEN
            ITokLoop(s, i + 1, Append(ret, ITok(<<r>>, "mod")), sb, parens)
       ELSE IF parens = 0 /\ PrefixInOps(s, i) # "" THEN
            LET op == PrefixInOps(s, i)
                ret1 == IF sb # <<>> THEN Append(ret, ITok(sb, "lit")) ELSE ret
            IN ITokLoop(s, i + Len(OpUnits(op)), Append(ret1, ITok(<<op>>, "op")), <<>>, parens)
       ELSE ITokLoop(s, i + 1, ret, Append(sb, r), parens)
Tokenize(s) == ITokLoop(s, 1, <<>>, <<>>, 0)

\* parser.go; a result is [err, e, rest]; err = "panic" models a run-time panic of the transcription
IOK(e, rest) == [err |-> "", e |-> e, rest |-> rest]
IErr(m) == [err |-> m, e |-> <<>>, rest |-> <<>>]
Unk == [k |-> "unk"]                 \* a literal the model cannot name (merged words, unknown names)
RECURSIVE ICompile(_), ICompileTokens(_, _), ILoop(_, _, _), IGetNextExpr(_)
ICompileToken(t) ==
  IF t.t = "lit" THEN
       IF Len(t.val) = 1 /\ IsVar(t.val[1]) THEN IOK(Var(VarIdx(t.val[1])), <<>>)
       ELSE IF Len(t.val) = 1 /\ IsLit(t.val[1]) THEN IOK(Num(LitVal(t.val[1])), <<>>)
       ELSE IF (\E i \in 1..Len(t.val) : t.val[i] = "!")
               /\ ~(\E i \in 1..Len(t.val) : VarStyleOf(t.val[i]) \in {"boxed", "idx"})
            THEN IErr("expected numeric")       \* neither a number, nor [..], nor a valid variable name
       ELSE IOK(Unk, <<>>)
  ELSE IF t.t = "group" THEN ICompile(t.val)
  ELSE IErr("expected expression")
IGetNextExpr(toks) ==
  IF toks = <<>> THEN IErr("unexpected end")          \* (was a panic before fix 0cf317e)
  ELSE LET tk == toks[1] IN
       IF tk.t \in {"lit", "group"} THEN
            LET r == ICompileToken(tk) IN IF r.err # "" THEN r ELSE IOK(r.e, Tail(toks))
       ELSE IF tk.t = "mod" THEN
            LET r == IGetNextExpr(Tail(toks)) IN IF r.err # "" THEN r ELSE IOK(Un(tk.val[1], r.e), r.rest)
       ELSE IErr("expected expression")
ICompileTokens(toks, lastOp) ==
  IF toks = <<>> THEN IErr("unexpected end")
  ELSE LET r == IGetNextExpr(toks) IN IF r.err # "" THEN r ELSE ILoop(r.e, r.rest, lastOp)
ILoop(ret, toks, lastOp) ==
  IF toks = <<>> THEN IOK(ret, <<>>)
  ELSE LET pk == toks[1] IN
       IF ~(pk.t \in {"op", "group"}) THEN IErr("expected op")
       ELSE LET peekOp == IF pk.t = "op" THEN pk.val[1] ELSE "*"
                ord == OpCodeOrder(lastOp, peekOp)
            IN IF ord = 2 THEN IErr("panic")
               ELSE IF ord <= 0 THEN IOK(ret, toks)
               ELSE LET r == ICompileTokens(IF pk.t = "op" THEN Tail(toks) ELSE toks, peekOp) IN
                    IF r.err # "" THEN r ELSE ILoop(Bin(peekOp, ret, r.e), r.rest, lastOp)
ICompile(s) ==
  LET tk == Tokenize(s) IN
  IF tk.err # "" THEN IErr(tk.err) ELSE ICompileTokens(tk.toks, "")
\* the whole implementation-shaped parser on a rendered text
IParse(units) == LET r == ICompile(units) IN
                 IF r.err # "" THEN [ok |-> FALSE, t |-> <<>>, err |-> r.err]
                 ELSE [ok |-> TRUE, t |-> r.e, err |-> ""]
=============================================================================

------------------------------ MODULE LogDefer_MC ------------------------------
(* Model-checking wrapper: the controller's script is picked by number (a         *)
(* configuration file cannot hold a sequence).                                     *)
EXTENDS LogDefer
CONSTANTS ScriptId, NW
Scripts == << <<"D", "I">>, <<"D", "D", "I">>, <<"I", "D", "I">>, <<"D", "I", "I">>, <<"D", "I", "D", "I">>, <<"I">> >>
MCScript == Scripts[ScriptId]
MCWriters == 1..NW
\* the history stamps only ever grow: they are left out of the state's identity only where that is sound - here they
\* are part of it (the laws read them), the bounds keep the graph small
=============================================================================

---------------------------- MODULE ExprScanPool ----------------------------
(* C08, behavioural part 2: what ONE evaluation leaves behind for a LATER one.   *)
(*                                                                               *)
(* ExprScan looks at one compiled expression.  A rare process has several        *)
(* (the ignore expressions and the extraction expression of one extractor,       *)
(* further KeyBuilders for sort keys / funcs files), evaluated by several worker  *)
(* goroutines, and the array helpers @map @reduce @filter @for of ALL of them     *)
(* take their sub-context from ONE package-level LIFO pool                        *)
(* (stdlib.subContextPool, 5 objects, grows on demand):                          *)
(*                                                                               *)
(*     sub := pool.Get(); defer pool.Return(sub); *sub = subContext{parent: ctx} *)
(*     ... evaluate the sub-expression for every element with ctx = sub ...      *)
(*                                                                               *)
(* A helper nested in the sub-expression of another one Gets a second object     *)
(* whose parent is the first; a named key or a negative index inside is looked   *)
(* up by walking the parent chain to the line's context.  The discipline that    *)
(* keeps this sound is: every Get is matched by exactly ONE Return on EVERY exit *)
(* path - no elements, some elements, a sub-expression that answers an <ERROR>   *)
(* marker, the <INF> bail-out of @for - and every Get re-initialises the object. *)
(* If one path Returns twice, the pool's two top slots hold the same object;     *)
(* nothing visible happens in that evaluation, but a LATER evaluation with       *)
(* nested helpers - of the same or of ANOTHER compiled expression, on another    *)
(* line, maybe in another goroutine - gets the same object for the outer and the *)
(* inner context, which becomes its own parent: the key lookup never ends        *)
(* (fatal error: stack overflow - not recoverable, the scan is aborted).         *)
(*                                                                               *)
(* The model: objects 1..MaxObj, the pool as a sequence (LIFO), Get / Lookup /   *)
(* Return as atomic actions (the pool has a mutex) of G goroutines that each     *)
(* evaluate N lines with every expression of Exprs in turn.  An expression is a  *)
(* tree of helper calls [h, look, kids]: `look` says whether its sub-expression  *)
(* reads a named key / negative index, `kids` are the helpers nested in it.      *)
(* The exit path of every activation is chosen by the environment (the line).    *)
(* Double / Leak / NoReset are the deviations; the code has none of them:        *)
(* with all three empty TLC proves the invariants, with one of them set it must  *)
(* find the violation (negative controls run by the check).                      *)
EXTENDS Integers, Sequences, FiniteSets, TLC

CONSTANTS Exprs,      \* sequence of trees: the compiled expressions of the process, in evaluation order (ignore, extract, key2 ...)
          G,          \* worker goroutines
          N,          \* lines every goroutine evaluates
          PoolSize,   \* objects the pool starts with
          MaxObj,     \* bound on object ids (PoolSize + G * depth is enough without Double)
          Double,     \* set of exit paths "helper/exit" (e.g. "for/inf") that Return the object twice
          Leak,       \* set of exit paths that do not Return it
          NoReset     \* set of helpers that use the object as it comes out of the pool

Helpers == {"map", "reduce", "filter", "for"}
\* exit paths of an activation: no element / condition false at once; elements, all fine; a sub-expression answered
\* a marker (<BAD-TYPE>, <ARGN> ... - the helper goes on or returns early); the iteration cap of @for (<INF>)
Exits(h) == {"zero", "some", "err"} \cup (IF h = "for" THEN {"inf"} ELSE {})

Node(h, look, kids) == [h |-> h, look |-> look, kids |-> kids]

NIL == 0                       \* the parent of an object fresh from new()
Root(g) == 0 - g               \* the context of the line goroutine g is working on
Gs == 1..G
Objs == 1..MaxObj

VARIABLES pc,       \* "run" | "fatal" (runaway lookup: stack overflow) | "panic" (nil parent)
          pool,     \* the pool: sequence of objects, last = top
          next,     \* the next object new() creates
          parent,   \* parent[o]: NIL, Root(g) or another object
          stk,      \* stk[g]: the helper activations of goroutine g, innermost last
          prog,     \* prog[g] = [ln |-> lines done, ex |-> expressions of the current line done]
          cross     \* a lookup was answered by a context that is not the line of the goroutine that asked
vars == <<pc, pool, next, parent, stk, prog, cross>>

Frame(n, o, e, todo) == [n |-> n, obj |-> o, e |-> e, todo |-> todo]
\* what an activation with exit path e does with its sub-expression: nothing, or (one element stands for all) the
\* lookup and then the nested helpers in order
Work(n, e) ==
  IF e = "zero" THEN <<>>
  ELSE (IF n.look THEN <<0>> ELSE <<>>) \o [j \in 1..Len(n.kids) |-> j]

Init ==
  /\ pc = "run" /\ pool = [j \in 1..PoolSize |-> j] /\ next = PoolSize + 1
  /\ parent = [o \in Objs |-> NIL]
  /\ stk = [g \in Gs |-> <<>>] /\ prog = [g \in Gs |-> [ln |-> 0, ex |-> 0]] /\ cross = FALSE

\* ---- Get: take the top of the pool (or make a new object), point it at the enclosing context
Enter(g, n, ctx, rest) ==
  \E e \in Exits(n.h) :
    LET o == IF pool = <<>> THEN next ELSE pool[Len(pool)] IN
    /\ o \in Objs
    /\ pool' = (IF pool = <<>> THEN pool ELSE SubSeq(pool, 1, Len(pool) - 1))
    /\ next' = (IF pool = <<>> THEN next + 1 ELSE next)
    /\ parent' = (IF n.h \in NoReset THEN parent ELSE [parent EXCEPT ![o] = ctx])
    /\ stk' = [stk EXCEPT ![g] = Append(rest, Frame(n, o, e, Work(n, e)))]

\* a goroutine starts the next expression of its line (or the next line)
StartExpr(g) ==
  /\ pc = "run" /\ stk[g] = <<>> /\ prog[g].ln < N
  /\ IF prog[g].ex < Len(Exprs)
     THEN /\ prog' = [prog EXCEPT ![g].ex = @ + 1]
          /\ Enter(g, Exprs[prog[g].ex + 1], Root(g), <<>>)
          /\ UNCHANGED <<pc, cross>>
     ELSE /\ prog' = [prog EXCEPT ![g] = [ln |-> @.ln + 1, ex |-> 0]]
          /\ UNCHANGED <<pc, pool, next, parent, stk, cross>>

Top(g) == stk[g][Len(stk[g])]
PopWork(g) == [stk[g] EXCEPT ![Len(stk[g])].todo = Tail(@)]

\* a nested helper of the innermost activation starts: its context is the innermost object
EnterKid(g) ==
  /\ pc = "run" /\ stk[g] # <<>> /\ Top(g).todo # <<>> /\ Head(Top(g).todo) > 0
  /\ Enter(g, Top(g).n.kids[Head(Top(g).todo)], Top(g).obj, PopWork(g))
  /\ UNCHANGED <<pc, prog, cross>>

\* ---- the lookup of a named key / negative index: subContext.GetKey forwards to its parent until a line context answers
\* the answer: Root(g) (a negative number) of the line that answered, WNil (a nil parent), WLoop (the walk does not end)
WNil == 0
WLoop == 1
RECURSIVE Walk(_, _)
Walk(o, fuel) ==
  IF parent[o] = NIL THEN WNil
  ELSE IF parent[o] < 0 THEN parent[o]
  ELSE IF fuel = 0 THEN WLoop
  ELSE Walk(parent[o], fuel - 1)

Lookup(g) ==
  /\ pc = "run" /\ stk[g] # <<>> /\ Top(g).todo # <<>> /\ Head(Top(g).todo) = 0
  /\ LET r == Walk(Top(g).obj, MaxObj) IN
       /\ pc' = (IF r = WLoop THEN "fatal" ELSE IF r = WNil THEN "panic" ELSE pc)
       /\ cross' = (cross \/ (r \notin {WLoop, WNil, Root(g)}))
  /\ stk' = [stk EXCEPT ![g] = PopWork(g)]
  /\ UNCHANGED <<pool, next, parent, prog>>

\* ---- Return: the activation ends on its exit path (deferred Return; a deviating path Returns twice or never)
Path(h, e) == h \o "/" \o e          \* e.g. "for/inf"
Times(h, e) == IF Path(h, e) \in Double THEN 2 ELSE IF Path(h, e) \in Leak THEN 0 ELSE 1
Exit(g) ==
  /\ pc = "run" /\ stk[g] # <<>> /\ Top(g).todo = <<>>
  /\ LET f == Top(g)  t == Times(f.n.h, f.e) IN
       pool' = pool \o [j \in 1..t |-> f.obj]
  /\ stk' = [stk EXCEPT ![g] = SubSeq(@, 1, Len(@) - 1)]
  /\ UNCHANGED <<pc, next, parent, prog, cross>>

Step(g) == StartExpr(g) \/ EnterKid(g) \/ Lookup(g) \/ Exit(g)
Next == \E g \in Gs : Step(g)
Spec == Init /\ [][Next]_vars /\ WF_vars(Next)

\* ------------------------------------------------------------------ properties
Range(s) == {s[j] : j \in 1..Len(s)}
Live == {x \in Gs \X (1..MaxObj) : x[2] <= Len(stk[x[1]])}
ObjOf(x) == stk[x[1]][x[2]].obj
AllIdle == \A g \in Gs : stk[g] = <<>>

TypeOK ==
  /\ pc \in {"run", "fatal", "panic"} /\ next \in 1..(MaxObj + 1) /\ cross \in BOOLEAN
  /\ Range(pool) \subseteq Objs
  /\ \A g \in Gs : prog[g].ln \in 0..N /\ prog[g].ex \in 0..Len(Exprs)
\* a single odd line cannot abort the scan: no evaluation ends the process
Survives == pc = "run"
\* no object is handed out twice: the live activations hold different objects, none of which is in the pool,
\* and the pool holds every object at most once
Exclusive ==
  /\ \A x, y \in Live : x # y => ObjOf(x) # ObjOf(y)
  /\ \A x \in Live : ObjOf(x) \notin Range(pool)
  /\ \A j, k \in 1..Len(pool) : j # k => pool[j] # pool[k]
\* the parent chain of every activation is the chain of its enclosing activations and ends at its own line
ChainsOK ==
  \A x \in Live :
    LET g == x[1]  j == x[2] IN
    (stk[g][j].n.h \notin NoReset) =>
      parent[stk[g][j].obj] = (IF j = 1 THEN Root(g) ELSE stk[g][j - 1].obj)
\* every lookup is answered by the line of the goroutine that asked
OwnLine == ~cross
\* when nothing is being evaluated every object ever made is in the pool exactly once
Conserved == AllIdle => (Len(pool) = next - 1 /\ Range(pool) = 1..(next - 1))
\* the scan ends
Done == \A g \in Gs : prog[g].ln = N
Terminates == <>(Done \/ pc # "run")
=============================================================================

----------------------------- MODULE FilterN_Gen -----------------------------
(* B1 generator for `rare filter -n`: every match vector up to MaxLen lines and  *)
(* every limit 0..MaxN with what FilterN.tla owes the user: how many lines are   *)
(* printed, and (one worker) exactly which.  The driver writes the input file,   *)
(* runs the real binary and compares.                                            *)
EXTENDS Integers, Sequences, FiniteSets, SequencesExt, TLC, Json

CONSTANTS MaxLen, MaxN
VARIABLE m
Init == m = <<>>
Next == Len(m) < MaxLen /\ \E b \in BOOLEAN : m' = Append(m, b)
MatchesOf(v) == SelectSeq([i \in 1..Len(v) |-> i], LAMBDA i : v[i])
MinI(a, b) == IF a < b THEN a ELSE b
Dump == \A n \in 0..MaxN :
          LET ms == MatchesOf(m) want == IF n > 0 THEN MinI(n, Len(ms)) ELSE Len(ms) IN
          PrintT("VFJ " \o ToJson([match |-> [i \in 1..Len(m) |-> IF m[i] THEN 1 ELSE 0], n |-> n,
                                   want |-> want, first |-> SubSeq(ms, 1, want), code |-> IF ms = <<>> THEN 1 ELSE 0]))
=============================================================================

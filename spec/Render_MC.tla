----------------------------- MODULE Render_MC -----------------------------
(* B3 for C14: the property's laws, decided by TLC on the operators of Render.tla *)
(* over explicit small ranges.  One state per case; LawOK is the invariant.        *)
EXTENDS Render

CONSTANTS NegLo, Hi0, MaxLenTop      \* value range -NegLo..Hi0 for val/min/max, bar widths 0..MaxLenTop
VARIABLE c

Lo == 0 - NegLo
V == Lo..Hi0
Lens == 0..MaxLenTop
Palettes == {4, 9, 10, 16}

ScaleCases == [k : {"scale"}, v : V, mn : V, mx : V]
StackCases == [k : {"stack"}, a : -2..5, b : -2..5, d : -2..5, mv : 0..9, ml : {0, 1, 4, 7, 10}]
MoreCases  == [k : {"more"}, total : 0..9, limit : 0..10]
TableCases == [k : {"table"}, l : [1..6 -> 0..3], w1 : 0..2]
HdrCases   == [k : {"hdr"}, n : 0..5, l : [1..5 -> 0..3], limit : 0..6]
FmtCases   == [k : {"fmt"}, v : {x * m : x \in -12..12, m \in {1, 9, 83, 1000, 99999, 1000001}} \cup {999, 1000, -1000, 999999, 1000000, 2147483647}]
VisCases   == [k : {"vis"}, t : [1..4 -> {97, 109, 32, 233, 0, 1}], code : {1, 2}]      \* 0, 1 stand for colour sequences

Init == c \in ScaleCases \cup StackCases \cup MoreCases \cup TableCases \cup HdrCases \cup FmtCases \cup VisCases
Next == UNCHANGED c

\* ---- scaled magnitudes lie in [0,1] and are monotone; buckets and lengths stay in range ----------------
ScaleLaw(v, mn, mx) ==
  LET u  == LinScale(v, mn, mx)
      u1 == LinScale(v + 1, mn, mx)
  IN /\ UnitOK(u)
     /\ UnitLe(u, u1)                                                   \* monotone in the value
     /\ (v <= mn => u[1] = 0) /\ (mn < mx /\ v >= mx => u[1] = u[2])       \* clamps; the ends of a proper range
     /\ (mx <= mn => u[1] = 0 \/ v > mx)                                 \* degenerate range: nothing but the clamp
     /\ \A b \in Palettes :
          /\ BucketExact(b, u) \in 0..(b - 1)                           \* never indexes past the palette, also at v = max
          /\ BucketExact(b, u) <= BucketExact(b, u1)
          /\ BucketObs(BucketExact(b, u), b, u)
          /\ (mn < mx /\ v >= mx => BucketExact(b, u) = b - 1)
     /\ \A L \in Lens : \A uni \in BOOLEAN :
          LET bar == BarExact(u, L, uni)   bar1 == BarExact(u1, L, uni)
          IN /\ Len(bar) <= L                                            \* never wider than the maximum
             /\ BarShapeOK(bar, L, uni)
             /\ BarMeasure(bar, uni) <= BarMeasure(bar1, uni)            \* grows with the value
             /\ BarObs(bar, u, L, uni)
             /\ (mn < mx /\ v >= mx => Len(bar) = L /\ (\A i \in 1..L : bar[i] = IF uni THEN FULL ELSE PIPE))
             /\ (u[1] = 0 => bar = <<>>)
KeysLaw(mn, mx) ==
  \A b \in {2, 6} :
    LET ks == LinScaleKeys(b, mn, mx) IN
    /\ StrictlyIncreasing(ks) /\ Len(ks) >= 1 /\ Len(ks) <= b
    /\ ks[1] = mn /\ ks[Len(ks)] = mn + LinDen(mn, mx)
    /\ \A i \in 1..b : LET x == LinKeyAt(i - 1, b, mn, mx) IN
         \* trunc toward zero of the exact rational mn + d*(i-1)/(b-1)
         LET num == mn * (b - 1) + LinDen(mn, mx) * (i - 1) IN
         IF num >= 0 THEN x = num \div (b - 1) ELSE x = 0 - ((0 - num) \div (b - 1))

\* ---- stacked bars --------------------------------------------------------------------------------------
StackLaw(vals, mv, ml) ==
  /\ \A i \in 1..Len(vals) :
       /\ StackCells(vals[i], mv, ml) \in 0..ml
       /\ StackCells(vals[i], mv, ml) <= StackCells(vals[i] + 1, mv, ml)
       /\ (mv > 0 /\ vals[i] > 0 => StackCells(vals[i], mv, ml) = (Min2(vals[i], mv) * ml) \div mv)
       /\ MulDivLoop(Max2(0, Min2(vals[i], mv)), ml, Max2(mv, 1), 0, 0) = (Max2(0, Min2(vals[i], mv)) * ml) \div Max2(mv, 1)
  \* the bar never exceeds the width, whatever the signs
  /\ StackTotal(vals, mv, ml) <= ml
  \* segments of non-negative values that sum to at most the maximum are each drawn in proportion (nothing is cut)
  /\ ((\A i \in 1..Len(vals) : vals[i] >= 0) /\ SeqSum(vals) <= mv) =>
        StackCounts(vals, mv, ml) = [i \in 1..Len(vals) |-> StackCells(vals[i], mv, ml)]
  /\ Len(Vis(StackRaw(vals, mv, ml, TRUE, TRUE), TRUE)) = StackTotal(vals, mv, ml)
  /\ Len(StackRaw(vals, mv, ml, FALSE, TRUE)) = StackTotal(vals, mv, ml)

\* ---- (n more) ------------------------------------------------------------------------------------------
MoreLaw(total, limit) ==
  /\ Shown(total, limit) + NotShown(total, limit) = total
  /\ Shown(total, limit) <= limit /\ Shown(total, limit) >= 0 /\ NotShown(total, limit) >= 0
  /\ (NotShown(total, limit) > 0) = (total > limit)

\* ---- table columns line up -------------------------------------------------------------------------------
TableLaw(l, w1) ==
  LET rows == << <<Rep(120, l[1]), Rep(121, l[2]), Rep(122, l[3])>>, <<Rep(120, l[4]), Rep(121, l[5]), Rep(122, l[6])>> >>
      w    == TableWidths(rows, 3, <<w1>>)
  IN \A r \in 1..2 :
       LET ln == TableLine(rows[r], w) IN
       /\ Len(ln) = ColStart(w, 4)                                      \* every row has the same length
       /\ \A i \in 1..3 :
            /\ SubSeq(ln, ColStart(w, i) + 1, ColStart(w, i) + Len(rows[r][i])) = rows[r][i]   \* cell i starts at the same offset in every row
            /\ AllSpaces(SubSeq(ln, ColStart(w, i) + Len(rows[r][i]) + 1, ColStart(w, i + 1)))
            /\ ColStart(w, i + 1) >= ColStart(w, i) + Len(rows[r][i]) + 1                      \* at least one space between cells
       /\ w[1] >= w1

\* ---- heat-map header: the compaction loop ends, the note counts the hidden columns ------------------------
HdrLaw(n, l, limit) ==
  LET names == [i \in 1..n |-> Rep(96 + i, l[i])]
      h     == HeatHeader(names, limit)
      note  == <<32>> \o MoreNote(n - Shown(n, limit))
  IN /\ h.done                                                            \* the loop terminates (cursor advances every round)
     /\ (n > limit) = HasSuffix(h.txt, <<109, 111, 114, 101, 41>>)
     /\ (n > limit => HasSuffix(h.txt, note))
     /\ (Shown(n, limit) >= 1 => HasPrefix(h.txt, names[1]))

\* ---- formatter -------------------------------------------------------------------------------------------
FmtLaw(v) ==
  LET h == Hi(v)
      digits == SelectSeq(h, LAMBDA x : x # 44)
      body == IF v < 0 THEN Tail(h) ELSE h
  IN /\ digits = Itoa(v)                                                 \* only separators are added
     /\ \A i \in 1..Len(body) : (body[i] = 44) = ((Len(body) - i + 1) % 4 = 0)    \* one before every third digit
     /\ body[1] # 44
     /\ Fmt("raw", v) = Itoa(v)

\* ---- visible length ----------------------------------------------------------------------------------------
VisLaw(t, code) ==
  LET seq(x) == IF x = 0 THEN <<27, 91, 51, 49, 109>> ELSE IF x = 1 THEN ResetSeq ELSE <<x>>
      s == Flatten([i \in 1..4 |-> seq(t[i])])
      plain == Flatten([i \in 1..4 |-> IF t[i] \in {0, 1} THEN <<>> ELSE <<t[i]>>])
      cc == IF code = 1 THEN <<27, 91, 51, 51, 109>> ELSE <<27, 91, 52, 109, 27, 91, 51, 52, 59, 49, 109>>
  IN /\ CleanText(s)
     /\ Vis(s, TRUE) = plain /\ Vis(s, FALSE) = s
     /\ Vis(Wrap(cc, s), TRUE) = plain                                   \* colouring never changes the visible text
     /\ Vis(Wrap(cc, s), FALSE) = Wrap(cc, s)
     /\ Len(EscSeqs(Wrap(cc, s))) >= 2

LawOK ==
  CASE c.k = "scale" -> ScaleLaw(c.v, c.mn, c.mx) /\ (c.v = Lo => KeysLaw(c.mn, c.mx))
    [] c.k = "stack" -> StackLaw(<<c.a, c.b, c.d>>, c.mv, c.ml)
    [] c.k = "more"  -> MoreLaw(c.total, c.limit)
    [] c.k = "table" -> TableLaw(c.l, c.w1)
    [] c.k = "hdr"   -> HdrLaw(c.n, c.l, c.limit)
    [] c.k = "fmt"   -> FmtLaw(c.v)
    [] c.k = "vis"   -> VisLaw(c.t, c.code)
=============================================================================

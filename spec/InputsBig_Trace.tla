--------------------------- MODULE InputsBig_Trace ---------------------------
(* B2 for the big inputs: every recorded run of the real binary / the batcher   *)
(* library over symbolic contents is judged by TLC against InputsBig!Expected.  *)
(* The driver logs, per source, the run-length form of the rows it saw (line    *)
(* number, class and record number decoded from the row's content; "bad" = the  *)
(* content is not a line of that input).                                        *)
EXTENDS InputsBig, Json, TLC
Trace == ndJsonDeserialize("trace.ndjson")
VARIABLES l, bad, skipt
tvars == <<l, bad, skipt>>

RunOf(x) == [ins |-> x.ins, gz |-> x.gz, readers |-> x.readers, batch |-> x.batch]
SrcSet(s) == {s[i] : i \in DOMAIN s}
Why(x) ==
  LET e == Expected(RunOf(x)) IN
  (IF x.obs.hang THEN {"hang"} ELSE IF x.obs.crash THEN {"crash"}
   ELSE (IF SrcSet(x.obs.srcs) = SrcSet(e.srcs) /\ Len(x.obs.srcs) = Len(e.srcs) THEN {} ELSE {"rows"}) \cup
        (IF x.obs.exit = e.exit THEN {} ELSE {"exit"}) \cup
        (IF x.obs.msg = e.msg THEN {} ELSE {"msg"}) \cup
        (IF x.obs.nlog = e.nerr THEN {} ELSE {"nlog"}) \cup
        (IF x.obs.matched = e.matched /\ x.obs.read = e.read THEN {} ELSE {"summary"}))
  \cup
  (IF ~x.lib.ran THEN {} ELSE IF x.lib.hang THEN {"lib-hang"}
   ELSE (IF SrcSet(x.lib.srcs) = SrcSet(e.srcs) /\ Len(x.lib.srcs) = Len(e.srcs) THEN {} ELSE {"lib-rows"}) \cup
        (IF x.lib.nerr = e.nerr THEN {} ELSE {"lib-nerr"}))
TStep ==
  /\ l <= Len(Trace)
  /\ l' = l + 1
  /\ IF RunOK(RunOf(Trace[l]))
     THEN LET w == Why(Trace[l]) IN
          /\ bad' = IF w = {} THEN bad ELSE Append(bad, [t |-> Trace[l].t, l |-> l, why |-> SetToSeq(w)])
          /\ skipt' = skipt
     ELSE bad' = bad /\ skipt' = Append(skipt, Trace[l].t)
TInit == l = 1 /\ bad = <<>> /\ skipt = <<>>
TSpec == TInit /\ [][TStep]_tvars
Final == (l = Len(Trace) + 1) => JsonSerialize("bad.json", [bad |-> bad, consumed |-> l - 1, skipped |-> Len(skipt), skippedt |-> skipt, done |-> TRUE])
=============================================================================

--------------------------- MODULE ExprScanPool_MC ---------------------------
(* Model-checking instances of ExprScanPool: the expression sets of a process.    *)
EXTENDS ExprScanPool

CONSTANT Which

Leaf(h, look) == Node(h, look, <<>>)

\* ignore expression with @for, extraction expression {@map .. {@map .. {key}}}, a second KeyBuilder three deep
Set3 == << Leaf("for", TRUE),
           Node("map", FALSE, <<Leaf("map", TRUE)>>),
           Node("map", TRUE, <<Node("reduce", FALSE, <<Leaf("filter", TRUE)>>)>>) >>
\* one loop, one nest: the smallest process in which a doubly returned object meets a nested evaluation
Set2 == << Leaf("for", FALSE), Node("filter", FALSE, <<Leaf("map", TRUE)>>) >>
\* helpers side by side in one sub-expression, and a loop nested in a loop
SetW == << Node("reduce", TRUE, <<Leaf("for", TRUE), Leaf("map", FALSE)>>),
           Node("for", FALSE, <<Leaf("for", TRUE)>>) >>

MCExprs == CASE Which = "set3" -> Set3 [] Which = "set2" -> Set2 [] Which = "setw" -> SetW
=============================================================================

------------------------------ MODULE LogDefer_Gen ------------------------------
(* B1 generator: every sequence of calls made by ONE goroutine - "P1"/"P2" (a     *)
(* Print* call with the next line of printer 1/2), "D" (DeferLogs), "I"           *)
(* (ImmediateLogs) - up to MaxLen, with what LogDefer.tla owes after every call:  *)
(* the lines on stderr.  Executed one call at a time the model's steps PBegin;    *)
(* PWrite;PEnd and CCall;CLock;CDefer|CFlush;CReset;CUnlock;CRet collapse to the  *)
(* three sequential steps below; the resulting history is also handed to the      *)
(* laws of LogDeferLaws (Lawful), so generator, model and judge cannot drift      *)
(* apart unnoticed.                                                               *)
EXTENDS Integers, Sequences, FiniteSets, SequencesExt, TLC, Json
CONSTANTS MaxLen
VARIABLE ops
Init == ops = <<>>
Next == Len(ops) < MaxLen /\ \E o \in {"P1", "P2", "D", "I"} : ops' = Append(ops, o)

St0 == [sink |-> "err", buf |-> <<>>, err |-> <<>>, n |-> <<0, 0>>, nc |-> 0, errs |-> <<>>, h |-> <<>>]
Step(st, o, i) ==
  IF o \in {"P1", "P2"} THEN
    LET w == IF o = "P1" THEN 1 ELSE 2
        m == <<w, st.n[w] + 1>>
        e2 == IF st.sink = "err" THEN Append(st.err, m) ELSE st.err
        b2 == IF st.sink = "err" THEN st.buf ELSE Append(st.buf, m) IN
    [st EXCEPT !.err = e2, !.buf = b2, !.n[w] = @ + 1, !.errs = Append(@, e2),
               !.h = Append(@, [op |-> "P", w |-> w, k |-> m[2], s |-> 2 * i - 1, e |-> 2 * i, vis |-> st.sink = "err"])]
  ELSE IF o = "D" THEN
    [st EXCEPT !.sink = "buf", !.nc = @ + 1, !.errs = Append(@, st.err),
               !.h = Append(@, [op |-> "D", w |-> 0, k |-> st.nc + 1, s |-> 2 * i - 1, e |-> 2 * i, vis |-> FALSE])]
  ELSE
    LET e2 == st.err \o st.buf IN
    [st EXCEPT !.sink = "err", !.buf = <<>>, !.err = e2, !.nc = @ + 1, !.errs = Append(@, e2),
               !.h = Append(@, [op |-> "I", w |-> 0, k |-> st.nc + 1, s |-> 2 * i - 1, e |-> 2 * i, vis |-> FALSE])]
RECURSIVE Run(_, _, _)
Run(st, os, i) == IF i > Len(os) THEN st ELSE Run(Step(st, os[i], i), os, i + 1)

INSTANCE LogDeferLaws
Lawful == LET st == Run(St0, ops, 1) IN
          /\ WhyPrefix(st.h, st.err) = {}
          /\ (ops # <<>> /\ ops[Len(ops)] = "I") => Why(st.h, st.err) = {}
Dump == LET st == Run(St0, ops, 1) IN
        PrintT("VFJ " \o ToJson([ops |-> ops, errs |-> st.errs, held |-> Len(st.buf)]))
=============================================================================

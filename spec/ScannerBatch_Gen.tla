-------------------------- MODULE ScannerBatch_Gen --------------------------
(* B1 generator: every complete behaviour of ScannerBatch in which time passes  *)
(* only while the source pauses inside Read (the part of the schedule the       *)
(* harness controls) and the consumer holds every batch to the end.  Printed as *)
(* one JSON vector when the channel is closed: the reader's script (data,       *)
(* result, pause before the read), the batch size, the lines, the batches.      *)
EXTENDS ScannerBatch, Json
VARIABLES script, gp
GInit == BInit /\ script = <<>> /\ gp = FALSE
GNext ==
  /\ BScan \/ BAppend \/ FlushFull \/ FlushTimer \/ NoFlush \/ FlushFinal \/ TickRead
  /\ LET isread == delivered' # delivered \/ st' # st \/ stalls' > stalls IN
     /\ script' = IF isread
                  THEN Append(script, [d |-> SubSeq(delivered', Len(delivered) + 1, Len(delivered')),
                                       e |-> IF st' # st THEN st' ELSE "nil", p |-> gp])
                  ELSE script
     /\ gp' = IF elapsed' /\ ~elapsed THEN TRUE ELSE IF isread THEN FALSE ELSE gp
Dump == bpc = "closed" =>
  PrintT("VFJ " \o ToJson([pb |-> PBatch, timed |-> Timed, reads |-> script, toks |-> toks, errs |-> errs,
                           batches |-> [i \in 1..Len(sent) |-> [start |-> sent[i].start, n |-> sent[i].n, kind |-> sent[i].kind]]]))
=============================================================================

----------------------------- MODULE Pipeline_MC -----------------------------
(* Constant definitions for the exhaustive checks (B3) of Pipeline.tla.           *)
(* Corpus selects one of a few small file sets; each has all four line classes:   *)
(* matched, ignored-by-expression (only the SECOND ignore expression is truthy,   *)
(* so "any" and "all" differ), ignored-empty-key, unmatched.                       *)
EXTENDS Pipeline, TLC

CONSTANT Corpus

KindRec(kind) ==
  CASE kind = "M1" -> [m |-> TRUE,  ig |-> <<FALSE, FALSE>>, k |-> 1]    \* matched, key 1
    [] kind = "M2" -> [m |-> TRUE,  ig |-> <<FALSE, FALSE>>, k |-> 2]    \* matched, key 2
    [] kind = "I"  -> [m |-> TRUE,  ig |-> <<FALSE, TRUE>>,  k |-> 1]    \* ignored by an expression
    [] kind = "E"  -> [m |-> TRUE,  ig |-> <<FALSE, FALSE>>, k |-> 0]    \* ignored: empty key
    [] kind = "U"  -> [m |-> FALSE, ig |-> <<>>,             k |-> 0]    \* unmatched

Corpora == <<
  << <<"M1", "U">>,        <<"I", "E">> >>,                  \* 1: 2 files x 2 lines
  << <<"M1", "U", "I">>,   <<"E", "M2">> >>,                 \* 2: 3 + 2 lines
  << <<"M1", "U", "M1">>,  <<"I", "E", "M2">> >>,            \* 3: 2 files x 3 lines
  << <<"M1", "I", "U", "E", "M2">> >>,                       \* 4: one file (stdin shape), 5 lines
  << <<"M1">>, <<>>, <<"U", "I", "E">> >>,                   \* 5: 3 files, one empty
  << <<"U", "U">>, <<"I", "E">> >>,                          \* 6: nothing matches (readChan never used)
  << <<"M1", "M2", "M1", "M2">> >>,                          \* 7: one file, everything matches
  << <<"M1", "M2">>, <<"M2", "M1">>, <<"M1">> >>             \* 8: 3 files, everything matches
>>
Kinds == Corpora[Corpus]
MCLines == [f \in DOMAIN Kinds |-> [i \in DOMAIN Kinds[f] |-> KindRec(Kinds[f][i])]]

=============================================================================

------------------------- MODULE ExprSyntaxHist_Gen -------------------------
(* B1 generator for the history layer of C09: every history ExprSyntaxHist_MC    *)
(* explores (the laws are checked in the same run) is printed, once it is        *)
(* complete, as the list of its steps with what the specification expects of     *)
(* the REAL key builder at each step:                                            *)
(*   func     name ver                                                           *)
(*   compile  text, kind rt | err, out (rt: the spelling of the abstract tree    *)
(*            with every call bound to the version registered at that moment),   *)
(*            lo hi lon (err: classes that must / may be reported, and how many  *)
(*            errors of each class at least)                                     *)
(* The Go driver replays a history on ONE long-lived key builder (optimising     *)
(* and not) and re-evaluates every compiled template after every later step.     *)
EXTENDS ExprSyntaxHist, Json

VARIABLE hist
gvars == <<pool, ft, memo, objs, last, leak, nops, hist>>

StepVec(o) ==
  IF o.op = "func"
  THEN [op |-> "func", name |-> o.name, ver |-> o.ver, text |-> <<>>, kind |-> "", out |-> <<>>, lo |-> <<>>, hi |-> <<>>,
        lon |-> [c \in ErrClasses |-> 0]]
  ELSE LET F == DOMAIN ft IN
    IF MutatedF(o.tpl, F)
    THEN [op |-> "compile", name |-> <<>>, ver |-> 0, text |-> PrintTpl(o.tpl), kind |-> "err", out |-> <<>>,
          lo |-> SetToSeq(ErrLowerF(o.tpl, F)), hi |-> SetToSeq(ErrUpperF(o.tpl, F)), lon |-> ErrLowCntsF(o.tpl, F)]
    ELSE [op |-> "compile", name |-> <<>>, ver |-> 0, text |-> PrintTpl(o.tpl), kind |-> "rt", out |-> Spell(StripTF(o.tpl, ft)),
          lo |-> <<>>, hi |-> <<>>, lon |-> [c \in ErrClasses |-> 0]]

GInit == HInit /\ hist = <<>>
GNext == nops < MaxOps /\ \E o \in Ops(pool) : HStep(o) /\ hist' = Append(hist, StepVec(o))

Dump == nops = MaxOps => PrintT("VFJ " \o ToJson([pool |-> pool, steps |-> hist]))
=============================================================================

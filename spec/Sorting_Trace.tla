---------------------------- MODULE Sorting_Trace ----------------------------
(* B2 for C13: validates what the REAL comparators and sorts did against        *)
(* Sorting.tla.  Many traces are concatenated; each starts with `reset` (mode +  *)
(* pool of distinct keys [name, value] + the value map `vmap` under which the     *)
(* totals were handed to the code, see Sorting.tla "totals": the specification   *)
(* reads `value`, the code got Embed(64, vmap.w, vmap.off, value)).              *)
(* Records (indices are 1-based positions in the pool); `src` says where the     *)
(* comparator came from: "build" = helpers.BuildSorter(sort), "pkg" = the        *)
(* package-level sorter of that meaning (sorting.NVNameSorter = text,            *)
(* NVSmartSorter = numeric, NVValueSorter = value); decisions are compared only  *)
(* within one source (the direction of a tie-break is not specified):            *)
(*   build  {sort:b, ok}            helpers.BuildSorter(sort) succeeded?          *)
(*   mat    {sort:b, fresh, m}      m[i][j] = 1 iff the comparator built for      *)
(*                                  `sort` said less(pool[i], pool[j]); fresh:    *)
(*                                  a new comparator per pair / one instance for  *)
(*                                  all pairs (asked in a random order)           *)
(*   sorted {sort:b, via, reuse, sub, n, outs:[{out, cnt, perm}]}                 *)
(*                                  n sorts of the keys `sub` (from different     *)
(*                                  start permutations / Go map orders) through   *)
(*                                  `via`; outs = the distinct results with their *)
(*                                  multiplicity and one start permutation each   *)
(*   top    {sort:b, via, k, n, outs:[{out, cnt}]}                                *)
(*                                  the first k rows of the whole pool (what a    *)
(*                                  histogram limited to k rows shows), n calls   *)
(* The spec is total: every record is consumed; each law the record breaks adds  *)
(* to `bad`, a table  <<ev, law, mode, cls>> -> [t, l, via, n]  (cls = class of   *)
(* the keys involved, computed here; t/l/via = first witness, n = how many       *)
(* records broke that law).  Nothing is skipped, so every kind of disagreement   *)
(* is reported.                                                                  *)
EXTENDS Sorting, Json

Trace == ndJsonDeserialize("trace.ndjson")

VARIABLES l, tid, mode, pool, vmap, kinds, sl, mats, canon, bad
tvars == <<l, tid, mode, pool, vmap, kinds, sl, mats, canon, bad>>

Ev == Trace[l]
N == Len(pool)
I == 1..N
EmptyFn == [x \in {} |-> 0]

\* ----------------------------------------------------------------- helpers
SeqSet(s) == {s[k] : k \in 1..Len(s)}
RevSeq(s) == [k \in 1..Len(s) |-> s[Len(s) + 1 - k]]
ValueClass(S) == (IF \E x \in S, y \in S : x # y /\ pool[x].value = pool[y].value THEN "ties" ELSE "distinct")
                 \o (IF vmap.w = 0 THEN "" ELSE "-w" \o ToString(vmap.w))
ClassOf(S) == IF mode = "value" THEN ValueClass(S) ELSE ClassOfKinds({kinds[x] : x \in S})
Det(S) == DeterminedKinds(mode, {kinds[x] : x \in S})
\* names of the laws (second components FALSE)
Failed(laws) == LET F == SelectSeq(laws, LAMBDA p : ~p[2]) IN [k \in 1..Len(F) |-> F[k][1]]
\* bad with one more broken law recorded
Note(b, ev, law, md, cls, via, t) ==
  LET key == <<ev, law, md, cls>> IN
  IF key \in DOMAIN b THEN [b EXCEPT ![key].n = @ + 1]
  ELSE b @@ (key :> [t |-> t, l |-> l, via |-> via, n |-> 1])
RECURSIVE NoteAll(_, _, _, _, _, _)
NoteAll(b, ev, names, cls, via, k) ==
  IF k > Len(names) THEN b ELSE NoteAll(Note(b, ev, names[k], mode, cls, via, tid), ev, names, cls, via, k + 1)
Entries(ev, names, S, via) == IF names = <<>> THEN bad ELSE NoteAll(bad, ev, names, ClassOf(S), via, 1)

\* ------------------------------------------------------------------- reset
PoolOK(p) == \A x \in 1..Len(p), y \in 1..Len(p) : x # y => p[x].name # p[y].name
SrcOK(e) == e.src \in {"build", "pkg"} /\ (e.src = "pkg" => mode \in {"text", "numeric", "value"})
TReset ==
  /\ Ev.event = "reset"
  /\ tid' = Ev.t /\ mode' = Ev.mode /\ pool' = Ev.pool /\ vmap' = Ev.vmap
  /\ kinds' = [x \in 1..Len(Ev.pool) |-> Kind(Ev.mode, Ev.pool[x].name)]
  \* the specified (ascending) order, evaluated once per pool
  /\ sl' = [x \in 1..Len(Ev.pool) |-> [y \in 1..Len(Ev.pool) |-> SpecLess(Ev.mode, Ev.pool[x], Ev.pool[y])]]
  /\ mats' = EmptyFn /\ canon' = EmptyFn
  /\ bad' = IF /\ Ev.mode \in Modes /\ PoolOK(Ev.pool)
               /\ VMapOK(Ev.vmap, {Ev.pool[x].value : x \in 1..Len(Ev.pool)}) THEN bad
            ELSE Note(bad, "reset", "harness", "?", "?", "?", Ev.t)

\* ------------------------------------------------------------------- build
TBuild ==
  /\ Ev.event = "build"
  /\ bad' = IF ~ParseSortDomain(Ev.sort) \/ ParseSort(Ev.sort).ok = Ev.ok THEN bad
            ELSE Note(bad, "build", "table", mode, "-", "-", tid)
  /\ UNCHANGED <<tid, mode, pool, vmap, kinds, sl, mats, canon>>

\* --------------------------------------------------------------------- mat
MatLaws(e) ==
  LET ps == ParseSort(e.sort)
      okp == ParseSortDomain(e.sort) /\ ps.ok /\ ps.mode = mode /\ SrcOK(e)
      shape == Len(e.m) = N /\ \A x \in I : Len(e.m[x]) = N
      mk == <<e.src, ps.rev>>
      ok2 == <<e.src, ~ps.rev>>
      M(x, y) == e.m[x][y] = 1
      Asc(x, y) == IF ps.rev THEN M(y, x) ELSE M(x, y)       \* the ascending view
      ok == okp /\ shape
  IN << <<"parse", okp>>, <<"shape", okp => shape>>,
        \* any two distinct keys are ordered, one way only
        <<"total", ok => \A x \in I, y \in I : x # y => (M(x, y) \/ M(y, x))>>,
        <<"asym",  ok => \A x \in I, y \in I : x # y => ~(M(x, y) /\ M(y, x))>>,
        \* the decisions are mutually consistent
        <<"trans", ok => \A x \in I, y \in I, z \in I :
                           (x # y /\ y # z /\ x # z /\ M(x, y) /\ M(y, z)) => M(x, z)>>,
        \* the specified order on a homogeneous pool (numbers by magnitude, calendar, ...)
        <<"spec", (ok /\ Det(I)) => \A x \in I, y \in I : (x # y /\ sl[x][y]) => Asc(x, y)>>,
        \* a NEW comparator asked about one pair decides what sorting the two-key pool {x, y} shows:
        \* two keys of one kind are a homogeneous pool even when the pool they were taken from is
        \* mixed (two text keys that begin like weekday names are still ordered as text)
        <<"pair", (ok /\ e.fresh /\ ~Det(I)) =>
                    \A x \in I, y \in I : (x # y /\ Det({x, y}) /\ sl[x][y]) => Asc(x, y)>>,
        \* ordered the same way every time (fresh comparator, reused comparator, aliases)
        <<"same", (ok /\ mk \in DOMAIN mats) =>
                    \A x \in I, y \in I : x # y => M(x, y) = (mats[mk][x][y] = 1)>>,
        \* reversing is the converse
        <<"converse", (ok /\ ok2 \in DOMAIN mats) =>
                    \A x \in I, y \in I : x # y => M(x, y) = (mats[ok2][y][x] = 1)>> >>
TMat ==
  /\ Ev.event = "mat"
  /\ LET laws == MatLaws(Ev)
         ps == ParseSort(Ev.sort)
     IN /\ bad' = Entries("mat", Failed(laws), I, IF Ev.fresh THEN "fresh" ELSE "reused")
        /\ mats' = IF laws[1][2] /\ laws[2][2] /\ <<Ev.src, ps.rev>> \notin DOMAIN mats
                   THEN mats @@ (<<Ev.src, ps.rev>> :> Ev.m) ELSE mats
  /\ UNCHANGED <<tid, mode, pool, vmap, kinds, sl, canon>>

\* ------------------------------------------------------------------ sorted
SortLaws(e) ==
  LET ps == ParseSort(e.sort)
      okp == ParseSortDomain(e.sort) /\ ps.ok /\ ps.mode = mode /\ SrcOK(e)
      S == SeqSet(e.sub)
      mk == <<e.src, ps.rev>>
      O == {e.outs[k].out : k \in 1..Len(e.outs)}
      perm == \A o \in O : Len(o) = Len(e.sub) /\ SeqSet(o) = S
      ok == okp /\ perm /\ S \subseteq I
      Asc(x, y) == IF ps.rev THEN sl[y][x] ELSE sl[x][y]     \* specified order in display direction
      key == <<e.src, ps.rev, S>>
      okey == <<e.src, ~ps.rev, S>>
  IN << <<"parse", okp>>,
        \* the result is a rearrangement of the keys handed in
        <<"perm", okp => (perm /\ S \subseteq I /\ Len(e.outs) >= 1)>>,
        \* every start permutation / map order gives one and the same sequence
        <<"deterministic", ok => Cardinality(O) = 1>>,
        \* ... the same as every earlier sort of these keys in this direction
        <<"same", (ok /\ key \in DOMAIN canon) => \A o \in O : o = canon[key]>>,
        \* ... and the reversed sequence of the opposite direction
        <<"reverse", (ok /\ okey \in DOMAIN canon) => \A o \in O : o = RevSeq(canon[okey])>>,
        \* homogeneous keys: no key is displayed after one the specification puts behind it
        <<"spec", (ok /\ Det(S)) => \A o \in O : \A x \in 1..Len(o), y \in 1..Len(o) :
                                       x < y => ~Asc(o[y], o[x])>>,
        \* the sequence is the one the comparator's own decisions describe
        <<"matrix", (ok /\ mk \in DOMAIN mats) => \A o \in O : \A x \in 1..Len(o), y \in 1..Len(o) :
                                       x < y => mats[mk][o[x]][o[y]] = 1>> >>
TSorted ==
  /\ Ev.event = "sorted"
  /\ LET laws == SortLaws(Ev)
         ps == ParseSort(Ev.sort)
         S == SeqSet(Ev.sub)
         key == <<Ev.src, ps.rev, S>>
     IN /\ bad' = Entries("sorted", Failed(laws), S \cap I, Ev.via)
        /\ canon' = IF laws[1][2] /\ laws[2][2] /\ key \notin DOMAIN canon
                    THEN canon @@ (key :> Ev.outs[1].out) ELSE canon
  /\ UNCHANGED <<tid, mode, pool, vmap, kinds, sl, mats>>

\* --------------------------------------------------------------------- top
\* a display limited to k rows shows the first k keys of the full order (which must have been
\* recorded before), every time
TopLaws(e) ==
  LET ps == ParseSort(e.sort)
      okp == ParseSortDomain(e.sort) /\ ps.ok /\ ps.mode = mode /\ SrcOK(e)
      O == {e.outs[x].out : x \in 1..Len(e.outs)}
      key == <<e.src, ps.rev, I>>
      ok == okp /\ key \in DOMAIN canon /\ e.k \in 0..N
  IN << <<"parse", okp>>,
        <<"deterministic", ok => Cardinality(O) = 1>>,
        <<"prefix", ok => \A o \in O : o = SubSeq(canon[key], 1, e.k)>> >>
TTop ==
  /\ Ev.event = "top"
  /\ bad' = Entries("top", Failed(TopLaws(Ev)), I, Ev.via)
  /\ UNCHANGED <<tid, mode, pool, vmap, kinds, sl, mats, canon>>

TUnknown ==
  /\ Ev.event \notin {"reset", "build", "mat", "sorted", "top"}
  /\ bad' = Note(bad, "?", "harness", mode, "?", "?", tid)
  /\ UNCHANGED <<tid, mode, pool, vmap, kinds, sl, mats, canon>>

TInit == /\ l = 1 /\ tid = 0 /\ mode = "text" /\ pool = <<>> /\ vmap = [w |-> 0, off |-> "zero"] /\ kinds = <<>> /\ sl = <<>>
         /\ mats = EmptyFn /\ canon = EmptyFn /\ bad = EmptyFn
TNext == /\ l <= Len(Trace) /\ l' = l + 1
         /\ (TReset \/ TBuild \/ TMat \/ TSorted \/ TTop \/ TUnknown)
TSpec == TInit /\ [][TNext]_tvars

BadSeq == LET ks == SetToSeq(DOMAIN bad) IN
  [k \in 1..Len(ks) |-> [ev |-> ks[k][1], law |-> ks[k][2], mode |-> ks[k][3], cls |-> ks[k][4],
                         t |-> bad[ks[k]].t, l |-> bad[ks[k]].l, via |-> bad[ks[k]].via, n |-> bad[ks[k]].n]]
Final == (l = Len(Trace) + 1) => JsonSerialize("bad.json", [bad |-> BadSeq, consumed |-> l - 1, done |-> TRUE])
=============================================================================

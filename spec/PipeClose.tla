------------------------------- MODULE PipeClose -------------------------------
(* C01 / C05: the close order and the batch accounting of rare's pipeline,        *)
(* PROVED with TLAPS for any number of batches N, workers W and channel           *)
(* capacities C1, C2 (TLC explores Pipeline.tla / AggLoop.tla with identities,    *)
(* contents and the ticker for small constants; this module is the same protocol  *)
(* reduced to counters, because readers, batches and workers are interchangeable  *)
(* for these clauses):                                                            *)
(*   readers send batches on the batch channel, which is closed only after the    *)
(*   last reader is done (wg.Wait in the spawner); a worker receives a batch,     *)
(*   sends its matches on the match channel unless it has none, and leaves when   *)
(*   the batch channel is closed and drained; the match channel is closed only    *)
(*   after the last worker left; the consumer receives until it is closed and     *)
(*   drained.                                                                     *)
(* Proved: nobody ever sends on a closed channel (the sender states are           *)
(* unreachable once the channel is closed), channel lengths respect the           *)
(* capacities, every batch is in exactly one place at every moment (Account), so  *)
(* when the consumer has seen the end every batch was processed exactly once and  *)
(* every non-empty result was consumed exactly once (AtEnd).                      *)
EXTENDS Naturals, TLAPS
CONSTANTS N, W, C1, C2
ASSUME Params == N \in Nat /\ W \in Nat /\ W > 0 /\ C1 \in Nat /\ C1 > 0 /\ C2 \in Nat /\ C2 > 0
VARIABLES todo,      \* batches the readers have not sent yet
          ch1,       \* batches in the batch channel
          closed1,
          wrecv,     \* workers waiting to receive
          wsend,     \* workers holding a non-empty result to send
          wdone,     \* workers that left
          skipped,   \* batches whose result was empty (nothing to send)
          ch2,       \* results in the match channel
          closed2,
          consumed,  \* results the consumer took
          cend       \* the consumer saw the match channel closed and drained
vars == <<todo, ch1, closed1, wrecv, wsend, wdone, skipped, ch2, closed2, consumed, cend>>

Init == /\ todo = N /\ ch1 = 0 /\ closed1 = FALSE /\ wrecv = W /\ wsend = 0 /\ wdone = 0
        /\ skipped = 0 /\ ch2 = 0 /\ closed2 = FALSE /\ consumed = 0 /\ cend = FALSE

RSend ==   /\ todo > 0 /\ ~closed1 /\ ch1 < C1          \* a send on a closed channel would be a panic: see NoSendOnClosed
           /\ todo' = todo - 1 /\ ch1' = ch1 + 1
           /\ UNCHANGED <<closed1, wrecv, wsend, wdone, skipped, ch2, closed2, consumed, cend>>
Close1 ==  /\ todo = 0 /\ ~closed1 /\ closed1' = TRUE   \* wg.Wait(); close(batch channel)
           /\ UNCHANGED <<todo, ch1, wrecv, wsend, wdone, skipped, ch2, closed2, consumed, cend>>
WRecvHit == /\ wrecv > 0 /\ ch1 > 0                      \* a batch with matches
            /\ ch1' = ch1 - 1 /\ wrecv' = wrecv - 1 /\ wsend' = wsend + 1
            /\ UNCHANGED <<todo, closed1, wdone, skipped, ch2, closed2, consumed, cend>>
WRecvMiss == /\ wrecv > 0 /\ ch1 > 0                     \* a batch without matches: nothing is sent
             /\ ch1' = ch1 - 1 /\ skipped' = skipped + 1
             /\ UNCHANGED <<todo, closed1, wrecv, wsend, wdone, ch2, closed2, consumed, cend>>
WSend ==   /\ wsend > 0 /\ ~closed2 /\ ch2 < C2
           /\ wsend' = wsend - 1 /\ wrecv' = wrecv + 1 /\ ch2' = ch2 + 1
           /\ UNCHANGED <<todo, ch1, closed1, wdone, skipped, closed2, consumed, cend>>
WExit ==   /\ wrecv > 0 /\ ch1 = 0 /\ closed1
           /\ wrecv' = wrecv - 1 /\ wdone' = wdone + 1
           /\ UNCHANGED <<todo, ch1, closed1, wsend, skipped, ch2, closed2, consumed, cend>>
Close2 ==  /\ wdone = W /\ ~closed2 /\ closed2' = TRUE   \* wg.Wait(); close(match channel)
           /\ UNCHANGED <<todo, ch1, closed1, wrecv, wsend, wdone, skipped, ch2, consumed, cend>>
CRecv ==   /\ ch2 > 0 /\ ~cend /\ ch2' = ch2 - 1 /\ consumed' = consumed + 1
           /\ UNCHANGED <<todo, ch1, closed1, wrecv, wsend, wdone, skipped, closed2, cend>>
CEnd ==    /\ ch2 = 0 /\ closed2 /\ ~cend /\ cend' = TRUE
           /\ UNCHANGED <<todo, ch1, closed1, wrecv, wsend, wdone, skipped, ch2, closed2, consumed>>

Next == RSend \/ Close1 \/ WRecvHit \/ WRecvMiss \/ WSend \/ WExit \/ Close2 \/ CRecv \/ CEnd
Spec == Init /\ [][Next]_vars

TypeOK == /\ todo \in Nat /\ ch1 \in Nat /\ wrecv \in Nat /\ wsend \in Nat /\ wdone \in Nat /\ skipped \in Nat
          /\ ch2 \in Nat /\ consumed \in Nat /\ closed1 \in BOOLEAN /\ closed2 \in BOOLEAN /\ cend \in BOOLEAN
\* the clauses
NoSendOnClosed == (closed1 => todo = 0) /\ (closed2 => wsend = 0)     \* no would-be sender is left when a channel is closed
Capacity == ch1 <= C1 /\ ch2 <= C2
Account == /\ todo + ch1 + wsend + skipped + ch2 + consumed = N       \* every batch is in exactly one place
           /\ wrecv + wsend + wdone = W
AtEnd == cend => (todo = 0 /\ ch1 = 0 /\ wsend = 0 /\ ch2 = 0 /\ wdone = W /\ skipped + consumed = N)
Safe == NoSendOnClosed /\ Capacity /\ Account /\ AtEnd
IndInv == /\ TypeOK /\ NoSendOnClosed /\ Capacity /\ Account
          /\ (wdone > 0 => (closed1 /\ ch1 = 0))
          /\ (closed2 => wdone = W)
          /\ (cend => (closed2 /\ ch2 = 0))

THEOREM Safety == Spec => []Safe
<1>1. Init => IndInv
  BY Params DEF Init, IndInv, TypeOK, NoSendOnClosed, Capacity, Account
<1>2. IndInv /\ [Next]_vars => IndInv'
  <2> SUFFICES ASSUME IndInv, [Next]_vars PROVE IndInv'
    OBVIOUS
  <2> USE Params DEF IndInv, TypeOK, NoSendOnClosed, Capacity, Account
  <2>1. CASE RSend BY <2>1 DEF RSend
  <2>2. CASE Close1 BY <2>2 DEF Close1
  <2>3. CASE WRecvHit BY <2>3 DEF WRecvHit
  <2>4. CASE WRecvMiss BY <2>4 DEF WRecvMiss
  <2>5. CASE WSend BY <2>5 DEF WSend
  <2>6. CASE WExit BY <2>6 DEF WExit
  <2>7. CASE Close2 BY <2>7 DEF Close2
  <2>8. CASE CRecv BY <2>8 DEF CRecv
  <2>9. CASE CEnd BY <2>9 DEF CEnd
  <2>10. CASE UNCHANGED vars BY <2>10 DEF vars
  <2> QED BY <2>1, <2>2, <2>3, <2>4, <2>5, <2>6, <2>7, <2>8, <2>9, <2>10 DEF Next
<1>3. IndInv => Safe
  BY Params DEF IndInv, Safe, TypeOK, NoSendOnClosed, Capacity, Account, AtEnd
<1> QED
  BY <1>1, <1>2, <1>3, PTL DEF Spec
=============================================================================

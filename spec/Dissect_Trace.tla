---------------------------- MODULE Dissect_Trace ----------------------------
(* C12 - B2: validates recorded executions of the real dissect matcher against  *)
(* the Dissect specification.  TLC computes every expectation itself.           *)
(*                                                                              *)
(*  reset{t, pat, ic, res, names, groups}  CompileEx(pat, ic): res = "ok" or    *)
(*        the error class; names = SubexpNameTable sorted by index              *)
(*  m{line, got}      FindSubmatchIndex(line) on the ONE instance of the trace  *)
(*                    (got = [] for nil)                                        *)
(*  late{k, got}      the k-th result of the trace, re-read after all calls     *)
(*  cli{pat, ic, names, lines, out}   `rare filter -d pat [-I] -l -e <expr>`    *)
(*        over a file holding `lines`; out = <<lineno, extracted text>> in      *)
(*        output order; expr = "<{0}|{1}|..|{n}|{name1}|..>"                    *)
(*                                                                              *)
(*                                                                              *)
(* Several instances of ONE compiled pattern used at the same time (DissectShared:*)
(* with a pool per instance the workers are independent single-instance         *)
(* machines, so every observation must be explained by the single-instance      *)
(* specification).  After a reset{..., W, via} of the scenario:                 *)
(*  cm{line, got, ns}   some instance(s) returned `got` for `line` (ns[w] times *)
(*                    on worker w); one record per DISTINCT result seen         *)
(*  clate{line, same, was, now, ns}  a result returned for `line` read `was`    *)
(*                    when it was returned and `now` when it was read again     *)
(*                    after thousands of later calls (same = TRUE: unchanged)   *)
(*  ccrash{msg}        the process running the scenario died (twice in a row):  *)
(*                    a panic outside FindSubmatchIndex's caller's reach or a   *)
(*                    fatal runtime error (DissectShared!NoPanic; never allowed *)
(*                    for a pattern of the domain)                              *)
(*  ccli{pat, ic, lines, sent, printed, seen, dup, stray}   `rare filter -d pat *)
(*        [-I] -l -e <expr> -w W` over a file of sent[i] copies of lines[i] in  *)
(*        random order: printed[i] of them were printed, seen = the distinct    *)
(*        <<i, extracted text, count>>; dup / stray = line numbers printed      *)
(*        twice / outside the file                                              *)
(*                                                                              *)
(* A record the specification cannot explain is collected in `bad` and the rest *)
(* of its trace is skipped.                                                     *)
EXTENDS Dissect, Json, TLC

Trace == ndJsonDeserialize("trace.ndjson")

VARIABLES l, tid, cur, hist, bad
tvars == <<l, tid, cur, hist, bad>>
\* cur = [dom, ok, p, ic]: the instance of the current trace

Ev == Trace[l]
IsEv(e) == l <= Len(Trace) /\ Ev.event = e /\ l' = l + 1

NoInst == [dom |-> FALSE, ok |-> FALSE, p |-> [prefix |-> <<>>, tokens |-> <<>>], ic |-> FALSE]

\* is the observed outcome of compiling `pat` what the specification demands?
CompileOK(pat, res, names, groups) ==
  InDomain(pat) =>
    LET s == Structure(pat)  errs == Errs(s) IN
    IF errs = {} THEN res = "ok" /\ names = NameTable(Compiled(pat)) /\ groups = Groups(Compiled(pat))
    ELSE res \in errs

TReset ==
  /\ IsEv("reset")
  /\ CompileOK(Ev.pat, Ev.res, Ev.names, Ev.groups)
  /\ tid' = Ev.t /\ hist' = <<>>
  /\ cur' = IF InDomain(Ev.pat) /\ Ev.res = "ok"
            THEN [dom |-> TRUE, ok |-> TRUE, p |-> Compiled(Ev.pat), ic |-> Ev.ic]
            ELSE [NoInst EXCEPT !.dom = InDomain(Ev.pat)]

\* one call; outside the domain of the specification anything is accepted
TMatch ==
  /\ IsEv("m")
  /\ (cur.dom /\ cur.ok) => Allowed(cur.p, Ev.line, cur.ic, Ev.got)
  /\ hist' = Append(hist, Ev.got)
  /\ UNCHANGED <<tid, cur>>

\* results handed out earlier are not altered by later calls
TLate ==
  /\ IsEv("late")
  /\ Ev.k \in 1..Len(hist) /\ hist[Ev.k] = Ev.got
  /\ UNCHANGED <<tid, cur, hist>>

\* ---- the command line --------------------------------------------------------
LT == 60  GT == 62  BAR == 124
\* "<g0|g1|..|gn|name1|..>" for a non-nil result r
CliText(p, line, r) ==
  LET n  == Groups(p)
      nt == NameTable(p)
      gs == [g \in 0..n |-> GroupText(line, r, g)]
  IN <<LT>> \o gs[0]
     \o Flatten([g \in 1..n |-> <<BAR>> \o gs[g]])
     \o Flatten([k \in 1..Len(nt) |-> <<BAR>> \o gs[nt[k][2]]])
     \o <<GT>>

RECURSIVE CliExpected(_, _, _, _)
CliExpected(p, ic, lines, i) ==
  IF i > Len(lines) THEN <<>>
  ELSE LET r == Expected(p, lines[i], ic) IN
       (IF r = Nil THEN <<>> ELSE << <<i, CliText(p, lines[i], r)>> >>) \o CliExpected(p, ic, lines, i + 1)

CliOK(e) ==
  (InDomain(e.pat) /\ Compiles(e.pat)) =>
    LET p == Compiled(e.pat) IN
    IF \A i \in 1..Len(e.lines) : Determined(p, e.lines[i], e.ic)
    THEN e.out = CliExpected(p, e.ic, e.lines, 1)
    ELSE \* ignore-case over non-ASCII text: every line matched case-sensitively is still printed
         \A i \in 1..Len(e.lines) :
           Match(p, e.lines[i]) # Nil => \E j \in 1..Len(e.out) : e.out[j][1] = i

TCli ==
  /\ IsEv("cli")
  /\ CliOK(Ev)
  /\ tid' = Ev.t /\ hist' = <<>> /\ cur' = NoInst

\* ---- several instances of one compiled pattern, used concurrently ---------------
\* a result some instance returned for the line while the others were matching too
TCMatch ==
  /\ IsEv("cm")
  /\ (cur.dom /\ cur.ok) => Allowed(cur.p, Ev.line, cur.ic, Ev.got)
  /\ UNCHANGED <<tid, cur, hist>>

\* results handed out earlier are not altered by later calls - of any instance
TCLate ==
  /\ IsEv("clate")
  /\ Ev.same /\ Ev.was = Ev.now
  /\ UNCHANGED <<tid, cur, hist>>

TCCrash ==
  /\ IsEv("ccrash")
  /\ ~(cur.dom /\ cur.ok)
  /\ UNCHANGED <<tid, cur, hist>>

Seen(e, i) == {j \in 1..Len(e.seen) : e.seen[j][1] = i}
CCliOK(e) ==
  /\ e.dup = 0 /\ e.stray = 0
  /\ (InDomain(e.pat) /\ Compiles(e.pat)) =>
       LET p == Compiled(e.pat) IN
       \A i \in 1..Len(e.lines) :
         IF Determined(p, e.lines[i], e.ic)
         THEN LET r == Expected(p, e.lines[i], e.ic) IN
              IF r = Nil THEN e.printed[i] = 0 /\ Seen(e, i) = {}
              ELSE /\ e.printed[i] = e.sent[i]
                   /\ \A j \in Seen(e, i) : e.seen[j][2] = CliText(p, e.lines[i], r)
         ELSE Match(p, e.lines[i]) # Nil => e.printed[i] = e.sent[i]

TCCli ==
  /\ IsEv("ccli")
  /\ CCliOK(Ev)
  /\ tid' = Ev.t /\ hist' = <<>> /\ cur' = NoInst

TStep == TReset \/ TMatch \/ TLate \/ TCli \/ TCMatch \/ TCLate \/ TCCrash \/ TCCli

RECURSIVE NextStart(_)
NextStart(i) == IF i > Len(Trace) \/ Trace[i].event \in {"reset", "cli", "ccli"} THEN i ELSE NextStart(i + 1)

Skip ==
  /\ l <= Len(Trace)
  /\ ~ENABLED TStep
  /\ bad' = Append(bad, [t |-> IF Ev.event \in {"reset", "cli", "ccli"} THEN Ev.t ELSE tid, l |-> l])
  /\ l' = NextStart(l + 1)
  /\ UNCHANGED <<tid, cur, hist>>

TInit == l = 1 /\ tid = 0 /\ cur = NoInst /\ hist = <<>> /\ bad = <<>>
TNext == (TStep /\ UNCHANGED bad) \/ Skip
TSpec == TInit /\ [][TNext]_tvars

Final == (l = Len(Trace) + 1) => JsonSerialize("bad.json", [bad |-> bad, consumed |-> l - 1, done |-> TRUE])
=============================================================================

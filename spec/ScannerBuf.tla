----------------------------- MODULE ScannerBuf -----------------------------
(* C04 - implementation-shaped model of readahead.BufferedReadAhead.Scan        *)
(* (pkg/readahead/buffered.go).  Same memory model as ScannerImm: numbered      *)
(* buffers, tokens are views.  `blen` is the valid length of the current buffer *)
(* (len(s.buf) after `s.buf = s.buf[:readOffset]`).                             *)
EXTENDS Bytes, TLC

CONSTANTS Alphabet, MaxLen, BufSize, MaxStall       \* BufSize = maxBufLen (> 1)

VARIABLES bufs, cur, blen, offset, eof, pc,                 \* implementation state
          delivered, st, stalls,                            \* environment
          toks, handed, errs, done                          \* observations (ghost)

vars == <<bufs, cur, blen, offset, eof, pc, delivered, st, stalls, toks, handed, errs, done>>

Zeros(n) == [i \in 1..n |-> 0]
Buf == bufs[cur]
WriteAt(b, pos, data) ==
  [i \in 1..Len(b) |-> IF i > pos /\ i <= pos + Len(data) THEN data[i - pos] ELSE b[i]]
View(h) == SubSeq(bufs[h.b], h.lo + 1, h.hi)
DropCRView(lo, hi) == IF hi > lo /\ Buf[hi] = CR THEN hi - 1 ELSE hi
Max2(a, b) == IF a > b THEN a ELSE b

Init ==
  /\ bufs = << <<>> >> /\ cur = 1 /\ blen = 0 /\ offset = 0 /\ eof = FALSE /\ pc = "idle"
  /\ delivered = <<>> /\ st = "open" /\ stalls = 0
  /\ toks = <<>> /\ handed = <<>> /\ errs = 0 /\ done = FALSE

Return(lo, hi) ==
  LET h == [b |-> cur, lo |-> lo, hi |-> hi, data |-> SubSeq(Buf, lo + 1, hi)] IN
  /\ toks' = Append(toks, h.data)
  /\ handed' = Append(handed, h)
  /\ pc' = "idle"

Call ==
  /\ pc = "idle" /\ ~done /\ pc' = "search"
  /\ UNCHANGED <<bufs, cur, blen, offset, eof, delivered, st, stalls, toks, handed, errs, done>>

\* top of the for loop: look for the delimiter in buf[offset:]
Search ==
  /\ pc = "search"
  /\ LET eol == IF offset < blen THEN IndexByteFrom(SubSeq(Buf, 1, blen), LF, offset + 1) ELSE 0 IN
     IF eol # 0 THEN
       /\ Return(offset, DropCRView(offset, eol - 1))
       /\ offset' = eol
       /\ UNCHANGED <<bufs, cur, blen, done>>
     ELSE IF eof /\ offset < blen THEN
       /\ Return(offset, blen)
       /\ offset' = blen
       /\ UNCHANGED <<bufs, cur, blen, done>>
     ELSE IF ~eof THEN
       \* resize: new buffer, copy the unconsumed tail, fill from there
       LET rest == SubSeq(Buf, offset + 1, blen)
           nb   == WriteAt(Zeros(Max2(BufSize, Len(rest) + BufSize \div 2)), 0, rest) IN
       /\ bufs' = Append(bufs, nb)
       /\ cur' = Len(bufs) + 1
       /\ blen' = Len(rest)            \* readOffset
       /\ offset' = 0
       /\ pc' = "fill"
       /\ UNCHANGED <<toks, handed, done>>
     ELSE
       /\ done' = TRUE /\ pc' = "idle"
       /\ UNCHANGED <<bufs, cur, blen, offset, toks, handed>>
  /\ UNCHANGED <<eof, delivered, st, stalls, errs>>

\* for readOffset < len(s.buf) { n, err := s.r.Read(s.buf[readOffset:]) ... }
Fill ==
  /\ pc = "fill"
  /\ IF blen < Len(Buf) THEN
       \E n \in 0..MinOf({Len(Buf) - blen, MaxLen - Len(delivered)}) :
       \E data \in [1..n -> Alphabet] :
       \E e \in {"nil", "eof", "fail"} :
         /\ (n = 0 /\ e = "nil") => stalls < MaxStall
         /\ stalls' = IF n = 0 /\ e = "nil" THEN stalls + 1 ELSE 0
         /\ bufs' = [bufs EXCEPT ![cur] = WriteAt(Buf, blen, data)]
         /\ blen' = blen + n
         /\ delivered' = delivered \o data
         /\ IF e = "nil" THEN UNCHANGED <<eof, st, pc>>
            ELSE /\ eof' = TRUE /\ st' = e
                 /\ pc' = IF e = "fail" THEN "onerr" ELSE "search"
     ELSE
       /\ pc' = "search"
       /\ UNCHANGED <<bufs, blen, delivered, st, stalls, eof>>
  /\ UNCHANGED <<cur, offset, toks, handed, errs, done>>

OnErr ==
  /\ pc = "onerr" /\ errs' = errs + 1 /\ pc' = "search"
  /\ UNCHANGED <<bufs, cur, blen, offset, eof, delivered, st, stalls, toks, handed, done>>

Next == Call \/ Search \/ Fill \/ OnErr
Spec == Init /\ [][Next]_vars /\ WF_vars(Next)

\* Scan() called again after it has returned false: no delimiter, eof, nothing left -> false again
Again ==
  /\ pc = "idle" /\ done /\ pc' = "search"
  /\ UNCHANGED <<bufs, cur, blen, offset, eof, delivered, st, stalls, toks, handed, errs, done>>
NextA == Next \/ Again
SpecA == Init /\ [][NextA]_vars /\ WF_vars(Next)

--------------------------------------------------------------------------------
A == INSTANCE Scanner WITH pending <- SubSeq(Buf, offset + 1, blen), ntoks <- Len(toks)

Bounds      == 0 <= offset /\ offset <= blen /\ blen <= Len(Buf)
PrefixOK    == IsPrefixOf(toks, A!RefSplit(delivered, st # "open"))
EndOK       == done => (st # "open" /\ toks = A!RefSplit(delivered, TRUE))
ErrOK       == (pc # "onerr") => errs = (IF st = "fail" THEN 1 ELSE 0)
NoReadAfterEnd == pc = "fill" => (~eof /\ st = "open")
Lifetime    == \A i \in 1..Len(handed) : View(handed[i]) = handed[i].data
Refines     == A!ASpec
Terminates  == <>done
\* the end is final: once Scan() has returned false nothing is read, returned, reported or written any more
EndIsFinal  == [][done => UNCHANGED <<bufs, delivered, st, toks, handed, errs, done>>]_vars
=============================================================================

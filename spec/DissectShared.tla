---------------------------- MODULE DissectShared ----------------------------
(* C12 - W dissect instances created from ONE compiled pattern, each owned by   *)
(* one worker goroutine, interleaved step by step.                              *)
(*                                                                              *)
(* This is how the extractor uses the matcher: `CompileEx` once, then every     *)
(* worker calls `CreateInstance()` and matches its own lines with its own       *)
(* instance, concurrently with the others.  What the instances share is the     *)
(* compiled pattern `comp` (prefix, tokens, search function, group count); what *)
(* each of them owns is its int pool.  A worker is the DissectImpl machine      *)
(* (same program counter, same steps: IntPool.Get is one step per access to the *)
(* pool header, the scan loop one step per token), the system is their free     *)
(* interleaving.                                                                *)
(*                                                                              *)
(* Constants select the design:                                                 *)
(*   Sharing  "own"    every instance has its own pool (the code as designed)   *)
(*            "shared" ONE pool for all instances of the pattern, no lock       *)
(*                     (NEGATIVE CONTROL: two workers carve the same chunk)     *)
(*            "locked" one pool, Get under a mutex (an admissible alternative)  *)
(*   Schedule "any"    calls of different workers overlap freely                *)
(*            "serial" calls never overlap (one goroutine, or a lock around     *)
(*                     FindSubmatchIndex): even the shared pool is harmless -   *)
(*                     which is why single / sequential tests cannot see it     *)
(*   Lazy     "none"   the compiled pattern is complete after CompileEx         *)
(*            "flaglast" / "flagfirst"  the ignore-case literals are lowered on *)
(*                     first use by whichever worker comes first, the `done`    *)
(*                     flag written after / before the literals (NEGATIVE       *)
(*                     CONTROLS for "matching mutates the compiled pattern")    *)
(*                                                                              *)
(* TLC checks, over all interleavings:                                          *)
(*   Refines   every result, as returned, is Dissect!Expected for its line;     *)
(*   Lifetime  every result ever returned by ANY instance still reads as it did *)
(*             when it was returned (not altered by later lines of any worker); *)
(*   Disjoint  no two result slices of any instances overlap;                   *)
(*   NoPanic   Get never slices beyond its slab;                                *)
(*   CompImmutable  no step changes the compiled pattern;                       *)
(*   Confined  no two instances have the same pool, and a step of worker w      *)
(*             writes nothing but w's own pool and w's own locals - no memory   *)
(*             location is written by one worker and touched by another (the    *)
(*             race detector's report on the real code is the binding of this   *)
(*             design fact; the model itself is sequentially consistent, Go     *)
(*             promises nothing for a program with a data race);                *)
(*   OwnRefines     with Sharing = "own" the projection on each worker is a     *)
(*             behaviour of DissectImpl: the instances are independent single   *)
(*             instance machines, so the interleaving is irrelevant and the     *)
(*             single-instance results (DissectImpl, Dissect_Gen, B1) carry     *)
(*             over to any number of workers.                                   *)
EXTENDS DissectOps, FiniteSets

CONSTANTS
  PatTexts, ICs, Lines, MaxCalls, SlabRes,   \* as in DissectImpl (MaxCalls is per worker)
  Workers,    \* set of worker ids (positive integers)
  Sharing, Schedule, Lazy

ASSUME Sharing \in {"own", "shared", "locked"} /\ Schedule \in {"any", "serial"}
ASSUME Lazy \in {"none", "flaglast", "flagfirst"}

VARIABLES
  comp,     \* the compiled pattern shared by all instances: [text, ic, p, low, rlen, err, abs]
  pools,    \* [Pools -> [slabs, hdr]]
  lock,     \* Sharing = "locked": the worker inside Get, or 0
  wk        \* [Workers -> [pc, line, start, k, idx, ret, loc, handed, vals, args]]
vars == <<comp, pools, lock, wk>>

Pools     == IF Sharing = "own" THEN Workers ELSE {0}
PoolOf(w) == IF Sharing = "own" THEN w ELSE 0

P        == comp.p
IC       == comp.ic
RLen     == comp.rlen
SlabSize == comp.rlen * SlabRes
ZeroSlab == [i \in 1..SlabSize |-> 0]

NoH == [q |-> 0, s |-> 0, o |-> 0]
ReadH(h) == IF h = NoH THEN Nil ELSE [i \in 1..RLen |-> pools[h.q].slabs[h.s][h.o + i]]
\* ret[i] = v (i 0-based) through handle h
Poke(h, i, v) == [pools EXCEPT ![h.q].slabs[h.s][h.o + i + 1] = v]

Init ==
  /\ \E text \in PatTexts, ic \in ICs :
       LET c  == CompileImpl(text, ic)
           c0 == CompileImpl(text, FALSE)
           lz == ic /\ Lazy # "none"
       IN comp = [text |-> text, ic |-> ic, p |-> IF lz THEN c0.p ELSE c.p, low |-> ~lz,
                  rlen |-> 2 * Groups(c.p) + 2, err |-> c.err, abs |-> Compiled(text)]
  /\ pools = [q \in Pools |-> [slabs |-> <<ZeroSlab>>, hdr |-> [s |-> 1, u |-> 0]]]
  /\ lock = 0
  /\ wk = [w \in Workers |-> [pc |-> "idle", line |-> <<>>, start |-> 0, k |-> 1, idx |-> 2, ret |-> NoH,
                              loc |-> NoHdr, handed |-> <<>>, vals |-> <<>>, args |-> <<>>]]

\* the step of worker w replaces its record by r
Becomes(w, r) == wk' = [wk EXCEPT ![w] = r]

Call(w, l) ==
  /\ wk[w].pc = "idle" /\ Len(wk[w].handed) < MaxCalls
  /\ Schedule = "serial" => \A v \in Workers : wk[v].pc = "idle"
  /\ Becomes(w, [wk[w] EXCEPT !.line = l, !.pc = IF IC /\ Lazy # "none" THEN "lz" ELSE "prefix"])
  /\ UNCHANGED <<comp, pools, lock>>

\* ---- negative controls: literals lowered on first use, in place, in the shared compiled pattern
LzOps == IF Lazy = "flagfirst" THEN <<"flag", "prefix", "tokens">> ELSE <<"prefix", "tokens", "flag">>
LzChk(w) ==
  /\ wk[w].pc = "lz"
  /\ Becomes(w, [wk[w] EXCEPT !.pc = IF comp.low THEN "prefix" ELSE "lz1"])
  /\ UNCHANGED <<comp, pools, lock>>
LzStep(w, n) ==
  /\ wk[w].pc = <<"lz1", "lz2", "lz3">>[n]
  /\ comp' = CASE LzOps[n] = "flag"   -> [comp EXCEPT !.low = TRUE]
               [] LzOps[n] = "prefix" -> [comp EXCEPT !.p.prefix = LowerASCII(@)]
               [] LzOps[n] = "tokens" -> [comp EXCEPT !.p.tokens = FoldPat(comp.p).tokens]
  /\ Becomes(w, [wk[w] EXCEPT !.pc = <<"lz2", "lz3", "prefix">>[n]])
  /\ UNCHANGED <<pools, lock>>

ReturnNil(w) ==
  Becomes(w, [wk[w] EXCEPT !.pc = "idle", !.ret = NoH, !.handed = Append(@, NoH), !.vals = Append(@, Nil),
                           !.args = Append(@, wk[w].line)])

Prefix(w) ==
  /\ wk[w].pc = "prefix"
  /\ LET i == IF P.prefix = <<>> THEN 0 ELSE IndexFn(IC, wk[w].line, P.prefix) IN
     IF i < 0 THEN ReturnNil(w)
     ELSE Becomes(w, [wk[w] EXCEPT !.start = i + Len(P.prefix), !.pc = "get"])
  /\ UNCHANGED <<comp, pools, lock>>

\* ---- IntPool.Get on the pool of w's instance, one step per access to its header
GetChk(w) ==
  /\ wk[w].pc = "get"
  /\ Sharing = "locked" => lock = 0
  /\ lock' = IF Sharing = "locked" THEN w ELSE lock
  /\ Becomes(w, [wk[w] EXCEPT !.pc = IF SlabSize - pools[PoolOf(w)].hdr.u < RLen THEN "alloc" ELSE "carve"])
  /\ UNCHANGED <<comp, pools>>

GetAlloc(w) ==
  /\ wk[w].pc = "alloc"
  /\ LET q == PoolOf(w) IN
     pools' = [pools EXCEPT ![q] = [slabs |-> Append(@.slabs, ZeroSlab), hdr |-> [s |-> Len(@.slabs) + 1, u |-> 0]]]
  /\ Becomes(w, [wk[w] EXCEPT !.pc = "carve"])
  /\ UNCHANGED <<comp, lock>>

GetCarve(w) ==
  /\ wk[w].pc = "carve"
  /\ LET q == PoolOf(w)  h == pools[q].hdr IN
     IF SlabSize - h.u < RLen THEN Becomes(w, [wk[w] EXCEPT !.pc = "panic"])       \* slice bounds out of range
     ELSE Becomes(w, [wk[w] EXCEPT !.pc = "advr", !.ret = [q |-> q, s |-> h.s, o |-> h.u]])
  /\ UNCHANGED <<comp, pools, lock>>

GetAdvR(w) ==
  /\ wk[w].pc = "advr"
  /\ Becomes(w, [wk[w] EXCEPT !.pc = "advw", !.loc = pools[PoolOf(w)].hdr])
  /\ UNCHANGED <<comp, pools, lock>>

GetAdvW(w) ==
  /\ wk[w].pc = "advw"
  /\ LET l == wk[w].loc IN
     IF l.u + RLen > SlabSize THEN Becomes(w, [wk[w] EXCEPT !.pc = "panic", !.loc = NoHdr]) /\ pools' = pools
     ELSE /\ Becomes(w, [wk[w] EXCEPT !.pc = "r0", !.loc = NoHdr])
          /\ pools' = [pools EXCEPT ![PoolOf(w)].hdr = [l EXCEPT !.u = @ + RLen]]
  /\ lock' = IF Sharing = "locked" THEN 0 ELSE lock
  /\ UNCHANGED comp

Ret0(w) ==
  /\ wk[w].pc = "r0"
  /\ pools' = Poke(wk[w].ret, 0, wk[w].start - Len(P.prefix))
  /\ Becomes(w, [wk[w] EXCEPT !.k = 1, !.idx = 2, !.pc = "tok"])
  /\ UNCHANGED <<comp, lock>>

TokStep(w) ==
  /\ wk[w].pc = "tok" /\ wk[w].k <= Len(P.tokens)
  /\ LET W    == wk[w]
         t    == P.tokens[W.k]
         rest == DropFirst(W.line, W.start)
         eo   == IF t.until = <<>> THEN Len(rest) ELSE IndexFn(IC, rest, t.until)
         h    == W.ret
     IN IF eo < 0 THEN ReturnNil(w) /\ pools' = pools
        ELSE /\ pools' = IF t.skip THEN pools
                         ELSE [pools EXCEPT ![h.q].slabs[h.s][h.o + W.idx + 1] = W.start,
                                            ![h.q].slabs[h.s][h.o + W.idx + 2] = W.start + eo]
             /\ Becomes(w, [W EXCEPT !.idx = IF t.skip THEN @ ELSE @ + 2,
                                     !.start = @ + eo + Len(t.until), !.k = @ + 1])
  /\ UNCHANGED <<comp, lock>>

Finish(w) ==
  /\ wk[w].pc = "tok" /\ wk[w].k > Len(P.tokens)
  /\ LET W == wk[w]  h == W.ret IN
     /\ pools' = Poke(h, 1, W.start)
     /\ Becomes(w, [W EXCEPT !.pc = "idle", !.ret = NoH, !.handed = Append(@, h),
                             !.vals = Append(@, [i \in 1..RLen |-> pools'[h.q].slabs[h.s][h.o + i]]),
                             !.args = Append(@, W.line)])
  /\ UNCHANGED <<comp, lock>>

Step(w) ==
  \/ \E l \in Lines : Call(w, l)
  \/ LzChk(w) \/ (\E n \in 1..3 : LzStep(w, n))
  \/ Prefix(w) \/ GetChk(w) \/ GetAlloc(w) \/ GetCarve(w) \/ GetAdvR(w) \/ GetAdvW(w)
  \/ Ret0(w) \/ TokStep(w) \/ Finish(w)
Next == \E w \in Workers : Step(w)
Spec == Init /\ [][Next]_vars

-----------------------------------------------------------------------------
(* invariants *)
TypeOK ==
  /\ comp.err = "none"
  /\ \A q \in Pools : pools[q].hdr.s \in 1..Len(pools[q].slabs) /\ pools[q].hdr.u \in 0..SlabSize
  /\ \A w \in Workers : Len(wk[w].handed) = Len(wk[w].vals) /\ Len(wk[w].vals) = Len(wk[w].args)

NoPanic == \A w \in Workers : wk[w].pc # "panic"

\* every result any caller holds still reads as it did when it was returned
Lifetime == \A w \in Workers : \A i \in 1..Len(wk[w].handed) : ReadH(wk[w].handed[i]) = wk[w].vals[i]

\* no two result slices (returned by any instance, or being filled) overlap
Slots == {<<w, i>> : w \in Workers, i \in 0..MaxCalls}
Slot(a) == LET W == wk[a[1]] IN IF a[2] = 0 THEN W.ret ELSE IF a[2] <= Len(W.handed) THEN W.handed[a[2]] ELSE NoH
Apart(g, h) == g.q # h.q \/ g.s # h.s \/ g.o + RLen <= h.o \/ h.o + RLen <= g.o
Disjoint ==
  \A a, b \in Slots : (a # b /\ Slot(a) # NoH /\ Slot(b) # NoH) =>
     /\ Apart(Slot(a), Slot(b))
     /\ Slot(a).s \in 1..Len(pools[Slot(a).q].slabs) /\ Slot(a).o + RLen <= SlabSize

\* what an instance returns is what the specification says (checked at the return; Lifetime
\* carries it over to all later states)
P0 == comp.abs
Refines ==
  \A w \in Workers :
    LET W == wk[w]  n == Len(W.vals) IN
    (n > 0 /\ W.pc = "idle") => W.vals[n] = Expected(P0, W.args[n], IC) /\ Allowed(P0, W.args[n], IC, W.vals[n])

\* matching never writes to the compiled pattern
CompImmutable == [][comp' = comp]_vars

\* every instance has a pool of its own, and a step of w writes only w's pool and w's locals
OwnPools == \A v, w \in Workers : v # w => PoolOf(v) # PoolOf(w)
WritesOwn ==
  [][\A w \in Workers : Step(w) =>
        /\ \A q \in Pools \ {PoolOf(w)} : pools'[q] = pools[q]
        /\ \A v \in Workers \ {w} : wk'[v] = wk[v]
        /\ comp' = comp /\ lock' = lock]_vars

-----------------------------------------------------------------------------
(* Sharing = "own": the system is W independent DissectImpl machines *)
H2(h) == [s |-> h.s, o |-> h.o]
CompView == [text |-> comp.text, ic |-> comp.ic, p |-> comp.p, rlen |-> comp.rlen, err |-> comp.err, abs |-> comp.abs]
I(w) == INSTANCE DissectImpl WITH
          inst <- CompView, slabs <- pools[w].slabs, hdr <- pools[w].hdr, loc <- wk[w].loc, pc <- wk[w].pc,
          line <- wk[w].line, start <- wk[w].start, k <- wk[w].k, idx <- wk[w].idx, ret <- H2(wk[w].ret),
          handed <- [i \in 1..Len(wk[w].handed) |-> H2(wk[w].handed[i])], vals <- wk[w].vals, args <- wk[w].args
OwnRefines == \A w \in Workers : I(w)!Spec
=============================================================================

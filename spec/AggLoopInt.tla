------------------------------ MODULE AggLoopInt ------------------------------
(* X03 (beyond the listed properties): the interrupt path of the aggregation    *)
(* loop.  RunAggregationLoop also selects on a signal channel                   *)
(* (`signal.Notify(exitSignal, os.Interrupt)`, capacity 1): Ctrl-C leaves the   *)
(* processing loop, stops the ticker by the same rendezvous and draws the final *)
(* picture of what was sampled so far; readers and workers are simply left      *)
(* behind (the process exits).  This module adds that path to AggLoop.tla:      *)
(*                                                                              *)
(*   Signal      the environment delivers SIGINT (further ones are coalesced in *)
(*               the 1-buffered channel or find nobody listening)               *)
(*   MInterrupt  `case <-exitSignal: break PROCESSING_LOOP` - only at the       *)
(*               select, i.e. never while the mutex is held                     *)
(*                                                                              *)
(* What the user is owed after Ctrl-C: the program ends - whatever the input    *)
(* does, also when it never ends or stalls (IntTerminates holds with fairness   *)
(* of the main loop and the ticker ONLY) -; the ticker is gone and the mutex    *)
(* free; the last picture shows exactly what was sampled (IntFinalComplete),    *)
(* which is never more than the input holds (SnapLeFinal), with a matched total *)
(* not below the displayed counts; with one reader and one worker what was      *)
(* sampled is a prefix of the input (PrefixW1).  Without a signal nothing       *)
(* changes (NoSigSame: AggLoop's FinalAfterAll).                                *)
(*                                                                              *)
(* IntDesign \in {"select" (the code), "nosig" (nobody listens), "lockedbreak"  *)
(* (the signal is tested inside the sampling loop and the break leaves the      *)
(* mutex locked), "closedone" (close(outputDone) instead of the rendezvous)}:   *)
(* the last three are negative controls.                                        *)
EXTENDS AggLoop

CONSTANT IntDesign
VARIABLES sig,      \* 0: no signal yet, 1: a signal waits in exitSignal, 2: taken by the loop
          dClosed   \* "closedone" only: outputDone was closed
ivars == <<vars, sig, dClosed>>

IInit == Init /\ sig = 0 /\ dClosed = FALSE

Signal ==
  /\ sig = 0
  /\ sig' = 1
  /\ UNCHANGED <<vars, dClosed>>

mainUnch == <<readCh, mb, tpc, ticks, mutex, doneBuf, cnt, snap, snapM, fresh>>

MInterrupt ==     \* case <-exitSignal: break PROCESSING_LOOP
  /\ IntDesign # "nosig"
  /\ mpc = "select" /\ sig = 1
  /\ sig' = 2 /\ mpc' = "sendDone"
  /\ UNCHANGED mainUnch /\ UNCHANGED loopUnch /\ UNCHANGED dClosed

\* negative control: the signal is looked at between two samples, the break forgets the Unlock
MLockedBreak ==
  /\ IntDesign = "lockedbreak"
  /\ mpc = "sample" /\ sig = 1
  /\ sig' = 2 /\ mpc' = "sendDone"
  /\ UNCHANGED mainUnch /\ UNCHANGED loopUnch /\ UNCHANGED dClosed

\* negative control: close(outputDone) - main does not wait for the ticker
MCloseDone ==
  /\ IntDesign = "closedone"
  /\ mpc = "sendDone"
  /\ mpc' = "final" /\ dClosed' = TRUE
  /\ UNCHANGED mainUnch /\ UNCHANGED loopUnch /\ UNCHANGED sig
TSeeClosed ==
  /\ tpc = "select" /\ dClosed
  /\ tpc' = "exit"
  /\ UNCHANGED <<readCh, mpc, mb, ticks, mutex, doneBuf, cnt, snap, snapM, fresh>> /\ UNCHANGED loopUnch
  /\ UNCHANGED <<sig, dClosed>>

Base(A) == A /\ UNCHANGED <<sig, dClosed>>
MainI == \/ Base(MRecv \/ MClosed \/ MLock \/ MSEnter \/ MSExit \/ MUnlock \/ MFinalEnter \/ MFinalExit \/ MRet)
         \/ (IntDesign # "closedone" /\ Base(DoneRendezvous))
         \/ MInterrupt \/ MLockedBreak \/ MCloseDone
TickerI == Base(TTick \/ TRender \/ TUnlock) \/ TSeeClosed
TickerMust == Base(TRender \/ TUnlock) \/ TSeeClosed      \* a tick itself is never forced
Producers == Base(Env \/ (\E r \in 1..R : Reader(r)) \/ CloseBatch \/ (\E w \in 1..W : Worker(w)) \/ CloseRead)

INext == \/ Running /\ (Producers \/ MainI \/ TickerI \/ Signal)
         \/ (~Running /\ UNCHANGED ivars)

\* everything is fair: with or without a signal the program ends
ISpec == IInit /\ [][INext]_ivars
         /\ WF_ivars(Running /\ Producers) /\ WF_ivars(Running /\ MainI) /\ WF_ivars(Running /\ TickerMust)
         /\ \A r \in 1..R : WF_ivars(Running /\ Base(Reader(r)))
         /\ \A w \in 1..W : WF_ivars(Running /\ Base(Worker(w)))
         /\ WF_ivars(Running /\ Base(Env)) /\ WF_ivars(Running /\ Base(CloseBatch)) /\ WF_ivars(Running /\ Base(CloseRead))
\* only the main loop and the ticker are fair: input may stall for ever, producers may hang
StallSpec == IInit /\ [][INext]_ivars /\ WF_ivars(Running /\ MainI) /\ WF_ivars(Running /\ TickerMust)

(* ------------------------------------------------------------------ properties *)
ITypeOK == TypeOK /\ sig \in 0..2 /\ dClosed \in BOOLEAN
IntFinalComplete == mpc = "ret" => (snap = cnt /\ snapM >= Obs!SumF(snap) /\ fresh)
NoSigSame == (sig # 2 /\ mpc \in {"finalR", "retp", "ret"}) =>
               (cnt = Total /\ tpc = "exit" /\ rClosed /\ readCh = <<>> /\ \A w \in 1..W : wk[w].pc = "done")
INoLeak == mpc = "ret" => (tpc = "exit" /\ mutex = "free")
\* one file, one reader, one worker: what was sampled is a prefix of the input's matches
AllMatches == IF NF = 1 THEN FoldLeft(LAMBDA acc, b : acc \o SelectSeq(b, LAMBDA k : k # 0), <<>>, Files[1]) ELSE <<>>
PrefixW1 == (NF = 1 /\ W = 1) =>
              \E p \in 0..Len(AllMatches) : \A k \in Keys : cnt[k] = CountIn(SubSeq(AllMatches, 1, p), k)
\* nothing is sampled that the environment has not released yet (what Ctrl-C shows is bounded by what was written)
Released(k) == FoldSet(LAMBDA b, acc : acc + CountIn(Lines(b), k), 0, {b \in BatchIds : b[2] <= rel[b[1]]})
RelBound == \A k \in Keys : cnt[k] <= Released(k) /\ snap[k] <= Released(k)
ISafe == RelBound /\ ITypeOK /\ Mutex /\ NoSendOnClosed /\ SnapLeFinal /\ MatchedGeSum /\ IntFinalComplete /\ NoSigSame
         /\ INoLeak /\ PrefixW1
Terminates2 == <>(mpc = "ret")
IntTerminates == (sig = 1) ~> (mpc = "ret")
=============================================================================

----------------------------- MODULE MiniJsonCtx -----------------------------
(* C16 - the long-lived expression context of the extractor                      *)
(* (pkg/extractor: extractor.New starts `Workers` goroutines; each owns ONE      *)
(* SliceSpaceExpressionContext for its whole life; asyncWorker takes a batch     *)
(* {Source, BatchStart, lines} from the shared channel, processLineSync stores   *)
(* the line, its match indices, the source and the line number                   *)
(* BatchStart+idx into the context, the ignore set and then the extraction       *)
(* expression evaluate views through GetKey(".") / ("#") / (".#")).              *)
(*                                                                              *)
(*   sources  every source numbers its lines 1, 2, ..: equal line numbers in     *)
(*            different sources are the normal case; (source, line) is unique    *)
(*   Take     an idle worker takes the next 1..n lines of some source as a batch *)
(*   Line     the worker stores the next line of its batch in ITS context        *)
(*            (mutator) and evaluates 1..MaxEval views on it (accessors): the     *)
(*            evaluations of the ignore set followed by the extraction           *)
(*   Eval     GetKey of a view.  `cache` (chosen from Caches in the initial      *)
(*            state, then fixed) selects how the context answers:                *)
(*              "none"      renders from the stored captures (the code)          *)
(*              "captures"  memoises per view, keyed by the captures             *)
(*              "srcline"   memoises per view, keyed by (source, line number)    *)
(*              "line"      memoises per view, keyed by the line number only     *)
(*   hist     every evaluation so far (MiniJsonHist events).  The law does not   *)
(*            depend on the order of the events nor on repetitions of an event,  *)
(*            so the model keeps them as a SET (H = the set in some order): the   *)
(*            interleavings of the workers collapse                              *)
(*                                                                              *)
(* TLC shows (lib/props/c16.py):                                                 *)
(*   Caches = {none, captures, srcline}:  HistoryLaw, RendersFromCaptures,       *)
(*     KeysSeparate and ClassAgree are invariants - memoisation is allowed as    *)
(*     long as the key determines the captures;                                  *)
(*   Caches = {line} (negative control): HistoryLaw is VIOLATED (TLC's           *)
(*     counterexample hands one worker two sources back to back), the            *)
(*     classifier names the event "stale-view" (StaleNamed) and still agrees     *)
(*     with the law (ClassAgree).                                                *)
EXTENDS MiniJsonEnc, MiniJsonHist

CONSTANTS Names,     \* <<name, group index>> of the matcher's named groups
          Lines,     \* the pool of lines; a line is given by its captures (group 0 first)
          NSrc,      \* sources 1..NSrc
          MaxLen,    \* lines per source: 1..MaxLen
          NWorkers,  \* workers 1..NWorkers
          Views,     \* the views that get evaluated: <<named, numbered>>
          MaxTotal,  \* lines of all sources together: at most MaxTotal
          MaxEval,   \* evaluations per line: 1..MaxEval
          Caches     \* the variants of the context to explore

VARIABLES left,      \* left[s]: lines of source s not yet handed out
          next,      \* next[s]: line number of the first of them
          job,       \* job[w] = [src, at, n]: the rest of worker w's batch (n = 0: idle)
          ctx,       \* ctx[w]: worker w's context [src, line, groups, has, key, vals]
          hist,
          cache      \* the variant of this behaviour
vars == <<left, next, job, ctx, hist, cache>>

Src == 1..NSrc
W   == 1..NWorkers
NoVals == [x \in {} |-> <<>>]
Ctx0 == [src |-> 0, line |-> 0, groups |-> <<>>, has |-> FALSE, key |-> <<>>, vals |-> NoVals]

RECURSIVE SumTo(_, _)
SumTo(f, n) == IF n = 0 THEN 0 ELSE f[n] + SumTo(f, n - 1)

Init ==
  /\ cache \in Caches
  /\ left \in {f \in [Src -> 1..MaxLen] : SumTo(f, NSrc) <= MaxTotal}
  /\ next = [s \in Src |-> 1]
  /\ job = [w \in W |-> [src |-> 0, at |-> 0, n |-> 0]]
  /\ ctx = [w \in W |-> Ctx0]
  /\ hist = {}

Render(c, v) == Encode(Names, c.groups, v[1], v[2])
KeyOf(c) == CASE cache = "captures" -> <<c.groups>>
              [] cache = "srcline"  -> <<c.src, c.line>>
              [] cache = "line"     -> <<c.line>>
              [] OTHER              -> <<>>

\* GetKey(view): [out, c] - the text and the context afterwards
Eval(c, v) ==
  IF cache = "none" THEN [out |-> Render(c, v), c |-> c]
  ELSE LET k  == KeyOf(c)
           m0 == IF c.has /\ c.key = k THEN c.vals ELSE NoVals
       IN IF v \in DOMAIN m0
          THEN [out |-> m0[v], c |-> [c EXCEPT !.has = TRUE, !.key = k, !.vals = m0]]
          ELSE LET o == Render(c, v) IN
               [out |-> o, c |-> [c EXCEPT !.has = TRUE, !.key = k, !.vals = (v :> o) @@ m0]]

RECURSIVE EvalSeq(_, _, _, _)
\* the views vs[i..] evaluated one after the other: [c, evs]
EvalSeq(c, vs, i, evs) ==
  IF i > Len(vs) THEN [c |-> c, evs |-> evs]
  ELSE LET r == Eval(c, vs[i]) IN
       EvalSeq(r.c, vs, i + 1,
               Append(evs, [groups |-> c.groups, named |-> vs[i][1], numbered |-> vs[i][2], out |-> r.out, crash |-> FALSE]))

Take(w, s, n) ==
  /\ job[w].n = 0 /\ n >= 1 /\ left[s] >= n
  /\ job' = [job EXCEPT ![w] = [src |-> s, at |-> next[s], n |-> n]]
  /\ left' = [left EXCEPT ![s] = @ - n]
  /\ next' = [next EXCEPT ![s] = @ + n]
  /\ UNCHANGED <<ctx, hist, cache>>

ViewSeqs == UNION {[1..k -> Views] : k \in 1..MaxEval}

Line(w, g, vs) ==
  /\ job[w].n > 0
  /\ LET c1 == [ctx[w] EXCEPT !.src = job[w].src, !.line = job[w].at, !.groups = g]     \* processLineSync
         r  == EvalSeq(c1, vs, 1, <<>>)
     IN /\ ctx' = [ctx EXCEPT ![w] = r.c]
        /\ hist' = hist \cup ToSet(r.evs)
  /\ job' = [job EXCEPT ![w] = [@ EXCEPT !.at = @ + 1, !.n = @ - 1]]
  /\ UNCHANGED <<left, next, cache>>

Next == \E w \in W :
          \/ \E s \in Src, n \in 1..MaxLen : Take(w, s, n)
          \/ \E g \in Lines, vs \in ViewSeqs : Line(w, g, vs)

Spec == Init /\ [][Next]_vars

-----------------------------------------------------------------------------
H == SetToSeq(hist)
\* hist only grows, HistoryOK is closed under taking sub-histories and every behaviour can be continued until every
\* line has been processed: a law of the whole history needs to be evaluated in the final states only
Done == (\A s \in Src : left[s] = 0) /\ (\A w \in W : job[w].n = 0)
\* the property over histories
HistoryLaw == Done => HistoryOK(Names, H)
\* the code's way of meeting it: every text is the rendering of the captures the event belongs to
RendersFromCaptures ==
  Done => \A e \in hist : e.out = Encode(Names, e.groups, e.named, e.numbered)
\* the classifier used on recorded histories decides the same law
ClassAgree == Done => (HistoryOK(Names, H) <=> AllOk(HistClasses(Names, H)))
\* ... and calls a text taken from another match by its name
StaleNamed == Done => LET cl == HistClasses(Names, H) IN
                      \A i \in 1..Len(cl) : cl[i] # "ok" => cl[i] = "stale-view"
\* the text as an aggregation key: the lines of the pool are pairwise Incompatible, so distinct matches have
\* distinct texts (a table keyed by the view has one row per distinct match)
PoolSeparate == \A a, b \in Lines : a # b => Incompatible(Names, a, b)
KeysSeparate == Done => \A e1, e2 \in hist :
                  (e1.named /\ e2.named /\ e1.numbered = e2.numbered /\ e1.out = e2.out) => e1.groups = e2.groups
\* the environment: no (source, line number) is handed out twice
LinesUnique == \A w1, w2 \in W : (w1 # w2 /\ job[w1].n > 0 /\ job[w2].n > 0 /\ job[w1].src = job[w2].src) => job[w1].at # job[w2].at

-----------------------------------------------------------------------------
\* values for model checking: two groups, both named (a, b); lines that differ in one capture, in
\* both, in the spelling of a number, with a character that needs escaping
BAR == 124
GroupsOf(vals) == <<JoinSeq(vals, <<BAR>>)>> \o vals
MCNames == <<<<<<97>>, 1>>, <<<<98>>, 2>>>>
MCLinePool == <<GroupsOf(<<<<97>>, <<55>>>>), GroupsOf(<<<<98>>, <<55>>>>), GroupsOf(<<<<34>>, <<48, 48, 55>>>>), GroupsOf(<<<<99>>, <<>>>>)>>
MCLines2 == {MCLinePool[i] : i \in 1..2}
MCLines3 == {MCLinePool[i] : i \in 1..3}
MCLines4 == {MCLinePool[i] : i \in 1..4}
MCViews2 == {<<TRUE, FALSE>>, <<TRUE, TRUE>>}
MCViews3 == {<<TRUE, FALSE>>, <<FALSE, TRUE>>, <<TRUE, TRUE>>}
=============================================================================

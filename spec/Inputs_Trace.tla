---------------------------- MODULE Inputs_Trace ----------------------------
(* B2 (and the second half of B1): validates recorded runs of the real rare     *)
(* binary and of the batcher library against Inputs.  One record = one run:     *)
(* the tree, stdin, arguments and flags the harness set up, and what was        *)
(* observed (output rows, exit status, final message, reported read errors,     *)
(* summary counters; for the library: every delivered line and ReadErrors();    *)
(* for runs under a lowered descriptor limit also the largest number of         *)
(* mentioned inputs that were open at the same time).                           *)
(* TLC recomputes Expand / ReadOutcome / ExitCode from the logged scenario; a   *)
(* record the specification cannot explain is collected in `bad` with the list  *)
(* of disagreeing observables.  Inputs that may deliver a prefix (truncated     *)
(* gzip) are accepted iff SOME prefix explains all observables at once.         *)
EXTENDS Inputs, Json, TLC

Trace == ndJsonDeserialize("trace.ndjson")

VARIABLES l, bad, skipt
tvars == <<l, bad, skipt>>

ScOf(r) == [tree |-> r.tree, stdin |-> r.stdin, args |-> r.args, rec |-> r.rec, gz |-> r.gz,
            readers |-> r.readers, cmd |-> r.cmd, nofile |-> r.nofile]

\* the set of truncated files that are mentioned: with at most one, a single cut explains the run
PrefixPaths(sc) == LET ms == Mentions(sc) IN {ms[i].p : i \in PrefixIdx(sc, ms)}
Checkable(sc) == InDomain(sc) /\ Cardinality(PrefixPaths(sc)) <= 1

Cuts(sc) ==
  LET ms == Mentions(sc) pi == PrefixIdx(sc, ms) IN
  IF pi = {} THEN {0} ELSE 0..MaxOf({Len(ReadOutcome(sc, ms[i]).full) : i \in pi})

\* disagreements between outcome o and the CLI observation
\* ns = MayTotal(sc): non-regular entries a -R walk passes; their rows are not judged, each may add one read error
CliDiff(sc, o, obs) ==
  LET ns == MayTotal(sc) free == FreeNames(sc) IN
  (IF o.tally = Judged(Tally(obs.rows), free) THEN {} ELSE {"rows"}) \cup
  (IF ns = 0 THEN (IF o.exit = obs.exit THEN {} ELSE {"exit"}) \cup (IF o.msg = obs.msg THEN {} ELSE {"msg"})
   ELSE IF <<obs.exit, obs.msg>> \in AllowedEnd(o, ns) THEN {} ELSE {"exit"}) \cup
  (IF obs.nlog <= o.nerr + ns /\ o.nerr <= obs.nlog + obs.nunk THEN {} ELSE {"nlog"}) \cup
  (IF sc.cmd = "filter" /\ (IF ns = 0 THEN o.matched # obs.matched \/ o.read # obs.read
                                     ELSE o.matched > obs.matched \/ o.read > obs.read) THEN {"summary"} ELSE {}) \cup
  \* peak = the largest number of mentioned inputs seen open at the same time (-1: not sampled)
  (IF obs.peak > MaxOpen(sc) THEN {"fds"} ELSE {})
LibDiff(sc, o, lib) ==
  (IF o.tally = Judged(Tally(lib.rows), FreeNames(sc)) THEN {} ELSE {"lib-rows"}) \cup
  (IF o.nerr <= lib.nerr /\ lib.nerr <= o.nerr + MayTotal(sc) THEN {} ELSE {"lib-nerr"}) \cup
  (IF lib.peak > MaxOpen(sc) THEN {"lib-fds"} ELSE {})

\* the smallest set of disagreements over the allowed cuts ({} = explained)
Best(S) == IF {} \in S THEN {} ELSE CHOOSE d \in S : \A e \in S : Cardinality(d) <= Cardinality(e)

Why(r) ==
  LET sc == ScOf(r) IN
  (IF r.obs.hang THEN {"hang"}
   ELSE IF r.obs.crash THEN {"crash"}
   ELSE Best({CliDiff(sc, OutcomeCut(sc, c), r.obs) : c \in Cuts(sc)}))
  \cup
  (IF ~r.lib.ran THEN {}
   ELSE IF r.lib.hang THEN {"lib-hang"}
   ELSE LET ls == [sc EXCEPT !.cmd = "lib"] IN Best({LibDiff(ls, OutcomeCut(ls, c), r.lib) : c \in Cuts(ls)}))

TStep ==
  /\ l <= Len(Trace)
  /\ l' = l + 1
  /\ IF Checkable(ScOf(Trace[l]))
     THEN LET w == Why(Trace[l]) IN
          /\ bad' = IF w = {} THEN bad ELSE Append(bad, [t |-> Trace[l].t, l |-> l, why |-> SetToSeq(w)])
          /\ skipt' = skipt
     ELSE bad' = bad /\ skipt' = Append(skipt, Trace[l].t)

TInit == l = 1 /\ bad = <<>> /\ skipt = <<>>
TSpec == TInit /\ [][TStep]_tvars

Final == (l = Len(Trace) + 1) => JsonSerialize("bad.json", [bad |-> bad, consumed |-> l - 1, skipped |-> Len(skipt), skippedt |-> skipt, done |-> TRUE])
=============================================================================

---------------------------- MODULE FollowNotify ----------------------------
(* C15 - implementation-shaped model of pkg/followreader/notify.go.             *)
(*                                                                              *)
(* Processes:                                                                   *)
(*   environment  appends / removes / re-creates the file; every operation      *)
(*                queues one kernel (inotify) event for the watched directory   *)
(*   fsnotify     its readEvents goroutine takes the next kernel event, DROPS   *)
(*                a write/create event when the path does not exist at that     *)
(*                moment (fsnotify's ignoreLinux), and offers it on the         *)
(*                unbuffered Events channel (`ech`)                              *)
(*   watcher      rare's goroutine (startWatcher): event -> non-blocking send   *)
(*                on the 1-buffered channels eventWrite / eventDelete (evW/evD) *)
(*   reader       NotifyFollowReader.Read, one action per branch: read until    *)
(*                empty, then select over the two channels (both ready: either) *)
(*                                                                              *)
(* DeleteBranch selects the code of `case <-s.eventDelete` in re-open mode:     *)
(*   "close"     the original code: closeFile() only                            *)
(*   "reopen"    closeFile() and try os.Open at once                            *)
(*   "samefile"  the repaired code: if the open file is still the file at the   *)
(*               path (os.SameFile) the signal is stale and ignored; otherwise  *)
(*               closeFile() and try os.Open at once                            *)
(*                                                                              *)
(* NAMES.  The watch is on a DIRECTORY; every kernel event carries the name of   *)
(* the entry it is about, and the watcher goroutine keeps only the events whose *)
(* name is the one it follows.  Event names are name CLASSES relative to that    *)
(* name: "self" (equal), "suf" (ends with it: webapp.log next to app.log),       *)
(* "pre" (begins with it: app.log.1, app.log.bak), "oth" (unrelated), "tgt" (the *)
(* own name of the file a symbolic link leads to).  NameFilter is the test:      *)
(*   "base"    base names are equal (the code)                                   *)
(*   "suffix"  the event's name ends with the followed name     (control)        *)
(*   "prefix"  the event's name begins with the followed name   (control)        *)
(*   "any"     no test at all                                    (control)        *)
(* The environment also works on the SIBLINGS (Other1: create, append, rename    *)
(* to another sibling name, remove); law OthersInvisible: no event of another    *)
(* path ever becomes a signal of the reader, so sibling activity refines         *)
(* Follow!EnvOther (nothing changes) - with "suffix" the removal of a sibling    *)
(* ends a plain follow although the followed file stays in place.                *)
(*                                                                              *)
(* PATH KIND.  PathKind = "file" | "link-same" | "link-other": the followed path *)
(* is the file's own name, or a symbolic link to a file in the same / another    *)
(* directory.  The kernel reports changes of a file under the file's OWN name in *)
(* the file's OWN directory.  Resolve = TRUE: NewNotify follows what the link    *)
(* leads to (watched directory and name are the file's: the repaired code);      *)
(* Resolve = FALSE: it watches the link's directory for the link's name - the    *)
(* file's events arrive under another name ("tgt", same directory) or not at all *)
(* (other directory): every append after the first read-until-empty is lost      *)
(* (control, the defect found on the unchanged tree).                            *)
EXTENDS Bytes, TLC

CONSTANTS Reopen, TailMode,     \* BOOLEAN
          InitLen,              \* length of the file when following starts
          AppLens,              \* set of lengths an Append may have
          MaxAppends, MaxRemoves, MaxCreates,
          BufSize,              \* len(buf) of the Read calls
          DeleteBranch,
          NameFilter,           \* "base" | "suffix" | "prefix" | "any"
          PathKind, Resolve,    \* "file" | "link-same" | "link-other"; BOOLEAN
          Sibs, MaxOthers       \* sibling name classes (subset of {"suf", "pre", "oth"}), budget of sibling operations

ASSUME NameFilter \in {"base", "suffix", "prefix", "any"} /\ PathKind \in {"file", "link-same", "link-other"}
ASSUME Sibs \subseteq {"suf", "pre", "oth"}

VARIABLES mode, files, cur, start, delivered, ended, fresh, dom,   \* Follow.tla
          f, pos, pc, closed, evW, evD,                            \* reader
          kq, ech,                                                 \* kernel queue, Events channel
          nA, nR, nC, nb,                                          \* budgets, next byte value
          sibs, nO,                                                \* siblings that exist now, budget
          leak                                                     \* ghost: an event of another path was taken for the followed one

A == INSTANCE Follow

vars  == <<mode, files, cur, start, delivered, ended, fresh, dom, f, pos, pc, closed, evW, evD, kq, ech, nA, nR, nC, nb,
           sibs, nO, leak>>

NoEv == [op |-> "none", name |-> "none"]
\* the event the kernel queues for an operation on the followed FILE (none when the watched directory is not the file's)
FileEvName    == IF PathKind = "file" \/ Resolve THEN "self" ELSE "tgt"
FileEvVisible == PathKind # "link-other" \/ Resolve
QFile(op) == IF FileEvVisible THEN Append(kq, [op |-> op, name |-> FileEvName]) ELSE kq
\* the watcher's test "is this event about the file I follow?"
Match(n) == CASE NameFilter = "base"   -> n = "self"
              [] NameFilter = "suffix" -> n \in {"self", "suf"}
              [] NameFilter = "prefix" -> n \in {"self", "pre"}
              [] NameFilter = "any"    -> TRUE
\* does the entry an event names exist now (fsnotify drops write/create events of entries that are gone)
Exists(n) == IF n \in {"self", "tgt"} THEN cur # 0 ELSE n \in sibs

\* contents: the initial file holds 65, 66, ...; appended bytes are 97, 98, ... in order of writing
Run(from, n) == [i \in 1..n |-> from + i - 1]

Init ==
  /\ A!AInit([poll |-> FALSE, reopen |-> Reopen, tail |-> TailMode], Run(65, InitLen))
  /\ f = 1 /\ pos = start            \* NewNotify opened the file; Drain() seeked to the end with tail
  /\ pc = "read" /\ closed = FALSE /\ evW = FALSE /\ evD = FALSE
  /\ kq = <<>>
  /\ nA = 0 /\ nR = 0 /\ nC = 0 /\ nb = 97
  /\ sibs = Sibs /\ nO = 0 /\ leak = FALSE      \* the siblings are there when following starts
  /\ ech = NoEv

------------------------------------------------------------------------------
\* environment
Append1 ==
  /\ nA < MaxAppends
  /\ \E n \in AppLens :
       /\ A!EnvAppend(Run(nb, n))
       /\ nb' = nb + n
  /\ nA' = nA + 1
  /\ kq' = QFile("write")
  /\ UNCHANGED <<f, pos, pc, closed, evW, evD, ech, nR, nC, sibs, nO, leak>>

Remove1 ==
  /\ nR < MaxRemoves
  /\ A!Drained                      \* the property's precondition, also outside dom
  /\ A!EnvRemove
  /\ nR' = nR + 1
  /\ kq' = QFile("remove")
  /\ UNCHANGED <<f, pos, pc, closed, evW, evD, ech, nA, nC, nb, sibs, nO, leak>>

Create1 ==
  /\ nC < MaxCreates
  /\ A!EnvCreate
  /\ nC' = nC + 1
  /\ kq' = QFile("create")
  /\ UNCHANGED <<f, pos, pc, closed, evW, evD, ech, nA, nR, nb, sibs, nO, leak>>

\* an operation on a sibling: the kernel reports it to the watch of the directory under the sibling's name
Other1 ==
  /\ nO < MaxOthers
  /\ A!EnvOther
  /\ \E s \in Sibs :
       \/ /\ s \in sibs /\ kq' = Append(kq, [op |-> "write", name |-> s]) /\ UNCHANGED sibs          \* appended to
       \/ /\ s \in sibs /\ kq' = Append(kq, [op |-> "remove", name |-> s]) /\ sibs' = sibs \ {s}     \* removed
       \/ /\ s \notin sibs /\ kq' = Append(kq, [op |-> "create", name |-> s]) /\ sibs' = sibs \cup {s}
       \/ \E t \in Sibs \ sibs :                                                                      \* renamed to a free sibling name
            /\ s \in sibs /\ sibs' = (sibs \ {s}) \cup {t}
            /\ kq' = kq \o <<[op |-> "rename", name |-> s], [op |-> "create", name |-> t]>>
  /\ nO' = nO + 1
  /\ UNCHANGED <<f, pos, pc, closed, evW, evD, ech, nA, nR, nC, nb, leak>>

Env == Append1 \/ Remove1 \/ Create1 \/ Other1

------------------------------------------------------------------------------
\* fsnotify readEvents goroutine
KDeq ==
  /\ kq # <<>> /\ ech = NoEv
  /\ kq' = Tail(kq)
  /\ ech' = IF Head(kq).op \in {"write", "create"} /\ ~Exists(Head(kq).name) THEN NoEv ELSE Head(kq)
  /\ UNCHANGED <<mode, files, cur, start, delivered, ended, fresh, dom, f, pos, pc, closed, evW, evD, nA, nR, nC, nb, sibs, nO, leak>>

\* rare's watcher goroutine: the name test, then writeSignalNonBlock (a rename is no case of the switch)
WSig ==
  /\ ech # NoEv
  /\ ech' = NoEv
  /\ IF ~Match(ech.name) \/ ech.op = "rename" THEN UNCHANGED <<evW, evD, leak>>
     ELSE /\ leak' = (leak \/ ech.name \notin {"self", "tgt"})
          /\ IF ech.op = "remove" THEN evD' = TRUE /\ UNCHANGED evW
                                  ELSE evW' = TRUE /\ UNCHANGED evD
  /\ UNCHANGED <<mode, files, cur, start, delivered, ended, fresh, dom, f, pos, pc, closed, kq, nA, nR, nC, nb, sibs, nO>>

Watcher == KDeq \/ WSig

------------------------------------------------------------------------------
\* reader
Avail == IF f = 0 THEN 0 ELSE IF Len(files[f]) > pos THEN Len(files[f]) - pos ELSE 0

\* top of the for loop: s.f.Read(buf); n > 0 returns (and Read is called again)
RRead ==
  /\ pc = "read"
  /\ LET n == MinOf({Avail, BufSize}) IN
     IF n > 0 THEN
       /\ A!DeliverEffect(SubSeq(files[f], pos + 1, pos + n))
       /\ pos' = pos + n
       /\ UNCHANGED pc
     ELSE
       /\ pc' = "select"
       /\ UNCHANGED <<delivered, fresh, pos>>
  /\ UNCHANGED <<mode, files, cur, start, ended, dom, f, closed, evW, evD, kq, ech, nA, nR, nC, nb, sibs, nO, leak>>

\* os.Open(s.filename): the file at the path now, from offset 0; failure leaves s.f nil
OpenNow == f' = cur /\ pos' = 0

\* case <-s.eventWrite
RSelW ==
  /\ pc = "select" /\ evW
  /\ evW' = FALSE
  /\ IF f = 0 /\ Reopen THEN OpenNow ELSE UNCHANGED <<f, pos>>
  /\ pc' = "read"
  /\ UNCHANGED <<mode, files, cur, start, delivered, ended, fresh, dom, closed, evD, kq, ech, nA, nR, nC, nb, sibs, nO, leak>>

\* case <-s.eventDelete
RSelD ==
  /\ pc = "select" /\ evD
  /\ evD' = FALSE
  /\ IF Reopen THEN
       /\ CASE DeleteBranch = "close"    -> f' = 0 /\ pos' = 0 /\ pc' = "read"
            [] DeleteBranch = "reopen"   -> OpenNow /\ pc' = "read"
            [] DeleteBranch = "samefile" ->
                 \* os.Stat(path) and SameFile(f) now; the close + open is a later step
                 IF f # 0 /\ f = cur THEN UNCHANGED <<f, pos>> /\ pc' = "read"
                 ELSE f' = 0 /\ pos' = 0 /\ pc' = "reopen"
       /\ UNCHANGED <<closed, ended>>
     ELSE
       /\ closed' = TRUE /\ ended' = TRUE /\ f' = 0 /\ pos' = 0 /\ pc' = "done"
  /\ UNCHANGED <<mode, files, cur, start, delivered, fresh, dom, evW, kq, ech, nA, nR, nC, nb, sibs, nO, leak>>

\* second half of the repaired delete branch: os.Open after closeFile()
RReopen ==
  /\ pc = "reopen"
  /\ OpenNow
  /\ pc' = "read"
  /\ UNCHANGED <<mode, files, cur, start, delivered, ended, fresh, dom, closed, evW, evD, kq, ech, nA, nR, nC, nb, sibs, nO, leak>>

Reader == RRead \/ RSelW \/ RSelD \/ RReopen

Next == Env \/ Watcher \/ Reader
\* the environment may stop at any moment; reader, fsnotify and watcher keep running
Spec == Init /\ [][Next]_vars /\ WF_vars(Reader) /\ WF_vars(Watcher)

------------------------------------------------------------------------------
TypeOK ==
  /\ f \in 0..Len(files) /\ cur \in 0..Len(files) /\ pos >= 0
  /\ pc \in {"read", "select", "reopen", "done"}
  /\ ech.op \in {"none", "write", "create", "remove", "rename"}
  /\ sibs \subseteq Sibs
PrefixOK   == A!PrefixOK
NoEarlyEnd == A!NoEarlyEnd
NoDomLoss  == dom                    \* inotify mode has no side condition
Refines    == A!ASafe
Live       == A!Live
\* a blocked reader with nothing pending is only acceptable when nothing is owed
Blocked    == pc = "select" /\ ~evW /\ ~evD /\ kq = <<>> /\ ech = NoEv
NoLostWakeup == Blocked => A!Complete
\* events on other paths change nothing: no signal of the reader ever stems from an event of another path
OthersInvisible == ~leak
=============================================================================

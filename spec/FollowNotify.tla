---------------------------- MODULE FollowNotify ----------------------------
(* C15 - implementation-shaped model of pkg/followreader/notify.go.             *)
(*                                                                              *)
(* Processes:                                                                   *)
(*   environment  appends / removes / re-creates the file; every operation      *)
(*                queues one kernel (inotify) event for the watched directory   *)
(*   fsnotify     its readEvents goroutine takes the next kernel event, DROPS   *)
(*                a write/create event when the path does not exist at that     *)
(*                moment (fsnotify's ignoreLinux), and offers it on the         *)
(*                unbuffered Events channel (`ech`)                              *)
(*   watcher      rare's goroutine (startWatcher): event -> non-blocking send   *)
(*                on the 1-buffered channels eventWrite / eventDelete (evW/evD) *)
(*   reader       NotifyFollowReader.Read, one action per branch: read until    *)
(*                empty, then select over the two channels (both ready: either) *)
(*                                                                              *)
(* DeleteBranch selects the code of `case <-s.eventDelete` in re-open mode:     *)
(*   "close"     the original code: closeFile() only                            *)
(*   "reopen"    closeFile() and try os.Open at once                            *)
(*   "samefile"  the repaired code: if the open file is still the file at the   *)
(*               path (os.SameFile) the signal is stale and ignored; otherwise  *)
(*               closeFile() and try os.Open at once                            *)
EXTENDS Bytes, TLC

CONSTANTS Reopen, TailMode,     \* BOOLEAN
          InitLen,              \* length of the file when following starts
          AppLens,              \* set of lengths an Append may have
          MaxAppends, MaxRemoves, MaxCreates,
          BufSize,              \* len(buf) of the Read calls
          DeleteBranch

VARIABLES mode, files, cur, start, delivered, ended, fresh, dom,   \* Follow.tla
          f, pos, pc, closed, evW, evD,                            \* reader
          kq, ech,                                                 \* kernel queue, Events channel
          nA, nR, nC, nb                                           \* budgets, next byte value

A == INSTANCE Follow

envv  == <<files, cur, kq, nA, nR, nC, nb, dom>>
vars  == <<mode, files, cur, start, delivered, ended, fresh, dom, f, pos, pc, closed, evW, evD, kq, ech, nA, nR, nC, nb>>

\* contents: the initial file holds 65, 66, ...; appended bytes are 97, 98, ... in order of writing
Run(from, n) == [i \in 1..n |-> from + i - 1]

Init ==
  /\ A!AInit([poll |-> FALSE, reopen |-> Reopen, tail |-> TailMode], Run(65, InitLen))
  /\ f = 1 /\ pos = start            \* NewNotify opened the file; Drain() seeked to the end with tail
  /\ pc = "read" /\ closed = FALSE /\ evW = FALSE /\ evD = FALSE
  /\ kq = <<>> /\ ech = "none"
  /\ nA = 0 /\ nR = 0 /\ nC = 0 /\ nb = 97

------------------------------------------------------------------------------
\* environment
Append1 ==
  /\ nA < MaxAppends
  /\ \E n \in AppLens :
       /\ A!EnvAppend(Run(nb, n))
       /\ nb' = nb + n
  /\ nA' = nA + 1
  /\ kq' = Append(kq, "write")
  /\ UNCHANGED <<f, pos, pc, closed, evW, evD, ech, nR, nC>>

Remove1 ==
  /\ nR < MaxRemoves
  /\ A!Drained                      \* the property's precondition, also outside dom
  /\ A!EnvRemove
  /\ nR' = nR + 1
  /\ kq' = Append(kq, "remove")
  /\ UNCHANGED <<f, pos, pc, closed, evW, evD, ech, nA, nC, nb>>

Create1 ==
  /\ nC < MaxCreates
  /\ A!EnvCreate
  /\ nC' = nC + 1
  /\ kq' = Append(kq, "create")
  /\ UNCHANGED <<f, pos, pc, closed, evW, evD, ech, nA, nR, nb>>

Env == Append1 \/ Remove1 \/ Create1

------------------------------------------------------------------------------
\* fsnotify readEvents goroutine
KDeq ==
  /\ kq # <<>> /\ ech = "none"
  /\ kq' = Tail(kq)
  /\ ech' = IF Head(kq) \in {"write", "create"} /\ cur = 0 THEN "none" ELSE Head(kq)
  /\ UNCHANGED <<mode, files, cur, start, delivered, ended, fresh, dom, f, pos, pc, closed, evW, evD, nA, nR, nC, nb>>

\* rare's watcher goroutine: writeSignalNonBlock
WSig ==
  /\ ech # "none"
  /\ ech' = "none"
  /\ IF ech = "remove" THEN evD' = TRUE /\ UNCHANGED evW
                       ELSE evW' = TRUE /\ UNCHANGED evD
  /\ UNCHANGED <<mode, files, cur, start, delivered, ended, fresh, dom, f, pos, pc, closed, kq, nA, nR, nC, nb>>

Watcher == KDeq \/ WSig

------------------------------------------------------------------------------
\* reader
Avail == IF f = 0 THEN 0 ELSE IF Len(files[f]) > pos THEN Len(files[f]) - pos ELSE 0

\* top of the for loop: s.f.Read(buf); n > 0 returns (and Read is called again)
RRead ==
  /\ pc = "read"
  /\ LET n == MinOf({Avail, BufSize}) IN
     IF n > 0 THEN
       /\ A!DeliverEffect(SubSeq(files[f], pos + 1, pos + n))
       /\ pos' = pos + n
       /\ UNCHANGED pc
     ELSE
       /\ pc' = "select"
       /\ UNCHANGED <<delivered, fresh, pos>>
  /\ UNCHANGED <<mode, files, cur, start, ended, dom, f, closed, evW, evD, kq, ech, nA, nR, nC, nb>>

\* os.Open(s.filename): the file at the path now, from offset 0; failure leaves s.f nil
OpenNow == f' = cur /\ pos' = 0

\* case <-s.eventWrite
RSelW ==
  /\ pc = "select" /\ evW
  /\ evW' = FALSE
  /\ IF f = 0 /\ Reopen THEN OpenNow ELSE UNCHANGED <<f, pos>>
  /\ pc' = "read"
  /\ UNCHANGED <<mode, files, cur, start, delivered, ended, fresh, dom, closed, evD, kq, ech, nA, nR, nC, nb>>

\* case <-s.eventDelete
RSelD ==
  /\ pc = "select" /\ evD
  /\ evD' = FALSE
  /\ IF Reopen THEN
       /\ CASE DeleteBranch = "close"    -> f' = 0 /\ pos' = 0 /\ pc' = "read"
            [] DeleteBranch = "reopen"   -> OpenNow /\ pc' = "read"
            [] DeleteBranch = "samefile" ->
                 \* os.Stat(path) and SameFile(f) now; the close + open is a later step
                 IF f # 0 /\ f = cur THEN UNCHANGED <<f, pos>> /\ pc' = "read"
                 ELSE f' = 0 /\ pos' = 0 /\ pc' = "reopen"
       /\ UNCHANGED <<closed, ended>>
     ELSE
       /\ closed' = TRUE /\ ended' = TRUE /\ f' = 0 /\ pos' = 0 /\ pc' = "done"
  /\ UNCHANGED <<mode, files, cur, start, delivered, fresh, dom, evW, kq, ech, nA, nR, nC, nb>>

\* second half of the repaired delete branch: os.Open after closeFile()
RReopen ==
  /\ pc = "reopen"
  /\ OpenNow
  /\ pc' = "read"
  /\ UNCHANGED <<mode, files, cur, start, delivered, ended, fresh, dom, closed, evW, evD, kq, ech, nA, nR, nC, nb>>

Reader == RRead \/ RSelW \/ RSelD \/ RReopen

Next == Env \/ Watcher \/ Reader
\* the environment may stop at any moment; reader, fsnotify and watcher keep running
Spec == Init /\ [][Next]_vars /\ WF_vars(Reader) /\ WF_vars(Watcher)

------------------------------------------------------------------------------
TypeOK ==
  /\ f \in 0..Len(files) /\ cur \in 0..Len(files) /\ pos >= 0
  /\ pc \in {"read", "select", "reopen", "done"}
  /\ ech \in {"none", "write", "create", "remove"}
PrefixOK   == A!PrefixOK
NoEarlyEnd == A!NoEarlyEnd
NoDomLoss  == dom                    \* inotify mode has no side condition
Refines    == A!ASafe
Live       == A!Live
\* a blocked reader with nothing pending is only acceptable when nothing is owed
Blocked    == pc = "select" /\ ~evW /\ ~evD /\ kq = <<>> /\ ech = "none"
NoLostWakeup == Blocked => A!Complete
=============================================================================

------------------------------- MODULE Dissect -------------------------------
(* C12 - abstract specification of rare's dissect matcher                       *)
(* (docs/usage/dissect.md, pkg/matchers/dissect).                               *)
(*                                                                              *)
(* A pattern is a byte string  literal (%{name} literal)* .  Matching a line:   *)
(* locate the FIRST occurrence of the leading literal; then, token by token,    *)
(* the token's text runs up to the FIRST following occurrence of its trailing   *)
(* literal (to the end of the line if it has none); %{} and %{?name} consume    *)
(* without capturing; {0} spans from the leading literal through the last       *)
(* delimiter.  The result is the index vector                                   *)
(*   <<m0, m1, c1s, c1e, c2s, c2e, ...>>   (0-based, half open), or Nil.        *)
(*                                                                              *)
(* All text is a sequence of byte values.  Positions inside this module are     *)
(* 1-based; results are converted to Go's 0-based offsets at the very end.      *)
EXTENDS Bytes

PCT == 37     \* %
LBR == 123    \* {
RBR == 125    \* }
QM  == 63     \* ?

Nil == <<>>   \* "no match" (a real result has at least two entries)

-----------------------------------------------------------------------------
(* Pattern syntax.                                                              *)
(* Structured pattern: [prefix, tokens] with tokens = <<[name, until, skip]>>.  *)

Tok(name, until, skip) == [name |-> name, until |-> until, skip |-> skip]

\* concrete syntax of one token followed by its trailing literal
TokText(t) ==
  <<PCT, LBR>> \o (IF t.skip /\ t.name # <<>> THEN <<QM>> ELSE <<>>) \o t.name \o <<RBR>> \o t.until

Unparse(p) == p.prefix \o Flatten([i \in 1..Len(p.tokens) |-> TokText(p.tokens[i])])

\* Tokenisation of a pattern text that never gives up: every %{...} becomes a token;
\*   unclosed = the text ends inside a %{ without a closing brace
\*   bare     = a % that does not open a token was met (tokenisation stops there)
RECURSIVE SplitToks(_, _)
SplitToks(rest, acc) ==          \* rest is empty or begins with %
  IF rest = <<>> THEN [tokens |-> acc, unclosed |-> FALSE, bare |-> FALSE]
  ELSE IF Len(rest) < 2 \/ rest[2] # LBR THEN [tokens |-> acc, unclosed |-> FALSE, bare |-> TRUE]
  ELSE
    LET body == DropFirst(rest, 2)
        stop == IndexByte(body, RBR)
    IN IF stop = 0 THEN [tokens |-> acc, unclosed |-> TRUE, bare |-> FALSE]
       ELSE
         LET raw   == TakeFirst(body, stop - 1)
             after == DropFirst(body, stop)
             pct   == IndexByte(after, PCT)
             until == IF pct = 0 THEN after ELSE TakeFirst(after, pct - 1)
             next  == IF pct = 0 THEN <<>> ELSE DropFirst(after, pct - 1)
             named == raw # <<>> /\ raw[1] = QM
             t     == Tok(IF named THEN Tail(raw) ELSE raw, until, raw = <<>> \/ named)
         IN SplitToks(next, Append(acc, t))

Structure(text) ==
  LET i == IndexByte(text, PCT) IN
  IF i = 0 THEN [prefix |-> text, tokens |-> <<>>, unclosed |-> FALSE, bare |-> FALSE]
  ELSE LET r == SplitToks(DropFirst(text, i - 1), <<>>) IN
       [prefix |-> TakeFirst(text, i - 1), tokens |-> r.tokens, unclosed |-> r.unclosed, bare |-> r.bare]

HasByte(s, b) == \E i \in 1..Len(s) : s[i] = b

\* The domain of the specification: the documentation does not say what a % that
\* does not open a token means, nor a % inside a token name.
InDomain(text) ==
  LET s == Structure(text) IN
  /\ ~s.bare
  /\ \A i \in 1..Len(s.tokens) : ~HasByte(s.tokens[i].name, PCT)

\* Error classes that apply to a tokenised pattern (the documentation's three errors):
\*   unclosed   - a %{ without }
\*   sequential - a token directly followed by another token (no literal to search for)
\*   conflict   - two capturing tokens with the same name
Errs(s) ==
  LET n == Len(s.tokens) IN
     (IF s.unclosed THEN {"unclosed"} ELSE {})
  \cup (IF \E i \in 1..n : s.tokens[i].until = <<>> /\ (i < n \/ s.unclosed) THEN {"sequential"} ELSE {})
  \cup (IF \E i, j \in 1..n : i < j /\ ~s.tokens[i].skip /\ ~s.tokens[j].skip
                              /\ s.tokens[i].name = s.tokens[j].name THEN {"conflict"} ELSE {})

\* What compiling `text` must yield: the structured pattern if no error class applies,
\* otherwise an error of one of the applicable classes.
Compiles(text)  == Errs(Structure(text)) = {}
Compiled(text)  == LET s == Structure(text) IN [prefix |-> s.prefix, tokens |-> s.tokens]

CaptureIdx(p) == SelectSeq([i \in 1..Len(p.tokens) |-> i], LAMBDA i : ~p.tokens[i].skip)
Groups(p)     == Len(CaptureIdx(p))
\* name table: the k-th capturing token is group k (group 0 is the whole match)
NameTable(p)  == LET c == CaptureIdx(p) IN [k \in 1..Len(c) |-> <<p.tokens[c[k]].name, k>>]

-----------------------------------------------------------------------------
(* Matching.                                                                    *)

\* first occurrence of lit in line at or after position from (0 = none); the same function as
\* Bytes!IndexFrom (law FirstIsIndexFrom), written as a scan because TLC evaluates it much faster
RECURSIVE First(_, _, _)
First(line, lit, from) ==
  IF from + Len(lit) - 1 > Len(line) THEN 0
  ELSE IF OccursAt(line, lit, from) THEN from
  ELSE First(line, lit, from + 1)
FirstIsIndexFrom(line, lit) == \A from \in 1..(Len(line) + 2) : First(line, lit, from) = IndexFrom(line, lit, from)

\* Walk the tokens from position pos; spans[i] = <<start, end>> (1-based, half open) of token i
RECURSIVE Walk(_, _, _, _)
Walk(toks, line, pos, spans) ==
  IF toks = <<>> THEN [ok |-> TRUE, spans |-> spans, pos |-> pos]
  ELSE
    LET t == Head(toks)
        e == IF t.until = <<>> THEN Len(line) + 1 ELSE First(line, t.until, pos)
    IN IF e = 0 THEN [ok |-> FALSE, spans |-> spans, pos |-> pos]
       ELSE Walk(Tail(toks), line, e + Len(t.until), Append(spans, <<pos, e>>))

\* [ok, start, spans, pos]: where the leading literal was found, every token's span, the end of {0}
Parse(p, line) ==
  LET s == First(line, p.prefix, 1) IN
  IF s = 0 THEN [ok |-> FALSE, start |-> 0, spans |-> <<>>, pos |-> 0]
  ELSE LET w == Walk(p.tokens, line, s + Len(p.prefix), <<>>) IN
       [ok |-> w.ok, start |-> s, spans |-> w.spans, pos |-> w.pos]

\* the index vector handed to the caller (0-based offsets)
Result(p, r) ==
  LET c == CaptureIdx(p)
  IN IF ~r.ok THEN Nil
     ELSE <<r.start - 1, r.pos - 1>> \o
          Flatten([k \in 1..Len(c) |-> <<r.spans[c[k]][1] - 1, r.spans[c[k]][2] - 1>>])

Match(p, line) == Result(p, Parse(p, line))

\* text of group g (0 = whole match) of a non-nil result
GroupText(line, r, g) == SubSeq(line, r[2 * g + 1] + 1, r[2 * g + 2])

-----------------------------------------------------------------------------
(* Ignore-case.                                                                 *)
\* "ASCII text" for the exact ignore-case law, taken as widely as the law is certain: a text WITHOUT ANY UTF-8 LEAD BYTE
\* (0xC2..0xF4) holds no valid non-ASCII character - its bytes >= 0x80 (stray continuation bytes, 0xC0, 0xC1, 0xF5..0xFF)
\* are invalid wherever they stand, no case folding of any kind relates two different ones, so such a byte matches only
\* itself and the result is the case-sensitive one on the (ASCII-)lower-cased texts.  Texts with lead bytes may hold
\* letters whose folding the property leaves open.
IsASCII(s)  == \A i \in 1..Len(s) : s[i] < 194 \/ s[i] > 244
PatASCII(p) == IsASCII(p.prefix) /\ \A i \in 1..Len(p.tokens) : IsASCII(p.tokens[i].until)

\* the pattern with lower-cased literals (token names are never folded)
FoldPat(p) == [prefix |-> LowerASCII(p.prefix),
               tokens |-> [i \in 1..Len(p.tokens) |-> [p.tokens[i] EXCEPT !.until = LowerASCII(@)]]]

\* reference ignore-case matcher: the case-sensitive result on lower-cased pattern and line
MatchFold(p, line) == Match(FoldPat(p), LowerASCII(line))

\* all offsets ordered and within the line:  m0 <= c1s <= c1e <= c2s <= ... <= m1 <= |line|
WellFormed(p, line, r) ==
  \/ r = Nil
  \/ /\ Len(r) = 2 * Groups(p) + 2
     /\ \A i \in 1..Len(r) : r[i] \in 0..Len(line)
     /\ LET inner == SubSeq(r, 3, Len(r)) \o <<r[2]>> IN
        /\ r[1] <= inner[1]
        /\ \A i \in 1..(Len(inner) - 1) : inner[i] <= inner[i + 1]

\* THE PROPERTY: is r an acceptable result of matching `line` with pattern p?
\*  - case-sensitive: exactly Match
\*  - ignore-case: well-formed; a match whenever the case-sensitive matcher matches;
\*    for ASCII pattern and line exactly the case-sensitive result on the lower-cased texts
Allowed(p, line, ic, r) ==
  IF ~ic THEN r = Match(p, line)
  ELSE /\ WellFormed(p, line, r)
       /\ (Match(p, line) # Nil => r # Nil)
       /\ ((PatASCII(p) /\ IsASCII(line)) => r = MatchFold(p, line))

Determined(p, line, ic) == ~ic \/ (PatASCII(p) /\ IsASCII(line))
Expected(p, line, ic)   == IF ic THEN MatchFold(p, line) ELSE Match(p, line)

-----------------------------------------------------------------------------
(* Laws of the specification (checked by TLC over finite pattern / line sets).  *)

\* the parse behind a match really is a first-occurrence parse of the line
ParseSound(p, line, r) ==
  LET n == Len(p.tokens) IN
  r.ok =>
    /\ OccursAt(line, p.prefix, r.start)
    /\ \A i \in 1..(r.start - 1) : ~OccursAt(line, p.prefix, i)           \* first occurrence
    /\ Len(r.spans) = n
    /\ (n > 0 => r.spans[1][1] = r.start + Len(p.prefix))
    /\ \A k \in 1..n :
         LET t == p.tokens[k]  b == r.spans[k][1]  e == r.spans[k][2] IN
         /\ b <= e /\ e <= Len(line) + 1
         /\ (t.until = <<>> => e = Len(line) + 1)                          \* to the end of the line
         /\ (t.until # <<>> => /\ OccursAt(line, t.until, e)
                               /\ \A i \in b..(e - 1) : ~OccursAt(line, t.until, i))
         /\ (k < n => r.spans[k + 1][1] = e + Len(t.until))
    /\ r.pos = (IF n = 0 THEN r.start + Len(p.prefix) ELSE r.spans[n][2] + Len(p.tokens[n].until))

\* no match only if the leading literal or some delimiter is missing where it is looked for
ParseComplete(p, line, r) ==
  ~r.ok =>
    \/ ~\E i \in 1..(Len(line) + 1) : OccursAt(line, p.prefix, i)
    \/ LET k == Len(r.spans) + 1 IN
       /\ k <= Len(p.tokens) /\ p.tokens[k].until # <<>>
       /\ ~\E i \in r.pos..(Len(line) + 1) : OccursAt(line, p.tokens[k].until, i)

\* the line can be reassembled from the match:  before ++ prefix ++ (text_k ++ until_k)* ++ after
Reassembles(p, line, r) ==
  r.ok =>
    line = SubSeq(line, 1, r.start - 1) \o p.prefix
           \o Flatten([k \in 1..Len(p.tokens) |->
                         SubSeq(line, r.spans[k][1], r.spans[k][2] - 1) \o p.tokens[k].until])
           \o SubSeq(line, r.pos, Len(line))

MatchLaws(p, line) ==
  LET r   == Parse(p, line)
      m   == Result(p, r)
      fp  == FoldPat(p)
      mf  == Match(fp, LowerASCII(line))          \* = MatchFold(p, line)
      asc == PatASCII(p) /\ IsASCII(line)
  IN
  /\ ParseSound(p, line, r) /\ ParseComplete(p, line, r) /\ Reassembles(p, line, r)
  /\ WellFormed(p, line, m)
  /\ WellFormed(p, line, mf)
  /\ (m # Nil => mf # Nil)                                        \* ignore-case only adds matches
  /\ (asc => Allowed(p, line, TRUE, mf))                          \* the reference satisfies the property
  /\ ((asc /\ p = fp /\ line = LowerASCII(line)) => mf = m)

\* syntax laws: printing a structured pattern and tokenising it again is the identity
ValidTok(t) ==
  /\ ~HasByte(t.name, PCT) /\ ~HasByte(t.name, RBR) /\ ~HasByte(t.until, PCT)
  /\ (~t.skip => t.name # <<>> /\ t.name[1] # QM)
ValidPat(p) == ~HasByte(p.prefix, PCT) /\ \A i \in 1..Len(p.tokens) : ValidTok(p.tokens[i])

SyntaxLaws(p) ==
  ValidPat(p) =>
    LET s == Structure(Unparse(p)) IN
    /\ InDomain(Unparse(p))
    /\ s.prefix = p.prefix /\ s.tokens = p.tokens /\ ~s.unclosed
    /\ Unparse(Compiled(Unparse(p))) = Unparse(p)
    /\ Len(NameTable(p)) = Groups(p)
=============================================================================

-------------------------------- MODULE Csv --------------------------------
(* RFC 4180 comma separated values over byte sequences.                        *)
(*   record      = field *(COMMA field)                                        *)
(*   field       = escaped / non-escaped                                       *)
(*   escaped     = DQUOTE *(TEXTDATA / COMMA / CR / LF / 2DQUOTE) DQUOTE       *)
(*   non-escaped = *TEXTDATA          (TEXTDATA: any byte but DQUOTE COMMA CR LF) *)
(* The decoder is a transcription of that grammar as a state machine; it is the *)
(* oracle for "`{csv ..}` parses back to its arguments" (C11) and for the CSV    *)
(* output of the aggregators (C03).  RFC 4180 restricts TEXTDATA to printable   *)
(* ASCII; here every other byte is text, which only makes the decoder accept    *)
(* more inputs, never decode one differently.                                   *)
EXTENDS Bytes

CsvDQ    == 34
CsvComma == 44

CsvBad == [ok |-> FALSE, recs |-> <<>>]

RECURSIVE CsvWalk(_, _, _, _, _, _, _)
\* s: bytes; i: next position; st: "start" (at the beginning of a field) | "unq" (inside an
\* unquoted field) | "q" (inside quotes) | "qq" (just after a quote inside quotes);
\* cur: bytes of the current field; acc: fields of the current record; recs: finished records;
\* multi: line breaks outside quotes end a record (file mode) or are invalid (record mode)
CsvWalk(s, i, st, cur, acc, recs, multi) ==
  IF i > Len(s) THEN
    IF st = "q" THEN CsvBad                                     \* unterminated quoted field
    ELSE IF multi /\ st = "start" /\ acc = <<>> /\ recs # <<>> THEN [ok |-> TRUE, recs |-> recs]  \* final line break
    ELSE [ok |-> TRUE, recs |-> Append(recs, Append(acc, cur))]
  ELSE
    LET c == s[i]
        crlf == c = CR /\ i < Len(s) /\ s[i + 1] = LF
        eol == multi /\ (c = LF \/ crlf)
        adv == IF crlf THEN 2 ELSE 1
    IN
    CASE st = "q" ->
           IF c = CsvDQ THEN CsvWalk(s, i + 1, "qq", cur, acc, recs, multi)
           ELSE CsvWalk(s, i + 1, "q", Append(cur, c), acc, recs, multi)
      [] st = "qq" ->
           IF c = CsvDQ THEN CsvWalk(s, i + 1, "q", Append(cur, CsvDQ), acc, recs, multi)
           ELSE IF c = CsvComma THEN CsvWalk(s, i + 1, "start", <<>>, Append(acc, cur), recs, multi)
           ELSE IF eol THEN CsvWalk(s, i + adv, "start", <<>>, <<>>, Append(recs, Append(acc, cur)), multi)
           ELSE CsvBad                                          \* text after the closing quote
      [] st = "start" ->
           IF c = CsvDQ THEN CsvWalk(s, i + 1, "q", <<>>, acc, recs, multi)
           ELSE IF c = CsvComma THEN CsvWalk(s, i + 1, "start", <<>>, Append(acc, <<>>), recs, multi)
           ELSE IF eol THEN CsvWalk(s, i + adv, "start", <<>>, <<>>, Append(recs, Append(acc, <<>>)), multi)
           ELSE IF c \in {CR, LF} THEN CsvBad                   \* bare line break in record mode
           ELSE CsvWalk(s, i + 1, "unq", <<c>>, acc, recs, multi)
      [] OTHER -> \* "unq"
           IF c = CsvComma THEN CsvWalk(s, i + 1, "start", <<>>, Append(acc, cur), recs, multi)
           ELSE IF eol THEN CsvWalk(s, i + adv, "start", <<>>, <<>>, Append(recs, Append(acc, cur)), multi)
           ELSE IF c \in {CsvDQ, CR, LF} THEN CsvBad            \* quote or line break inside bare text
           ELSE CsvWalk(s, i + 1, "unq", Append(cur, c), acc, recs, multi)

\* one record (no record separator): [ok, fields]
CsvDecodeRecord(s) ==
  LET r == CsvWalk(s, 1, "start", <<>>, <<>>, <<>>, FALSE)
  IN IF r.ok THEN [ok |-> TRUE, fields |-> r.recs[1]] ELSE [ok |-> FALSE, fields |-> <<>>]

\* a file: records separated by LF or CRLF, optional final line break: [ok, recs]
CsvDecodeFile(s) == IF s = <<>> THEN [ok |-> TRUE, recs |-> <<>>] ELSE CsvWalk(s, 1, "start", <<>>, <<>>, <<>>, TRUE)

\* reference encoder (minimal quoting) -- used for the round-trip law of the decoder itself
CsvNeedsQuote(f) == \E i \in 1..Len(f) : f[i] \in {CsvDQ, CsvComma, CR, LF}
RECURSIVE CsvDoubleQuotes(_)
CsvDoubleQuotes(f) ==
  IF f = <<>> THEN <<>>
  ELSE (IF f[1] = CsvDQ THEN <<CsvDQ, CsvDQ>> ELSE <<f[1]>>) \o CsvDoubleQuotes(Tail(f))
CsvEncodeField(f) == IF CsvNeedsQuote(f) THEN <<CsvDQ>> \o CsvDoubleQuotes(f) \o <<CsvDQ>> ELSE f
CsvEncodeRecord(fs) == JoinSeq([i \in 1..Len(fs) |-> CsvEncodeField(fs[i])], <<CsvComma>>)
=============================================================================

--------------------------- MODULE ExprScan_Trace ---------------------------
(* B2 for C08: recorded scans of the REAL compiler and evaluator (array          *)
(* contexts and the real extractor with regex / dissect matchers) are validated  *)
(* against ExprScan without faults.  One scan is                                  *)
(*    reset{t, n}  compile{res: "ok" | "errors" | "panic" | "hang"}               *)
(*    line{k, res: "string" | "panic" | "hang"}*   end{lines}                     *)
(* The trace spec is total: a scan the specification cannot explain (a panic, a   *)
(* missing or repeated line, lines after a rejected compile, an end before the    *)
(* last line) is recorded in `bad` with the index of the rejected event and       *)
(* skipped up to the next reset.                                                  *)
EXTENDS Integers, Sequences, Json, TLC

Trace == ndJsonDeserialize("trace.ndjson")

VARIABLES l, tid, n, pc, i, bad, scans
tvars == <<l, tid, n, pc, i, bad, scans>>

Ev == Trace[l]
IsEv(e) == l <= Len(Trace) /\ Ev.event = e /\ l' = l + 1

TReset ==
  /\ IsEv("reset") /\ pc \in {"done", "rejected", "idle"}      \* the previous scan is complete
  /\ tid' = Ev.t /\ n' = Ev.n /\ pc' = "start" /\ i' = 0 /\ scans' = scans + 1
\* ExprScan!CompileOK / CompileErr: the only outcomes of a compilation
TCompile ==
  /\ IsEv("compile") /\ pc = "start" /\ Ev.res \in {"ok", "errors"}
  /\ pc' = (IF Ev.res = "ok" THEN "ready" ELSE "rejected")
  /\ UNCHANGED <<tid, n, i, scans>>
\* ExprScan!EvalLine: line k is the next line and it yields a string
TLine ==
  /\ IsEv("line") /\ pc = "ready" /\ i < n /\ Ev.k = i + 1 /\ Ev.res = "string"
  /\ i' = i + 1
  /\ UNCHANGED <<tid, n, pc, scans>>
\* ExprScan!Finish: only after the last line
TEnd ==
  /\ IsEv("end") /\ pc = "ready" /\ i = n /\ Ev.lines = n
  /\ pc' = "done"
  /\ UNCHANGED <<tid, n, i, scans>>
\* a rejected template is still evaluated by the driver (Compile hands back what it built): those lines must return too
TLineRejected ==
  /\ IsEv("line") /\ pc = "rejected" /\ Ev.res = "string"
  /\ UNCHANGED <<tid, n, pc, i, scans>>
TEndRejected == IsEv("end") /\ pc = "rejected" /\ UNCHANGED <<tid, n, pc, i, scans>>

TStep == TReset \/ TCompile \/ TLine \/ TEnd \/ TLineRejected \/ TEndRejected

RECURSIVE NextReset(_)
NextReset(j) == IF j > Len(Trace) \/ Trace[j].event = "reset" THEN j ELSE NextReset(j + 1)

Skip ==
  /\ l <= Len(Trace)
  /\ ~ENABLED TStep
  /\ bad' = Append(bad, [t |-> tid, l |-> l, event |-> Ev.event,
                         class |-> (IF Ev.event \in {"compile", "line"} THEN Ev.res ELSE "order")])
  \* an early reset means the previous scan was cut short: that scan is bad, the new one is read normally
  /\ l' = (IF Ev.event = "reset" THEN l ELSE NextReset(l + 1))
  /\ pc' = "idle"
  /\ UNCHANGED <<tid, n, i, scans>>

TInit == l = 1 /\ tid = 0 /\ n = 0 /\ pc = "idle" /\ i = 0 /\ bad = <<>> /\ scans = 0
TNext == (TStep /\ UNCHANGED bad) \/ Skip
TSpec == TInit /\ [][TNext]_tvars

Final == (l = Len(Trace) + 1) =>
  JsonSerialize("bad.json", [bad |-> bad, consumed |-> l - 1, scans |-> scans,
                             done |-> pc \in {"done", "rejected", "idle"}])
=============================================================================

------------------------------ MODULE PipelineKey ------------------------------
(* C01 - the facts of a line are evaluated in the WORKER's context.               *)
(*                                                                                 *)
(* Pipeline.tla gives every line its class as a constant.  In the code the class  *)
(* is computed by processLineSync from three expression evaluations on a context  *)
(* object that every worker goroutine owns and RE-USES from line to line          *)
(* (extractorInstance.context): the matcher's indices and the line text are put   *)
(* into it, then its source and lineNum fields - the source name of the batch and *)
(* BatchStart + idx, where BatchStart was computed by the reader that cut the     *)
(* batch - then the ignore expressions are evaluated on it, then the key.         *)
(* So the class and the key of a line depend on                                   *)
(*   (a) what the reader put into BatchStart        (batchStart += len(batch))    *)
(*   (b) when the worker refreshes which field of its context,                    *)
(*   (c) who else writes that context.                                            *)
(* This module models exactly that path:                                          *)
(*   reader f   cuts its input into batches [src, start, lines] (full, timer-cut  *)
(*              short, final partial) and advances its batchStart                 *)
(*   bchan      bounded batch channel shared by all readers and workers           *)
(*   worker w   recv a batch; per line: Bind (readLines++, matcher; for a match   *)
(*              the context receives the line's match and - per design - the      *)
(*              line's src / line number), Eval (ignore expressions on the        *)
(*              context, then the key, class counter, match collected), Send (the *)
(*              matches of the batch are handed over)                             *)
(* and states the law of the property: whatever the cuts, the number of workers   *)
(* and the order in which batches reach them, every line gets the class and the   *)
(* key of the SEQUENTIAL evaluation (PipelineKeyExpr!SeqCtx: line i of input f is *)
(* evaluated in the context (f, i, its own match)) - ClassOK, KeysOK, CountersOK, *)
(* KFinalOK, and the refinement of the abstract bag specification PipelineObs     *)
(* instantiated with the sequentially evaluated facts (KRefines).                 *)
(*                                                                                 *)
(* Designs (CONSTANTS), the code first:                                           *)
(*   Advance   "len"   batchStart += len(batch)                        (the code) *)
(*             "size"  batchStart += batchSize: indistinguishable while only full *)
(*                     and final batches exist, REFUTED behind a timer-cut batch  *)
(*   SetFacts  "first" src and line are stored before the ignore set is consulted *)
(*                     (the code)                                                  *)
(*             "batch" src once per batch at recv, line per line: an equivalent   *)
(*                     arrangement - passes (the law demands no particular order) *)
(*             "kept"  src and line are stored only on the not-ignored branch,    *)
(*                     right before the key is built: the ignore expressions see  *)
(*                     the src / line of the worker's previous kept line -        *)
(*                     REFUTED as soon as an ignore expression reads {src} or     *)
(*                     {line}; passes when none does (IgnReadsLine)               *)
(*   Shared    FALSE   one context per worker                          (the code) *)
(*             TRUE    all workers write one context: REFUTED with 2 workers      *)
EXTENDS PipelineKeyExpr, TLC

CONSTANTS
  Files,      \* Files[f][i] = [m |-> BOOLEAN, g |-> Nat]
  Ign,        \* sequence of ignore expressions
  KeyE,       \* the key expression
  Batch, Workers, BufCap,
  TimeFlush,  \* BOOLEAN: the flush timer may cut a batch short (stream inputs)
  Advance, SetFacts, Shared

NF == Len(Files)
LineIds == IdsOf(Files)
KSeqClass(id) == SeqClass(Files, Ign, KeyE, id)
KSeqKey(id) == SeqKey(Files, KeyE, id)

VARIABLES
  pos, bstart,           \* reader f: lines handed out so far, batchStart of the next batch
  bchan,                 \* the batch channel
  wpc, wcur, widx, wout, \* worker w: pc, current batch, index into it, matches of the batch [id, key, src, no]
  ctx,                   \* the expression contexts [src, line, g] (one per worker, or one shared)
  cls, got,              \* observed: class given to every line ("unread" before), key delivered for it (<<>> = none)
  readLines, matchedLines, ignoredLines
kvars == <<pos, bstart, bchan, wpc, wcur, widx, wout, ctx, cls, got, readLines, matchedLines, ignoredLines>>

CtxOf(w) == IF Shared THEN 1 ELSE w
NoBatch == [src |-> 0, start |-> 0, lines |-> <<>>]
MinOf(a, b) == IF a < b THEN a ELSE b

KInit ==
  /\ pos = [f \in 1..NF |-> 0]
  /\ bstart = [f \in 1..NF |-> 1]
  /\ bchan = <<>>
  /\ wpc = [w \in 1..Workers |-> "recv"]
  /\ wcur = [w \in 1..Workers |-> NoBatch]
  /\ widx = [w \in 1..Workers |-> 0]
  /\ wout = [w \in 1..Workers |-> {}]
  /\ ctx = [c \in 1..Workers |-> [src |-> 0, line |-> 0, g |-> 0]]     \* zero value of the context struct
  /\ cls = [id \in LineIds |-> "unread"]
  /\ got = [id \in LineIds |-> <<>>]
  /\ readLines = 0 /\ matchedLines = 0 /\ ignoredLines = 0

\* ------------------------------------------------------------------ reader
\* One step = everything from the first append to the send of a batch of n lines.  n = Batch is the
\* full cut; a shorter batch is the final flush, or - on the timer path - any prefix.
ReaderCut(f, n) ==
  /\ pos[f] + n <= Len(Files[f])
  /\ n < Batch => (TimeFlush \/ pos[f] + n = Len(Files[f]))
  /\ Len(bchan) < BufCap
  /\ bchan' = Append(bchan, [src |-> f, start |-> bstart[f], lines |-> [k \in 1..n |-> <<f, pos[f] + k>>]])
  /\ pos' = [pos EXCEPT ![f] = @ + n]
  /\ bstart' = [bstart EXCEPT ![f] = @ + (IF Advance = "len" THEN n ELSE Batch)]
  /\ UNCHANGED <<wpc, wcur, widx, wout, ctx, cls, got, readLines, matchedLines, ignoredLines>>
AllRead == \A f \in 1..NF : pos[f] = Len(Files[f])     \* every reader returned: the channel is closed

\* ------------------------------------------------------------------ worker
WorkerRecv(w) ==
  /\ wpc[w] = "recv"
  /\ \/ /\ bchan # <<>>
        /\ wcur' = [wcur EXCEPT ![w] = Head(bchan)]
        /\ bchan' = Tail(bchan)
        /\ widx' = [widx EXCEPT ![w] = 1]
        /\ wout' = [wout EXCEPT ![w] = {}]
        /\ wpc' = [wpc EXCEPT ![w] = "bind"]
        /\ ctx' = IF SetFacts = "batch"
                  THEN [ctx EXCEPT ![CtxOf(w)].src = Head(bchan).src]
                  ELSE ctx
     \/ /\ bchan = <<>> /\ AllRead
        /\ wpc' = [wpc EXCEPT ![w] = "done"]
        /\ UNCHANGED <<wcur, widx, wout, bchan, ctx>>
  /\ UNCHANGED <<pos, bstart, cls, got, readLines, matchedLines, ignoredLines>>

CurId(w) == wcur[w].lines[widx[w]]
CurNo(w) == wcur[w].start + widx[w] - 1          \* batch.BatchStart + uint64(idx)
Advanced(w, out) ==
  IF widx[w] < Len(wcur[w].lines)
  THEN widx' = [widx EXCEPT ![w] = @ + 1] /\ wpc' = [wpc EXCEPT ![w] = "bind"]
  ELSE widx' = widx /\ wpc' = [wpc EXCEPT ![w] = IF out # {} THEN "send" ELSE "recv"]

\* processLineSync, first half: readLines++, the matcher; on a match the context is loaded
WorkerBind(w) ==
  /\ wpc[w] = "bind"
  /\ readLines' = readLines + 1
  /\ LET id == CurId(w) r == RecOf(Files, id) c == CtxOf(w) IN
     IF r.m
     THEN /\ ctx' = [ctx EXCEPT ![c] =
                       CASE SetFacts = "first" -> [src |-> wcur[w].src, line |-> CurNo(w), g |-> r.g]
                         [] SetFacts = "batch" -> [src |-> @.src, line |-> CurNo(w), g |-> r.g]
                         [] SetFacts = "kept"  -> [src |-> @.src, line |-> @.line, g |-> r.g]]
          /\ wpc' = [wpc EXCEPT ![w] = "eval"]
          /\ UNCHANGED <<widx, cls>>
     ELSE \* no match: the context is not touched, the line is unmatched
          /\ cls' = [cls EXCEPT ![id] = "unmatched"]
          /\ Advanced(w, wout[w])
          /\ UNCHANGED ctx
  /\ UNCHANGED <<pos, bstart, bchan, wcur, wout, got, matchedLines, ignoredLines>>

\* processLineSync, second half: ignore set, key, class counter
WorkerEval(w) ==
  /\ wpc[w] = "eval"
  /\ LET id == CurId(w)
         c0 == ctx[CtxOf(w)]
         ignored == \E e \in DOMAIN Ign : Truthy(Ign[e], c0)
         c1 == IF SetFacts = "kept" /\ ~ignored
               THEN [c0 EXCEPT !.src = wcur[w].src, !.line = CurNo(w)] ELSE c0
         key == KeyOf(KeyE, c1)
         c == IF ignored \/ key = <<>> THEN "ignored" ELSE "matched"
         out == IF c = "matched"
                THEN wout[w] \cup {[id |-> id, key |-> key, src |-> wcur[w].src, no |-> CurNo(w)]}
                ELSE wout[w]
     IN /\ ctx' = [ctx EXCEPT ![CtxOf(w)] = c1]
        /\ cls' = [cls EXCEPT ![id] = c]
        /\ matchedLines' = matchedLines + (IF c = "matched" THEN 1 ELSE 0)
        /\ ignoredLines' = ignoredLines + (IF c = "ignored" THEN 1 ELSE 0)
        /\ wout' = [wout EXCEPT ![w] = out]
        /\ Advanced(w, out)
  /\ UNCHANGED <<pos, bstart, bchan, wcur, got, readLines>>

\* s.readChan <- matchBatch : the consumer receives the matches of the batch (readChan and the
\* consumer are Pipeline.tla's business; here the hand-over is one step)
WorkerSend(w) ==
  /\ wpc[w] = "send"
  /\ got' = [id \in LineIds |-> IF \E m \in wout[w] : m.id = id
                                THEN (CHOOSE m \in wout[w] : m.id = id).key ELSE got[id]]
  /\ wout' = [wout EXCEPT ![w] = {}]
  /\ wpc' = [wpc EXCEPT ![w] = "recv"]
  /\ UNCHANGED <<pos, bstart, bchan, wcur, widx, ctx, cls, readLines, matchedLines, ignoredLines>>

KTerminated == AllRead /\ bchan = <<>> /\ \A w \in 1..Workers : wpc[w] = "done"
KStep == \/ \E f \in 1..NF : \E n \in 1..Batch : ReaderCut(f, n)
         \/ \E w \in 1..Workers : WorkerRecv(w) \/ WorkerBind(w) \/ WorkerEval(w) \/ WorkerSend(w)
KNext == KStep \/ (KTerminated /\ UNCHANGED kvars)
KSpec == KInit /\ [][KNext]_kvars /\ WF_kvars(KStep)

\* ------------------------------------------------------------------ laws
KTypeOK ==
  /\ \A f \in 1..NF : pos[f] \in 0..Len(Files[f])
  /\ Len(bchan) <= BufCap
  /\ \A w \in 1..Workers : wpc[w] \in {"recv", "bind", "eval", "send", "done"}
  /\ \A id \in LineIds : cls[id] \in {"unread", "matched", "ignored", "unmatched"}
\* every line gets the class of the sequential one-line-at-a-time evaluation ...
ClassOK == \A id \in LineIds : cls[id] # "unread" => cls[id] = KSeqClass(id)
\* ... and every delivered key is the key of that evaluation (and only matched lines deliver one)
KeysOK == /\ \A id \in LineIds : got[id] # <<>> => cls[id] = "matched" /\ got[id] = KSeqKey(id)
          /\ \A w \in 1..Workers : \A m \in wout[w] : m.key = KSeqKey(m.id) /\ m.src = m.id[1] /\ m.no = m.id[2]
\* the totals equal the true counts in every state
KCountersOK ==
  /\ readLines = Cardinality({id \in LineIds : cls[id] # "unread"}) + Cardinality({w \in 1..Workers : wpc[w] = "eval"})
  /\ matchedLines = Cardinality({id \in LineIds : cls[id] = "matched"})
  /\ ignoredLines = Cardinality({id \in LineIds : cls[id] = "ignored"})
\* why the code is right: when the ignore set is consulted the context is the line's own
CtxFreshOK ==
  \A w \in 1..Workers : wpc[w] = "eval" => ctx[CtxOf(w)] = SeqCtx(Files, CurId(w))
KFinalOK ==
  KTerminated =>
    /\ \A id \in LineIds : cls[id] = KSeqClass(id)
    /\ readLines = Cardinality(LineIds)
    /\ matchedLines = SeqCount(Files, Ign, KeyE, "matched")
    /\ ignoredLines = SeqCount(Files, Ign, KeyE, "ignored")
    /\ readLines = matchedLines + ignoredLines + SeqCount(Files, Ign, KeyE, "unmatched")
    /\ {<<id, got[id]>> : id \in {x \in LineIds : got[x] # <<>>}} = SeqEmit(Files, Ign, KeyE)

\* refinement of the abstract bag specification, instantiated with the sequentially evaluated facts
Obs == INSTANCE PipelineObs WITH
  Lines <- SeqLines(Files, Ign, KeyE),
  acls <- cls,
  aemit <- {id \in LineIds : got[id] # <<>>},
  aread <- readLines - Cardinality({w \in 1..Workers : wpc[w] = "eval"}),
  amatched <- matchedLines,
  aignored <- ignoredLines,
  adone <- KTerminated
KRefines == Obs!AInit /\ [][Obs!ANext]_Obs!avars
\* the abstract specification's own laws, read through the refinement mapping
KObsCountersOK == Obs!ACountersOK
KObsFinalOK == Obs!AFinalOK
KTerminates == <>KTerminated
=============================================================================

---------------------------- MODULE Follow_Trace ----------------------------
(* B2 for C15: recorded executions of the real follow readers (environment     *)
(* operations on a real file, what every Read call returned) validated against *)
(* the abstract Follow specification.  Records:                                *)
(*   reset{t, poll, reopen, tail, init}   a new trace: the reader was opened   *)
(*         (+ path: file | link-...)      (whether the path is a symbolic link  *)
(*                                        is no parameter of the specification) *)
(*                                        on a file holding init (Drain() run  *)
(*                                        when tail)                            *)
(*   append{data} remove{} create{}       logged BEFORE the operation is done   *)
(*   other{what, name}                    an operation on a sibling of the      *)
(*                                        followed path (Follow!EnvOther)        *)
(*   read{data} eof{}                     logged AFTER Read returned           *)
(*   quiet{}                              no Read returned for the liveness    *)
(*                                        deadline: the specification must be  *)
(*                                        in a Complete state                   *)
(* Which signal the reader's select took, when the poller looked: unlogged -   *)
(* the abstract specification does not need them.  A trace the specification   *)
(* cannot explain is recorded in `bad` (trace id, line of the rejected record) *)
(* and skipped.                                                                *)
EXTENDS Follow, Json

Trace == ndJsonDeserialize("trace.ndjson")

VARIABLES l, tid, bad
tvars == <<mode, files, cur, start, delivered, ended, fresh, dom, l, tid, bad>>

Ev == Trace[l]
IsEv(e) == l <= Len(Trace) /\ Ev.event = e /\ l' = l + 1

TReset ==
  /\ IsEv("reset")
  /\ mode' = [poll |-> Ev.poll, reopen |-> Ev.reopen, tail |-> Ev.tail]
  /\ files' = <<Ev.init>> /\ cur' = 1
  /\ start' = IF Ev.tail THEN Len(Ev.init) ELSE 0
  /\ delivered' = <<>> /\ ended' = FALSE /\ fresh' = FALSE /\ dom' = TRUE
  /\ tid' = Ev.t
TAppend == IsEv("append") /\ EnvAppend(Ev.data) /\ UNCHANGED tid
TRemove == IsEv("remove") /\ EnvRemove /\ UNCHANGED tid
TCreate == IsEv("create") /\ EnvCreate /\ UNCHANGED tid
TOther  == IsEv("other") /\ EnvOther /\ UNCHANGED tid
TRead   == IsEv("read") /\ Deliver(Ev.data) /\ UNCHANGED tid
TEof    == IsEv("eof") /\ End /\ UNCHANGED tid
TQuiet  == IsEv("quiet") /\ Complete /\ UNCHANGED <<mode, files, cur, start, delivered, ended, fresh, dom, tid>>

TStep == TReset \/ TAppend \/ TRemove \/ TCreate \/ TOther \/ TRead \/ TEof \/ TQuiet

RECURSIVE NextReset(_)
NextReset(i) == IF i > Len(Trace) \/ Trace[i].event = "reset" THEN i ELSE NextReset(i + 1)

Skip ==
  /\ l <= Len(Trace)
  /\ ~ENABLED TStep
  /\ bad' = Append(bad, [t |-> tid, l |-> l])
  /\ l' = NextReset(l + 1)
  /\ UNCHANGED <<mode, files, cur, start, delivered, ended, fresh, dom, tid>>

TInit ==
  /\ mode = [poll |-> FALSE, reopen |-> FALSE, tail |-> FALSE]
  /\ files = << <<>> >> /\ cur = 1 /\ start = 0 /\ delivered = <<>> /\ ended = FALSE
  /\ fresh = FALSE /\ dom = TRUE
  /\ l = 1 /\ tid = 0 /\ bad = <<>>
TNext == (TStep /\ UNCHANGED bad) \/ Skip
TSpec == TInit /\ [][TNext]_tvars

Final == (l = Len(Trace) + 1) => JsonSerialize("bad.json", [bad |-> bad, consumed |-> l - 1, done |-> TRUE])
=============================================================================

------------------------ MODULE ExprSyntaxEval_Trace ------------------------
(* B2 for ExprSyntaxEval: recorded evaluations of the REAL code by free-running  *)
(* goroutines.  One record per random template                                   *)
(*   {defs: [[name, body]..], text, outs: [{w, out}..], panic, problem}           *)
(* defs: the funcs-file definitions loaded (real loader) before `text` was        *)
(* compiled once; outs: every DISTINCT (worker, output) pair that 4 goroutines,   *)
(* each evaluating the one compiled template 40 times against its own context     *)
(* and yielding the processor in every lookup, have seen.  The specification      *)
(* compiles defs and text with the parse model and demands that every observed    *)
(* output is the denotation of the tree in that worker's context (EvalD) - a      *)
(* worker that saw two different outputs is rejected as well, since at most one   *)
(* of them is the denotation.  A record the parse model cannot compile is the     *)
(* harness's fault.  Total: every record is consumed, the unexplained collected.  *)
EXTENDS ExprSyntaxEval, Json

Trace == ndJsonDeserialize("trace.ndjson")

VARIABLES l, bad, nontrivial
tvars == <<l, bad, nontrivial, cid, prog, stk, scratch, res>>

Class(r) ==
  IF r.panic THEN "panic"
  ELSE LET pg == ProgOf([defs |-> r.defs, text |-> r.text]) IN
    IF ~pg.ok \/ r.problem # "" THEN "harness-compile"
    ELSE IF \E j \in 1..Len(r.outs) : r.outs[j].out # Denote(pg, r.outs[j].w) THEN "out"
    ELSE "ok"

TInit == l = 1 /\ bad = <<>> /\ nontrivial = 0 /\ cid = 0 /\ prog = 0 /\ stk = 0 /\ scratch = 0 /\ res = 0
TNext ==
  /\ l <= Len(Trace)
  /\ l' = l + 1
  /\ LET cl == Class(Trace[l]) IN
     bad' = IF cl = "ok" THEN bad ELSE Append(bad, [t |-> l, l |-> l, class |-> cl])
  /\ nontrivial' = nontrivial + (IF Trace[l].defs # <<>> THEN 1 ELSE 0)
  /\ UNCHANGED <<cid, prog, stk, scratch, res>>
TSpec == TInit /\ [][TNext]_tvars

Final == (l = Len(Trace) + 1) =>
  JsonSerialize("bad.json", [bad |-> bad, consumed |-> l - 1, done |-> TRUE, nontrivial |-> nontrivial])
=============================================================================

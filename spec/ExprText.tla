------------------------------ MODULE ExprText ------------------------------
(* C08, the SIZES of what a helper is handed: how long a text is and how many   *)
(* arguments a call has.  (Constant operators only; ExprTotal builds its pools   *)
(* from them, ExprSizes is the state machine that uses them.)                    *)
(*                                                                               *)
(* A text has no single length.  The same value measures differently in bytes   *)
(* (Go's len and slice indices), in runes (range loops, []rune conversions,      *)
(* utf8.RuneCountInString, fmt widths), in UTF-16 units and in display columns;  *)
(* an array (NUL-separated) also in elements.  A helper that takes an offset or  *)
(* a length (substr, select, @slice, @select, repeat, format widths, bar) has    *)
(* to clamp the window and to cut in ONE unit.  For ASCII - which is what the    *)
(* repository's tests use - all units agree, so a helper that clamps in one      *)
(* unit and cuts in another is indistinguishable from a correct one until a      *)
(* line holds a multi-byte character.                                            *)
(*                                                                               *)
(* A text is modelled as a sequence of CHARACTER CLASSES; Enc gives the bytes    *)
(* the Go program sees, Meas the length in every unit, RuneCount is the          *)
(* decoder of the Go runtime (an invalid byte is one rune) transcribed, so that  *)
(* TLC can check the measure table against the encoding (EncDecLaw).             *)
EXTENDS Integers, Sequences, FiniteSets, SequencesExt

\* ------------------------------------------------------------------ character classes
(*  a    ASCII letter                                                            *)
(*  e2   a 2-byte letter (e acute)                                               *)
(*  k2   a 2-byte letter whose upper case needs 3 bytes (turned a, U+0250)       *)
(*  c3   a 3-byte wide letter (CJK, two columns)                                 *)
(*  m4   a 4-byte character outside the BMP (emoji: 2 UTF-16 units, 2 columns)   *)
(*  cmb  a combining mark (2 bytes, no column)                                   *)
(*  bad  a byte that is no UTF-8 at all (0xff): one byte, one rune               *)
(*  tr   a truncated 3-byte sequence (e6 97): two bytes, TWO runes               *)
(*  sur  an encoded surrogate (ed a0 80): three bytes, three runes               *)
(*  nul  the NUL byte: rare's array separator                                    *)
CharClasses == {"a", "e2", "k2", "c3", "m4", "cmb", "bad", "tr", "sur", "nul"}
EncChar(c) ==
  CASE c = "a" -> <<97>> [] c = "e2" -> <<195, 169>> [] c = "k2" -> <<201, 144>> [] c = "c3" -> <<230, 151, 165>>
    [] c = "m4" -> <<240, 159, 152, 128>> [] c = "cmb" -> <<204, 129>> [] c = "bad" -> <<255>> [] c = "tr" -> <<230, 151>>
    [] c = "sur" -> <<237, 160, 128>> [] c = "nul" -> <<0>>
Enc(cs) == FlattenSeq([j \in 1..Len(cs) |-> EncChar(cs[j])])

Units == {"byte", "rune", "u16", "col"}
MeasChar(u, c) ==
  CASE u = "byte" -> Len(EncChar(c))
    [] u = "rune" -> (CASE c = "tr" -> 2 [] c = "sur" -> 3 [] OTHER -> 1)
    [] u = "u16"  -> (CASE c = "tr" -> 2 [] c = "sur" -> 3 [] c = "m4" -> 2 [] OTHER -> 1)
    [] u = "col"  -> (CASE c \in {"cmb", "nul"} -> 0 [] c \in {"c3", "m4"} -> 2 [] c = "tr" -> 2 [] c = "sur" -> 3 [] OTHER -> 1)
MeasSeq(u, cs) == FoldLeft(LAMBDA acc, c : acc + MeasChar(u, c), 0, cs)

\* a text value: the character sequence cs repeated r times
Txt(id, cs, r) == [id |-> id, cs |-> cs, r |-> r]
Meas(u, t) == t.r * MeasSeq(u, t.cs)
\* elements of the text read as an array
Elems(t) == t.r * Len(SelectSeq(t.cs, LAMBDA c : c = "nul")) + 1
Rep(c, n) == [j \in 1..n |-> c]

\* ------------------------------------------------------------------ the decoder of the Go runtime (unicode/utf8)
Cont(b) == b >= 128 /\ b <= 191
\* number of bytes the rune at position i takes; an invalid or truncated sequence takes ONE byte (RuneError)
RuneWidth(bs, i) ==
  LET b0 == bs[i]
      has(k) == i + k <= Len(bs)
      b(k) == bs[i + k]
  IN IF b0 < 128 THEN 1
     ELSE IF b0 >= 194 /\ b0 <= 223 THEN (IF has(1) /\ Cont(b(1)) THEN 2 ELSE 1)
     ELSE IF b0 >= 224 /\ b0 <= 239 THEN
        (IF has(2) /\ Cont(b(2))
            /\ (IF b0 = 224 THEN b(1) >= 160 /\ b(1) <= 191 ELSE IF b0 = 237 THEN b(1) >= 128 /\ b(1) <= 159 ELSE Cont(b(1)))
         THEN 3 ELSE 1)
     ELSE IF b0 >= 240 /\ b0 <= 244 THEN
        (IF has(3) /\ Cont(b(2)) /\ Cont(b(3))
            /\ (IF b0 = 240 THEN b(1) >= 144 /\ b(1) <= 191 ELSE IF b0 = 244 THEN b(1) >= 128 /\ b(1) <= 143 ELSE Cont(b(1)))
         THEN 4 ELSE 1)
     ELSE 1
RECURSIVE RuneCountFrom(_, _)
RuneCountFrom(bs, i) == IF i > Len(bs) THEN 0 ELSE 1 + RuneCountFrom(bs, i + RuneWidth(bs, i))
RuneCount(bs) == RuneCountFrom(bs, 1)

RECURSIVE CharSeqs(_)
CharSeqs(n) == IF n = 0 THEN {<<>>} ELSE CharSeqs(n - 1) \cup {Append(s, c) : s \in {x \in CharSeqs(n - 1) : Len(x) = n - 1}, c \in CharClasses}
\* the measure table agrees with the encoding and with the decoder, whatever the neighbours of a character are
EncDecLaw(n) == \A cs \in CharSeqs(n) : Len(Enc(cs)) = MeasSeq("byte", cs) /\ RuneCount(Enc(cs)) = MeasSeq("rune", cs)
\* the units are ordered as far as they are, and differ
UnitLaw(n) == \A cs \in CharSeqs(n) : MeasSeq("byte", cs) >= MeasSeq("u16", cs) /\ MeasSeq("u16", cs) >= MeasSeq("rune", cs)

\* ------------------------------------------------------------------ a window (offset, length) over a value of n units
HUGE == 1000000000        \* stands for every count near the integer limits (TLC integers are 32 bit)
(* the normalisation of {substr s left length} (funcsStrings.go kfSubstr),       *)
(* transcribed: a negative length is empty, a negative offset counts from the    *)
(* end, everything is clamped into 0..n, and the comparison is written so that   *)
(* left + length cannot overflow.  Returns <<lo, hi>>.                           *)
Norm(n, left, length) ==
  LET len1 == IF length < 0 THEN 0 ELSE length
      lo == IF left < 0 THEN (IF left + n < 0 THEN 0 ELSE left + n) ELSE IF left > n THEN n ELSE left
      len2 == IF len1 > n - lo THEN n - lo ELSE len1
  IN <<lo, lo + len2>>
InRange(w, n) == 0 <= w[1] /\ w[1] <= w[2] /\ w[2] <= n
\* what a window looks like (the whole value is the one shape that needs no cut at all)
Shape(w, n) ==
  IF w[1] = w[2] THEN "empty" ELSE IF w[1] = 0 /\ w[2] = n THEN "whole" ELSE IF w[1] = 0 THEN "prefix"
  ELSE IF w[2] = n THEN "suffix" ELSE "inner"
Shapes == {"empty", "whole", "prefix", "suffix", "inner"}

(* A cut beyond the end of a value is a crash only when it also lies beyond the  *)
(* CAPACITY of the object that is cut (Go checks slice bounds against the        *)
(* capacity; below it the cut silently reads slack).  Assumed of the runtime:    *)
(* the capacity of a buffer of n units is at most max(32, n + n/4) units.        *)
SlackBound(n) == IF n <= 32 THEN 32 ELSE n + n \div 4
\* the offsets tried on a text: around zero, around its length in every unit (from the front and from the end), and huge
Around(m) == {m - 1, m, m + 1, -(m - 1), -m, -(m + 1)}
Offsets(t) == {0, 1, -1, 2, 3, -3, 7, HUGE, -HUGE} \cup UNION {Around(Meas(u, t)) : u \in Units} \cup Around(Elems(t))

\* ------------------------------------------------------------------ argument counts
(* A call {f a1 .. an} of a helper without an upper limit hands the stage n      *)
(* argument stages.  The stage may stage their values (format: the Sprintf       *)
(* arguments) - in a buffer as long as the call, or in a small fixed one "that   *)
(* is enough in practice".  Capacities somebody would pick:                      *)
BufSizes == {1, 2, 3, 4, 5, 6, 7, 8, 10, 12, 16, 20, 24, 32, 48, 64, 100, 128, 200, 250}
\* argument counts tried beyond the dense range 0..9 (both sides of every power of two)
BigArities(thorough) == {10, 11, 16, 17, 32, 33, 64, 65, 128, 129, 257} \cup (IF thorough THEN {256, 512, 513, 1000, 1025, 4097} ELSE {})
=============================================================================

--------------------------- MODULE TimeCalHist_MC ---------------------------
(* B3 for C18, histories: one compiled expression evaluated on every sequence (up   *)
(* to length L) of inputs drawn from an adversarial pool - instants to the second   *)
(* around a local midnight that is a year / quarter / ISO-week-year / week boundary *)
(* (same UTC day on both sides of it), around the nearest UTC midnight (same local  *)
(* day on both sides), around DST changes, a week and a year apart; for format      *)
(* detection, texts of every specified shape, garbage, the empty text and a text    *)
(* outside the shapes.                                                              *)
(* The machine under test is MemoStep(Memo, ...):                                   *)
(*   Memo = "none"      the specification itself                                    *)
(*   Memo = "localday"  keeps the last timeattr answer, keyed by the LOCAL day      *)
(*                      (a legitimate optimisation: must satisfy every law)         *)
(*   Memo = "utcday"    keeps the last timeattr answer keyed by the UTC day: exact   *)
(*                      when the zone is UTC (ZoneSel = "utc": must satisfy Law),    *)
(*                      NEGATIVE CONTROL otherwise (ZoneSel = "all": TLC must find   *)
(*                      a history that violates Law)                                 *)
(*   Memo = "hour"      keeps the last timeformat answer keyed by the UTC hour       *)
(*                      (negative control: must violate Law)                         *)
(*   Memo = "relearn"   "cache" detects again after a failure (negative control)     *)
(* Law (checked on the last evaluation of every reachable history; earlier ones are *)
(* the last evaluation of a predecessor state):                                     *)
(*   ArgsOnly    a helper that does not remember a format answers what a freshly    *)
(*               compiled expression answers for that input                         *)
(*   DayFn       timeattr answers of two instants on the same local day are equal   *)
(*   FirstSeen   the remembered format is the shape of the first date of the        *)
(*               history ("" before it), characterised without the step function    *)
(*   Homogeneous while every text seen has one and the same shape, a remembering    *)
(*               expression answers like a fresh one (and like "auto")              *)
EXTENDS TimeCalHist, TLC

CONSTANTS Memo, Thorough, ZoneSel

VARIABLE st

Zones == IF ZoneSel = "utc" THEN {"UTC"}
         ELSE IF Thorough THEN ZoneNames \ {"utc"}
         ELSE {"UTC", "America/New_York", "Asia/Kolkata", "Etc/GMT-14", "Australia/Sydney"}
Years == IF Thorough THEN {1971, 2008, 2021, 2024, 2038, 2099} ELSE {2021}
Days(y) == IF Thorough THEN BoundaryDays(y)
           ELSE {DaysFromCivil(y, 1, 1), DaysFromCivil(y, 7, 1), IsoYearStartDay(y), LET d == DaysFromCivil(y, 5, 10) IN d - IsoWd(d) + 1}
RuleZones == {"America/New_York", "Europe/Berlin", "Australia/Sydney"}

UnixE(z) ==
  {MkE("timeattr", 3, "", z, a) : a \in AttrNames}
  \cup {MkE("timeformat", 3, f, z, "") : f \in {"RFC3339", "MINUTE"} \cup (IF Thorough THEN {"UNIX", "WEEKDAY", "2006-01-02"} ELSE {})}
  \cup (IF z = "UTC" THEN {MkE("timeattr", 2, "", "", "yearweek"), MkE("timeformat", 1, "", "", "")} ELSE {})

DetectE(z) ==
  {MkE("time", 3, "cache", z, ""), MkE("time", 3, "auto", z, ""), MkE("buckettime", 4, "cache", z, "h"), MkE("buckettime", 4, "auto", z, "d")}
  \cup (IF z = "UTC" THEN {MkE("time", 1, "", "", ""), MkE("time", 2, "", "", ""), MkE("buckettime", 2, "", "", "mo")} ELSE {})

\* texts of the instants a, b in zone z: every specified shape, garbage, empty, a text outside the shapes
TextPool(z, a, b) ==
  LET zd == Zone(z) la == Local(zd, a) lb == Local(zd, b) ub == Local(Zone("UTC"), b)
      T(sh, l) == Format(Layout(ShapeFormat(sh)), l)
  IN {T("rfc3339o", la), T("rfc3339o", lb), T("rfc3339z", ub), T("ymdhms", la), T("ymdhmso", lb), T("rfc1123z", lb),
      <<120, 63>>, <<>>, <<49, 50, 97>>}

Run0(g, e, pool, l) == [k |-> "run", g |-> g, e |-> e, pool |-> pool, L |-> l, hist |-> <<>>, outs |-> <<>>, live |-> "", memo |-> NoMemo]

H(z, y) == [k |-> "hdr", z |-> z, y |-> y]
Cases(h) ==
  LET zd == Zone(h.z)
      ms == UNION {Midnights(zd, d) : d \in Days(h.y)}
      trs == IF h.z \in RuleZones /\ DaysFromCivil(h.y, 1, 2) >= zd.from
             THEN LET tr == Transitions(zd.kind, h.y) IN {tr.on, tr.off} ELSE {}
      m1 == IF ms = {} THEN {} ELSE {CHOOSE m \in ms : \A m2 \in ms : ~Before(m2, m)}
  IN {Run0("midnight", e, SetToSeq({UnixDigits(t) : t \in InDomainPool(zd, PoolMidnight(m))}), 2) : e \in UnixE(h.z), m \in ms}
     \cup {Run0("midnight3", e, SetToSeq({UnixDigits(t) : t \in InDomainPool(zd, {Plus(m, 0 - 1), m, Plus(m, 1), Plus(m, 1799)})}), 3) :
             e \in UnixE(h.z), m \in ms}
     \cup {Run0("dst", e, SetToSeq({UnixDigits(t) : t \in InDomainPool(zd, PoolDst(t0))}), 2) : e \in UnixE(h.z), t0 \in trs}
     \cup {Run0("far", e, SetToSeq({UnixDigits(t) : t \in InDomainPool(zd, PoolFar(m))}), 2) : e \in UnixE(h.z), m \in m1}
     \cup {Run0("detect", e, SetToSeq(TextPool(h.z, Plus(m, 0 - 1), m)), IF Thorough THEN 3 ELSE 2) : e \in DetectE(h.z), m \in m1}
     \cup {Run0("detect3", e, SetToSeq({x \in TextPool(h.z, Plus(m, 0 - 1), m) : DetectShape(x) # "" \/ x = <<>>}), 3) :
             e \in {d \in DetectE(h.z) : d.f = "time"}, m \in m1}

Eval(s, x) ==
  LET r == IF Memo = "relearn"
           THEN (LET q == RelearnStep(s.e, s.live, x) IN [out |-> q.exp, live |-> q.live, memo |-> s.memo])
           ELSE MemoStep(Memo, s.e, s.live, s.memo, x)
  IN [s EXCEPT !.hist = Append(@, x), !.outs = Append(@, r.out), !.live = r.live, !.memo = r.memo]

Init == st \in {H(z, y) : z \in Zones, y \in Years}
Next ==
  \/ st.k = "hdr" /\ \E s \in Cases(st) : st' = s
  \/ st.k = "run" /\ Len(st.hist) < st.L /\ \E i \in 1..Len(st.pool) : st' = Eval(st, st.pool[i])

\* ---------------------------------------------------------------- the laws
LocalDayOf(e, x) == Local(ZoneOfE(e), InstOfDigits(x).t).ld
InDom(e, x) == ParseIntOK(x) /\ InstOfDigits(x).ok /\ InZoneDomain(ZoneOfE(e), InstOfDigits(x).t)

\* the remembered format, characterised from the history alone: the shape of the first text that is a date
LiveOf(h) ==
  LET D == {i \in 1..Len(h) : h[i] # <<>> /\ ~Garbage(h[i])} IN
  IF D = {} THEN "" ELSE LET sh == DetectShape(h[MinOf(D)]) IN IF sh = "" THEN "?" ELSE sh
OneShape(h) == \E sh \in {DetectShapes[i] : i \in 1..Len(DetectShapes)} : \A i \in 1..Len(h) : DetectShape(h[i]) = sh

ArgsOnly(s, n)    == ~Remembers(s.e) => s.outs[n] = Fresh(s.e, s.hist[n])
DayFn(s, n)       == s.e.f = "timeattr" /\ InDom(s.e, s.hist[n]) =>
                       \A j \in 1..(n - 1) : InDom(s.e, s.hist[j]) /\ LocalDayOf(s.e, s.hist[j]) = LocalDayOf(s.e, s.hist[n]) => s.outs[j] = s.outs[n]
FirstSeen(s)      == Remembers(s.e) => s.live = LiveOf(s.hist)
Homogeneous(s, n) == Remembers(s.e) /\ OneShape(s.hist) =>
                       /\ s.outs[n] = Fresh(s.e, s.hist[n])
                       /\ s.outs[n] = Fresh([s.e EXCEPT !.fmt = "auto", !.n = ZoneArgPos(s.e.f), !.z = EffZone(s.e)], s.hist[n])
NotRemembering(s) == ~Remembers(s.e) => s.live = ""

Law ==
  st.k = "hdr" \/ st.hist = <<>> \/
  LET n == Len(st.hist) IN
  /\ ArgsOnly(st, n) /\ DayFn(st, n) /\ FirstSeen(st) /\ Homogeneous(st, n) /\ NotRemembering(st)

=============================================================================

--------------------------- MODULE FollowPoll_Gen ---------------------------
(* B1 generator for C15, TIMING of the environment relative to the poller.     *)
(*                                                                              *)
(* Follow_Gen enumerates histories and only coarse reader placements (no Read  *)
(* outstanding / one blocked / catch up).  The property quantifies over "any   *)
(* sequence and TIMING of appends" relative to the reader's polls; for the     *)
(* poller the timing that matters is the PHASE of its round at which an        *)
(* operation lands:                                                             *)
(*     round = ReadAttempts x { read; sleep PollDelay } ; stat [; open, seek]  *)
(* An operation after the k-th empty read of a round (k < ReadAttempts) is      *)
(* picked up by an ordinary read; after the LAST one (k = ReadAttempts, the     *)
(* "stat window") it is first seen by the stat, i.e. a file that merely grew   *)
(* goes through the re-open block.                                              *)
(*                                                                              *)
(* This module runs the implementation-shaped FollowPoll (as written:           *)
(* Resume = "readBytes") with a free-running reader (Read is called again as    *)
(* soon as it returned) and lets the environment act only at phases a harness  *)
(* can realise by timing on the real reader (PollDelay and ReadAttempts are     *)
(* public fields): before the reader is started, or r full rounds and k >= 1    *)
(* empty reads after the last SYNC point (reader start or a delivery - a        *)
(* delivery restarts the round, and the harness sees it).  Recorded:            *)
(*   [op: append|remove|create, data, pre, r, k]                                *)
(*   [op: start]                   the reader goroutine is started              *)
(*   [op: read, total]             barrier: the model's reader delivered; wait  *)
(*                                 until `total` bytes have come, then re-sync  *)
(* and, for every history whose reader has caught up with a quiet environment, *)
(* the expectation of the ABSTRACT specification: expect = Expected, eof =      *)
(* EndDemanded, eofok.  Histories stay inside `dom`, so the expectation does    *)
(* not depend on whether the harness hits the phases - timing steers coverage, *)
(* never the verdict.  GenAgrees: in those states the implementation-shaped    *)
(* model has delivered exactly the abstract expectation.                        *)
EXTENDS FollowPoll, Json

CONSTANTS MaxRounds      \* operations are placed at most this many full rounds after a sync point

VARIABLES hist, started, rnd,
          nOpen      \* ghost: how often the model's reader went through the re-open block (schedule-fidelity metric only)

gvars == <<vars, hist, started, rnd, nOpen>>

GInit == Init /\ hist = <<>> /\ started = FALSE /\ rnd = 0 /\ nOpen = 0

Phase == IF pc = "stat" THEN ReadAttempts ELSE att
\* phases the harness can realise: mid-sleep after the k-th empty read (k >= 1), handle open
Placeable ==
  \/ ~started
  \/ /\ started /\ ~ended /\ f # 0 /\ rnd <= MaxRounds
     /\ (pc = "stat" \/ (pc = "read" /\ att >= 1))
Where == [pre |-> ~started, r |-> rnd, k |-> IF started THEN Phase ELSE 0]

GEnv ==
  /\ Placeable /\ ~ended
  /\ \/ /\ Append1
        /\ hist' = Append(hist, [op |-> "append", data |-> Run(nb, nb' - nb)] @@ Where)
     \/ /\ Remove1
        /\ hist' = Append(hist, [op |-> "remove"] @@ Where)
     \/ /\ Create1
        /\ hist' = Append(hist, [op |-> "create"] @@ Where)
  /\ dom'
  /\ UNCHANGED <<started, rnd, nOpen>>

GStart ==
  /\ ~started /\ started' = TRUE
  /\ hist' = Append(hist, [op |-> "start"])
  /\ UNCHANGED <<vars, rnd, nOpen>>

\* the reader, free running; a delivery is a sync point, a stat ends a round
GReader ==
  /\ started
  /\ \/ /\ PRead
        /\ IF delivered' # delivered
           THEN /\ rnd' = 0
                /\ hist' = IF hist # <<>> /\ hist[Len(hist)].op = "read"
                           THEN [hist EXCEPT ![Len(hist)].total = Len(delivered')]
                           ELSE Append(hist, [op |-> "read", total |-> Len(delivered')])
           ELSE UNCHANGED <<hist, rnd>>
        /\ UNCHANGED nOpen
     \/ /\ PStat
        /\ rnd' = IF rnd > MaxRounds THEN rnd ELSE rnd + 1
        /\ UNCHANGED <<hist, nOpen>>
     \/ /\ POpen /\ nOpen' = nOpen + 1 /\ UNCHANGED <<hist, rnd>>
  /\ UNCHANGED started

GNext == GEnv \/ GStart \/ GReader
GSpec == GInit /\ [][GNext]_gvars

\* the reader has caught up with everything and has looked at the path since (two idle rounds)
\* (plain follow keeps reading the file it opened; a path that is empty leaves nothing to look at)
Caught == started /\ (ended \/ (rnd > MaxRounds /\ pc = "read" /\ att = 0 /\ Avail = 0
                                 /\ (f = cur \/ cur = 0 \/ ~Reopen)))

GenAgrees == Caught => (dom /\ delivered = A!Expected /\ (A!EndDemanded => ended)
                        /\ (ended => (~Reopen /\ cur # 1)))
GHandleOK == HandleOK

NEnv == Cardinality({i \in DOMAIN hist : hist[i].op \in {"append", "remove", "create"}})

Dump == (Caught /\ NEnv >= 1) =>
  PrintT("VFJ " \o ToJson([reopen |-> Reopen, tail |-> TailMode, attempts |-> ReadAttempts, buf |-> BufSize,
                           init |-> Run(65, InitLen), steps |-> hist, opens |-> nOpen,
                           expect |-> A!Expected, eof |-> A!EndDemanded,
                           eofok |-> (~Reopen /\ cur # 1)]))
=============================================================================

----------------------------- MODULE FuncFile_MC -----------------------------
(* B3 for the funcs-file loader of C10.                                          *)
(*  (a) every file of up to N physical lines over an alphabet that contains      *)
(*      every documented line form (blank, blanks only, comment, comment ending  *)
(*      in `\`, a complete definition, `text \`, `text\`, text, trailing         *)
(*      comment, `text \ # comment`, a lone `\`, indented text with trailing     *)
(*      blanks, `\` followed by blanks, a name without expression): the loader   *)
(*      state machine terminates, consumes every line once, and registers        *)
(*      exactly Meaning(file), in order; nothing of a comment reaches a body.    *)
(*  (b) the layout law (mode "layout"): for every definition of a small set and   *)
(*      every one of the 6*3*4*4*4*2 = 2304 styles, Load(LayDef(d, style)) = <<d>>.*)
(*  The documentation's own example file is checked as a fixed case.             *)
(*  TrimAll = TRUE (the loader drops every trailing backslash of a continuation  *)
(*  line, not only the mark) must violate InvDone / InvPrefix / InvLayout.       *)
EXTENDS FuncFile

CONSTANTS N, Mode       \* Mode: "lines" | "layout"

A(s) == s
Alphabet == {
  <<>>,                                   \* blank
  <<32, 32>>,                             \* blanks only
  <<35, 32, 90>>,                         \* # Z
  <<32, 35, 32, 90, 32, 92>>,             \*  # Z \
  <<102, 32, 123, 48, 125>>,              \* f {0}
  <<103, 32, 97, 32, 92>>,                \* g a \
  <<123, 49, 125, 98, 92>>,               \* {1}b\
  <<99>>,                                 \* c
  <<104, 32, 120, 32, 35, 32, 90>>,       \* h x # Z
  <<100, 32, 92, 32, 35, 32, 90>>,        \* d \ # Z
  <<92>>,                                 \* \
  <<32, 32, 101, 32, 102, 32, 32>>,       \*   e f   (indented, trailing blanks)
  <<107, 32, 92, 32, 32>>,                \* k \   (blanks after the backslash)
  <<9, 109, 32, 35, 92>>,                 \* <tab>m #\
  \* lines ending in 2 and 3 backslashes (with trailing blanks / a comment), `\` right before `#`,
  \* a continuation line that starts with backslashes
  <<110, 32, 97, 92, 92>>,                \* n a\\        (body ends in a backslash, then the mark)
  <<98, 92, 92, 92>>,                     \* b\\\
  <<112, 32, 113, 92, 92, 32, 35, 32, 90>>, \* p q\\ # Z
  <<114, 92, 35, 120>>,                   \* r\#x        (the comment starts at #: a continuation line)
  <<92, 116, 123, 49, 125>>,              \* \t{1}       (starts with a backslash)
  <<92, 92, 32, 32>>,                     \* \\ and trailing blanks
  \* definitions that do not compile, next to ones that do (builtin: s)
  <<122, 32, 123, 113, 32, 49, 125>>,     \* z {q 1}      unknown function q (a misspelt helper)
  <<121, 32, 123, 102, 32, 49, 125>>,     \* y {f 1}      calls f: compiles exactly when `f {0}` stands before it
  <<119, 32, 123, 48>>,                   \* w {0         unterminated statement
  <<102, 32, 123, 125>>,                  \* f {}         empty statement; as a re-definition of f it leaves the first f alone
  <<118, 32, 123, 115, 32, 49, 32, 50, 125>> }  \* v {s 1 2}    a builtin

RECURSIVE SeqsUpTo(_)
SeqsUpTo(n) == IF n = 0 THEN {<<>>} ELSE LET P == SeqsUpTo(n - 1) IN P \cup {Append(s, a) : s \in {p \in P : Len(p) = n - 1}, a \in Alphabet}

\* definitions for the layout law
LDefs == {
  [name |-> <<117, 49>>, body |-> <<123,115,117,109,105,32,123,48,125,32,123,49,125,125>>],                      \* u1 {sumi {0} {1}}
  [name |-> <<117, 50>>, body |-> <<123,107,125,45,123,105,102,32,123,48,125,32,123,49,125,32,123,50,125,125>>],     \* u2 {k}-{if {0} {1} {2}}
  [name |-> <<120>>, body |-> <<97>>],                                                                              \* x a
  [name |-> <<119>>, body |-> <<34,97,32,32,98,34,32,99>>],                                                         \* w "a  b" c
  [name |-> <<118>>, body |-> <<97,92,110,32,123,48,125>>],                                                         \* v a\n {0}
  [name |-> <<116>>, body |-> <<123,48,125,92,116,123,49,125>>],                                                     \* t {0}\t{1}
  [name |-> <<98>>, body |-> <<97,92,92,98,92,123,32,92,92,92,110,99>>],                                            \* b a\\b\{ \\\nc
  [name |-> <<99>>, body |-> <<92,92,92,92,120>>] }                                                                 \* c \\\\x  (starts with 4)
Styles == {Style(a, b, cc, d, e, g) : a \in 0..5, b \in 0..2, cc \in 0..3, d \in 0..3, e \in 0..3, g \in BOOLEAN}

MCBuiltins == {<<115>>, <<115, 117, 109, 105>>, <<105, 102>>,          \* s sumi if
               <<115, 119, 105, 116, 99, 104>>, <<108, 116>>, <<103, 116>>, <<108, 101, 110>>}     \* switch lt gt len (the documentation's example)
VARIABLE mode     \* carries the layout case in mode "layout"
vars == <<lvars, mode>>

Init ==
  IF Mode = "lines"
  THEN /\ mode = "lines"
       /\ \E f \in SeqsUpTo(N) \cup {DocExample} : LInit(f)
  ELSE /\ \E d \in LDefs, st \in Styles : mode = [d |-> d, st |-> st] /\ LInit(LayDef(d, st))
Next == LNext /\ UNCHANGED mode
Spec == Init /\ [][Next]_vars /\ WF_vars(Next)

\* ---- invariants
InvLineCount == LineCount
InvNoLeak == NoLeak(defs)
InvPrefix == \* what is registered so far is a prefix of the meaning of the file
  Len(defs) <= Len(Meaning(file)) /\ defs = SubSeq(Meaning(file), 1, Len(defs))
InvDone == pc = "done" =>
  /\ defs = Meaning(file) /\ defs = Load(file)
  /\ pos = Len(file) /\ sb = <<>>
  /\ Len(defs) + skipped = Len(Phrases(file))
  /\ (file = DocExample => defs = DocMeaning)
\* ---- definitions that do not compile
\* at every step: what is registered is what the definitions read so far mean under the compile rule
InvRegs == regs = Registered(defs, MCBuiltins) /\ errs = Len(defs) - Len(regs)
\* THE law: whatever else the file holds, every definition that compiles in its place reaches the function table ...
InvKeepsGood == pc = "done" => (Delivered = Registered(Meaning(file), MCBuiltins) /\ (file = DocExample => (Delivered = DocMeaning /\ errs = 0)))
\* ... and the failing ones are as if they were not written: a file of only the delivered definitions delivers the same
InvIndep == pc = "done" => Registered(Delivered, MCBuiltins) = Delivered
InvLayout == (Mode = "layout" /\ pc = "done") => (InLayoutDomain(mode.d) /\ defs = <<mode.d>>)
\* the line forms really end in 0, 1, 2, 3 backslashes after stripping (for the evidence: no vacuous alphabet)
RunsSeen == {BslRun(StripLine(a)) : a \in Alphabet}
InvRuns == {0, 1, 2, 3} \subseteq RunsSeen
Terminates == <>(pc = "done")
=============================================================================

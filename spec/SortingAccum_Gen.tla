-------------------------- MODULE SortingAccum_Gen --------------------------
(* B1 for the accumulating group of C13: TLC enumerates HISTORIES of one           *)
(* long-lived aggregation.AccumulatingGroup - samples (group, value) in every      *)
(* order, so every interleaving of the groups' first appearance and every order of *)
(* the same samples occurs, with at most one display somewhere in the middle and   *)
(* one at the end - and prints each with what the specification says about every   *)
(* display:                                                                        *)
(*   rows    the aggregated data at that moment (per group: sum, count, maximum;   *)
(*           count 0 = the group does not exist yet)                               *)
(*   ranks   per sort expression, per group: the number of groups the contextual   *)
(*           sorter puts strictly before it on the CURRENT rows (equal rank = tied;  *)
(*           -1 = absent); rranks: the same under the reversed sorter              *)
(* The Go driver replays every history on the real object (one per sort expression *)
(* and sorter, the sorter living as long as the object, as `rare reduce` holds it)  *)
(* and accepts a listing iff it lists exactly the present groups, its ranks never   *)
(* decrease, and it is the listing every other history with EQUAL rows produced     *)
(* (RowsOnly: the rows printed here are the specification's notion of "the same     *)
(* aggregated data").                                                               *)
EXTENDS SortingAccum, Json

CONSTANTS Big      \* BOOLEAN: thorough tier

VARIABLES gu, ops, done
gvars == <<gu, ops, done>>

MaxS(u) == IF Big THEN (IF u = "num" THEN 5 ELSE 4) ELSE IF u = "num" THEN 4 ELSE 3
Vals(u) == IF Big /\ u = "weekday" THEN {1, 2, 0 - 2} ELSE {1, 2}
NSamples == Cardinality({k \in 1..Len(ops) : ~IsList(ops[k])})
NLists == Cardinality({k \in 1..Len(ops) : IsList(ops[k])})
ListOp == <<0, 0>>

GInit == gu \in AccUnivs /\ ops = <<>> /\ done = FALSE
GSample == /\ ~done /\ NSamples < MaxS(gu)
           /\ \E g \in G, v \in Vals(gu) : ops' = Append(ops, <<g, v>>)
           /\ UNCHANGED <<gu, done>>
\* a display in the middle (once, not before the first sample)
GMid == /\ ~done /\ NLists = 0 /\ NSamples >= 1 /\ NSamples < MaxS(gu)
        /\ ops' = Append(ops, ListOp) /\ UNCHANGED <<gu, done>>
\* the final display
GEnd == /\ ~done /\ NSamples >= 2 /\ ~IsList(ops[Len(ops)])
        /\ ops' = Append(ops, ListOp) /\ done' = TRUE /\ UNCHANGED gu
GNext == GSample \/ GMid \/ GEnd

RowSeq(rows) == [g \in G |-> <<rows[g].s, rows[g].c, rows[g].m>>]
ExprSeq == <<"none", "key", "sum", "cnt", "max", "negsum">>
RankRec(rev, rows) == [k \in 1..Len(ExprSeq) |-> Ranks(gu, ExprSeq[k], rev, rows)]
ListAt(k) == LET rows == RowsOf(SubSeq(ops, 1, k)) IN
  [at |-> k, rows |-> RowSeq(rows), ranks |-> RankRec(FALSE, rows), rranks |-> RankRec(TRUE, rows),
   ties |-> [x \in 1..Len(ExprSeq) |-> HasTies(gu, ExprSeq[x], rows)]]
ListIdx == SelectSeq([k \in 1..Len(ops) |-> k], LAMBDA k : IsList(ops[k]))
Vec == [univ |-> gu, names |-> GroupNames(gu), exprs |-> ExprSeq, ops |-> ops,
        lists |-> [x \in 1..Len(ListIdx) |-> ListAt(ListIdx[x])]]
Dump == done => PrintT("VFJ " \o ToJson(Vec))
=============================================================================

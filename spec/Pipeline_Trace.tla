--------------------------- MODULE Pipeline_Trace ---------------------------
(* B2: validates recorded executions of the REAL pipeline (harness/pipe) against   *)
(* the abstract pipeline specification (PipelineObs level: a bag of lines moves    *)
(* unread -> in flight -> classified -> emitted).  Bound to observables only:      *)
(*   batch  - a batch left the batcher: it must be the next contiguous segment of  *)
(*            its source (nothing skipped, repeated or invented);                   *)
(*   proc   - a worker ran the matcher on a line: the line must be in flight        *)
(*            (exactly once) and the matcher's verdict must be the sequential one; *)
(*   ign    - the ignore set was consulted: its answer must be "SOME expression    *)
(*            value is truthy", values and key must equal the sequential ones;     *)
(*   recv   - the consumer received matches: each must be a line classified as     *)
(*            matched and not yet emitted, carrying its sequential key;            *)
(*   final  - channel closed: every source fully batched, nothing in flight,       *)
(*            nothing pending, and the three totals equal the model's counts;      *)
(*   sum    - summary form (big runs, the CLI): totals and the emitted key         *)
(*            multiset against the counts the spec derives from the inputs.        *)
(* The class of a line is recomputed HERE (Classify, TruthyAscii) from the logged  *)
(* facts (matcher verdict, ignore values, key); batch sizes, worker identities and *)
(* channel depths are not constrained (a behaviour-preserving refactoring passes). *)
(* Many traces are concatenated; a trace the spec cannot explain is recorded in    *)
(* `bad` (trace id, line number of the rejected record) and skipped.               *)
EXTENDS Integers, Sequences, FiniteSets, FiniteSetsExt, TLC, Json

Trace == ndJsonDeserialize("trace.ndjson")

\* the classification rule, shared with Pipeline/PipelineObs
P == INSTANCE PipelineLines WITH Lines <- <<>>

VARIABLES l, tid, bad, phase, cls, files, pos, infl, pend, cnt
tvars == <<l, tid, bad, phase, cls, files, pos, infl, pend, cnt>>

Ev == Trace[l]
IsEv(e) == l <= Len(Trace) /\ Ev.event = e /\ l' = l + 1

Truth(vs) == [i \in DOMAIN vs |-> P!TruthyAscii(vs[i])]
ClassOfCid(c) == P!Classify(cls[c].m = 1, Truth(cls[c].ig), cls[c].key = <<>>)
B2I(b) == IF b THEN 1 ELSE 0
Zero == [read |-> 0, matched |-> 0, ignored |-> 0]

TReset ==
  /\ IsEv("reset")
  /\ tid' = Ev.t /\ phase' = "hdr"
  /\ cls' = <<>> /\ files' = <<>> /\ pos' = <<>> /\ infl' = <<>> /\ pend' = <<>> /\ cnt' = Zero
  \* the previous trace must have been completed
  /\ bad' = IF phase \in {"init", "done"} THEN bad ELSE Append(bad, [t |-> tid, l |-> l])

\* Every event has a guard XOk (a predicate on the current state and the record: does the
\* specification allow this observation now?) and an effect XDo.  (The guards are kept free of
\* primes so that the rejection test needs no ENABLED.)

\* ---- cls: reference facts of one line content
ClsOk == /\ phase = "hdr"
         /\ Ev.cid \notin DOMAIN cls
         /\ \A i \in DOMAIN Ev.ig : P!AsciiOnly(Ev.ig[i])        \* domain of the truthiness rule
ClsDo == /\ cls' = (Ev.cid :> [m |-> Ev.m, ig |-> Ev.ig, key |-> Ev.key]) @@ cls
         /\ infl' = (Ev.cid :> 0) @@ infl
         /\ pend' = (Ev.cid :> 0) @@ pend
         /\ UNCHANGED <<tid, phase, files, pos, cnt>>

\* ---- file: the true lines of source f
FileOk == /\ phase = "hdr"
          /\ Ev.f = Len(files) + 1
          /\ \A i \in DOMAIN Ev.lines : Ev.lines[i] \in DOMAIN cls
FileDo == /\ files' = Append(files, Ev.lines)
          /\ pos' = Append(pos, 0)
          /\ UNCHANGED <<tid, phase, cls, infl, pend, cnt>>

\* ---- batch: the next contiguous segment of source f left the batcher
\* (C02 additionally requires Ev.start = pos[f] + 1: StartOK below)
BatchOk == /\ phase \in {"hdr", "run"}
           /\ Ev.f \in 1..Len(files)
           /\ Len(Ev.lines) >= 1
           /\ pos[Ev.f] + Len(Ev.lines) <= Len(files[Ev.f])
           /\ Ev.lines = SubSeq(files[Ev.f], pos[Ev.f] + 1, pos[Ev.f] + Len(Ev.lines))
BatchDo == LET n == Len(Ev.lines)
               used == {Ev.lines[i] : i \in 1..n} IN
           /\ pos' = [pos EXCEPT ![Ev.f] = @ + n]
           /\ infl' = [c \in DOMAIN infl |->
                         IF c \in used THEN infl[c] + Cardinality({i \in 1..n : Ev.lines[i] = c}) ELSE infl[c]]
           /\ phase' = "run"
           /\ UNCHANGED <<tid, cls, files, pend, cnt>>

\* ---- proc: a worker ran the matcher on a line
ProcOk == /\ phase = "run"
          /\ Ev.cid \in DOMAIN infl /\ infl[Ev.cid] > 0              \* read, and not processed before
          /\ Ev.m = cls[Ev.cid].m                                    \* matcher verdict = sequential verdict
ProcDo == LET c == ClassOfCid(Ev.cid) IN
          /\ infl' = [infl EXCEPT ![Ev.cid] = @ - 1]
          /\ cnt' = [read |-> cnt.read + 1,
                     matched |-> cnt.matched + B2I(c = "matched"),
                     ignored |-> cnt.ignored + B2I(c = "ignored")]
          /\ pend' = IF c = "matched" THEN [pend EXCEPT ![Ev.cid] = @ + 1] ELSE pend
          /\ UNCHANGED <<tid, phase, cls, files, pos>>

\* ---- ign: the ignore set was consulted
IgnOk == /\ phase = "run"
         /\ Ev.full = 1 =>
              /\ \A i \in DOMAIN Ev.vals : P!AsciiOnly(Ev.vals[i])
              /\ Ev.res = B2I(\E i \in DOMAIN Ev.vals : P!TruthyAscii(Ev.vals[i]))   \* ANY expression truthy
         /\ Ev.cid # -1 =>
              /\ Ev.cid \in DOMAIN cls
              /\ cls[Ev.cid].m = 1
              /\ Ev.key = cls[Ev.cid].key
              /\ Ev.full = 1 => Ev.vals = cls[Ev.cid].ig
IgnDo == UNCHANGED <<tid, phase, cls, files, pos, infl, pend, cnt>>

\* ---- recv: every received match is a pending (classified as matched, not yet emitted) line
\*      carrying its sequential key
RecvN(c) == Cardinality({i \in DOMAIN Ev.ms : Ev.ms[i].cid = c})
RecvUsed == {Ev.ms[i].cid : i \in DOMAIN Ev.ms}
RecvOk == /\ phase = "run"
          /\ Len(Ev.ms) >= 1
          /\ \A i \in DOMAIN Ev.ms : /\ Ev.ms[i].cid \in DOMAIN pend
                                     /\ Ev.ms[i].key = cls[Ev.ms[i].cid].key
          /\ \A c \in RecvUsed : RecvN(c) <= pend[c]
RecvDo == /\ pend' = [c \in DOMAIN pend |-> IF c \in RecvUsed THEN pend[c] - RecvN(c) ELSE pend[c]]
          /\ UNCHANGED <<tid, phase, cls, files, pos, infl, cnt>>

\* ---- final: the consumer saw the channel closed and read the totals
FinalOk == /\ phase \in {"hdr", "run"}
           /\ \A f \in DOMAIN files : pos[f] = Len(files[f])           \* every line was read
           /\ \A c \in DOMAIN infl : infl[c] = 0                       \* ... and classified
           /\ \A c \in DOMAIN pend : pend[c] = 0                       \* ... and every matched line emitted
           /\ Ev.read = cnt.read /\ Ev.matched = cnt.matched /\ Ev.ignored = cnt.ignored
FinalDo == phase' = "done" /\ UNCHANGED <<tid, cls, files, pos, infl, pend, cnt>>

\* ---- sum: summary form, expectations derived from the inputs alone
\* number of input lines whose content satisfies Pred (the number of sources is small, files may be long)
CountLines(Pred(_)) ==
  LET per == [f \in DOMAIN files |-> Cardinality({i \in DOMAIN files[f] : Pred(files[f][i])})]
      RECURSIVE Sum(_)
      Sum(f) == IF f = 0 THEN 0 ELSE per[f] + Sum(f - 1)
  IN Sum(Len(files))
SumOk ==
  /\ phase = "hdr"
  /\ LET kls == [c \in DOMAIN cls |-> ClassOfCid(c)]
         IsM(c) == kls[c] = "matched"
     IN /\ Ev.read = CountLines(LAMBDA c : TRUE)
        /\ Ev.matched = CountLines(IsM)
        /\ Ev.ignored = CountLines(LAMBDA c : kls[c] = "ignored")
        \* the emitted key multiset equals the one of the sequential evaluation
        /\ \A i \in DOMAIN Ev.out :
              /\ Ev.out[i].n > 0
              /\ Ev.out[i].n = CountLines(LAMBDA c : IsM(c) /\ cls[c].key = Ev.out[i].k)
              /\ \A j \in DOMAIN Ev.out : Ev.out[j].k = Ev.out[i].k => i = j
        /\ \A f \in DOMAIN files : \A i \in DOMAIN files[f] :
              IsM(files[f][i]) => \E j \in DOMAIN Ev.out : Ev.out[j].k = cls[files[f][i]].key
SumDo == phase' = "done" /\ UNCHANGED <<tid, cls, files, pos, infl, pend, cnt>>

StepOk ==
  CASE Ev.event = "cls"   -> ClsOk
    [] Ev.event = "file"  -> FileOk
    [] Ev.event = "batch" -> BatchOk
    [] Ev.event = "proc"  -> ProcOk
    [] Ev.event = "ign"   -> IgnOk
    [] Ev.event = "recv"  -> RecvOk
    [] Ev.event = "final" -> FinalOk
    [] Ev.event = "sum"   -> SumOk
    [] OTHER -> FALSE                     \* e.g. "hang", "nosummary": the run did not complete
StepDo ==
  CASE Ev.event = "cls"   -> ClsDo
    [] Ev.event = "file"  -> FileDo
    [] Ev.event = "batch" -> BatchDo
    [] Ev.event = "proc"  -> ProcDo
    [] Ev.event = "ign"   -> IgnDo
    [] Ev.event = "recv"  -> RecvDo
    [] Ev.event = "final" -> FinalDo
    [] Ev.event = "sum"   -> SumDo

NextReset(i) == LET S == {j \in i..Len(Trace) : Trace[j].event = "reset"}
                IN IF S = {} THEN Len(Trace) + 1 ELSE Min(S)

TStep ==
  /\ l <= Len(Trace) /\ Ev.event # "reset"
  /\ IF StepOk
     THEN l' = l + 1 /\ StepDo /\ UNCHANGED bad
     ELSE \* the specification cannot explain this record: report it, skip the rest of the trace
          /\ bad' = Append(bad, [t |-> tid, l |-> l])
          /\ l' = NextReset(l + 1)
          /\ phase' = "done"
          /\ UNCHANGED <<tid, cls, files, pos, infl, pend, cnt>>

TInit == /\ l = 1 /\ tid = 0 /\ bad = <<>> /\ phase = "init"
         /\ cls = <<>> /\ files = <<>> /\ pos = <<>> /\ infl = <<>> /\ pend = <<>> /\ cnt = Zero
TNext == TReset \/ TStep
TSpec == TInit /\ [][TNext]_tvars

\* C02 reuses this module: line numbers of batches and matches
StartOK == (l <= Len(Trace) /\ Ev.event = "batch" /\ Ev.f \in 1..Len(files)) => Ev.start = pos[Ev.f] + 1

Final == (l = Len(Trace) + 1) =>
  JsonSerialize("bad.json", [bad |-> bad, consumed |-> l - 1, done |-> (phase \in {"init", "done"})])
=============================================================================

----------------------------- MODULE RareText_MC -----------------------------
(* C03, B3 -- laws of the text-level operators Rare.tla is built on, checked by  *)
(* TLC over every small input.                                                   *)
(* One run: the state is x = <<mode, value>>, every law speaks about its mode.    *)
(* The negative controls (mode "splitter1": a cursor advancing ONE byte; mode     *)
(* "layout1": {line} judged without the layout) are invariants that TLC, run      *)
(* with -continue, must report violated.                                          *)
(*  Mode "dissect":  Caps of the "dis" matcher = the captures of the dissect     *)
(*     specification (Dissect.tla, C12) for the pattern %{k}|%{s}|%{v}, for      *)
(*     every line over {a, b, |} up to length MaxN.                              *)
(*  Mode "splitter": the aggregators take an element apart with                  *)
(*     pkg/stringSplitter (a cursor: Next returns the text up to the next        *)
(*     occurrence of the delimiter and moves the cursor behind it).  For every   *)
(*     text over {a, :, -} up to length MaxN and every delimiter of 1..3 bytes   *)
(*     the parts the cursor yields with Adv = len(delimiter) are PartsD          *)
(*     (law SplitterRefines); with Adv = 1 - the seeded change - they are not    *)
(*     (negative control, must be REFUTED), although they are for every          *)
(*     one-byte delimiter (OneByteBlind: why NUL-separated runs cannot see it).  *)
(*  Mode "delim":    for every corpus of <= MaxN triples over fields that hold   *)
(*     no delimiter byte, table / heatmap / spark give the same CSV whatever     *)
(*     the --delim (NUL, ';', '::', ' - ', U+2192).                              *)
(*  Mode "layout":   a command without {line} / {src} has the same reference     *)
(*     aggregate for every division of the corpus among sources and every        *)
(*     order of an order-free command's sources (ExpectLay = Expect); with       *)
(*     {line} it has not (negative control LayoutBlind must be REFUTED).         *)
EXTENDS Rare

CONSTANTS MaxN

D == INSTANCE Dissect

VARIABLE x
CNext == UNCHANGED x

Strs(A, n) == UNION {[1..k -> A] : k \in 0..n}

-----------------------------------------------------------------------------
\* dissect
P_dis == <<37, 123, 107, 125, 124, 37, 123, 115, 125, 124, 37, 123, 118, 125>>     \* %{k}|%{s}|%{v}
DisCd == [cmd |-> "histogram", mt |-> "dis", ext |-> <<1>>, delim |-> <<>>, ig |-> 0, iv |-> <<>>, grp |-> 0, acc |-> <<>>]
DissectAgree ==
  x[1] = "dissect" =>
  LET pat == D!Compiled(P_dis)
      r   == D!Match(pat, x[2])
      c   == Caps(DisCd, x[2])
  IN /\ D!Compiles(P_dis)
     /\ c.ok = (r # D!Nil)
     /\ c.ok => \A g \in 0..3 : c.g[g + 1] = D!GroupText(x[2], r, g)

-----------------------------------------------------------------------------
\* the cursor of pkg/stringSplitter: [next] is the 0-based offset of the rest, -1 = done
RECURSIVE Cursor(_, _, _, _)
Cursor(s, d, next, adv) ==
  IF next < 0 THEN <<>>
  ELSE LET rest == SubSeq(s, next + 1, Len(s))
           idx  == IndexOf(rest, d)                  \* 1-based, 0 = none
       IN IF idx = 0 THEN <<rest>>
          ELSE <<SubSeq(rest, 1, idx - 1)>> \o Cursor(s, d, next + (idx - 1) + adv, adv)
\* x[2] = <<text, delimiter>>
SplitterRefines == x[1] = "splitter" => Cursor(x[2][1], x[2][2], 0, Len(x[2][2])) = PartsD(x[2][1], x[2][2])
OneByteBlind == (x[1] = "splitter" /\ Len(x[2][2]) = 1) => Cursor(x[2][1], x[2][2], 0, 1) = PartsD(x[2][1], x[2][2])
Refuted_adv1 == x[1] = "splitter1" => Cursor(x[2][1], x[2][2], 0, 1) = PartsD(x[2][1], x[2][2])

-----------------------------------------------------------------------------
\* --delim
Delims == << <<>>, <<59>>, <<58, 58>>, <<32, 45, 32>>, <<226, 134, 146>> >>
TabCd(d) == [cmd |-> "table", mt |-> "re", ext |-> <<1, 2, 3>>, delim |-> d, ig |-> 0, iv |-> <<>>, grp |-> 0, acc |-> <<>>]
TPool == << <<97, 124, 120, 124, 50>>,          \* a|x|2
            <<98, 124, 120, 124, 49>>,          \* b|x|1
            <<97, 124, 124, 51>>,               \* a||3      empty row key
            <<98, 124, 121, 124, 113>>,         \* b|y|q     increment does not parse
            <<97, 44, 124, 121, 32, 124, 45, 49>> >>   \* a,|y |-1
CsvFor(d, sq) == LET cd == TabCd(d) IN TableCsv(RefAgg(cd, [i \in 1..Len(sq) |-> TPool[sq[i]]]))
ErrFor(d, sq) == LET cd == TabCd(d) IN RefAgg(cd, [i \in 1..Len(sq) |-> TPool[sq[i]]]).err
DelimInvariant == x[1] = "delim" =>
  \A i \in 2..Len(Delims) : CsvFor(Delims[i], x[2]) = CsvFor(Delims[1], x[2]) /\ ErrFor(Delims[i], x[2]) = ErrFor(Delims[1], x[2])

-----------------------------------------------------------------------------
\* layouts: x = <<sequence over LPool, cut, swapped>>
LPool == << <<97, 124, 120, 124, 49>>, <<98, 124, 121, 124, 50>>, <<106>>, <<97, 124, 121, 124, 51>> >>
LCmds == << [cmd |-> "histogram", mt |-> "ren", ext |-> <<6, 3>>, delim |-> <<>>, ig |-> 0, iv |-> <<>>, grp |-> 0, acc |-> <<>>],
            [cmd |-> "table", mt |-> "dis", ext |-> <<1, 2, 3>>, delim |-> <<58, 58>>, ig |-> 2, iv |-> <<121>>, grp |-> 0, acc |-> <<>>],
            [cmd |-> "reduce", mt |-> "re", ext |-> <<1, 2, 3>>, delim |-> <<>>, ig |-> 0, iv |-> <<>>, grp |-> 1, acc |-> <<"sum", "max">>] >>
LineCmd == [cmd |-> "histogram", mt |-> "re", ext |-> <<4>>, delim |-> <<>>, ig |-> 0, iv |-> <<>>, grp |-> 0, acc |-> <<>>]
Rec(c, sq) == [pool |-> LPool, seq |-> sq, cmd |-> c.cmd, mt |-> c.mt, ext |-> c.ext, delim |-> c.delim, ig |-> c.ig, iv |-> c.iv,
               grp |-> c.grp, acc |-> c.acc, gname |-> <<107>>, anames |-> [i \in 1..Len(c.acc) |-> <<110>>]]
\* x[2] = <<sequence over LPool, cut, swapped>>
LayX == LET n == Len(x[2][1])
            a == [name |-> <<102, 48>>, lo |-> 1, hi |-> x[2][2]]
            b == [name |-> <<102, 49>>, lo |-> x[2][2] + 1, hi |-> n]
        IN IF x[2][3] THEN <<b, a>> ELSE <<a, b>>
Same(e1, e2) == e1.agg = e2.agg /\ e1.csv = e2.csv /\ e1.nums = e2.nums /\ e1.perr = e2.perr
LayoutFree == x[1] = "layout" => \A i \in 1..Len(LCmds) :
                 LET e == ExpectLay(Rec(LCmds[i], x[2][1]), LayX)
                 IN LayoutOK(LayX, Len(x[2][1])) /\ e.selfok /\ Same(e, Expect(Rec(LCmds[i], x[2][1])))
Refuted_layoutblind == x[1] = "layout1" =>
   Same(ExpectLay(Rec(LineCmd, x[2][1]), LayX), ExpectLay(Rec(LineCmd, x[2][1]), <<[name |-> <<102, 48>>, lo |-> 1, hi |-> Len(x[2][1])]>>))

-----------------------------------------------------------------------------
Seqs(P, n) == UNION {[1..k -> 1..P] : k \in 0..n}
CInit ==
  \/ x \in {"dissect"} \X Strs({97, 98, 124}, MaxN + 1)
  \/ x \in {"splitter"} \X (Strs({97, 58, 45}, MaxN) \X (Strs({58, 45}, 3) \ {<<>>}))
  \/ x \in {"splitter1"} \X (Strs({97, 58}, 3) \X {<<58>>, <<58, 58>>})
  \/ x \in {"delim"} \X Seqs(Len(TPool), 3)
  \/ x \in {"layout"} \X {t \in Seqs(Len(LPool), 3) \X (0..3) \X BOOLEAN : t[2] <= Len(t[1])}
  \/ x \in {"layout1"} \X {t \in Seqs(Len(LPool), 2) \X (0..2) \X {FALSE} : t[2] <= Len(t[1])}
=============================================================================

------------------------------ MODULE AggSplit ------------------------------
(* C07 - the field splitter of the aggregators (pkg/stringSplitter).              *)
(*                                                                                *)
(* Every count-style aggregator takes its sample apart with one Splitter{S,       *)
(* Delim}: histogram counter, sub-key counter and accumulating group with the     *)
(* one-byte delimiter NUL, the table with the delimiter it was CONSTRUCTED with   *)
(* (aggregation.NewTable(delim), CLI --delim): any byte sequence of length >= 1   *)
(* ("::", ", ", a multi-byte UTF-8 character, ...).                               *)
(*                                                                                *)
(* Abstract layer: Fields(s, d) = the texts between the LEFTMOST, NON-OVERLAPPING *)
(* occurrences of the whole sequence d in s (Bytes!SplitSeq), given a second time *)
(* declaratively (IsCuts: which occurrence positions are the cuts) - TLC checks   *)
(* that the recursive and the declarative reading agree and that the cut list is  *)
(* unique, plus the algebra the aggregators rely on: Join o Split = id on every   *)
(* string, Split o Join = id on the field lists whose joined text has no          *)
(* occurrence off the joints, no field contains the delimiter, one field more     *)
(* than cuts, one-byte delimiters = Bytes!SplitOn.                                *)
(*                                                                                *)
(* Implementation-shaped layer: the Splitter object [S, Delim, next] with Next /  *)
(* NextOk / Done, written like splitter.go, under a constant `variant`:           *)
(*   "index"     the code: search the whole delimiter, advance by its length      *)
(*   "cut"       behaviour-preserving rewrite (strings.Cut, advance by            *)
(*               len(ret) + len(Delim))                              - must pass  *)
(*   "firstbyte" search the delimiter's FIRST BYTE only, advance by its length    *)
(*   "advance1"  search the whole delimiter, advance by ONE byte                  *)
(*   "anybyte"   the delimiter read as a SET of bytes (IndexAny), advance by one  *)
(* The last three are negative controls: equal to the code for every one-byte     *)
(* delimiter, refuted by TLC as soon as the delimiter has two bytes.              *)
EXTENDS Bytes, TLC

\* ------------------------------------------------------------ abstract layer
\* domain: Len(d) >= 1 (an empty delimiter is outside the specification)
Fields(s, d) == SplitSeq(s, d)

\* all positions (1-based) where d occurs in s - overlapping ones included
Occs(s, d) == {i \in 1..(Len(s) - Len(d) + 1) : OccursAt(s, d, i)}

\* the cuts, computed as the code does: leftmost occurrence at or after the cursor, cursor past it
RECURSIVE CutsFrom(_, _, _)
CutsFrom(s, d, from) ==
  LET i == IndexFrom(s, d, from) IN IF i = 0 THEN <<>> ELSE <<i>> \o CutsFrom(s, d, i + Len(d))
Cuts(s, d) == CutsFrom(s, d, 1)

\* the cuts, said declaratively: c is an increasing list of occurrence positions such that
\* field k starts where cut k-1 ended, cut k is the first occurrence that starts in field k's
\* territory, and nothing occurs after the last cut
FieldStart(d, c, k) == IF k = 1 THEN 1 ELSE c[k - 1] + Len(d)
IsCuts(s, d, c) ==
  /\ \A k \in 1..Len(c) : c[k] \in Occs(s, d) /\ c[k] >= FieldStart(d, c, k)          \* non-overlapping
  /\ \A k \in 1..Len(c) : \A i \in Occs(s, d) : ~(FieldStart(d, c, k) <= i /\ i < c[k])  \* leftmost
  /\ \A i \in Occs(s, d) : i < FieldStart(d, c, Len(c) + 1)                            \* none left over
FieldsOf(s, d, c) ==
  [k \in 1..(Len(c) + 1) |-> SubSeq(s, FieldStart(d, c, k), IF k = Len(c) + 1 THEN Len(s) ELSE c[k] - 1)]

\* the laws of one (string, delimiter) pair
SplitLawAt(s, d) ==
  LET F == Fields(s, d)
      c == Cuts(s, d)
  IN /\ JoinSeq(F, d) = s                                        \* Join o Split = id
     /\ \A k \in 1..Len(F) : ~ContainsSub(F[k], d)               \* no field contains the delimiter
     /\ Len(F) = Len(c) + 1 /\ Len(F) >= 1
     /\ IsCuts(s, d, c)
     /\ \A C \in SUBSET Occs(s, d) :                             \* ... and it is the only such list
          LET cc == SetToSortSeq(C, LAMBDA a, b : a < b) IN IsCuts(s, d, cc) => cc = c
     /\ F = FieldsOf(s, d, c)
     /\ (Occs(s, d) = {}) <=> (F = <<s>>)
     /\ Len(d) = 1 => F = SplitOn(s, d[1])                       \* the one-byte case of Bytes.tla

\* field lists (at least one field).  Where the delimiters were put by Join:
RECURSIVE JointsFrom(_, _, _, _)
JointsFrom(f, d, k, pos) ==
  IF k >= Len(f) THEN {} ELSE {pos + Len(f[k])} \cup JointsFrom(f, d, k + 1, pos + Len(f[k]) + Len(d))
Joints(f, d) == JointsFrom(f, d, 1, 1)
FieldsFree(f, d) == \A k \in 1..Len(f) : ~ContainsSub(f[k], d)
\* the joined text shows the delimiter at the joints and nowhere else
NoStraddle(f, d) == Occs(JoinSeq(f, d), d) = Joints(f, d)
JoinLawAt(f, d) ==
  /\ NoStraddle(f, d) => Fields(JoinSeq(f, d), d) = f            \* Split o Join = id
  /\ NoStraddle(f, d) => FieldsFree(f, d)
  /\ Fields(JoinSeq(f, d), d) = f => FieldsFree(f, d)
  /\ Len(d) = 1 => (FieldsFree(f, d) <=> NoStraddle(f, d))       \* one byte: "fields without the delimiter" is enough
\* NOT a law for longer delimiters (fields "a", "" joined by "aa" read back as "", "a"): TLC must refute it
NaiveJoinLawAt(f, d) == FieldsFree(f, d) => Fields(JoinSeq(f, d), d) = f

\* -------------------------------------------------- implementation-shaped layer
\* type Splitter struct { S, Delim string; next int }   (next: 0-based cursor, < 0 = exhausted)
SpNew(s, d) == [S |-> s, Delim |-> d, next |-> 0]
PANIC == <<-1>>          \* what a slice out of range "returns": equal to no byte string
SpDone(sp) == sp.next < 0
\* 0-based offset of the delimiter in rest, -1 if there is none
SpSearch(variant, rest, d) ==
  CASE variant = "firstbyte" -> IndexByte(rest, d[1]) - 1
    [] variant = "anybyte"   -> LET S == {i \in 1..Len(rest) : \E j \in 1..Len(d) : rest[i] = d[j]}
                                IN IF S = {} THEN -1 ELSE MinOf(S) - 1
    [] OTHER                 -> IndexOf(rest, d) - 1
SpNext(variant, sp) ==
  IF sp.next < 0 THEN [ret |-> <<>>, sp |-> sp]
  ELSE IF sp.next > Len(sp.S) THEN [ret |-> PANIC, sp |-> [sp EXCEPT !.next = -1]]
  ELSE LET rest == DropFirst(sp.S, sp.next)
           idx  == SpSearch(variant, rest, sp.Delim)
       IN IF idx < 0 THEN [ret |-> rest, sp |-> [sp EXCEPT !.next = -1]]
          ELSE LET ret == SubSeq(rest, 1, idx)
                   nx  == CASE variant \in {"advance1", "anybyte"} -> sp.next + Len(ret) + 1
                            [] variant = "cut"                     -> sp.next + Len(ret) + Len(sp.Delim)
                            [] OTHER                               -> (idx + sp.next) + Len(sp.Delim)
               IN [ret |-> ret, sp |-> [sp EXCEPT !.next = nx]]
\* NextOk: ok = there was something left BEFORE the call
SpNextOk(variant, sp) == LET r == SpNext(variant, sp) IN [ret |-> r.ret, ok |-> ~SpDone(sp), sp |-> r.sp]

\* the first n NextOk calls on a new splitter (Next is NextOk without the flag)
RECURSIVE SpCallsFrom(_, _, _)
SpCallsFrom(variant, sp, n) ==
  IF n = 0 THEN <<>>
  ELSE LET r == SpNextOk(variant, sp) IN <<[ret |-> r.ret, ok |-> r.ok]>> \o SpCallsFrom(variant, r.sp, n - 1)
SpCalls(variant, s, d, n) == SpCallsFrom(variant, SpNew(s, d), n)
\* everything Next returns until Done (never more calls than a correct splitter could need)
RECURSIVE SpDrainFrom(_, _, _)
SpDrainFrom(variant, sp, fuel) ==
  IF SpDone(sp) \/ fuel = 0 THEN <<>>
  ELSE LET r == SpNext(variant, sp) IN <<r.ret>> \o SpDrainFrom(variant, r.sp, fuel - 1)
SpFields(variant, s, d) == SpDrainFrom(variant, SpNew(s, d), Len(s) + 2)

\* what the k-th call (k >= 1) and Done after k calls must answer, by the abstract layer
CallRet(F, k) == IF k <= Len(F) THEN F[k] ELSE <<>>
CallOk(F, k) == k <= Len(F)
DoneAfter(F, k) == k >= Len(F)
=============================================================================

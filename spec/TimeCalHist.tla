----------------------------- MODULE TimeCalHist -----------------------------
(* C18 over evaluation HISTORIES of one compiled expression.                       *)
(*                                                                                 *)
(* rare compiles an expression once and evaluates it for every match, from several *)
(* goroutines.  TimeCal.Expect says what ONE evaluation of a time helper returns;  *)
(* this module says what a SEQUENCE of evaluations of the same compiled expression *)
(* returns:                                                                        *)
(*   - every helper except format detection is a function of its arguments only:   *)
(*     the i-th answer is Expect(call on the i-th input) whatever was evaluated     *)
(*     before it (Step leaves the state alone);                                    *)
(*   - `time` / `buckettime` with the format omitted or "cache" carry exactly the   *)
(*     state the documentation describes - "the first seen date will determine the *)
(*     format for all dates going forward": `live` is "" until the first date, then *)
(*     the shape of that date for ever; later texts are read with that layout (a    *)
(*     text of another shape is unparseable: the error marker); "auto" detects on   *)
(*     every evaluation and is stateless.                                          *)
(* Memo models (MemoStep) are implementation-shaped variants used by TimeCalHist_MC *)
(* as controls: a memo of the last answer keyed by the LOCAL day refines the law,   *)
(* a memo keyed by the UTC day (or by the hour for a layout that prints minutes)    *)
(* does not.                                                                       *)
(* The adversarial input pools (Pool*, around local midnights that are week /       *)
(* quarter / year / ISO-year boundaries, around UTC midnight, around DST changes)   *)
(* are shared by the model check and by the B1 generator.                           *)
EXTENDS TimeCal

\* ---------------------------------------------------------------- expressions and steps
\* a compiled expression: a call without its principal argument
MkE(f, n, fmt, z, b) == [f |-> f, n |-> n, fmt |-> fmt, z |-> z, b |-> b]
CallOf(e, x) == [f |-> e.f, n |-> e.n, x |-> x, fmt |-> e.fmt, z |-> e.z, b |-> e.b]

\* does the compiled expression remember the detected format?  (only when nothing else is wrong with it)
Remembers(e) ==
  /\ e.f \in {"time", "buckettime"} /\ (~HasFmt(e) \/ e.fmt \in {"cache", ""})
  /\ Modelled(Zone(EffZone(e)))
  /\ (e.f = "buckettime" => BucketKind(e.b) # "none")

\* the same expression with the layout of shape sh written out
Explicit(e, sh) == [f |-> e.f, n |-> ZoneArgPos(e.f), fmt |-> ShapeFormat(sh), z |-> EffZone(e), b |-> e.b]

\* one evaluation: what must come out, and the state afterwards
\*   live = ""  : no date seen yet      live = "?" : unknown (a text outside the specified shapes was seen first)
Step(e, live, x) ==
  IF ~Remembers(e) THEN [exp |-> Expect(CallOf(e, x)), live |-> live]
  ELSE IF x = <<>> THEN [exp |-> Val(mPARSE), live |-> live]
  ELSE LET sh == DetectShape(x) IN
    IF live = "" THEN
       IF sh # "" THEN [exp |-> Expect(CallOf(Explicit(e, sh), x)), live |-> sh]
       ELSE IF Garbage(x) THEN [exp |-> Val(mPARSE), live |-> ""]
       ELSE [exp |-> AnyV, live |-> "?"]
    ELSE IF live = "?" THEN [exp |-> AnyV, live |-> "?"]
    ELSE IF sh = live THEN [exp |-> Expect(CallOf(Explicit(e, live), x)), live |-> live]
    ELSE IF Garbage(x) \/ (sh # "" /\ ~SameFamily(sh, live)) THEN [exp |-> Val(mPARSE), live |-> live]
    ELSE [exp |-> AnyV, live |-> live]

\* the expectations of a whole history (sequence of inputs) from the state live
RECURSIVE Run(_, _, _)
Run(e, live, xs) ==
  IF xs = <<>> THEN <<>>
  ELSE LET s == Step(e, live, xs[1]) IN <<s.exp>> \o Run(e, s.live, Tail(xs))

Fresh(e, x) == Step(e, "", x).exp          \* the answer of a freshly compiled expression

\* ---------------------------------------------------------------- memo models (controls)
NoMemo == [key |-> <<>>, val |-> AnyV]
ZoneOfE(e) == Zone(EffZone(e))
\* the key under which a memo of kind mk files the input x of expression e (<<>>: not memoised)
MemoKey(mk, e, x) ==
  LET i == InstOfDigits(x) IN
  IF e.f \notin {"timeattr", "timeformat"} \/ ~ParseIntOK(x) \/ ~i.ok \/ ~InZoneDomain(ZoneOfE(e), i.t) THEN <<>>
  ELSE CASE mk = "utcday"   -> IF e.f = "timeattr" THEN <<i.t.d>> ELSE <<>>                         \* exact in UTC only
         [] mk = "localday" -> IF e.f = "timeattr" THEN <<Local(ZoneOfE(e), i.t).ld>> ELSE <<>>     \* exact in every zone
         [] mk = "hour"     -> IF e.f = "timeformat" THEN <<i.t.d, i.t.s \div 3600>> ELSE <<>>      \* exact for no layout with minutes
         [] OTHER           -> <<>>
\* an implementation that keeps its last answer: [out, live, memo]
MemoStep(mk, e, live, memo, x) ==
  LET k == MemoKey(mk, e, x) s == Step(e, live, x) IN
  IF k # <<>> /\ memo.key = k THEN [out |-> memo.val, live |-> live, memo |-> memo]
  ELSE [out |-> s.exp, live |-> s.live, memo |-> IF k = <<>> THEN memo ELSE [key |-> k, val |-> s.exp]]

\* an implementation of "cache" that detects again when the remembered layout fails (control: violates FirstSeen)
RelearnStep(e, live, x) ==
  LET s == Step(e, live, x) IN
  IF Remembers(e) /\ live \notin {"", "?"} /\ s.exp = Val(mPARSE) /\ DetectShape(x) # ""
  THEN Step(e, "", x) ELSE s

\* ---------------------------------------------------------------- adversarial instants
\* around the local midnight m (an instant) of a zone: both sides of it to the second, the same minute, the same
\* hour, the next hour, and both sides of the nearest UTC midnight
PoolMidnight(m) ==
  LET u == IF m.s < 43200 THEN Inst(m.d, 0) ELSE Inst(m.d + 1, 0) IN
  {Plus(m, 0 - 1), m, Plus(m, 1), Plus(m, 1799), Plus(m, 3600), Plus(u, 0 - 1), u}
\* around a DST change t: the hour before (same wall clock on the way back), both sides, the hour after
PoolDst(t) == {Plus(t, 0 - 3601), Plus(t, 0 - 3600), Plus(t, 0 - 1), t, Plus(t, 1800), Plus(t, 3600), Plus(t, 86400)}
\* far apart but alike: a week, 52 weeks, a (non-leap) year later
PoolFar(m) == {Plus(m, 0 - 1), m, Plus(m, 7 * 86400), Plus(m, 364 * 86400), Plus(m, 365 * 86400), Plus(m, 0 - 7 * 86400)}

\* local midnights of zone zd that start the local date (y, mo, d): one per offset of the zone that is in force there
Midnights(zd, day) ==
  {m \in {Norm(day, 0 - off) : off \in {zd.std, zd.dst}} : InZoneDomain(zd, m) /\ InZoneDomain(zd, Plus(m, 0 - 1))
                                                           /\ Local(zd, m).ld = day /\ Local(zd, Plus(m, 0 - 1)).ld = day - 1}
IsoYearStartDay(y) == LET j4 == DaysFromCivil(y, 1, 4) IN j4 - IsoWd(j4) + 1
\* the boundary days of year y: new year, quarters, the start of the ISO week-year, a Monday in the middle of a month,
\* an ordinary day
BoundaryDays(y) ==
  {DaysFromCivil(y, 1, 1), DaysFromCivil(y, 4, 1), DaysFromCivil(y, 7, 1), DaysFromCivil(y, 10, 1), IsoYearStartDay(y),
   LET d == DaysFromCivil(y, 5, 10) IN d - IsoWd(d) + 1, DaysFromCivil(y, 8, 17)}

InDomainPool(zd, P) == {t \in P : InZoneDomain(zd, t)}
=============================================================================

--------------------------- MODULE ExprScalarHist ---------------------------
(* C11 - a compiled helper call as an OBJECT with a life: one compiled         *)
(* expression `{f a1 .. an}` is evaluated many times - line after line, by     *)
(* several worker goroutines at once (the extractor hands ONE                  *)
(* CompiledKeyBuilder to all its workers) and re-entrantly (a funcs-file       *)
(* function `w` used as `{w x {w y z}}`: the body of `w` is ONE compiled stage *)
(* and the inner use runs while the outer one is between two of its argument   *)
(* reads).  The property quantifies over argument values "whether supplied as  *)
(* constants or from match groups" - so every one of these evaluations must    *)
(* answer as ExprScalar!Expect does for ITS OWN arguments: what a freshly      *)
(* compiled expression would answer.                                           *)
(*                                                                              *)
(* The machine: a scenario is a helper f, a position pattern pos ("c" template *)
(* constant / "d" read from the context), compiled instances (their constants) *)
(* and a pool of contexts (their dynamic values).  An evaluation is            *)
(*   Begin(i, c)   instance i is called with context c                          *)
(*   Read(e)       its next dynamic argument is fetched from ITS context (the   *)
(*                 only points where the real code can be suspended from        *)
(*                 outside: KeyBuilderContext.GetMatch / GetKey) and stored     *)
(*   Finish(e)     the result is computed from the stored arguments             *)
(* and the system is the interleaving of up to MaxEvals evaluations.            *)
(*                                                                              *)
(* Design: what an instance carries from one evaluation to the next            *)
(*   "fresh"        nothing: arguments live in the evaluation (the code as it   *)
(*                  is: every stage closure allocates per call)                 *)
(*   "memo_all"     last result remembered, keyed on ALL dynamic arguments     *)
(*                  (an admissible optimisation: must pass)                     *)
(*   "memo_first"   NEGATIVE CONTROL: last result keyed on the first dynamic   *)
(*                  argument only; on a hit the other arguments are not even    *)
(*                  read                                                        *)
(*   "global_memo"  NEGATIVE CONTROL: one memo for all instances of the helper *)
(*                  keyed on the dynamic arguments (constants forgotten)        *)
(*   "shared_slots" NEGATIVE CONTROL: the argument slice belongs to the        *)
(*                  instance, not to the evaluation                             *)
(*   "sticky_error" NEGATIVE CONTROL: after an error marker the instance keeps *)
(*                  answering with it                                           *)
(* Sched: which interleavings                                                   *)
(*   "serial"  evaluations never overlap (one goroutine, line after line)      *)
(*   "nested"  stack discipline: an evaluation may begin while others are       *)
(*             suspended in a read, only the innermost one runs (re-entrant use *)
(*             on ONE goroutine)                                                *)
(*   "any"     free interleaving (worker goroutines)                            *)
(*                                                                              *)
(* Law (TLC, every reachable state):                                            *)
(*   Isolated  every finished evaluation holds Expect(f, own arguments, pos).  *)
(* "fresh" and "memo_all" satisfy it under every schedule; each negative       *)
(* control is refuted - and the refutations say what a binding needs:          *)
(* memo_first / sticky_error already by serial histories of 2 evaluations on   *)
(* one instance, global_memo by a serial history over 2 instances,             *)
(* shared_slots NOT by any serial history (it passes Sched = "serial": no test  *)
(* that evaluates line after line can see it) but by 2 overlapping or nested   *)
(* evaluations.                                                                 *)
EXTENDS ExprScalar, FiniteSets

CONSTANTS
  Scenarios,   \* set of [f, pos, insts, ctxs]; insts / ctxs: sequences of full argument tuples
               \* (of an instance only the "c" positions count, of a context only the "d" ones)
  MaxEvals, Design, Sched

ASSUME Design \in {"fresh", "memo_all", "memo_first", "global_memo", "shared_slots", "sticky_error"}
ASSUME Sched \in {"serial", "nested", "any"}

VARIABLES
  sc,      \* the scenario (chosen initially, never changes)
  ev,      \* evaluations begun so far: sequence of [st, i, c, k, loc, hit, res]
  slots,   \* per instance: the argument slice of the shared_slots design
  memo,    \* per instance (index 0: the global one): [valid, key, val]
  stick,   \* per instance: <<>> or <<the error expectation it is stuck on>>
  stack    \* ids of the running evaluations, innermost last

vars == <<sc, ev, slots, memo, stick, stack>>

DynSeq(pos) == SelectSeq([j \in 1..Len(pos) |-> j], LAMBDA j : pos[j] = "d")
NArgs == Len(sc.pos)
Dyn == DynSeq(sc.pos)

\* the arguments instance i is really called with under context c
OwnArgs(s, i, c) == [j \in 1..Len(s.pos) |-> IF s.pos[j] = "c" THEN s.insts[i][j] ELSE s.ctxs[c][j]]
Res(args) == Expect(sc.f, args, sc.pos)
DynOf(args) == [x \in 1..Len(Dyn) |-> args[Dyn[x]]]
IsErr(e) == e.k = "marker" \/ (e.k = "out" /\ e.v \in Markers)

NoMemo == [valid |-> FALSE, key |-> <<>>, val |-> AnyR]
UNSET == <<0>>     \* a slot nobody has written yet

Init ==
  /\ sc \in Scenarios
  /\ ev = <<>>
  /\ slots = [i \in 1..Len(sc.insts) |-> [j \in 1..Len(sc.pos) |-> IF sc.pos[j] = "c" THEN sc.insts[i][j] ELSE UNSET]]
  /\ memo = [i \in 0..Len(sc.insts) |-> NoMemo]
  /\ stick = [i \in 1..Len(sc.insts) |-> <<>>]
  /\ stack = <<>>

Running == {e \in 1..Len(ev) : ev[e].st = "run"}
MayStep(e) == Sched # "nested" \/ (stack # <<>> /\ stack[Len(stack)] = e)

Begin(i, c) ==
  /\ Len(ev) < MaxEvals
  /\ Sched = "serial" => Running = {}
  /\ ev' = Append(ev, [st |-> "run", i |-> i, c |-> c, k |-> 0, hit |-> FALSE, res |-> AnyR,
                       loc |-> [j \in 1..NArgs |-> IF sc.pos[j] = "c" THEN sc.insts[i][j] ELSE UNSET]])
  /\ stack' = Append(stack, Len(ev) + 1)
  /\ UNCHANGED <<sc, slots, memo, stick>>

\* the next dynamic argument is fetched from the evaluation's own context
Read(e) ==
  /\ e \in Running /\ MayStep(e) /\ ~ev[e].hit /\ ev[e].k < Len(Dyn)
  /\ LET j == Dyn[ev[e].k + 1]
         v == sc.ctxs[ev[e].c][j]
         i == ev[e].i
         hit == Design = "memo_first" /\ ev[e].k = 0 /\ memo[i].valid /\ memo[i].key = <<v>>
     IN /\ ev' = [ev EXCEPT ![e].k = @ + 1, ![e].loc[j] = v, ![e].hit = hit]
        /\ slots' = IF Design = "shared_slots" THEN [slots EXCEPT ![i][j] = v] ELSE slots
  /\ UNCHANGED <<sc, memo, stick, stack>>

\* what the evaluation computes from: its own slots, or the instance's
Seen(e) == IF Design = "shared_slots" THEN slots[ev[e].i] ELSE ev[e].loc

Finish(e) ==
  /\ e \in Running /\ MayStep(e) /\ (ev[e].hit \/ ev[e].k = Len(Dyn))
  /\ LET i == ev[e].i
         seen == Seen(e)
         m == IF Design = "global_memo" THEN 0 ELSE i
         key == IF Design = "memo_first" THEN <<ev[e].loc[Dyn[1]]>> ELSE DynOf(seen)
         usememo == /\ Design \in {"memo_all", "global_memo", "memo_first"}
                    /\ memo[m].valid /\ memo[m].key = key
                    /\ (Design = "memo_first" => ev[e].hit)
         r == IF Design = "sticky_error" /\ stick[i] # <<>> THEN stick[i][1]
              ELSE IF usememo THEN memo[m].val ELSE Res(seen)
     IN /\ ev' = [ev EXCEPT ![e].st = "done", ![e].res = r]
        /\ memo' = IF Design \in {"memo_all", "global_memo", "memo_first"} /\ Len(Dyn) > 0
                   THEN [memo EXCEPT ![m] = [valid |-> TRUE, key |-> key, val |-> r]] ELSE memo
        /\ stick' = IF Design = "sticky_error" /\ IsErr(r) THEN [stick EXCEPT ![i] = <<r>>] ELSE stick
  /\ stack' = SelectSeq(stack, LAMBDA x : x # e)
  /\ UNCHANGED <<sc, slots>>

Next ==
  \/ \E i \in 1..Len(sc.insts), c \in 1..Len(sc.ctxs) : Begin(i, c)
  \/ \E e \in 1..Len(ev) : Read(e) \/ Finish(e)

Spec == Init /\ [][Next]_vars

\* ---------------------------------------------------------------- the law
Isolated ==
  \A e \in 1..Len(ev) : ev[e].st = "done" => ev[e].res = Expect(sc.f, OwnArgs(sc, ev[e].i, ev[e].c), sc.pos)

TypeOK ==
  /\ Len(ev) <= MaxEvals
  /\ \A e \in 1..Len(ev) : ev[e].st \in {"run", "done"} /\ ev[e].k \in 0..Len(Dyn)
  /\ \A x \in 1..Len(stack) : stack[x] \in Running
  /\ Cardinality(Running) = Len(stack)
  /\ Sched = "serial" => Len(stack) <= 1

\* the design fact behind "fresh": an evaluation writes nothing an other evaluation reads
\* (holds for "fresh" only; the binding of this fact on the real code is the race detector)
Confined == [][UNCHANGED <<slots, memo, stick>>]_vars
=============================================================================

---------------------------- MODULE Colorize_Gen ----------------------------
(* C02 / B1 generator: (s, groups) with the coloured spans the property demands    *)
(* (Colorize!Accepted).  The Go driver calls the real color.WrapIndices            *)
(* (color.Enabled = true), reads the decorated text back (plain text + spans       *)
(* between a colour code and the next reset) and compares.                         *)
EXTENDS Colorize, TLC, Json

CONSTANTS Alphabet, MaxLen, MaxPairs
VARIABLE s
Init == s = <<>>
Next == Len(s) < MaxLen /\ \E a \in Alphabet : s' = Append(s, a)
Comp(n) == (0 - 1)..n
GroupVecs(n) == UNION {[1..(2 * k) -> Comp(n)] : k \in 0..MaxPairs} \cup [1..1 -> Comp(n)]
Dump == \A g \in GroupVecs(Len(s)) :
          PrintT("VFJ " \o ToJson([s |-> s, g |-> g, spans |-> Accepted(g), exact |-> WrapIndices(s, g)]))
=============================================================================

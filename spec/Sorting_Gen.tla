----------------------------- MODULE Sorting_Gen -----------------------------
(* B1 for C13: TLC enumerates small pools whose display order the specification  *)
(* fixes completely (homogeneous, no two keys of equal rank) for every mode and  *)
(* modifier, and prints each with the EXPECTED sequence; the Go driver sorts      *)
(* every permutation of the pool with the real comparators / aggregators and      *)
(* compares.  Phase 1 fixes (mode, universe); the step to phase 2 picks the pool  *)
(* and the sort string (so TLC's workers share the work).                         *)
EXTENDS Sorting, SortingUniv, Json

CONSTANT Big        \* BOOLEAN: thorough tier (larger universes)

VARIABLES ph, gmode, univ, vec
gvars == <<ph, gmode, univ, vec>>

X(S, T) == IF Big THEN S \cup T ELSE S
D1(S) == {s \in S : DateOf(s).lay = 1}
D2s(S) == {s \in S : DateOf(s).lay = 2}
D3(S) == {s \in S : DateOf(s).lay = 3}
\* universes per mode: <<tag, set of names>>; every one is homogeneous for that mode
PlainText(S) == {s \in S : Kind("date", s) = "text"}        \* digit-free text
Univs(m) ==
  CASE m = "text" -> {<<"any", X(UText, XText) \cup {<<49, 48>>, <<50>>, <<109, 111, 110>>, <<195, 169>>}>>}
    [] m = "numeric" -> {<<"num", X(UNum, XNum)>>, <<"text", X(UText, XText) \cup UWeek>>}
    [] m = "contextual" -> {<<"num", X(UNum, XNum)>>, <<"text", X(UText, XText)>>,
                            <<"weekday", X(UWeek, XWeek)>>, <<"month", X(UMonth, XMonth)>>}
    [] m = "date" -> {<<"date1", D1(UDate \cup XDate)>>, <<"date2", D2s(UDate \cup XDate)>>, <<"date3", D3(UDate \cup XDate)>>,
                      <<"weekday", X(UWeek, XWeek)>>, <<"month", X(UMonth, XMonth)>>,
                      <<"text", PlainText(UText \cup XText)>>}
    [] m = "value" -> {<<"value", {<<97>>, <<97, 98>>, <<66>>, <<49, 48>>, <<50>>}>>}

Colon == <<58>>
NameOf(m) == CASE m = "text" -> B_text [] m = "numeric" -> B_numeric [] m = "contextual" -> B_contextual
               [] m = "date" -> B_date [] m = "value" -> B_value
SortsOf(m) == {NameOf(m), NameOf(m) \o Colon \o B_reverse, UpperASCII(NameOf(m)) \o Colon \o B_asc}
              \cup (IF Big THEN {} ELSE {NameOf(m) \o Colon \o B_desc})
              \cup (IF m = "contextual" THEN {B_context \o Colon \o B_rev} ELSE {})
MaxPool == 4
Vals == {0, 1, 2, 7}

\* pools: sequences (in TLC's set order) of 2..MaxPool distinct names of one universe, with
\* values (all 1 except in value mode)
Subsets(S) == {T \in SUBSET S : Cardinality(T) >= 2 /\ Cardinality(T) <= MaxPool}
Keyed(T, m) ==
  LET names == SetToSeq(T) IN
  IF m = "value" THEN {[k \in 1..Len(names) |-> [name |-> names[k], value |-> f[k]]] : f \in [1..Len(names) -> Vals]}
  ELSE {[k \in 1..Len(names) |-> [name |-> names[k], value |-> 1]]}

\* display order of `sort`
Before(m, rev, a, b) == IF rev THEN SpecLess(m, b, a) ELSE SpecLess(m, a, b)
Perms(n) == {p \in [1..n -> 1..n] : \A x \in 1..n, y \in 1..n : x # y => p[x] # p[y]}
\* the specification fixes the whole sequence iff SpecLess is total on the pool
Fixed(m, pool) == \A x \in 1..Len(pool), y \in 1..Len(pool) :
                    x # y => (SpecLess(m, pool[x], pool[y]) \/ SpecLess(m, pool[y], pool[x]))
Expected(m, rev, pool) ==
  CHOOSE p \in Perms(Len(pool)) : \A x \in 1..Len(pool), y \in 1..Len(pool) :
                                     x < y => Before(m, rev, pool[p[x]], pool[p[y]])

NoVec == [none |-> TRUE]
GInit == /\ ph = 1 /\ gmode \in Modes /\ univ \in Univs(gmode) /\ vec = NoVec
GNext == /\ ph = 1 /\ ph' = 2 /\ UNCHANGED <<gmode, univ>>
         /\ \E T \in Subsets(univ[2]) : \E pool \in Keyed(T, gmode) : \E srt \in SortsOf(gmode) :
              /\ Determined(gmode, [k \in 1..Len(pool) |-> pool[k].name])
              /\ Fixed(gmode, pool)
              /\ vec' = [mode |-> gmode, cls |-> univ[1], sort |-> srt, pool |-> pool,
                         expect |-> Expected(gmode, ParseSort(srt).rev, pool)]

Dump == (ph = 2) => PrintT("VFJ " \o ToJson(vec))
=============================================================================

----------------------------- MODULE Sorting_Gen -----------------------------
(* B1 for C13: TLC enumerates small pools whose display order the specification  *)
(* fixes (homogeneous pools) for every mode and modifier, and prints each with    *)
(* what the specification EXPECTS of the displayed sequence:                      *)
(*   ranks[k] = number of keys the specification puts strictly before key k       *)
(*              (keys of equal rank - "1" / "1.0", "mon" / "Monday", one instant   *)
(*              in two spellings, equal totals - are tied: the specification does  *)
(*              not say which comes first, only that it is the same every time)    *)
(* The Go driver sorts every permutation of the pool with the real comparators /  *)
(* aggregators; a result is accepted iff its ranks never decrease and it is the   *)
(* one sequence all the other starts of that pool produced.                       *)
(* Totals: a vector states its value map `vmap` (Sorting.tla "totals"): w = 0 -    *)
(* the totals as they are; w > 0 - the pool's totals are w-bit integers handed to *)
(* the code as Embed(64, w, off, v), so that differences of totals overflow.      *)
(* Universe "look": plain text keys that begin like a weekday / month name or    *)
(* abbreviation (monitoring, Thu., Mondays) next to ordinary words - the          *)
(* specification orders them as text in every mode.                               *)
(* Phase 1 fixes (mode, universe); the step to phase 2 picks the pool and the     *)
(* sort string (so TLC's workers share the work).                                 *)
EXTENDS Sorting, SortingUniv, Json

CONSTANT Big        \* BOOLEAN: thorough tier (larger universes)

VARIABLES ph, gmode, univ, vec
gvars == <<ph, gmode, univ, vec>>

X(S, T) == IF Big THEN S \cup T ELSE S
Lay(S, n) == {s \in S : DateOf(s).lay = n}
PlainText(S) == {s \in S : Kind("date", s) = "text"}        \* digit-free text
IdMap == [w |-> 0, off |-> "zero"]
\* a universe: class tag, names, whether pools with tied keys are generated, largest pool,
\* totals and their value map.  Every universe is homogeneous for its mode.
Un(cls, names, ties, max) == [cls |-> cls, names |-> names, ties |-> ties, max |-> max, vals |-> {1}, vmap |-> IdMap]
ValNames == {<<97>>, <<97, 98>>, <<66>>, <<49, 48>>, <<50>>}
Wide(w, off, names, max) == [cls |-> "value-w" \o ToString(w), names |-> names, ties |-> TRUE, max |-> max,
                             vals |-> EmbedDomain(w, off), vmap |-> [w |-> w, off |-> off]]
Univs(m) ==
  CASE m = "text" -> {Un("any", X(UText, XText) \cup {<<49, 48>>, <<50>>, <<109, 111, 110>>, <<195, 169>>}, FALSE, 4)}
    [] m = "numeric" -> {Un("num", X(UNum, XNum), TRUE, 4), Un("text", X(UText, XText) \cup UWeek, FALSE, 4)}
    [] m = "contextual" -> {Un("num", X(UNum, XNum), FALSE, 4), Un("text", X(UText, XText), FALSE, 4),
                            Un("weekday", X(UWeek, XWeek), TRUE, 4), Un("month", X(UMonth, XMonth), TRUE, 4),
                            Un("look", X(ULook, XLook) \cup UPlain, FALSE, 3)}
    [] m = "date" -> {Un("date1", Lay(UDate \cup XDate, 1), FALSE, 4), Un("date2", Lay(UDate \cup XDate, 2), FALSE, 4),
                      Un("date3", Lay(UDate \cup XDate, 3), FALSE, 4),
                      Un("date4", Lay(UOff \cup XOff, 4), TRUE, 4), Un("date5", Lay(UOff \cup XOff, 5), TRUE, 4),
                      Un("weekday", X(UWeek, XWeek), FALSE, 4), Un("month", X(UMonth, XMonth), FALSE, 4),
                      Un("text", PlainText(UText \cup XText), FALSE, 4),
                      Un("look", X(ULook, XLook) \cup UPlain, FALSE, 3)}
    [] m = "value" -> {[Un("value", ValNames, FALSE, 4) EXCEPT !.vals = {0, 1, 2, 7}],
                       [Un("value-ties", {<<97>>, <<97, 98>>, <<66>>}, TRUE, 3) EXCEPT !.vals = {0, 1, 7}],
                       Wide(3, "zero", {<<97>>, <<97, 98>>, <<66>>}, 3),
                       Wide(3, "top", {<<97>>, <<66>>, <<49, 48>>}, 3),
                       Wide(2, "lsb", {<<97>>, <<97, 98>>, <<66>>}, 3)}
                      \cup (IF Big THEN {Wide(4, "top", {<<97>>, <<97, 98>>, <<66>>}, 3),
                                         Wide(3, "one", {<<97>>, <<97, 98>>, <<66>>, <<50>>}, 3),
                                         Wide(3, "lsb", {<<97>>, <<66>>}, 2)} ELSE {})

Colon == <<58>>
NameOf(m) == CASE m = "text" -> B_text [] m = "numeric" -> B_numeric [] m = "contextual" -> B_contextual
               [] m = "date" -> B_date [] m = "value" -> B_value
SortsOf(m) == {NameOf(m), NameOf(m) \o Colon \o B_reverse, UpperASCII(NameOf(m)) \o Colon \o B_asc}
              \cup (IF Big THEN {} ELSE {NameOf(m) \o Colon \o B_desc})
              \cup (IF m = "contextual" THEN {B_context \o Colon \o B_rev} ELSE {})
\* wide totals: both directions once (the modifier table is exercised by the other universes)
SortsFor(m, u) == IF u.vmap.w = 0 THEN SortsOf(m) ELSE {NameOf(m), UpperASCII(NameOf(m)) \o Colon \o B_asc}

\* pools: sequences (in TLC's set order) of 2..max distinct names of one universe, with totals
Subsets(u) == {T \in SUBSET u.names : Cardinality(T) >= 2 /\ Cardinality(T) <= u.max}
Keyed(T, u) ==
  LET names == SetToSeq(T) IN
  {[k \in 1..Len(names) |-> [name |-> names[k], value |-> f[k]]] : f \in [1..Len(names) -> u.vals]}

\* display order of `sort`
Before(m, rev, a, b) == IF rev THEN SpecLess(m, b, a) ELSE SpecLess(m, a, b)
\* the specification fixes the whole sequence iff SpecLess is total on the pool
Fixed(m, pool) == \A x \in 1..Len(pool), y \in 1..Len(pool) :
                    x # y => (SpecLess(m, pool[x], pool[y]) \/ SpecLess(m, pool[y], pool[x]))
Ranks(m, rev, pool) ==
  [x \in 1..Len(pool) |-> Cardinality({y \in 1..Len(pool) : Before(m, rev, pool[y], pool[x])})]

NoVec == [none |-> TRUE]
GInit == /\ ph = 1 /\ gmode \in Modes /\ univ \in Univs(gmode) /\ vec = NoVec
GNext == /\ ph = 1 /\ ph' = 2 /\ UNCHANGED <<gmode, univ>>
         /\ \E T \in Subsets(univ) : \E pool \in Keyed(T, univ) : \E srt \in SortsFor(gmode, univ) :
              /\ Determined(gmode, [k \in 1..Len(pool) |-> pool[k].name])
              /\ VMapOK(univ.vmap, {pool[k].value : k \in 1..Len(pool)})
              /\ (univ.ties \/ Fixed(gmode, pool))
              /\ vec' = [mode |-> gmode, cls |-> univ.cls, sort |-> srt, pool |-> pool, vmap |-> univ.vmap,
                         fixed |-> Fixed(gmode, pool),
                         ranks |-> Ranks(gmode, ParseSort(srt).rev, pool)]

Dump == (ph = 2) => PrintT("VFJ " \o ToJson(vec))
=============================================================================

-------------------------- MODULE AggregatorsImpl --------------------------
(* C07 - implementation-shaped layer, written like pkg/aggregation/*.go, run in  *)
(* lock step with the abstract machine of Aggregators.tla.  The simulation        *)
(* relation Sim* (checked by TLC as an invariant over every reachable state) is   *)
(* the refinement proof obligation: every public accessor of the implementation   *)
(* state returns what the abstract fold says.                                     *)
(*   MatchCounter   : matches map + redundant `total`                             *)
(*   SubKeyCounter  : sorted subKeys, subKeyIdx map regenerated on insert, one    *)
(*                    vector per row re-indexed when a sub-key is inserted        *)
(*   TableAggregator: per-row cell maps + redundant row sums and column totals;   *)
(*                    Trim as the nested loop over columns x rows, in every       *)
(*                    iteration order of the two maps                             *)
(*   MatchNumerical : the value list, sorted IN PLACE by Analyze; order statistics *)
(*                    by index                                                     *)
(*   AccumulatingGroup: the data map plus the ONE evaluation context shared by all *)
(*                    Sample calls (match, current value, key lookup bound to the  *)
(*                    row written last) - re-initialised at the top of Sample,     *)
(*                    re-bound after the group is known, `current` moved from      *)
(*                    column to column                                              *)
(* Every Sample takes its text apart with a Splitter object (AggSplit.tla: S,      *)
(* Delim, cursor; Next / NextOk as splitter.go) - NUL for the counters and the      *)
(* accumulating group, the delimiter of its construction (MCDelim: NUL, "::", ", ", *)
(* "aab", a three-byte UTF-8 character) for the table; constant Search selects the  *)
(* splitter as written, an equivalent rewrite, or a defective design (first byte    *)
(* only / advance by one / delimiter as a byte set) that Sim must reject under a    *)
(* multi-byte delimiter.                                                            *)
(* Accessor calls are explicit steps (Observe): they leave the abstract state      *)
(* alone but may touch the implementation state - Analyze re-orders the value      *)
(* list, and with Memo # "none" ComputeMinMax stores its result.  Sim must hold     *)
(* after every interleaving of Sample / Trim / Observe.                             *)
EXTENDS Aggregators

CONSTANTS Which,      \* "ctr" | "sub" | "tbl" | "num" | "acc" : the aggregator under test
          Profile,    \* alphabet selector
          MaxLen,     \* bound on the number of steps
          TrimFixed,  \* TRUE: Trim keeps a column only if a PRESENT cell was kept (code after the fix)
                      \* FALSE: the original code (kept it when the predicate was false on an absent cell)
          AccCtx,     \* how AccumulatingGroup.Sample treats its shared evaluation context:
                      \* "reset"     : match set, current and key lookup cleared at the top (the code as written)
                      \* "fresh"     : a new context per call (behaviour-preserving refactoring) - Sim must hold
                      \* "stalelook" : key lookup not cleared - the group expressions of sample n read the row that
                      \*               sample n-1 wrote to: Sim must FAIL where a group names a column (negative control)
                      \* "stalecur"  : current not cleared - `{.}` in a group expression reads what the last column
                      \*               of sample n-1 held: Sim must FAIL (negative control)
                      \* "memokey"   : GetKey remembers, for the rest of the sample, what it answered for a key and
                      \*               does not notice the column being rewritten: Sim must FAIL where a column is
                      \*               read before and after its update (negative control)
          Search,     \* the field splitter (AggSplit.tla): "index" (the code), "cut" (equivalent rewrite: Sim
                      \* must hold), "firstbyte" / "advance1" / "anybyte" (negative controls: Sim must FAIL
                      \* for a table constructed with a multi-byte delimiter)
          Memo        \* "none" : ComputeMinMax recomputes on every call (the code as written)
                      \* "ok"   : a memoising variant that drops the stored value in SampleItem AND Trim -
                      \*          a behaviour-preserving refactoring, Sim must still hold
                      \* "stale": dropped in SampleItem only - Sim must FAIL (negative control:
                      \*          sample, observe, trim, observe)

VARIABLES cm, sk, tb, nm, ag, len
ivars == <<cm, sk, tb, nm, ag, len>>
vars  == <<ctr, sub, tbl, num, acc, cm, sk, tb, nm, ag, len>>

\* ------------------------------------------------------------------ alphabets
bA == <<97>>   bB == <<98>>   bX == <<120>>   bY == <<121>>   bE == <<>>
b2 == <<50>>   bM1 == <<45, 49>>   bM2 == <<45, 50>>   b0 == <<48>>   bZZ == <<122, 122>>   bP3 == <<43, 51>>
El(parts) == JoinSeq(parts, <<NUL>>)
\* the delimiter the table under test was constructed with (profiles 1, 2: the default)
dCC == <<58, 58>>   dCS == <<44, 32>>   dAAB == <<97, 97, 98>>   dARR == <<226, 134, 146>>
MCDelim ==
  IF Which # "tbl" THEN DNUL
  ELSE CASE Profile = 3 -> dCC          \* "::"   keys with a lone ":" (times), a key ending in ":"
         [] Profile = 4 -> dCS          \* ", "   keys with a lone "," or a lone " "
         [] Profile = 5 -> dAAB         \* "aab"  a delimiter with a repeated prefix, keys "a", "aa": "aaab.."
         [] Profile = 6 -> dARR         \* U+2192 (3 bytes); keys holding its first byte(s) alone
         [] OTHER -> DNUL
ElD(parts) == JoinSeq(parts, MCDelim)

\* numerical profiles >= 2: every value lies near a large base (in units)
MCBaseText ==
  IF Which # "num" THEN <<48>>
  ELSE CASE Profile = 2 -> <<49, 55, 48, 48, 48, 48, 48, 48, 48, 48>>                 \* 1700000000 (epoch seconds)
         [] Profile = 3 -> <<45, 51, 48, 48, 48, 48, 48, 48, 48, 48, 48>>             \* -3000000000
         [] Profile = 4 -> <<49, 48, 48, 48, 48, 48, 48, 48, 48, 48, 48>>             \* 10000000000
         [] Profile = 5 -> <<49, 54, 55, 55, 55, 50, 49, 54>>                         \* 16777216 = 2^24
         [] OTHER -> <<48>>
MCBase == BaseOfText(MCBaseText)

MCElems ==
  CASE Which = "ctr" /\ Profile = 1 ->
         {El(<<k>>) : k \in {bA, bB, bE}}
         \cup {El(<<k, i>>) : k \in {bA, bB, bE}, i \in {b2, bM1, b0, bZZ, bP3, bE}}
         \cup {El(<<bA, b2, <<57>>>>)}
    [] Which = "ctr" -> {El(<<k>>) : k \in {bA, bB, bE}} \cup {El(<<k, i>>) : k \in {bA, bB, bE}, i \in {bM1, bZZ}}
    [] Which = "sub" /\ Profile = 1 ->
         {El(<<k>>) : k \in {bA, bB}} \cup {El(<<k, s>>) : k \in {bA, bB}, s \in {bX, bY, bE}}
         \cup {El(<<k, s, i>>) : k \in {bA, bB}, s \in {bX, bY, bE}, i \in {b2, b0, bZZ}}
    [] Which = "sub" -> {El(<<k, s>>) : k \in {bA, bB}, s \in {bX, bY, bE}}
                        \cup {El(<<k, s, bM2>>) : k \in {bA, bB}, s \in {bX, bY, bE}}
    [] Which = "tbl" /\ Profile = 1 ->
         {El(<<c>>) : c \in {bA, bB}} \cup {El(<<c, r>>) : c \in {bA, bB}, r \in {bX, bE}}
         \cup {El(<<c, r, i>>) : c \in {bA, bB}, r \in {bX, bE}, i \in {b2, b0, bZZ}}
    [] Which = "tbl" /\ Profile = 2 -> {El(<<c, r>>) : c \in {bA, bB}, r \in {bX, bY}}
                        \cup {El(<<c, r, bM1>>) : c \in {bA, bB}, r \in {bX, bY}}
    \* multi-byte delimiters.  The samples are TEXTS: where a key ends in the delimiter's first byte the
    \* leftmost occurrence straddles the joint ("b:" "::" "x" reads as "b", ":x") - the specification says
    \* how such a text is read, not how it was meant.
    [] Which = "tbl" /\ Profile = 3 ->
         LET K == {<<49, 58, 51>>, bA, <<98, 58>>} IN                      \* "1:3"  "a"  "b:"
         {ElD(<<c>>) : c \in K} \cup {ElD(<<c, r>>) : c \in K, r \in {<<58, 120>>, bE}}   \* rows ":x", ""
         \cup {ElD(<<c, r, i>>) : c \in {<<49, 58, 51>>, bA}, r \in {bX}, i \in {b2, <<50, 58>>}}
    [] Which = "tbl" /\ Profile = 4 ->
         LET K == {<<97, 44, 98>>, <<97, 32, 98>>, bA} IN                  \* "a,b"  "a b"  "a"
         {ElD(<<c, r>>) : c \in K, r \in {bX, <<32>>}} \cup {ElD(<<c, r, i>>) : c \in K, r \in {bX}, i \in {bM1, <<44, 50>>}}
    [] Which = "tbl" /\ Profile = 5 ->
         LET K == {bA, <<97, 97>>, bB, <<97, 98>>} IN                      \* "a" "aa" "b" "ab"
         {ElD(<<c, r>>) : c \in K, r \in {bX, bA}} \cup {ElD(<<c, r, i>>) : c \in {bA, bB}, r \in {bX, bA}, i \in {b2}}
    [] Which = "tbl" ->
         LET K == {<<226>>, <<226, 134>>, <<195, 169>>, bA} IN            \* \xE2  \xE2\x86  U+00E9  "a"
         {ElD(<<c, r>>) : c \in K, r \in {bX, <<134, 146>>}} \cup {ElD(<<c, r, i>>) : c \in K, r \in {bX}, i \in {b2}}
    [] Which = "num" /\ Profile = 1 ->
                        {<<49>>, <<50>>, <<45, 49, 46, 53>>, <<50, 46, 50, 53>>, <<48>>, bZZ, bE,
                         <<49, 46, 48>>, <<46, 53>>}
    \* large offset, small spread: the texts of base + delta
    [] Which = "num" -> {NumText(BAdd(MCBase, BI(d))) : d \in {0, 1000, 1500, 3000, -750, 2250}} \cup {bZZ}
    [] Which = "acc" -> {El(<<bA, b2>>), El(<<bB, bM1>>), El(<<bA, bZZ>>), El(<<bA>>), El(<<bE, <<53>>>>),
                         El(<<bB, <<51>>, bX>>)}

Pred(k, c, r, v) == [k |-> k, c |-> c, r |-> r, v |-> v]
MCPreds ==
  IF Which # "tbl" THEN {}
  ELSE IF Profile >= 3 THEN {Pred("col", bA, bE, 0), Pred("le", bE, bE, 1)}
  ELSE IF Profile = 1 THEN
    {Pred("all", bE, bE, 0), Pred("none", bE, bE, 0), Pred("col", bA, bE, 0), Pred("notcol", bA, bE, 0),
     Pred("row", bE, bX, 0), Pred("cell", bA, bX, 0), Pred("le", bE, bE, 0), Pred("gt", bE, bE, 1)}
  ELSE {Pred("col", bA, bE, 0), Pred("notcol", bB, bE, 0), Pred("cell", bA, bX, 0), Pred("le", bE, bE, 0)}

MCAccCfg == AccCfgOf(Profile)

\* ---------------------------------------------------------- the Splitter in use
\* the answers of the first n calls on Splitter{S: el, Delim: d} (Next = NextOk without the flag)
Calls(el, d, n) == SpCalls(Search, el, d, n)

\* ------------------------------------------------------------- MatchCounter
CmInit == [matches |-> EmptyFn, total |-> 0, errors |-> 0]
CmSampleValue(s, key, n) ==
  [matches |-> Upd(s.matches, key, Get0(s.matches, key) + n), total |-> s.total + n, errors |-> s.errors]
CmSample(s, el) ==
  LET c == Calls(el, DNUL, 2) IN        \* key := Next() ; val, hasVal := NextOk()
  IF c[2].ok
  THEN (IF ParseIntOK(c[2].ret) THEN CmSampleValue(s, c[1].ret, ParseIntVal(c[2].ret)) ELSE [s EXCEPT !.errors = @ + 1])
  ELSE CmSampleValue(s, c[1].ret, 1)

\* ------------------------------------------------------------ SubKeyCounter
SkInit == [subKeys |-> <<>>, subKeyIdx |-> EmptyFn, rows |-> EmptyFn, errors |-> 0]
InsAt(s, idx, x) == SubSeq(s, 1, idx - 1) \o <<x>> \o SubSeq(s, idx, Len(s))       \* 1-based
\* insertAlphanumeric: before the first larger element, else at the end
InsertPos(keys, x) ==
  LET S == {i \in 1..Len(keys) : BytesLess(x, keys[i])} IN IF S = {} THEN Len(keys) + 1 ELSE MinOf(S)
SkSampleValue(s, key, subkey, n) ==
  LET \* getOrCreateKeyItem
      rows1 == IF key \in DOMAIN s.rows THEN s.rows
               ELSE Upd(s.rows, key, [count |-> 0, vec |-> [i \in 1..Len(s.subKeys) |-> 0]])
      rows2 == [rows1 EXCEPT ![key].count = @ + n]
      \* getOrCreateSubkeyIndex
      has   == subkey \in DOMAIN s.subKeyIdx
      idx   == IF has THEN s.subKeyIdx[subkey] ELSE InsertPos(s.subKeys, subkey)
      keys3 == IF has THEN s.subKeys ELSE InsAt(s.subKeys, idx, subkey)
      kidx3 == IF has THEN s.subKeyIdx ELSE [name \in {keys3[i] : i \in 1..Len(keys3)} |->
                                              CHOOSE i \in 1..Len(keys3) : keys3[i] = name]
      rows3 == IF has THEN rows2 ELSE [k \in DOMAIN rows2 |-> [rows2[k] EXCEPT !.vec = InsAt(@, idx, 0)]]
  IN [subKeys |-> keys3, subKeyIdx |-> kidx3, rows |-> [rows3 EXCEPT ![key].vec[idx] = @ + n], errors |-> s.errors]
SkSample(s, el) ==
  LET c == Calls(el, DNUL, 3)           \* key := Next() ; subkey := Next() ; sVal, hasVal := NextOk()
      key == c[1].ret
      subkey == c[2].ret
  IN IF c[3].ok
     THEN (IF ParseIntOK(c[3].ret) THEN SkSampleValue(s, key, subkey, ParseIntVal(c[3].ret)) ELSE [s EXCEPT !.errors = @ + 1])
     ELSE SkSampleValue(s, key, subkey, 1)

\* ---------------------------------------------------------- TableAggregator
\* mm: the min/max remembered by a memoising ComputeMinMax (never valid when Memo = "none")
NoMM == [valid |-> FALSE, v |-> <<0, 0>>]
TbInit == [cols |-> EmptyFn, rows |-> EmptyFn, errors |-> 0, mm |-> NoMM]
TbSampleItem(s, col, row, n) ==
  LET r0 == IF row \in DOMAIN s.rows THEN s.rows[row] ELSE [cells |-> EmptyFn, sum |-> 0]
      r1 == [cells |-> Upd(r0.cells, col, Get0(r0.cells, col) + n), sum |-> r0.sum + n]
  IN [cols |-> Upd(s.cols, col, Get0(s.cols, col) + n), rows |-> Upd(s.rows, row, r1), errors |-> s.errors,
      mm |-> NoMM]
TbSample(s, el) ==
  LET c == Calls(el, MCDelim, 3) IN     \* part0 := Next() ; part1, has1 := NextOk() ; part2, has2 := NextOk()
  IF c[3].ok
  THEN (IF ParseIntOK(c[3].ret) THEN TbSampleItem(s, c[1].ret, c[2].ret, ParseIntVal(c[3].ret)) ELSE [s EXCEPT !.errors = @ + 1])
  ELSE IF c[2].ok THEN TbSampleItem(s, c[1].ret, c[2].ret, 1)
  ELSE TbSampleItem(s, c[1].ret, <<>>, 1)

Without(f, k) == [x \in DOMAIN f \ {k} |-> f[x]]
RECURSIVE TrimRowLoop(_, _, _, _, _, _)
\* inner loop of Trim for one column over the rows in iteration order ro; rows deleted earlier are not visited
TrimRowLoop(rows, p, col, ro, i, keepAny) ==
  IF i > Len(ro) THEN [rows |-> rows, keep |-> keepAny]
  ELSE IF ro[i] \notin DOMAIN rows THEN TrimRowLoop(rows, p, col, ro, i + 1, keepAny)
  ELSE LET rn      == ro[i]
           row     == rows[rn]
           present == col \in DOMAIN row.cells
           hit     == PredHolds(p, col, rn, Get0(row.cells, col))
           cells1  == IF hit THEN Without(row.cells, col) ELSE row.cells
           keep1   == keepAny \/ (~hit /\ (present \/ ~TrimFixed))
           rows1   == IF DOMAIN cells1 = {} THEN Without(rows, rn) ELSE [rows EXCEPT ![rn].cells = cells1]
       IN TrimRowLoop(rows1, p, col, ro, i + 1, keep1)
RECURSIVE TrimColLoop(_, _, _, _, _)
TrimColLoop(s, p, co, ro, j) ==
  IF j > Len(co) THEN s
  ELSE LET r == TrimRowLoop(s.rows, p, co[j], ro, 1, FALSE)
       IN TrimColLoop([cols |-> IF r.keep THEN s.cols ELSE Without(s.cols, co[j]), rows |-> r.rows,
                       errors |-> s.errors, mm |-> s.mm], p, co, ro, j + 1)
TbTrim(s, p, co, ro) ==
  LET t == TrimColLoop(s, p, co, ro, 1) IN IF Memo = "stale" THEN t ELSE [t EXCEPT !.mm = NoMM]

TbValue(s, row, col) == Get0(s.rows[row].cells, col)
TbSum(s) == SumF(DOMAIN s.cols, s.cols)
TbMinMaxScan(s) ==
  LET V == {TbValue(s, r, c) : r \in DOMAIN s.rows, c \in DOMAIN s.cols}
  IN IF V = {} THEN <<0, 0>> ELSE <<MinOf(V), MaxOf(V)>>
\* ComputeMinMax(): what the caller gets ...
TbMinMax(s) == IF Memo # "none" /\ s.mm.valid THEN s.mm.v ELSE TbMinMaxScan(s)
\* ... and what the call leaves behind
TbObserve(s) == IF Memo = "none" THEN s ELSE [s EXCEPT !.mm = [valid |-> TRUE, v |-> TbMinMax(s)]]
TbCore(s) == [cols |-> s.cols, rows |-> s.rows, errors |-> s.errors]

\* ----------------------------------------------------------- MatchNumerical
NmInit == [values |-> <<>>, errors |-> 0]
NmSample(s, el) ==
  LET d == NumParseB(el, MCBase) IN
  IF d.c = "num" THEN [s EXCEPT !.values = Append(@, d.v)]
  ELSE IF d.c = "err" THEN [s EXCEPT !.errors = @ + 1] ELSE s
\* the instance's Reverse setting (fixed at construction): ascending for profile 1
NmReverse == Which = "num" /\ Profile % 2 = 0
NmOrdered(s, rev) == IF rev THEN SortSeq(s.values, LAMBDA a, b : a > b) ELSE SortSeq(s.values, LAMBDA a, b : a < b)
NmMedian(s, rev) == NmOrdered(s, rev)[Len(s.values) \div 2 + 1]
NmQuantile(s, p3, rev) ==
  LET n == Len(s.values)
      i == (n * p3) \div 1000
  IN NmOrdered(s, rev)[(IF i >= n THEN n - 1 ELSE i) + 1]
\* Analyze() sorts the kept values in place (later samples are appended to the sorted list)
NmAnalyze(s) == [s EXCEPT !.values = NmOrdered(s, NmReverse)]
\* Mode(): first longest run of the ordered series
NmMode(s, rev) ==
  LET o == NmOrdered(s, rev)
      cnt(x) == Cardinality({i \in 1..Len(o) : o[i] = x})
      best == MaxOf({cnt(o[i]) : i \in 1..Len(o)})
  IN o[MinOf({i \in 1..Len(o) : cnt(o[i]) = best})]

\* -------------------------------------------------------- AccumulatingGroup
\* data : group key -> row ; ctx : the exprAccumulatorContext object that lives as long as the aggregator.
\* look = the keyLookup closure: unset (nil), or bound to the row of group g (rows are never replaced
\* or deleted, so the captured slice IS data[g], including later writes to it)
NoLook == [set |-> FALSE, g |-> <<>>]
\* memo : column index -> value, what a memoising GetKey has answered so far in this sample ("memokey" only)
AgCtx0 == [match |-> <<>>, current |-> <<>>, look |-> NoLook, memo |-> EmptyFn]
AgInit == [data |-> EmptyFn, ctx |-> AgCtx0]
AgNames == [i \in 1..Len(AccCfg.cols) |-> AccCfg.cols[i].name]
\* what GetMatch / GetKey answer in context c over the data d (a remembered answer wins over the live row)
AgEvalCtx(d, c) ==
  LET row0 == IF c.look.set THEN d[c.look.g] ELSE <<>>
  IN [match |-> c.match, cur |-> c.current, names |-> IF c.look.set THEN AgNames ELSE <<>>,
      row |-> [i \in 1..Len(row0) |-> IF i \in DOMAIN c.memo THEN c.memo[i] ELSE row0[i]]]
\* buildGroupKey
AgGroupKey(d, c) ==
  JoinSeq([j \in 1..Len(AccCfg.groups) |-> Eval(AccCfg.groups[j].e, AgEvalCtx(d, c))], <<NUL>>)
\* the keys an expression looks up
RECURSIVE KeysOf(_)
KeysOf(e) ==
  IF e.t = "k" THEN (IF e.s = DOT THEN {} ELSE {e.s})
  ELSE IF e.t \in {"lit", "m"} THEN {}
  ELSE UNION {KeysOf(e.a[j]) : j \in 1..Len(e.a)}
RECURSIVE AgCols(_, _, _, _)
\* the column loop: current := row[j] ; row[j] := expr(ctx), in place
AgCols(d, c, g, j) ==
  IF j > Len(AccCfg.cols) THEN [data |-> d, ctx |-> c]
  ELSE LET c1 == [c EXCEPT !.current = d[g][j]]
           x  == AgEvalCtx(d, c1)
           c2 == IF AccCtx # "memokey" THEN c1
                 ELSE [c1 EXCEPT !.memo = [i \in DOMAIN c1.memo \cup {i \in 1..Len(AgNames) : AgNames[i] \in KeysOf(AccCfg.cols[j].e)}
                                            |-> x.row[i]]]
       IN AgCols([d EXCEPT ![g][j] = Eval(AccCfg.cols[j].e, x)], c2, g, j + 1)
\* "init shared context": what the top of Sample makes of the context the previous call left behind
AgTop(c, el) ==
  [match |-> el,
   current |-> IF AccCtx = "stalecur" THEN c.current ELSE <<>>,
   look |-> IF AccCtx = "stalelook" THEN c.look ELSE NoLook,
   memo |-> EmptyFn]
AgSample(s, el) ==
  LET c0 == AgTop(s.ctx, el)
      g  == AgGroupKey(s.data, c0)
      d1 == IF g \in DOMAIN s.data THEN s.data
            ELSE Upd(s.data, g, [j \in 1..Len(AccCfg.cols) |-> AccCfg.cols[j].init])
      \* "now that row are defined, allow retrieving them"
      r  == AgCols(d1, [c0 EXCEPT !.look = [set |-> TRUE, g |-> g]], g, 1)
  IN [data |-> r.data, ctx |-> IF AccCtx = "fresh" THEN AgCtx0 ELSE r.ctx]

\* ------------------------------------------------------------------ machine
Init ==
  /\ AInit /\ len = 0
  /\ cm = CmInit /\ sk = SkInit /\ tb = TbInit /\ nm = NmInit /\ ag = AgInit

Sample(el) ==
  CASE Which = "ctr" -> ASampleCtr(el) /\ cm' = CmSample(cm, el) /\ UNCHANGED <<sk, tb, nm, ag>>
    [] Which = "sub" -> ASampleSub(el) /\ sk' = SkSample(sk, el) /\ UNCHANGED <<cm, tb, nm, ag>>
    [] Which = "tbl" -> ASampleTblD(el, MCDelim) /\ tb' = TbSample(tb, el) /\ UNCHANGED <<cm, sk, nm, ag>>
    [] Which = "num" -> ASampleNumB(el, MCBase) /\ nm' = NmSample(nm, el) /\ UNCHANGED <<cm, sk, tb, ag>>
    [] Which = "acc" -> ASampleAcc(el) /\ ag' = AgSample(ag, el) /\ UNCHANGED <<cm, sk, tb, nm>>
\* the two map iterations of Trim may run in any order
Trim(p) ==
  /\ Which = "tbl" /\ ATrimTbl(p)
  /\ \E co \in SetToSeqs(DOMAIN tb.cols), ro \in SetToSeqs(DOMAIN tb.rows) : tb' = TbTrim(tb, p, co, ro)
  /\ UNCHANGED <<cm, sk, nm, ag>>
\* reading every public accessor: a stuttering step of the abstract machine
Observe ==
  /\ AObserve
  /\ tb' = (IF Which = "tbl" THEN TbObserve(tb) ELSE tb)
  /\ nm' = (IF Which = "num" THEN NmAnalyze(nm) ELSE nm)
  /\ UNCHANGED <<cm, sk, ag>>
Next ==
  /\ len < MaxLen /\ len' = len + 1
  /\ (\E el \in Elems : Sample(el)) \/ (\E p \in Preds : Trim(p)) \/ Observe
Spec == Init /\ [][Next]_vars

\* -------------------------------------------- simulation relation / invariants
SimCtr == cm.matches = ctr.cnt /\ cm.total = CtrTotal(ctr) /\ cm.errors = ctr.err

SkAligned ==
  /\ \A k \in DOMAIN sk.rows : Len(sk.rows[k].vec) = Len(sk.subKeys)
  /\ \A i \in 1..(Len(sk.subKeys) - 1) : BytesLess(sk.subKeys[i], sk.subKeys[i + 1])       \* strictly sorted
  /\ DOMAIN sk.subKeyIdx = {sk.subKeys[i] : i \in 1..Len(sk.subKeys)}
  /\ \A i \in 1..Len(sk.subKeys) : sk.subKeyIdx[sk.subKeys[i]] = i
  /\ \A k \in DOMAIN sk.rows : sk.rows[k].count = SumF(1..Len(sk.subKeys), sk.rows[k].vec)  \* row total = sum of cells
SimSub ==
  /\ DOMAIN sk.rows = GridAs(sub)
  /\ {sk.subKeys[i] : i \in 1..Len(sk.subKeys)} = GridBs(sub)
  /\ \A k \in DOMAIN sk.rows : /\ sk.rows[k].count = GridRowSum(sub, k)
                               /\ \A i \in 1..Len(sk.subKeys) : sk.rows[k].vec[i] = GridAt(sub, k, sk.subKeys[i])
  /\ sk.errors = sub.err

SimTbl ==
  /\ DOMAIN tb.rows = GridAs(tbl)
  /\ DOMAIN tb.cols = GridBs(tbl)                       \* after a trim: no empty column stays
  /\ \A r \in DOMAIN tb.rows : DOMAIN tb.rows[r].cells = {q[2] : q \in {q \in DOMAIN tbl.cell : q[1] = r}}
  /\ \A q \in DOMAIN tbl.cell : tb.rows[q[1]].cells[q[2]] = tbl.cell[q]
  /\ TbMinMax(tb) = GridMinMax(tbl)
  /\ tb.errors = tbl.err
\* the three redundant totals (only specified while nothing was trimmed)
TbRedundancy ==
  ~tbl.dirty =>
    /\ \A r \in DOMAIN tb.rows : tb.rows[r].sum = GridRowSum(tbl, r)
    /\ \A c \in DOMAIN tb.cols : tb.cols[c] = GridColSum(tbl, c)
    /\ TbSum(tb) = GridSum(tbl)

SimNum ==
  /\ Len(nm.values) = num.n /\ nm.errors = num.err
  /\ \A v \in DOMAIN num.bag : num.bag[v] = Cardinality({i \in 1..Len(nm.values) : nm.values[i] = v})
  /\ \A i \in 1..Len(nm.values) : nm.values[i] \in DOMAIN num.bag
\* the rank definitions of the abstract layer are the indices of the sorted list
OrderStats ==
  num.n > 0 =>
    \A rev \in BOOLEAN :
      LET o == NmOrdered(nm, rev) IN
      /\ \A i \in 0..(num.n - 1) : ValueAt(num, i, rev) = o[i + 1]
      /\ ValueAt(num, MedianIdx(num.n), rev) = NmMedian(nm, rev)
      /\ \A p3 \in {0, 125, 250, 500, 750, 900, 990, 999, 1000} :
           ValueAt(num, QuantIdx(num.n, p3), rev) = NmQuantile(nm, p3, rev)
      /\ NmMode(nm, rev) \in Modes(num)
      /\ NumMin(num) = (IF rev THEN o[Len(o)] ELSE o[1]) /\ NumMax(num) = (IF rev THEN o[1] ELSE o[Len(o)])
\* mean and variance: the acceptance predicates accept the exactly rounded values and
\* reject values two units away (so the tolerance is neither vacuous nor too tight)
RECURSIVE ISqrtB(_, _, _)
ISqrtB(n, lo, hi) ==      \* lo^2 <= n < hi^2
  IF hi = lo + 1 THEN lo
  ELSE LET mid == (lo + hi) \div 2 IN IF mid * mid <= n THEN ISqrtB(n, mid, hi) ELSE ISqrtB(n, lo, mid)
ISqrt(n) == ISqrtB(n, 0, 46341)
\* large values: the delta state determines the moments of the full values (exact arithmetic;
\* besides the model's base also bases far beyond 32 bits and of either sign)
ShiftLaw ==
  \A B \in {MCBase, BaseOfText(<<49, 55, 48, 48, 48, 48, 48, 48, 48, 48>>),
            BaseOfText(<<45, 57, 57, 57, 57, 57, 57, 57, 57, 57, 57, 57>>), BI(-1)} : ShiftLawAt(num, B)
\* any two samples commute, read relative to the model's base
CommuteB == CommuteAtD(MCBase, MCDelim)
CommuteLe3 == len <= 3 => CommuteB       \* (the costly law on the shallower states of a deep run)
\* text <-> value: every generated text reads back as its delta, in either spelling
TextLaw ==
  len = 0 =>        \* (a law of constants: evaluated once)
  \A d \in {0, 1, -1, 999, 1000, -1000, 1500, 12345678, -999999999, 999999999} :
    LET b == BAdd(MCBase, BI(d)) IN
    /\ NumLex(NumText(b)).c = "num" /\ BEq(NumLex(NumText(b)).b, b)
    /\ NumParseB(NumText(b), MCBase) = [c |-> "num", v |-> d]
    /\ (b.s >= 0 => NumParseB(<<43>> \o NumText(b), MCBase) = [c |-> "num", v |-> d])
MomentsOK ==
  /\ num.n >= 1 =>
       LET m == BToInt(num.s1) \div num.n IN MeanOK(num, m) /\ ~MeanOK(num, m + 3) /\ ~MeanOK(num, m - 2)
  /\ num.n >= 2 =>
       LET v == BToInt(NumVar(num)[1]) \div BToInt(NumVar(num)[2])
           r == ISqrt(v)
       IN SdOK(num, r) /\ ~SdOK(num, r + 4) /\ (r >= 4 => ~SdOK(num, r - 4))

\* (the costly numerical laws on the shallower states of a deep run)
ShiftLawLe3 == len <= 3 => ShiftLaw
NumLawsLe3 == len <= 3 => (OrderStats /\ MomentsOK /\ ShiftLaw /\ CommuteB)

\* accumulating group: the rows are the abstract fold's, and - whatever the shared context was left
\* holding by the history so far - the NEXT sample's group is the abstract one: a function of the
\* sample alone (no data column, current value or unknown key shows through)
SimAcc == ag.data = acc
AccKeyPure ==
  Which = "acc" =>
    \A el \in Elems : AgGroupKey(ag.data, AgTop(ag.ctx, el)) = AccGroupKey(AccCfg, el)
\* the group of a sample does not depend on what was sampled before (abstract layer: by construction;
\* stated on the fold: the key set of the state is the image of the samples)
AccGroupsOK == Which = "acc" => \A g \in DOMAIN acc : \E el \in Elems : g = AccGroupKey(AccCfg, el)

Sim == SimCtr /\ SkAligned /\ SimSub /\ SimTbl /\ TbRedundancy /\ SimNum /\ SimAcc
=============================================================================

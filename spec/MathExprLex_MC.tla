--------------------------- MODULE MathExprLex_MC ---------------------------
(* B3 for the lexical layer of C19 (MathExprLex).  One state per text:          *)
(*   kind "ctl"  the laws that need no text: every printable byte has one role; *)
(*               the values of the documented number formats (decimal, 0x, 0b,  *)
(*               fractions) against the positional definition, 007 / 010 are    *)
(*               outside them; and the NEGATIVE CONTROLS - other designs of     *)
(*               "what is a bare name" / "what is a boxed key" are each refuted *)
(*               by a malformed text they accept:                               *)
(*                 name "A..z"       a byte loop with the range 'A'..'z', which  *)
(*                                   also holds [ \ ] ^ _ `  (seed C19-5)        *)
(*                 name "ident"      identifiers with underscores               *)
(*                 name "nonnumeric" whatever is not a number is a variable     *)
(*                 box  "ends"       begins with [ and ends with ] (before fix   *)
(*                                   00f39bd)                                    *)
(*                 box  "open"       merely begins with [                        *)
(*   kind "edit" every operand of Operands with every byte of EditBytes (all 32 *)
(*               punctuation bytes, the blank, five letters/digits) inserted at *)
(*               every position or written over every byte, in every context of *)
(*               Contexts[1..NCtx] (alone, operand of an operator, inside a     *)
(*               group, argument of a function, after a unary operator, implied *)
(*               multiplication, between blanks)                                *)
(*   kind "str"  every byte string up to MaxLen over each of six alphabets      *)
(* For every text LexLawFor: the byte-level transcription of the code never     *)
(* panics, rejects what the lexical grammar calls malformed, accepts what it    *)
(* calls well-formed with the grammar's tree; and AzOnlyThere: the 'A'..'z'     *)
(* design differs from the code only on texts holding one of [ \ ] _ ` .        *)
EXTENDS MathExprLex

CONSTANTS Kinds, NCtx, MaxLen

VARIABLE st
lvars == <<st>>

Operands == <<<<55>>,                       \* 7
              <<49, 50>>,                   \* 12
              <<50, 46, 53>>,               \* 2.5
              <<48, 120, 49, 70>>,          \* 0x1F
              <<48, 120, 97>>,              \* 0xa
              <<48, 98, 49, 48, 49>>,       \* 0b101
              <<120>>,                      \* x
              <<97, 98>>,                   \* ab
              <<120, 49>>,                  \* x1
              <<89, 122>>,                  \* Yz
              <<91, 48, 93>>,               \* [0]
              <<91, 120, 93>>,              \* [x]
              <<91, 49, 50, 93>>,           \* [12]
              <<91, 97, 98, 93>>,           \* [ab]
              <<91, 97, 95, 98, 93>>>>      \* [a_b]
EditBytes == Punct \cup {SP, 48, 57, 97, 120, 71}
Contexts == << << <<>>, <<>> >>,                                    \* the operand alone
               << <<50, 43>>, <<>> >>,                              \* 2+ .
               << <<97, 98, 115, 40>>, <<41>> >>,                   \* abs( . )
               << <<>>, <<42, 51>> >>,                              \* . *3
               << <<40>>, <<41>> >>,                                \* ( . )
               << <<45>>, <<>> >>,                                  \* - .
               << <<50, 40>>, <<41>> >>,                            \* 2( . )
               << <<49, 32, 60, 32>>, <<32, 38, 38, 32, 49>> >> >>  \* 1 < . && 1
Alphabets == << {120, 49, 91, 93, 95, 43},    \* x 1 [ ] _ +
                {48, 120, 49, 98, 70, 46},    \* 0 x 1 b F .
                {97, 92, 96, 40, 41, 50},     \* a \ ` ( ) 2
                {91, 48, 93, 32, 120, 45},    \* [ 0 ] blank x -
                {50, 36, 58, 60, 61, 33},     \* 2 $ : < = !
                {120, 93, 95, 96, 91, 92} >>  \* x ] _ ` [ \

Edited(op, c, p, ins) == IF ins THEN SubSeq(op, 1, p) \o <<c>> \o SubSeq(op, p + 1, Len(op)) ELSE [op EXCEPT ![p] = c]
InCtx(x, w) == Contexts[x][1] \o w \o Contexts[x][2]
EditsOf(o) ==
  {[g |-> "edit", a |-> x, T |-> InCtx(x, Edited(Operands[o], c, p, TRUE))]
     : c \in EditBytes, p \in 0..Len(Operands[o]), x \in 1..NCtx}
  \cup {[g |-> "edit", a |-> x, T |-> InCtx(x, Edited(Operands[o], c, p, FALSE))]
     : c \in EditBytes, p \in 1..Len(Operands[o]), x \in 1..NCtx}

\* --------------------------------------------------------------- "ctl" laws
RECURSIVE DigB(_, _, _)
DigB(n, base, up) == LET d == n % base
                         ch == IF d < 10 THEN 48 + d ELSE IF up THEN 55 + d ELSE 87 + d IN
                     IF n < base THEN <<ch>> ELSE Append(DigB(n \div base, base, up), ch)
NumLaws ==
  /\ \A n \in 0..1300 :
       /\ DocNum(DigB(n, 10, FALSE)) = [ok |-> TRUE, known |-> TRUE, q |-> <<n, 1>>]
       /\ DocNum(<<48, 120>> \o DigB(n, 16, FALSE)).q = <<n, 1>> /\ DocNum(<<48, 120>> \o DigB(n, 16, TRUE)).q = <<n, 1>>
       /\ DocNum(<<48, 98>> \o DigB(n, 2, FALSE)) = [ok |-> TRUE, known |-> TRUE, q |-> <<n, 1>>]
       /\ \A pre \in {<<>>, <<48, 120>>, <<48, 98>>} :
            LET w == pre \o DigB(n, IF pre = <<>> THEN 10 ELSE IF pre[2] = 120 THEN 16 ELSE 2, TRUE) IN
            GoInt(w) = [ok |-> TRUE, known |-> TRUE, v |-> n] /\ JParse(w, Real) = [ok |-> TRUE, t |-> Num(<<n, 1>>), err |-> ""]
  /\ \A a \in 0..40, f \in {<<53>>, <<50, 53>>, <<55, 53>>, <<49, 50, 53>>, <<53, 48>>, <<48, 53>>, <<48>>} :
       LET w == DigB(a, 10, FALSE) \o <<DOT>> \o f
           d == DocNum(w) IN
       /\ d.ok /\ d.known /\ d.q[1] * P10(Len(f)) = (a * P10(Len(f)) + PosVal(f, 10)) * d.q[2] /\ GCD(d.q[1], d.q[2]) \in {0, 1} \cup {d.q[2]}
       /\ ~GoInt(w).ok /\ GoFloatOK(w) /\ JParse(w, Real).ok
  \* outside the documented formats (the code reads them its own way: 007 = 7, 010 = 8, 1_0 = 10, 1e3, 0X1F, .5, 5.)
  /\ \A w \in {<<48, 48, 55>>, <<48, 49, 48>>, <<49, 95, 48>>, <<49, 101, 51>>, <<48, 88, 49, 70>>, <<46, 53>>, <<53, 46>>,
               <<48, 120>>, <<48, 98, 50>>, <<57, 98>>, <<49, 46, 50, 46, 51>>, <<48, 120, 49, 112, 50>>} :
       ~DocNum(w).ok /\ LexClass(w).cls = "undoc"
  /\ GoInt(<<48, 49, 48>>).v = 8 /\ GoInt(<<49, 95, 48>>).v = 10 /\ GoFloatOK(<<49, 101, 51>>) /\ GoFloatOK(<<48, 120, 49, 112, 50>>)
  /\ ~GoInt(<<57, 98>>).ok /\ ~GoFloatOK(<<57, 98>>) /\ ~GoFloatOK(<<49, 46, 50, 46, 51>>) /\ ~GoFloatOK(<<48, 120>>)
  /\ ~GoInt(<<49, 95>>).ok /\ ~GoInt(<<95, 49>>).ok /\ ~GoInt(<<49, 95, 95, 48>>).ok /\ GoInt(<<48, 120, 95, 49>>).v = 1

Pol(n, b) == [name |-> n, box |-> b]
MustReject(T) == LexClass(T).cls = "mal"
Fooled(T, pol) == MustReject(T) /\ JParse(T, pol).ok /\ ~JParse(T, Real).ok
Wit(c) == {<<c>>, <<120, c>>, <<c, 120>>, <<50, 42, 120, c>>, <<97, 98, 115, 40, c, 41>>, <<97, c, 49, 43, 50>>}
ControlsRefuted ==
  \* seed C19-5: every byte between 'Z' and 'a' that can reach the name check gives a malformed formula it accepts
  /\ \A c \in {LBR, BSL, RBR, USC, BTK} : \A T \in Wit(c) : Fooled(T, Pol("A..z", "pair"))
  /\ \A T \in Wit(94) : JParse(T, Pol("A..z", "pair")) = JParse(T, Real)                 \* ^ is an operator: never part of a word
  /\ \A T \in {<<USC>>, <<97, USC, 98>>, <<50, 43, USC, 120>>} : Fooled(T, Pol("ident", "pair"))
  /\ \A T \in {<<36>>, <<120, RBR>>, <<50, 42, 120, 58, 121>>, <<LBR, 120>>} : Fooled(T, Pol("nonnumeric", "pair"))
  /\ \A T \in {<<LBR, 120, RBR, RBR>>, <<LBR, LBR, 120, RBR, RBR>>, <<LBR, 48, RBR, LBR, 49, RBR>>} : Fooled(T, Pol("regex", "ends"))
  /\ \A T \in {<<LBR, 120>>, <<LBR, 48, 43, 49>>, <<LBR, 120, 121>>} : Fooled(T, Pol("regex", "open"))
CtlLaw == CharClassesOK /\ FuncTabOK /\ NumLaws /\ ControlsRefuted

\* ------------------------------------------------------------- per-text laws
AzBytes == {LBR, BSL, RBR, USC, BTK}
AzOnlyThere(T) == (\A i \in 1..Len(T) : T[i] \notin AzBytes) => JParse(T, Pol("A..z", "pair")) = JParse(T, Real)
TextLaw(T) == LexLawFor(T, Real) /\ AzOnlyThere(T)

\* ---------------------------------------------------------------- the states
LInitMC ==
  \/ "ctl" \in Kinds /\ st = [g |-> "ctl", a |-> 0, T |-> <<>>]
  \/ "edit" \in Kinds /\ st \in {[g |-> "op", a |-> o, T |-> Operands[o]] : o \in 1..Len(Operands)}     \* (the operand itself, unedited)
  \/ "str" \in Kinds /\ st \in {[g |-> "str", a |-> k, T |-> <<>>] : k \in 1..Len(Alphabets)}
LNextMC ==
  \/ /\ st.g = "str" /\ Len(st.T) < MaxLen
     /\ \E c \in Alphabets[st.a] : st' = [st EXCEPT !.T = Append(@, c)]
  \/ st.g = "op" /\ st' \in EditsOf(st.a)
LLaw == IF st.g = "ctl" THEN CtlLaw ELSE TextLaw(st.T)
=============================================================================

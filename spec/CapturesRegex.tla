---------------------------- MODULE CapturesRegex ----------------------------
(* C02 - reference semantics of the LEFTMOST match of a regular expression, for a  *)
(* small subset: byte classes, concatenation, alternation, ? * + (greedy) and       *)
(* capture groups.  "Leftmost-first" (Perl / Go regexp.Compile): among the matches  *)
(* starting at the smallest possible offset, the one a backtracking matcher finds  *)
(* first (alternatives left to right, repetitions as long as possible first).       *)
(*                                                                                 *)
(* A node is a record [op, a, b, k, set]:                                           *)
(*    eps                    the empty string                                       *)
(*    cls  set               one byte out of set (a literal is a one-byte class)    *)
(*    cat  a b               a then b                                               *)
(*    alt  a b               a, else b                                              *)
(*    opt  a                 a, else nothing                                        *)
(*    star a                 as many a as possible (an iteration must consume)      *)
(*    plus a                 a then star a                                          *)
(*    grp  k a               capture group number k around a                        *)
(* M(r, s, i, caps) lists, in order of preference, every way r matches s from       *)
(* offset i: pairs <<end offset, capture table>>.  A group inside a repetition      *)
(* keeps the span of its last iteration.  The expression families with              *)
(* engine-specific corner cases (an iteration that matches the empty string,        *)
(* empty alternatives) are not in the subset.                                       *)
EXTENDS Bytes

InSet(r, c) == \E j \in 1..Len(r.set) : r.set[j] = c
NoSpan == << 0 - 1, 0 - 1 >>

RECURSIVE M(_, _, _, _), Then(_, _, _), StarM(_, _, _, _), ThenStar(_, _, _)
\* continue every result in res with the expression r
Then(res, r, s) ==
  IF res = <<>> THEN <<>> ELSE M(r, s, res[1][1], res[1][2]) \o Then(Tail(res), r, s)
\* greedy repetition: one more (consuming) iteration first, stopping here last
StarM(a, s, i, caps) ==
  LET once == SelectSeq(M(a, s, i, caps), LAMBDA x : x[1] > i)
  IN ThenStar(once, a, s) \o << <<i, caps>> >>
ThenStar(res, a, s) ==
  IF res = <<>> THEN <<>> ELSE StarM(a, s, res[1][1], res[1][2]) \o ThenStar(Tail(res), a, s)
M(r, s, i, caps) ==
  CASE r.op = "eps"  -> << <<i, caps>> >>
    [] r.op = "cls"  -> IF i < Len(s) /\ InSet(r, s[i + 1]) THEN << <<i + 1, caps>> >> ELSE <<>>
    [] r.op = "cat"  -> Then(M(r.a, s, i, caps), r.b, s)
    [] r.op = "alt"  -> M(r.a, s, i, caps) \o M(r.b, s, i, caps)
    [] r.op = "opt"  -> M(r.a, s, i, caps) \o << <<i, caps>> >>
    [] r.op = "star" -> StarM(r.a, s, i, caps)
    [] r.op = "plus" -> LET once == M(r.a, s, i, caps) IN ThenStar(once, r.a, s)
    [] r.op = "grp"  -> LET inner == M(r.a, s, i, caps) IN
                        [j \in 1..Len(inner) |-> <<inner[j][1], [inner[j][2] EXCEPT ![r.k] = <<i, inner[j][1]>>]>>]

\* the index vector of the leftmost(-first) match of r (with n capture groups) in s, or <<>>
RECURSIVE FirstFrom(_, _, _, _)
FirstFrom(r, n, s, i) ==
  IF i > Len(s) THEN <<>>
  ELSE LET ms == M(r, s, i, [k \in 1..n |-> NoSpan]) IN
       IF ms = <<>> THEN FirstFrom(r, n, s, i + 1)
       ELSE <<i, ms[1][1]>> \o Flatten([k \in 1..n |-> ms[1][2][k]])
RegexIdx(r, n, s) == FirstFrom(r, n, s, 0)
=============================================================================

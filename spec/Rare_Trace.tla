----------------------------- MODULE Rare_Trace -----------------------------
(* C03, B2 (and the checking half of B1): validates recorded runs of the REAL   *)
(* rare binary against Rare.tla.                                                *)
(*                                                                              *)
(*   reset{t, pool:[bytes], seq:[pool index], cmd, ext, ig, iv, grp, acc,       *)
(*         gname, anames}        a corpus (the lines are pool[seq[i]], in this  *)
(*                               order) and a command descriptor                *)
(*   run{kind:"csv"|"snap", ranges:[[lo,hi]], names:[bytes], missing, readers,  *)
(*       workers, pace, exit, msg, stdout}                                      *)
(*                               one execution of the binary: the file          *)
(*                               arguments hold seq[lo..hi] in argument order   *)
(*                               (plain, gzip or stdin, whatever tuning flags), *)
(*                               names[i] is what {src} reads for argument i,   *)
(*                               `missing` further arguments name no file;      *)
(*                               `pace` = <<[n, ms]>>: stdin was written in     *)
(*                               bursts of n lines, each followed by a pause of *)
(*                               ms milliseconds (no observable may depend on   *)
(*                               it: RareScreen_MC / RareWorker_MC)             *)
(* A command using {line} / {src} is judged against the reference aggregate of  *)
(* the layout of the run (ExpectLay), every other against Expect.               *)
(*                                                                              *)
(* For every run TLC decodes the CSV bytes with CsvDec and requires: records =  *)
(* the CSV of the reference aggregate, exit status / final message = ExitState, *)
(* numbers of the summary line = the model's counts, and the snapshot text      *)
(* (status footer masked) identical for all runs of one reset group.  A run the *)
(* spec cannot explain is recorded in `bad` with the first failed clause.       *)
EXTENDS Rare, CsvDec, Json

Trace == ndJsonDeserialize("trace.ndjson")

VARIABLES l, tid, rst, exp, snap, snapLay, bad
tvars == <<l, tid, rst, exp, snap, snapLay, bad>>

Ev == Trace[l]

-----------------------------------------------------------------------------
-----------------------------------------------------------------------------
\* text helpers
Lines(txt) == SplitOn(txt, 10)
RECURSIVE NumsOf(_, _, _)
\* the maximal digit runs of a line, as numbers
NumsOf(s, i, cur) ==
  IF i > Len(s) THEN (IF cur = <<>> THEN <<>> ELSE <<DigitsVal(cur, 0)>>)
  ELSE IF IsDigit(s[i]) THEN NumsOf(s, i + 1, Append(cur, s[i]))
  ELSE (IF cur = <<>> THEN <<>> ELSE <<DigitsVal(cur, 0)>>) \o NumsOf(s, i + 1, <<>>)
S_Matched == <<77, 97, 116, 99, 104, 101, 100, 58, 32>>          \* "Matched: "
SummaryLine(ls) ==
  LET S == {i \in 1..Len(ls) : IsPrefixOf(S_Matched, ls[i])} IN IF S = {} THEN <<>> ELSE ls[MaxOf(S)]
\* the snapshot without the batcher status footer (last line; bytes read / rate / active files
\* are time dependent by construction)
Body(txt) == LET ls == Lines(txt) IN IF Len(ls) < 3 THEN <<>> ELSE SubSeq(ls, 1, Len(ls) - 2)

\* a line with every run of spaces collapsed (renderers keep column widths from earlier progressive
\* renders, so padding may differ between a run that rendered once and one that rendered twice)
\* ... and with the bar glyphs U+2580..U+259F (bytes E2 96 80..9F) removed: the bar graph scales the
\* bars of a render against the largest value seen SO FAR, so bar lengths depend on earlier renders too
RECURSIVE DropBars(_)
DropBars(s) ==
  IF s = <<>> THEN <<>>
  ELSE IF Len(s) >= 3 /\ s[1] = 226 /\ s[2] = 150 /\ s[3] \in 128..159 THEN DropBars(SubSeq(s, 4, Len(s)))
  ELSE <<s[1]>> \o DropBars(Tail(s))
NormLine(line) == JoinSeq(SelectSeq(SplitOn(DropBars(line), 32), LAMBDA p : p # <<>>), <<32>>)
NormBody(txt) == LET b == Body(txt) IN [i \in 1..Len(b) |-> NormLine(b[i])]
SnapDiff(a, b) == IF Body(a) = Body(b) THEN "" ELSE IF NormBody(a) = NormBody(b) THEN "snapshot-padding" ELSE "snapshot-differs"

LastTok(line) == LET p == SplitOn(line, 32) IN p[Len(p)]
\* "-12.3400" -> -123400 ; [ok, v]
Dec4(tok) ==
  LET neg == tok # <<>> /\ tok[1] = 45
      t   == IF neg THEN Tail(tok) ELSE tok
      p   == SplitOn(t, 46)
  IN IF Len(p) = 2 /\ AllDigits(p[1]) /\ AllDigits(p[2]) /\ Len(p[2]) = 4 /\ Len(p[1]) <= 5
     THEN [ok |-> TRUE, v |-> (IF neg THEN -1 ELSE 1) * (DigitsVal(p[1], 0) * 10000 + DigitsVal(p[2], 0))]
     ELSE [ok |-> FALSE, v |-> 0]
LineWith(ls, pre) ==
  LET S == {i \in 1..Len(ls) : IsPrefixOf(pre, ls[i])} IN IF S = {} THEN <<>> ELSE ls[MinOf(S)]
P_Samples == <<83, 97, 109, 112, 108, 101, 115, 58>>
P_Mean    == <<77, 101, 97, 110, 58>>
P_StdDev  == <<83, 116, 100, 68, 101, 118, 58>>
P_Min     == <<77, 105, 110, 58>>
P_Max     == <<77, 97, 120, 58>>
P_Median  == <<77, 101, 100, 105, 97, 110, 58>>
P_Mode    == <<77, 111, 100, 101, 58>>
P_Q(k)    == CASE k = 1 -> <<80, 57, 48, 46, 48, 48, 48, 48, 58>>        \* "P90.0000:"
               [] k = 2 -> <<80, 57, 57, 46, 48, 48, 48, 48, 58>>        \* "P99.0000:"
               [] k = 3 -> <<80, 57, 57, 46, 57, 48, 48, 48, 58>>        \* "P99.9000:"
QPerMille(k) == CASE k = 1 -> 900 [] k = 2 -> 990 [] k = 3 -> 999
Val4(ls, pre) == Dec4(LastTok(LineWith(ls, pre)))

\* analyze --extra: the printed statistics against the model (integers; mean within one unit
\* of the 4th decimal; quantile index floor(n*p), either neighbour accepted when n*p is integral)
AnalyzeOK(e, txt) ==
  LET ls == Lines(txt)
      st == e.agg
      n  == NumN(st)
      sum == NumSum(st)
      mean4 == (sum \div n) * 10000 + ((sum % n) * 10000) \div n
      got(pre) == Val4(ls, pre)
  IN /\ NumsOf(LineWith(ls, P_Samples), 1, <<>>) = <<n>>
     /\ n > 0 =>
          /\ got(P_Min).ok /\ got(P_Min).v = NumMin(st) * 10000
          /\ got(P_Max).ok /\ got(P_Max).v = NumMax(st) * 10000
          /\ got(P_Mean).ok /\ got(P_Mean).v \in {mean4, mean4 + 1}
          /\ got(P_Median).ok /\ got(P_Median).v = NumMedian(st) * 10000
          /\ got(P_Mode).ok /\ got(P_Mode).v = NumMode(st) * 10000
          /\ \A k \in 1..3 :
               LET idx == (n * QPerMille(k)) \div 1000
                   cand == {NumKth(st, idx + 1)} \cup (IF (n * QPerMille(k)) % 1000 = 0 /\ idx >= 1 THEN {NumKth(st, idx)} ELSE {})
               IN got(P_Q(k)).ok /\ got(P_Q(k)).v \in {c * 10000 : c \in cand}
\* analyze lines that are compared textually across runs: everything but Mean / StdDev
AnBody(txt) == SelectSeq(Body(txt), LAMBDA ln : ~IsPrefixOf(P_Mean, ln) /\ ~IsPrefixOf(P_StdDev, ln))
Near(a, b) == a.ok /\ b.ok /\ a.v - b.v \in -2..2
AnNear(t1, t2) == /\ Near(Val4(Lines(t1), P_Mean), Val4(Lines(t2), P_Mean))
                  /\ Near(Val4(Lines(t1), P_StdDev), Val4(Lines(t2), P_StdDev))

-----------------------------------------------------------------------------
\* the file arguments cover the corpus exactly once
RangesOK(r, N) ==
  LET rs == r.ranges IN
  /\ \A i \in 1..Len(rs) : rs[i][1] >= 1 /\ rs[i][2] <= N /\ rs[i][1] <= rs[i][2] + 1
  /\ FoldLeft(+, 0, [i \in 1..Len(rs) |-> rs[i][2] - rs[i][1] + 1]) = N
  /\ \A i, j \in 1..Len(rs) : (i < j /\ rs[i][1] <= rs[i][2] /\ rs[j][1] <= rs[j][2])
                                => (rs[i][2] < rs[j][1] \/ rs[j][2] < rs[i][1])
InOrder(r) == \A i \in 1..(Len(r.ranges) - 1) : r.ranges[i][2] < r.ranges[i + 1][1]
\* the clause "any accumulator with one reader and one worker"
Sequential(r) == r.readers = 1 /\ r.workers = 1 /\ InOrder(r)
InDomain(e, r) == e.indom /\ (Kind(e.cd) = "acc" => (AccOrderFree(e.cd) \/ Sequential(r)))

\* first clause of the property the run violates ("" = the run is a behaviour of the spec)
Why(e, r, sn) ==
  IF ~e.selfok THEN "spec-selfcheck"
  ELSE IF ~RangesOK(r, e.total) THEN "harness-layout"
  ELSE IF ~InDomain(e, r) THEN ""
  ELSE LET es == ExitState(r.missing, e.perr, e.matched)
           dec == Decode(r.stdout)
           ls == Lines(r.stdout)
       IN
       IF r.exit # es.code THEN "exit-status"
       ELSE IF r.msg # es.msg THEN "exit-message"
       ELSE IF r.kind = "csv" THEN
            (IF ~dec.ok THEN "csv-malformed"
             ELSE IF Len(dec.recs) = 0 \/ dec.recs[1] # e.csv[1] THEN "csv-header"
             ELSE IF dec.recs # e.csv THEN "csv-rows"
             ELSE "")
       ELSE \* snapshot
            IF NumsOf(SummaryLine(ls), 1, <<>>) # e.nums THEN "summary-counts"
            ELSE IF Kind(e.cd) = "num" THEN
                 (IF ~AnalyzeOK(e, r.stdout) THEN "analyze-values"
                  ELSE IF sn # <<>> /\ (AnBody(sn) # AnBody(r.stdout) \/ ~AnNear(sn, r.stdout)) THEN "snapshot-differs"
                  ELSE "")
            ELSE IF sn # <<>> THEN SnapDiff(sn, r.stdout)
            ELSE ""

-----------------------------------------------------------------------------
LayOf(r) == [k \in 1..Len(r.ranges) |-> [name |-> r.names[k], lo |-> r.ranges[k][1], hi |-> r.ranges[k][2]]]
\* the layouts that matter for {line} / {src}: empty sources removed
LayKey(r) == SelectSeq(LayOf(r), LAMBDA x : x.lo <= x.hi)
TReset ==
  /\ l <= Len(Trace) /\ Ev.event = "reset"
  /\ tid' = Ev.t /\ rst' = Ev /\ snap' = <<>> /\ snapLay' = <<>>
  /\ exp' = IF LayoutDep(CdOf(Ev)) THEN [cd |-> CdOf(Ev)] ELSE Expect(Ev)
  /\ l' = l + 1 /\ UNCHANGED bad
TRun ==
  /\ l <= Len(Trace) /\ Ev.event = "run"
  /\ LET dep == LayoutDep(exp.cd)
         lok == RangesOK(Ev, Len(rst.seq)) /\ Len(Ev.names) = Len(Ev.ranges)
         e   == IF dep /\ lok THEN ExpectLay(rst, LayOf(Ev)) ELSE exp
         \* snapshots of a layout-dependent command are comparable for equal layouts only
         sn  == IF dep /\ snapLay # LayKey(Ev) THEN <<>> ELSE snap
         w   == IF dep /\ ~lok THEN "harness-layout" ELSE Why(e, Ev, sn)
     IN /\ bad' = IF w = "" THEN bad ELSE Append(bad, [t |-> tid, l |-> l, why |-> w])
        /\ IF Ev.kind = "snap" /\ snap = <<>>
           THEN snap' = Ev.stdout /\ snapLay' = LayKey(Ev)
           ELSE UNCHANGED <<snap, snapLay>>
  /\ l' = l + 1 /\ UNCHANGED <<tid, rst, exp>>

TInit == l = 1 /\ tid = 0 /\ rst = <<>> /\ exp = <<>> /\ snap = <<>> /\ snapLay = <<>> /\ bad = <<>>
TNext == TReset \/ TRun
TSpec == TInit /\ [][TNext]_tvars

Final == (l = Len(Trace) + 1) => JsonSerialize("bad.json", [bad |-> bad, consumed |-> l - 1, done |-> TRUE])
=============================================================================

---------------------------- MODULE ScannerStall ----------------------------
(* C04 - progress of readahead.ImmediateReadAhead under a reader that stalls.   *)
(*                                                                              *)
(* The property quantifies over "every way the underlying reader chunks, stalls *)
(* (0-byte reads) or fails" and over "every buffer size from 1 up".  ScannerImm *)
(* already lets the environment answer (0, nil) at any Read; this module        *)
(*   * keeps the reader's whole script as a history and states the law          *)
(*     "a stall changes nothing" explicitly (StallNoop, StallReturns, StallLaw),*)
(*     for runs of several stalls in a row and any number of them in total;     *)
(*   * models what a Read with NO room in the buffer does (the io.Reader        *)
(*     contract: (0, nil), as often as it is asked - this is not a stall of     *)
(*     the reader and not bounded by MaxStall), so that a scanner that asks     *)
(*     for nothing spins for ever: RoomToRead, Terminates;                      *)
(*   * spans a small design space around the code, the designs other than the   *)
(*     code's serving as controls:                                              *)
(*       Guard    = "none"        the code: no no-progress guard                *)
(*                | "total"       stalls counted over the whole stream, the     *)
(*                                Budget-th one is turned into a read error     *)
(*                | "consecutive" the same for a run of stalls (bufio style)    *)
(*       GrowRule = "imm"         the code: pending + bufSize                   *)
(*                | "buffered"    the sizing rule of BufferedReadAhead:         *)
(*                                max(bufSize, pending + bufSize / 2)           *)
EXTENDS ScannerImm

CONSTANTS Guard, Budget, GrowRule

VARIABLES gcount,     \* the guard design's counter (implementation state)
          script,     \* history: the reader's results in call order, [d |-> bytes, e |-> result]
          snap        \* <<>> or the scanner's state at the Read that was answered by the first stall of a run

svars == <<bufs, cur, offset, end, eof, pc, lastn, delivered, st, stalls, toks, handed, errs, done,
           gcount, script, snap>>

ImplState == <<bufs, cur, offset, end, eof, toks, handed, errs, done>>
Max2(a, b) == IF a > b THEN a ELSE b

SInit == Init /\ gcount = 0 /\ script = <<>> /\ snap = <<>>

Keep == UNCHANGED <<gcount, script, snap>>

\* "Increase buf if needed" with the sizing rule of the design
SGrow ==
  /\ pc = "grow"
  /\ IF end >= Len(Buf) THEN
       LET pend == end - offset
           size == IF GrowRule = "imm" THEN pend + BufSize ELSE Max2(BufSize, pend + BufSize \div 2)
           nb   == WriteAt(Zeros(size), 0, SubSeq(Buf, offset + 1, end)) IN
       /\ bufs' = Append(bufs, nb)
       /\ cur' = Len(bufs) + 1
       /\ end' = pend
       /\ offset' = 0
     ELSE UNCHANGED <<bufs, cur, end, offset>>
  /\ pc' = "read"
  /\ UNCHANGED <<eof, lastn, delivered, st, stalls, toks, handed, errs, done>>
  /\ Keep

\* n, err := s.r.Read(s.buf[s.end:]).  With room the environment picks any result (a stall: n = 0, nil;
\* at most MaxStall in a row, any number in total); WITHOUT room the contract of io.Reader leaves only
\* (0, nil), every time - that is the scanner asking for nothing, not the reader stalling.
SRead ==
  /\ pc = "read"
  /\ LET room == Len(Buf) - end IN
     \E n \in 0..MinOf({room, MaxLen - Len(delivered)}) :
     \E data \in [1..n -> Alphabet] :
     \E e \in {"nil", "eof", "fail"} :
       LET empty   == n = 0 /\ e = "nil"
           isStall == empty /\ room > 0
           gc      == IF empty THEN gcount + 1 ELSE IF Guard = "consecutive" THEN 0 ELSE gcount
           fire    == Guard # "none" /\ empty /\ gc >= Budget IN
       /\ room = 0 => e = "nil"
       /\ isStall => stalls < MaxStall
       /\ stalls' = IF isStall THEN stalls + 1 ELSE IF room = 0 THEN stalls ELSE 0
       /\ gcount' = gc
       /\ bufs' = [bufs EXCEPT ![cur] = WriteAt(Buf, end, data)]
       /\ end' = end + n
       /\ lastn' = n
       /\ delivered' = delivered \o data
       /\ script' = IF room = 0 THEN script ELSE Append(script, [d |-> data, e |-> e])
       /\ snap' = IF isStall THEN (IF snap = <<>> THEN ImplState ELSE snap) ELSE <<>>
       /\ IF fire THEN              \* err = io.ErrNoProgress: the reader has NOT failed (st stays open)
               /\ eof' = TRUE /\ pc' = "onerr" /\ UNCHANGED st
          ELSE IF e = "nil" THEN /\ pc' = "check" /\ UNCHANGED <<eof, st>>
          ELSE /\ eof' = TRUE /\ st' = e
               /\ pc' = IF e = "fail" THEN "onerr" ELSE "restart"
  /\ UNCHANGED <<cur, offset, toks, handed, errs, done>>

SNext == (Call /\ Keep) \/ (Restart /\ Keep) \/ SGrow \/ SRead \/ (OnErr /\ Keep) \/ (Check /\ Keep)
SSpec == SInit /\ [][SNext]_svars /\ WF_svars(SNext)

--------------------------------------------------------------------------------
\* Read is never asked to read nothing: after "increase buf if needed" there is room
RoomToRead == pc = "read" => end < Len(Buf)

\* no unbounded work without input: a new buffer is only allocated after the previous one was filled, i.e. after
\* at least one more byte arrived (the safety face of "Scan() returns": a scanner that spins allocates for ever)
WorkBound == Len(bufs) <= Len(delivered) + 2

\* a stall of the reader changes nothing but the place in the code ...
StallNoop == [][(pc = "read" /\ stalls' = stalls + 1) =>
                  UNCHANGED <<bufs, cur, offset, end, eof, delivered, st, toks, handed, errs, done>>]_svars
\* ... and the scanner comes back to the same Read in the same state, however long the run of stalls
StallReturns == (pc = "read" /\ snap # <<>>) => ImplState = snap

\* the outcome of a script is the outcome of the script with its stalls removed
IsStallRec(r) == r.d = <<>> /\ r.e = "nil"
Destall(s) == SelectSeq(s, LAMBDA r : ~IsStallRec(r))
RECURSIVE Flat(_)
Flat(s) == IF s = <<>> THEN <<>> ELSE s[1].d \o Flat(Tail(s))
OutcomeOf(s) == [toks |-> A!RefSplit(Flat(s), TRUE),
                 errs |-> IF s # <<>> /\ s[Len(s)].e = "fail" THEN 1 ELSE 0]
StallLaw == done => [toks |-> toks, errs |-> errs] = OutcomeOf(Destall(script))
\* the history is faithful, and no step of the scanner but the reader's failure reports an error
ScriptOK == Flat(script) = delivered
StallsSeen == Len(script) - Len(Destall(script))      \* number of stalls so far (for coverage statements)
=============================================================================

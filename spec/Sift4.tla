-------------------------------- MODULE Sift4 --------------------------------
(* X04 (beyond the listed properties): pkg/fuzzy/sift4/simple.go transcribed.    *)
(* Distance(s1, s2, mo) is the "simplest" Sift4 string distance with search       *)
(* window mo; strings are sequences of code points; cursors are 0-based as in the *)
(* code (element c is s[c + 1]).  Ratio is the similarity 1 - d / max(len) as an  *)
(* exact fraction <<num, den>>.                                                   *)
EXTENDS Integers, Sequences

Max2(a, b) == IF a > b THEN a ELSE b

\* the inner `for i := 0; i < maxOffset && (c1+i < l1 || c2+i < l2); i++` - result <<c1, c2, found>>
RECURSIVE Scan(_, _, _, _, _, _)
Scan(s1, s2, c1, c2, i, mo) ==
  LET l1 == Len(s1) l2 == Len(s2) IN
  IF ~(i < mo /\ (c1 + i < l1 \/ c2 + i < l2)) THEN <<c1, c2, 0>>
  ELSE IF c1 + i < l1 /\ c2 < l2 /\ s1[c1 + i + 1] = s2[c2 + 1] THEN <<c1 + i, c2, 1>>
  ELSE IF c1 < l1 /\ c2 + i < l2 /\ s1[c1 + 1] = s2[c2 + i + 1] THEN <<c1, c2 + i, 1>>
  ELSE Scan(s1, s2, c1, c2, i + 1, mo)

RECURSIVE Loop(_, _, _, _, _, _, _)
Loop(s1, s2, c1, c2, lcss, loccs, mo) ==
  LET l1 == Len(s1) l2 == Len(s2) IN
  IF ~(c1 < l1 /\ c2 < l2) THEN Max2(l1, l2) - (lcss + loccs)
  ELSE IF s1[c1 + 1] = s2[c2 + 1] THEN Loop(s1, s2, c1 + 1, c2 + 1, lcss, loccs + 1, mo)
  ELSE LET c == IF c1 # c2 THEN Max2(c1, c2) ELSE c1      \* both cursors jump to the larger one
           r == Scan(s1, s2, c, c, 0, mo)
       IN Loop(s1, s2, r[1] + 1, r[2] + 1, lcss + loccs, r[3], mo)

Distance(s1, s2, mo) ==
  IF s1 = <<>> THEN Len(s2)
  ELSE IF s2 = <<>> THEN Len(s1)
  ELSE Loop(s1, s2, 0, 0, 0, 0, mo)

\* similarity as a fraction; two empty strings are identical.  As in the code (DistanceStringRatio) the distance is
\* counted in runes but divided by the larger length IN BYTES (len of a Go string): for keys with multi-byte
\* characters the similarity is higher than the rune-wise one - a named deviation from the textbook ratio, kept
\* because it is what `rare fuzzy` does; it stays within [0, 1] since d <= runes <= bytes.
Utf8Len(c) == IF c < 128 THEN 1 ELSE IF c < 2048 THEN 2 ELSE IF c < 65536 THEN 3 ELSE 4
RECURSIVE ByteLen(_)
ByteLen(s) == IF s = <<>> THEN 0 ELSE Utf8Len(Head(s)) + ByteLen(Tail(s))
Ratio(s1, s2, mo) ==
  IF s1 = <<>> /\ s2 = <<>> THEN <<1, 1>>
  ELSE LET m == Max2(ByteLen(s1), ByteLen(s2)) IN <<m - Distance(s1, s2, mo), m>>
\* ratio > p/q, and the tie the float32 arithmetic of the code may decide either way
Above(r, p, q) == r[1] * q > p * r[2]
Tie(r, p, q) == r[1] * q = p * r[2]
=============================================================================

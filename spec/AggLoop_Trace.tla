---------------------------- MODULE AggLoop_Trace ----------------------------
(* C05, B2: validates recorded executions of the real RunAggregationLoop (real *)
(* batcher, real extractor, instrumented aggregator and output function)       *)
(* against the abstract specification AggLoopObs.  Many traces are             *)
(* concatenated; each begins with a `reset` line carrying the per-key totals of *)
(* the generated input.  Events (in the order of the harness's sequence lock): *)
(*   senter{} sexit{key} renter{snap:[{k,n}], matched} rexit{} ret{} end{}      *)
(*   sbulk{d:[{k,n}]}   - a run of samples without a render in between          *)
(*   crash{class} hang{}   - never explained by the specification              *)
(* A trace the specification cannot explain is recorded in `bad` (trace id,    *)
(* line of the rejected event, why) and skipped.                                *)
EXTENDS AggLoopObs, Sequences, Json, TLC

Trace == ndJsonDeserialize("trace.ndjson")

VARIABLES l, tid, ended, bad
tvars == <<total, cnt, inS, inR, snap, snapM, fresh, returned, l, tid, ended, bad>>

Ev == Trace[l]
IsEv(e) == l <= Len(Trace) /\ Ev.event = e /\ l' = l + 1

\* [{k, n}] -> function over keys
KeysOf(s) == {s[i].k : i \in 1..Len(s)}
CountOf(s, k) == IF k \in KeysOf(s) THEN s[CHOOSE i \in 1..Len(s) : s[i].k = k].n ELSE 0
TotalFn(s) == [k \in KeysOf(s) |-> CountOf(s, k)]
\* a snapshot may only mention keys of the input; absent keys show 0
SnapFn(s) == [k \in DOMAIN total |-> CountOf(s, k)]

TReset ==
  /\ IsEv("reset")
  /\ total' = TotalFn(Ev.total)
  /\ cnt' = Zero(total') /\ snap' = Zero(total') /\ snapM' = 0
  /\ inS' = FALSE /\ inR' = FALSE /\ fresh' = FALSE /\ returned' = FALSE
  /\ tid' = Ev.t /\ ended' = FALSE

TSEnter == IsEv("senter") /\ SEnter /\ UNCHANGED <<tid, ended>>
TSExit  == IsEv("sexit") /\ SExit(Ev.key) /\ UNCHANGED <<tid, ended>>
TSBulk  == IsEv("sbulk") /\ SBulk(TotalFn(Ev.d)) /\ UNCHANGED <<tid, ended>>
TREnter ==
  /\ IsEv("renter")
  /\ KeysOf(Ev.snap) \subseteq DOMAIN total
  /\ REnter(SnapFn(Ev.snap), Ev.matched)
  /\ UNCHANGED <<tid, ended>>
TRExit  == IsEv("rexit") /\ RExit /\ UNCHANGED <<tid, ended>>
TRet    == IsEv("ret") /\ Ret /\ UNCHANGED <<tid, ended>>
\* end of the observation (a grace period after the return): nothing happened after `ret`
TEnd ==
  /\ IsEv("end") /\ returned /\ ~ended
  /\ ended' = TRUE
  /\ UNCHANGED <<total, cnt, inS, inR, snap, snapM, fresh, returned, tid>>

TStep == TReset \/ TSEnter \/ TSExit \/ TSBulk \/ TREnter \/ TRExit \/ TRet \/ TEnd

RECURSIVE NextReset(_)
NextReset(i) == IF i > Len(Trace) \/ Trace[i].event = "reset" THEN i ELSE NextReset(i + 1)

\* why the current event is rejected (diagnostics only)
Why ==
  LET e == Ev.event IN
  CASE e = "crash" -> "crash"
    [] e = "hang" -> "hang"
    [] e = "reset" -> "incomplete"
    [] returned -> "after-return"
    [] e = "senter" -> IF inR THEN "sample-during-render" ELSE "sample-overlap"
    [] e = "renter" -> IF inS THEN "render-during-sample"
                       ELSE IF inR THEN "render-overlap"
                       ELSE IF ~(KeysOf(Ev.snap) \subseteq DOMAIN total) THEN "snapshot-unknown-key"
                       ELSE IF SnapFn(Ev.snap) # cnt THEN "snapshot-not-aggregate"
                       ELSE IF Ev.matched < SumF(cnt) THEN "matched-below-shown"
                       ELSE "matched-above-input"
    [] e = "sexit" -> IF ~inS THEN "exit-without-enter" ELSE "sample-not-in-input"
    [] e = "sbulk" -> IF inR THEN "sample-during-render"
                      ELSE IF ~(KeysOf(Ev.d) \subseteq DOMAIN total) THEN "sample-not-in-input"
                      ELSE "count-above-final"
    [] e = "ret" -> IF inS \/ inR THEN "return-while-busy"
                    ELSE IF ~fresh THEN "no-render-after-last-sample"
                    ELSE IF snap # total THEN "final-render-incomplete"
                    ELSE "final-matched-incomplete"
    [] OTHER -> "unexpected-" \o e

Skip ==
  /\ l <= Len(Trace)
  /\ bad' = Append(bad, [t |-> tid, l |-> l, why |-> Why])
  /\ l' = NextReset(l + 1)
  /\ ended' = TRUE
  /\ UNCHANGED <<total, cnt, inS, inR, snap, snapM, fresh, returned, tid>>

\* a trace must have ended (`end`) before the next one starts
Incomplete ==
  /\ l <= Len(Trace) /\ Ev.event = "reset" /\ ~ended
  /\ bad' = Append(bad, [t |-> tid, l |-> l, why |-> "incomplete"])
  /\ ended' = TRUE
  /\ UNCHANGED <<total, cnt, inS, inR, snap, snapM, fresh, returned, tid, l>>

TInit ==
  /\ total = << >> /\ cnt = << >> /\ snap = << >> /\ snapM = 0
  /\ inS = FALSE /\ inR = FALSE /\ fresh = FALSE /\ returned = FALSE
  /\ l = 1 /\ tid = 0 /\ ended = TRUE /\ bad = <<>>
TNext == IF l <= Len(Trace) /\ Ev.event = "reset" /\ ~ended THEN Incomplete
         ELSE IF ENABLED TStep THEN TStep /\ UNCHANGED bad
         ELSE Skip
TSpec == TInit /\ [][TNext]_tvars

Final == (l = Len(Trace) + 1) =>
           JsonSerialize("bad.json", [bad |-> bad, consumed |-> l - 1, done |-> ended])
\* the abstract specification's own laws, evaluated at every recorded step
Laws == OMutex /\ (total # << >> => OSnapLeFinal /\ OMatchedGe /\ OFinal)
=============================================================================

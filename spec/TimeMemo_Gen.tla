---------------------------- MODULE TimeMemo_Gen ----------------------------
(* C05, B1/B2 for TimeMemo: inputs for the multi-worker runs.  A vector names   *)
(* an extraction over the line's timestamp with the default ("cache") format,   *)
(* the timestamp text of every class (written in one layout, as the cached      *)
(* format requires) and the key the calendar specification (TimeCal.tla, C18)   *)
(* demands for it; KeyOf of TimeMemo is this map.  The driver writes a log in   *)
(* which the classes alternate in irregular runs and lets several workers       *)
(* evaluate the one compiled expression; the per-key totals at the end (and     *)
(* every intermediate render) are judged by AggLoop_Trace against the line      *)
(* counts of the classes under these keys.                                      *)
EXTENDS TimeCal, Json, TLC

Day0 == DaysFromCivil(2021, 3, 4)
\* instants of the classes: several hours of one day, two of them within one hour (same hour bucket)
Insts == << Inst(Day0, 10 * 3600 + 15 * 60), Inst(Day0, 11 * 3600 + 20 * 60), Inst(Day0, 12 * 3600 + 5 * 60),
            Inst(Day0, 12 * 3600 + 45 * 60 + 7), Inst(Day0 + 1, 59) >>
LayoutsUsed == <<"RFC3339", "2006-01-02 15:04:05">>
Kinds == <<"time", "hours", "minutes", "days">>

UTC == Zone("UTC")
TsText(lay, t) == Format(Layout(lay), Local(UTC, t))
KeyText(kind, t) == IF kind = "time" THEN UnixDigits(t) ELSE Format(BucketLayout(kind), Local(UTC, t))
ExprOf(kind) == CASE kind = "time" -> "{time {1}}" [] kind = "hours" -> "{buckettime {1} hours}"
                  [] kind = "minutes" -> "{buckettime {1} m}" [] kind = "days" -> "{buckettime {1} day}"

Vec(lay, kind, n) ==
  [layout |-> lay, kind |-> kind, expr |-> ExprOf(kind),
   classes |-> [i \in 1..n |-> [ts |-> TsText(lay, Insts[i]), key |-> KeyText(kind, Insts[i])]]]

\* classes of one vector have different timestamp texts; different classes may share a key (same bucket)
VARIABLE done
Init == done = FALSE
Next == done' = TRUE
Spec == Init /\ [][Next]_done
Dump == done =>
  \A li \in 1..Len(LayoutsUsed) : \A ki \in 1..Len(Kinds) : \A n \in {3, 5} :
    PrintT("VFJ " \o ToJson(Vec(LayoutsUsed[li], Kinds[ki], n)))
=============================================================================

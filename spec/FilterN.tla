------------------------------- MODULE FilterN -------------------------------
(* `rare filter -n N`: print the first N matches seen and stop (cmd/filter.go).  *)
(* Beyond the listed properties: the early-exit path of the consumer, which the   *)
(* pipeline specifications (Pipeline.tla, AggLoop.tla) do not have - there the    *)
(* consumer always drains the match channel.                                      *)
(*                                                                                *)
(* Written like the code: one reader cutting the input into batches of B lines,   *)
(* W workers (receive a batch, keep its matching lines in input order, send the   *)
(* non-empty result on the bounded match channel, exit when the batch channel is  *)
(* closed and drained), a closer (wg.Wait; close), and the consumer loop of       *)
(* filterFunction: receive a batch, print its matches one by one, `break          *)
(* OUTER_LOOP` as soon as N lines were printed (N = 0: no limit) - possibly in    *)
(* the middle of a batch, leaving workers blocked on a full channel for ever,     *)
(* which is fine because the process exits.                                       *)
EXTENDS Integers, Sequences, FiniteSets, SequencesExt, TLC

CONSTANTS Match,   \* sequence of BOOLEAN: does input line i match (and give a non-empty key)
          N,       \* -n (0 = unlimited)
          W,       \* workers
          B,       \* batch size
          Cap,     \* capacity of the match channel
          StopAt   \* "limit" (code: stop when printed = N) | "never" (control: -n ignored) | "batch" (control: the limit
                   \*  is only tested between batches)

Lines   == 1..Len(Match)
Matches == SelectSeq([i \in Lines |-> i], LAMBDA i : Match[i])      \* the matching line numbers in input order
M       == Len(Matches)
MinI(a, b) == IF a < b THEN a ELSE b
Want    == IF N > 0 THEN MinI(N, M) ELSE M

VARIABLES next,      \* next input line the reader has not yet put into a batch
          inq,       \* batch channel: sequence of batches (each a sequence of line numbers)
          inClosed,
          wk,        \* worker -> [pc: "recv" | "send" | "done", out: matches of its current batch]
          ch,        \* match channel: sequence of match batches
          chClosed,
          cur,       \* consumer: rest of the batch being printed
          printed,   \* line numbers printed so far, in order
          cpc        \* consumer: "loop" | "summary" | "done"

vars == <<next, inq, inClosed, wk, ch, chClosed, cur, printed, cpc>>
Workers == 1..W

Init ==
  /\ next = 1 /\ inq = <<>> /\ inClosed = FALSE
  /\ wk = [w \in Workers |-> [pc |-> "recv", out |-> <<>>]]
  /\ ch = <<>> /\ chClosed = FALSE
  /\ cur = <<>> /\ printed = <<>> /\ cpc = "loop"

\* reader: the next batch of up to B lines (a regular file: batches are cut when full or at the end)
ReadBatch ==
  /\ ~inClosed /\ next <= Len(Match)
  /\ LET hi == MinI(next + B - 1, Len(Match)) IN
     /\ inq' = Append(inq, [i \in 1..(hi - next + 1) |-> next + i - 1])
     /\ next' = hi + 1
  /\ UNCHANGED <<inClosed, wk, ch, chClosed, cur, printed, cpc>>
ReadEnd ==
  /\ ~inClosed /\ next > Len(Match)
  /\ inClosed' = TRUE
  /\ UNCHANGED <<next, inq, wk, ch, chClosed, cur, printed, cpc>>

WorkerRecv(w) ==
  /\ wk[w].pc = "recv" /\ inq # <<>>
  /\ LET b == Head(inq) out == SelectSeq(b, LAMBDA i : Match[i]) IN
     wk' = [wk EXCEPT ![w] = [pc |-> IF out = <<>> THEN "recv" ELSE "send", out |-> out]]
  /\ inq' = Tail(inq)
  /\ UNCHANGED <<next, inClosed, ch, chClosed, cur, printed, cpc>>
WorkerSend(w) ==
  /\ wk[w].pc = "send" /\ Len(ch) < Cap
  /\ ch' = Append(ch, wk[w].out)
  /\ wk' = [wk EXCEPT ![w] = [pc |-> "recv", out |-> <<>>]]
  /\ UNCHANGED <<next, inq, inClosed, chClosed, cur, printed, cpc>>
WorkerExit(w) ==
  /\ wk[w].pc = "recv" /\ inq = <<>> /\ inClosed
  /\ wk' = [wk EXCEPT ![w].pc = "done"]
  /\ UNCHANGED <<next, inq, inClosed, ch, chClosed, cur, printed, cpc>>
CloseCh ==
  /\ ~chClosed /\ \A w \in Workers : wk[w].pc = "done"
  /\ chClosed' = TRUE
  /\ UNCHANGED <<next, inq, inClosed, wk, ch, cur, printed, cpc>>

LimitHit(p) == N > 0 /\ Len(p) >= N
\* consumer: matchBatch, more := <-readChan
ConsRecv ==
  /\ cpc = "loop" /\ cur = <<>> /\ ch # <<>>
  /\ ~(StopAt = "batch" /\ LimitHit(printed))
  /\ cur' = Head(ch) /\ ch' = Tail(ch)
  /\ UNCHANGED <<next, inq, inClosed, wk, chClosed, printed, cpc>>
ConsStopBetween ==      \* control "batch": the limit is looked at only here
  /\ cpc = "loop" /\ cur = <<>> /\ StopAt = "batch" /\ LimitHit(printed)
  /\ cpc' = "summary"
  /\ UNCHANGED <<next, inq, inClosed, wk, ch, chClosed, cur, printed>>
ConsClosed ==
  /\ cpc = "loop" /\ cur = <<>> /\ ch = <<>> /\ chClosed
  /\ cpc' = "summary"
  /\ UNCHANGED <<next, inq, inClosed, wk, ch, chClosed, cur, printed>>
\* print one match; readLines++; if numLineLimit > 0 && readLines >= numLineLimit { break OUTER_LOOP }
ConsPrint ==
  /\ cpc = "loop" /\ cur # <<>>
  /\ printed' = Append(printed, Head(cur))
  /\ IF StopAt = "limit" /\ LimitHit(printed')
       THEN cur' = <<>> /\ cpc' = "summary"
       ELSE cur' = Tail(cur) /\ cpc' = "loop"
  /\ UNCHANGED <<next, inq, inClosed, wk, ch, chClosed>>
ConsSummary ==
  /\ cpc = "summary" /\ cpc' = "done"
  /\ UNCHANGED <<next, inq, inClosed, wk, ch, chClosed, cur, printed>>

Next ==
  \/ ReadBatch \/ ReadEnd \/ CloseCh
  \/ \E w \in Workers : WorkerRecv(w) \/ WorkerSend(w) \/ WorkerExit(w)
  \/ ConsRecv \/ ConsStopBetween \/ ConsClosed \/ ConsPrint \/ ConsSummary

Fair == /\ WF_vars(ReadBatch) /\ WF_vars(ReadEnd) /\ WF_vars(CloseCh)
        /\ \A w \in Workers : WF_vars(WorkerRecv(w)) /\ WF_vars(WorkerSend(w)) /\ WF_vars(WorkerExit(w))
        /\ WF_vars(ConsRecv) /\ WF_vars(ConsStopBetween) /\ WF_vars(ConsClosed) /\ WF_vars(ConsPrint) /\ WF_vars(ConsSummary)
Spec == Init /\ [][Next]_vars /\ Fair

-----------------------------------------------------------------------------
\* what the user is owed
TypeOK ==
  /\ next \in 1..(Len(Match) + 1) /\ inClosed \in BOOLEAN /\ chClosed \in BOOLEAN
  /\ Len(ch) <= Cap /\ cpc \in {"loop", "summary", "done"}
  /\ \A w \in Workers : wk[w].pc \in {"recv", "send", "done"}
NoSendOnClosed == chClosed => \A w \in Workers : wk[w].pc = "done"
OnlyMatches    == \A k \in 1..Len(printed) : printed[k] \in Lines /\ Match[printed[k]]
NoDuplicate    == \A j, k \in 1..Len(printed) : j # k => printed[j] # printed[k]
Bounded        == N > 0 => Len(printed) <= N
\* lines of one input batch appear in input order
BatchOf(i)     == (i - 1) \div B
InBatchOrder   == \A j, k \in 1..Len(printed) :
                    (j < k /\ BatchOf(printed[j]) = BatchOf(printed[k])) => printed[j] < printed[k]
\* one worker: exactly the first matches, in input order
SeqOrder       == W = 1 => IsPrefix(printed, Matches)
\* at the summary the count is what the option promises: min(N, M) (all M without -n)
FinalCount     == cpc \in {"summary", "done"} => Len(printed) = Want
\* the summary of the limited run: "Matched: <printed> / <N>"
SummaryOK      == cpc = "done" /\ N > 0 => Len(printed) <= N
ExitCode       == IF M = 0 THEN 1 ELSE 0

Safe == TypeOK /\ NoSendOnClosed /\ OnlyMatches /\ NoDuplicate /\ Bounded /\ InBatchOrder /\ SeqOrder /\ FinalCount
\* the consumer ends whatever the workers do (they may stay blocked on the full channel)
Terminates == <>(cpc = "done")
=============================================================================

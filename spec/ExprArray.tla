------------------------------ MODULE ExprArray ------------------------------
(* C17 - the array ("range") helpers of rare's expression language obey list     *)
(* semantics (docs/usage/expressions.md, "Ranges (Arrays)").                     *)
(*                                                                              *)
(* A list is a sequence of byte strings; its representation in an expression    *)
(* value is Render(l) = the elements joined by NUL.  The empty list and the     *)
(* one-element list <<"">> share the representation "" (explicit domain limits  *)
(* below).  Every helper is specified on LISTS (ListOf(value)), and its result   *)
(* is Render(specified list): a result with a separator that does not delimit   *)
(* an element of the specified list differs from it.                            *)
(*                                                                              *)
(* Expressions are small trees                                                  *)
(*   Lit(v) | Arg(i) = {i} | Key(k) = {k} | Cat(parts) | Call(f, args)          *)
(* evaluated by EvalT(tree, env) over an environment [m, ks, sub]:              *)
(*   m    the match groups ({0}, {1}, ...)                                      *)
(*   ks   the named keys of the enclosing match, <<name, value>> pairs          *)
(*   sub  TRUE inside the sub-expression of @map/@filter/@reduce/@for, where    *)
(*        m holds exactly the values the documentation binds ({0} for @map and  *)
(*        @filter, {0},{1} for @reduce and @for) and ks still is the ENCLOSING  *)
(*        match's keys (also through several levels of nesting)                 *)
(* Scalar helpers are evaluated by ExprScalar!Expect (C11's specification).     *)
(* The result is an expectation record of ExprScalar ([k, v, alts, ce]); ce is  *)
(* always "*" here (only values are demanded, not compile diagnostics).         *)
(*                                                                              *)
(* Integer arguments (@range start / stop / incr, @select and @slice positions  *)
(* and lengths, the values @for carries through sumi / subi) range over the     *)
(* WHOLE 64-bit integer type: beyond TLC's own integers the specification       *)
(* computes on the digits (ExprWideInt), so {@range -9223372036854775808        *)
(* 9223372036854775807 4611686018427387904} denotes its four elements here.     *)
(* Texts that are integers but no int64 values are outside the domain.          *)
EXTENDS ExprScalar, ExprWideInt

NULS == <<NUL>>
ListOf(s) == IF s = <<>> THEN <<>> ELSE SplitOn(s, NUL)
Render(l) == JoinSeq(l, NULS)
NoNul(s) == \A i \in 1..Len(s) : s[i] # NUL
CountNul(s) == Cardinality({i \in 1..Len(s) : s[i] = NUL})

\* ---------------------------------------------------------------- trees and environments
Node(t, f, v, a) == [t |-> t, f |-> f, v |-> v, a |-> a]
Lit(v)     == Node("lit", "", v, <<>>)
Arg(i)     == Node("arg", "", <<i>>, <<>>)
Key(k)     == Node("key", "", k, <<>>)
Cat(a)     == Node("cat", "", <<>>, a)
Call(f, a) == Node("call", f, <<>>, a)

Env(m, ks) == [m |-> m, ks |-> ks, sub |-> FALSE]
SubEnv(env, vals) == [m |-> vals, ks |-> env.ks, sub |-> TRUE]
LookupKey(ks, k) ==
  LET S == {i \in 1..Len(ks) : ks[i][1] = k} IN IF S = {} THEN <<>> ELSE ks[MinOf(S)][2]

ArrayFuncs == {"@", "$", "@len", "@split", "@join", "@select", "@slice", "@map", "@filter", "@reduce",
               "@in", "@range", "@for"}

\* argument positions holding a sub-expression (evaluated in a sub-context)
SubPos(f, i) == (f \in {"@map", "@filter", "@reduce"} /\ i = 2) \/ (f = "@for" /\ i \in {2, 3})

\* does evaluating x read the match context it is evaluated against (i.e. is it NOT a
\* compile-time constant)?  {i} inside a sub-expression reads the sub-context, not the match
RECURSIVE HasFree(_, _)
HasFree(x, bound) ==
  CASE x.t = "lit" -> FALSE
    [] x.t = "arg" -> ~bound
    [] x.t = "key" -> TRUE
    [] x.t = "cat" -> \E i \in 1..Len(x.a) : HasFree(x.a[i], bound)
    [] x.t = "call" -> \E i \in 1..Len(x.a) : HasFree(x.a[i], bound \/ SubPos(x.f, i))
IsStatic(x) == ~HasFree(x, FALSE)

Star(e) == [e EXCEPT !.ce = "*"]
OutS(v) == Star(Out(v))
IsOutE(e) == e.k = "out"

\* truthiness of an expectation: "t" | "f" | "?"
Truth3(e) ==
  CASE e.k = "out" -> (LET c == TruthClass(e.v) IN
                       IF c = "true" THEN "t" ELSE IF c \in {"empty", "blank"} THEN "f" ELSE "?")
    [] e.k = "truthy" -> "t"
    [] e.k = "falsy" -> "f"
    [] OTHER -> "?"

\* positions of scalar helpers that only look at the truthiness of the argument
TruthPos(f, i, n) ==
  \/ f \in {"and", "or", "not"}
  \/ f \in {"if", "unless"} /\ i = 1
  \/ f = "switch" /\ i % 2 = 1 /\ i < n
ArgOK(e, f, i, n) == e.k = "out" \/ (e.k \in {"truthy", "falsy"} /\ TruthPos(f, i, n))
ArgV(e) == IF e.k = "out" THEN e.v ELSE IF e.k = "truthy" THEN ONE ELSE <<>>

\* ---------------------------------------------------------------- list operators (the oracle)
Clamp(x, lo, hi) == IF x < lo THEN lo ELSE IF x > hi THEN hi ELSE x
\* elements with 0-based index in from .. from+cnt-1 (cnt < 0: to the end), clipped to the list
Take(l, from, cnt) ==
  LET n == Len(l)
      lo == Clamp(from, 0, n)
      hi == IF cnt < 0 THEN n ELSE Clamp(from + cnt, lo, n)
  IN SubSeq(l, lo + 1, hi)

\* {@select arr i}: element i (0-based); a negative index counts from the end; "" out of range
SelectL(l, i) ==
  LET n == Len(l)  j == IF i < 0 THEN n + i ELSE i IN
  IF j >= 0 /\ j < n THEN l[j + 1] ELSE <<>>

\* {@slice arr start [len]}: "If begin is a negative number, will start from the end"; a start
\* before the first element is clamped to it.  With an explicit length and a clamped start the
\* documentation does not say whether the length counts from the clamped or the virtual start.
SliceAlts(l, start, hasLen, cnt) ==
  LET n == Len(l)  s0 == IF start < 0 THEN n + start ELSE start IN
  IF ~hasLen THEN <<Take(l, s0, 0 - 1)>>
  ELSE IF s0 >= 0 THEN <<Take(l, s0, cnt)>>
  ELSE LET A == Take(l, 0, cnt)
           B == Take(l, 0, IF s0 + cnt < 0 THEN 0 ELSE s0 + cnt)
       IN IF A = B THEN <<A>> ELSE <<A, B>>

\* {@range [start=0] stop [incr=1]}: start, start+incr, ... strictly before stop
RangeCount(start, stop, incr) ==
  IF incr > 0 THEN (IF stop <= start THEN 0 ELSE (stop - start + incr - 1) \div incr)
  ELSE (IF stop >= start THEN 0 ELSE (start - stop + (0 - incr) - 1) \div (0 - incr))
RangeInts(start, stop, incr) ==
  [k \in 1..RangeCount(start, stop, incr) |-> start + (k - 1) * incr]
RangeL(start, stop, incr) ==
  [k \in 1..RangeCount(start, stop, incr) |-> Itoa(start + (k - 1) * incr)]

\* the same on integers of any size (ExprWideInt): cur, cur + incr, ... while strictly before stop.
\* The sums are exact - a sum that leaves the 64-bit type is simply a number not before stop (stop
\* is an int64).  At most `fuel` elements are produced (the caller asks for one more than it accepts).
WBefore(cur, stop, incr) == IF incr.neg THEN WLess(stop, cur) ELSE WLess(cur, stop)
RECURSIVE RangeW(_, _, _, _)
RangeW(cur, stop, incr, fuel) ==
  IF fuel <= 0 \/ ~WBefore(cur, stop, incr) THEN <<>>
  ELSE <<WText(cur)>> \o RangeW(WAdd(cur, incr), stop, incr, fuel - 1)

\* positions and lengths of any size: a list has far fewer than BIGIX elements, so a position beyond
\* +-BIGIX selects what the position +-BIGIX selects; sums are formed exactly BEFORE clamping
BIGIX == 100000000
SelectW(l, i) == SelectL(l, WClampInt(i, 0 - BIGIX, BIGIX))
SliceAltsW(l, start, hasLen, cnt) ==
  LET n  == Len(l)
      s0 == IF start.neg THEN WAdd(WOfInt(n), start) ELSE start
      c  == WClampInt(cnt, 0, BIGIX)
  IN IF ~hasLen THEN <<Take(l, WClampInt(s0, 0 - BIGIX, BIGIX), 0 - 1)>>
     ELSE IF ~s0.neg THEN <<Take(l, WClampInt(s0, 0, BIGIX), c)>>
     ELSE LET A == Take(l, 0, c)
              B == Take(l, 0, WClampInt(WAdd(s0, cnt), 0, BIGIX))
          IN IF A = B THEN <<A>> ELSE <<A, B>>

\* sumi / subi "from left to right" on integers of any size: specified while every intermediate
\* result is a value of the 64-bit type
RECURSIVE WideFold(_, _, _, _)
WideFold(f, acc, ws, i) ==
  IF ~WFits64(acc) THEN <<>>
  ELSE IF i > Len(ws) THEN <<acc>>
  ELSE WideFold(f, IF f = "sumi" THEN WAdd(acc, ws[i]) ELSE WSub(acc, ws[i]), ws, i + 1)

\* {@filter arr p}: the elements whose verdict is "t", in order
RECURSIVE KeepFrom(_, _, _)
KeepFrom(l, ts, k) ==
  IF k > Len(l) THEN <<>> ELSE (IF ts[k] = "t" THEN <<l[k]>> ELSE <<>>) \o KeepFrom(l, ts, k + 1)

RBOUND == 100000000       \* magnitudes of @range arguments evaluated by the model
MAXGEN == 48              \* generated lists longer than this are outside the model

\* ---------------------------------------------------------------- evaluation
RECURSIVE EvalT(_, _), EvalArr(_, _), EvalScalar(_, _), FoldL(_, _, _, _, _), ForLoop(_, _, _, _, _, _)

\* the value of a compile-time argument: [st: "ok" | "dyn" | "any", v]
ConstArg(x, env) ==
  IF ~IsStatic(x) THEN [st |-> "dyn", v |-> <<>>]
  ELSE LET e == EvalT(x, env) IN
       IF IsOutE(e) THEN [st |-> "ok", v |-> e.v] ELSE [st |-> "any", v |-> <<>>]

EvalScalar(x, env) ==
  LET n  == Len(x.a)
      es == [i \in 1..n |-> EvalT(x.a[i], env)]
  IN IF x.f \notin Funcs \/ n = 0 THEN AnyR
     ELSE IF \E i \in 1..n : ~ArgOK(es[i], x.f, i, n) THEN AnyR
     ELSE LET base == Star(Expect(x.f, [i \in 1..n |-> ArgV(es[i])],
                                  [i \in 1..n |-> IF IsStatic(x.a[i]) THEN "c" ELSE "d"]))
          IN IF base.k = "any" /\ x.f \in {"sumi", "subi"} /\ n >= 2
                /\ \A i \in 1..n : es[i].k = "out" /\ WIsIntText(es[i].v) /\ Len(es[i].v) <= 24
             THEN \* the scalar model stops at +-10^9; integers are 64 bits wide
                  LET ws == [i \in 1..n |-> WOf(es[i].v)] IN
                  IF \E i \in 1..n : ~WFits64(ws[i]) THEN AnyR
                  ELSE LET r == WideFold(x.f, ws[1], ws, 2) IN
                       IF r = <<>> THEN AnyR ELSE OutS(WText(r[1]))
             ELSE base

\* left fold of the reducer b over l[i..] with memo
FoldL(b, env, memo, l, i) ==
  IF i > Len(l) THEN OutS(memo)
  ELSE LET e == EvalT(b, SubEnv(env, <<memo, l[i]>>)) IN
       IF ~IsOutE(e) THEN AnyR ELSE FoldL(b, env, e.v, l, i + 1)

\* {@for start while incr}: {0} the current value, {1} the index of the iteration
ForLoop(c, inc, env, val, idx, acc) ==
  IF idx > MAXGEN THEN AnyR
  ELSE LET t == Truth3(EvalT(c, SubEnv(env, <<val, Itoa(idx)>>))) IN
       IF t = "?" THEN AnyR
       ELSE IF t = "f" THEN OutS(Render(acc))
       ELSE IF ~NoNul(val) THEN AnyR
       ELSE LET e == EvalT(inc, SubEnv(env, <<val, Itoa(idx)>>)) IN
            IF ~IsOutE(e) THEN AnyR ELSE ForLoop(c, inc, env, e.v, idx + 1, Append(acc, val))

EvalArr(x, env) ==
  LET f == x.f
      n == Len(x.a)
      A(i) == EvalT(x.a[i], env)
  IN
  CASE f \in {"@", "$"} ->
         IF n = 0 THEN OutS(<<>>)
         ELSE LET es == [i \in 1..n |-> A(i)] IN
              IF \E i \in 1..n : ~IsOutE(es[i]) THEN AnyR
              ELSE OutS(JoinSeq([i \in 1..n |-> es[i].v], NULS))
    [] f = "@len" ->
         IF n # 1 THEN Star(ArgN)
         ELSE LET a == A(1) IN IF ~IsOutE(a) THEN AnyR ELSE OutS(Itoa(Len(ListOf(a.v))))
    [] f = "@split" ->
         IF n \notin {1, 2} THEN Star(ArgN)
         ELSE LET d == IF n = 1 THEN [st |-> "ok", v |-> <<32>>] ELSE ConstArg(x.a[2], env)
                  a == A(1)
              IN IF d.st # "ok" THEN AnyR                   \* a delimiter that is not a constant: undocumented
                 ELSE IF d.v = <<>> THEN Marker            \* "@split ... for any NON-EMPTY delimiter"
                 ELSE IF ~IsOutE(a) \/ ~NoNul(d.v) THEN AnyR
                 ELSE IF ~NoNul(a.v) THEN AnyR             \* splitting something that already is a list
                 ELSE OutS(Render(SplitSeq(a.v, d.v)))
    [] f = "@join" ->
         IF n \notin {1, 2} THEN Star(ArgN)
         ELSE LET d == IF n = 1 THEN [st |-> "ok", v |-> <<32>>] ELSE ConstArg(x.a[2], env)
                  a == A(1)
              IN IF d.st # "ok" \/ d.v = <<>> THEN AnyR     \* "if delim is empty ...": ambiguous
                 ELSE IF ~IsOutE(a) THEN AnyR
                 ELSE OutS(JoinSeq(ListOf(a.v), d.v))
    [] f = "@select" ->
         IF n # 2 THEN Star(ArgN)
         ELSE LET ix == ConstArg(x.a[2], env)  a == A(1) IN
              IF ix.st = "any" THEN AnyR
              ELSE IF ix.st = "dyn" \/ IntClass(ix.v) = "no" THEN Marker
              ELSE IF ~IsOutE(a) THEN AnyR
              ELSE IF IntClass(ix.v) # "small" THEN
                   (LET w == WOf(ix.v) IN
                    IF Len(ix.v) > 24 \/ ~WFits64(w) THEN AnyR ELSE OutS(SelectW(ListOf(a.v), w)))
              ELSE OutS(SelectL(ListOf(a.v), IntVal(ix.v)))
    [] f = "@slice" ->
         IF n \notin {2, 3} THEN Star(ArgN)
         ELSE LET st == ConstArg(x.a[2], env)
                  ln == IF n = 3 THEN ConstArg(x.a[3], env) ELSE [st |-> "ok", v |-> <<48>>]
                  a  == A(1)
              IN IF st.st = "any" \/ ln.st = "any" THEN AnyR
                 ELSE IF st.st = "dyn" \/ ln.st = "dyn" \/ IntClass(st.v) = "no" \/ IntClass(ln.v) = "no" THEN Marker
                 ELSE IF ~IsOutE(a) THEN AnyR
                 ELSE IF Len(st.v) > 24 \/ Len(ln.v) > 24 \/ ~WFits64(WOf(st.v)) \/ ~WFits64(WOf(ln.v)) THEN AnyR
                 ELSE IF n = 3 /\ WOf(ln.v).neg THEN AnyR            \* a negative length: undocumented
                 ELSE LET alts == IF IntClass(st.v) = "small" /\ IntClass(ln.v) = "small"
                                  THEN SliceAlts(ListOf(a.v), IntVal(st.v), n = 3, IntVal(ln.v))
                                  ELSE SliceAltsW(ListOf(a.v), WOf(st.v), n = 3, WOf(ln.v)) IN
                      IF Len(alts) = 1 THEN OutS(Render(alts[1]))
                      ELSE Star(OneOf([i \in 1..Len(alts) |-> Render(alts[i])]))
    [] f = "@in" ->
         IF n # 2 THEN Star(ArgN)
         ELSE LET arr == ConstArg(x.a[2], env)  v == A(1) IN
              IF arr.st = "any" THEN AnyR
              ELSE IF arr.st = "dyn" THEN Marker
              ELSE IF arr.v = <<>> \/ ~IsOutE(v) THEN AnyR            \* "" is the empty list and <<"">>
              ELSE LET l == ListOf(arr.v) IN Star(Bool(\E i \in 1..Len(l) : l[i] = v.v))
    [] f = "@range" ->
         IF n \notin {1, 2, 3} THEN Star(ArgN)
         ELSE LET es == [i \in 1..n |-> A(i)] IN
              IF \E i \in 1..n : ~IsOutE(es[i]) THEN AnyR
              ELSE IF \E i \in 1..n : IntClass(es[i].v) = "no" THEN Star(ErrNum)
              ELSE IF \E i \in 1..n : IntClass(es[i].v) # "small" \/ AbsI(IntVal(es[i].v)) > RBOUND THEN
                   \* beyond the model's own integers: the same sequence, computed on the digits
                   (IF \E i \in 1..n : Len(es[i].v) > 24 THEN AnyR
                    ELSE LET ws == [i \in 1..n |-> WOf(es[i].v)] IN
                         IF \E i \in 1..n : ~WFits64(ws[i]) THEN AnyR     \* no value of the integer type
                         ELSE LET start == IF n = 1 THEN WZero ELSE ws[1]
                                  stop  == IF n = 1 THEN ws[1] ELSE ws[2]
                                  incr  == IF n = 3 THEN ws[3] ELSE WOne
                              IN IF WSign(incr) = 0 THEN Marker
                                 ELSE IF (~incr.neg /\ WLess(stop, start)) \/ (incr.neg /\ WLess(start, stop)) THEN AnyR
                                 ELSE LET l == RangeW(start, stop, incr, MAXGEN + 1) IN
                                      IF Len(l) > MAXGEN THEN AnyR ELSE OutS(Render(l)))
              ELSE LET start == IF n = 1 THEN 0 ELSE IntVal(es[1].v)
                       stop  == IF n = 1 THEN IntVal(es[1].v) ELSE IntVal(es[2].v)
                       incr  == IF n = 3 THEN IntVal(es[3].v) ELSE 1
                   IN IF incr = 0 THEN Marker
                      ELSE IF (incr > 0 /\ start > stop) \/ (incr < 0 /\ start < stop) THEN AnyR   \* wrong direction: undocumented
                      ELSE IF RangeCount(start, stop, incr) > MAXGEN THEN AnyR
                      ELSE OutS(Render(RangeL(start, stop, incr)))
    [] f = "@map" ->
         IF n # 2 THEN Star(ArgN)
         ELSE LET a == A(1) IN
              IF ~IsOutE(a) THEN AnyR
              ELSE IF a.v = <<>> THEN
                   \* the empty list and <<"">> share a representation: only if "" maps to ""
                   (LET e == EvalT(x.a[2], SubEnv(env, <<<<>>>>)) IN
                    IF IsOutE(e) /\ e.v = <<>> THEN OutS(<<>>) ELSE AnyR)
              ELSE LET l  == ListOf(a.v)
                       es == [k \in 1..Len(l) |-> EvalT(x.a[2], SubEnv(env, <<l[k]>>))]
                   IN IF \E k \in 1..Len(l) : ~IsOutE(es[k]) \/ ~NoNul(es[k].v) THEN AnyR
                      ELSE OutS(Render([k \in 1..Len(l) |-> es[k].v]))
    [] f = "@filter" ->
         IF n # 2 THEN Star(ArgN)
         ELSE LET a == A(1) IN
              IF ~IsOutE(a) THEN AnyR
              ELSE IF a.v = <<>> THEN OutS(<<>>)
              ELSE LET l  == ListOf(a.v)
                       ts == [k \in 1..Len(l) |-> Truth3(EvalT(x.a[2], SubEnv(env, <<l[k]>>)))]
                   IN IF \E k \in 1..Len(l) : ts[k] = "?" THEN AnyR
                      ELSE OutS(Render(KeepFrom(l, ts, 1)))
    [] f = "@reduce" ->
         IF n \notin {2, 3} THEN Star(ArgN)
         ELSE LET init == IF n = 3 THEN ConstArg(x.a[3], env) ELSE [st |-> "ok", v |-> <<>>]
                  a == A(1)
              IN IF init.st # "ok" \/ ~IsOutE(a) THEN AnyR
                 ELSE LET l == ListOf(a.v) IN
                      IF init.v = <<>> THEN           \* "If initial is unset, it will use arr[0]"
                        (IF l = <<>> THEN OutS(<<>>) ELSE FoldL(x.a[2], env, l[1], l, 2))
                      ELSE IF l = <<>> THEN
                        (LET e == EvalT(x.a[2], SubEnv(env, <<init.v, <<>>>>)) IN
                         IF IsOutE(e) /\ e.v = init.v THEN OutS(init.v) ELSE AnyR)
                      ELSE FoldL(x.a[2], env, init.v, l, 1)
    [] f = "@for" ->
         IF n # 3 THEN Star(ArgN)
         ELSE LET s == A(1) IN
              IF ~IsOutE(s) THEN AnyR ELSE ForLoop(x.a[2], x.a[3], env, s.v, 0, <<>>)

EvalT(x, env) ==
  CASE x.t = "lit" -> OutS(x.v)
    [] x.t = "arg" ->
         LET i == x.v[1] IN
         IF i >= 0 /\ i < Len(env.m) THEN OutS(env.m[i + 1])
         ELSE IF env.sub THEN AnyR          \* only the documented bindings are specified in a sub-expression
         ELSE OutS(<<>>)
    [] x.t = "key" -> OutS(LookupKey(env.ks, x.v))
    [] x.t = "cat" ->
         LET es == [i \in 1..Len(x.a) |-> EvalT(x.a[i], env)] IN
         IF \E i \in 1..Len(x.a) : ~IsOutE(es[i]) THEN AnyR
         ELSE OutS(Flatten([i \in 1..Len(x.a) |-> es[i].v]))
    [] x.t = "call" -> IF x.f \in ArrayFuncs THEN EvalArr(x, env) ELSE EvalScalar(x, env)

\* ---------------------------------------------------------------- matching an observation
ArrMatches(e, got) ==
  CASE e.k = "out" -> got = e.v
    [] e.k = "oneof" -> \E i \in 1..Len(e.alts) : got = e.alts[i]
    [] e.k = "truthy" -> TruthClass(got) = "true"
    [] e.k = "falsy" -> TruthClass(got) \in {"empty", "blank"}
    [] e.k = "marker" -> got \in Markers
    [] OTHER -> TRUE
=============================================================================

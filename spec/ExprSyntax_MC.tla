--------------------------- MODULE ExprSyntax_MC ---------------------------
(* B3 for C09: TLC decides the property's laws on the model, for every case of   *)
(* ExprSyntaxCases (one header state per group, expanded into its cases, so      *)
(* different TLC workers expand different groups):                               *)
(*   rt   ParseModel(Print(t, v)) = t, no error, for every tree of the pools     *)
(*        (depth <= 3, <= 3 arguments, literals over {a 1 space tab}) and every  *)
(*        variant (1-2 separators from {space, tab}, optional quoting, blanks    *)
(*        inside the braces, literal text with every special character around    *)
(*        the statements)                                                        *)
(*   esc  EvalLit(ParseModel(Escape(s))) = s for every s over                    *)
(*        {a { } \ " space n t} (and \n \t \r, a 2-byte rune), every admissible  *)
(*        choice of escaped characters                                           *)
(*   err  a dropped closing brace / an empty statement / an unregistered         *)
(*        function at any position yields its documented class                   *)
(*   any  the model is total on every text over {a { } \ " space}                *)
(* WsInit (a run of its own): groups ws / wserr - each of the 25 Unicode          *)
(* White_Space characters as the only separator and padding, three patterns per  *)
(* character, rt and err laws - and idx - written integers around 2^31, 2^32,     *)
(* 2^63, 2^64 and multiples, leading zeros, minus signs, up to 26 digits, as a    *)
(* statement, between text, as argument and inside a quoted sub-template.        *)
EXTENDS ExprSyntaxCases

VARIABLE c

\* lv 0: group header, 1: (group, sub-key) header, 2: one case
Init == c \in {[lv |-> 0, g |-> g, k |-> 0, x |-> <<>>] : g \in Groups}
WsInit == c \in {[lv |-> 0, g |-> g, k |-> 0, x |-> <<>>] : g \in GroupsWs}
Next == \/ c.lv = 0 /\ \E k \in Subs(c.g) : c' = [lv |-> 1, g |-> c.g, k |-> k, x |-> <<>>]
        \/ c.lv = 1 /\ \E x \in Cases(c.g, c.k) : c' = [lv |-> 2, g |-> c.g, k |-> 0, x |-> x]
LawOK == c.lv < 2 \/ Law(c.g, c.x)
=============================================================================

------------------------------- MODULE TimeTab -------------------------------
(* C18 - zones as transition tables.                                               *)
(*                                                                                 *)
(* A supported zone is, in general, a TRANSITION TABLE: the sorted instants at     *)
(* which its UTC offset or name changes, with the offset and the abbreviation in   *)
(* force from each (TimeCal.TableZone).  Everything else is TimeCal: the offset    *)
(* at t is the table lookup, the calendar fields of t are the civil date and clock *)
(* of t + offset(t), the bucket of t is those fields truncated in the zone's own   *)
(* wall clock, ISO week / week-year / quarter come from the civil date, a          *)
(* zone-less text denotes the instants whose reading it is (none in a gap, two in  *)
(* an overlap).                                                                    *)
(*                                                                                 *)
(* The tables of the IANA zones of the host are DATA: zones.json, written by the   *)
(* harness from Go's time package (time.LoadLocation and Zone() lookups on the     *)
(* loaded location - not through the code under test).  The zoneinfo database is   *)
(* the trusted base; TimeTab_MC cross-checks the tables of America/New_York and    *)
(* Europe/Berlin against the rules written out in TimeCal.                         *)
EXTENDS TimeCal, Json

ZoneFile == JsonDeserialize("zones.json")        \* [zones |-> <<[name, tab |-> <<[d, s, off, abbr]>>]>>, skipped]
HostZones == [i \in 1..Len(ZoneFile.zones) |-> [name |-> ZoneFile.zones[i].name, zd |-> TableZone(ZoneFile.zones[i].tab)]]
HostNames == {HostZones[i].name : i \in 1..Len(HostZones)}
HostIdx(z) == CHOOSE i \in 1..Len(HostZones) : HostZones[i].name = z
HostZone(z) == HostZones[HostIdx(z)].zd

\* what a call must return: a zone of the file is its table, any other zone as in TimeCal
TExpect(c) ==
  IF c.f \in DurationFuncs THEN ExpectDur(c)
  ELSE IF EffZone(c) \in HostNames THEN ExpectIn(c, HostZone(EffZone(c)))
  ELSE Expect(c)

\* ---------------------------------------------------------------- readings as numbers
WallSecs(l) == l.hh * 3600 + l.mi * 60 + l.ss
Wall(l) == Inst(l.ld, WallSecs(l))                        \* the reading as an instant of a clock that never jumps
WallOfFields(f) == Inst(DaysFromCivil(f.y, f.m, f.d), f.hh * 3600 + f.mi * 60 + f.ss)
=============================================================================

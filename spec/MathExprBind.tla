---------------------------- MODULE MathExprBind ----------------------------
(* C19 - how a compiled `{! ...}` formula is bound to match data                *)
(* (pkg/expressions/stdlib/funcsMath.go: kfMath, keyBuilderContextWrapper).     *)
(*                                                                              *)
(* Match data are TEXTS.  A variable of the formula ([n], [name], bare name)    *)
(* reads a cell that is a number ("3", "-0.5") or is not (absent index or key,  *)
(* empty, a word, "1,5").  docs/usage/expressions.md: a value of the wrong type *)
(* gives the error marker <BAD-TYPE>.                                           *)
(*                                                                              *)
(* Part 1  the specification: the result of one evaluation is a function of the *)
(*         formula and the CURRENT row only - the value of the parse tree when  *)
(*         every variable that occurs reads a number, the error marker when     *)
(*         some variable that occurs does not (with && or || in the formula the *)
(*         marker is not demanded: an evaluation may be lazy); a formula        *)
(*         without variables never gives the marker.                            *)
(* Part 2  the implementation as a state machine: ONE compiled formula used by  *)
(*         G goroutines; an evaluation takes a wrapper object from a pool,      *)
(*         points it at its row and clears its error counter, reads the         *)
(*         variables left to right through the wrapper (a cell that is no       *)
(*         number counts an error and reads as 0), then returns the marker if   *)
(*         the counter is positive, else the value, and gives the wrapper back. *)
(*         The design is a parameter (Pol), so that other designs are refuted:  *)
(*           share "one"    a single wrapper for all goroutines (seed C19-4)    *)
(*           reset "never"  the counter of a pooled wrapper is never cleared    *)
(*           reset "return" cleared when given back instead of when taken       *)
(*                          (equivalent: NOT refuted, the check must accept it) *)
(*           check "last"   a flag overwritten by every read instead of a count *)
(*           check "before" the counter is looked at before the reads           *)
EXTENDS MathExpr

\* ===================================================================== Part 1
NumCell(q) == [k |-> "num", q |-> q]
BadCell == [k |-> "bad", q |-> <<0, 1>>]
RECURSIVE VarsOf(_), ReadSeq(_), Lazy(_)
VarsOf(t) == CASE t.k = "var" -> {t.i} [] t.k = "un" -> VarsOf(t.a)
               [] t.k = "bin" -> VarsOf(t.l) \cup VarsOf(t.r) [] OTHER -> {}
Lazy(t) == CASE t.k = "un" -> Lazy(t.a) [] t.k = "bin" -> t.op \in {"&&", "||"} \/ Lazy(t.l) \/ Lazy(t.r) [] OTHER -> FALSE
CellOf(row, i) == IF i \in DOMAIN row THEN row[i] ELSE BadCell          \* an index / key the data do not have
RowBind(row) == [i \in DOMAIN row |-> row[i].q]
\* a result: bad (the marker) or the value v (MathExpr!Value: def = FALSE outside the value domain)
RBad == [bad |-> TRUE, v |-> Undef]
RVal(v) == [bad |-> FALSE, v |-> v]
BindResult(t, row) ==
  IF \E i \in VarsOf(t) : CellOf(row, i).k = "bad" THEN RBad ELSE RVal(Value(t, RowBind(row)))
\* what a check may demand of an observed result r
ResultOK(t, row, r) ==
  LET want == BindResult(t, row) IN
  IF want.bad THEN Lazy(t) \/ r.bad
  ELSE ~r.bad /\ (want.v.def => SameVal(r.v, want.v))

\* ===================================================================== Part 2
\* the variables in the order an evaluation reads them (operands left to right; folded sub-trees read nothing)
ReadSeq(t) == CASE t.k = "var" -> <<t.i>> [] t.k = "un" -> ReadSeq(t.a)
                [] t.k = "bin" -> ReadSeq(t.l) \o ReadSeq(t.r) [] OTHER -> <<>>
\* the tree with its k-th read replaced by the number that read returned
RECURSIVE PutReads(_, _)
PutReads(t, acc) ==
  CASE t.k = "var" -> [t |-> Num(Head(acc)), rest |-> Tail(acc)]
    [] t.k = "un" -> LET a == PutReads(t.a, acc) IN [t |-> Un(t.op, a.t), rest |-> a.rest]
    [] t.k = "bin" -> LET l == PutReads(t.l, acc)
                          r == PutReads(t.r, l.rest) IN [t |-> Bin(t.op, l.t, r.t), rest |-> r.rest]
    [] OTHER -> [t |-> t, rest |-> acc]
ValueOfReads(t, acc) == Value(PutReads(t, acc).t, <<>>)

RealPol == [share |-> "pool", reset |-> "take", check |-> "count"]
Policies == <<RealPol,
              [share |-> "one", reset |-> "take", check |-> "count"],
              [share |-> "pool", reset |-> "never", check |-> "count"],
              [share |-> "pool", reset |-> "return", check |-> "count"],
              [share |-> "pool", reset |-> "take", check |-> "last"],
              [share |-> "pool", reset |-> "take", check |-> "before"]>>
=============================================================================

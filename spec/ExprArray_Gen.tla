---------------------------- MODULE ExprArray_Gen ----------------------------
(* B1 generator for C17.  Every state below a group header is one HISTORY: a      *)
(* sequence of evaluations [x, m, ks] (expression tree, match groups, named keys) *)
(* that the Go driver performs in order, in one process, on expressions that are  *)
(* compiled once per history - so that a pooled sub-context left behind by one    *)
(* evaluation (different parent context, the optimiser's probe context) is the    *)
(* one the next evaluation receives.  The Dump invariant prints the history with  *)
(* the specification's expectation EvalT(x, Env(m, ks)) for every step.           *)
(* Most histories have one step (the exhaustive small input space); the groups    *)
(* "hist*" are the histories of ExprPool.tla made concrete (PoolProg maps every    *)
(* expression used there to the frame program ExprPool model-checks), and "conc"  *)
(* is evaluated from W goroutines at once.                                        *)
EXTENDS ExprArray, Json, TLC

CONSTANT Thorough

VARIABLE vec

\* ---------------------------------------------------------------- literals
E   == <<>>
Sa  == <<97>>
Sb  == <<98>>
Sbb == <<98, 98>>
Sc  == <<99>>
Sx  == <<120>>
Sy  == <<121>>
Sz  == <<122>>
COMMA == <<44>>
PLUS  == <<43>>
I(n) == Itoa(n)
Kk   == <<107>>               \* key "k"
Kn   == <<110>>               \* key "n"
Karr == <<97, 114, 114>>      \* key "arr"

Lists(S, n) == UNION {[1..k -> S] : k \in 0..n}
E3 == {E, Sa, Sbb}
L3 == Lists(E3, 3)
Delims == {COMMA, <<44, 32>>, <<195, 169>>, <<97, 98>>}     \* ","  ", "  e-acute (2 bytes)  "ab"

KS0 == <<<<Kk, Sx>>, <<Kn, <<51>>>>>>                       \* k = "x", n = "3"

Step(x, m, ks) == [x |-> x, m |-> m, ks |-> ks]
One(x, m, ks) == <<Step(x, m, ks)>>

\* the ways a list value reaches a helper: match group, named key, constructor of constants
\* (compile-time constant: folded by the optimiser), result of @split
HasSub(s, d) == IndexOf(s, d) # 0
Supply(l) ==
  LET r == Render(l) IN
  {[a |-> Arg(0), m |-> <<r>>, ks |-> KS0],
   [a |-> Key(Karr), m |-> <<>>, ks |-> KS0 \o <<<<Karr, r>>>>]}
  \cup (IF Len(l) >= 2 THEN {[a |-> Call("@", [i \in 1..Len(l) |-> Lit(l[i])]), m |-> <<>>, ks |-> KS0]} ELSE {})
  \cup (IF Len(l) >= 1 /\ \A i \in 1..Len(l) : ~HasSub(l[i], COMMA)
        THEN {[a |-> Call("@split", <<Arg(0), Lit(COMMA)>>), m |-> <<JoinSeq(l, COMMA)>>, ks |-> KS0]} ELSE {})
SupplyDyn(l) == {s \in Supply(l) : s.a.t # "call" \/ s.a.f # "@"}

With(f, rest(_), LS) == {One(Call(f, <<s.a>> \o rest(s)), s.m, s.ks) : s \in UNION {Supply(l) : l \in LS}}

\* ---------------------------------------------------------------- sub-expression pools (depth <= 2)
A0 == Arg(0)
A1 == Arg(1)
BLt == Call("and", <<Call("lt", <<A1, Lit(I(4))>>), Call("lt", <<A1, Key(Kn)>>)>>)    \* {1} < n, and < 4 whatever n is
SubM == {A0, Cat(<<A0, Lit(Sx)>>), Call("upper", <<A0>>), Call("len", <<A0>>),
         Call("sumi", <<Call("len", <<A0>>), Lit(I(1))>>), Call("if", <<A0, A0, Lit(Sz)>>),
         Call("if", <<Call("eq", <<A0, Lit(Sa)>>), Lit(E), A0>>), Cat(<<A0, Key(Kk)>>), Cat(<<Key(Kk), A0>>),
         Call("substr", <<A0, Lit(I(0)), Lit(I(1))>>), Lit(Sc), Lit(E), Key(Kk),
         Call("multi", <<Call("len", <<A0>>), Key(Kn)>>), Arg(2), Arg(0 - 1), A1}
SubF == {A0, Call("not", <<A0>>), Call("eq", <<A0, Lit(Sa)>>), Call("neq", <<A0, Lit(Sa)>>),
         Call("gt", <<Call("len", <<A0>>), Lit(I(1))>>), Lit(I(1)), Lit(E), Lit(<<32>>),
         Call("eq", <<A0, Key(Kk)>>), Call("like", <<A0, Lit(Sb)>>), Call("prefix", <<A0, Lit(Sa)>>),
         Call("lt", <<Call("len", <<A0>>), Key(Kn)>>), Key(Kk), Call("and", <<A0, Call("neq", <<A0, Lit(Sbb)>>)>>)}
SubR == {Cat(<<A0, A1>>), Cat(<<A1, A0>>), Cat(<<A0, Lit(<<45>>), A1>>), A0, A1,
         Cat(<<A0, Key(Kk), A1>>), Call("if", <<A1, A1, A0>>), Call("sumi", <<Call("len", <<A0>>), Call("len", <<A1>>)>>),
         Call("coalesce", <<A0, A1>>)}
SubRI == {Call("sumi", <<A0, A1>>), Call("subi", <<A0, A1>>), Call("maxi", <<A0, A1>>), Call("multi", <<A0, A1>>),
          Call("subi", <<A1, A0>>), Call("sumi", <<A0, A1, Key(Kn)>>)}
IntLists == Lists({I(1), I(2), I(5)}, 3) \cup {<<I(4), I(0 - 3), I(10), I(7)>>}

ForStart == {Lit(I(0)), Lit(I(1)), Lit(E), Lit(Sa), Key(Kn)}
\* every condition is also bounded by the index: the optimiser probes an expression with an empty match
\* context at compile time, where a numeric comparison of "" is an error marker, i.e. truthy, and the
\* loop would run to the helper's limit of 10^6 iterations
Bnd(c) == Call("and", <<Call("lt", <<A1, Lit(I(6))>>), c>>)
ForCond == {Call("lt", <<A1, Lit(I(3))>>), Bnd(Call("lt", <<A0, Lit(I(5))>>)), Bnd(Call("lt", <<Call("len", <<A0>>), Lit(I(3))>>)),
            Lit(E), BLt, Call("and", <<Call("lt", <<A1, Lit(I(4))>>), Call("neq", <<A0, Lit(I(8))>>)>>),
            Bnd(Call("lte", <<A0, Key(Kn)>>))}
ForIncr == {Call("sumi", <<A0, Lit(I(1))>>), Call("sumi", <<A0, A0>>), Call("multi", <<A0, Lit(I(2))>>),
            Cat(<<A0, Lit(Sa)>>), Call("sumi", <<A0, A1>>), Call("sumi", <<A0, Key(Kn)>>), A1, Lit(E), A0,
            Cat(<<A0, Key(Kk)>>), Call("if", <<A0, Lit(E), Lit(Sx)>>)}

\* (the case sets take a dummy parameter so that TLC evaluates them lazily, one group per worker)
\* ---------------------------------------------------------------- @split / @join
SplitStrings(d) ==
  {JoinSeq(l, d) : l \in L3}
  \cup {d, d \o d, d \o d \o d, Sa \o d, d \o Sa, Sa \o d \o d \o Sbb, <<d[1]>>, Sa \o <<d[1]>>, <<d[1]>> \o Sa,
        <<d[1]>> \o d, d \o <<d[Len(d)]>>, Sa \o <<d[Len(d)]>> \o Sbb, <<97, 97, 98>>, <<97, 98, 97, 98>>, <<97, 98, 97>>,
        <<44, 32, 32, 44>>, <<44, 44, 32>>, <<97, 44, 32, 98>>, <<195, 195, 169, 169>>, <<97, 0, 98>>}
SplitCases(u) ==
  UNION {{One(Call("@split", <<a, Lit(d)>>), <<s>>, <<<<Karr, s>>>>) : a \in {A0, Key(Karr)}, s \in SplitStrings(d)} : d \in Delims}
  \cup {One(Call("@split", <<A0>>), <<s>>, <<>>) : s \in {E, Sa, <<97, 32, 98, 98>>, <<32>>, <<97, 32, 32, 98>>, <<32, 97>>}}
  \cup {One(Call("@split", <<Lit(JoinSeq(l, d)), Lit(d)>>), <<>>, <<>>) : l \in Lists(E3, 2), d \in Delims}
  \cup {One(Call("@split", <<A0, x>>), <<<<97, 44, 98>>, COMMA>>, <<>>) : x \in {Lit(E), A1}}
  \* round trip and re-join: @join(@split(s, d), d2)
  \cup UNION {{One(Call("@join", <<Call("@split", <<A0, Lit(d)>>), Lit(d2)>>), <<s>>, <<>>) :
                  s \in SplitStrings(d), d2 \in {d, <<45>>}} : d \in Delims}
  \cup UNION {{One(Call("@len", <<Call("@split", <<A0, Lit(d)>>)>>), <<s>>, <<>>) : s \in SplitStrings(d)} : d \in Delims}
JoinCases(u) ==
  {One(Call("@join", <<s.a, Lit(d)>>), s.m, s.ks) : s \in UNION {Supply(l) : l \in L3}, d \in Delims \cup {<<32>>}}
  \cup With("@join", LAMBDA s : <<>>, L3)
  \cup {One(Call("@join", <<A0, x>>), <<<<97, 0, 98>>, COMMA>>, <<>>) : x \in {Lit(E), A1}}
  \* @split(@join(l, d), d) = l
  \cup {One(Call("@split", <<Call("@join", <<s.a, Lit(d)>>), Lit(d)>>), s.m, s.ks) :
          s \in UNION {Supply(l) : l \in L3}, d \in Delims}
LenCases(u) ==
  With("@len", LAMBDA s : <<>>, L3 \cup {<<Sa, Sa, Sa, Sa>>, <<E, E, E, E, E>>})
  \cup {One(Call("@len", <<Lit(v)>>), <<>>, <<>>) : v \in {E, Sa, <<97, 32, 98>>}}

\* ---------------------------------------------------------------- @select / @slice
Distinct(n) == [i \in 1..n |-> <<117 + i>>]                  \* v, w, x, y, z
IdxLists == L3 \cup {Distinct(n) : n \in 1..5} \cup {<<E, Sx, E, Sy>>}
IdxOf(l) == (0 - (Len(l) + 2))..(Len(l) + 2)
SelectCases(u) ==
  UNION {{One(Call("@select", <<s.a, Lit(I(i))>>), s.m, s.ks) : s \in Supply(l), i \in IdxOf(l)} : l \in IdxLists}
  \cup {One(Call("@select", <<A0, x>>), <<Render(Distinct(3)), I(1)>>, <<>>) :
          x \in {Lit(Sa), Lit(E), A1, Lit(<<49, 46, 48>>), Lit(<<43, 49>>), Call("sumi", <<Lit(I(1)), Lit(I(1))>>)}}
LenOpts(l) == {0, 1, 2, Len(l), Len(l) + 3}
SliceCases(u) ==
  UNION {{One(Call("@slice", <<s.a, Lit(I(i))>>), s.m, s.ks) : s \in Supply(l), i \in IdxOf(l)} : l \in IdxLists}
  \cup UNION {{One(Call("@slice", <<s.a, Lit(I(i)), Lit(I(c))>>), s.m, s.ks) :
                  s \in SupplyDyn(l), i \in IdxOf(l), c \in LenOpts(l)} : l \in IdxLists}
  \cup {One(Call("@slice", <<A0, x, y>>), <<Render(Distinct(3)), I(1)>>, <<>>) :
          x \in {Lit(I(1)), Lit(Sa), A1}, y \in {Lit(I(0 - 1)), Lit(Sa), A1, Lit(I(1))}}
  \* composition: the docs' own example style {@join {@slice {@split ..} i c}}
  \cup {One(Call("@join", <<Call("@slice", <<Call("@split", <<A0, Lit(d)>>), Lit(I(i)), Lit(I(2))>>), Lit(d)>>),
            <<JoinSeq(Distinct(4), d)>>, <<>>) : i \in (0 - 6)..6, d \in Delims}
  \cup {One(Call("@select", <<Call("@slice", <<A0, Lit(I(i))>>), Lit(I(j))>>), <<Render(Distinct(4))>>, <<>>) :
          i \in (0 - 5)..5, j \in (0 - 2)..2}
  \cup {One(Call("@len", <<Call("@slice", <<A0, Lit(I(i)), Lit(I(c))>>)>>), <<Render(Distinct(4))>>, <<>>) :
          i \in (0 - 6)..6, c \in 0..5}

\* ---------------------------------------------------------------- @map / @filter / @reduce
MapCases(u) ==
  {One(Call("@map", <<s.a, b>>), s.m, s.ks) : s \in UNION {Supply(l) : l \in L3}, b \in SubM}
FilterCases(u) ==
  {One(Call("@filter", <<s.a, b>>), s.m, s.ks) : s \in UNION {Supply(l) : l \in L3}, b \in SubF}
ReduceCases(u) ==
  {One(Call("@reduce", <<s.a, b>>), s.m, s.ks) : s \in UNION {Supply(l) : l \in L3}, b \in SubR}
  \cup {One(Call("@reduce", <<s.a, b, Lit(i)>>), s.m, s.ks) : s \in UNION {SupplyDyn(l) : l \in L3}, b \in SubR, i \in {E, Sz}}
  \cup {One(Call("@reduce", <<s.a, b>>), s.m, s.ks) : s \in UNION {Supply(l) : l \in IntLists}, b \in SubRI}
  \cup {One(Call("@reduce", <<s.a, b, Lit(i)>>), s.m, s.ks) :
          s \in UNION {SupplyDyn(l) : l \in IntLists}, b \in SubRI, i \in {I(0), I(100)}}
  \cup {One(Call("@reduce", <<A0, Cat(<<A0, A1>>), A1>>), <<Render(<<Sa, Sbb>>), Sz>>, <<>>)}

\* ---------------------------------------------------------------- @in  @range  @for  @ / $
InCases(u) ==
  {One(Call("@in", <<A0, Call("@", [i \in 1..Len(l) |-> Lit(l[i])])>>), <<v>>, <<>>) :
     v \in E3 \cup {Sb, <<97, 0, 98, 98>>}, l \in {l \in L3 : Len(l) >= 2}}
  \cup {One(Call("@in", <<Key(Kk), Lit(e)>>), <<>>, <<<<Kk, v>>>>) : v \in E3, e \in E3}
  \cup {One(Call("@in", <<Lit(v), Call("@split", <<Lit(<<97, 44, 98, 98>>), Lit(COMMA)>>)>>), <<>>, <<>>) : v \in E3}
  \cup {One(Call("@in", <<A0, A1>>), <<Sa, Render(<<Sa, Sbb>>)>>, <<>>)}
  \cup {One(Call("@in", <<A0, Call("@range", <<Lit(I(3))>>)>>), <<I(v)>>, <<>>) : v \in (0 - 1)..4}
RangeNoise == {E, Sa, <<49, 46, 53>>, <<43, 50>>}
RangeCases(u) ==
  {One(Call("@range", <<Lit(I(b))>>), <<>>, <<>>) : b \in (0 - 2)..6}
  \cup {One(Call("@range", <<A0>>), <<I(b)>>, <<>>) : b \in (0 - 2)..6}
  \cup {One(Call("@range", <<A0, A1>>), <<I(a), I(b)>>, <<>>) : a \in (0 - 2)..3, b \in (0 - 2)..4}
  \cup {One(Call("@range", <<Lit(I(a)), Lit(I(b)), Lit(I(c))>>), <<>>, <<>>) : a \in (0 - 2)..3, b \in (0 - 3)..4, c \in (0 - 2)..3}
  \cup {One(Call("@range", <<A0, Key(Kn), A1>>), <<I(a), I(c)>>, <<<<Kn, I(b)>>>>) : a \in {0, 1, 7}, b \in {0, 7, 10}, c \in {1, 2, 3, 0 - 3}}
  \cup {One(Call("@range", <<A0, A1, Arg(2)>>), <<a, b, c>>, <<>>) : a \in RangeNoise \cup {I(1)}, b \in RangeNoise \cup {I(3)}, c \in {I(1), Sa}}
  \cup {One(Call("@range", <<Lit(I(t[1])), Lit(I(t[2])), Lit(I(t[3]))>>), <<>>, <<>>) :
          t \in {<<99999998, 100000000, 1>>, <<0, 100000000, 50000000>>, <<0, 100000000, 33333333>>, <<100000000, 0, 0 - 50000000>>,
                 <<0, 47, 1>>, <<0, 48, 1>>, <<0, 49, 1>>, <<0, 0 - 48, 0 - 1>>}}
  \cup {One(Call("@len", <<Call("@range", <<A0, A1>>)>>), <<I(a), I(b)>>, <<>>) : a \in {0, 3}, b \in {0, 3, 12, 40}}
  \cup {One(Call("@reduce", <<Call("@range", <<A0>>), Call("sumi", <<A0, A1>>)>>), <<I(b)>>, <<>>) : b \in 0..12}
\* (only loops the specification sees terminating: the others run to the helper's 10^6 iteration limit)
Decided(c) == EvalT(c[1].x, Env(c[1].m, c[1].ks)).k # "any"
ForCases(u) ==
  {h \in {One(Call("@for", <<s, c, i>>), <<>>, KS0) : s \in ForStart, c \in ForCond, i \in ForIncr} : Decided(h)}
  \* the documentation's own examples (compile-time constants)
  \cup {One(Call("@for", <<Lit(I(0)), Call("lt", <<A0, Lit(I(5))>>), Call("sumi", <<A0, Lit(I(1))>>)>>), <<>>, <<>>),
        One(Call("@for", <<Lit(I(1)), Call("lt", <<A1, Lit(I(5))>>), Call("sumi", <<A0, A0>>)>>), <<>>, <<>>)}
  \cup {One(Call("@len", <<Call("@for", <<s, c, i>>)>>), <<>>, KS0) :
          s \in {Lit(E), Lit(Sa)}, c \in {Call("lt", <<A1, Lit(I(3))>>)}, i \in {Lit(E), A0, Cat(<<A0, Lit(Sa)>>)}}
ConcatCases(u) ==
  {One(Call(f, [i \in 1..Len(l) |-> Lit(l[i])]), <<>>, <<>>) : f \in {"@", "$"}, l \in L3 \ {<<>>}}
  \cup {One(Call(f, [i \in 1..Len(l) |-> Arg(i - 1)]), l, <<>>) : f \in {"@", "$"}, l \in L3 \ {<<>>}}
  \cup {One(Call("@", <<A0, Lit(Sc), Key(Kk)>>), <<v>>, KS0) : v \in {E, Sa, Render(<<Sa, Sbb>>), Render(<<E, E>>)}}
  \cup {One(Call("@len", <<Call("@", <<A0, A1>>)>>), <<v, w>>, <<>>) : v \in {Sa, Render(<<Sa, Sbb>>)}, w \in {Sa, Render(<<E, Sx, E>>)}}
  \cup {One(Call("@", <<Call("@", <<A0, A1>>), Call("$", <<A1, A0>>)>>), <<v, w>>, <<>>) : v \in E3, w \in E3}
  \cup {One(Cat(<<Call("@", <<A0, A1>>), Lit(Sx), Call("@join", <<Call("$", <<A1, A0>>), Lit(COMMA)>>)>>), <<v, w>>, <<>>) : v \in E3, w \in E3}

\* ---------------------------------------------------------------- nesting (depth 2) and keys at every level
Str2 == {Render(<<<<97, 43, 98>>, Sc>>), Render(<<PLUS, E, <<98, 98, 43, 43, 97>>>>), Sa, E, Render(<<E, E>>)}
InnerMap(b) == Call("@join", <<Call("@map", <<Call("@split", <<A0, Lit(PLUS)>>), b>>), Lit(PLUS)>>)
NestCases(u) ==
  {One(Call("@map", <<A0, InnerMap(b)>>), <<v>>, KS0) : v \in Str2, b \in {A0, Cat(<<A0, Key(Kk)>>), Call("upper", <<A0>>), Call("len", <<A0>>)}}
  \cup {One(Call("@map", <<A0, Call("@len", <<Call("@split", <<A0, Lit(PLUS)>>)>>)>>), <<v>>, KS0) : v \in Str2}
  \cup {One(Call("@map", <<A0, Call("@select", <<Call("@split", <<A0, Lit(PLUS)>>), Lit(I(i))>>)>>), <<v>>, KS0) : v \in Str2, i \in {0, 1, 0 - 1}}
  \cup {One(Call("@filter", <<A0, Call("@in", <<A0, Call("@", <<Lit(Sa), Lit(Sc)>>)>>)>>), <<Render(l)>>, KS0) : l \in Lists({Sa, Sb, Sc}, 3)}
  \cup {One(Call("@filter", <<Call("@map", <<s.a, b>>), c>>), s.m, s.ks) :
          s \in UNION {SupplyDyn(l) : l \in L3}, b \in {Call("len", <<A0>>), Cat(<<A0, Key(Kk)>>)}, c \in {Call("neq", <<A0, Lit(I(1))>>), Call("neq", <<A0, Key(Kk)>>)}}
  \cup {One(Call("@map", <<Call("@filter", <<s.a, c>>), b>>), s.m, s.ks) :
          s \in UNION {SupplyDyn(l) : l \in L3}, b \in {Call("len", <<A0>>), Cat(<<A0, Key(Kk)>>)}, c \in {A0, Call("neq", <<A0, Lit(Sa)>>)}}
  \cup {One(Call("@reduce", <<Call("@map", <<s.a, Call("len", <<A0>>)>>), Call("sumi", <<A0, A1>>)>>), s.m, s.ks) :
          s \in UNION {SupplyDyn(l) : l \in L3}}
  \cup {One(Call("@map", <<Call("@range", <<A0>>), Call("@join", <<Call("@range", <<A0>>), Lit(PLUS)>>)>>), <<I(b)>>, <<>>) : b \in 0..4}
  \cup {One(Call("@map", <<A0, Call("@reduce", <<Call("@split", <<A0, Lit(PLUS)>>), Cat(<<A1, Key(Kk), A0>>)>>)>>), <<v>>, KS0) : v \in Str2}
  \cup {One(Call("@for", <<Lit(Sa), Call("lt", <<A1, Lit(I(3))>>), Call("@join", <<Call("@map", <<Call("@", <<A0, Key(Kk)>>), Call("upper", <<A0>>)>>), Lit(E \o <<45>>)>>)>>), <<>>, KS0)}
  \cup {One(Call("@map", <<A0, Call("@join", <<Call("@for", <<A0, BLt, Cat(<<A0, Key(Kk)>>)>>), Lit(PLUS)>>)>>), <<Render(l)>>, <<<<Kk, Sx>>, <<Kn, I(c)>>>>) :
          l \in Lists({Sa, Sbb}, 2) \ {<<>>}, c \in 0..2}
ArityCases(u) ==
  {One(Call(f, [i \in 1..n |-> Lit(I(1))]), <<>>, <<>>) : f \in ArrayFuncs \ {"@", "$"}, n \in 1..4}

\* ---------------------------------------------------------------- integers of the whole 64-bit type
\* "embed": every start / stop / increment of the Bits-bit machine of ExprArrayWidth.tla (3 bits; 4 when
\* Thorough) multiplied by 2^(64-Bits) - the 64-bit loop then runs through exactly the wrap-arounds the
\* small machine runs through; "near": values next to -2^63, 0 and 2^63-1 with small and huge increments;
\* positions / lengths of @select and @slice that no list reaches; @for carrying values through sumi.
\* Only cases the specification decides are generated (a range of 2^63 elements is not evaluated).
G60 == W(FALSE, <<49, 49, 53, 50, 57, 50, 49, 53, 48, 52, 54, 48, 54, 56, 52, 54, 57, 55, 54>>)       \* 2^60
G61 == W(FALSE, <<50, 51, 48, 53, 56, 52, 51, 48, 48, 57, 50, 49, 51, 54, 57, 51, 57, 53, 50>>)       \* 2^61
G62 == W(FALSE, <<52, 54, 49, 49, 54, 56, 54, 48, 49, 56, 52, 50, 55, 51, 56, 55, 57, 48, 52>>)       \* 2^62
G32 == W(FALSE, <<52, 50, 57, 52, 57, 54, 55, 50, 57, 54>>)       \* 2^32
G31 == W(FALSE, <<50, 49, 52, 55, 52, 56, 51, 54, 52, 56>>)       \* 2^31
ASSUME G60 = WPow2(60) /\ G61 = WPow2(61) /\ G62 = WPow2(62) /\ G32 = WPow2(32) /\ G31 = WPow2(31)
EmbBits == IF Thorough THEN 4 ELSE 3
EmbVals == IF Thorough THEN (0 - 8)..7 ELSE (0 - 4)..3
EmbText(v) == WText(WMulInt(IF Thorough THEN G60 ELSE G61, v))
WT(w) == WText(w)
NearPts == {WMin64, WAdd(WMin64, WOne), WAdd(WMin64, WOfInt(2)), WOfInt(0 - 2), WOfInt(0 - 1), WZero, WOne, WOfInt(2),
            WSub(WMax64, WOfInt(2)), WSub(WMax64, WOne), WMax64}
NearIncr == {WOne, WOfInt(2), WOfInt(0 - 1), WOfInt(0 - 2), WMax64, WMin64, WNeg(WMax64), G62, WNeg(G62), WAdd(G62, WOne),
             WSub(WMax64, WOne), WAdd(G62, G61), WNeg(WAdd(G62, G61)), WAdd(G61, WOfInt(7))}
WidePos == {WMax64, WSub(WMax64, WOne), G62, G32, WAdd(G32, WOne), G31, WSub(G31, WOne), WOfInt(1000000000)}
WideIdx == WidePos \cup {WNeg(w) : w \in WidePos} \cup {WMin64, WAdd(WMin64, WOne)}
RangeVia(ta, tb, tc, lits) ==
  IF lits THEN One(Call("@range", <<Lit(ta), Lit(tb), Lit(tc)>>), <<>>, <<>>)
  ELSE One(Call("@range", <<A0, A1, Arg(2)>>), <<ta, tb, tc>>, <<>>)
WideCases(u) ==
  {h \in {RangeVia(EmbText(a), EmbText(b), EmbText(c), lits) : a \in EmbVals, b \in EmbVals, c \in EmbVals, lits \in BOOLEAN} : Decided(h)}
  \cup {h \in {RangeVia(WT(a), WT(b), WT(c), FALSE) : a \in NearPts, b \in NearPts, c \in NearIncr} : Decided(h)}
  \cup {h \in {One(Call("@range", <<Lit(WT(a)), Key(Kn), Lit(WT(c))>>), <<>>, <<<<Kn, WT(b)>>>>) :
                  a \in {WMin64, WOfInt(0 - 2), WSub(WMax64, WOfInt(2))}, b \in NearPts, c \in NearIncr} : Decided(h)}
  \cup {h \in {One(Call("@range", <<A0, A1>>), <<WT(a), WT(b)>>, <<>>) : a \in NearPts, b \in NearPts} : Decided(h)}
  \cup {h \in {One(Call("@len", <<Call("@range", <<A0, A1, Arg(2)>>)>>), <<WT(a), WT(b), WT(c)>>, <<>>) :
                  a \in {WMin64, WZero}, b \in {WZero, WMax64}, c \in NearIncr} : Decided(h)}
  \* an integer text that is no value of the type, +/leading zeros
  \cup {One(Call("@range", <<A0, A1, Arg(2)>>), <<ta, tb, tc>>, <<>>) :
          ta \in {I(0), WT(WAdd(WMax64, WOne)), <<43>> \o WT(WSub(WMax64, WOne)), <<45, 48>>}, tb \in {WT(WMax64), <<48, 48>> \o WT(WMax64)}, tc \in {WT(G62), Sx}}
  \* positions and lengths
  \cup UNION {{One(Call("@select", <<s.a, Lit(WT(w))>>), s.m, s.ks) : s \in Supply(l), w \in WideIdx} : l \in {Distinct(1), Distinct(3), <<E, Sx, E, Sy>>}}
  \cup UNION {{One(Call("@slice", <<s.a, Lit(WT(w))>>), s.m, s.ks) : s \in Supply(l), w \in WideIdx} : l \in {Distinct(1), Distinct(3), <<E, Sx, E, Sy>>}}
  \cup UNION {{One(Call("@slice", <<s.a, Lit(st), Lit(WT(w))>>), s.m, s.ks) :
                  s \in SupplyDyn(l), st \in {I(0), I(1), I(2), I(0 - 1), I(0 - 2), I(0 - 5), I(7), WT(WMin64), WT(WMax64), WT(WNeg(G32))}, w \in WidePos} :
                l \in {Distinct(1), Distinct(4), <<E, Sx, E, Sy>>}}
  \cup UNION {{One(Call("@slice", <<s.a, Lit(WT(w)), Lit(I(c))>>), s.m, s.ks) : s \in SupplyDyn(l), w \in WideIdx, c \in {0, 1, 5}} : l \in {Distinct(3)}}
  \cup {One(Call("@len", <<Call("@slice", <<A0, Lit(I(i)), Lit(WT(w))>>)>>), <<Render(Distinct(4))>>, <<>>) : i \in (0 - 5)..5, w \in {WMax64, G32}}
  \* @for carrying 64-bit values
  \cup {h \in {One(Call("@for", <<st, Call("lt", <<A1, Lit(I(n))>>), Call(f, <<A0, Lit(WT(c))>>)>>), <<WT(a)>>, <<<<Kn, WT(a)>>>>) :
                  st \in {A0, Key(Kn)}, a \in {WSub(WMax64, WOfInt(3)), WMin64, G62, WNeg(G62), WAdd(WMin64, WOfInt(2)), WOfInt(5)},
                  f \in {"sumi", "subi"}, c \in {WOne, WOfInt(3), G61, G62, WNeg(G61)}, n \in 1..4} : Decided(h)}
  \cup {h \in {One(Call("@reduce", <<A0, Call(f, <<A0, A1>>)>>), <<Render(l)>>, <<>>) :
                  f \in {"sumi", "subi"}, l \in {<<WT(G62), WT(G61), WT(G61)>>, <<WT(WMin64), WT(G62), WT(G62), I(7)>>, <<WT(WMax64), I(0 - 1), WT(WNeg(G62))>>,
                                                  <<I(1), WT(WMax64)>>, <<WT(WMin64), I(1)>>}} : Decided(h)}

\* ---------------------------------------------------------------- histories (ExprPool made concrete)
\* every expression reads the key k (and n) of ITS OWN match inside a sub-expression
HX == [h1 |-> Call("@map", <<A0, Cat(<<A0, Key(Kk)>>)>>),
       h2 |-> Call("@filter", <<A0, Call("neq", <<A0, Key(Kk)>>)>>),
       h3 |-> Call("@reduce", <<A0, Cat(<<A0, Key(Kk), A1>>)>>),
       h4 |-> Call("@for", <<Key(Kk), Call("lt", <<A1, Lit(I(2))>>), Cat(<<A0, Key(Kk)>>)>>),
       h5 |-> Call("@for", <<Lit(I(0)), Call("and", <<Call("lt", <<A1, Lit(I(5))>>), Call("lt", <<A0, Key(Kn)>>)>>), Call("sumi", <<A0, Lit(I(1))>>)>>),
       h6 |-> Call("@map", <<A0, InnerMap(Cat(<<A0, Key(Kk)>>))>>),
       h7 |-> Call("@map", <<A0, Call("@join", <<Call("@for", <<A0, BLt, Cat(<<A0, Key(Kk)>>)>>), Lit(PLUS)>>)>>),
       h8 |-> Call("@for", <<Lit(Sa), BLt,
                             Call("@join", <<Call("@map", <<Call("@", <<A0, Key(Kk)>>), Cat(<<A0, Key(Kk)>>)>>), Lit(E)>>)>>),
       \* compile-time constants: evaluated once by the optimiser against its probe context
       p1 |-> Call("@map", <<Call("@", <<Lit(Sa), Lit(Sbb)>>), Call("upper", <<A0>>)>>),
       p2 |-> Call("@for", <<Lit(I(0)), Call("lt", <<A0, Lit(I(3))>>), Call("sumi", <<A0, Lit(I(1))>>)>>),
       p3 |-> Call("@reduce", <<Call("@range", <<Lit(I(4))>>), Call("sumi", <<A0, A1>>)>>)]
HNames == DOMAIN HX
\* the frame program (ExprPool.tla) of each: which helpers take a pooled sub-context, nested how
\* ("map" stands for @map, @filter and @reduce: the same Get / init / eval / Return shape)
PoolProg == [h1 |-> <<"map">>, h2 |-> <<"map">>, h3 |-> <<"map">>, h4 |-> <<"for">>, h5 |-> <<"for">>,
             h6 |-> <<"map", "map">>, h7 |-> <<"map", "for">>, h8 |-> <<"for", "map">>,
             p1 |-> <<"map">>, p2 |-> <<"for">>, p3 |-> <<"map">>]
\* PoolProg really is the nesting of sub-context-taking helpers of the expression (an array ARGUMENT is
\* evaluated before the sub-context is taken, so a helper there is not nested)
RECURSIVE Chains(_)
Chains(x) ==
  IF x.t \in {"lit", "arg", "key"} THEN {<<>>}
  ELSE IF x.t = "cat" THEN UNION {Chains(x.a[i]) : i \in 1..Len(x.a)}
  ELSE LET k == IF x.f \in {"@map", "@filter", "@reduce"} THEN <<"map">> ELSE IF x.f = "@for" THEN <<"for">> ELSE <<>> IN
       {<<>>} \cup UNION {{(IF SubPos(x.f, i) THEN k ELSE <<>>) \o c : c \in Chains(x.a[i])} : i \in 1..Len(x.a)}
                \cup {k}
ASSUME \A h \in HNames : /\ PoolProg[h] \in Chains(HX[h])
                         /\ \A c \in Chains(HX[h]) : Len(c) <= Len(PoolProg[h])
                         /\ Len(PoolProg[h]) <= 2          \* ExprPool!MaxDepth
HCtx == <<[m |-> <<Render(<<<<97, 43, 98>>, Sc>>)>>, ks |-> <<<<Kk, Sx>>, <<Kn, I(2)>>>>],
          [m |-> <<Render(<<Sbb, E, <<97, 43, 43>>>>)>>, ks |-> <<<<Kk, Sy>>, <<Kn, I(3)>>>>],
          [m |-> <<Render(<<Sa>>)>>, ks |-> <<<<Kk, E>>, <<Kn, I(1)>>>>]>>
HStep(h, c) == Step(HX[h], HCtx[c].m, HCtx[c].ks)
Hist2(u) == {<<HStep(a, 1), HStep(b, 2)>> : a \in HNames, b \in HNames}
         \cup {<<HStep(a, 2), HStep(b, 1), HStep(a, 3)>> : a \in HNames, b \in HNames}
Hist3(u) == {<<HStep(a, 1), HStep(b, 2), HStep(c, 3), HStep(a, 2)>> : a \in HNames, b \in HNames, c \in HNames}

\* evaluated from W goroutines at once: per goroutine a context of its own
GCtx(g) == [m |-> <<Render([i \in 1..6 |-> <<97 + g, 43, 48 + i>>])>>, ks |-> <<<<Kk, <<103, 48 + g>>>>, <<Kn, I(1 + (g % 3))>>>>]
ConcCases(u) == {<<Step(HX[h], GCtx(g).m, GCtx(g).ks)>> : h \in HNames, g \in 1..8}

Groups == {"split", "join", "len", "select", "slice", "map", "filter", "reduce", "in", "range", "for", "concat",
           "nest", "arity", "hist2", "conc", "wide"} \cup (IF Thorough THEN {"hist3"} ELSE {})

Cases(g) ==
  CASE g = "split" -> SplitCases(0) [] g = "join" -> JoinCases(0) [] g = "len" -> LenCases(0)
    [] g = "select" -> SelectCases(0) [] g = "slice" -> SliceCases(0)
    [] g = "map" -> MapCases(0) [] g = "filter" -> FilterCases(0) [] g = "reduce" -> ReduceCases(0)
    [] g = "in" -> InCases(0) [] g = "range" -> RangeCases(0) [] g = "for" -> ForCases(0) [] g = "concat" -> ConcatCases(0)
    [] g = "nest" -> NestCases(0) [] g = "arity" -> ArityCases(0) [] g = "wide" -> WideCases(0)
    [] g = "hist2" -> Hist2(0) [] g = "hist3" -> Hist3(0) [] g = "conc" -> ConcCases(0)

Init == vec \in {[hdr |-> TRUE, g |-> g, steps |-> <<>>] : g \in Groups}
Next == /\ vec.hdr
        /\ \E c \in Cases(vec.g) : vec' = [hdr |-> FALSE, g |-> vec.g, steps |-> c]

Dump ==
  vec.hdr \/
  PrintT("VFJ " \o ToJson([g |-> vec.g,
                           steps |-> [i \in 1..Len(vec.steps) |->
                                        [x |-> vec.steps[i].x, m |-> vec.steps[i].m, ks |-> vec.steps[i].ks,
                                         exp |-> EvalT(vec.steps[i].x, Env(vec.steps[i].m, vec.steps[i].ks))]]]))
=============================================================================

------------------------------ MODULE TimeMemo ------------------------------
(* C05 - the state that the workers share inside ONE compiled time stage        *)
(* ({time x}, {buckettime x b}, ... with the default "cache" format;            *)
(* pkg/expressions/stdlib/funcsTime.go smartDateParseWrapper).  The stage is a  *)
(* closure: every extractor worker evaluates it for its own line, so whatever   *)
(* the closure remembers between two evaluations is shared by all workers.      *)
(* LockDiscipline.tla lists that state (atomicFormat); this module says what    *)
(* may be remembered there without breaking "final output reflects all          *)
(* matches": each evaluation must return the key of ITS OWN line.               *)
(*                                                                              *)
(* A line is its timestamp class c \in 1..NC (lines of one class carry the same *)
(* timestamp text); the key the stage owes for it is KeyOf(c) = c.  All lines   *)
(* of a run are written in one layout (the documented use of the cached         *)
(* format), detection is a function of the text alone.                          *)
(*                                                                              *)
(*   Memo = "format"  the code: one atomic cell holds the detected layout; a    *)
(*                    worker that finds it empty detects and stores - every     *)
(*                    store writes the same value                               *)
(*   Memo = "pair1"   additionally the last conversion (input, result) is       *)
(*                    remembered in ONE cell, read and written as a whole       *)
(*                    (an atomic pointer to an immutable pair, or a mutex)      *)
(*   Memo = "pair2"   ... remembered in TWO cells, each of them atomic: no data *)
(*                    race, but a pair of atomics is not an atomic pair - a     *)
(*                    hit on the input can be paired with another worker's      *)
(*                    result.  Negative control: TLC must refute KeyOK.         *)
(*   Memo = "pair2v"  two cells, and the reader looks at the input cell again    *)
(*                    after it read the result: between the writer's two stores *)
(*                    the cells hold (old input, new result), so the second     *)
(*                    look does not help.  Second negative control.             *)
EXTENDS Integers, Sequences, FiniteSets, FiniteSetsExt

CONSTANTS W,      \* workers
          Work,   \* Work[w] = the classes of the lines worker w evaluates, in order
          NC,     \* timestamp classes
          Memo

KeyOf(c) == c
None == 0

VARIABLES fmt,            \* atomicFormat: 0 = not detected yet, 1 = the layout of the input
          cIn, cOut,      \* "pair2": last input, last result (two atomic cells)
          cPair,          \* "pair1": <<input, result>> in one cell
          pc, at,         \* per worker: program counter, index of the line in Work[w]
          lf, lhit, lout, \* per worker: locals (format loaded, cached result loaded)
          cnt,            \* key -> number of matches produced under that key (the aggregate)
          bad             \* some evaluation returned a key that is not the key of its own line
vars == <<fmt, cIn, cOut, cPair, pc, at, lf, lhit, lout, cnt, bad>>

Cur(w) == Work[w][at[w]]
Total == [k \in 1..NC |-> Cardinality({<<w, i>> \in (1..W) \X (1..8) : i <= Len(Work[w]) /\ KeyOf(Work[w][i]) = k})]

Init ==
  /\ fmt = 0 /\ cIn = None /\ cOut = None /\ cPair = <<None, None>>
  /\ pc = [w \in 1..W |-> IF Work[w] = <<>> THEN "done" ELSE "start"]
  /\ at = [w \in 1..W |-> 1]
  /\ lf = [w \in 1..W |-> 0] /\ lhit = [w \in 1..W |-> FALSE] /\ lout = [w \in 1..W |-> None]
  /\ cnt = [k \in 1..NC |-> 0] /\ bad = FALSE

Goto(w, l) == pc' = [pc EXCEPT ![w] = l]

\* the evaluation of worker w returns key k: the match is sent on and sampled under k
Emit(w, k) ==
  /\ cnt' = [cnt EXCEPT ![k] = @ + 1]
  /\ bad' = (bad \/ k # KeyOf(Cur(w)))
  /\ IF at[w] < Len(Work[w]) THEN at' = [at EXCEPT ![w] = @ + 1] /\ Goto(w, "start")
     ELSE at' = at /\ Goto(w, "done")

\* ---- look the input up in the memo ------------------------------------------
Start(w) ==
  /\ pc[w] = "start"
  /\ CASE Memo = "format" -> Goto(w, "loadfmt") /\ UNCHANGED <<lhit, lout>>
       [] Memo = "pair1"  -> /\ lhit' = [lhit EXCEPT ![w] = cPair[1] = Cur(w)]      \* one load: input and result
                             /\ lout' = [lout EXCEPT ![w] = cPair[2]]
                             /\ Goto(w, "hit?")
       [] Memo \in {"pair2", "pair2v"} ->
                             /\ lhit' = [lhit EXCEPT ![w] = cIn = Cur(w)]           \* lastTime.Load() == strTime
                             /\ UNCHANGED lout
                             /\ Goto(w, IF cIn = Cur(w) THEN "loadout" ELSE "loadfmt")
  /\ UNCHANGED <<fmt, cIn, cOut, cPair, at, lf, cnt, bad>>

Hit(w) ==         \* pair1: use the result that was loaded together with the input
  /\ pc[w] = "hit?"
  /\ IF lhit[w] THEN Emit(w, lout[w]) /\ UNCHANGED <<fmt, cIn, cOut, cPair, lf, lhit, lout>>
     ELSE Goto(w, "loadfmt") /\ UNCHANGED <<fmt, cIn, cOut, cPair, at, lf, lhit, lout, cnt, bad>>

LoadOut(w) ==     \* pair2: lastResult.Load() - a second, separate load
  /\ pc[w] = "loadout"
  /\ lout' = [lout EXCEPT ![w] = cOut]
  /\ Goto(w, IF Memo = "pair2v" THEN "validate" ELSE "usehit")
  /\ UNCHANGED <<fmt, cIn, cOut, cPair, at, lf, lhit, cnt, bad>>

\* pair2v: look at the input cell again; equal -> trust the result (the writer may be between its stores)
Validate(w) ==
  /\ pc[w] = "validate"
  /\ Goto(w, IF cIn = Cur(w) THEN "usehit" ELSE "loadfmt")
  /\ UNCHANGED <<fmt, cIn, cOut, cPair, at, lf, lhit, lout, cnt, bad>>

UseHit(w) ==
  /\ pc[w] = "usehit"
  /\ Emit(w, lout[w]) /\ UNCHANGED <<fmt, cIn, cOut, cPair, lf, lhit, lout>>

\* ---- the conversion itself (the code) ---------------------------------------
LoadFmt(w) ==     \* liveFormat := atomicFormat.Load()
  /\ pc[w] = "loadfmt"
  /\ lf' = [lf EXCEPT ![w] = fmt]
  /\ Goto(w, IF fmt = 0 THEN "detect" ELSE "parse")
  /\ UNCHANGED <<fmt, cIn, cOut, cPair, at, lhit, lout, cnt, bad>>

Detect(w) ==      \* dateparse.ParseFormat(strTime); atomicFormat.Store(liveFormat) - "may end up run by a few threads"
  /\ pc[w] = "detect"
  /\ lf' = [lf EXCEPT ![w] = 1] /\ fmt' = 1
  /\ Goto(w, "parse")
  /\ UNCHANGED <<cIn, cOut, cPair, at, lhit, lout, cnt, bad>>

Parse(w) ==       \* time.ParseInLocation(liveFormat, strTime, tz); f(val): a function of the worker's own line
  /\ pc[w] = "parse" /\ lf[w] = 1
  /\ lout' = [lout EXCEPT ![w] = KeyOf(Cur(w))]
  /\ Goto(w, CASE Memo = "format" -> "emit" [] Memo = "pair1" -> "storepair" [] OTHER -> "storeout")
  /\ UNCHANGED <<fmt, cIn, cOut, cPair, at, lf, lhit, cnt, bad>>

StorePair(w) ==
  /\ pc[w] = "storepair"
  /\ cPair' = <<Cur(w), lout[w]>>
  /\ Goto(w, "emit")
  /\ UNCHANGED <<fmt, cIn, cOut, at, lf, lhit, lout, cnt, bad>>

StoreOut(w) ==    \* lastResult.Store(result)
  /\ pc[w] = "storeout"
  /\ cOut' = lout[w]
  /\ Goto(w, "storein")
  /\ UNCHANGED <<fmt, cIn, cPair, at, lf, lhit, lout, cnt, bad>>

StoreIn(w) ==     \* lastTime.Store(strTime)
  /\ pc[w] = "storein"
  /\ cIn' = Cur(w)
  /\ Goto(w, "emit")
  /\ UNCHANGED <<fmt, cOut, cPair, at, lf, lhit, lout, cnt, bad>>

EmitOwn(w) ==
  /\ pc[w] = "emit"
  /\ Emit(w, lout[w]) /\ UNCHANGED <<fmt, cIn, cOut, cPair, lf, lhit, lout>>

Step(w) == Start(w) \/ Hit(w) \/ LoadOut(w) \/ Validate(w) \/ UseHit(w) \/ LoadFmt(w) \/ Detect(w) \/ Parse(w)
           \/ StorePair(w) \/ StoreOut(w) \/ StoreIn(w) \/ EmitOwn(w)
AllDone == \A w \in 1..W : pc[w] = "done"
Next == (\E w \in 1..W : Step(w)) \/ (AllDone /\ UNCHANGED vars)
Spec == Init /\ [][Next]_vars /\ \A w \in 1..W : WF_vars(Step(w))

\* ------------------------------------------------------------- properties
TypeOK ==
  /\ fmt \in 0..1 /\ cIn \in 0..NC /\ cOut \in 0..NC /\ cPair \in (0..NC) \X (0..NC)
  /\ \A w \in 1..W : at[w] \in 1..(Len(Work[w]) + 1)
\* every evaluation returns the key of its own line ...
KeyOK == ~bad
\* ... so no count ever exceeds the final correct count, and the final counts are the fold of all lines
CountLeFinal == \A k \in 1..NC : cnt[k] <= Total[k]
FinalCounts == AllDone => cnt = Total
\* what the memo cells hold is consistent whenever it is used as a whole (pair1 only)
PairOK == cPair[1] # None => cPair[2] = KeyOf(cPair[1])
Terminates == <>AllDone
=============================================================================

------------------------- MODULE ExprSyntaxEval_Gen -------------------------
(* B1 generator for ExprSyntaxEval: Grain = "lookup", every schedule (which      *)
(* worker runs from its pending context lookup to its next one) of every case,   *)
(* with the result each worker must return.  The Go driver loads the             *)
(* definitions with the real funcs-file loader, compiles the template once and   *)
(* replays the schedule with gated contexts: a worker blocks inside GetMatch /   *)
(* GetKey until the schedule names it.                                           *)
EXTENDS ExprSyntaxEval, Json

VARIABLE sched
GInit == Init /\ sched = <<>>
GNext == \E w \in Workers : StepW(w) /\ sched' = Append(sched, w)
Dump == Done => PrintT("VFJ " \o ToJson([id |-> cid, defs |-> Pool[cid].defs, text |-> Pool[cid].text, nw |-> Pool[cid].nw,
                                         sched |-> sched, expect |-> [w \in Workers |-> Denote(prog, w)]]))
=============================================================================

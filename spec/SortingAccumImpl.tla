-------------------------- MODULE SortingAccumImpl --------------------------
(* B3 for the accumulating group of C13: the object of SortingAccum.tla as a      *)
(* state machine.  The initial state fixes the universe of group keys, the sort   *)
(* expression and the direction; every step is one operation on ONE long-lived    *)
(* object: a sample (any group, any value - so every interleaving of the groups'  *)
(* first appearance and every order of the same samples is a behaviour) or a      *)
(* display.  In EVERY reachable state the listing Groups() would return now is    *)
(* judged:                                                                        *)
(*   RanksHold   it respects the order the sorter puts on the current sort values *)
(*   RowsOnlyInv it is the listing of a pristine object holding the same rows:    *)
(*               arrival order, earlier displays, earlier rows do not matter      *)
(*   PermInv     (a consequence, stated on histories) the same samples delivered  *)
(*               in key order give the same listing                               *)
(* The design is picked by the initial state (DesignSet).                          *)
(* Design "keyorder" (the implementation) satisfies all three.  NEGATIVE CONTROLS *)
(* TLC must refute: "arrival" / "arrivalrev" (start of the sort = first-seen      *)
(* order: RowsOnlyInv and PermInv fail as soon as two sort values are tied),      *)
(* "memo" (sort values remembered by an earlier display: RanksHold fails).        *)
EXTENDS SortingAccum

CONSTANTS DesignSet, \* subset of Designs; the initial state picks one
          MaxOps,    \* samples per history
          Vals       \* values of a sample

\* (a configuration file cannot write a negative number: `Vals <- NegVals`)
NegVals == {1, 2, 0 - 2}

VARIABLES u, e, rev, obj, hist, Design
vars == <<u, e, rev, obj, hist, Design>>

Init == /\ Design \in DesignSet
        /\ u \in AccUnivs /\ e \in Exprs /\ rev \in BOOLEAN
        /\ obj = NewObj /\ hist = <<>>
DoSample == /\ Len(hist) < MaxOps
            /\ \E g \in G, v \in Vals : obj' = Sample(obj, g, v) /\ hist' = Append(hist, <<g, v>>)
            /\ UNCHANGED <<u, e, rev, Design>>
\* a display changes the object only under a remembering design
DoDisplay == /\ Display(Design, e, obj) # obj
             /\ obj' = Display(Design, e, obj)
             /\ UNCHANGED <<u, e, rev, hist, Design>>
Next == DoSample \/ DoDisplay
Spec == Init /\ [][Next]_vars

Now == Listing(Design, u, e, rev, obj)
TypeOK == /\ obj.rows = RowsOf(hist) /\ SeqSet(obj.seen) = Present(obj.rows)
          /\ DOMAIN obj.memo \subseteq Present(obj.rows)
RanksHold == RanksOK(u, e, rev, obj.rows, Now)
RowsOnlyInv == RowsOnly(Design, u, e, rev, obj)
\* the samples of the history in key order (group, then value), folded into a new object
RECURSIVE InsertOp(_, _)
InsertOp(s, op) == IF s = <<>> THEN <<op>>
  ELSE IF op[1] < s[1][1] \/ (op[1] = s[1][1] /\ op[2] <= s[1][2]) THEN <<op>> \o s
  ELSE <<s[1]>> \o InsertOp(Tail(s), op)
RECURSIVE SortOps(_, _)
SortOps(h, k) == IF k > Len(h) THEN <<>> ELSE InsertOp(SortOps(h, k + 1), h[k])
RECURSIVE Feed(_, _, _)
Feed(o, h, k) == IF k > Len(h) THEN o ELSE Feed(Sample(o, h[k][1], h[k][2]), h, k + 1)
PermInv == Now = Listing(Design, u, e, rev, Feed(NewObj, SortOps(hist, 1), 1))

\* ------------------------------------------------ one run for the implementation and the controls
Laws == /\ TypeOK
        /\ (Design = "keyorder" => (RanksHold /\ RowsOnlyInv /\ PermInv))
\* NEGATIVE CONTROLS: registers record that TLC reached a state refuting
\*   1 arrival : RowsOnlyInv   2 arrival : PermInv   3 arrivalrev : RowsOnlyInv   4 memo : RanksHold
\*   5 memo : RowsOnlyInv;  6: arrival never breaks RanksHold (it is only the ties it gets wrong)
CtlInit == (\A k \in 1..5 : TLCSet(k, FALSE)) /\ TLCSet(6, TRUE) /\ Init
CtlMark == /\ ((Design = "arrival" /\ ~RowsOnlyInv) => TLCSet(1, TRUE))
           /\ ((Design = "arrival" /\ ~PermInv) => TLCSet(2, TRUE))
           /\ ((Design = "arrivalrev" /\ ~RowsOnlyInv) => TLCSet(3, TRUE))
           /\ ((Design = "memo" /\ ~RanksHold) => TLCSet(4, TRUE))
           /\ ((Design = "memo" /\ ~RowsOnlyInv) => TLCSet(5, TRUE))
           /\ ((Design \in {"arrival", "arrivalrev"} /\ ~RanksHold) => TLCSet(6, FALSE))
CtlAllRefuted == \A k \in 1..6 : TLCGet(k)
=============================================================================

------------------------------ MODULE ExprProbe ------------------------------
(* C10 - the optimiser's probe IS an evaluation.                                  *)
(*                                                                               *)
(* `rare expression` (and every command that compiles an expression) with        *)
(* optimisation enabled evaluates every stage ONCE at compile time against the   *)
(* all-empty look-up counting context (stageAnalysis.go EvalStaticStage, called  *)
(* from keyBuilder.go optimize()).  With --no-optimize that evaluation does not  *)
(* take place.  ExprOpt.tla treats the probe as a pure function of the stage;    *)
(* this module models what ExprOpt cannot see: the probe runs the REAL helper    *)
(* code, on data no line ever supplies, so it takes exit paths that ordinary     *)
(* data does not take - an array helper over no elements, a numeric comparison   *)
(* of "" answering the (truthy) marker <BAD-TYPE>, and so the iteration cap of   *)
(* {@for} (<INF>) whenever the start value or the condition reads the match -    *)
(* and the helpers @map @reduce @filter @for take their sub-context from ONE     *)
(* process-wide pool (stdlib.subContextPool):                                    *)
(*                                                                               *)
(*     sub := pool.Get(); defer pool.Return(sub); *sub = subContext{parent: ctx} *)
(*     for every element: sub.vals = {elem, ..}; evaluate the sub-expression     *)
(*                                                                               *)
(* Optimisation may not change a value (C10) only if the probe leaves the        *)
(* process as it found it: every object it took is back in the pool exactly      *)
(* once, whatever the exit path.  Otherwise the LATER evaluations of the same    *)
(* process - of this or of ANOTHER compiled expression, nested helpers in one    *)
(* goroutine or plain helpers in several workers - hand one object to two        *)
(* activations, which overwrite each other's {0}/{1} and parent: the optimised   *)
(* process prints another string than the --no-optimize process.                 *)
(*                                                                               *)
(* The model.  Objects 1..MaxObj, the pool a sequence (which end Get takes from  *)
(* is a CONSTANT: no law may depend on it), an activation = Get / re-initialise  *)
(* / per element: Bind the element, then the look-ups of the sub-expression      *)
(* ({0} reads the object's value slot, a named key walks the parent chain), the  *)
(* helpers nested in it, {0} again after them / Return.  Phase "compile": the    *)
(* main goroutine compiles the trees of Probed in turn; with Optimise it runs    *)
(* each of them once with the exit path the all-empty context forces (pexit of   *)
(* every node).  Phase "run": G goroutines evaluate the trees of Wit on N lines  *)
(* each, exit paths chosen by the data (never the iteration cap unless RunInf:   *)
(* a runaway loop on real data is C08's subject, here it is reachable through    *)
(* the probe only).  Every look-up records whether it was answered with the      *)
(* asking activation's own element / own line.                                   *)
(*                                                                               *)
(* Laws (ExprProbe_MC): OwnValues - every look-up of every evaluation is         *)
(* answered with the value the abstract semantics gives it (own element, own     *)
(* line), in BOTH modes; hence optimised = unoptimised for every Wit, every      *)
(* interleaving.  ProbeNeutral - when compilation ends the pool holds every      *)
(* object exactly once (as it does without optimisation).  Exclusive, Survives,  *)
(* Conserved.  Deviations Double / Leak / NoReset are empty in the code.         *)
(* Negative controls: Double = {"for/inf"} (the bail-out path of @for Returns    *)
(* explicitly AND through the defer) violates OwnValues with Optimise = TRUE     *)
(* and satisfies every law with Optimise = FALSE - the two modes differ;         *)
(* Double = {"map/zero"}, {"filter/err"} likewise.  Leak passes OwnValues (the   *)
(* pool just grows: not observable, not demanded of the code).                   *)
EXTENDS Integers, Sequences, FiniteSets, TLC

CONSTANTS G, N,       \* goroutines of the run phase, lines per goroutine
          PoolSize, MaxObj,
          Fifo,       \* FALSE: Get takes the newest object (the code); TRUE: the oldest (a legal refactoring)
          RunInf,     \* TRUE: real data may also drive @for to its iteration cap
          Double, Leak, NoReset

PHelpers == {"map", "reduce", "filter", "for"}
PExits(h) == {"zero", "some", "err"} \cup (IF h = "for" THEN {"inf"} ELSE {})
RunExits(h) == IF RunInf THEN PExits(h) ELSE PExits(h) \ {"inf"}
\* look: subset of {"elem", "key"} - what the sub-expression reads; pexit: the exit path under the all-empty context
PNode(h, look, kids, pexit) == [h |-> h, look |-> look, kids |-> kids, pexit |-> pexit]

NIL == 0
PRoot(g) == 0 - (g + 1)          \* the context of the line goroutine g works on; g = 0: the monitor context of the probe
Gs == 0..G                       \* 0 = the compiling goroutine
Objs == 1..MaxObj

\* the process (chosen by the initial state, never changed)
VARIABLES Probed,   \* sequence of trees compiled before anything is evaluated
          Wit,      \* sequence of trees every goroutine evaluates on each of its lines
          Optimise  \* TRUE: compile probes every tree of Probed once (EvalStaticStage); FALSE: --no-optimize
proc == <<Probed, Wit, Optimise>>
VARIABLES phase,    \* "compile" | "run"
          cdone,    \* trees of Probed compiled so far
          pc,       \* "run" | "fatal" (look-up that never ends) | "panic" (nil parent)
          pool, next, parent,
          val,      \* val[o]: the element bound in object o, as the tag <<goroutine, depth>> of the activation that bound it
          stk, prog,
          wrong     \* a look-up was answered with another activation's element or another line
pvars == <<proc, phase, cdone, pc, pool, next, parent, val, stk, prog, wrong>>

PFrame(n, o, e, todo) == [n |-> n, obj |-> o, e |-> e, todo |-> todo]
\* what one activation does with its sub-expression (one element stands for all): bind the element, look-ups, nested
\* helpers in order, and - when there are nested helpers - {0} once more after them ("{@join {@map ..}}:{0}")
Op(o, j) == [op |-> o, j |-> j]
LookOps(n) == (IF "elem" \in n.look THEN <<Op("elem", 0)>> ELSE <<>>) \o (IF "key" \in n.look THEN <<Op("key", 0)>> ELSE <<>>)
PWork(n, e) ==
  IF e = "zero" THEN <<>>
  ELSE <<Op("bind", 0)>> \o LookOps(n) \o [j \in 1..Len(n.kids) |-> Op("kid", j)]
       \o (IF n.kids # <<>> /\ "elem" \in n.look THEN <<Op("elem", 0)>> ELSE <<>>)

PInit(P, W, O) ==
  /\ Probed = P /\ Wit = W /\ Optimise = O
  /\ phase = "compile" /\ cdone = 0 /\ pc = "run"
  /\ pool = [j \in 1..PoolSize |-> j] /\ next = PoolSize + 1
  /\ parent = [o \in Objs |-> NIL] /\ val = [o \in Objs |-> <<>>]
  /\ stk = [g \in Gs |-> <<>>] /\ prog = [g \in Gs |-> [ln |-> 0, ex |-> 0]] /\ wrong = FALSE

\* ---- Get + re-initialise
Take == IF pool = <<>> THEN next ELSE IF Fifo THEN pool[1] ELSE pool[Len(pool)]
Rest == IF pool = <<>> THEN pool ELSE IF Fifo THEN Tail(pool) ELSE SubSeq(pool, 1, Len(pool) - 1)
PEnter(g, n, ctx, rest, exits) ==
  \E e \in exits :
    LET o == Take IN
    /\ o \in Objs
    /\ pool' = Rest
    /\ next' = (IF pool = <<>> THEN next + 1 ELSE next)
    /\ parent' = (IF n.h \in NoReset THEN parent ELSE [parent EXCEPT ![o] = ctx])
    /\ val' = (IF n.h \in NoReset THEN val ELSE [val EXCEPT ![o] = <<>>])
    /\ stk' = [stk EXCEPT ![g] = Append(rest, PFrame(n, o, e, PWork(n, e)))]
ExitsFor(g, n) == IF g = 0 THEN {n.pexit} ELSE RunExits(n.h)

\* ---- the compile phase: goroutine 0
CompileNext ==
  /\ phase = "compile" /\ pc = "run" /\ stk[0] = <<>>
  /\ IF cdone < Len(Probed)
     THEN /\ cdone' = cdone + 1
          /\ IF Optimise
             THEN PEnter(0, Probed[cdone + 1], PRoot(0), <<>>, {Probed[cdone + 1].pexit})       \* the probe evaluation
             ELSE UNCHANGED <<pool, next, parent, val, stk>>
          /\ UNCHANGED <<phase, pc, prog, wrong>>
     ELSE /\ phase' = "run"
          /\ UNCHANGED <<cdone, pc, pool, next, parent, val, stk, prog, wrong>>

\* ---- the run phase: goroutines 1..G
StartExpr(g) ==
  /\ g > 0 /\ phase = "run" /\ pc = "run" /\ stk[g] = <<>> /\ prog[g].ln < N
  /\ IF prog[g].ex < Len(Wit)
     THEN /\ prog' = [prog EXCEPT ![g].ex = @ + 1]
          /\ PEnter(g, Wit[prog[g].ex + 1], PRoot(g), <<>>, RunExits(Wit[prog[g].ex + 1].h))
          /\ UNCHANGED <<phase, cdone, pc, wrong>>
     ELSE /\ prog' = [prog EXCEPT ![g] = [ln |-> @.ln + 1, ex |-> 0]]
          /\ UNCHANGED <<phase, cdone, pc, pool, next, parent, val, stk, wrong>>

PTop(g) == stk[g][Len(stk[g])]
PopWork(g) == [stk[g] EXCEPT ![Len(stk[g])].todo = Tail(@)]
Ready(g) == pc = "run" /\ stk[g] # <<>> /\ PTop(g).todo # <<>>
MyTag(g) == <<g, Len(stk[g])>>

EnterKid(g) ==
  /\ Ready(g) /\ Head(PTop(g).todo).op = "kid"
  /\ LET k == PTop(g).n.kids[Head(PTop(g).todo).j] IN PEnter(g, k, PTop(g).obj, PopWork(g), ExitsFor(g, k))
  /\ UNCHANGED <<phase, cdone, pc, prog, wrong>>

\* subContext.Eval: s.vals[0] = element
Bind(g) ==
  /\ Ready(g) /\ Head(PTop(g).todo).op = "bind"
  /\ val' = [val EXCEPT ![PTop(g).obj] = MyTag(g)]
  /\ stk' = [stk EXCEPT ![g] = PopWork(g)]
  /\ UNCHANGED <<phase, cdone, pc, pool, next, parent, prog, wrong>>

\* {0}: subContext.GetMatch(0) = s.vals[0]
LookElem(g) ==
  /\ Ready(g) /\ Head(PTop(g).todo).op = "elem"
  /\ wrong' = (wrong \/ val[PTop(g).obj] # MyTag(g))
  /\ stk' = [stk EXCEPT ![g] = PopWork(g)]
  /\ UNCHANGED <<phase, cdone, pc, pool, next, parent, val, prog>>

\* {key}: subContext.GetKey forwards to the parent until a line context answers
WNil == 0
WLoop == 1
RECURSIVE PWalk(_, _)
PWalk(o, fuel) ==
  IF parent[o] = NIL THEN WNil
  ELSE IF parent[o] < 0 THEN parent[o]
  ELSE IF fuel = 0 THEN WLoop
  ELSE PWalk(parent[o], fuel - 1)
LookKey(g) ==
  /\ Ready(g) /\ Head(PTop(g).todo).op = "key"
  /\ LET r == PWalk(PTop(g).obj, MaxObj) IN
       /\ pc' = (IF r = WLoop THEN "fatal" ELSE IF r = WNil THEN "panic" ELSE pc)
       /\ wrong' = (wrong \/ r # PRoot(g))
  /\ stk' = [stk EXCEPT ![g] = PopWork(g)]
  /\ UNCHANGED <<phase, cdone, pool, next, parent, val, prog>>

\* ---- Return on the activation's exit path
PPath(h, e) == h \o "/" \o e
Times(h, e) == IF PPath(h, e) \in Double THEN 2 ELSE IF PPath(h, e) \in Leak THEN 0 ELSE 1
PExit(g) ==
  /\ pc = "run" /\ stk[g] # <<>> /\ PTop(g).todo = <<>>
  /\ LET f == PTop(g)  t == Times(f.n.h, f.e) IN pool' = pool \o [j \in 1..t |-> f.obj]
  /\ stk' = [stk EXCEPT ![g] = SubSeq(@, 1, Len(@) - 1)]
  /\ UNCHANGED <<phase, cdone, pc, next, parent, val, prog, wrong>>

PStep(g) == StartExpr(g) \/ EnterKid(g) \/ Bind(g) \/ LookElem(g) \/ LookKey(g) \/ PExit(g)
PNext == (CompileNext \/ \E g \in Gs : PStep(g)) /\ UNCHANGED proc

\* ------------------------------------------------------------------ laws
PRange(s) == {s[j] : j \in 1..Len(s)}
Live == {x \in Gs \X (1..MaxObj) : x[2] <= Len(stk[x[1]])}
ObjOf(x) == stk[x[1]][x[2]].obj
AllIdle == \A g \in Gs : stk[g] = <<>>
PoolOnce == Len(pool) = next - 1 /\ PRange(pool) = 1..(next - 1)

PTypeOK ==
  /\ phase \in {"compile", "run"} /\ pc \in {"run", "fatal", "panic"} /\ next \in 1..(MaxObj + 1) /\ wrong \in BOOLEAN
  /\ cdone \in 0..Len(Probed) /\ PRange(pool) \subseteq Objs
  /\ \A g \in Gs : prog[g].ln \in 0..N /\ prog[g].ex \in 0..Len(Wit)
\* THE law of the property in this model: every look-up of every evaluation is answered with the asking activation's own
\* element / own line - what the pool-free semantics (ExprArray!EvalT) says - with and without optimisation
OwnValues == ~wrong
Survives == pc = "run"
Exclusive ==
  /\ \A x, y \in Live : x # y => ObjOf(x) # ObjOf(y)
  /\ \A x \in Live : ObjOf(x) \notin PRange(pool)
  /\ \A j, k \in 1..Len(pool) : j # k => pool[j] # pool[k]
\* compilation leaves the pool as a compilation without optimisation leaves it: every object in it, once
ProbeNeutral == (phase = "run" /\ \A g \in Gs : prog[g] = [ln |-> 0, ex |-> 0]) => PoolOnce
Conserved == AllIdle => PoolOnce
PDone == phase = "run" /\ \A g \in 1..G : prog[g].ln = N
Terminates == <>(PDone \/ pc # "run")
=============================================================================

---------------------------- MODULE AggLoopInt_Trace ----------------------------
(* B2: every record is one run of the REAL binary (`rare histo` on a  *)
(* pipe the driver keeps open or feeds for ever) that received SIGINT - or, as a  *)
(* control, no signal.  rec = [t, w, lines (the key, 0 = no match, of every line  *)
(* the driver had written when the process was gone), upto (number of those lines *)
(* written when the signal was sent; the rest were written while the process was  *)
(* ending), counts (final picture, by key 1..NK), matched, read (the summary's    *)
(* numbers), code, how \in {"exit", "hang", "killed"}, signal, exact \in BOOLEAN].      *)
(* A run AggLoopInt.tla cannot explain is listed in `bad` with the laws it breaks.*)
EXTENDS Integers, Sequences, FiniteSets, SequencesExt, TLC, Json
Trace == ndJsonDeserialize("trace.ndjson")
VARIABLES l, bad
tvars == <<l, bad>>
CountIn(s, k) == Cardinality({i \in 1..Len(s) : s[i] = k})
RECURSIVE Sum(_, _)
Sum(s, i) == IF i > Len(s) THEN 0 ELSE s[i] + Sum(s, i + 1)
Why(r) ==
  LET NK == Len(r.counts)
      M  == Cardinality({i \in 1..Len(r.lines) : r.lines[i] # 0}) IN
  IF r.how = "hang" THEN {"hang"}                 \* IntTerminates / Terminates2
  ELSE IF r.how = "killed" THEN {"killed"}        \* the signal was not taken by the loop: no final picture
  ELSE
  (IF \A k \in 1..NK : r.counts[k] <= CountIn(r.lines, k) THEN {} ELSE {"over"}) \cup              \* RelBound
  (IF r.matched >= Sum(r.counts, 1) /\ r.matched <= M THEN {} ELSE {"matched"}) \cup               \* MatchedGeSum
  (IF r.read >= r.matched /\ r.read <= Len(r.lines) THEN {} ELSE {"read"}) \cup
  (IF r.w = 1 /\ ~\E p \in 0..Len(r.lines) : \A k \in 1..NK : r.counts[k] = CountIn(SubSeq(r.lines, 1, p), k)
     THEN {"prefix"} ELSE {}) \cup                                                                 \* PrefixW1
  \* stalled input, batch size 1, signal long after the last line: every line was a full batch and was sampled
  \* (IntFinalComplete: the final picture is everything sampled; FinalAfterAll's reasoning for the released part)
  (IF r.exact /\ ~\A k \in 1..NK : r.counts[k] = CountIn(r.lines, k) THEN {"final-incomplete"} ELSE {}) \cup
  (IF ~r.signal /\ ~\A k \in 1..NK : r.counts[k] = CountIn(r.lines, k) THEN {"short"} ELSE {}) \cup \* NoSigSame
  \* the exit status is decided from the matched counter AFTER the summary was printed, while workers may still run:
  \* 1 needs a counter that was still 0 at the summary, 0 needs a match in the input; without a signal it is exact
  (IF \/ (r.code = 0 /\ M > 0 /\ (r.signal \/ r.matched > 0))
      \/ (r.code = 1 /\ r.matched = 0 /\ (r.signal \/ M = 0))
   THEN {} ELSE {"exit"})
TInit == l = 1 /\ bad = <<>>
TNext == /\ l <= Len(Trace)
         /\ l' = l + 1
         /\ LET w == Why(Trace[l]) IN
            bad' = IF w = {} THEN bad ELSE Append(bad, [t |-> Trace[l].t, l |-> l, why |-> SetToSeq(w)])
TSpec == TInit /\ [][TNext]_tvars
Final == (l = Len(Trace) + 1) => JsonSerialize("bad.json", [bad |-> bad, consumed |-> l - 1, done |-> TRUE])
=============================================================================

---------------------------- MODULE TimeCal_Trace ----------------------------
(* B2 for C18: every recorded evaluation of the real expression compiler          *)
(*   {f, p, n, x, fmt, z, b, got, cerr, panic}                                    *)
(* (seeded random instants in every modelled zone through every named format,     *)
(* attribute and bucket; the nested round trips {time {timeformat t F Z} F Z} and *)
(* {buckettime {timeformat t F Z} b F Z}; real timeformat output and its          *)
(* corruptions fed to time / buckettime; durations) must satisfy the              *)
(* specification: Matches(Expect(call), got, cerr).  For f = "rt" that is the     *)
(* round-trip law itself: got is the unix second truncated to the precision the   *)
(* layout carries.  The trace spec is total: every record is consumed, the        *)
(* indices the specification cannot explain are collected in `bad` and written    *)
(* by the Final invariant.                                                        *)
EXTENDS TimeCal, Json, TLC

Trace == ndJsonDeserialize("trace.ndjson")

VARIABLES l, bad, nontrivial
tvars == <<l, bad, nontrivial>>

Known(r) == r.f \in Funcs
SpecOK(r) == Known(r) /\ ~r.panic /\ Matches(Expect(r), r.got, r.cerr)
Demands(r) == Known(r) /\ Expect(r).k # "any"
Class(r) == IF ~Known(r) THEN "unknown" ELSE IF r.panic THEN "panic" ELSE "value"

TInit == l = 1 /\ bad = <<>> /\ nontrivial = 0
TNext ==
  /\ l <= Len(Trace)
  /\ l' = l + 1
  /\ bad' = IF SpecOK(Trace[l]) THEN bad ELSE Append(bad, [t |-> l, l |-> l, f |-> Trace[l].f, class |-> Class(Trace[l])])
  /\ nontrivial' = nontrivial + (IF Demands(Trace[l]) THEN 1 ELSE 0)
TSpec == TInit /\ [][TNext]_tvars

Final == (l = Len(Trace) + 1) =>
  JsonSerialize("bad.json", [bad |-> bad, consumed |-> l - 1, done |-> TRUE, nontrivial |-> nontrivial])
=============================================================================

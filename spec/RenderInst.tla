----------------------------- MODULE RenderInst -----------------------------
(* C14 - what ONE long-lived instance owes its reader across calls.                 *)
(*                                                                                  *)
(* Render.tla states what a screen owes its reader as functions of the aggregated   *)
(* state.  The renderers, the number formatter and the buffered terminal are        *)
(* objects that live as long as the program and are called again and again with     *)
(* changing data; this module models three of them as state machines written like   *)
(* the code, together with the reader's (abstract) view, and states the property as *)
(* invariants over every operation history:                                         *)
(*                                                                                  *)
(*   vterm  multiterm.VirtualTerm: WriteForLine at any line number (in order, with  *)
(*          gaps, far beyond the end, many lines) never fails and the screen is the *)
(*          fold of VWrite; the growth of the line buffer is a policy:              *)
(*          "append" (the code: one empty line at a time) | "double-old" (control:  *)
(*          one allocation whose capacity is twice the OLD capacity)                *)
(*   fmt    termformat.FromExpression: one formatter instance called with changing  *)
(*          (value, min, max); the text is FmtTpl of the arguments of this call;    *)
(*          memo policy "none" (the code) | "byval" (control: texts remembered by   *)
(*          value alone)                                                            *)
(*   histo  termrenderers.HistoWriter over a vterm with a fmt: the line store       *)
(*          (items, running maximum, key column width, total), WriteForLine /       *)
(*          UpdateTotal / WriteFooter; after every call every line in use shows its *)
(*          key padded to the present key column, its number under the formatter    *)
(*          with the present bounds (0, running maximum), the percentage of the     *)
(*          present total and a bar scaled to the present maximum; the footers sit  *)
(*          below the configured number of lines; refresh policy "all" (the code) | *)
(*          "positive" (control: the full redraw skips lines holding a value <= 0)  *)
(*   bars   termrenderers.BarGraph (stacked or grouped) the same way: rows store,   *)
(*          running maximum, key column; redraw policy "total" (the code) |         *)
(*          "largest" (control: the redraw decision looks at the largest segment)   *)
EXTENDS Render

CONSTANTS Setups,         \* the <<machine, policies>> pairs a run covers: CodeSetups | ControlSetups (below)
          MaxOps,         \* operations per history
          Profile         \* size of the operation alphabets (1 small .. 3 large)

VARIABLES mach,           \* "vterm" | "fmt" | "histo" | "bars"
          pol,            \* the policies of this instance: [grow, memo, refresh, redraw]
          n,              \* operations so far
          term,           \* the buffered terminal, implementation-shaped: [l, cap, pan]
          scr,            \* what its reader must see: the fold of VWrite
          memo,           \* the formatter instance: texts it remembers, as pairs <<value, text>>
          fout, fexp,     \* fmt machine: text of the last call / FmtTpl of its arguments
          hs,             \* histogram / bar graph instance: [items | rows, maxVal, total, spacing, ...]
          gmax,           \* ghost: largest value (row measure) the instance was ever given, at least 0
          lastop          \* the operation just executed (for the generator)
ivars == <<mach, pol, n, term, scr, memo, fout, fexp, hs, gmax, lastop>>

\* ------------------------------------------------------------- policies
Machines == {"vterm", "fmt", "histo", "bars"}
CodePol == [grow |-> "append", memo |-> "none", refresh |-> "all", redraw |-> "total"]          \* what the code does
CodeSetups == {<<m, CodePol>> : m \in Machines}
\* negative controls: designs the invariants must reject, each on the machines it can reach
ControlList == <<
  <<"vterm", [CodePol EXCEPT !.grow = "double-old"]>>,      \* one allocation of twice the OLD capacity: a far write fails
  <<"histo", [CodePol EXCEPT !.grow = "double-old"]>>,      \* ... reached through the histogram's footer
  <<"fmt",   [CodePol EXCEPT !.memo = "byval"]>>,           \* formatter texts remembered by value alone
  <<"histo", [CodePol EXCEPT !.memo = "byval"]>>,
  <<"bars",  [CodePol EXCEPT !.memo = "byval"]>>,
  <<"histo", [CodePol EXCEPT !.refresh = "positive"]>>,     \* the full redraw skips lines holding a value <= 0
  <<"bars",  [CodePol EXCEPT !.redraw = "largest"]>> >>     \* redraw decided by the largest segment, not the row total
ControlSetups == {ControlList[i] : i \in 1..Len(ControlList)}
GrowPolicy == pol.grow
MemoPolicy == pol.memo
RefreshPolicy == pol.refresh
RedrawPolicy == pol.redraw
Machine == mach

\* ------------------------------------------------------------- alphabets
tA == <<97>>
tLong == [i \in 1..22 |-> 97 + (i % 26)]                          \* wider than the histogram's key column (16)
tMulti == <<233, 8721, 26085>>                                    \* three runes, nine bytes
tOfMax == << PartVal, <<32, 111, 102, 32>>, PartMax >>            \* {0} of {max}
tRange == << PartVal, <<91>>, PartMin, <<126>>, PartMax, <<93>> >> \* {0}[{min}~{max}]
tPlain == << <<35>>, PartVal >>                                   \* #{0}
Tpls == {tOfMax, tRange, tPlain}
Tpl == tOfMax                                                     \* the histogram's and the bar graph's formatter

VIdx == IF Profile = 1 THEN {0, 1, 2, 9, 10, 11, 19, 20, 21, 25, 41, 45}
        ELSE 0..(IF Profile = 2 THEN 45 ELSE 90)
VTexts == {<<120>>, <<121, 122>>}
VCaps == {10}                                                     \* NewVirtualTerm() = NewVirtualTermEx(0, 10)

FVals == {-3, 0, 5, 12}
FBounds == {<<0, 0>>, <<0, 5>>, <<0, 12>>, <<-3, 5>>, <<-3, 12>>}

HRowsSet == IF Profile = 1 THEN {2} ELSE {0, 2, 3, 25}
HLines(rows) == 0..Min2(rows, 3)                                  \* one line beyond the store too (ignored by contract)
HKeys == IF Profile = 1 THEN {tA, tLong} ELSE {tA, tLong, tMulti}
HVals == IF Profile = 1 THEN {-1, 0, 2, 4} ELSE {-1, 0, 1, 2, 4}                                         \* quotients by 1, 2, 4 and 8 are exact in binary and in tenths of a percent
HTotals == {0, 8}
HFootIdx == IF Profile = 1 THEN {0, 30} ELSE {0, 1, 30}
HFootTexts == IF Profile = 1 THEN {<<102>>} ELSE {<<102>>, <<103, 104>>}
Spacing0 == 16
BarSize == 50

BKeys == {tA, tLong}
BRowVals == {<<0, 0>>, <<4, 0>>, <<2, 2>>, <<8, 8>>, <<-4, 8>>, <<1, 0>>, <<16, 0>>}    \* two sub-keys
BRows == 0..2

\* ------------------------------------------------------------- the buffered terminal, like the code
\* VirtualTerm.WriteForLine: for line >= len(lines) { lines = append(lines, "") } ; lines[line] = text
RECURSIVE AppendUntil(_, _)
AppendUntil(l, i) == IF i >= Len(l) THEN AppendUntil(Append(l, <<>>), i) ELSE l
TWrite(t, i, txt) ==
  IF t.pan THEN t
  ELSE IF i < Len(t.l) THEN [t EXCEPT !.l[i + 1] = txt]
  ELSE IF GrowPolicy = "append" THEN
    LET l1 == AppendUntil(t.l, i)
    IN [l |-> [l1 EXCEPT ![i + 1] = txt], cap |-> IF Len(l1) > t.cap THEN Max2(2 * t.cap, Len(l1)) ELSE t.cap, pan |-> FALSE]
  ELSE \* "double-old": grow(size): reslice within the capacity, otherwise make([]string, size, 2*cap) - which fails for size > 2*cap
    LET size == i + 1
        l1 == t.l \o [j \in 1..(size - Len(t.l)) |-> <<>>]
    IN IF size <= t.cap THEN [t EXCEPT !.l = [l1 EXCEPT ![i + 1] = txt]]
       ELSE IF size > 2 * t.cap THEN [t EXCEPT !.pan = TRUE]
       ELSE [l |-> [l1 EXCEPT ![i + 1] = txt], cap |-> 2 * t.cap, pan |-> FALSE]
Term0(c) == [l |-> <<>>, cap |-> c, pan |-> FALSE]

\* ------------------------------------------------------------- the formatter instance, like the code
\* returns <<memo', text>>
FCall(m, tpl, v, mn, mx) ==
  IF MemoPolicy = "byval" /\ \E e \in m : e[1] = v THEN <<m, (CHOOSE e \in m : e[1] = v)[2]>>
  ELSE LET s == FmtTpl(tpl, v, mn, mx) IN <<IF MemoPolicy = "byval" THEN m \cup {<<v, s>>} ELSE m, s>>

\* ------------------------------------------------------------- the histogram instance, like the code
\* "[%4.1f%%]" of 100*val/total where the tenths of a percent are exact
PctText(val, total) ==
  LET t == (1000 * val) \div total
      a == IF t < 0 THEN 0 - t ELSE t
      body == (IF t < 0 THEN <<45>> ELSE <<>>) \o NatDigits(a \div 10) \o <<46, 48 + (a % 10)>>
  IN <<91>> \o Rep(32, 4 - Len(body)) \o body \o <<37, 93>>
\* HistoWriter.writeLine with colour and unicode off: key column, number column, percentage, bar
HLineText(h, key, val, numtxt) ==
  PadR(key, h.spacing) \o <<32, 32, 32, 32>> \o PadR(numtxt, 10)
  \o (IF h.pct /\ h.total > 0 THEN <<32>> \o PctText(val, h.total) ELSE <<>>)
  \o (IF h.bar /\ h.maxVal > 0 THEN <<32>> \o BarExact(LinScale(val, 0, h.maxVal), BarSize, FALSE) ELSE <<>>)
HWriteLine(h, line, key, val) ==
  LET fc == FCall(h.memo, Tpl, val, 0, h.maxVal)
  IN [h EXCEPT !.memo = fc[1], !.term = TWrite(h.term, line, HLineText(h, key, val, fc[2]))]
RECURSIVE HRenderFrom(_, _, _)
HRenderFrom(h, idx, pass) ==
  IF idx > Len(h.items) THEN h
  ELSE LET it == h.items[idx]
           draw == IF pass = "pos" THEN it.val > 0 ELSE it.set /\ it.val <= 0
       IN HRenderFrom(IF draw THEN HWriteLine(h, idx - 1, it.key, it.val) ELSE h, idx + 1, pass)
\* fullRender: the lines holding a positive value, then (the code since de81bb5) the other lines in use
HFullRender(h) ==
  LET h1 == HRenderFrom(h, 1, "pos") IN IF RefreshPolicy = "all" THEN HRenderFrom(h1, 1, "nonpos") ELSE h1
HWriteForLine(h, line, key, val) ==
  IF line >= Len(h.items) THEN h
  ELSE LET sp == Max2(h.spacing, Len(key))
           mv == Max2(h.maxVal, val)
           refresh == sp > h.spacing \/ mv > h.maxVal
           h1 == [h EXCEPT !.spacing = sp, !.maxVal = mv, !.items[line + 1] = [key |-> key, val |-> val, set |-> TRUE]]
       IN IF refresh THEN LET h2 == HFullRender(h1) IN IF val <= 0 THEN HWriteLine(h2, line, key, val) ELSE h2
          ELSE HWriteLine(h1, line, key, val)
HUpdateTotal(h, t) == HFullRender([h EXCEPT !.total = t])
HWriteFooter(h, idx, txt) == [h EXCEPT !.term = TWrite(h.term, Len(h.items) + idx, txt)]
Histo0(rows, pct, bar) ==
  [items |-> [i \in 1..rows |-> [key |-> <<>>, val |-> 0, set |-> FALSE]], maxVal |-> 0, total |-> 0, spacing |-> Spacing0,
   pct |-> pct, bar |-> bar, term |-> Term0(10), memo |-> {}, foot |-> {}]

\* ------------------------------------------------------------- the bar graph instance, like the code
\* (colour and unicode off; two sub-keys, so the legend occupies line 0: prefixLines = 1)
BMeasure(h, vals) == IF h.stacked THEN SeqSum(vals) ELSE SeqMax(vals, 0)
BKeyCol(h, key) == PadR(key, h.keyLen) \o <<32, 32>>
BWriteBar(h, idx, key, vals) ==
  IF h.stacked THEN
    LET tot == SeqSum(vals)
        mv == Max2(h.maxVal, tot)                                  \* writeBarStacked raises the maximum itself (no redraw)
        fc == FCall(h.memo, Tpl, tot, 0, mv)
        txt == BKeyCol(h, key) \o StackRaw(vals, mv, BarSize, FALSE, FALSE) \o <<32, 32>> \o fc[2]
    IN [h EXCEPT !.maxVal = mv, !.memo = fc[1], !.term = TWrite(h.term, idx + 1, txt),
                 !.maxRows = Max2(h.maxRows, idx + 2)]
  ELSE
    LET mv == Max2(h.maxVal, SeqMax(vals, 0))
        line == 1 + idx * Len(vals)
        RECURSIVE Seg(_, _)
        Seg(hh, i) ==
          IF i > Len(vals) THEN hh
          ELSE LET fc == FCall(hh.memo, Tpl, vals[i], 0, mv)
                   txt == (IF i = 1 THEN BKeyCol(h, key) ELSE Rep(32, h.keyLen + 2))
                          \o BarExact(LinScale(vals[i], 0, mv), BarSize, FALSE) \o <<32>> \o fc[2]
               IN Seg([hh EXCEPT !.memo = fc[1], !.term = TWrite(hh.term, line + i - 1, txt)], i + 1)
    IN Seg([h EXCEPT !.maxVal = mv, !.maxRows = Max2(h.maxRows, line + Len(vals))], 1)
RECURSIVE BRedrawFrom(_, _)
BRedrawFrom(h, idx) ==
  IF idx > Len(h.rows) THEN h ELSE BRedrawFrom(BWriteBar(h, idx - 1, h.rows[idx].key, h.rows[idx].vals), idx + 1)
BWrite(h, idx, key, vals) ==
  LET kl == Max2(h.keyLen, Len(key))
      rows1 == h.rows \o [j \in 1..(idx + 1 - Len(h.rows)) |-> [key |-> <<>>, vals |-> <<>>]]
      m == IF h.stacked /\ RedrawPolicy = "total" THEN SeqSum(vals) ELSE SeqMax(vals, 0)
      h1 == [h EXCEPT !.keyLen = kl, !.rows = [rows1 EXCEPT ![idx + 1] = [key |-> key, vals |-> vals]]]
  IN IF m > h.maxVal THEN BRedrawFrom([h1 EXCEPT !.maxVal = m], 1) ELSE BWriteBar(h1, idx, key, vals)
BWriteFooter(h, idx, txt) == [h EXCEPT !.term = TWrite(h.term, h.maxRows + idx, txt)]
Bars0(stacked) ==
  [rows |-> <<>>, maxVal |-> 0, keyLen |-> 4, maxRows |-> 0, stacked |-> stacked, term |-> Term0(10), memo |-> {}, foot |-> {}]

\* ------------------------------------------------------------- the machines
NoTerm == Term0(0)
Init ==
  /\ \E su \in Setups : mach = su[1] /\ pol = su[2]
  /\ n = 0 /\ lastop = <<>> /\ fout = <<>> /\ fexp = <<>> /\ gmax = 0 /\ scr = <<>>
  /\ CASE Machine = "vterm" -> /\ term \in {Term0(c) : c \in VCaps} /\ memo = {} /\ hs = [k |-> "none"]
       [] Machine = "fmt"   -> /\ term = NoTerm /\ memo = {} /\ hs \in {[k |-> "fmt", tpl |-> t] : t \in Tpls}
       [] Machine = "histo" -> /\ term = NoTerm /\ memo = {}
                               /\ hs \in {Histo0(r, p, b) : r \in HRowsSet, p \in BOOLEAN, b \in BOOLEAN} /\ (Profile = 1 => hs.pct = hs.bar)
       [] Machine = "bars"  -> /\ term = NoTerm /\ memo = {} /\ hs \in {Bars0(s) : s \in BOOLEAN}

VNext ==
  \E i \in VIdx, t \in VTexts :
    /\ term' = TWrite(term, i, t)
    /\ scr' = VWrite(scr, i, t)
    /\ lastop' = <<"w", i, t>>
    /\ UNCHANGED <<memo, fout, fexp, hs, gmax>>
FNext ==
  \E v \in FVals, b \in FBounds :
    LET fc == FCall(memo, hs.tpl, v, b[1], b[2]) IN
    /\ memo' = fc[1] /\ fout' = fc[2] /\ fexp' = FmtTpl(hs.tpl, v, b[1], b[2])
    /\ lastop' = <<"f", v, b[1], b[2]>>
    /\ UNCHANGED <<term, scr, hs, gmax>>
HNext ==
  \/ \E line \in HLines(Len(hs.items)), key \in HKeys, val \in HVals :
       /\ hs' = HWriteForLine(hs, line, key, val)
       /\ gmax' = IF line < Len(hs.items) THEN Max2(gmax, val) ELSE gmax
       /\ lastop' = <<"w", line, key, val>>
       /\ UNCHANGED <<term, scr, memo, fout, fexp>>
  \/ \E t \in HTotals :
       /\ hs' = HUpdateTotal(hs, t) /\ lastop' = <<"t", t>>
       /\ UNCHANGED <<term, scr, memo, fout, fexp, gmax>>
  \/ \E idx \in HFootIdx, txt \in HFootTexts :
       /\ hs' = [HWriteFooter(hs, idx, txt) EXCEPT !.foot = {e \in hs.foot : e[1] # idx} \cup {<<idx, txt>>}]
       /\ lastop' = <<"f", idx, txt>>
       /\ UNCHANGED <<term, scr, memo, fout, fexp, gmax>>
BNext ==
  \/ \E idx \in BRows, key \in BKeys, vals \in BRowVals :
       /\ idx <= Len(hs.rows)                                       \* rows are written in order (cmd/bargraph.go)
       /\ hs' = BWrite(hs, idx, key, vals)
       /\ gmax' = Max2(gmax, BMeasure(hs, vals))
       /\ lastop' = <<"w", idx, key, vals>>
       /\ UNCHANGED <<term, scr, memo, fout, fexp>>
  \/ \E idx \in {0, 1}, txt \in HFootTexts :
       /\ hs.rows # <<>>
       /\ hs' = [BWriteFooter(hs, idx, txt) EXCEPT !.foot = {e \in hs.foot : e[1] # hs.maxRows + idx} \cup {<<hs.maxRows + idx, txt>>}]
       /\ lastop' = <<"f", idx, txt>>
       /\ UNCHANGED <<term, scr, memo, fout, fexp, gmax>>
Next ==
  /\ n < MaxOps /\ n' = n + 1 /\ UNCHANGED <<mach, pol>>
  /\ CASE Machine = "vterm" -> VNext [] Machine = "fmt" -> FNext [] Machine = "histo" -> HNext [] Machine = "bars" -> BNext
Spec == Init /\ [][Next]_ivars

\* ------------------------------------------------------------- what the reader is owed
TheTerm == IF Machine = "vterm" THEN term ELSE IF Machine \in {"histo", "bars"} THEN hs.term ELSE NoTerm
\* "every renderer completes without panicking": no write, wherever it lands, fails
NoPanic == ~TheTerm.pan
\* the buffered terminal shows exactly what was written: last text per line, empty lines in the gaps, nothing else
VTermOK == Machine = "vterm" => term.l = scr /\ Len(term.l) <= term.cap
\* the text is a function of the arguments of this call
FmtOK == Machine = "fmt" => fout = fexp

\* the histogram screen as Render.tla's contract demands it of the PRESENT store: line i in use shows key, number
\* (formatter with the bounds 0..running maximum), percentage and bar of its item; unused lines are empty; the
\* footers sit below the configured number of lines
HistoWant(h, i) ==
  LET it == h.items[i] IN
  IF it.set THEN HLineText(h, it.key, it.val, FmtTpl(Tpl, it.val, 0, h.maxVal)) ELSE <<>>
HistoScreenOK ==
  Machine = "histo" =>
    LET rows == Len(hs.items) IN
    /\ \A i \in 1..rows : VGet(hs.term.l, i - 1) = HistoWant(hs, i)
    /\ \A e \in hs.foot : VGet(hs.term.l, rows + e[1]) = e[2]
    /\ \A j \in (rows + 1)..Len(hs.term.l) : hs.term.l[j] = <<>> \/ \E e \in hs.foot : e[1] = j - 1 - rows
    /\ hs.maxVal = gmax                                             \* bars and bounds follow the running maximum
    /\ hs.spacing = SeqMax([i \in 1..rows |-> IF hs.items[i].set THEN Len(hs.items[i].key) ELSE 0], hs.spacing)

\* the bar graph: every row drawn against the one present maximum, number under the formatter with that maximum
BarsScreenOK ==
  Machine = "bars" =>
    /\ hs.maxVal = gmax
    /\ IF hs.stacked THEN
         \A i \in 1..Len(hs.rows) :
           LET r == hs.rows[i]
               got == VGet(hs.term.l, i)
               tail == StackRaw(r.vals, hs.maxVal, BarSize, FALSE, FALSE) \o <<32, 32>> \o FmtTpl(Tpl, SeqSum(r.vals), 0, hs.maxVal)
           IN HasSuffix(got, tail) /\ HasPrefix(got, r.key)
              /\ AllSpaces(SubSeq(got, Len(r.key) + 1, Len(got) - Len(tail))) /\ Len(got) - Len(tail) >= Len(r.key) + 2
       ELSE
         \A i \in 1..Len(hs.rows) : \A j \in 1..Len(hs.rows[i].vals) :
           LET r == hs.rows[i]
               got == VGet(hs.term.l, 1 + (i - 1) * Len(r.vals) + j - 1)
               tail == BarExact(LinScale(r.vals[j], 0, hs.maxVal), BarSize, FALSE) \o <<32>> \o FmtTpl(Tpl, r.vals[j], 0, hs.maxVal)
           IN HasSuffix(got, tail) /\ (j = 1 => HasPrefix(got, r.key))
    /\ \A e \in hs.foot : e[1] >= hs.maxRows => VGet(hs.term.l, e[1]) = e[2]

InstOK == NoPanic /\ VTermOK /\ FmtOK /\ HistoScreenOK /\ BarsScreenOK

\* a run over ControlSetups: every control must reach a state the invariants reject (register i: control i refuted)
CtlIndex == CHOOSE i \in 1..Len(ControlList) : ControlList[i] = <<mach, pol>>
CtlInit == (\A i \in 1..Len(ControlList) : TLCSet(i, FALSE)) /\ Init
CtlMark == InstOK \/ TLCSet(CtlIndex, TRUE)
CtlAllRefuted == \A i \in 1..Len(ControlList) : TLCGet(i)
=============================================================================

-------------------------- MODULE MathExprFold_Gen --------------------------
(* B1 generator for the second clause of C19.  For every tree of a family       *)
(* (MathExprFold_MC!TreesOf) TLC prints one vector:                             *)
(*   toks / full   the formula (minimal / redundant parentheses); the token #i  *)
(*                 is the literal "table entry i" (the driver writes the        *)
(*                 decimal expansion of the value it gives to entry i)          *)
(*   ci            the table entries of the constant leaves, in reading order   *)
(*   lifts         variants where the constant leaves with ordinals s are       *)
(*                 variables (ordinal k -> variable number 2+k, bound to the    *)
(*                 value of entry ci[k])                                        *)
(*   sub           the variant where x, y are the placeholders ( $1 ) ( $2 ):   *)
(*                 the driver writes the bound value there                      *)
(*   exp[b]        the value under binding XBinds[b] in the float64 edge        *)
(*                 arithmetic (c = "out": nothing expected but "no crash")      *)
(*   sched         the order in which ONE compiled object is evaluated under    *)
(*                 the bindings (neighbours share x or share y, repeats)        *)
(*   sens          the negative controls (unsound simplifiers) that this tree   *)
(*                 tells apart in the model                                     *)
(*   tree          the tree itself (handed back by the driver together with the *)
(*                 recorded outputs, for MathExprFold_Trace)                    *)
(* The same run checks TreeLawX on every tree (B3 on exactly the replayed set). *)
EXTENDS MathExprFold_MC, Json

Scheds == << <<1, 2, 1, 3, 1, 4, 8, 4, 5, 6, 7, 9, 10, 2>>,
             <<3, 1, 2, 2, 1, 8, 10, 8, 9, 7, 6, 5, 4, 3>>,
             <<2, 1, 3, 8, 3, 1, 1, 5, 7, 5, 6, 4, 10, 9>>,
             <<8, 10, 1, 2, 9, 2, 1, 3, 4, 4, 7, 6, 5, 8>> >>
SchedOK == \A k \in DOMAIN Scheds : {Scheds[k][i] : i \in DOMAIN Scheds[k]} = 1..NB
RECURSIVE Weight(_)
Weight(t) == CASE t.k = "xc" -> t.i [] t.k = "var" -> 3 * t.i [] t.k = "un" -> 1 + Weight(t.a)
               [] t.k = "bin" -> 2 * Weight(t.l) + Weight(t.r) + 1 [] OTHER -> 0
VLifts(t) == {S \in LiftSets(t) : S # {}}
Vector(t) ==
  [g |-> Family,
   toks |-> PrintX(t, "min"),
   full |-> PrintX(t, "full"),
   ci |-> ConstIdx(t),
   lifts |-> {[s |-> S, toks |-> PrintX(Lift(t, S, 0), "min")] : S \in VLifts(t)},
   sub |-> IF HasVar(t) THEN PrintX(SubstP(t), "min") ELSE <<>>,
   exp |-> [b \in 1..NB |-> EvalX(t, XTab, XBinds[b])],
   sched |-> Scheds[(Weight(t) % Len(Scheds)) + 1],
   sens |-> Sens(t),
   tree |-> t]
\* the value table and the bindings, once per run
Header == [g |-> "header", tab |-> XTab, binds |-> XBinds]

GLawX == /\ FLaw
         /\ tree = None => SchedOK /\ TabOK
DumpX ==
  IF tree = None THEN (hdr = CHOOSE h \in Headers : TRUE) => PrintT("VFJ " \o ToJson(Header))
  ELSE PrintT("VFJ " \o ToJson(Vector(tree)))
=============================================================================

---------------------------- MODULE SortingAccum ----------------------------
(* C13 - `rare reduce`: the accumulating group as a LONG-LIVED object.            *)
(*                                                                                *)
(* aggregation.AccumulatingGroup keeps one row per group key; every sample        *)
(* (group, v) folds v into the columns of its row (here: s = sum, c = count,      *)
(* m = maximum - all three independent of the order of the samples).  Between     *)
(* samples the row list is displayed: Groups(sorter) returns the group keys       *)
(* ordered by the value of the `--sort` expression on the CURRENT row (or by the  *)
(* group key when there is none), under the contextual name sorter or its         *)
(* reverse.                                                                       *)
(*                                                                                *)
(* The property: the listing is a function of the aggregated data - the rows -    *)
(* and of nothing else: not of the order in which the samples or the groups       *)
(* arrived, not of what was displayed before, not of map order.                   *)
(*   Ranks / RanksOK  what the specification fixes of a listing: no group is      *)
(*                    listed after one whose sort value the sorter puts behind    *)
(*                    it; groups of EQUAL sort value are tied - their order is    *)
(*                    left to the implementation, which must still take it from   *)
(*                    the rows alone                                              *)
(*   RowsOnly         two objects holding equal rows list them identically        *)
(* This module: rows, the fold, sort expressions, ranks, and the listing of an    *)
(* object for a family of DESIGNS (how Groups() picks the start order of its      *)
(* sort and where it takes the sort values from); SortingAccumImpl.tla runs the   *)
(* object as a state machine and lets TLC accept / refute the designs;            *)
(* SortingAccum_Gen.tla enumerates histories for the real code.                   *)
EXTENDS Sorting

\* ----------------------------------------------------------------- group keys
\* three universes of three group keys: arrival order, key (byte) order and displayed order are
\* all different
GroupNames(u) ==
  CASE u = "num"     -> << <<49, 48>>, <<57>>, <<50, 48, 48>> >>               \* 10 9 200
    [] u = "text"    -> << <<98>>, <<97>>, <<97, 98>> >>                        \* b a ab
    [] u = "weekday" -> << <<119, 101, 100>>, <<109, 111, 110>>, <<84, 85, 69>> >>  \* wed mon TUE
AccUnivs == {"num", "text", "weekday"}
NG == 3
G == 1..NG

\* ------------------------------------------------------------------------ rows
NoRow == [s |-> 0, c |-> 0, m |-> 0]
EmptyRows == [g \in G |-> NoRow]
Present(rows) == {g \in G : rows[g].c > 0}
\* one sample (g, v) folded into the rows: sum, count, maximum (every column starts at 0)
Fold1(rows, g, v) ==
  [rows EXCEPT ![g] = [s |-> @.s + v, c |-> @.c + 1, m |-> IF v > @.m THEN v ELSE @.m]]
\* a history is a sequence of operations <<g, v>> (sample) / <<0, 0>> (display)
IsList(op) == op[1] = 0
RECURSIVE FoldOps(_, _, _)
FoldOps(rows, ops, k) ==
  IF k > Len(ops) THEN rows
  ELSE FoldOps(IF IsList(ops[k]) THEN rows ELSE Fold1(rows, ops[k][1], ops[k][2]), ops, k + 1)
RowsOf(ops) == FoldOps(EmptyRows, ops, 1)

\* ------------------------------------------------------------ sort expressions
\* "none": no --sort (the group key); "key": --sort {0}; the others read the row
Exprs == {"none", "key", "sum", "cnt", "max", "negsum"}
ByKey(e) == e \in {"none", "key"}
IntVal(e, row) == CASE e = "sum" -> row.s [] e = "cnt" -> row.c [] e = "max" -> row.m [] e = "negsum" -> 0 - row.s
\* the ascending order of the contextual sorter on the sort values: group keys as Sorting.tla
\* orders names, integers by magnitude
KeyLess(u, a, b) == ModelLess("contextual", [name |-> GroupNames(u)[a], value |-> 0], [name |-> GroupNames(u)[b], value |-> 0])
ValLess(u, e, va, vb) == IF ByKey(e) THEN KeyLess(u, va, vb) ELSE va < vb
ValOf(e, g, row) == IF ByKey(e) THEN g ELSE IntVal(e, row)
AscLess(u, e, rows, a, b) == ValLess(u, e, ValOf(e, a, rows[a]), ValOf(e, b, rows[b]))
\* displayed before (strictly) under the sorter / the reversed sorter
Before(u, e, rev, rows, a, b) == IF rev THEN AscLess(u, e, rows, b, a) ELSE AscLess(u, e, rows, a, b)
\* what the specification fixes of a listing of `rows`
Ranks(u, e, rev, rows) ==
  [g \in G |-> IF g \in Present(rows) THEN Cardinality({h \in Present(rows) : Before(u, e, rev, rows, h, g)}) ELSE 0 - 1]
SeqSet(s) == {s[k] : k \in 1..Len(s)}
IsListingOf(l, rows) == SeqSet(l) = Present(rows) /\ Len(l) = Cardinality(Present(rows))
RanksOK(u, e, rev, rows, l) ==
  /\ IsListingOf(l, rows)
  /\ \A x \in 1..Len(l), y \in 1..Len(l) : x < y => ~Before(u, e, rev, rows, l[y], l[x])
HasTies(u, e, rows) == \E a \in Present(rows), b \in Present(rows) :
                         a # b /\ ~AscLess(u, e, rows, a, b) /\ ~AscLess(u, e, rows, b, a)

\* ---------------------------------------------------------------- the object
\* obj = [rows, seen, memo]: seen = the groups in the order of their first sample; memo = sort
\* values remembered by an earlier display (design "memo" only), a function on a subset of G
NewObj == [rows |-> EmptyRows, seen |-> <<>>, memo |-> [g \in {} |-> 0]]
Sample(obj, g, v) ==
  [obj EXCEPT !.rows = Fold1(@, g, v), !.seen = IF obj.rows[g].c = 0 THEN Append(@, g) ELSE @]

\* groups in the order of their key bytes (slices.Sort of the keys)
RECURSIVE ByteSorted(_, _)
ByteSorted(u, S) == IF S = {} THEN <<>> ELSE
  LET m == CHOOSE x \in S : \A y \in S \ {x} : BytesLess(GroupNames(u)[x], GroupNames(u)[y])
  IN <<m>> \o ByteSorted(u, S \ {m})
RevSeq(s) == [k \in 1..Len(s) |-> s[Len(s) + 1 - k]]

\* DESIGNS of Groups():
\*   "keyorder"  the sort starts from the group keys in byte order, sort values are evaluated on
\*               the current rows                                          (the implementation)
\*   "arrival"   the sort starts from the groups in first-seen order        (NEGATIVE CONTROL)
\*   "arrivalrev" ... from the most recently created group backwards         (NEGATIVE CONTROL)
\*   "memo"      the value of the sort expression is remembered per group by the first display
\*               that compares it                                          (NEGATIVE CONTROL)
Designs == {"keyorder", "arrival", "arrivalrev", "memo"}
StartOf(d, u, obj) ==
  CASE d = "arrival" -> obj.seen
    [] d = "arrivalrev" -> RevSeq(obj.seen)
    [] OTHER -> ByteSorted(u, Present(obj.rows))
UsesMemo(d, e) == d = "memo" /\ ~ByKey(e)
SortValOf(d, e, obj, g) ==
  IF UsesMemo(d, e) /\ g \in DOMAIN obj.memo THEN obj.memo[g] ELSE ValOf(e, g, obj.rows[g])
\* less(a, b) as Groups() asks it: the name sorter (its negation when reversed - sorting.Reverse)
\* on the two sort values
ImplLess(d, u, e, rev, obj, a, b) ==
  LET l == ValLess(u, e, SortValOf(d, e, obj, a), SortValOf(d, e, obj, b)) IN IF rev THEN ~l ELSE l
\* insertion sort (sort.Sort up to 12 elements), as SortingAlgo.tla
RECURSIVE Sink(_, _, _, _, _, _, _)
Sink(arr, j, d, u, e, rev, obj) ==
  IF j > 1 /\ ImplLess(d, u, e, rev, obj, arr[j], arr[j - 1])
  THEN Sink([arr EXCEPT ![j] = arr[j - 1], ![j - 1] = arr[j]], j - 1, d, u, e, rev, obj)
  ELSE arr
RECURSIVE SortFrom(_, _, _, _, _, _, _)
SortFrom(arr, i, d, u, e, rev, obj) ==
  IF i > Len(arr) THEN arr ELSE SortFrom(Sink(arr, i, d, u, e, rev, obj), i + 1, d, u, e, rev, obj)
\* what Groups() returns now
Listing(d, u, e, rev, obj) == SortFrom(StartOf(d, u, obj), 2, d, u, e, rev, obj)
\* a display: the listing is shown; design "memo" remembers the sort values it evaluated (nothing is
\* compared, hence nothing evaluated, while there is one group)
Display(d, e, obj) ==
  IF UsesMemo(d, e) /\ Cardinality(Present(obj.rows)) >= 2
  THEN [obj EXCEPT !.memo = [g \in Present(obj.rows) |-> SortValOf(d, e, obj, g)]]
  ELSE obj

\* an object that holds `rows` and has no history worth mentioning: built in key order, never displayed
Pristine(u, rows) == [rows |-> rows, seen |-> ByteSorted(u, Present(rows)), memo |-> [g \in {} |-> 0]]
\* THE LAW: the listing depends on the rows only
RowsOnly(d, u, e, rev, obj) == Listing(d, u, e, rev, obj) = Listing(d, u, e, rev, Pristine(u, obj.rows))
=============================================================================

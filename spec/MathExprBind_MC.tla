--------------------------- MODULE MathExprBind_MC ---------------------------
(* B3 for MathExprBind: the compiled formula as a shared object.  G goroutines  *)
(* evaluate rows (numbers / cells that are no numbers) on ONE compiled formula, *)
(* interleaved at the granularity of single variable reads; every finished      *)
(* evaluation must satisfy the specification (ResultOK: a function of the       *)
(* formula and its own row).  The design is chosen in the initial state:        *)
(* Policies[1] (the code) and Policies[4] (counter cleared when the wrapper is  *)
(* given back - an equivalent design the check must accept) never go wrong;     *)
(* every other design goes wrong in some reachable state (registers,            *)
(* POSTCONDITION Refuted).                                                      *)
EXTENDS MathExprBind

CONSTANTS G, MaxEv, Wide

VARIABLES pol, tree, pool, werr, wrow, pc, gw, gi, gacc, grow, gpre, last, nev
bvars == <<pol, tree, pool, werr, wrow, pc, gw, gi, gacc, grow, gpre, last, nev>>

GS == 1..G
X == Var(1)
Y == Var(2)
Trees == {Bin("+", X, Y), Bin("+", X, X), Bin("*", Y, Num(<<2, 1>>)), Bin("+", Num(<<2, 1>>), Num(<<3, 1>>)),
          Bin("-", Un("abs", X), Y), Bin("&&", X, Y)}
A == NumCell(<<3, 1>>)
B == NumCell(<<0 - 1, 2>>)
Rows == {<<A, B>>, <<BadCell, A>>, <<A, BadCell>>} \cup (IF Wide THEN {<<B, A>>, <<BadCell, BadCell>>} ELSE {})
P == Policies[pol]
Reads == ReadSeq(tree)

BInit ==
  /\ pol \in 1..Len(Policies) /\ tree \in Trees
  /\ \A i \in 1..Len(Policies) : TLCSet(i, FALSE)
  /\ pool = GS /\ werr = [w \in GS |-> 0] /\ wrow = [w \in GS |-> <<A, A>>]
  /\ pc = [g \in GS |-> "idle"] /\ gw = [g \in GS |-> 1] /\ gi = [g \in GS |-> 1] /\ gacc = [g \in GS |-> <<>>]
  /\ grow = [g \in GS |-> <<>>] /\ gpre = [g \in GS |-> FALSE] /\ last = FALSE /\ nev = [g \in GS |-> 0]

Begin(g, row) ==
  /\ pc[g] = "idle" /\ nev[g] < MaxEv
  /\ \E w \in (IF P.share = "one" THEN {1} ELSE pool) :
       /\ pool' = IF P.share = "one" THEN pool ELSE pool \ {w}
       /\ wrow' = [wrow EXCEPT ![w] = row]
       /\ werr' = IF P.reset = "take" THEN [werr EXCEPT ![w] = 0] ELSE werr
       /\ gw' = [gw EXCEPT ![g] = w]
       /\ gpre' = [gpre EXCEPT ![g] = werr'[w] > 0]
  /\ pc' = [pc EXCEPT ![g] = "run"] /\ gi' = [gi EXCEPT ![g] = 1] /\ gacc' = [gacc EXCEPT ![g] = <<>>]
  /\ grow' = [grow EXCEPT ![g] = row]
  /\ UNCHANGED <<pol, tree, last, nev>>
Read(g) ==
  /\ pc[g] = "run" /\ gi[g] <= Len(Reads)
  /\ LET w == gw[g]
         c == CellOf(wrow[w], Reads[gi[g]]) IN
     /\ werr' = IF P.check = "last" THEN [werr EXCEPT ![w] = IF c.k = "bad" THEN 1 ELSE 0]
                ELSE IF c.k = "bad" THEN [werr EXCEPT ![w] = @ + 1] ELSE werr
     /\ gacc' = [gacc EXCEPT ![g] = Append(@, IF c.k = "bad" THEN <<0, 1>> ELSE c.q)]
  /\ gi' = [gi EXCEPT ![g] = @ + 1]
  /\ UNCHANGED <<pol, tree, pool, wrow, pc, gw, grow, gpre, last, nev>>
End(g) ==
  /\ pc[g] = "run" /\ gi[g] > Len(Reads)
  /\ LET w == gw[g]
         isbad == IF P.check = "before" THEN gpre[g] ELSE werr[w] > 0 IN
     /\ last' = (last \/ ~ResultOK(tree, grow[g], IF isbad THEN RBad ELSE RVal(ValueOfReads(tree, gacc[g]))))
     /\ pool' = IF P.share = "one" THEN pool ELSE pool \cup {w}
     /\ werr' = IF P.reset = "return" THEN [werr EXCEPT ![w] = 0] ELSE werr
  /\ pc' = [pc EXCEPT ![g] = "idle"] /\ nev' = [nev EXCEPT ![g] = @ + 1]
  /\ gacc' = [gacc EXCEPT ![g] = <<>>] /\ grow' = [grow EXCEPT ![g] = <<>>] /\ gi' = [gi EXCEPT ![g] = 1]
  /\ gpre' = [gpre EXCEPT ![g] = FALSE]
  /\ UNCHANGED <<pol, tree, wrow, gw>>
BNext == \E g \in GS : (\E row \in Rows : Begin(g, row)) \/ Read(g) \/ End(g)

Wrong == last            \* some finished evaluation broke the specification (ResultOK)
Sound == {1, 4}          \* the code, and the design that clears the counter when the wrapper is given back: the specification does not pin the moment
Obs == /\ Wrong => TLCSet(pol, TRUE)
       /\ pol \in Sound => ~Wrong
\* a wrapper is used by one evaluation at a time, and no evaluation of the code starts with errors left over
Exclusive == pol = 1 => /\ \A g \in GS, h \in GS : (g # h /\ pc[g] = "run" /\ pc[h] = "run") => gw[g] # gw[h]
                        /\ \A g \in GS : pc[g] = "run" => gw[g] \notin pool /\ werr[gw[g]] <= gi[g] - 1
Refuted == \A i \in 1..Len(Policies) : TLCGet(i) = (i \notin Sound)
=============================================================================

---------------------------- MODULE ExprProbeScn ----------------------------
(* C10 - the scenarios that make ExprProbe.tla concrete.                          *)
(*                                                                               *)
(* A scenario is a process: it compiles the expression p, then evaluates p and   *)
(* the witness expression w on a few lines, one goroutine after the other and    *)
(* several at once.  p and w are expression trees of C17's ExprArray.tla (read   *)
(* only), whose EvalT gives the value the documentation assigns to them - a      *)
(* function of tree and line, in which neither a pool nor an optimiser exists.   *)
(*                                                                               *)
(* ShapeSeq maps a tree to the pool activations ExprProbe.tla speaks about       *)
(* (which helper, what its sub-expression reads, the helpers nested in it) and   *)
(* ProbeExit computes, with the same EvalT, the exit path on which the ALL-EMPTY *)
(* context of the optimiser's probe drives each helper: no element, some, or the *)
(* iteration cap of {@for} - a loop whose condition still holds after PCAP       *)
(* rounds on empty data never stops on it (a numeric comparison of "" or of an   *)
(* error marker is an error marker, which is truthy), so the real loop runs to   *)
(* its limit and answers <INF>.  ExprProbe_MC model-checks exactly these shapes; *)
(* ExprProbe_Gen prints the same scenarios with EvalT's values for the driver.   *)
EXTENDS ExprArray

\* ---------------------------------------------------------------- shapes
HOf(f) == CASE f = "@map" -> "map" [] f = "@filter" -> "filter" [] f = "@reduce" -> "reduce" [] f = "@for" -> "for" [] OTHER -> ""
IsH(x) == x.t = "call" /\ HOf(x.f) # ""
RECURSIVE ReadsElem(_), ReadsKey(_)
\* does the sub-expression y read {i} / a named key at its own level?  (the array argument of a nested helper is
\* evaluated at this level, its sub-expression one level further in)
ReadsElem(y) ==
  CASE y.t = "arg" -> TRUE
    [] y.t \in {"lit", "key"} -> FALSE
    [] y.t = "cat" -> \E i \in 1..Len(y.a) : ReadsElem(y.a[i])
    [] y.t = "call" -> \E i \in 1..Len(y.a) : ~SubPos(y.f, i) /\ ReadsElem(y.a[i])
ReadsKey(y) ==
  CASE y.t = "key" -> TRUE
    [] y.t \in {"lit", "arg"} -> FALSE
    [] y.t = "cat" -> \E i \in 1..Len(y.a) : ReadsKey(y.a[i])
    [] y.t = "call" -> \E i \in 1..Len(y.a) : ~SubPos(y.f, i) /\ ReadsKey(y.a[i])

PCAP == 40
EmptyEnv == Env(<<>>, <<>>)
EmptySub == SubEnv(EmptyEnv, <<<<>>, <<>>>>)
RECURSIVE PLoop(_, _, _, _, _)
PLoop(c, inc, env, val, idx) ==
  IF idx > PCAP THEN "inf"
  ELSE LET t == Truth3(EvalT(c, SubEnv(env, <<val, Itoa(idx)>>))) IN
       IF t = "f" THEN (IF idx = 0 THEN "zero" ELSE "some")
       ELSE IF t = "?" THEN "err"
       ELSE LET e == EvalT(inc, SubEnv(env, <<val, Itoa(idx)>>)) IN
            IF ~IsOutE(e) THEN "err" ELSE PLoop(c, inc, env, e.v, idx + 1)
\* the exit path of helper x when it is evaluated against env (the probe: everything empty)
ProbeExit(x, env) ==
  IF x.f = "@for" THEN
    (IF Len(x.a) # 3 THEN "err"
     ELSE LET s == EvalT(x.a[1], env) IN IF ~IsOutE(s) THEN "err" ELSE PLoop(x.a[2], x.a[3], env, s.v, 0))
  ELSE LET e == EvalT(x.a[1], env) IN
       IF IsOutE(e) /\ ListOf(e.v) = <<>> THEN "zero" ELSE "some"

PN(h, look, kids, pexit) == [h |-> h, look |-> look, kids |-> kids, pexit |-> pexit]
RECURSIVE ShapeSeq(_, _), ShapeArgs(_, _, _, _)
\* the activations of x in evaluation order; env: the (empty) context this level is probed with
ShapeArgs(x, env, i, sub) ==
  IF i > Len(x.a) THEN <<>>
  ELSE (IF SubPos(x.f, i) = sub THEN ShapeSeq(x.a[i], IF sub THEN EmptySub ELSE env) ELSE <<>>) \o ShapeArgs(x, env, i + 1, sub)
ShapeSeq(x, env) ==
  CASE x.t \in {"lit", "arg", "key"} -> <<>>
    [] x.t = "cat" -> ShapeArgs([x EXCEPT !.f = ""], env, 1, FALSE)
    [] x.t = "call" ->
         IF ~IsH(x) THEN ShapeArgs(x, env, 1, FALSE)
         ELSE LET S == {i \in 1..Len(x.a) : SubPos(x.f, i)}
                  look == (IF \E i \in S : ReadsElem(x.a[i]) THEN {"elem"} ELSE {}) \cup (IF \E i \in S : ReadsKey(x.a[i]) THEN {"key"} ELSE {})
              IN ShapeArgs(x, env, 1, FALSE) \o <<PN(HOf(x.f), look, ShapeArgs(x, env, 1, TRUE), ProbeExit(x, env))>>
Shape(x) == ShapeSeq(x, EmptyEnv)
RECURSIVE HasExit(_, _)
HasExit(sh, e) == \E i \in 1..Len(sh) : sh[i].pexit = e \/ HasExit(sh[i].kids, e)
RECURSIVE ShDepth(_)
ShDepth(sh) == IF sh = <<>> THEN 0 ELSE 1 + MaxOf({ShDepth(sh[i].kids) : i \in 1..Len(sh)})

\* ---------------------------------------------------------------- the trees
I(n) == Itoa(n)
A0 == Arg(0)
A1 == Arg(1)
COMMA == <<44>>
DOTB == <<46>>
PLUS == <<43>>
SEMI == <<59>>
COLON == <<58>>
Kk == <<107>>
Kn == <<110>>
Lt(a, b) == Call("lt", <<a, b>>)
Sumi(a, b) == Call("sumi", <<a, b>>)
Multi(a, b) == Call("multi", <<a, b>>)
Split(a, d) == Call("@split", <<a, Lit(d)>>)
Join(a, d) == Call("@join", <<a, Lit(d)>>)
Map(a, b) == Call("@map", <<a, b>>)
Filter(a, b) == Call("@filter", <<a, b>>)
Reduce(a, b) == Call("@reduce", <<a, b>>)
For(s, c, i) == Call("@for", <<s, c, i>>)

\* expressions a user writes for real data, whose loop is bounded only BY that data: probed with nothing, they run away
PTrees == <<
  Join(For(A0, Lt(A0, Lit(I(5))), Sumi(A0, Lit(I(1)))), COMMA),                                      \* 1 count from {0} up to 5
  Join(For(Lit(I(1)), Lt(A0, Key(Kn)), Sumi(A0, Lit(I(1)))), COMMA),                                  \* 2 the bound is a key
  Join(For(Key(Kn), Lt(A0, Lit(I(4))), Multi(A0, Lit(I(2)))), PLUS),                                  \* 3 the start is a key
  Join(Map(For(A0, Lt(A0, Lit(I(3))), Sumi(A0, Lit(I(1)))), Cat(<<A0, Lit(<<33>>)>>)), COMMA),        \* 4 the loop feeds a @map
  Join(For(A0, Lt(A0, Lit(I(4))), Sumi(A0, Call("@len", <<Filter(Split(Lit(<<49, 44, 50>>), COMMA), A0)>>))), SEMI),   \* 5 a @filter inside the increment
  Cat(<<Join(For(A0, Lt(A0, Lit(I(3))), Sumi(A0, Lit(I(1)))), COMMA), Lit(COLON), Join(For(A0, Lt(A0, Lit(I(2))), Sumi(A0, Lit(I(1)))), COMMA)>>),   \* 6 two loops
  \* bounded under the probe: no element / a loop that ends on empty data
  Join(Map(Split(A0, COMMA), Multi(A0, Lit(I(2)))), PLUS),                                            \* 7 zero elements
  Join(Filter(Split(A1, COMMA), Lt(A0, Key(Kn))), COMMA),                                             \* 8
  Reduce(Split(A1, COMMA), Sumi(A0, A1)),                                                              \* 9
  Join(For(A0, Lt(Call("len", <<A0>>), Lit(I(3))), Cat(<<A0, Lit(<<120>>)>>)), COMMA),               \* 10 ends after three rounds
  Join(For(Lit(I(0)), Lt(A1, Lit(I(3))), Sumi(A0, Key(Kn))), COMMA) >>                                \* 11 bounded by the index

\* witnesses: nested helpers, {0} read again after the nested helper, keys read at every level
WTrees == <<
  Join(Map(Split(A1, COMMA), Cat(<<Join(Map(Split(A0, DOTB), Multi(A0, Lit(I(2)))), PLUS), Lit(COLON), A0>>)), COMMA),
  Join(Map(Split(A1, COMMA), Cat(<<Key(Kk), Join(Filter(Split(A0, DOTB), Lt(A0, Key(Kn))), PLUS), Lit(<<60>>), A0, Key(Kk), Lit(<<62>>)>>)), SEMI),
  Join(Map(Split(A1, COMMA), Cat(<<A0, Lit(<<61>>), Join(Map(Split(A0, DOTB), Cat(<<Reduce(Split(A0, <<45>>), Sumi(A0, A1)), Lit(<<47>>), A0>>)), PLUS), Lit(<<61>>), A0>>)), SEMI),
  Join(Map(Split(A1, COMMA), Cat(<<Key(Kk), Multi(A0, Lit(I(2)))>>)), PLUS) >>

Ks(k, n) == <<<<Kk, k>>, <<Kn, n>>>>
LineOf(m0, m1, k, n) == [m |-> <<m0, m1>>, ks |-> Ks(k, n)]
\* lines of one scenario: goroutine g works on Lines[g]
Lines == <<
  LineOf(I(2), <<49,46,50,44,51,46,52>>, <<97>>, I(3)),                        \* 2  "1.2,3.4"  k=a n=3
  LineOf(I(1), <<53,46,54,45,49,44,55,44,56,46,57,46,49>>, <<98>>, I(6)),      \* 1  "5.6-1,7,8.9.1"  k=b n=6
  LineOf(I(3), <<50,44,50,46,50,44,50,46,50,46,50>>, <<99>>, I(4)),            \* 3  "2,2.2,2.2.2"  k=c n=4
  LineOf(I(0), <<57>>, <<100>>, I(2)) >>                                       \* 0  "9"  k=d n=2

Scenario(i, j) == [id |-> i * 100 + j, p |-> PTrees[i], w |-> WTrees[j]]
ScnIds == {<<i, j>> : i \in 1..Len(PTrees), j \in 1..Len(WTrees)}
=============================================================================

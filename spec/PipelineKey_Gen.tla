---------------------------- MODULE PipelineKey_Gen ----------------------------
(* B1 generator for PipelineKey: scenario vectors with the SEQUENTIAL evaluation   *)
(* as expectation.  One vector = (input set, ignore expressions, key expression)  *)
(* plus, computed by PipelineKeyExpr: the class of every line, the key of every   *)
(* matched line and the three totals.  The law of PipelineKey (ClassOK, KeysOK,   *)
(* KFinalOK hold for EVERY batch size, worker count and arrival order) is what    *)
(* makes the expectation independent of the pipeline parameters; the driver       *)
(* replays every vector under several of them (cfgs) on the real pipeline, on the *)
(* file path and - one-input sets - on the stream path with timer-cut batches.    *)
EXTENDS PipelineKeyExpr, TLC, Json

VARIABLE v

K(kind) == CASE kind = "A" -> [m |-> TRUE, g |-> 1]
             [] kind = "B" -> [m |-> TRUE, g |-> 2]
             [] kind = "Z" -> [m |-> TRUE, g |-> 0]
             [] kind = "U" -> [m |-> FALSE, g |-> 0]
Mk(kinds) == [f \in DOMAIN kinds |-> [i \in DOMAIN kinds[f] |-> K(kinds[f][i])]]
E(op, n) == [op |-> op, n |-> n]

FileSets == <<
  << <<"A", "B", "A", "U", "B", "A", "Z", "B">> >>,
  << <<"A", "B", "A", "B">>, <<"B", "A", "Z", "A">>, <<"A", "U", "B", "B">> >>,
  << <<"A", "B", "A">>, << >>, <<"B", "B", "U", "A", "A", "Z">> >>,
  << <<"A", "A", "B", "B", "A", "A", "B", "B", "A", "B", "A", "B">>, <<"B", "A">> >>,
  << <<"U", "A">>, <<"Z", "B", "A">>, <<"A">>, <<"B", "A", "B", "A", "B">> >>,
  << <<"B", "A", "B", "A", "A", "B">> >>
>>

IgnPool ==
  {E("gtline", n) : n \in {1, 3, 5}} \cup {E("ltline", 3)} \cup {E("eqline", n) : n \in {1, 2, 4}}
  \cup {E("eqsrc", s) : s \in 1..3} \cup {E("nesrc", s) : s \in {1, 2}}
  \cup {E("eqgrp", 1), E("eqgrp", 2), E("never", 0)}
IgnSeqs == {<< >>} \cup {<<a>> : a \in IgnPool} \cup {<<a, b>> : a, b \in IgnPool}
KeyPool == {E("grp", 0), E("line", 0), E("src", 0), E("full", 0), E("ifsrc", 1), E("ifsrc", 2), E("ifgtline", 2)}

\* pipeline parameters the driver replays a vector under (the expectation does not depend on them)
Cfgs == << [b |-> 1, w |-> 1, r |-> 1, c |-> 1], [b |-> 1, w |-> 2, r |-> 2, c |-> 1],
           [b |-> 2, w |-> 3, r |-> 1, c |-> 2], [b |-> 3, w |-> 1, r |-> 3, c |-> 1],
           [b |-> 3, w |-> 2, r |-> 1, c |-> 1000], [b |-> 100, w |-> 2, r |-> 2, c |-> 1],
           [b |-> 5, w |-> 8, r |-> 5, c |-> 2] >>

\* only vectors in which some expression reads a fact of the line, and no duplicate expression
Wanted(s, k) ==
  /\ (\E i \in DOMAIN s : IgnReadsLine(s[i])) \/ KeyReadsLine(k)
  /\ Len(s) = 2 => s[1] # s[2]

\* the context a line would be given if src / line were those of the line read before it
\* (the previous line of the same input, or the last line of the previous non-empty input)
PrevCtx(files, id) ==
  LET c == SeqCtx(files, id)
      before == {f \in 1..(id[1] - 1) : Len(files[f]) > 0}
      pf == CHOOSE f \in before : \A h \in before : h <= f
  IN IF id[2] > 1 THEN [c EXCEPT !.line = id[2] - 1]
     ELSE IF before = {} THEN [c EXCEPT !.src = 0, !.line = 0]
     ELSE [c EXCEPT !.src = pf, !.line = Len(files[pf])]

GInit == v \in {[fs |-> i, ign |-> s, key |-> k] : i \in DOMAIN FileSets,
                                                    s \in {x \in IgnSeqs : TRUE}, k \in KeyPool}
GNext == UNCHANGED v

Dump ==
  LET files == Mk(FileSets[v.fs]) IN
  Wanted(v.ign, v.key) =>
    PrintT("VFJ " \o ToJson(
      [fs |-> v.fs, kinds |-> FileSets[v.fs], ign |-> v.ign, key |-> v.key, cfgs |-> Cfgs,
       cls  |-> [f \in DOMAIN files |-> [i \in DOMAIN files[f] |-> SeqClass(files, v.ign, v.key, <<f, i>>)]],
       keys |-> [f \in DOMAIN files |-> [i \in DOMAIN files[f] |->
                   IF SeqClass(files, v.ign, v.key, <<f, i>>) = "matched"
                   THEN SeqKey(files, v.key, <<f, i>>) ELSE << >>]],
       read |-> Cardinality(IdsOf(files)),
       matched |-> SeqCount(files, v.ign, v.key, "matched"),
       ignored |-> SeqCount(files, v.ign, v.key, "ignored"),
       \* how many lines would change class if they were evaluated with the src / line of the line
       \* read before them (same match): the vector's sensitivity to a stale context
       sens |-> Cardinality({id \in IdsOf(files) :
                   /\ RecOf(files, id).m
                   /\ ClassIn(v.ign, v.key, SeqCtx(files, id)) # ClassIn(v.ign, v.key, PrevCtx(files, id))})]))
=============================================================================

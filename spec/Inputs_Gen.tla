----------------------------- MODULE Inputs_Gen -----------------------------
(* B1 generator: every scenario of the universe with the outcome the            *)
(* specification demands, printed as one JSON vector each.  For inputs that may *)
(* legitimately deliver only a prefix (truncated gzip) the vector carries the   *)
(* rows of all OTHER inputs (`rows`) and the full content of the partial ones   *)
(* (`partial`); the replayed observation is additionally validated by           *)
(* Inputs_Trace, which decides the prefix rule.                                 *)
EXTENDS InputsUniv, Json, TLC
CONSTANTS Part, NParts        \* this run emits the scenarios whose tree index = Part (mod NParts)
VARIABLE sc

GInit == sc \in UniversePart(Part, NParts)
GNext == UNCHANGED sc

TallySeq(t) == LET ks == SetToSeq(DOMAIN t) IN [i \in 1..Len(ks) |-> [r |-> ks[i], n |-> t[ks[i]]]]

Vector(s) ==
  LET ms  == Mentions(s)
      o0  == OutcomeCut(s, 0)          \* prefix inputs deliver nothing
      pi  == SetToSeq(PrefixIdx(s, ms))
  IN [tree    |-> [i \in DOMAIN s.tree |-> [p |-> PathStr(s.tree[i].p), k |-> s.tree[i].k, data |-> s.tree[i].data, tr |-> s.tree[i].tr, mem |-> s.tree[i].mem]],
      stdin   |-> s.stdin,
      usestdin |-> UsesStdin(s.args),
      argv    |-> [i \in DOMAIN s.args |-> PathStr(s.args[i])],
      args    |-> s.args,
      rec     |-> s.rec, gz |-> s.gz, readers |-> s.readers, cmd |-> s.cmd, nofile |-> s.nofile,
      mentions |-> [i \in DOMAIN ms |-> NameOf(ms[i])],
      exp     |-> [rows |-> TallySeq(o0.tally), nerr |-> o0.nerr, exit |-> o0.exit, msg |-> o0.msg,
                   matched |-> o0.matched, read |-> o0.read, parse |-> o0.parse, maxopen |-> MaxOpen(s),
                   free |-> SetToSeq(FreeNames(s)), nfree |-> MayTotal(s),
                   ends |-> LET E == SetToSeq(AllowedEnd(o0, MayTotal(s))) IN [i \in DOMAIN E |-> [exit |-> E[i][1], msg |-> E[i][2]]],
                   partial |-> [i \in DOMAIN pi |-> [name |-> NameOf(ms[pi[i]]), full |-> ReadOutcome(s, ms[pi[i]]).full]]]]

Dump == PrintT("VFJ " \o ToJson(Vector(sc)))
=============================================================================

----------------------------- MODULE TermTrim_MC -----------------------------
(* C20 B3: the trimming law on the transcription of WriteLineNoWrap, decided by   *)
(* TLC for every text of at most MaxTokens tokens (a, m, e-acute, ESC[31m, ESC[m) *)
(* plus the text pools of the writer models, and every width 1..MaxW.              *)
(* One state per (text, width).                                                    *)
EXTENDS TermTrim
CONSTANTS MaxW, MaxTokens
VARIABLES text, w
TInit == text \in (Concats(TrimTokens, MaxTokens) \cup TextsB3x) /\ w \in 1..MaxW
TNext == UNCHANGED <<text, w>>
TSpec == TInit /\ [][TNext]_<<text, w>>
TrimLaw == TrimLawAt(text, w)
\* and the screen consequence: the cut, written at column 0, fills at most w cells and does not wrap
NoWrapLaw ==
  LET t == Feed(NewTerm(w, TRUE, <<>>), Utf8(Cut(text, w))) IN
  ~t.wrapped /\ ~t.broken /\ Idle(t) /\ ~t.junk /\ Len(t.rows) = 1 /\ t.rows[1] = Shown(text, w, TRUE)
=============================================================================

---------------------------- MODULE RareWorker_MC ----------------------------
(* C03, B3 -- what a worker owns.                                                *)
(* Rare_MC shows that the interleaving of batches does not matter as long as a    *)
(* line is turned into its element by a FUNCTION of the line.  In the code that   *)
(* function runs on state that lives longer than a line: the reader's line        *)
(* counter of a source (BatchStart), the matcher instance of a worker (the index  *)
(* vector FindSubmatchIndex returns is carved from the instance's pool) and the   *)
(* worker's expression context (source, line number, captures; any memo of a      *)
(* rendered view).  This model makes that state explicit:                         *)
(*                                                                              *)
(*   Cut(s)     the reader of source s cuts the next batch {src, start, lines}:   *)
(*              B lines, the rest of the source, or - TimerFlush, stdin and       *)
(*              followed files - fewer because the auto-flush interval passed;    *)
(*              the source's counter advances (Numbering: "len" by the number of  *)
(*              lines cut, as the code does; "size" by the batch size)            *)
(*   Take(w)    an idle worker takes the oldest batch                             *)
(*   Match(w)   the worker's matcher instance dissects the next line: the         *)
(*              captures are in the instance's result slot (Matcher: "own" one    *)
(*              instance per worker, as the code does; "shared" ONE instance)     *)
(*   Extract(w) the context (source, start + index, captures read from the slot)  *)
(*              renders the atoms, the element is classified and sampled (Memo:   *)
(*              "none" views are rendered from the captures, as the code does;    *)
(*              "srcline" remembered per (source, line number); "line" per line   *)
(*              number only)                                                      *)
(*                                                                              *)
(* TLC checks over every interleaving that the run ends in the reference          *)
(* aggregate of the layout (FinalAgg / FinalCounts) for the designs of the code   *)
(* and for the admissible alternative Memo = "srcline"; the designs               *)
(*   Matcher = "shared" (W >= 2)      - seeded change "one matcher for all"       *)
(*   Memo = "line" (two sources)      - seeded change "memo keyed by line number" *)
(*   Numbering = "size", TimerFlush   - seeded change "advance by the batch size" *)
(* must each be REFUTED (lib/props/c03.py), while Numbering = "size" without      *)
(* timer flush is not: which is why runs over files cannot see that one.          *)
(*                                                                              *)
(* One TLC run explores a SET of scenarios (the first step of a behaviour fixes    *)
(* `sc`): for the scenarios with neg = "" the invariants must hold; a scenario     *)
(* with neg = <name> is a negative control, TLC (run with -continue) must report   *)
(* the invariant Refuted_<name> violated, i.e. exhibit an interleaving that ends   *)
(* in a wrong aggregate.                                                          *)
EXTENDS Rare

CONSTANTS Scenarios
VARIABLE sc      \* [W, B, Cap, co, cmd, matcher, memo, numbering, flush, neg]
Sc(w, b, cap, co, c, ma, me, nu, fl, neg) ==
  [W |-> w, B |-> b, Cap |-> cap, co |-> co, cmd |-> c, matcher |-> ma, memo |-> me, numbering |-> nu, flush |-> fl, neg |-> neg]
ScQuick == {
  Sc(2, 2, 1, 1, 2, "own", "none", "len", TRUE, ""), Sc(2, 2, 2, 1, 4, "own", "srcline", "len", TRUE, ""),
  Sc(2, 2, 2, 2, 3, "own", "none", "len", TRUE, ""), Sc(2, 2, 2, 2, 5, "own", "none", "size", FALSE, ""),
  Sc(1, 2, 2, 1, 1, "own", "none", "len", FALSE, ""),
  Sc(2, 2, 1, 1, 2, "shared", "none", "len", TRUE, "shared"),
  Sc(1, 2, 2, 1, 1, "own", "line", "len", FALSE, "memoline"),
  Sc(2, 2, 2, 2, 5, "own", "none", "size", TRUE, "numbering") }
ScThorough == ScQuick \cup
  {Sc(w, b, 2, co, c, "own", me, "len", TRUE, "") : w \in 1..3, b \in 1..2, co \in 1..2, c \in 1..5, me \in {"none", "srcline"}} \cup
  {Sc(2, 1, 2, 1, 4, "own", "line", "len", TRUE, "memoline"), Sc(1, 2, 1, 2, 3, "own", "none", "size", TRUE, "numbering"),
   Sc(2, 1, 2, 1, 4, "shared", "none", "len", TRUE, "shared")}
W == sc.W   B == sc.B   Cap == sc.Cap   CorpusIx == sc.co   CmdIx == sc.cmd
Matcher == sc.matcher   Memo == sc.memo   Numbering == sc.numbering   TimerFlush == sc.flush
MaxW == 3

L(k, s, v) == k \o <<SEP>> \o s \o <<SEP>> \o v
N_f0 == <<102, 48>>   N_f1 == <<102, 49>>
\* a corpus is a sequence of sources [name, lines]
Corpora == <<
  \* 1: a one-line source and a two-line source: equal line numbers, different lines, fields at different offsets
  << [name |-> N_f0, lines |-> << L(<<97>>, <<120>>, <<49>>) >>],
     [name |-> N_f1, lines |-> << L(<<98, 98>>, <<121>>, <<50>>), L(<<97>>, <<120>>, <<51>>) >>] >>,
  \* 2: stdin, three lines, one of them unmatched
  << [name |-> S_stdin, lines |-> << L(<<97>>, <<120>>, <<49>>), <<106>>, L(<<98>>, <<121>>, <<50>>), L(<<97>>, <<121>>, <<50>>) >>] >>
>>
Cmds == <<
  [cmd |-> "histogram", mt |-> "ren", ext |-> <<6>>,    delim |-> <<>>, ig |-> 0, iv |-> <<>>, grp |-> 0, acc |-> <<>>],
  [cmd |-> "histogram", mt |-> "dis", ext |-> <<1, 3>>, delim |-> <<>>, ig |-> 0, iv |-> <<>>, grp |-> 0, acc |-> <<>>],
  [cmd |-> "table",     mt |-> "re",  ext |-> <<5, 4>>, delim |-> <<>>, ig |-> 0, iv |-> <<>>, grp |-> 0, acc |-> <<>>],
  [cmd |-> "bargraph",  mt |-> "dis", ext |-> <<1, 8>>, delim |-> <<>>, ig |-> 2, iv |-> <<121>>, grp |-> 0, acc |-> <<>>],
  [cmd |-> "histogram", mt |-> "re",  ext |-> <<4>>,    delim |-> <<>>, ig |-> 0, iv |-> <<>>, grp |-> 0, acc |-> <<>>]
>>
Srcs == Corpora[CorpusIx]
cd == Cmds[CmdIx]
S == 1..Len(Srcs)
AllLines == Flatten([s \in S |-> Srcs[s].lines])
Off(s) == FoldLeft(+, 0, [t \in 1..(s - 1) |-> Len(Srcs[t].lines)])
Lay == [s \in S |-> [name |-> Srcs[s].name, lo |-> Off(s) + 1, hi |-> Off(s) + Len(Srcs[s].lines)]]
\* constant level: the reference of the layout
RefFinal == RefAggLay(cd, AllLines, Lay)
RefClass(c) == FoldLeft(+, 0, [s \in S |->
                 Cardinality({j \in 1..Len(Srcs[s].lines) : ClassifyAt(cd, Srcs[s].lines[j], Srcs[s].name, j) = c})])

NoBatch == [src |-> 0, start |-> 0, lines |-> <<>>]
JAtoms == {6, 7, 8}
NoMemo == [a \in JAtoms |-> [src |-> <<>>, line |-> 0, text |-> <<>>]]
NoCaps == [ok |-> FALSE, g |-> <<>>]

VARIABLES pos,      \* pos[s]: next line of source s to be cut
          start,    \* start[s]: the reader's line counter of source s
          inCh,     \* batches on their way to the workers
          wk,       \* wk[w] = [b: batch in hand, i: next line of it, st: "idle" | "matched"]
          slot,     \* slot[m]: the captures in the result slot of matcher instance m
          memo,     \* memo[w]: the remembered views of worker w's context
          agg, nmatched, nignored, nread
vars == <<sc, pos, start, inCh, wk, slot, memo, agg, nmatched, nignored, nread>>

Inst(w) == IF Matcher = "shared" THEN 1 ELSE w

Init ==
  /\ sc \in Scenarios
  /\ pos = [s \in S |-> 1] /\ start = [s \in S |-> 1]
  /\ inCh = <<>>
  /\ wk = [w \in 1..W |-> [b |-> NoBatch, i |-> 1, st |-> "idle"]]
  /\ slot = [m \in 1..W |-> NoCaps]
  /\ memo = [w \in 1..W |-> NoMemo]
  /\ agg = AggInit(cd) /\ nmatched = 0 /\ nignored = 0 /\ nread = 0

Cut(s) ==
  /\ Len(inCh) < Cap
  /\ LET left == Len(Srcs[s].lines) - pos[s] + 1
         full == IF left < B THEN left ELSE B
     IN /\ left > 0
        /\ \E n \in (IF TimerFlush THEN 1..full ELSE {full}) :
             /\ inCh' = Append(inCh, [src |-> s, start |-> start[s], lines |-> SubSeq(Srcs[s].lines, pos[s], pos[s] + n - 1)])
             /\ pos' = [pos EXCEPT ![s] = @ + n]
             /\ start' = [start EXCEPT ![s] = @ + (IF Numbering = "len" THEN n ELSE B)]
  /\ UNCHANGED <<wk, slot, memo, agg, nmatched, nignored, nread>>

Take(w) ==
  /\ wk[w].b = NoBatch /\ inCh # <<>>
  /\ wk' = [wk EXCEPT ![w] = [b |-> Head(inCh), i |-> 1, st |-> "idle"]]
  /\ inCh' = Tail(inCh)
  /\ UNCHANGED <<pos, start, slot, memo, agg, nmatched, nignored, nread>>

Match(w) ==
  /\ wk[w].b # NoBatch /\ wk[w].st = "idle"
  /\ slot' = [slot EXCEPT ![Inst(w)] = Caps(cd, wk[w].b.lines[wk[w].i])]
  /\ wk' = [wk EXCEPT ![w].st = "matched"]
  /\ UNCHANGED <<pos, start, inCh, memo, agg, nmatched, nignored, nread>>

\* the text of a JSON view as worker w's context answers it
Hit(w, a, src, lno) ==
  /\ Memo # "none" /\ memo[w][a].line = lno
  /\ (Memo = "srcline" => memo[w][a].src = src)
View(w, a, g, src, lno) == IF Hit(w, a, src, lno) THEN memo[w][a].text ELSE AtomText(cd, g, src, lno, a)

Extract(w) ==
  /\ wk[w].b # NoBatch /\ wk[w].st = "matched"
  /\ LET b    == wk[w].b
         c    == slot[Inst(w)]
         src  == Srcs[b.src].name
         lno  == b.start + wk[w].i - 1
         used == {cd.ext[i] : i \in 1..Len(cd.ext)} \cap JAtoms
         el   == IF ~c.ok THEN <<>>
                 ELSE JoinSeq([i \in 1..Len(cd.ext) |->
                                IF cd.ext[i] \in JAtoms THEN View(w, cd.ext[i], c.g, src, lno)
                                ELSE AtomText(cd, c.g, src, lno, cd.ext[i])], Delim(cd))
         cls  == IF ~c.ok THEN "nomatch"
                 ELSE IF (cd.ig # 0 /\ c.g[cd.ig + 1] = cd.iv) \/ el = <<>> THEN "ignored" ELSE "sample"
         last == wk[w].i = Len(b.lines)
     IN /\ agg' = IF cls = "sample" THEN AggSample(cd, agg, el) ELSE agg
        /\ nmatched' = nmatched + (IF cls = "sample" THEN 1 ELSE 0)
        /\ nignored' = nignored + (IF cls = "ignored" THEN 1 ELSE 0)
        /\ nread' = nread + 1
        /\ memo' = IF Memo = "none" \/ ~c.ok THEN memo
                   ELSE [memo EXCEPT ![w] = [a \in JAtoms |->
                           IF a \in used /\ ~Hit(w, a, src, lno)
                           THEN [src |-> src, line |-> lno, text |-> AtomText(cd, c.g, src, lno, a)] ELSE memo[w][a]]]
        /\ wk' = [wk EXCEPT ![w] = IF last THEN [b |-> NoBatch, i |-> 1, st |-> "idle"]
                                   ELSE [b |-> b, i |-> wk[w].i + 1, st |-> "idle"]]
  /\ UNCHANGED <<pos, start, inCh, slot>>

Done == /\ \A s \in S : pos[s] > Len(Srcs[s].lines)
        /\ inCh = <<>> /\ \A w \in 1..W : wk[w].b = NoBatch
Next ==
  \/ /\ UNCHANGED sc
     /\ \/ \E s \in S : Cut(s)
        \/ \E w \in 1..W : Take(w) \/ Match(w) \/ Extract(w)
  \/ (Done /\ UNCHANGED vars)
Spec == Init /\ [][Next]_vars /\ WF_vars(Next)

-----------------------------------------------------------------------------
Good == /\ agg = RefFinal /\ nread = Len(AllLines)
        /\ nmatched = RefClass("sample") /\ nignored = RefClass("ignored")
FinalAgg == (Done /\ sc.neg = "") => agg = RefFinal
FinalCounts == (Done /\ sc.neg = "") => Good
\* negative controls: TLC must find the behaviour that ends wrong
Refuted_shared == ~(sc.neg = "shared" /\ Done /\ ~Good)
Refuted_memoline == ~(sc.neg = "memoline" /\ Done /\ ~Good)
Refuted_numbering == ~(sc.neg = "numbering" /\ Done /\ ~Good)
\* the line counter of a source counts its lines: batch starts are 1 + the lines cut before
StartsExact == \A s \in S : Numbering = "len" => start[s] = pos[s]
Terminates == <>Done
=============================================================================

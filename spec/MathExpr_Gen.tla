---------------------------- MODULE MathExpr_Gen ----------------------------
(* B1 generator for C19.  TLC enumerates formulas together with what the        *)
(* specification says about them; the Go driver replays every vector on         *)
(* stdmath.Compile and on `{! ...}` through the KeyBuilder.                      *)
(*   GMode "tokens": every token string up to MaxLen over Alphabet with its      *)
(*          class ("wf" must compile and evaluate to exp, "mal" must be          *)
(*          rejected, "undoc" any verdict; never a panic); the same run checks   *)
(*          the B3 token law of MathExpr_MC                                      *)
(*   GMode "g1": one binary operator (all 18) with unary operators / functions   *)
(*          on either operand or on the whole, nested unary operators            *)
(*   GMode "g2": both shapes of two binary operators (all 18 x 18) over leaf     *)
(*          triples, kept when some binding tells the two groupings of           *)
(*          `a o1 b o2 c` apart                                                  *)
(*   GMode "g3": the five shapes of three binary operators over G3Ops            *)
(* A vector: toks (minimal parentheses), alts (other printings of the same       *)
(* tree: redundant parentheses, implied `*`, 0x/0b/.0 literals, [name]/[n]       *)
(* variables), exp[b] = [def, n, d] for binding Bindings[b] (def = FALSE: the    *)
(* specification demands nothing but "no crash").                                *)
EXTENDS MathExpr_MC, Json

CONSTANTS GMode, G3Ops, Big

VARIABLE vec
gvars == <<st, gen, vec>>

Bindings == <<
  <<<<0, 1>>, <<3, 1>>>>,
  <<<<0 - 3, 1>>, <<1, 2>>>>,
  <<<<7, 2>>, <<0 - 1, 4>>>>,
  <<<<4, 1>>, <<0, 1>>>>,
  <<<<2, 1>>, <<0 - 2, 1>>>> >>
NB == Len(Bindings)
N2 == Num(<<2, 1>>)
N3 == Num(<<3, 1>>)
N5 == Num(<<5, 1>>)
NH == Num(<<5, 2>>)
X == Var(1)
Y == Var(2)

Exp(t) == [b \in 1..NB |-> LET v == Value(t, Bindings[b]) IN [def |-> v.def, n |-> v.n, d |-> v.d]]
RECURSIVE HasMul(_)
HasMul(t) == CASE t.k = "bin" -> t.op = "*" \/ HasMul(t.l) \/ HasMul(t.r) [] t.k = "un" -> HasMul(t.a) [] OTHER -> FALSE
AltVariants(t) ==
  {[par |-> "full", imp |-> FALSE, num |-> "d", var |-> "bare"],
   [par |-> "min", imp |-> FALSE, num |-> "x", var |-> "boxed"],
   [par |-> "min", imp |-> FALSE, num |-> "b", var |-> "idx"],
   [par |-> "full", imp |-> FALSE, num |-> "f", var |-> "idx"],
   [par |-> "min", imp |-> FALSE, num |-> "xl", var |-> "bare"]}
  \cup (IF HasMul(t) THEN {[par |-> "min", imp |-> TRUE, num |-> "d", var |-> "bare"],
                           [par |-> "full", imp |-> TRUE, num |-> "x", var |-> "boxed"]} ELSE {})
Vector(g, t) == [g |-> g, toks |-> PrintF(t, V0), alts |-> {PrintF(t, v) : v \in AltVariants(t)}, exp |-> Exp(t)]

\* ------------------------------------------------------------------- g1
Un1 == {"-", "!", "abs", "floor", "ceil", "round", "sqrt"}
G1A == {N2, N5, X, NH}
G1B == {N3, Y, N2}
G1(o) ==
  LET base == {Bin(o, a, b) : a \in G1A, b \in G1B} IN
  base
  \cup {Bin(o, Un(u, a), b) : u \in Un1, a \in {N5, X}, b \in {N3, Y}}
  \cup {Bin(o, a, Un(u, b)) : u \in Un1, a \in {N5, X}, b \in {N3, Y}}
  \cup {Un(u, Bin(o, a, b)) : u \in Un1, a \in {N5, X}, b \in {N3, Y}}
  \cup {Bin(o, a, Un("-", Un(u, b))) : u \in {"-", "!", "abs"}, a \in {N5}, b \in {N3, Y}}
  \cup {Bin(o, Un("abs", Un("-", a)), b) : a \in {N5, X}, b \in {N3}}

\* ------------------------------------------------------------------- g2
G2A == IF Big THEN {N2, N3, N5, X, Y} ELSE {N5, X, N2}
G2B == IF Big THEN {N2, N3, N5, X, Y} ELSE {N3, Y, X}
G2C == IF Big THEN {N2, N3, N5, X, Y} ELSE {N2, Y, N3}
Tells(t, alt) == \E b \in 1..NB :
  LET v == Value(t, Bindings[b])
      w == Value(alt, Bindings[b]) IN v.def /\ ~SameVal(v, w)
G2(o1) ==
  UNION {{[t |-> Bin(o2, Bin(o1, a, b), c), alt |-> Bin(o1, a, Bin(o2, b, c))],
          [t |-> Bin(o1, a, Bin(o2, b, c)), alt |-> Bin(o2, Bin(o1, a, b), c)]}
         : o2 \in BinOps, a \in G2A, b \in G2B, c \in G2C}

\* ------------------------------------------------------------------- g3
G3L == {<<N5, X, N3, N2>>, <<X, N3, Y, N5>>}
G3(o1) ==
  UNION {{Bin(o3, Bin(o2, Bin(o1, l[1], l[2]), l[3]), l[4]),
          Bin(o3, Bin(o1, l[1], Bin(o2, l[2], l[3])), l[4]),
          Bin(o2, Bin(o1, l[1], l[2]), Bin(o3, l[3], l[4])),
          Bin(o1, l[1], Bin(o3, Bin(o2, l[2], l[3]), l[4])),
          Bin(o1, l[1], Bin(o2, l[2], Bin(o3, l[3], l[4])))}
         : o2 \in G3Ops, o3 \in G3Ops, l \in G3L}

\* ------------------------------------------------------------------ states
None == [k |-> "none"]
GInit ==
  /\ gen = 0
  /\ IF GMode = "tokens" THEN st = <<>> /\ vec = None
     ELSE st = <<>> /\ vec \in {[k |-> "hdr", o |-> o] : o \in (IF GMode = "g3" THEN G3Ops ELSE BinOps)}
GNext ==
  IF GMode = "tokens" THEN Len(st) < MaxLen /\ gen' = gen /\ vec' = vec /\ \E a \in Alphabet : st' = Append(st, a)
  ELSE /\ vec.k = "hdr" /\ UNCHANGED <<st, gen>>
       /\ CASE GMode = "g1" -> vec' \in {[k |-> "t", t |-> t] : t \in G1(vec.o)}
            [] GMode = "g2" -> vec' \in {[k |-> "t", t |-> p.t] : p \in {q \in G2(vec.o) : Tells(q.t, q.alt)}}
            [] GMode = "g3" -> vec' \in {[k |-> "t", t |-> t] : t \in G3(vec.o)}

TokVector(toks) ==
  LET c == Class(toks) IN
  [g |-> "tok", toks |-> toks, cls |-> c,
   exp |-> IF c = "wf" THEN Exp(ParseRef(toks).t) ELSE <<>>]
GLaw == GMode = "tokens" => TokLaw(st)
Dump ==
  IF GMode = "tokens" THEN PrintT("VFJ " \o ToJson(TokVector(st)))
  ELSE vec.k = "t" => PrintT("VFJ " \o ToJson(Vector(GMode, vec.t)))
=============================================================================

-------------------------- MODULE Aggregators_Trace --------------------------
(* B2: validates recorded executions of the real aggregators against the        *)
(* abstract machine of Aggregators.tla.  The log holds many traces; each begins  *)
(* with a `reset` line {t, agg, prof, base}.  `sample{el}` and `trim{p, ret}`     *)
(* drive the abstract state, `obs{...}` carries what the public accessors of the *)
(* real aggregator returned at that moment and must be what the abstract state   *)
(* says; it is a stuttering step (AObserve) and may occur anywhere, any number   *)
(* of times, on the one instance the trace is the life of.  `base` (decimal text, *)
(* units) is the offset of a numerical trace: samples are read, and values are   *)
(* reported, relative to it (Aggregators.tla, shift law).                        *)
(* `delim` is the delimiter a table was constructed with (NewTable(delim)): its   *)
(* samples are split on that byte sequence.  `split{s, d, done0, rets, oks,       *)
(* dones}` is one stringSplitter.Splitter{S: s, Delim: d} driven directly: Next /  *)
(* NextOk until Done and two calls beyond, Done read after every call - judged by  *)
(* AggSplit!Fields.                                                                *)
(* An event the specification cannot explain is recorded in `bad` (trace id,     *)
(* line) and the rest of that trace is skipped.                                   *)
EXTENDS Aggregators, Json

Trace == ndJsonDeserialize("trace.ndjson")
TrNone == {}
TrCfg == AccCfgOf(1)

VARIABLES l, tid, agg, prof, nbase, tdelim, bad
tvars == <<ctr, sub, tbl, num, acc, l, tid, agg, prof, nbase, tdelim, bad>>

Ev == Trace[l]
IsEv(e) == l <= Len(Trace) /\ Ev.event = e /\ l' = l + 1
RangeOf(s) == {s[i] : i \in 1..Len(s)}
NoDup(s) == Cardinality(RangeOf(s)) = Len(s)

TReset ==
  /\ IsEv("reset")
  /\ ctr' = CtrInit /\ sub' = GridInit /\ tbl' = GridInit /\ num' = NumInit /\ acc' = AccInit
  /\ tid' = Ev.t /\ agg' = Ev.agg /\ prof' = Ev.prof /\ nbase' = BaseOfText(Ev.base)
  /\ Len(Ev.delim) >= 1 /\ tdelim' = Ev.delim

TSample ==
  /\ IsEv("sample")
  /\ CASE agg = "ctr" -> InDomain(Ev.el, 1) /\ ASampleCtr(Ev.el)
       [] agg = "sub" -> InDomain(Ev.el, 2) /\ ASampleSub(Ev.el)
       [] agg = "tbl" -> InDomainD(Ev.el, 2, tdelim) /\ ASampleTblD(Ev.el, tdelim)
       [] agg = "num" -> NumParseB(Ev.el, nbase).c # "out" /\ ASampleNumB(Ev.el, nbase)
       [] agg = "acc" -> acc' = AccStep(AccCfgOf(prof), acc, Ev.el) /\ UNCHANGED <<ctr, sub, tbl, num>>
  /\ UNCHANGED <<tid, agg, prof, nbase, tdelim>>

\* Trim returns "the number of fields trimmed": at least the selected cells that existed,
\* at most one per row x column position
TTrim ==
  /\ IsEv("trim") /\ agg = "tbl"
  /\ Ev.ret >= Cardinality(TblTrimmed(tbl, Ev.p))
  /\ Ev.ret <= Cardinality(GridAs(tbl)) * Cardinality(GridBs(tbl))
  /\ ATrimTbl(Ev.p)
  /\ UNCHANGED <<tid, agg, prof, nbase, tdelim>>

ObsCtrOK(o) ==
  /\ NoDup(o.items)
  /\ {it[1] : it \in RangeOf(o.items)} = DOMAIN ctr.cnt
  /\ \A it \in RangeOf(o.items) : ctr.cnt[it[1]] = it[2]
  /\ o.total = CtrTotal(ctr) /\ o.groups = Cardinality(DOMAIN ctr.cnt) /\ o.errors = ctr.err

\* rows: <<name, total, values aligned with `names`>>
GridObsOK(s, names, rows, totals) ==
  /\ NoDup(names) /\ RangeOf(names) = GridBs(s)
  /\ NoDup([i \in 1..Len(rows) |-> rows[i][1]])
  /\ {r[1] : r \in RangeOf(rows)} = GridAs(s)
  /\ \A r \in RangeOf(rows) :
       /\ Len(r[3]) = Len(names)
       /\ \A i \in 1..Len(names) : r[3][i] = GridAt(s, r[1], names[i])
       /\ totals => r[2] = GridRowSum(s, r[1])
ObsSubOK(o) == GridObsOK(sub, o.subkeys, o.rows, TRUE) /\ o.errors = sub.err
ObsTblOK(o) ==
  /\ GridObsOK(tbl, o.cols, o.rows, ~tbl.dirty)
  /\ o.nrows = Cardinality(GridAs(tbl)) /\ o.ncols = Cardinality(GridBs(tbl))
  /\ o.min = GridMinMax(tbl)[1] /\ o.max = GridMinMax(tbl)[2]
  /\ o.errors = tbl.err
  /\ ~tbl.dirty =>
       /\ Len(o.coltot) = Len(o.cols)
       /\ \A i \in 1..Len(o.cols) : o.coltot[i] = GridColSum(tbl, o.cols[i])
       /\ o.sum = GridSum(tbl)

\* every value is reported relative to the base (milli units), the standard deviation as it is
ObsNumOK(o) ==
  /\ o.n = num.n /\ o.errors = num.err
  /\ num.n >= 1 =>
       /\ o.finite
       /\ MeanOKs(num, o.mean3, NumSlack(num.n, nbase))
       /\ o.min3 = NumMin(num) /\ o.max3 = NumMax(num)
       /\ StandsAt(num, o.med3[1], MedianIdx(num.n), FALSE)
       /\ StandsAt(num, o.med3[2], MedianIdx(num.n), TRUE)
       /\ o.mode3[1] \in Modes(num) /\ o.mode3[2] \in Modes(num)
       /\ \A i \in 1..Len(o.q) :
            QuantDomain(num.n, o.q[i][1]) =>
              /\ StandsAt(num, o.q[i][2], QuantIdx(num.n, o.q[i][1]), FALSE)
              /\ StandsAt(num, o.q[i][3], QuantIdx(num.n, o.q[i][1]), TRUE)
  /\ num.n >= 2 => SdOKs(num, o.sd3, NumSlack(num.n, nbase))

ObsAccOK(o) ==
  /\ NoDup([i \in 1..Len(o.data) |-> o.data[i][1]])
  /\ {d[1] : d \in RangeOf(o.data)} = DOMAIN acc
  /\ \A d \in RangeOf(o.data) : acc[d[1]] = d[2]
  /\ o.nocopy = o.data                 \* DataNoCopy(g) shows the same row as Data(g)
  /\ o.ngroups = Cardinality(DOMAIN acc)

TObs ==
  /\ IsEv("obs")
  /\ CASE agg = "ctr" -> ObsCtrOK(Ev) [] agg = "sub" -> ObsSubOK(Ev) [] agg = "tbl" -> ObsTblOK(Ev)
       [] agg = "num" -> ObsNumOK(Ev) [] agg = "acc" -> ObsAccOK(Ev)
  /\ AObserve /\ UNCHANGED <<tid, agg, prof, nbase, tdelim>>

\* a Splitter driven directly: n = Len(F) + 2 calls, call i answers field i (then ""), ok / "not Done before
\* the call" while a field was left, Done from the last field on; no panic
SplitObsOK(e) ==
  LET F == Fields(e.s, e.d)
      n == Len(F) + 2
  IN /\ Len(e.d) >= 1 /\ ~e.panic
     /\ e.done0 = DoneAfter(F, 0)
     /\ Len(e.rets) = n /\ Len(e.oks) = n /\ Len(e.dones) = n
     /\ \A i \in 1..n : e.rets[i] = CallRet(F, i) /\ e.oks[i] = CallOk(F, i) /\ e.dones[i] = DoneAfter(F, i)
TSplit ==
  /\ IsEv("split") /\ agg = "split" /\ SplitObsOK(Ev)
  /\ UNCHANGED <<ctr, sub, tbl, num, acc, tid, agg, prof, nbase, tdelim>>

TStep == TReset \/ TSample \/ TTrim \/ TObs \/ TSplit

RECURSIVE NextReset(_)
NextReset(i) == IF i > Len(Trace) \/ Trace[i].event = "reset" THEN i ELSE NextReset(i + 1)
Skip ==
  /\ l <= Len(Trace) /\ ~ENABLED TStep
  /\ bad' = Append(bad, [t |-> tid, l |-> l])
  /\ l' = NextReset(l + 1)
  /\ UNCHANGED <<ctr, sub, tbl, num, acc, tid, agg, prof, nbase, tdelim>>

TInit == AInit /\ l = 1 /\ tid = 0 /\ agg = "none" /\ prof = 0 /\ nbase = BZero /\ tdelim = DNUL /\ bad = <<>>
TNext == (TStep /\ UNCHANGED bad) \/ Skip
TSpec == TInit /\ [][TNext]_tvars

Final == (l = Len(Trace) + 1) => JsonSerialize("bad.json", [bad |-> bad, consumed |-> l - 1, done |-> TRUE])
=============================================================================

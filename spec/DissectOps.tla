------------------------------ MODULE DissectOps ------------------------------
(* C12 - the constant-level, implementation-shaped operators shared by the      *)
(* state machines DissectImpl (one instance) and DissectShared (W instances of  *)
(* one compiled pattern):                                                       *)
(*  - CompileImpl: the left-to-right pattern compiler that stops at the first   *)
(*    error it meets (pkg/matchers/dissect/dissect.go CompileEx);               *)
(*  - IndexIgnoreCase: the case-insensitive substring search against a          *)
(*    pre-lowered needle (the four-way switch of case.go).                      *)
EXTENDS Dissect, TLC

-----------------------------------------------------------------------------
(* the compiler, written like CompileEx: first error wins *)
RECURSIVE CompileLoop(_, _)
CompileLoop(rest, acc) ==        \* rest begins with %{
  LET body == DropFirst(rest, 2)
      stop == IndexByte(body, RBR)
  IN IF stop = 0 THEN [err |-> "unclosed", tokens |-> acc]
     ELSE
       LET raw   == TakeFirst(body, stop - 1)
           after == DropFirst(body, stop)
           pct   == IndexByte(after, PCT)
           until == IF pct = 0 THEN after ELSE TakeFirst(after, pct - 1)
           next  == IF pct = 0 THEN <<>> ELSE DropFirst(after, pct - 1)
           named == raw # <<>> /\ raw[1] = QM
           skip  == raw = <<>> \/ named
           name  == IF named THEN Tail(raw) ELSE raw
           dup   == \E i \in 1..Len(acc) : ~acc[i].skip /\ acc[i].name = name
       IN IF pct = 1 THEN [err |-> "sequential", tokens |-> acc]
          ELSE IF ~skip /\ dup THEN [err |-> "conflict", tokens |-> acc]
          ELSE IF next = <<>> THEN [err |-> "none", tokens |-> Append(acc, Tok(name, until, skip))]
          ELSE CompileLoop(next, Append(acc, Tok(name, until, skip)))

CompileImpl(text, ic) ==
  LET i == IndexFrom(text, <<PCT, LBR>>, 1)
      r == IF i = 0 THEN [err |-> "none", tokens |-> <<>>] ELSE CompileLoop(DropFirst(text, i - 1), <<>>)
      p == [prefix |-> IF i = 0 THEN text ELSE TakeFirst(text, i - 1), tokens |-> r.tokens]
  IN [err |-> r.err, p |-> IF ic THEN FoldPat(p) ELSE p]

\* the compiler implements the abstract syntax on every in-domain text
CompileRefines(text, ic) ==
  InDomain(text) =>
    LET c == CompileImpl(text, ic) IN
    IF Compiles(text) THEN c.err = "none" /\ c.p = (IF ic THEN FoldPat(Compiled(text)) ELSE Compiled(text))
    ELSE c.err \in Errs(Structure(text))

-----------------------------------------------------------------------------
(* case.go: 0-based index of the first case-insensitive occurrence, -1 if none *)
EqFoldAt(s, low, i) == \A j \in 1..Len(low) : LowerC(s[i + j]) = low[j]      \* i = 0-based offset
IndexIgnoreCase(s, low) ==
  LET n == Len(low) IN
  IF n = 0 THEN 0
  ELSE IF Len(s) < n THEN -1
  ELSE IF Len(s) = n THEN (IF EqFoldAt(s, low, 0) THEN 0 ELSE -1)
  ELSE LET H == {i \in 0..(Len(s) - n) : EqFoldAt(s, low, i)} IN IF H = {} THEN -1 ELSE MinOf(H)

IndexExact(s, sub) == IndexFrom(s, sub, 1) - 1          \* strings.Index
IndexFn(ic, s, sub) == IF ic THEN IndexIgnoreCase(s, sub) ELSE IndexExact(s, sub)

IndexLaw(s, sub) == IndexIgnoreCase(s, LowerASCII(sub)) = IndexExact(LowerASCII(s), LowerASCII(sub))

-----------------------------------------------------------------------------
(* the int pool (pkg/slicepool/intpool.go): a header (which slab, how much of   *)
(* it is carved) over slabs that are never recycled; a result slice is a handle *)
NoHandle == [s |-> 0, o |-> 0]
NoHdr    == [s |-> 0, u |-> 0]
=============================================================================

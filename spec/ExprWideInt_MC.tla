---------------------------- MODULE ExprWideInt_MC ----------------------------
(* B3 for the digit-sequence arithmetic of ExprWideInt: TLC decides               *)
(*  small : on every pair of TLC integers of a set reaching 10^8 the operators    *)
(*          agree with TLC's own + - < and with Itoa / ParseIntVal                 *)
(*  ring  : on every triple of a set of wide values around 2^31, 2^32, 2^62,      *)
(*          2^63, 2^64, 10^19 the ring and order laws hold (commutative,          *)
(*          associative, inverse, translation invariant total order), results are *)
(*          normalised, text round trips                                          *)
(*  wrap  : the b-bit register value of an exact sum fits b bits and differs      *)
(*          from the sum by 0 or 2^b; at 32 bits it is TLC-checkable directly     *)
(*  text  : strconv.Atoi's spellings (+5, -0, 007) denote the right number         *)
(*  scale : the b-bit machine sits inside the 64-bit one: v |-> v * 2^(64-b)      *)
(*          commutes with +, -, < and with wrap-around (b = 3, 4) - the reason    *)
(*          why ExprArrayWidth's small machines speak for the 64-bit loop         *)
(* One header state per law; its successors are the law's cases.                  *)
EXTENDS ExprWideInt, TLC

CONSTANT Thorough

VARIABLE c

Pairs(A, B) == {<<a, b>> : a \in A, b \in B}
Triples(A, B, C) == {<<a, b, d>> : a \in A, b \in B, d \in C}

SmallInts == ((0 - (IF Thorough THEN 120 ELSE 30))..(IF Thorough THEN 120 ELSE 30)) \cup {s * v : s \in {0 - 1, 1},
                 v \in {199, 200, 999, 1000, 1001, 9999, 10000, 65535, 65536, 99999, 100000, 999999, 1000001,
                        9999999, 10000000, 49999999, 50000000, 99999999, 100000000}}

P(k) == WPow2(k)
P64 == WTwo64
Near(x) == {WSub(x, WOne), x, WAdd(x, WOne)}
WidePos == UNION {Near(P(k)) : k \in {1, 31, 32, 62, 63, 64}}
           \cup {WOf(<<49>> \o WnZeros(19)), WOf([i \in 1..19 |-> 57]), WOf(<<53>> \o WnZeros(18)),
                 WOfInt(10), WOfInt(9), WOfInt(123456789), WAdd(P(62), P(61))}
Wides == WidePos \cup {WNeg(x) : x \in WidePos} \cup {WZero}
Few == {WZero, WMin64, WMax64, WNeg(P(64))}

S61 == W(FALSE, <<50, 51, 48, 53, 56, 52, 51, 48, 48, 57, 50, 49, 51, 54, 57, 51, 57, 53, 50>>)      \* 2^61
S60 == W(FALSE, <<49, 49, 53, 50, 57, 50, 49, 53, 48, 52, 54, 48, 54, 56, 52, 54, 57, 55, 54>>)      \* 2^60
ASSUME S61 = WPow2(61) /\ S60 = WPow2(60)
SmallWrap(x, b) == LET h == 2 ^ (b - 1) IN ((x + h) % (2 * h)) - h

Laws == {"small", "ring", "wrap", "wrapb", "wrap32", "text", "mul", "scale"}

Cases(law) ==
  CASE law = "small" -> Pairs(SmallInts, SmallInts)
    [] law = "ring" -> Triples(Wides, Wides, IF Thorough THEN Wides ELSE Few)
    [] law = "wrap" -> Triples({x \in Wides : WFits64(x)}, {x \in Wides : WFits64(x)}, {64})
    [] law = "wrapb" -> Pairs(Few \ {WNeg(P(64))}, Few \ {WNeg(P(64))})
    [] law = "wrap32" -> Pairs({0 - 1073741824, 0 - 1073741823, 0 - 5, 0 - 1, 0, 1, 7, 1073741823},
                               {0 - 1073741824, 0 - 1073741823, 0 - 3, 0, 1, 2, 1073741823})
    [] law = "text" -> {<<43, 53>>, <<45, 48>>, <<48, 48, 55>>, <<45, 48, 48, 55>>, <<43, 48>>, <<48>>, <<45, 49>>,
                        <<45, 57, 50, 50, 51, 51, 55, 50, 48, 51, 54, 56, 53, 52, 55, 55, 53, 56, 48, 56>>,
                        <<48, 48, 48, 48, 48, 48, 48, 48, 48, 48, 48, 48, 48, 48, 48, 48, 48, 48, 48, 48, 48, 49>>}
    [] law = "mul" -> Pairs(Wides, (0 - 9)..9)
    [] law = "scale" -> Triples((0 - 4)..3, (0 - 4)..3, {3}) \cup Triples((0 - 8)..7, (0 - 8)..7, {4})

RECURSIVE RepAdd(_, _)
RepAdd(x, k) == IF k = 0 THEN WZero ELSE WAdd(RepAdd(x, k - 1), x)

LawOK(law, x) ==
  CASE law = "small" ->
         LET a == x[1]  b == x[2]  A == WOfInt(a)  B == WOfInt(b) IN
         /\ WAdd(A, B) = WOfInt(a + b)
         /\ WSub(A, B) = WOfInt(a - b)
         /\ WLess(A, B) = (a < b) /\ WLeq(A, B) = (a <= b)
         /\ WText(A) = Itoa(a) /\ WOf(Itoa(a)) = A /\ WToInt(A) = a /\ WIsSmall(A)
         /\ WSign(A) = (IF a < 0 THEN 0 - 1 ELSE IF a = 0 THEN 0 ELSE 1)
         /\ WClampInt(A, 0 - 50, 60) = (IF a < 0 - 50 THEN 0 - 50 ELSE IF a > 60 THEN 60 ELSE a)
    [] law = "ring" ->
         LET p == x[1]  q == x[2]  r == x[3] IN
         /\ WIsWide(WAdd(p, q)) /\ WIsWide(WSub(p, q))
         /\ WAdd(p, q) = WAdd(q, p)
         /\ WAdd(WAdd(p, q), r) = WAdd(p, WAdd(q, r))
         /\ WSub(WAdd(p, q), q) = p /\ WAdd(WSub(p, q), q) = p
         /\ WSub(p, p) = WZero /\ WAdd(p, WZero) = p /\ WNeg(WNeg(p)) = p
         /\ WLess(p, q) = (WSign(WSub(q, p)) = 1)
         /\ (WLess(p, q) \/ WLess(q, p) \/ p = q) /\ ~(WLess(p, q) /\ WLess(q, p)) /\ ~WLess(p, p)
         /\ (WLess(p, q) /\ WLess(q, r) => WLess(p, r))
         /\ (WLess(p, q) = WLess(WAdd(p, r), WAdd(q, r)))
         /\ WOf(WText(p)) = p /\ WIsIntText(WText(p))
         /\ (WIsSmall(p) => WOfInt(WToInt(p)) = p)
    [] law = "wrap" ->
         LET p == x[1]  q == x[2]  b == x[3]
             s == WAdd(p, q)  d == WSub(p, q)
             ok(e, w) == /\ WFits64(w)
                         /\ WSub(e, w) \in {WZero, P64, WNeg(P64)}
                         /\ (WFits64(e) <=> w = e)
         IN /\ ok(s, WWrap64(s)) /\ ok(d, WWrap64(d))
    [] law = "wrapb" ->
         \* the 64-bit constants are the b-bit definitions at b = 64
         LET s == WAdd(x[1], x[2]) IN WWrap(s, 64) = WWrap64(s) /\ WFitsBits(s, 64) = WFits64(s)
    [] law = "wrap32" ->
         \* (31-bit operands: the exact sum is a TLC integer) a 31-bit register wraps the way WWrap says
         LET a == x[1]  b == x[2]  s == a + b
             w == IF s > 1073741823 THEN s - 2147483647 - 1 ELSE IF s < 0 - 1073741824 THEN s + 2147483647 + 1 ELSE s
         IN WWrap(WAdd(WOfInt(a), WOfInt(b)), 31) = WOfInt(w)
    [] law = "text" ->
         /\ WIsIntText(x) /\ WIsWide(WOf(x))
         /\ (Len(WnNorm(WDigitsOf(x))) <= 9 => WOf(x) = WOfInt(ParseIntVal(x)))
         /\ WOf(WText(WOf(x))) = WOf(x)
         /\ (x = <<45, 48>> => WText(WOf(x)) = <<48>>)
    [] law = "mul" ->
         LET p == x[1]  k == x[2] IN
         WMulInt(p, k) = (IF k < 0 THEN WNeg(RepAdd(p, 0 - k)) ELSE RepAdd(p, k))
    [] law = "scale" ->
         LET a == x[1]  b == x[2]  bits == x[3]
             unit == IF bits = 3 THEN S61 ELSE S60
             Sc(v) == WMulInt(unit, v)
         IN /\ WFits64(Sc(a)) /\ WFits64(Sc(b))
            /\ WWrap64(WAdd(Sc(a), Sc(b))) = Sc(SmallWrap(a + b, bits))
            /\ WWrap64(WSub(Sc(a), Sc(b))) = Sc(SmallWrap(a - b, bits))
            /\ WLess(Sc(a), Sc(b)) = (a < b)
            /\ (WFits64(WAdd(Sc(a), Sc(b))) <=> SmallWrap(a + b, bits) = a + b)

Init == c \in {[hdr |-> TRUE, law |-> w, x |-> 0] : w \in Laws}
Next == /\ c.hdr
        /\ \E x \in Cases(c.law) : c' = [hdr |-> FALSE, law |-> c.law, x |-> x]
LawHolds == c.hdr \/ LawOK(c.law, c.x)
=============================================================================

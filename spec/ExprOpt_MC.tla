----------------------------- MODULE ExprOpt_MC -----------------------------
(* B3 for C10: the optimisation laws, decided by TLC on the model.               *)
(* Universe: all call trees of depth <= 2 (one nested argument at depth 2) over  *)
(* the modelled helpers (typed-integer, strict, lazy, compile-time-argument,      *)
(* volatile `time now/live/delta`, six funcs-file functions) with constant,      *)
(* dynamic and mixed arguments, plus all stage sequences of length <= 3 over a    *)
(* mixed set of stages; all contexts over {"", "0", "7", "a"} (quick: the key      *)
(* over {"", "a"}; always including the                                           *)
(* all-empty context the optimiser probes with); compile clock 100, evaluation    *)
(* clocks 100 and 103.                                                            *)
(* One header state per group, its successors are the group's trees (different    *)
(* workers expand different groups); the invariant LawOK is evaluated on every    *)
(* tree.  WithBad = TRUE adds the helper `badlive`, which looks at its data       *)
(* before it touches the context: TLC must then find a counter-example            *)
(* (negative control); so must Fixed = FALSE (a sub-context that swallows the     *)
(* context touch).                                                                *)
EXTENDS ExprOpt

CONSTANTS Thorough, WithBad

VARIABLE c       \* [hdr, g, t]  t: a template

E  == <<>>
B0 == <<48>>
B7 == <<55>>
Ba == <<97>>
Kk == <<107>>
Vals == {E, B0, B7, Ba}

L(v) == T1(Lit(v))
LiveT  == T1(Call("time", <<L(KwLive)>>))
DeltaT == T1(Call("time", <<L(KwDelta)>>))
NowT   == T1(Call("time", <<L(KwNow)>>))

\* funcs-file definitions used by the model universe
Defs == <<
  [name |-> "u1", body |-> T1(Call("sumi", <<T1(Grp(0)), T1(Grp(1))>>))],
  [name |-> "u2", body |-> <<Key(Kk), Lit(<<45>>), Call("if", <<T1(Grp(0)), T1(Grp(1)), T1(Grp(2))>>)>>],
  [name |-> "u3", body |-> <<Call("time", <<L(KwLive)>>), Lit(<<58>>), Grp(0)>>],
  [name |-> "u4", body |-> T1(Call("u1", <<T1(Grp(1)), T1(Call("u1", <<T1(Grp(0)), L(B7)>>))>>))],
  [name |-> "u5", body |-> <<Call("coalesce", <<T1(Grp(1)), T1(Key(Kk)), L(<<122>>)>>), Call("time", <<L(KwDelta)>>)>>],
  \* a later definition calling earlier ones: arguments swapped, a quoted literal with two blanks, key pass-through two levels down
  [name |-> "u6", body |-> <<Call("u2", <<T1(Grp(1)), L(<<113, 32, 32, 114>>), T1(Grp(0))>>), Lit(<<46>>), Call("u5", <<L(E), T1(Grp(0))>>)>>]
>>

\* argument templates: constants, dynamic values, one mixed literal+group argument
AtomsFull == {L(E), L(B0), L(B7), L(Ba), T1(Grp(0)), T1(Grp(1)), T1(Key(Kk)), <<Lit(Ba), Grp(0)>>}
AtomsIn   == {L(E), L(B7), T1(Grp(0)), T1(Key(Kk))}
AtomsOut  == {L(E), L(B7), L(Ba), T1(Grp(1))}

H1 == {"not", "len", "upper", "isint"} \cup (IF WithBad THEN {"badlive"} ELSE {})
H2 == {"eq", "sumi", "multi", "divi", "unless", "coalesce", "and", "or", "bucket", "tab", "if", "switch"}
H3 == {"if", "clamp", "switch", "sumi", "coalesce"}
U1 == {"u3"}
U2 == {"u1", "u2", "u4", "u5", "u6"}
U3 == {"u2"}

C1(F, A) == {T1(Call(f, <<a>>)) : f \in F, a \in A}
C2(F, A, B) == {T1(Call(f, <<a, b>>)) : f \in F, a \in A, b \in B}
C3(F, A, B, D) == {T1(Call(f, <<a, b, d>>)) : f \in F, a \in A, b \in B, d \in D}

Vol == {LiveT, DeltaT, NowT}
\* inner trees of the depth-2 universe
Inner == C1(H1 \cup U1, AtomsIn) \cup C2(H2 \cup U2, AtomsIn, AtomsIn)
         \cup C3({"if", "clamp"} \cup U3, AtomsIn, {L(B0), T1(Grp(0))}, {L(B7), T1(Key(Kk))}) \cup Vol

\* stages for the sequence universe (merging of adjacent constants)
StageSet == {Lit(<<120>>), Lit(<<32>>), Grp(0), Key(Kk),
             Call("sumi", <<L(<<49>>), L(<<50>>)>>),                 \* constant call
             Call("upper", <<T1(Grp(1))>>),                          \* dynamic call
             Call("if", <<L(E), T1(Grp(0)), L(<<98>>)>>),            \* dynamic syntax, constant for the probe
             Call("time", <<L(KwLive)>>), Call("time", <<L(KwNow)>>),
             Call("u3", <<L(Ba)>>)}

Other2 == IF Thorough THEN AtomsOut \cup {T1(Key(Kk))} ELSE {L(B7), T1(Grp(1))}
Outer2 == IF Thorough THEN H2 \cup U2 ELSE {"sumi", "if", "coalesce", "bucket", "u1", "u2"}
Groups == {<<"d1", f>> : f \in H1 \cup H2 \cup H3 \cup U1 \cup U2 \cup U3} \cup {<<"vol", "">>, <<"seq", "">>}
          \cup {<<"d2a", f>> : f \in H1 \cup U1} \cup {<<"d2b", f>> : f \in Outer2} \cup {<<"d2c", f>> : f \in Outer2}
          \cup {<<"d2u", f>> : f \in {"u2", "u4", "u6"}}

Trees(g) ==
  LET f == g[2] IN
  CASE g[1] = "d1" ->
         (IF f \in H1 \cup U1 THEN C1({f}, AtomsFull) ELSE {})
         \cup (IF f \in H2 \cup U2 THEN C2({f}, AtomsFull, AtomsFull) ELSE {})
         \cup (IF f \in H3 \cup U3 THEN C3({f}, AtomsFull, IF Thorough THEN AtomsFull ELSE AtomsOut \cup {T1(Grp(0))}, AtomsFull) ELSE {})
    [] g[1] = "vol" -> Vol \cup {<<Lit(<<120>>)>> \o v \o <<Lit(<<121>>)>> : v \in Vol}
    [] g[1] = "seq" -> {<<a, b>> : a, b \in StageSet} \cup {<<a, b, d>> : a, b, d \in StageSet}
    [] g[1] = "d2a" -> C1({f}, Inner)
    [] g[1] = "d2b" -> C2({f}, Inner, Other2)
    [] g[1] = "d2c" -> C2({f}, Other2, Inner)
    \* a funcs-file function whose argument is a call of the same function: the call sites inside its body are
    \* entered again while they are active
    [] g[1] = "d2u" -> {T1(Call(f, <<a, T1(Call(f, <<b, d>>))>>)) : a, b \in {L(B7), T1(Grp(0)), T1(Key(Kk))}, d \in {L(B0), T1(Grp(1)), L(E)}}
                       \cup {T1(Call(f, <<T1(Call(f, <<b, d>>)), a>>)) : a, b \in {L(B7), T1(Grp(0)), T1(Key(Kk))}, d \in {L(B0), T1(Grp(1)), L(E)}}

\* contexts: every assignment of the two groups and the key over Vals (depth 1, sequences);
\* depth 2: both groups over Vals, the key over two values
Ctx(g0, g1, k) == Base(<<g0, g1>>, <<<<Kk, k>>>>)
CtxAll == {Ctx(g0, g1, k) : g0, g1 \in Vals, k \in (IF Thorough THEN Vals ELSE {E, Ba})} \cup {EmptyBase}
CtxD2  == {Ctx(g0, g1, k) : g0 \in Vals, g1 \in {E, B7}, k \in (IF Thorough THEN Vals ELSE {E, Ba})} \cup {EmptyBase}
CtxOf(g) == IF g[1] \in {"d2a", "d2b", "d2c", "d2u"} THEN CtxD2 ELSE CtxAll

\* ---------------------------------------------------------------- the laws
K0 == 100                                      \* compile clock
RECURSIVE UsesClockT(_)
UsesClockN(nd) == nd.t = "call" /\ (nd.f \in {"time", "badlive", "u3", "u5", "u6"} \/ \E i \in 1..Len(nd.args) : UsesClockT(nd.args[i]))
UsesClockT(t) == \E i \in 1..Len(t) : UsesClockN(t[i])
Evals(t) == IF UsesClockT(t) THEN {100, 103} ELSE {103}      \* evaluation clocks
CDefs == CompDefs(Defs, K0, <<>>)              \* the loaded (compiled) definitions
IsUdfCallIn(t, defs) == Len(t) = 1 /\ t[1].t = "call" /\ DefIdx(t[1].f, defs) > 0
IsUdfCall(t) == IsUdfCallIn(t, Defs)

\* L1  optimisation never changes the value (and volatile values follow the clock)
\* L2  both refine the documented (abstract) value; a funcs-file call is substitution
\* L3  probe soundness: a stage the probe found constant has that value in every context
\* L4  explicit inlining: a call of a funcs-file function runs like the substituted body
LawsOn(t, ctxs) ==
  LET ctO == CompT(t, TRUE, K0, CDefs)
      ctN == CompT(t, FALSE, K0, CDefs)
      p   == ProbeT(ctN, K0)
      sub == IF IsUdfCall(t) THEN CompT(SubstT(Defs[DefIdx(t[1].f, Defs)].body, t[1].args), TRUE, K0, CDefs) ELSE <<>>
  IN \A ctx \in ctxs, e \in Evals(t) :
       LET vO == ExecT(ctO, ctx, e).v
           vN == ExecT(ctN, ctx, e).v
       IN /\ vO = vN                                                        \* L1
          /\ AbsOK(ValT(t, ctx, ClkAt(K0, e), Defs), vO)             \* L2
          /\ (p.n = 0 => vN = p.v)                                          \* L3
          /\ (IsUdfCall(t) => ExecT(sub, ctx, e).v = vO)                    \* L4

LawOK == IF c.hdr THEN WellScoped(Defs) ELSE LawsOn(c.t, CtxOf(c.g))

\* L5  a volatile stage is never folded: the optimised form of a tree that reaches the clock
\*     still changes with the clock (checked on the volatile group)
LawVolatile ==
  (~c.hdr /\ c.g[1] = "vol" /\ c.t \notin {NowT, <<Lit(<<120>>)>> \o NowT \o <<Lit(<<121>>)>>}) =>
     LET ct == CompT(c.t, TRUE, K0, CDefs) IN ExecT(ct, EmptyBase, 100).v # ExecT(ct, EmptyBase, 103).v

\* how many (tree, context, clock) cases demand something of the value (for the evidence)
Demanding == c.hdr \/ \E ctx \in CtxOf(c.g) : Demands(ValT(c.t, ctx, ClkAt(K0, 103), Defs))

Init == c \in {[hdr |-> TRUE, g |-> g, t |-> <<>>] : g \in Groups}
\* the groups in which the negative controls (WithBad = TRUE, Fixed = FALSE) must fail
InitNeg == c \in {[hdr |-> TRUE, g |-> g, t |-> <<>>] : g \in {gg \in Groups : gg[1] = "d1" /\ gg[2] \in {"badlive", "u3", "u5"}}}
Next == c.hdr /\ \E t \in Trees(c.g) : c' = [hdr |-> FALSE, g |-> c.g, t |-> t]
=============================================================================

----------------------------- MODULE ExprOpt_MC -----------------------------
(* B3 for C10: the optimisation laws, decided by TLC on the model.               *)
(* Universe: all call trees of depth <= 2 (one nested argument at depth 2) over  *)
(* the modelled helpers (typed-integer, strict, lazy, compile-time-argument,      *)
(* volatile `time now/live/delta`, six funcs-file functions) with constant,      *)
(* dynamic and mixed arguments, plus all stage sequences of length <= 3 over a    *)
(* mixed set of stages; all contexts over {"", "0", "7", "a"} (quick: the key      *)
(* over {"", "a"}; always including the                                           *)
(* all-empty context the optimiser probes with); compile clock 100, evaluation    *)
(* clocks 100 and 103.                                                            *)
(* One header state per group, its successors are the group's trees (different    *)
(* workers expand different groups); the invariant LawOK is evaluated on every    *)
(* tree.  WithBad = TRUE adds the helper `badlive`, which looks at its data       *)
(* before it touches the context: TLC must then find a counter-example            *)
(* (negative control); so must Fixed = FALSE (a sub-context that swallows the     *)
(* context touch).                                                                *)
(* ESCAPES.  Every law is stated on the TEXT of the tree (TextS(t, style), read back by the    *)
(* model of Compile: escape scanner + argument splitter + recursive Compile).  The groups       *)
(* "e0" "e1" "e2" "eu" put literals holding LF, TAB, backslash, braces, quotes and blanks at the *)
(* top level (templates with and without statements), into arguments (quoted and unquoted), two  *)
(* levels deep, into funcs-file bodies and into arguments of funcs-file calls, each in every     *)
(* writing style (18: quoting x where the control characters are resolved x needless escapes).   *)
(* SkipUnesc = "opt" / "noopt" (a template without `{` taken as a literal as it stands by one    *)
(* of the two compilers) must be refuted.                                                         *)
EXTENDS ExprOpt

CONSTANTS Thorough, WithBad

VARIABLE c       \* [hdr, g, t, sty]  t: a template, sty: the style its text is written in

E  == <<>>
B0 == <<48>>
B7 == <<55>>
Ba == <<97>>
Kk == <<107>>
Vals == {E, B0, B7, Ba}

L(v) == T1(Lit(v))
LiveT  == T1(Call("time", <<L(KwLive)>>))
DeltaT == T1(Call("time", <<L(KwDelta)>>))
NowT   == T1(Call("time", <<L(KwNow)>>))

\* funcs-file definitions used by the model universe
Defs == <<
  [name |-> "u1", body |-> T1(Call("sumi", <<T1(Grp(0)), T1(Grp(1))>>))],
  [name |-> "u2", body |-> <<Key(Kk), Lit(<<45>>), Call("if", <<T1(Grp(0)), T1(Grp(1)), T1(Grp(2))>>)>>],
  [name |-> "u3", body |-> <<Call("time", <<L(KwLive)>>), Lit(<<58>>), Grp(0)>>],
  [name |-> "u4", body |-> T1(Call("u1", <<T1(Grp(1)), T1(Call("u1", <<T1(Grp(0)), L(B7)>>))>>))],
  [name |-> "u5", body |-> <<Call("coalesce", <<T1(Grp(1)), T1(Key(Kk)), L(<<122>>)>>), Call("time", <<L(KwDelta)>>)>>],
  \* a later definition calling earlier ones: arguments swapped, a quoted literal with two blanks, key pass-through two levels down
  [name |-> "u6", body |-> <<Call("u2", <<T1(Grp(1)), L(<<113, 32, 32, 114>>), T1(Grp(0))>>), Lit(<<46>>), Call("u5", <<L(E), T1(Grp(0))>>)>>],
  \* bodies with escapes: {0}\t{1} | <{coalesce {0} "<TAB>\"}\{>\n (an escape inside an argument, a brace and a line feed as
  \* literals) | a body without any statement: a\tb\\:
  [name |-> "u7", body |-> <<Grp(0), Lit(<<9>>), Grp(1)>>],
  [name |-> "u8", body |-> <<Lit(<<60>>), Call("coalesce", <<T1(Grp(0)), L(<<9, 92>>)>>), Lit(<<123, 62, 10>>)>>],
  [name |-> "u9", body |-> <<Lit(<<97, 9, 98, 92, 58>>)>>]
>>
\* the definitions as the funcs file holds them: name and body TEXT
DefTxt == [i \in 1..Len(Defs) |-> [name |-> Defs[i].name, body |-> TextT(Defs[i].body)]]

\* argument templates: constants, dynamic values, one mixed literal+group argument
AtomsFull == {L(E), L(B0), L(B7), L(Ba), T1(Grp(0)), T1(Grp(1)), T1(Key(Kk)), <<Lit(Ba), Grp(0)>>}
AtomsIn   == {L(E), L(B7), T1(Grp(0)), T1(Key(Kk))}
AtomsOut  == {L(E), L(B7), L(Ba), T1(Grp(1))}

H1 == {"not", "len", "upper", "isint"} \cup (IF WithBad THEN {"badlive"} ELSE {})
H2 == {"eq", "sumi", "multi", "divi", "unless", "coalesce", "and", "or", "bucket", "tab", "if", "switch"}
H3 == {"if", "clamp", "switch", "sumi", "coalesce"}
U1 == {"u3"}
U2 == {"u1", "u2", "u4", "u5", "u6"}
U3 == {"u2"}

C1(F, A) == {T1(Call(f, <<a>>)) : f \in F, a \in A}
C2(F, A, B) == {T1(Call(f, <<a, b>>)) : f \in F, a \in A, b \in B}
C3(F, A, B, D) == {T1(Call(f, <<a, b, d>>)) : f \in F, a \in A, b \in B, d \in D}

Vol == {LiveT, DeltaT, NowT}
\* inner trees of the depth-2 universe
Inner == C1(H1 \cup U1, AtomsIn) \cup C2(H2 \cup U2, AtomsIn, AtomsIn)
         \cup C3({"if", "clamp"} \cup U3, AtomsIn, {L(B0), T1(Grp(0))}, {L(B7), T1(Key(Kk))}) \cup Vol

\* stages for the sequence universe (merging of adjacent constants)
StageSet == {Lit(<<120>>), Lit(<<32>>), Grp(0), Key(Kk),
             Call("sumi", <<L(<<49>>), L(<<50>>)>>),                 \* constant call
             Call("upper", <<T1(Grp(1))>>),                          \* dynamic call
             Call("if", <<L(E), T1(Grp(0)), L(<<98>>)>>),            \* dynamic syntax, constant for the probe
             Call("time", <<L(KwLive)>>), Call("time", <<L(KwNow)>>),
             Call("u3", <<L(Ba)>>)}

\* ---------------------------------------------------------------- the escape universe
\* literals: a<TAB>b | LF | \ | \n (two characters) | {0} (five characters) | a"b | t:<LF> | } { | <TAB>\
EscLits == {<<97, 9, 98>>, <<10>>, <<92>>, <<92, 110>>, <<123, 48, 125>>, <<97, 34, 98>>, <<116, 58, 10>>, <<125, 32, 123>>, <<9, 92>>}
EscFew  == {<<97, 9, 98>>, <<92, 110>>, <<123, 48, 125>>, <<116, 58, 10>>}
EL1 == IF Thorough THEN EscLits ELSE EscFew
ELit(Q) == {L(e) : e \in Q}
EscTop == {<<Lit(e)>> : e \in EscLits}                                                  \* no statement at all
          \cup {<<Lit(e), Grp(0)>> : e \in EscLits} \cup {<<Grp(1), Lit(e)>> : e \in EscLits}
          \cup {<<Lit(e), Call("sumi", <<L(<<49>>), L(<<50>>)>>), Lit(e)>> : e \in EscLits}
          \cup {<<Key(Kk), Lit(e), Call("upper", <<T1(Grp(1))>>), Lit(<<92>>)>> : e \in EscLits}
          \cup {<<Lit(e)>> \o LiveT \o <<Lit(e)>> : e \in EscFew}
EscArg1 == ELit(EL1) \cup {<<Lit(e), Grp(0)>> : e \in (IF Thorough THEN EscFew ELSE {<<97, 9, 98>>})}
           \cup (IF Thorough THEN {<<Grp(0), Lit(e)>> : e \in EscFew} ELSE {})
EscD1 == C1({"upper", "len", "not", "u3", "u9"}, EscArg1)
         \cup C2({"eq", "coalesce", "if", "tab", "u7", "u8"}, EscArg1, {L(Ba), T1(Grp(0))})
         \cup C2({"eq", "coalesce", "unless", "u7", "u1"}, IF Thorough THEN {L(Ba), T1(Grp(0)), L(E)} ELSE {T1(Grp(0)), L(E)}, EscArg1)
         \cup C2(IF Thorough THEN {"eq", "tab", "u7"} ELSE {"eq", "u7"}, ELit(EscFew), ELit(EscFew))
         \cup C3(IF Thorough THEN {"if", "switch", "u2"} ELSE {"if", "u2"}, {T1(Grp(0))}, ELit(EscFew), ELit(EscFew))
EscIn == C1({"upper", "u3"}, ELit(EL1)) \cup C2({"coalesce", "u7"}, {T1(Grp(0))}, ELit(EL1))
         \cup C2({"if", "u7"}, ELit(EscFew), IF Thorough THEN {T1(Grp(1)), L(Ba)} ELSE {T1(Grp(1))})
EscD2 == C1(IF Thorough THEN {"lower", "len", "u3", "u8"} ELSE {"lower", "u8"}, EscIn)
         \cup C2(IF Thorough THEN {"coalesce", "tab", "u7"} ELSE {"coalesce", "u7"}, EscIn, {T1(Grp(1))})
         \cup C2(IF Thorough THEN {"eq", "u7"} ELSE {"u7"}, IF Thorough THEN {L(B7), T1(Grp(0))} ELSE {T1(Grp(0))}, EscIn)
\* funcs-file functions with escapes in their bodies, all argument shapes; a definition calling one of them
EscU == C2({"u7", "u8"}, AtomsFull, AtomsOut) \cup C1({"u8", "u9"}, AtomsFull)
        \cup {T1(Call("u7", <<T1(Call("u7", <<a, b>>)), T1(Call("u9", <<a>>))>>)) : a \in {L(Ba), T1(Grp(0))}, b \in {T1(Key(Kk)), L(<<9>>)}}
EscKinds == {"e0", "e1", "e2", "eu"}
HeadsOf(T) == {t[1].f : t \in T}
\* one group per head function (a group is expanded by one worker)
EscGroups == {<<"e0", "">>} \cup {<<"e1", f>> : f \in HeadsOf(EscD1)} \cup {<<"e2", f>> : f \in HeadsOf(EscD2)}
             \cup {<<"eu", f>> : f \in HeadsOf(EscU)}
EscStyles(k) == IF k = "e0" \/ (Thorough /\ k = "eu") THEN Styles
                ELSE IF Thorough THEN {Sty(q, ctl, q = "always") : q \in {"auto", "always", "never"}, ctl \in {"deep", "raw", "top"}}
                ELSE IF k = "e1" THEN {DefSty, Sty("always", "top", TRUE), Sty("never", "raw", FALSE), Sty("never", "deep", TRUE)}
                ELSE {DefSty, Sty("always", "top", TRUE), Sty("never", "raw", FALSE)}

Other2 == IF Thorough THEN AtomsOut \cup {T1(Key(Kk))} ELSE {L(B7), T1(Grp(1))}
Outer2 == IF Thorough THEN H2 \cup U2 ELSE {"sumi", "if", "coalesce", "bucket", "u1", "u2"}
Groups == {<<"d1", f>> : f \in H1 \cup H2 \cup H3 \cup U1 \cup U2 \cup U3} \cup {<<"vol", "">>, <<"seq", "">>}
          \cup {<<"d2a", f>> : f \in H1 \cup U1} \cup {<<"d2b", f>> : f \in Outer2} \cup {<<"d2c", f>> : f \in Outer2}
          \cup {<<"d2u", f>> : f \in {"u2", "u4", "u6"}} \cup EscGroups

Trees(g) ==
  LET f == g[2] IN
  CASE g[1] = "d1" ->
         (IF f \in H1 \cup U1 THEN C1({f}, AtomsFull) ELSE {})
         \cup (IF f \in H2 \cup U2 THEN C2({f}, AtomsFull, AtomsFull) ELSE {})
         \cup (IF f \in H3 \cup U3 THEN C3({f}, AtomsFull, IF Thorough THEN AtomsFull ELSE AtomsOut \cup {T1(Grp(0))}, AtomsFull) ELSE {})
    [] g[1] = "vol" -> Vol \cup {<<Lit(<<120>>)>> \o v \o <<Lit(<<121>>)>> : v \in Vol}
    [] g[1] = "seq" -> {<<a, b>> : a, b \in StageSet} \cup {<<a, b, d>> : a, b, d \in StageSet}
    [] g[1] = "e0" -> EscTop
    [] g[1] = "e1" -> {t \in EscD1 : t[1].f = f}
    [] g[1] = "e2" -> {t \in EscD2 : t[1].f = f}
    [] g[1] = "eu" -> {t \in EscU : t[1].f = f}
    [] g[1] = "d2a" -> C1({f}, Inner)
    [] g[1] = "d2b" -> C2({f}, Inner, Other2)
    [] g[1] = "d2c" -> C2({f}, Other2, Inner)
    \* a funcs-file function whose argument is a call of the same function: the call sites inside its body are
    \* entered again while they are active
    [] g[1] = "d2u" -> {T1(Call(f, <<a, T1(Call(f, <<b, d>>))>>)) : a, b \in {L(B7), T1(Grp(0)), T1(Key(Kk))}, d \in {L(B0), T1(Grp(1)), L(E)}}
                       \cup {T1(Call(f, <<T1(Call(f, <<b, d>>)), a>>)) : a, b \in {L(B7), T1(Grp(0)), T1(Key(Kk))}, d \in {L(B0), T1(Grp(1)), L(E)}}

\* contexts: every assignment of the two groups and the key over Vals (depth 1, sequences);
\* depth 2: both groups over Vals, the key over two values
Ctx(g0, g1, k) == Base(<<g0, g1>>, <<<<Kk, k>>>>)
CtxAll == {Ctx(g0, g1, k) : g0, g1 \in Vals, k \in (IF Thorough THEN Vals ELSE {E, Ba})} \cup {EmptyBase}
CtxD2  == {Ctx(g0, g1, k) : g0 \in Vals, g1 \in {E, B7}, k \in (IF Thorough THEN Vals ELSE {E, Ba})} \cup {EmptyBase}
CtxEsc == {Ctx(g0, g1, k) : g0 \in {E, B7, Ba}, g1 \in {E, B7}, k \in {E, Ba}} \cup {EmptyBase}
CtxOf(g) == IF g[1] \in {"d2a", "d2b", "d2c", "d2u"} THEN CtxD2 ELSE IF g[1] \in EscKinds THEN CtxEsc ELSE CtxAll
StylesOf(g) == IF g[1] \in EscKinds THEN EscStyles(g[1]) ELSE {DefSty}

\* ---------------------------------------------------------------- the laws
K0 == 100                                      \* compile clock
RECURSIVE UsesClockT(_)
UsesClockN(nd) == nd.t = "call" /\ (nd.f \in {"time", "badlive", "u3", "u5", "u6"} \/ \E i \in 1..Len(nd.args) : UsesClockT(nd.args[i]))
UsesClockT(t) == \E i \in 1..Len(t) : UsesClockN(t[i])
Evals(t) == IF UsesClockT(t) THEN {100, 103} ELSE {103}      \* evaluation clocks
CDefs == CompDefsTxt(DefTxt, K0, <<>>)         \* the loaded (compiled) definitions: from the body TEXTS
CDefsTree == CompDefs(Defs, K0, <<>>)          \* the same from the body trees (HdrOK: equal)
IsUdfCallIn(t, defs) == Len(t) = 1 /\ t[1].t = "call" /\ DefIdx(t[1].f, defs) > 0
IsUdfCall(t) == IsUdfCallIn(t, Defs)
SubOf(t) == SubstT(Defs[DefIdx(t[1].f, Defs)].body, t[1].args)

\* L0  the text denotes the tree (the printer and the model of the scanners agree), also for C09's parse model
\* L1  optimisation never changes the value (and volatile values follow the clock)
\* L2  both refine the documented (abstract) value; a funcs-file call is substitution
\* L3  probe soundness: a stage the probe found constant has that value in every context
\* L4  explicit inlining: a call of a funcs-file function runs like the TEXT of the substituted body
\*     (demanded when that text denotes the substituted tree), compiled by either compiler
\* txt: the laws are stated on the text (always in the escape groups; in the thorough tier also for the depth-1,
\* sequence, volatile and re-entrant groups - the texts of the remaining groups hold no escapes, the generator
\* ExprOpt_Gen checks L0 for every vector it prints, and their trees are compiled directly)
LawsOn(t, sty, ctxs, txt) ==
  LET text == TextS(t, sty)
      rd  == IF txt THEN ReadT(text) ELSE t                                 \* the tree the text denotes
      cdefs == IF txt THEN CDefs ELSE CDefsTree
      ctO == CompT(IF txt /\ RawIn(TRUE) THEN ParseT(text, TRUE) ELSE rd, TRUE, K0, cdefs)
      ctN == CompT(IF txt /\ RawIn(FALSE) THEN ParseT(text, TRUE) ELSE rd, FALSE, K0, cdefs)
      p   == ProbeT(ctN, K0)
      udf == IsUdfCall(t)
      st  == IF udf THEN SubOf(t) ELSE <<>>
      stx == TextS(st, sty)
      srd == IF txt THEN ReadT(stx) ELSE st
      subOK == udf /\ (txt => NormT(srd, FALSE) = NormT(st, FALSE))
      subO == IF subOK THEN CompT(IF txt /\ RawIn(TRUE) THEN ParseT(stx, TRUE) ELSE srd, TRUE, K0, cdefs) ELSE <<>>
      subN == IF subOK /\ txt THEN CompT(IF RawIn(FALSE) THEN ParseT(stx, TRUE) ELSE srd, FALSE, K0, cdefs) ELSE <<>>
  IN /\ (txt => NormT(rd, FALSE) = NormT(t, FALSE) /\ AgreesWithSyntaxP(text, rd))    \* L0
     /\ \A ctx \in ctxs, e \in Evals(t) :
       LET vO == ExecT(ctO, ctx, e).v
           vN == ExecT(ctN, ctx, e).v
       IN /\ vO = vN                                                        \* L1
          /\ AbsOK(ValT(t, ctx, ClkAt(K0, e), Defs), vO)                    \* L2
          /\ (p.n = 0 => vN = p.v)                                          \* L3
          /\ (subOK => ExecT(subO, ctx, e).v = vO)                          \* L4
          /\ (subOK /\ txt => ExecT(subN, ctx, e).v = vO)

HdrOK == /\ WellScoped(Defs)
         /\ \A i \in 1..Len(Defs) : RoundTrip(Defs[i].body, DefSty)         \* every body text denotes its body
         /\ (SkipUnesc = "none" => CDefs = CDefsTree)
LawOK == IF c.hdr THEN HdrOK ELSE LawsOn(c.t, c.sty, CtxOf(c.g), c.g[1] \in EscKinds \/ (Thorough /\ c.g[1] \in {"d1", "seq", "vol", "d2u"}))

\* L5  a volatile stage is never folded: the optimised form of a tree that reaches the clock
\*     still changes with the clock (checked on the volatile group)
LawVolatile ==
  (~c.hdr /\ c.g[1] = "vol" /\ c.t \notin {NowT, <<Lit(<<120>>)>> \o NowT \o <<Lit(<<121>>)>>}) =>
     LET ct == CompTxt(TextT(c.t), TRUE, K0, CDefs) IN ExecT(ct, EmptyBase, 100).v # ExecT(ct, EmptyBase, 103).v

\* how many (tree, context, clock) cases demand something of the value (for the evidence)
Demanding == c.hdr \/ \E ctx \in CtxOf(c.g) : Demands(ValT(c.t, ctx, ClkAt(K0, 103), Defs))

Hdr(g) == [hdr |-> TRUE, g |-> g, t |-> <<>>, sty |-> DefSty]
Init == c \in {Hdr(g) : g \in Groups}
\* the groups in which the negative controls (WithBad = TRUE, Fixed = FALSE) must fail
InitNeg == c \in {Hdr(g) : g \in {gg \in Groups : gg[1] = "d1" /\ gg[2] \in {"badlive", "u3", "u5"}}}
\* the escape controls (SkipUnesc = "opt" / "noopt") must fail in each kind of escape group
InitG(ks) == c \in {Hdr(g) : g \in {gg \in Groups : gg[1] \in ks}}
InitEsc == InitG(EscKinds)
InitE0 == InitG({"e0"})
InitE1 == InitG({"e1"})
InitE2 == InitG({"e2"})
InitEU == InitG({"eu"})
Next == c.hdr /\ \E t \in Trees(c.g), sty \in StylesOf(c.g) : c' = [hdr |-> FALSE, g |-> c.g, t |-> t, sty |-> sty]
\* L1 alone (for the controls: optimised = unoptimised is what refutes a skipped unescape step)
LawL1 == c.hdr \/ LET text == TextS(c.t, c.sty)
                      ctO == CompTxt(text, TRUE, K0, CDefs)
                      ctN == CompTxt(text, FALSE, K0, CDefs)
                  IN \A ctx \in CtxOf(c.g) : ExecT(ctO, ctx, 103).v = ExecT(ctN, ctx, 103).v
=============================================================================

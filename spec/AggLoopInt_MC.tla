----------------------------- MODULE AggLoopInt_MC -----------------------------
(* Model-checking inputs for AggLoopInt (tuples cannot be written in a .cfg).  *)
EXTENDS AggLoopInt
InA == << << <<1, 0>>, <<2>> >>, << <<1, 2>> >> >>              \* 2 files: 2 + 1 batches
InB == << << <<1>>, <<0>>, <<1>> >> >>                          \* 1 file, a batch without matches
InD == << << <<1, 2>>, <<2, 1>> >>, << <<2>>, <<0, 1>> >> >>    \* 2 files x 2 batches
InF == << << <<1, 2>>, <<2>>, <<1, 1>> >> >>                    \* 1 file x 3 batches (prefix law)
=============================================================================

---------------------------- MODULE ExprProbe_Gen ----------------------------
(* B1 for the probe law of C10: TLC prints every scenario of ExprProbeScn.tla -   *)
(* the expression p whose compilation probes it, the witness w, the lines - with  *)
(* the value ExprArray!EvalT gives p and w on every line (a function of tree and  *)
(* line: no pool, no optimiser) and the exit path the probe drives p to.  The Go  *)
(* driver runs every scenario in two FRESH processes (optimising / plain          *)
(* compiler): compile p and w, evaluate them on the lines one goroutine after     *)
(* the other, then from several goroutines at once; every value must be the one   *)
(* printed here, in both processes.                                               *)
EXTENDS ExprProbeScn, Json

VARIABLE c

EncE(e) == IF e.k = "out" THEN [k |-> "out", v |-> e.v] ELSE [k |-> "any", v |-> <<>>]
ScnRec(i, j) ==
  LET s == Scenario(i, j) IN
  [kind |-> "probe", id |-> s.id, pi |-> i, wi |-> j, p |-> s.p, w |-> s.w,
   inf |-> HasExit(Shape(s.p), "inf"), zero |-> HasExit(Shape(s.p), "zero"), depth |-> ShDepth(Shape(s.w)),
   lines |-> [l \in 1..Len(Lines) |-> [m |-> Lines[l].m, ks |-> Lines[l].ks,
                                       ep |-> EncE(EvalT(s.p, Env(Lines[l].m, Lines[l].ks))),
                                       ew |-> EncE(EvalT(s.w, Env(Lines[l].m, Lines[l].ks)))]]]

GInit == c \in {<<0, 0>>} \cup ScnIds
GNext == FALSE /\ c' = c
Dump == c = <<0, 0>> \/ PrintT("VFJ " \o ToJson(ScnRec(c[1], c[2])))
=============================================================================

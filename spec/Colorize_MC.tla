----------------------------- MODULE Colorize_MC -----------------------------
(* C02 / B3 - the colouring theorems, decided by TLC for every string over        *)
(* Alphabet up to MaxLen and every vector of up to MaxPairs pairs with components  *)
(* in -1..Len(s) (absent, reversed, empty, overlapping, touching, nested groups).  *)
(* One state per string (tree: extend by one byte); the laws are invariants.       *)
EXTENDS Colorize, TLC

CONSTANTS Alphabet, MaxLen, MaxPairs
VARIABLE s
Init == s = <<>>
Next == Len(s) < MaxLen /\ \E a \in Alphabet : s' = Append(s, a)

Comp(n) == (0 - 1)..n
GroupVecs(n) == UNION {[1..(2 * k) -> Comp(n)] : k \in 0..MaxPairs}

\* colour codes removed = the input, byte for byte
StripLaw == \A g \in GroupVecs(Len(s)) : GroupsOK(s, g) /\ StripAnsi(WrapIndices(s, g)) = s
\* exactly the accepted groups are coloured; every colour-on is closed by a Reset
SpansLaw == \A g \in GroupVecs(Len(s)) : WrapOK(s, g, WrapIndices(s, g))
\* accepted spans are non-empty, inside s, ordered and disjoint
AcceptedLaw ==
  \A g \in GroupVecs(Len(s)) :
    LET a == Accepted(g) IN
    /\ \A i \in 1..Len(a) : 0 <= a[i][1] /\ a[i][1] < a[i][2] /\ a[i][2] <= Len(s)
    /\ \A i \in 1..(Len(a) - 1) : a[i][2] <= a[i + 1][1]
    \* a present, non-empty pair that starts at or after everything coloured before it is coloured
    /\ \A p \in 0..(NPairs(g) - 1) :
         (g[2 * p + 1] >= 0 /\ g[2 * p + 2] > g[2 * p + 1] /\
          \A q \in 0..(p - 1) : g[2 * q + 2] <= g[2 * p + 1])
         => \E i \in 1..Len(a) : a[i] = <<g[2 * p + 1], g[2 * p + 2]>>
\* an odd-length vector leaves the text alone
OddLaw == \A n \in {1, 3} : \A g \in [1..n -> Comp(Len(s))] : WrapIndices(s, g) = s
\* cmd/filter.go: the default row of a match, stripped, is the line
FilterLaw ==
  \A g \in GroupVecs(Len(s)) : \A e \in 0..Len(s) : \A b \in 0..e :
    StripAnsi(FilterRow(s, <<b, e>> \o g)) = s
PrefixLaw == \A no \in {1, 9, 10, 1024} :
  StripAnsi(LinePrefix(s, no, TRUE)) = LinePrefix(s, no, FALSE)
=============================================================================

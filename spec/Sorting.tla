------------------------------ MODULE Sorting ------------------------------
(* C13 - output ordering is a deterministic function of the aggregated data.    *)
(*                                                                              *)
(* A key is [name |-> byte sequence, value |-> integer].  This module defines   *)
(*  - the attributes of a key the sort modes talk about (decimal value,        *)
(*    weekday / month index, instant in five date layouts, raw bytes),         *)
(*    each with an explicit DOMAIN (kind "unk" = the specification says nothing *)
(*    about how the key is interpreted);                                        *)
(*  - per mode the SPECIFIED strict order on HOMOGENEOUS pools (SpecLess) -     *)
(*    numbers by magnitude, calendar position, chronological, totals - and, for *)
(*    every pool, only the order axioms (StrictTotal);                          *)
(*  - a reference comparator (ModelLess) showing the axioms are satisfiable on  *)
(*    mixed pools by a stateless comparator (class rank, then the specified     *)
(*    order, then the raw bytes);                                               *)
(*  - the sort name / modifier table of `--sort` (ParseSort).                   *)
(* The comparison sort driven by an arbitrary comparator is in SortingAlgo.tla. *)
EXTENDS Bytes, TLC

\* ------------------------------------------------------------------ raw bytes
RECURSIVE FirstDiff(_, _, _)
FirstDiff(a, b, i) ==
  IF i > Len(a) \/ i > Len(b) THEN 0 ELSE IF a[i] # b[i] THEN i ELSE FirstDiff(a, b, i + 1)
\* Go string `<` : bytewise lexicographic, a proper prefix is smaller
BytesLess(a, b) ==
  LET d == FirstDiff(a, b, 1) IN IF d = 0 THEN Len(a) < Len(b) ELSE a[d] < b[d]

IsASCII(s)  == \A i \in 1..Len(s) : s[i] < 128
HasDigit(s) == \E i \in 1..Len(s) : IsDigit(s[i])
OnlyDigits(s) == \A i \in 1..Len(s) : IsDigit(s[i])

\* ------------------------------------------------------------ decimal numbers
\* Grammar of a decimal floating point literal (strconv.ParseFloat, base 10):
\*    [+-] ( digits [ . [digits] ] | . digits ) [ (e|E) [+-] digits ]
IsSign(c) == c \in {43, 45}
Unsigned(s) == IF s # <<>> /\ IsSign(s[1]) THEN Tail(s) ELSE s
Negative(s) == s # <<>> /\ s[1] = 45
ExpPos(u) == LET S == {i \in 1..Len(u) : u[i] \in {69, 101}} IN IF S = {} THEN 0 ELSE MinOf(S)
MantPart(u) == IF ExpPos(u) = 0 THEN u ELSE SubSeq(u, 1, ExpPos(u) - 1)
ExpPart(u)  == IF ExpPos(u) = 0 THEN <<>> ELSE SubSeq(u, ExpPos(u) + 1, Len(u))
DotPos(m) == IndexByte(m, 46)
IntDigits(m)  == IF DotPos(m) = 0 THEN m ELSE SubSeq(m, 1, DotPos(m) - 1)
FracDigits(m) == IF DotPos(m) = 0 THEN <<>> ELSE SubSeq(m, DotPos(m) + 1, Len(m))
MantOK(m) == /\ OnlyDigits(IntDigits(m)) /\ OnlyDigits(FracDigits(m))
             /\ Len(IntDigits(m)) + Len(FracDigits(m)) >= 1
DecGrammar(s) ==
  LET u == Unsigned(s) IN
  /\ MantOK(MantPart(u))
  /\ (ExpPos(u) # 0 => AllDigits(Unsigned(ExpPart(u))))

RECURSIVE StripLeadZ(_)
StripLeadZ(d) == IF d # <<>> /\ d[1] = 48 THEN StripLeadZ(Tail(d)) ELSE d
RECURSIVE StripTrailZ(_)
StripTrailZ(d) == IF d # <<>> /\ d[Len(d)] = 48 THEN StripTrailZ(SubSeq(d, 1, Len(d) - 1)) ELSE d

\* Exact value of a decimal literal without big integers:
\*   value = (neg ? -1 : 1) * 0.sig * 10^top     (sig without leading/trailing zeros)
\* `z` = the value is zero.  Needs DecGrammar(s) and an exponent of at most 3 digits.
NumKey(s) ==
  LET u    == Unsigned(s)
      m    == MantPart(u)
      all  == StripLeadZ(IntDigits(m) \o FracDigits(m))
      sig  == StripTrailZ(all)
      ex   == IF ExpPos(u) = 0 THEN 0
              ELSE LET e == ExpPart(u) IN
                   IF Negative(e) THEN 0 - DigitsVal(Unsigned(e), 0) ELSE DigitsVal(Unsigned(e), 0)
  IN [z |-> sig = <<>>, neg |-> Negative(s), sig |-> sig,
      top |-> ex - Len(FracDigits(m)) + Len(all)]

\* Domain in which two literals with different values are certainly different float64s and
\* nothing overflows: at most 15 significant digits, exponent of at most 2 digits.
IsNum(s) ==
  /\ DecGrammar(s)
  /\ Len(Unsigned(ExpPart(Unsigned(s)))) <= 2
  /\ Len(NumKey(s).sig) <= 15

MagLess(x, y) == x.top < y.top \/ (x.top = y.top /\ BytesLess(x.sig, y.sig))
SignOf(x) == IF x.z THEN 0 ELSE IF x.neg THEN 0 - 1 ELSE 1
NumKeyLess(x, y) ==
  IF SignOf(x) # SignOf(y) THEN SignOf(x) < SignOf(y)
  ELSE IF SignOf(x) = 0 THEN FALSE
  ELSE IF SignOf(x) = 1 THEN MagLess(x, y) ELSE MagLess(y, x)
NumLess(a, b)  == NumKeyLess(NumKey(a), NumKey(b))        \* strictly smaller magnitude
NumEqual(a, b) == ~NumLess(a, b) /\ ~NumLess(b, a)

B_inf      == <<105, 110, 102>>
B_infinity == <<105, 110, 102, 105, 110, 105, 116, 121>>
B_nan      == <<110, 97, 110>>
\* certainly not a number for ParseFloat: not the decimal grammar, no hexadecimal prefix, not a
\* spelling of infinity / NaN, no underscore between two digits
\* (ParseFloat also accepts Go's digit separators: 1_0 is 10)
DigitSeparator(s) == \E i \in 2..(Len(s) - 1) : s[i] = 95 /\ IsDigit(s[i - 1]) /\ IsDigit(s[i + 1])
NotNum(s) ==
  LET u == LowerASCII(Unsigned(s)) IN
  /\ ~DecGrammar(s)
  /\ ~(Len(u) >= 2 /\ u[1] = 48 /\ u[2] = 120)
  /\ u \notin {B_inf, B_infinity, B_nan}
  /\ ~DigitSeparator(s)

\* -------------------------------------------------------- weekdays and months
WeekdayTab == <<
  <<<<115, 117, 110, 100, 97, 121>>, 0>>,                 \* sunday
  <<<<109, 111, 110, 100, 97, 121>>, 1>>,                 \* monday
  <<<<116, 117, 101, 115, 100, 97, 121>>, 2>>,            \* tuesday
  <<<<119, 101, 100, 110, 101, 115, 100, 97, 121>>, 3>>,  \* wednesday
  <<<<116, 104, 117, 114, 115, 100, 97, 121>>, 4>>,       \* thursday
  <<<<102, 114, 105, 100, 97, 121>>, 5>>,                 \* friday
  <<<<115, 97, 116, 117, 114, 100, 97, 121>>, 6>>,        \* saturday
  <<<<115, 117, 110>>, 0>>,                               \* sun
  <<<<109, 111, 110>>, 1>>,                               \* mon
  <<<<116, 117, 101>>, 2>>,                               \* tue
  <<<<116, 117, 101, 115>>, 2>>,                          \* tues
  <<<<119, 101, 100>>, 3>>,                               \* wed
  <<<<116, 104, 117>>, 4>>,                               \* thu
  <<<<116, 104, 117, 114>>, 4>>,                          \* thur
  <<<<116, 104, 117, 114, 115>>, 4>>,                     \* thurs
  <<<<102, 114, 105>>, 5>>,                               \* fri
  <<<<115, 97, 116>>, 6>>                                 \* sat
>>
MonthTab == <<
  <<<<106, 97, 110, 117, 97, 114, 121>>, 0>>,             \* january
  <<<<106, 97, 110>>, 0>>,                                \* jan
  <<<<102, 101, 98, 114, 117, 97, 114, 121>>, 1>>,        \* february
  <<<<102, 101, 98>>, 1>>,                                \* feb
  <<<<109, 97, 114, 99, 104>>, 2>>,                       \* march
  <<<<109, 97, 114>>, 2>>,                                \* mar
  <<<<97, 112, 114, 105, 108>>, 3>>,                      \* april
  <<<<97, 112, 114>>, 3>>,                                \* apr
  <<<<109, 97, 121>>, 4>>,                                \* may
  <<<<106, 117, 110, 101>>, 5>>,                          \* june
  <<<<106, 117, 110>>, 5>>,                               \* jun
  <<<<106, 117, 108, 121>>, 6>>,                          \* july
  <<<<106, 117, 108>>, 6>>,                               \* jul
  <<<<97, 117, 103, 117, 115, 116>>, 7>>,                 \* august
  <<<<97, 117, 103>>, 7>>,                                \* aug
  <<<<115, 101, 112, 116, 101, 109, 98, 101, 114>>, 8>>,  \* september
  <<<<115, 101, 112>>, 8>>,                               \* sep
  <<<<115, 101, 112, 116>>, 8>>,                          \* sept
  <<<<111, 99, 116, 111, 98, 101, 114>>, 9>>,             \* october
  <<<<111, 99, 116>>, 9>>,                                \* oct
  <<<<110, 111, 118, 101, 109, 98, 101, 114>>, 10>>,      \* november
  <<<<110, 111, 118>>, 10>>,                              \* nov
  <<<<100, 101, 99, 101, 109, 98, 101, 114>>, 11>>,       \* december
  <<<<100, 101, 99>>, 11>>                                \* dec
>>
\* calendar position of a name (any letter case), or -1
TabIdx(tab, s) ==
  LET l == LowerASCII(s)
      S == {i \in 1..Len(tab) : tab[i][1] = l}
  IN IF S = {} THEN 0 - 1 ELSE tab[CHOOSE i \in S : TRUE][2]
WeekdayIdx(s) == TabIdx(WeekdayTab, s)
MonthIdx(s)   == TabIdx(MonthTab, s)

\* ---------------------------------------------------------------------- dates
\* five layouts:  1 = YYYY-MM-DD   2 = YYYY-MM-DD hh:mm:ss   3 = MM/DD/YYYY      (no zone: UTC)
\*                4 = YYYY-MM-DDThh:mm:ss+hh:mm (RFC 3339, numeric offset)
\*                5 = YYYY-MM-DD hh:mm:ss +hhmm
\* A key of layout 4/5 denotes the INSTANT  civil time - offset: two keys of one layout may spell
\* the same instant differently (12:00+02:00 = 05:00-05:00 = 10:00+00:00 = 10:00-00:00).
DigAt(s, I) == \A i \in I : IsDigit(s[i])
D2(s, i) == (s[i] - 48) * 10 + (s[i + 1] - 48)
D4(s, i) == D2(s, i) * 100 + D2(s, i + 2)
Shape1(s) == Len(s) = 10 /\ DigAt(s, {1, 2, 3, 4, 6, 7, 9, 10}) /\ s[5] = 45 /\ s[8] = 45
Shape2(s) == /\ Len(s) = 19 /\ Shape1(SubSeq(s, 1, 10)) /\ s[11] = 32
             /\ DigAt(s, {12, 13, 15, 16, 18, 19}) /\ s[14] = 58 /\ s[17] = 58
Shape3(s) == Len(s) = 10 /\ DigAt(s, {1, 2, 4, 5, 7, 8, 9, 10}) /\ s[3] = 47 /\ s[6] = 47
Shape4(s) == /\ Len(s) = 25 /\ Shape1(SubSeq(s, 1, 10)) /\ s[11] = 84
             /\ DigAt(s, {12, 13, 15, 16, 18, 19}) /\ s[14] = 58 /\ s[17] = 58
             /\ IsSign(s[20]) /\ DigAt(s, {21, 22, 24, 25}) /\ s[23] = 58
Shape5(s) == /\ Len(s) = 25 /\ Shape2(SubSeq(s, 1, 19)) /\ s[20] = 32
             /\ IsSign(s[21]) /\ DigAt(s, {22, 23, 24, 25})
Leap(y) == (y % 4 = 0 /\ y % 100 # 0) \/ y % 400 = 0
DaysIn(y, m) == IF m = 2 THEN (IF Leap(y) THEN 29 ELSE 28) ELSE IF m \in {4, 6, 9, 11} THEN 30 ELSE 31
CivilOK(t) == /\ t[1] >= 1000 /\ t[2] \in 1..12 /\ t[3] \in 1..DaysIn(t[1], t[2])
              /\ t[4] \in 0..23 /\ t[5] \in 0..59 /\ t[6] \in 0..59
\* seconds east of UTC of the offset  sign hh mm ; domain: at most 14:59
OffSecs(sign, hh, mm) == (IF sign = 45 THEN 0 - 1 ELSE 1) * (hh * 3600 + mm * 60)
OffOK(hh, mm) == hh \in 0..14 /\ mm \in 0..59
NoDate == [lay |-> 0, t |-> <<>>, off |-> 0, offok |-> TRUE]
HMS(s, i) == <<D2(s, i), D2(s, i + 3), D2(s, i + 6)>>
DateOf(s) ==
  LET r == IF Shape1(s) THEN [lay |-> 1, t |-> <<D4(s, 1), D2(s, 6), D2(s, 9), 0, 0, 0>>, off |-> 0, offok |-> TRUE]
           ELSE IF Shape2(s) THEN [lay |-> 2, t |-> <<D4(s, 1), D2(s, 6), D2(s, 9)>> \o HMS(s, 12), off |-> 0, offok |-> TRUE]
           ELSE IF Shape3(s) THEN [lay |-> 3, t |-> <<D4(s, 7), D2(s, 1), D2(s, 4), 0, 0, 0>>, off |-> 0, offok |-> TRUE]
           ELSE IF Shape4(s) THEN [lay |-> 4, t |-> <<D4(s, 1), D2(s, 6), D2(s, 9)>> \o HMS(s, 12),
                                   off |-> OffSecs(s[20], D2(s, 21), D2(s, 24)), offok |-> OffOK(D2(s, 21), D2(s, 24))]
           ELSE IF Shape5(s) THEN [lay |-> 5, t |-> <<D4(s, 1), D2(s, 6), D2(s, 9)>> \o HMS(s, 12),
                                   off |-> OffSecs(s[21], D2(s, 22), D2(s, 24)), offok |-> OffOK(D2(s, 22), D2(s, 24))]
           ELSE NoDate
  IN IF r.lay # 0 /\ CivilOK(r.t) /\ r.offok THEN r ELSE NoDate
RECURSIVE TupleLessAt(_, _, _)
TupleLessAt(a, b, i) ==
  IF i > Len(a) THEN FALSE ELSE IF a[i] # b[i] THEN a[i] < b[i] ELSE TupleLessAt(a, b, i + 1)
\* days since 1970-01-01 of a civil date (proleptic Gregorian)
DaysFromCivil(y, m, d) ==
  LET yy  == IF m <= 2 THEN y - 1 ELSE y
      era == yy \div 400
      yoe == yy - era * 400
      mp  == IF m > 2 THEN m - 3 ELSE m + 9
      doy == (153 * mp + 2) \div 5 + d - 1
      doe == yoe * 365 + yoe \div 4 - yoe \div 100 + doy
  IN era * 146097 + doe - 719468
\* the instant a parsed date denotes: <<day number, second of that day>> in UTC (a pair, because
\* seconds since the epoch leave TLC's 32-bit integers in 2038)
InstantOf(r) ==
  LET secs == r.t[4] * 3600 + r.t[5] * 60 + r.t[6] - r.off
  IN <<DaysFromCivil(r.t[1], r.t[2], r.t[3]) + secs \div 86400, secs % 86400>>
Instant(s) == InstantOf(DateOf(s))
\* chronological order of two dates
DateLess(a, b) == TupleLessAt(Instant(a), Instant(b), 1)
\* (the order of the civil fields; equals DateLess when both offsets are equal - law CivilAgrees)
CivilLess(a, b) == TupleLessAt(DateOf(a).t, DateOf(b).t, 1)

\* -------------------------------------------------- kind of a key, per mode
Modes == {"text", "numeric", "contextual", "date", "value"}

NumKind(s) == IF IsNum(s) THEN "num" ELSE IF NotNum(s) THEN "text" ELSE "unk"
CalKind(s) ==
  IF ~IsASCII(s) THEN "unk"
  ELSE IF WeekdayIdx(s) >= 0 THEN "weekday" ELSE IF MonthIdx(s) >= 0 THEN "month" ELSE "no"
CtxKind(s) == IF CalKind(s) = "no" THEN NumKind(s) ELSE CalKind(s)
\* LOOK-ALIKES.  Only the names and abbreviations listed in the two tables have a calendar
\* position.  A key that merely BEGINS like one of them ("monitoring", "sunrise", "Thu.",
\* "Mondays", "Sept.") is not a weekday or a month: CalKind says "no", the key is plain text (or a
\* number) and is ordered as such.
TabNames(tab) == {tab[i][1] : i \in 1..Len(tab)}
LookAlikeOf(tab, s) == LET l == LowerASCII(s) IN
  l \notin TabNames(tab) /\ \E n \in TabNames(tab) : HasPrefix(l, n)
LookAlike(s) == IsASCII(s) /\ CalKind(s) = "no" /\ (LookAlikeOf(WeekdayTab, s) \/ LookAlikeOf(MonthTab, s))
\* NEGATIVE CONTROL (not the specification): a position "via the 3-letter abbreviation" for every
\* key longer than 3 bytes whose first three letters are in the table
Prefix3Idx(tab, s) ==
  IF TabIdx(tab, s) >= 0 THEN TabIdx(tab, s)
  ELSE IF Len(s) > 3 THEN TabIdx(tab, SubSeq(s, 1, 3)) ELSE 0 - 1
\* layout detection (dateparse) is trusted only on the five layouts and on digit-free ASCII keys
\* (never dates); any other key with a digit is "num" (a number, still not specified in date
\* mode) or "unk"
DateKinds == <<"date1", "date2", "date3", "date4", "date5">>
DateKind(s) ==
  IF DateOf(s).lay # 0 THEN DateKinds[DateOf(s).lay]
  ELSE IF IsASCII(s) /\ ~HasDigit(s) THEN CtxKind(s)
  ELSE IF IsNum(s) THEN "num" ELSE "unk"

Kind(mode, s) ==
  CASE mode = "numeric" -> NumKind(s)
    [] mode = "contextual" -> CtxKind(s)
    [] mode = "date" -> DateKind(s)
    [] OTHER -> "any"

KindOrder == <<"any", "weekday", "month", "date1", "date2", "date3", "date4", "date5", "num", "text", "unk">>
Kinds(mode, names) == {Kind(mode, names[i]) : i \in 1..Len(names)}

RECURSIVE JoinKinds(_, _, _)
JoinKinds(S, i, acc) ==
  IF i > Len(KindOrder) THEN acc
  ELSE IF KindOrder[i] \in S THEN JoinKinds(S, i + 1, IF acc = "" THEN KindOrder[i] ELSE acc \o "+" \o KindOrder[i])
  ELSE JoinKinds(S, i + 1, acc)
\* class of a pool (given the set S of kinds of its keys) as a tag: its kind if homogeneous,
\* else "mixed:k1+k2.."
ClassOfKinds(S) ==
  IF S = {} THEN "empty" ELSE IF Cardinality(S) = 1 THEN JoinKinds(S, 1, "") ELSE "mixed:" \o JoinKinds(S, 1, "")
PoolClass(mode, names) == ClassOfKinds(Kinds(mode, names))

\* Is the order of a pool whose keys have the kinds S specified (up to ties) by the property?
\* numbers in `date` mode are not (layout detection on digit strings is not modelled).
DeterminedKinds(mode, S) ==
  \/ mode \in {"text", "value"}
  \/ mode = "numeric" /\ S \in {{"num"}, {"text"}}
  \/ mode = "contextual" /\ S \in {{"num"}, {"text"}, {"weekday"}, {"month"}}
  \/ mode = "date" /\ S \in {{"date1"}, {"date2"}, {"date3"}, {"date4"}, {"date5"}, {"text"}, {"weekday"}, {"month"}}
Determined(mode, names) == DeterminedKinds(mode, Kinds(mode, names))

\* The specified strict order (ascending direction) between two keys of a pool whose class is
\* determined.  It is a strict weak order: keys of equal rank (same magnitude in two spellings,
\* same weekday, same instant, same total) are left to the implementation, which must still
\* order them consistently (axioms below).
SpecLessK(mode, kind, a, b) ==
  CASE mode = "text"  -> BytesLess(a.name, b.name)
    [] mode = "value" -> a.value < b.value
    [] kind = "num"     -> NumLess(a.name, b.name)
    [] kind = "text"    -> BytesLess(a.name, b.name)
    [] kind = "weekday" -> WeekdayIdx(a.name) < WeekdayIdx(b.name)
    [] kind = "month"   -> MonthIdx(a.name) < MonthIdx(b.name)
    [] kind \in {"date1", "date2", "date3", "date4", "date5"} -> DateLess(a.name, b.name)
    [] OTHER -> FALSE
\* (between keys of different kinds nothing is specified)
SpecLess(mode, a, b) ==
  Kind(mode, a.name) = Kind(mode, b.name) /\ SpecLessK(mode, Kind(mode, a.name), a, b)

\* ---------------------------------------------------------------------- totals
\* The total of a key is an integer of a BOUNDED type: W bits, two's complement (the code: 64).
\* `value` is specified on the mathematical integers (larger total first <=> a.value > b.value,
\* SpecLessK above).  TLC's own integers have 32 bits, so the width is an explicit parameter and
\* the binding scales: a pool whose totals v lie in IntW(W) is handed to the real code as
\*      Embed(64, W, off, v) = v * 2^(64-W) + off.
\* Embed is strictly monotone, reaches both extremes of the wide type and commutes with wrapping
\* subtraction (laws EmbedRange / EmbedMonotone / EmbedHom / EmbedExtremes, decided by TLC in
\* SortingWidth.tla for every B <= MaxB (7 quick, 9 thorough) and W <= B), so the real code computes on the embedded totals
\* exactly what W-bit code computes on v: order, ties and transitivity are decided by TLC on v
\* while the code sees totals whose differences leave the 64-bit range.
RECURSIVE Pow2(_)
Pow2(k) == IF k = 0 THEN 1 ELSE 2 * Pow2(k - 1)
IntW(W) == (0 - Pow2(W - 1))..(Pow2(W - 1) - 1)
Wrap(W, x) == ((x + Pow2(W - 1)) % Pow2(W)) - Pow2(W - 1)      \* x reduced to W bits
WrapSub(W, x, y) == Wrap(W, x - y)                              \* what `x - y` computes in W bits
\* offsets "zero" / "one" / "top": one offset (0, 1, 2^(B-W) - 1) added to every scaled total.
\* "lsb": the total carries one more bit, v = 2 * hi + lo with hi in IntW(W), and is handed over
\* as hi * 2^(B-W) + lo - neighbouring integers of the wide type (they differ by 1) at every
\* magnitude, which a comparison through a narrower or a floating type cannot tell apart.
OffTags == {"zero", "one", "top", "lsb"}
OffsetOf(B, W, tag) == CASE tag = "zero" -> 0 [] tag = "one" -> 1 [] tag = "top" -> Pow2(B - W) - 1
OffTagOK(B, W, tag) == tag \in OffTags /\ (tag \in {"one", "lsb"} => W < B)
EmbedDomain(W, tag) == IF tag = "lsb" THEN IntW(W + 1) ELSE IntW(W)
Embed(B, W, tag, v) == IF tag = "lsb" THEN ((v \div 2) * Pow2(B - W)) + (v % 2)
                       ELSE v * Pow2(B - W) + OffsetOf(B, W, tag)
\* value map of a pool as stated in vectors and traces:  w = 0: totals handed over as they are
\* (|v| <= 10^9);  w in 2..16: every v in EmbedDomain(w, off), handed over as Embed(64, w, off, v)
VMapOK(vm, vals) ==
  \/ vm.w = 0 /\ vm.off = "zero"
  \/ vm.w \in 2..16 /\ vm.off \in OffTags /\ \A v \in vals : v \in EmbedDomain(vm.w, vm.off)
\* NEGATIVE CONTROL (must NOT be an order): "less" decided by the sign of the W-bit difference
DiffLess(W, x, y) == WrapSub(W, x, y) < 0

\* ----------------------------------------------------------------- order axioms
\* R is a relation on K given as an operator-like function [K \X K -> BOOLEAN]
Asymmetric(R, K) == \A x \in K, y \in K : x # y => ~(R[x, y] /\ R[y, x])
TotalOn(R, K)    == \A x \in K, y \in K : x # y => (R[x, y] \/ R[y, x])
Transitive(R, K) == \A x \in K, y \in K, z \in K :
                      (x # y /\ y # z /\ x # z /\ R[x, y] /\ R[y, z]) => R[x, z]
\* what every comparator must satisfy on every pool of DISTINCT keys (nothing is demanded of
\* R[x, x]: the keys of an aggregation are distinct)
StrictTotal(R, K) == Asymmetric(R, K) /\ TotalOn(R, K) /\ Transitive(R, K)
Converse(R, K) == [p \in K \X K |-> R[p[2], p[1]]]

\* ---------------------------------------------- reference (stateless) comparator
\* One comparator that satisfies the axioms on every pool and the specified order on the
\* homogeneous ones: rank of the kind, then the specified order, then the raw bytes.
KindRank(k) == CHOOSE i \in 1..Len(KindOrder) : KindOrder[i] = k
ModelLess(mode, a, b) ==
  LET ka == Kind(mode, a.name)
      kb == Kind(mode, b.name)
  IN IF ka # kb THEN KindRank(ka) < KindRank(kb)
     ELSE IF ka = "unk" THEN BytesLess(a.name, b.name)
     ELSE IF SpecLessK(mode, ka, a, b) THEN TRUE
     ELSE IF SpecLessK(mode, ka, b, a) THEN FALSE
     ELSE BytesLess(a.name, b.name)

\* ------------------------------------------------- `--sort name[:modifier]`
B_text       == <<116, 101, 120, 116>>
B_numeric    == <<110, 117, 109, 101, 114, 105, 99>>
B_contextual == <<99, 111, 110, 116, 101, 120, 116, 117, 97, 108>>
B_context    == <<99, 111, 110, 116, 101, 120, 116>>
B_date       == <<100, 97, 116, 101>>
B_value      == <<118, 97, 108, 117, 101>>
B_rev        == <<114, 101, 118>>
B_reverse    == <<114, 101, 118, 101, 114, 115, 101>>
B_desc       == <<100, 101, 115, 99>>
B_asc        == <<97, 115, 99>>

ModeOfName(n) ==
  CASE n = B_text -> "text" [] n = B_numeric -> "numeric"
    [] n \in {B_contextual, B_context} -> "contextual"
    [] n = B_date -> "date" [] n = B_value -> "value" [] OTHER -> "unknown"

\* [ok, mode, rev]: rev = the display order is the converse of the mode's ascending order.
\* `value` defaults to descending (larger totals first); :reverse / :rev flips the default,
\* :asc / :desc are absolute.  Names and modifiers are case-insensitive (ASCII).
\* Domain: ASCII, a non-empty name, at most one colon.
ParseSortDomain(s) == /\ IsASCII(s) /\ Cardinality({i \in 1..Len(s) : s[i] = 58}) <= 1
                      /\ SplitOn(s, 58)[1] # <<>>
ParseSort(s) ==
  LET parts == SplitOn(s, 58)
      mode  == ModeOfName(LowerASCII(parts[1]))
      dflt  == (mode = "value")
      md    == IF Len(parts) >= 2 THEN LowerASCII(parts[2]) ELSE <<>>
      bad   == [ok |-> FALSE, mode |-> "unknown", rev |-> FALSE]
  IN IF mode = "unknown" THEN bad
     ELSE IF Len(parts) = 1 THEN [ok |-> TRUE, mode |-> mode, rev |-> dflt]
     ELSE IF md \in {B_rev, B_reverse} THEN [ok |-> TRUE, mode |-> mode, rev |-> ~dflt]
     ELSE IF md = B_desc THEN [ok |-> TRUE, mode |-> mode, rev |-> TRUE]
     ELSE IF md = B_asc THEN [ok |-> TRUE, mode |-> mode, rev |-> FALSE]
     ELSE bad
=============================================================================

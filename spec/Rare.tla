-------------------------------- MODULE Rare --------------------------------
(* C03 -- system-level specification of ONE run of an aggregating rare command.  *)
(*                                                                               *)
(*   corpus (lines)  --match/ignore/extract-->  samples  --aggregator fold-->    *)
(*   final aggregate --> CSV records / summary counts / exit status              *)
(*                                                                               *)
(* The specification is sequential on purpose: it is the *reference aggregation*.*)
(* Rare_MC.tla models the concurrent pipeline (readers, batches, workers, the    *)
(* single aggregation step) and TLC shows there that every interleaving ends in  *)
(* the state computed here.  Rare_Trace.tla binds real CLI runs to it.           *)
(*                                                                               *)
(* Text is a sequence of byte values.  The match / extract / ignore expressions  *)
(* are drawn from a small fixed family whose semantics is defined here.          *)
\*   match    -m '^([^|]*)\|([^|]*)\|([^|]*)$'   a line matches iff it consists of exactly
\*            three '|'-separated fields f1|f2|f3 (capture groups 1-3)
\*   extract  -e '{g1}' [-e '{g2}' [-e '{g3}']]   the chosen groups, joined with NUL by the
\*            command line builder; the aggregator splits on NUL
\*   ignore   -i '{eq {g} v}'                     drop the match when group g = v
\* A matched, not ignored line whose extracted text is empty is counted as ignored
\* (extractor.go).
\*
\* Strengthened (matchers, atoms, delimiters, sources):
\*   matcher  cd.mt = "re"   the regex above (numbered groups only)
\*                    "ren"  the same regex with the groups named k, s, v
\*                    "dis"  --dissect '%{k}|%{s}|%{v}': k and s run to the next '|', v to the end of the
\*                           line (a line with MORE than three fields matches, v keeps the further '|')
\*   atoms    cd.ext is a sequence of atom codes: 1..3 capture group, 4 {line} (number of the line
\*            within its source, from 1), 5 {src} (name of the source), 6 {.} 7 {#} 8 {.#} (the JSON
\*            views of the match, rendered as MiniJsonEnc!Encode)
\*   delim    cd.delim = <<>>: the atoms are separate -e arguments, joined with NUL by the command line
\*            builder and split on NUL by the aggregator; otherwise (table / heatmap / spark --delim d):
\*            ONE -e argument holding the atoms joined with the text d, the aggregator splits on d
\*            (left to right, non-overlapping occurrences of the WHOLE delimiter)
\*   sources  a run reads the corpus as a sequence of sources (files in argument order, or stdin);
\*            a layout is <<[name, lo, hi]>>: source k holds the corpus lines lo..hi and numbers them
\*            1, 2, ...   The reference aggregate of a command that uses {line} / {src} is a function
\*            of the layout (and of nothing else: not of batches, workers, pacing of the input).
EXTENDS Bytes, TLC

J == INSTANCE MiniJsonEnc

SEP == 124                      \* '|'
BADTYPE == <<60, 66, 65, 68, 45, 84, 89, 80, 69, 62>>     \* "<BAD-TYPE>"  (expressions.ErrorNum)
S_group == <<103, 114, 111, 117, 112>>                     \* "group"
S_value == <<118, 97, 108, 117, 101>>                      \* "value"

EmptyF == [x \in {} |-> 0]

RECURSIVE LexLess(_, _)
\* Go string order: bytewise lexicographic
LexLess(a, b) ==
  IF b = <<>> THEN FALSE
  ELSE IF a = <<>> THEN TRUE
  ELSE IF a[1] # b[1] THEN a[1] < b[1]
  ELSE LexLess(Tail(a), Tail(b))
SortedNames(S) == SortSeq(SetToSeq(S), LexLess)

-----------------------------------------------------------------------------
(* 1. match / ignore / extract                                                *)
Fields(line) == SplitOn(line, SEP)
IsMatch(line) == Len(Fields(line)) = 3
S_k == <<107>>   S_s == <<115>>   S_v == <<118>>     \* the group names k, s, v
S_stdin == <<60, 115, 116, 100, 105, 110, 62>>       \* "<stdin>"

\* cd: command descriptor [cmd, mt: matcher, ext: <<atom codes>>, delim: bytes, ig: group number or 0,
\*                         iv: bytes, grp: group number or 0 (reduce), acc: <<accumulator tags>> (reduce)]
\* the captures of a line: [ok, g] with g = <<group 0, group 1, group 2, group 3>>
Caps(cd, line) ==
  LET f == Fields(line) IN
  IF cd.mt = "dis"
  THEN (IF Len(f) >= 3 THEN [ok |-> TRUE, g |-> <<line, f[1], f[2], JoinSeq(SubSeq(f, 3, Len(f)), <<SEP>>)>>]
        ELSE [ok |-> FALSE, g |-> <<>>])
  ELSE (IF Len(f) = 3 THEN [ok |-> TRUE, g |-> <<line, f[1], f[2], f[3]>>] ELSE [ok |-> FALSE, g |-> <<>>])
\* <<name, group index>> of the named groups
Names(cd) == IF cd.mt = "re" THEN <<>> ELSE << <<S_k, 1>>, <<S_s, 2>>, <<S_v, 3>> >>
Delim(cd) == IF cd.delim = <<>> THEN <<NUL>> ELSE cd.delim
\* does the result depend on how the lines are divided among sources?
LayoutDep(cd) == \E i \in 1..Len(cd.ext) : cd.ext[i] \in {4, 5}

\* text of one atom for a match with captures g, read as line number lno of the source named src
AtomText(cd, g, src, lno, a) ==
  CASE a \in 1..3 -> g[a + 1]
    [] a = 4 -> Itoa(lno)
    [] a = 5 -> src
    [] a = 6 -> J!Encode(Names(cd), g, TRUE, FALSE)
    [] a = 7 -> J!Encode(Names(cd), g, FALSE, TRUE)
    [] a = 8 -> J!Encode(Names(cd), g, TRUE, TRUE)
ElementOf(cd, g, src, lno) ==
  JoinSeq([i \in 1..Len(cd.ext) |-> AtomText(cd, g, src, lno, cd.ext[i])], Delim(cd))
\* "nomatch" | "ignored" | "sample", and the element of a sample
ClassOf(cd, c, src, lno) ==
  IF ~c.ok THEN "nomatch"
  ELSE IF (cd.ig # 0 /\ c.g[cd.ig + 1] = cd.iv) \/ ElementOf(cd, c.g, src, lno) = <<>> THEN "ignored"
  ELSE "sample"
ClassifyAt(cd, line, src, lno) == ClassOf(cd, Caps(cd, line), src, lno)
ExtractedAt(cd, line, src, lno) == ElementOf(cd, Caps(cd, line).g, src, lno)
\* commands whose result does not depend on the layout (no {line} / {src}): source and number are void
Extracted(cd, line) == ExtractedAt(cd, line, <<>>, 0)
IgnoredBy(cd, line) == cd.ig # 0 /\ Caps(cd, line).g[cd.ig + 1] = cd.iv
Classify(cd, line) == ClassifyAt(cd, line, <<>>, 0)

-----------------------------------------------------------------------------
(* 2. aggregators: Sample(state, element) transcribed from pkg/aggregation       *)
Parts(el) == SplitOn(el, NUL)
\* pkg/stringSplitter: Next() returns the text before the next occurrence of the whole delimiter
\* and continues after it
PartsD(el, d) == SplitSeq(el, d)

\* ---- MatchCounter (histogram): key [NUL increment]
CounterInit == [cnt |-> EmptyF, err |-> 0]
CounterAdd(st, k, inc) ==
  [st EXCEPT !.cnt = IF k \in DOMAIN @ THEN [@ EXCEPT ![k] = @ + inc] ELSE @ @@ (k :> inc)]
\* parsed form of an element: [k, err, inc]
CounterParse(el) ==
  LET p == Parts(el) IN
  IF Len(p) >= 2 THEN
       IF ParseIntOK(p[2]) THEN [k |-> p[1], err |-> FALSE, inc |-> ParseIntVal(p[2])]
       ELSE [k |-> p[1], err |-> TRUE, inc |-> 0]
  ELSE [k |-> p[1], err |-> FALSE, inc |-> 1]
CounterApply(st, ps) == IF ps.err THEN [st EXCEPT !.err = @ + 1] ELSE CounterAdd(st, ps.k, ps.inc)
CounterSample(st, el) == CounterApply(st, CounterParse(el))

\* ---- grid of (a, b) -> count: TableAggregator (a = column, b = row) and SubKeyCounter
\*      (a = key, b = sub-key); element = a [NUL b [NUL increment]]
GridInit == [cells |-> EmptyF, err |-> 0]
GridParseD(el, d) ==
  LET p == PartsD(el, d)
      b == IF Len(p) >= 2 THEN p[2] ELSE <<>>
  IN IF Len(p) >= 3 THEN
          IF ParseIntOK(p[3]) THEN [a |-> p[1], b |-> b, err |-> FALSE, inc |-> ParseIntVal(p[3])]
          ELSE [a |-> p[1], b |-> b, err |-> TRUE, inc |-> 0]
     ELSE [a |-> p[1], b |-> b, err |-> FALSE, inc |-> 1]
GridParse(el) == GridParseD(el, <<NUL>>)
GridApply(st, ps) ==
  IF ps.err THEN [st EXCEPT !.err = @ + 1]
  ELSE LET c == <<ps.a, ps.b>> IN
       [st EXCEPT !.cells = IF c \in DOMAIN @ THEN [@ EXCEPT ![c] = @ + ps.inc] ELSE @ @@ (c :> ps.inc)]
GridSample(st, el) == GridApply(st, GridParse(el))
GridA(st) == {c[1] : c \in DOMAIN st.cells}
GridB(st) == {c[2] : c \in DOMAIN st.cells}
GridCell(st, a, b) == IF <<a, b>> \in DOMAIN st.cells THEN st.cells[<<a, b>>] ELSE 0

\* ---- MatchNumerical (analyze) on the integer domain: element = decimal integer.
\*      The order-free content of the aggregator is the BAG of sampled values (count, mean, min,
\*      max and, with --extra, the sorted values are functions of it): cnt = value -> multiplicity
NumInit == [cnt |-> EmptyF, err |-> 0]
NumParse(el) == IF ParseIntOK(el) THEN [err |-> FALSE, v |-> ParseIntVal(el)] ELSE [err |-> TRUE, v |-> 0]
NumApply(st, ps) ==
  IF ps.err THEN [st EXCEPT !.err = @ + 1]
  ELSE [st EXCEPT !.cnt = IF ps.v \in DOMAIN @ THEN [@ EXCEPT ![ps.v] = @ + 1] ELSE @ @@ (ps.v :> 1)]
NumSample(st, el) == NumApply(st, NumParse(el))
\* domain of the analyze model: the text is a canonical integer or is not numeric at all for
\* strconv.ParseFloat (which also accepts fractions, exponents, hex, inf, nan, underscores ...)
NumInDomain(el) ==
  \/ ParseIntOK(el)
  \/ el # <<>> /\ ~(el[1] \in 48..57 \/ el[1] \in {43, 45, 46, 73, 78, 105, 110})

\* ---- AccumulatingGroup (reduce): element = f1 NUL f2 NUL f3 (default extract {@});
\*      group key = {grp}; accumulators over the third field, initial value "0"
IntOK(s) == ParseIntOK(s)
SumI(a, b) == IF IntOK(a) /\ IntOK(b) THEN Itoa(ParseIntVal(a) + ParseIntVal(b)) ELSE BADTYPE
MaxI(a, b) == IF IntOK(a) /\ IntOK(b)
              THEN Itoa(IF ParseIntVal(a) >= ParseIntVal(b) THEN ParseIntVal(a) ELSE ParseIntVal(b)) ELSE BADTYPE
AccStep(tag, cur, v) ==
  CASE tag = "count" -> SumI(cur, <<49>>)       \* n={sumi {.} 1}
    [] tag = "sum"   -> SumI(cur, v)            \* s={sumi {.} {3}}
    [] tag = "max"   -> MaxI(cur, v)            \* mx={maxi {.} {3}}
    [] tag = "last"  -> v                       \* last={3}     (order-sensitive)
AccInit == EmptyF
AccParse(cd, el) ==
  LET p == Parts(el) IN [g |-> IF cd.grp = 0 THEN <<>> ELSE p[cd.grp], v |-> p[3]]
AccApply(cd, st, ps) ==
  LET cur == IF ps.g \in DOMAIN st THEN st[ps.g] ELSE [i \in 1..Len(cd.acc) |-> <<48>>]
      new == [i \in 1..Len(cd.acc) |-> AccStep(cd.acc[i], cur[i], ps.v)]
  IN IF ps.g \in DOMAIN st THEN [st EXCEPT ![ps.g] = new] ELSE st @@ (ps.g :> new)
AccOrderFree(cd) == \A i \in 1..Len(cd.acc) : cd.acc[i] # "last"

-----------------------------------------------------------------------------
(* 3. one run: fold of the samples in corpus order                             *)
Kind(cd) ==
  CASE cd.cmd = "histogram" -> "counter"
    [] cd.cmd \in {"table", "heatmap", "spark"} -> "table"
    [] cd.cmd = "bargraph" -> "subkey"
    [] cd.cmd = "analyze" -> "num"
    [] cd.cmd = "reduce" -> "acc"

AggInit(cd) ==
  CASE Kind(cd) = "counter" -> CounterInit
    [] Kind(cd) \in {"table", "subkey"} -> GridInit
    [] Kind(cd) = "num" -> NumInit
    [] Kind(cd) = "acc" -> AccInit
ParseEl(cd, el) ==
  CASE Kind(cd) = "counter" -> CounterParse(el)
    [] Kind(cd) = "table" -> GridParseD(el, Delim(cd))
    [] Kind(cd) = "subkey" -> GridParse(el)
    [] Kind(cd) = "num" -> NumParse(el)
    [] Kind(cd) = "acc" -> AccParse(cd, el)
AggApply(cd, st, ps) ==
  CASE Kind(cd) = "counter" -> CounterApply(st, ps)
    [] Kind(cd) \in {"table", "subkey"} -> GridApply(st, ps)
    [] Kind(cd) = "num" -> NumApply(st, ps)
    [] Kind(cd) = "acc" -> AccApply(cd, st, ps)
AggSample(cd, st, el) == AggApply(cd, st, ParseEl(cd, el))
AggErrors(cd, st) == IF Kind(cd) = "acc" THEN 0 ELSE st.err

\* the reference aggregation of a sequence of lines
Samples(cd, lines) ==
  LET keep == SelectSeq(lines, LAMBDA ln : Classify(cd, ln) = "sample")
  IN [i \in 1..Len(keep) |-> Extracted(cd, keep[i])]
RefAgg(cd, lines) == FoldLeft(LAMBDA st, el : AggSample(cd, st, el), AggInit(cd), Samples(cd, lines))
CountClass(cd, lines, c) == Len(SelectSeq(lines, LAMBDA ln : Classify(cd, ln) = c))

-----------------------------------------------------------------------------
(* 4. observables                                                              *)
\* exit status and final log message (cmd/helpers/exitCodes.go)
ExitState(readErr, parseErr, matched) ==
  IF readErr > 0 THEN [code |-> 2, msg |-> "read"]
  ELSE IF parseErr > 0 THEN [code |-> 2, msg |-> "parse"]
  ELSE IF matched = 0 THEN [code |-> 1, msg |-> "none"]
  ELSE [code |-> 0, msg |-> "none"]

\* CSV records (pkg/csv/aggWriters.go), first record = header
CounterLess(st, a, b) ==      \* value descending, then name ascending
  IF st.cnt[a] # st.cnt[b] THEN st.cnt[a] > st.cnt[b] ELSE LexLess(a, b)
CounterCsv(st) ==
  LET names == SortSeq(SetToSeq(DOMAIN st.cnt), LAMBDA a, b : CounterLess(st, a, b))
  IN << <<S_group, S_value>> >> \o [i \in 1..Len(names) |-> <<names[i], Itoa(st.cnt[names[i]])>>]
\* table / heatmap / spark: header "" + columns; one record per row
TableCsv(st) ==
  LET cols == SortedNames(GridA(st))
      rows == SortedNames(GridB(st))
  IN << <<<<>>>> \o cols >> \o
     [i \in 1..Len(rows) |-> <<rows[i]>> \o [j \in 1..Len(cols) |-> Itoa(GridCell(st, cols[j], rows[i]))]]
\* bargraph: header "group" + sub-keys; one record per key
SubKeyCsv(st) ==
  LET keys == SortedNames(GridA(st))
      subs == SortedNames(GridB(st))
  IN << <<S_group>> \o subs >> \o
     [i \in 1..Len(keys) |-> <<keys[i]>> \o [j \in 1..Len(subs) |-> Itoa(GridCell(st, keys[i], subs[j]))]]
\* reduce: group column (if any) + accumulator columns; names are supplied by the caller
AccCsv(cd, st, gname, anames) ==
  LET gs == SortedNames(DOMAIN st)
  IN << (IF cd.grp = 0 THEN <<>> ELSE <<gname>>) \o anames >> \o
     [i \in 1..Len(gs) |-> (IF cd.grp = 0 THEN <<>> ELSE <<gs[i]>>) \o st[gs[i]]]

\* the numbers of the summary line "Matched: m / n (...) (Ignored: i) (Errors: e)"
SummaryNums(cd, st, matched, total, ignored) ==
  LET extra == CASE Kind(cd) = "counter" -> <<Cardinality(DOMAIN st.cnt)>>
                 [] Kind(cd) = "table" -> <<Cardinality(GridB(st)), Cardinality(GridA(st))>>
                 [] Kind(cd) = "acc" -> IF cd.grp = 0 THEN <<>>
                                         ELSE <<Cardinality(DOMAIN st), 1 + Len(cd.acc)>>
                 [] OTHER -> <<>>
      e == AggErrors(cd, st)
  IN <<matched, total>> \o extra \o (IF ignored > 0 THEN <<ignored>> ELSE <<>>)
                                 \o (IF e > 0 THEN <<e>> ELSE <<>>)

\* analyze: statistics of the bag of values (numerical.go)
NumVals(st) == DOMAIN st.cnt
NumN(st) == LET vs == SetToSeq(NumVals(st)) IN FoldLeft(+, 0, [i \in 1..Len(vs) |-> st.cnt[vs[i]]])
NumSum(st) == LET vs == SetToSeq(NumVals(st)) IN FoldLeft(+, 0, [i \in 1..Len(vs) |-> vs[i] * st.cnt[vs[i]]])
NumMin(st) == MinOf(NumVals(st))
NumMax(st) == MaxOf(NumVals(st))
\* k-th smallest sample, k in 1..n  (= orderedValues[k-1])
NumBelow(st, v) == LET us == SetToSeq({u \in NumVals(st) : u <= v}) IN FoldLeft(+, 0, [i \in 1..Len(us) |-> st.cnt[us[i]]])
NumKth(st, k) == MinOf({v \in NumVals(st) : NumBelow(st, v) >= k})
NumMedian(st) == NumKth(st, NumN(st) \div 2 + 1)
NumMode(st) ==        \* smallest value with the maximal multiplicity
  LET best == MaxOf({st.cnt[v] : v \in NumVals(st)}) IN MinOf({v \in NumVals(st) : st.cnt[v] = best})
-----------------------------------------------------------------------------
(* 5. expected observables of a corpus descriptor                              *)
\* r: [pool: <<line bytes>>, seq: <<pool index>>, cmd, mt, ext, delim, ig, iv, grp, acc, gname, anames];
\* the corpus is the sequence of lines pool[seq[i]]
CdOf(r) == [cmd |-> r.cmd, mt |-> r.mt, ext |-> r.ext, delim |-> r.delim, ig |-> r.ig, iv |-> r.iv,
            grp |-> r.grp, acc |-> r.acc]

\* expected observables of a reset group.  The reference fold RefAgg is evaluated in a
\* memoised form: classification / parsing once per distinct line of the pool.
Expect(r) ==
  LET cd   == CdOf(r)
      P    == Len(r.pool)
      cap  == [i \in 1..P |-> Caps(cd, r.pool[i])]
      cls  == [i \in 1..P |-> ClassOf(cd, cap[i], <<>>, 0)]
      el   == [i \in 1..P |-> IF cls[i] = "sample" THEN ElementOf(cd, cap[i].g, <<>>, 0) ELSE <<>>]
      ps   == [i \in 1..P |-> IF cls[i] = "sample" THEN ParseEl(cd, el[i]) ELSE 0]
      agg  == FoldLeft(LAMBDA st, ix : IF cls[ix] = "sample" THEN AggApply(cd, st, ps[ix]) ELSE st,
                       AggInit(cd), r.seq)
      mult == FoldLeft(LAMBDA m, ix : [m EXCEPT ![ix] = @ + 1], [i \in 1..P |-> 0], r.seq)
      cnt(c) == FoldLeft(+, 0, [i \in 1..P |-> IF cls[i] = c THEN mult[i] ELSE 0])
      matched == cnt("sample")
      ignored == cnt("ignored")
      indom == Kind(cd) = "num" => \A i \in 1..P : cls[i] = "sample" => NumInDomain(el[i])
      csv  == CASE Kind(cd) = "counter" -> CounterCsv(agg)
                [] Kind(cd) = "table" -> TableCsv(agg)
                [] Kind(cd) = "subkey" -> SubKeyCsv(agg)
                [] Kind(cd) = "acc" -> AccCsv(cd, agg, r.gname, r.anames)
                [] OTHER -> <<>>
  IN [cd |-> cd, agg |-> agg, matched |-> matched, total |-> Len(r.seq), ignored |-> ignored,
      perr |-> AggErrors(cd, agg), csv |-> csv, indom |-> indom,
      nums |-> SummaryNums(cd, agg, matched, Len(r.seq), ignored),
      \* self-check of the memoised fold against the definition on small corpora
      selfok |-> Len(r.seq) > 12 \/ agg = RefAgg(cd, [i \in 1..Len(r.seq) |-> r.pool[r.seq[i]]])]

\* ---- the same for a given layout (needed when the command uses {line} / {src}; equal to Expect(r)
\*      for every layout otherwise - law LayoutFree of RareText_MC).
\* lay = <<[name, lo, hi]>>, the sources in reading order; LayoutOK: they hold every corpus line once
LayoutOK(lay, N) ==
  /\ \A k \in 1..Len(lay) : lay[k].lo >= 1 /\ lay[k].hi <= N /\ lay[k].lo <= lay[k].hi + 1
  /\ FoldLeft(+, 0, [k \in 1..Len(lay) |-> lay[k].hi - lay[k].lo + 1]) = N
  /\ \A i \in 1..N : \E k \in 1..Len(lay) : lay[k].lo <= i /\ i <= lay[k].hi
\* corpus positions in reading order
ReadOrder(lay) == Flatten([k \in 1..Len(lay) |-> [j \in 1..(lay[k].hi - lay[k].lo + 1) |-> lay[k].lo + j - 1]])
\* the reference aggregation of the layout, by the definition: source after source, line after line
RefAggLay(cd, lines, lay) ==
  LET step(st, k) ==
        FoldLeft(LAMBDA st2, j :
                   LET ln == lines[lay[k].lo + j - 1] IN
                   IF ClassifyAt(cd, ln, lay[k].name, j) = "sample"
                   THEN AggSample(cd, st2, ExtractedAt(cd, ln, lay[k].name, j)) ELSE st2,
                 st, [j \in 1..(lay[k].hi - lay[k].lo + 1) |-> j])
  IN FoldLeft(step, AggInit(cd), [k \in 1..Len(lay) |-> k])
ExpectLay(r, lay) ==
  LET cd   == CdOf(r)
      P    == Len(r.pool)
      N    == Len(r.seq)
      cap  == [i \in 1..P |-> Caps(cd, r.pool[i])]
      srcK == [i \in 1..N |-> CHOOSE k \in 1..Len(lay) : lay[k].lo <= i /\ i <= lay[k].hi]
      cls  == [i \in 1..N |-> ClassOf(cd, cap[r.seq[i]], lay[srcK[i]].name, i - lay[srcK[i]].lo + 1)]
      ps   == [i \in 1..N |-> IF cls[i] = "sample"
                               THEN ParseEl(cd, ElementOf(cd, cap[r.seq[i]].g, lay[srcK[i]].name, i - lay[srcK[i]].lo + 1))
                               ELSE 0]
      agg  == FoldLeft(LAMBDA st, i : IF cls[i] = "sample" THEN AggApply(cd, st, ps[i]) ELSE st,
                       AggInit(cd), ReadOrder(lay))
      cnt(c) == Cardinality({i \in 1..N : cls[i] = c})
      matched == cnt("sample")
      ignored == cnt("ignored")
      csv  == CASE Kind(cd) = "counter" -> CounterCsv(agg)
                [] Kind(cd) = "table" -> TableCsv(agg)
                [] Kind(cd) = "subkey" -> SubKeyCsv(agg)
                [] Kind(cd) = "acc" -> AccCsv(cd, agg, r.gname, r.anames)
                [] OTHER -> <<>>
  IN [cd |-> cd, agg |-> agg, matched |-> matched, total |-> N, ignored |-> ignored,
      perr |-> AggErrors(cd, agg), csv |-> csv, indom |-> Kind(cd) # "num",
      nums |-> SummaryNums(cd, agg, matched, N, ignored),
      selfok |-> N > 12 \/ agg = RefAggLay(cd, [i \in 1..N |-> r.pool[r.seq[i]]], lay)]

=============================================================================

--------------------------- MODULE ExprSyntaxHist ---------------------------
(* C09 - the compiler as an OBJECT WITH A HISTORY.                               *)
(*                                                                               *)
(* expressions.KeyBuilder is long-lived: functions are registered with Func and  *)
(* any number of templates are compiled by the same builder (the extractor, the  *)
(* funcs-file loader and every aggregator share expressions/stdlib's builder).   *)
(* The property speaks about "the" meaning of a template text, so the outcome of *)
(* a Compile call - error classes, compiled tree, evaluation result - has to be  *)
(* a function of the template text and of the functions registered at that       *)
(* moment ONLY, never of what the builder compiled before; and a compiled        *)
(* template keeps its meaning whatever the builder is used for afterwards.       *)
(*                                                                               *)
(* State machine (one key builder):                                              *)
(*    ft     function table: registered name -> version of the implementation    *)
(*    memo   what the builder remembers between calls (argument text -> compiled *)
(*           argument); the code under test has no such memory (Mode "plain"),   *)
(*           the other modes are refactorings somebody could make                *)
(*    objs   the compiled templates handed out so far (they stay alive)          *)
(*    last   the latest Compile call: text, table of that moment, result         *)
(* Actions: Func(name, ver), Compile(template).                                  *)
(*                                                                               *)
(* CompK is the implementation-shaped Compile: the scanners of ExprSyntax.tla    *)
(* with the builder's memory threaded through the argument compilation.          *)
(*    Mode "plain"      no memory (keyBuilder.go as it is)                       *)
(*         "memo"       arguments memoised WITH their errors, forgotten on Func  *)
(*                      - behaviour preserving, must satisfy the laws            *)
(*         "memoNoErr"  memoised arguments no longer report their errors         *)
(*         "memoStale"  the memory survives Func                                 *)
(*         "memoTrim"   memory keyed by the blank-trimmed argument text          *)
(*         "lateBind"   a call looks its function up when evaluated              *)
(*         "errLeak"    the error list is kept in the builder between calls      *)
(*    - the last five are negative controls: TLC must find a history that        *)
(*    violates HistIndep / EvalStable for each of them.                          *)
(*                                                                               *)
(* Laws (invariants over every history of <= MaxOps operations of a pool):       *)
(*    HistIndep   outcome of the latest Compile = outcome of the history-free    *)
(*                CompileF(text, ft) of ExprSyntax.tla                           *)
(*    EvalStable  every compiled template still evaluates to what it evaluated   *)
(*                to when it was compiled                                        *)
(*    StepLawOK   the abstract layer under a changing table: the printed tree    *)
(*                round-trips / yields its documented error classes and counts   *)
(*                with the table of that moment                                  *)
EXTENDS ExprSyntaxCases

CONSTANTS Mode,        \* see above
          MaxOps,      \* length of the histories
          PoolSel      \* 0: every pool; p > 0: only pool p (used to point a negative control at its theme)

VARIABLES pool,        \* which operation pool this history draws from (fixed by Init)
          ft, memo, objs, last, leak, nops

hvars == <<pool, ft, memo, objs, last, leak, nops>>

EmptyFn == [x \in {} |-> 0]

\* ------------------------------------------------------------------ the builder's Compile
TrimB(s) ==
  LET idx == {i \in 1..Len(s) : ~IsSpaceU(s[i])} IN
  IF idx = {} THEN <<>> ELSE SubSeq(s, MinOf(idx), MaxOf(idx))
MemoKey(a) == IF Mode = "memoTrim" THEN TrimB(a) ELSE a
Memoising == Mode \in {"memo", "memoNoErr", "memoStale", "memoTrim"}

RECURSIVE CompK(_, _, _)
RECURSIVE KLoop(_, _, _, _, _, _, _, _)
RECURSIVE StmtK(_, _, _)
RECURSIVE ArgsK(_, _, _, _, _, _)

\* the arguments of a call, left to right; mm is the memory
ArgsK(args, j, ftab, mm, st, er) ==
  IF j > Len(args) THEN [st |-> st, er |-> er, memo |-> mm]
  ELSE LET a == args[j] k == MemoKey(args[j]) IN
    IF Memoising /\ k \in DOMAIN mm
    THEN ArgsK(args, j + 1, ftab, mm, Append(st, mm[k].st),
               er \o (IF Mode = "memoNoErr" THEN <<>> ELSE mm[k].er))
    ELSE LET c == CompK(a, ftab, mm)
             joined == JoinM(c.st)
             m2 == IF Memoising THEN (k :> [st |-> joined, er |-> c.er]) @@ c.memo ELSE c.memo
         IN ArgsK(args, j + 1, ftab, m2, Append(st, joined), er \o c.er)

StmtK(sb, ftab, mm) ==
  LET args == SplitM(sb) IN
  IF Len(args) = 0 THEN [st |-> <<>>, er |-> <<"empty">>, memo |-> mm]
  ELSE IF Len(args) = 1 THEN [st |-> <<SimpleVarM(args[1])>>, er |-> <<>>, memo |-> mm]
  ELSE IF args[1] \in DOMAIN ftab THEN
    LET a == ArgsK(args, 2, ftab, mm, <<>>, <<>>) IN
    [st |-> <<CallV(args[1], ftab[args[1]], a.st)>>, er |-> a.er, memo |-> a.memo]
  ELSE [st |-> <<LitN(ErrText(args[1]))>>, er |-> <<"unknownFunc">>, memo |-> mm]

KLoop(r, i, depth, sb, st, er, ftab, mm) ==
  IF i > Len(r) THEN
    [st |-> IF sb # <<>> THEN Append(st, LitN(sb)) ELSE st,
     er |-> IF depth # 0 THEN Append(er, "unterminated") ELSE er,
     memo |-> mm]
  ELSE LET c == r[i] IN
    IF c = BSL THEN
      IF i + 1 <= Len(r) THEN KLoop(r, i + 2, depth, Append(sb, Unescape(r[i + 1])), st, er, ftab, mm)
      ELSE KLoop(r, i + 1, depth, Append(sb, BSL), st, er, ftab, mm)
    ELSE IF c = LBR THEN
      IF depth = 0
      THEN KLoop(r, i + 1, 1, <<>>, IF sb # <<>> THEN Append(st, LitN(sb)) ELSE st, er, ftab, mm)
      ELSE KLoop(r, i + 1, depth + 1, Append(sb, c), st, er, ftab, mm)
    ELSE IF c = RBR /\ depth > 0 THEN
      IF depth = 1
      THEN LET res == StmtK(sb, ftab, mm) IN KLoop(r, i + 1, 0, <<>>, st \o res.st, er \o res.er, ftab, res.memo)
      ELSE KLoop(r, i + 1, depth - 1, Append(sb, c), st, er, ftab, mm)
    ELSE KLoop(r, i + 1, depth, Append(sb, c), st, er, ftab, mm)
CompK(r, ftab, mm) == KLoop(r, 1, 0, <<>>, <<>>, <<>>, ftab, mm)

\* ------------------------------------------------------------------ evaluation of a compiled template
RECURSIVE Rebind(_, _)
\* "lateBind": the call resolves its function in the table of the moment of the evaluation
Rebind(x, ftab) ==
  IF x.k \in {"call", "cat"}
  THEN [x EXCEPT !.n = IF x.k = "call" /\ x.s \in DOMAIN ftab THEN ftab[x.s] ELSE x.n,
                 !.args = [j \in 1..Len(x.args) |-> Rebind(x.args[j], ftab)]]
  ELSE x
EvalObj(o, ftab) ==
  IF Mode = "lateBind" THEN Spell([j \in 1..Len(o.st) |-> Rebind(o.st[j], ftab)]) ELSE Spell(o.st)

\* ------------------------------------------------------------------ operations
\* one record shape for both operations
OpFunc(name, ver) == [op |-> "func", name |-> name, ver |-> ver, tpl |-> <<>>]
OpCompile(tpl) == [op |-> "compile", name |-> <<>>, ver |-> 0, tpl |-> tpl]

DoFunc(o) ==
  /\ ft' = (o.name :> o.ver) @@ ft
  /\ memo' = IF Mode = "memoStale" THEN memo ELSE EmptyFn
  /\ UNCHANGED <<objs, last, leak>>
\* (text and r are bound by \E over singleton sets: TLC then evaluates them once; a LET would be
\*  re-evaluated at every use inside an action)
DoCompile(o) ==
  \E text \in {PrintTpl(o.tpl)} : \E r \in {CompK(text, ft, memo)} :
  LET er == IF Mode = "errLeak" THEN leak \o r.er ELSE r.er IN
  /\ objs' = Append(objs, [st |-> r.st, out0 |-> EvalObj([st |-> r.st], ft)])
  /\ last' = [text |-> text, tpl |-> o.tpl, ftAt |-> ft, st |-> r.st, er |-> er]
  /\ memo' = r.memo
  /\ leak' = er
  /\ UNCHANGED ft

\* ------------------------------------------------------------------ pools of operations
(* A pool is built around a THEME argument a (and a neighbour b that a sloppy      *)
(* memory could confuse with it): the same argument text recurs inside one         *)
(* template, across templates, at different depths, at top level and below a       *)
(* function that is registered only later.                                         *)
FnZ == FnX        \* zz: registered by Func in the course of a history
Ck == 107
Themes == <<
  LitN(<<Ca>>),                                 \*  1  a
  LitN(<<Ca, SP>>),                             \*  2  "a "
  LitN(<<>>),                                   \*  3  ""
  EmptyN,                                       \*  4  {}            malformed
  GrpN(1),                                      \*  5  {1}
  KeyN(<<C1, Ca>>),                             \*  6  {1a}
  CallN(Fn2, <<LitN(<<Ca>>)>>),                 \*  7  {g a}
  CallN(FnZ, <<LitN(<<Ca>>)>>),                 \*  8  {zz a}        malformed until zz is registered
  CallN(FnZ, <<GrpN(1)>>),                      \*  9  {zz {1}}
  CallN(Fn2, <<EmptyN>>),                       \* 10  {g {}}        malformed below a registered function
  QtN(<<GrpN(0)>>),                             \* 11  "{0}"
  QtN(<<LitN(<<Ca, SP>>), KeyN(<<Ck>>)>>),      \* 12  "a {k}"
  QtN(<<LitN(<<Ca>>), EmptyN>>),                \* 13  "a{}"         malformed inside quotes
  CallN(FnY, <<LitN(<<Ca>>)>>),                 \* 14  {F a}         never registered (f is)
  CallN(Fn1, <<KeyN(<<Ck>>), LitN(<<>>)>>),     \* 15  {f {k} ""}
  CallN(Fn2, <<CallN(FnZ, <<EmptyN>>)>>)        \* 16  {g {zz {}}}   two malformations, one hides the other
>>
NThemes == Len(Themes)

VMin == CHOOSE v \in VBase : v.seps = <<SPs>>
VTab == CHOOSE v \in VBase : v.seps = <<TBs>>
HVariants == <<VMin, VOdd, VTab>>

\* pool number -> theme, neighbour, variant
PoolIds == IF Thorough THEN 1..(3 * NThemes) ELSE 1..NThemes
ThemeOf(p) == Themes[((p - 1) % NThemes) + 1]
NeighbourOf(p) == Themes[(p % NThemes) + 1]
VariantOf(p) == HVariants[(((p - 1) \div NThemes + p - 1) % 3) + 1]

IsStmt(x) == x.k \in {"grp", "key", "call", "empty"}
PlainTpls(a, b) ==
  {<<CallN(Fn1, <<a>>)>>,                                                       \* {f a}
   <<CallN(Fn1, <<a, a>>)>>,                                                    \* {f a a}     twice in one template
   <<LitN(<<120>>), CallN(Fn2, <<GrpN(1), a>>), LitN(<<SP, 116>>)>>,            \* x{g {1} a} t
   <<CallN(Fn1, <<CallN(Fn2, <<a>>)>>)>>,                                       \* {f {g a}}   one level deeper
   <<CallN(FnZ, <<a>>)>>,                                                       \* {zz a}      below a function registered later
   <<CallN(Fn1, <<a, b, a>>)>>,                                                 \* {f a b a}
   <<CallN(Fn1, <<b>>)>>,                                                       \* {f b}
   <<CallN(Fn2, <<b, b>>)>>}                                                    \* {g b b}
  \cup (IF IsStmt(a) THEN {<<a>>, <<a, LitN(<<SP>>), a>>} ELSE {})              \* the theme as a top-level statement
  \cup (IF Thorough /\ IsStmt(a) THEN {<<CallN(Fn3, <<b, a>>), a>>} ELSE {})       \* argument and top level in one template

\* an unterminated statement at top level: {f a   (nothing of it may survive in the builder)
Unterminated(a, v) == DropT(AnnT(<<LitN(<<120>>), CallN(Fn1, <<a>>)>>, v), 1, 1)

FuncOps ==
  {OpFunc(FnZ, 0), OpFunc(Fn1, 1)} \cup (IF Thorough THEN {OpFunc(Fn2, 2), OpFunc(FnZ, 3)} ELSE {})

Ops(p) ==
  LET a == ThemeOf(p) b == NeighbourOf(p) v == VariantOf(p) IN
  {OpCompile(AnnT(t, v)) : t \in PlainTpls(a, b)} \cup {OpCompile(Unterminated(a, v))} \cup FuncOps

\* ------------------------------------------------------------------ the machine
NoCall == [text |-> <<>>, tpl |-> <<>>, ftAt |-> EmptyFn, st |-> <<>>, er |-> <<>>]
HInit ==
  /\ pool \in IF PoolSel = 0 THEN PoolIds ELSE {PoolSel}
  /\ ft = BaseFt /\ memo = EmptyFn /\ objs = <<>> /\ last = NoCall /\ leak = <<>> /\ nops = 0
HStep(o) ==
  /\ nops' = nops + 1
  /\ UNCHANGED pool
  /\ IF o.op = "func" THEN DoFunc(o) ELSE DoCompile(o)
HNext == nops < MaxOps /\ \E o \in Ops(pool) : HStep(o)
HSpec == HInit /\ [][HNext]_hvars

\* ------------------------------------------------------------------ laws
Outcome(st, er) == [er |-> er, tree |-> NormSeq(st), out |-> Spell(st)]

\* the outcome of the latest Compile is a function of (text, function table) only
HistIndepP(p) == Outcome(last.st, last.er) = Outcome(p.st, p.er)
HistIndep == last # NoCall => HistIndepP(CompileF(last.text, last.ftAt))

\* a compiled template keeps its value, whatever the builder did afterwards
EvalStable == \A i \in 1..Len(objs) : EvalObj(objs[i], ft) = objs[i].out0

\* the abstract layer under the table of the moment (the laws of ExprSyntax_MC, for any table)
StepLawP(p) ==
  /\ WFTpl(last.tpl)
  /\ IF MutatedF(last.tpl, DOMAIN last.ftAt)
     THEN ErrLowerF(last.tpl, DOMAIN last.ftAt) # {} /\ ErrClassP(last.tpl, last.ftAt, p)
     ELSE RoundTripP(last.tpl, last.ftAt, p)
StepLawOK == last # NoCall => StepLawP(CompileF(last.text, last.ftAt))

\* all three in one evaluation (the history-free parse is computed once)
HistLawsOK ==
  /\ EvalStable
  /\ last # NoCall => LET p == CompileF(last.text, last.ftAt) IN HistIndepP(p) /\ StepLawP(p)
=============================================================================

---------------------------- MODULE ExprArray_MC ----------------------------
(* B3 for C17: the laws the property states, decided by TLC on the model          *)
(* (ExprArray!EvalT - the very evaluator the real code is compared with) over     *)
(* small ranges.  A law is an independent characterisation of the result (an      *)
(* inverse, an index formula, an equation between two different expressions), not *)
(* a second copy of the definition.                                               *)
(* State space: one header state per law, its successors are the law's cases.     *)
EXTENDS ExprArray, TLC

CONSTANT Thorough

VARIABLE c      \* [hdr, law, x]

I(n) == Itoa(n)
Sa == <<97>>
Sb == <<98>>
Sc == <<99>>
Sx == <<120>>
Kk == <<107>>
KS == <<<<Kk, Sx>>>>
A0 == Arg(0)
A1 == Arg(1)
Strs(alpha, n) == UNION {[1..k -> alpha] : k \in 0..n}
Lists(S, n) == UNION {[1..k -> S] : k \in 0..n}
Pairs(A, B) == {<<a, b>> : a \in A, b \in B}
Triples(A, B, C) == {<<a, b, d>> : a \in A, b \in B, d \in C}

Ev(x, m) == EvalT(x, Env(m, KS))
IsOut(e) == e.k = "out"
OutIs(e, v) == e.k = "out" /\ e.v = v
\* the LIST an "out" expectation denotes; exact when no element is empty or the list has >= 2 elements
LOf(e) == ListOf(e.v)
Num(e) == IntVal(e.v)

Delims == {<<44>>, <<44, 32>>, <<195, 169>>, <<97, 98>>, <<97, 97>>}
SL == IF Thorough THEN 6 ELSE 5
AlphaOf(d) == {d[i] : i \in 1..Len(d)} \cup {97, 120}
Dist(n) == [i \in 1..n |-> <<117 + i>>]                   \* v w x y z ...: distinct, non-empty
NE == {Sa, Sb, <<99, 100>>}                               \* non-empty elements
E3 == {<<>>, Sa, <<98, 98>>}
Disjoint(l, d) == \A i \in 1..Len(l) : \A j \in 1..Len(l[i]) : \A k \in 1..Len(d) : l[i][j] # d[k]
HasD(s, d) == IndexOf(s, d) # 0

\* ---- integers of the whole 64-bit type (ExprWideInt)
W60 == W(FALSE, <<49, 49, 53, 50, 57, 50, 49, 53, 48, 52, 54, 48, 54, 56, 52, 54, 57, 55, 54>>)       \* 2^60
W61 == W(FALSE, <<50, 51, 48, 53, 56, 52, 51, 48, 48, 57, 50, 49, 51, 54, 57, 51, 57, 53, 50>>)       \* 2^61
W62 == W(FALSE, <<52, 54, 49, 49, 54, 56, 54, 48, 49, 56, 52, 50, 55, 51, 56, 55, 57, 48, 52>>)       \* 2^62
W32 == W(FALSE, <<52, 50, 57, 52, 57, 54, 55, 50, 57, 54>>)       \* 2^32
W31 == W(FALSE, <<50, 49, 52, 55, 52, 56, 51, 54, 52, 56>>)       \* 2^31
ASSUME W60 = WPow2(60) /\ W61 = WPow2(61) /\ W62 = WPow2(62) /\ W32 = WPow2(32) /\ W31 = WPow2(31)
\* the 3-bit machine inside the 64-bit one: v |-> v * 2^61 commutes with + - < and with wrap-around
T3 == (0 - 4)..3
Scale(v) == WMulInt(W61, v)
SI(v) == WText(Scale(v))
WI(w) == Lit(WText(w))
\* values next to the ends of the type and to zero
NearPts == {WMin64, WAdd(WMin64, WOne), WAdd(WMin64, WOfInt(2)), WOfInt(0 - 2), WOfInt(0 - 1), WZero, WOne, WOfInt(2),
            WSub(WMax64, WOfInt(2)), WSub(WMax64, WOne), WMax64}
NearIncr == {WOne, WOfInt(2), WOfInt(0 - 1), WOfInt(0 - 2), WMax64, WMin64, WNeg(WMax64), W62, WNeg(W62), WAdd(W62, WOne),
             WSub(WMax64, WOne), WAdd(W62, W61), WNeg(WAdd(W62, W61))}
Huge == {WMax64, WSub(WMax64, WOne), W32, W31, WAdd(W62, WOne)}

Laws == {"joinsplit", "splitjoin", "splitcount", "len", "select", "slice", "slicecat", "selslice", "docs",
         "map", "filter", "reduce", "range", "for", "in", "concat", "keys", "static",
         "embed", "rangesmall", "rangewide", "slicesmall", "slicewide", "forwide"}

Cases(law) ==
  CASE law = "joinsplit" -> UNION {Pairs(Strs(AlphaOf(d), SL), {d}) : d \in Delims}
    [] law = "splitjoin" -> Pairs(Lists(E3 \cup {<<120, 121>>, <<44>>, <<97, 44>>, <<32, 97>>}, 3), Delims)
    [] law = "splitcount" -> UNION {Pairs(Strs(AlphaOf(d), SL), {d}) : d \in Delims}
    [] law = "len" -> Lists(E3, 4)
    [] law = "select" -> UNION {Pairs({n}, (0 - (n + 2))..(n + 2)) : n \in 0..5}
    [] law = "slice" -> UNION {Triples({n}, (0 - (n + 2))..(n + 2), (0 - 1)..(n + 2)) : n \in 0..5}
    [] law = "slicecat" -> UNION {Pairs({l}, 0..Len(l)) : l \in Lists(E3, 3) \cup {Dist(5)}}
    [] law = "selslice" -> UNION {Pairs({n}, (0 - n)..(n + 1)) : n \in 1..5}
    [] law = "docs" -> {1}
    [] law = "map" -> Lists(E3, 4) \ {<<>>, << <<>> >>}
    [] law = "filter" -> Lists({Sa, Sb, Sc, <<>>}, 4)
    [] law = "reduce" -> Lists({I(1), I(2), I(0 - 4), I(7)}, 4) \ {<<>>}
    [] law = "range" -> Triples((0 - 4)..6, (0 - 4)..7, ((0 - 3)..3) \ {0})
    [] law = "for" -> 0..10
    [] law = "in" -> Pairs(E3 \cup {Sb}, {l \in Lists(E3, 3) : Len(l) >= 2})
    [] law = "concat" -> Lists(E3 \cup {Sc}, 4) \ {<<>>}
    [] law = "keys" -> Lists(NE, 3) \ {<<>>}
    [] law = "static" -> {1}
    [] law = "embed" -> Triples(T3, T3, T3)
    [] law = "rangesmall" -> Triples((0 - 4)..6, (0 - 4)..7, ((0 - 3)..3) \ {0})
    [] law = "rangewide" -> Triples(NearPts, NearPts, NearIncr)
    [] law = "slicesmall" -> UNION {Triples({n}, (0 - (n + 2))..(n + 2), (0 - 1)..(n + 2)) : n \in 0..4}
    [] law = "slicewide" -> Triples(0..4, (0 - 6)..6, Huge)
    [] law = "forwide" -> Triples({WSub(WMax64, WOfInt(3)), WMin64, W62, WNeg(W62), WOfInt(5), WAdd(WMin64, WOfInt(2))},
                                  {WOne, WOfInt(0 - 1), W61, WNeg(W61), W62, WOfInt(3)}, 0..4)

Prefix(r, l) == Len(r) <= Len(l) /\ \A i \in 1..Len(r) : r[i] = l[i]

LawOK(law, x) ==
  CASE law = "joinsplit" ->
         \* @join(@split(s, d), d) = s   for EVERY string and every non-empty delimiter
         LET s == x[1]  d == x[2] IN
         OutIs(Ev(Call("@join", <<Call("@split", <<A0, Lit(d)>>), Lit(d)>>), <<s>>), s)
    [] law = "splitjoin" ->
         \* @split(@join(l, d), d) = l   when no element shares a byte with d (for a single byte
         \* delimiter: when no element contains d)
         LET l == x[1]  d == x[2] IN
         (Disjoint(l, d) \/ (Len(d) = 1 /\ \A i \in 1..Len(l) : ~HasD(l[i], d))) =>
           OutIs(Ev(Call("@split", <<Call("@join", <<A0, Lit(d)>>), Lit(d)>>), <<Render(l)>>), Render(l))
    [] law = "splitcount" ->
         \* the pieces contain no delimiter-free... : no piece but the last ends a search early:
         \* every piece is free of d, and re-assembling counts: |s| = sum |piece| + (k-1) |d|
         LET s == x[1]  d == x[2]
             e == Ev(Call("@split", <<A0, Lit(d)>>), <<s>>)
             p == SplitSeq(s, d)
         IN IsOut(e) /\ e.v = Render(p) /\ (\A i \in 1..Len(p) : ~HasD(p[i], d))
            /\ Len(s) = Len(Flatten(p)) + (Len(p) - 1) * Len(d)
            /\ OutIs(Ev(Call("@len", <<Call("@split", <<A0, Lit(d)>>)>>), <<s>>), I(IF s = <<>> THEN 0 ELSE Len(p)))
    [] law = "len" ->
         \* @len counts elements ("" is the empty list; <<"">> shares its representation)
         OutIs(Ev(Call("@len", <<A0>>), <<Render(x)>>), I(IF x = << <<>> >> THEN 0 ELSE Len(x)))
    [] law = "select" ->
         LET n == x[1]  i == x[2]  l == Dist(n)
             want == IF i >= 0 /\ i < n THEN l[i + 1] ELSE IF i < 0 /\ i >= 0 - n THEN l[n + i + 1] ELSE <<>>
         IN OutIs(Ev(Call("@select", <<A0, Lit(I(i))>>), <<Render(l)>>), want)
    [] law = "slice" ->
         \* indices in -(n+2)..n+2, lengths none (-1 here), 0..n+2: the result is the run of consecutive
         \* elements starting at the (from-the-end, clamped) start, of the requested length, clipped
         LET n == x[1]  s == x[2]  k == x[3]  l == Dist(n)
             e == IF k < 0 THEN Ev(Call("@slice", <<A0, Lit(I(s))>>), <<Render(l)>>)
                  ELSE Ev(Call("@slice", <<A0, Lit(I(s)), Lit(I(k))>>), <<Render(l)>>)
             s0 == IF s < 0 THEN n + s ELSE s
             from == IF s0 < 0 THEN 0 ELSE IF s0 > n THEN n ELSE s0
             run(r) == \A j \in 1..Len(r) : r[j] = l[from + j]          \* consecutive elements from `from`
         IN IF e.k = "oneof" THEN
              s0 < 0 /\ k >= 0 /\ \A a \in 1..Len(e.alts) : LET r == ListOf(e.alts[a]) IN Len(r) <= k /\ Len(r) <= n /\ run(r)
            ELSE /\ IsOut(e)
                 /\ LET r == LOf(e) IN
                    /\ from + Len(r) <= n /\ run(r)
                    /\ (k < 0 => Len(r) = n - from)
                    /\ (k >= 0 /\ s0 >= 0 => Len(r) = (IF n - from < k THEN n - from ELSE k))
                    /\ (k >= 0 /\ s0 < 0 => Len(r) <= k)
    [] law = "slicecat" ->
         \* @slice l 0 k  ++  @slice l k  =  l
         LET l == x[1]  k == x[2]
             a == Ev(Call("@slice", <<A0, Lit(I(0)), Lit(I(k))>>), <<Render(l)>>)
             b == Ev(Call("@slice", <<A0, Lit(I(k))>>), <<Render(l)>>)
         IN IsOut(a) /\ IsOut(b) /\ a.v = Render(SubSeq(l, 1, k)) /\ b.v = Render(SubSeq(l, k + 1, Len(l)))
            /\ (k > 0 /\ k < Len(l) => a.v \o NULS \o b.v = Render(l))
    [] law = "selslice" ->
         \* @select(@slice l s 1, 0) = @select l s
         LET n == x[1]  s == x[2]  l == Dist(n) IN
         Ev(Call("@select", <<Call("@slice", <<A0, Lit(I(s)), Lit(I(1))>>), Lit(I(0))>>), <<Render(l)>>)
           = Ev(Call("@select", <<A0, Lit(I(s))>>), <<Render(l)>>)
    [] law = "docs" ->
         \* the examples of docs/usage/expressions.md
         LET arr == Render(<<I(1), I(2), I(3), I(4)>>)
             S(a) == Ev(Call("@slice", <<A0>> \o a), <<arr>>)
         IN /\ OutIs(S(<<Lit(I(1))>>), Render(<<I(2), I(3), I(4)>>))
            /\ OutIs(S(<<Lit(I(1)), Lit(I(1))>>), Render(<<I(2)>>))
            /\ OutIs(S(<<Lit(I(0 - 2))>>), Render(<<I(3), I(4)>>))
            /\ OutIs(S(<<Lit(I(0 - 2)), Lit(I(1))>>), Render(<<I(3)>>))
            /\ OutIs(Ev(Call("@range", <<Lit(I(5))>>), <<>>), Render(<<I(0), I(1), I(2), I(3), I(4)>>))
            /\ OutIs(Ev(Call("@range", <<Lit(I(1)), Lit(I(10)), Lit(I(2))>>), <<>>), Render(<<I(1), I(3), I(5), I(7), I(9)>>))
            /\ OutIs(Ev(Call("@for", <<Lit(I(0)), Call("lt", <<A0, Lit(I(5))>>), Call("sumi", <<A0, Lit(I(1))>>)>>), <<>>),
                     Render(<<I(0), I(1), I(2), I(3), I(4)>>))
            /\ OutIs(Ev(Call("@for", <<Lit(I(1)), Call("lt", <<A1, Lit(I(5))>>), Call("sumi", <<A0, A0>>)>>), <<>>),
                     Render(<<I(1), I(2), I(4), I(8), I(16)>>))
            /\ OutIs(Ev(Call("@map", <<A0, Call("multi", <<A0, Lit(I(2))>>)>>), <<Render(<<I(1), I(2), I(3)>>)>>), Render(<<I(2), I(4), I(6)>>))
            /\ OutIs(Ev(Call("@reduce", <<A0, Call("sumi", <<A0, A1>>)>>), <<Render(<<I(1), I(2), I(3)>>)>>), I(6))
            /\ OutIs(Ev(Call("@filter", <<A0, Call("isnum", <<A0>>)>>), <<Render(<<I(1), <<97, 98, 99>>, I(23), <<101, 102, 103>>>>)>>), Render(<<I(1), I(23)>>))
            /\ OutIs(Ev(Call("@len", <<Lit(<<>>)>>), <<>>), I(0)) /\ OutIs(Ev(Call("@len", <<Lit(Sa)>>), <<>>), I(1))
            /\ OutIs(Ev(Call("@split", <<Lit(<<97, 32, 98>>)>>), <<>>), Render(<<Sa, Sb>>))
    [] law = "map" ->
         \* element-wise, order and length preserving; the identity maps a list to itself
         LET l == x  r == Render(l)  n == Len(l)
             up == Ev(Call("@map", <<A0, Cat(<<A0, Lit(Sx)>>)>>), <<r>>)
         IN /\ OutIs(Ev(Call("@map", <<A0, A0>>), <<r>>), r)
            /\ IsOut(up) /\ LOf(up) = [i \in 1..n |-> l[i] \o Sx]
            /\ \A i \in 0..(n - 1) :
                 Ev(Call("@select", <<Call("@map", <<A0, Cat(<<A0, Lit(Sx)>>)>>), Lit(I(i))>>), <<r>>)
                   = Ev(Cat(<<Call("@select", <<A0, Lit(I(i))>>), Lit(Sx)>>), <<r>>)
            /\ OutIs(Ev(Call("@len", <<Call("@map", <<A0, Call("len", <<A0>>)>>)>>), <<r>>), I(n))
    [] law = "filter" ->
         \* an order preserving sub-list; a predicate and its negation partition the list
         LET l == x  r == Render(l)
             yes == Ev(Call("@filter", <<A0, Call("eq", <<A0, Lit(Sa)>>)>>), <<r>>)
             no  == Ev(Call("@filter", <<A0, Call("neq", <<A0, Lit(Sa)>>)>>), <<r>>)
             ne  == Ev(Call("@filter", <<A0, A0>>), <<r>>)
         IN /\ IsOut(yes) /\ IsOut(no) /\ IsOut(ne)
            /\ yes.v = Render(SelectSeq(l, LAMBDA e : e = Sa))
            /\ no.v = Render(SelectSeq(l, LAMBDA e : e # Sa))
            /\ ne.v = Render(SelectSeq(l, LAMBDA e : e # <<>>))
            /\ CountNul(ne.v) = (IF SelectSeq(l, LAMBDA e : e # <<>>) = <<>> THEN 0 ELSE Len(SelectSeq(l, LAMBDA e : e # <<>>)) - 1)
    [] law = "reduce" ->
         \* a LEFT fold starting with the first element (or the initial value): {0} memo, {1} element
         LET l == x  r == Render(l)  n == Len(l)
             v(i) == IntVal(l[i])
             sum == IF n = 1 THEN v(1) ELSE IF n = 2 THEN v(1) + v(2) ELSE IF n = 3 THEN v(1) + v(2) + v(3) ELSE v(1) + v(2) + v(3) + v(4)
         IN /\ OutIs(Ev(Call("@reduce", <<A0, Call("sumi", <<A0, A1>>)>>), <<r>>), I(sum))
            /\ OutIs(Ev(Call("@reduce", <<A0, Call("subi", <<A0, A1>>)>>), <<r>>), I(2 * v(1) - sum))
            /\ OutIs(Ev(Call("@reduce", <<A0, Call("subi", <<A0, A1>>), Lit(I(100))>>), <<r>>), I(100 - sum))
            /\ OutIs(Ev(Call("@reduce", <<A0, Cat(<<A0, A1>>)>>), <<r>>), Flatten(l))
            /\ OutIs(Ev(Call("@reduce", <<A0, Cat(<<A0, Lit(<<45>>), A1>>)>>), <<r>>), JoinSeq(l, <<45>>))
            /\ Ev(Call("@reduce", <<A0, Cat(<<A0, Lit(<<45>>), A1>>)>>), <<r>>) = Ev(Call("@join", <<A0, Lit(<<45>>)>>), <<r>>)
            /\ OutIs(Ev(Call("@reduce", <<A0, A1>>), <<r>>), l[n]) /\ OutIs(Ev(Call("@reduce", <<A0, A0>>), <<r>>), l[1])
    [] law = "range" ->
         \* exactly start, start+incr, ... strictly before stop; nothing missing at the end
         LET a == x[1]  b == x[2]  s == x[3]
             e == Ev(Call("@range", <<Lit(I(a)), Lit(I(b)), Lit(I(s))>>), <<>>)
         IN IF (s > 0 /\ a > b) \/ (s < 0 /\ a < b) THEN e.k = "any"
            ELSE /\ IsOut(e)
                 /\ LET r == LOf(e)  n == Len(r) IN
                    /\ \A k \in 1..n : r[k] = I(a + (k - 1) * s) /\ (s > 0 => a + (k - 1) * s < b) /\ (s < 0 => a + (k - 1) * s > b)
                    /\ (s > 0 => a + n * s >= b) /\ (s < 0 => a + n * s <= b)
                    /\ (a = b => e.v = <<>>)
                    /\ (s = 1 /\ a = 0 => e = Ev(Call("@range", <<Lit(I(b))>>), <<>>))
                    /\ (s = 1 => e = Ev(Call("@range", <<Lit(I(a)), Lit(I(b))>>), <<>>))
    [] law = "for" ->
         \* {0} is the current value, {1} the index; the loop stops at the first falsy condition
         LET n == x IN
         /\ Ev(Call("@for", <<Lit(I(0)), Call("lt", <<A0, Lit(I(n))>>), Call("sumi", <<A0, Lit(I(1))>>)>>), <<>>)
              = Ev(Call("@range", <<Lit(I(n))>>), <<>>)
         /\ Ev(Call("@for", <<Lit(I(0)), Call("lt", <<A1, Lit(I(n))>>), Call("sumi", <<A1, Lit(I(1))>>)>>), <<>>)
              = Ev(Call("@range", <<Lit(I(n))>>), <<>>)
         /\ OutIs(Ev(Call("@for", <<Lit(Sx), Call("lt", <<A1, Lit(I(n))>>), A1>>), <<>>),
                  Render([k \in 1..n |-> IF k = 1 THEN Sx ELSE I(k - 2)]))
         /\ OutIs(Ev(Call("@len", <<Call("@for", <<Lit(Sx), Call("lt", <<A1, Lit(I(n))>>), Lit(<<>>)>>)>>), <<>>), I(n))
    [] law = "in" ->
         LET v == x[1]  l == x[2]
             e == Ev(Call("@in", <<A0, Call("@", [i \in 1..Len(l) |-> Lit(l[i])])>>), <<v>>)
             member == \E i \in 0..(Len(l) - 1) : OutIs(Ev(Call("@select", <<A0, Lit(I(i))>>), <<Render(l)>>), v)
         IN e.k = (IF member THEN "truthy" ELSE "falsy")
    [] law = "concat" ->
         \* {@ ..} and {$ ..} concatenate their arguments in order: n arguments (n >= 2) are n elements
         LET l == x  n == Len(l)
             e == Ev(Call("@", [i \in 1..n |-> Arg(i - 1)]), l)
         IN /\ OutIs(e, Render(l)) /\ e = Ev(Call("$", [i \in 1..n |-> Arg(i - 1)]), l)
            /\ (n >= 2 => OutIs(Ev(Call("@len", <<Call("@", [i \in 1..n |-> Arg(i - 1)])>>), l), I(n)))
            /\ (n >= 2 => CountNul(e.v) = n - 1)
            /\ (n >= 3 => Ev(Call("@", <<Call("@", <<A0, A1>>), Arg(2)>>), l) = Ev(Call("@", <<A0, A1, Arg(2)>>), l)
                          /\ Ev(Call("@", <<A0, Call("$", <<A1, Arg(2)>>)>>), l) = Ev(Call("@", <<A0, A1, Arg(2)>>), l))
            /\ \A i \in 0..(n - 1) : n >= 2 => OutIs(Ev(Call("@select", <<Call("@", [j \in 1..n |-> Arg(j - 1)]), Lit(I(i))>>), l), l[i + 1])
    [] law = "keys" ->
         \* named keys inside a sub-expression are those of the ENCLOSING match, at every depth;
         \* {0} is the element of the innermost helper
         LET l == x  r == Render(l)  n == Len(l)
             inner == Call("@join", <<Call("@map", <<Call("@", <<A0, Key(Kk)>>), Cat(<<A0, Key(Kk)>>)>>), Lit(<<43>>)>>)
         IN /\ OutIs(Ev(Call("@map", <<A0, Cat(<<A0, Key(Kk)>>)>>), <<r>>), Render([i \in 1..n |-> l[i] \o Sx]))
            /\ OutIs(Ev(Call("@map", <<A0, inner>>), <<r>>), Render([i \in 1..n |-> l[i] \o Sx \o <<43>> \o Sx \o Sx]))
            /\ OutIs(Ev(Call("@filter", <<A0, Call("eq", <<Cat(<<A0, Key(Kk)>>), Lit(Sa \o Sx)>>)>>), <<r>>),
                     Render(SelectSeq(l, LAMBDA e : e = Sa)))
            /\ OutIs(Ev(Call("@reduce", <<A0, Cat(<<A0, Key(Kk), A1>>)>>), <<r>>), JoinSeq(l, Sx))
            /\ OutIs(Ev(Call("@for", <<Key(Kk), Call("lt", <<A1, Lit(I(2))>>), Cat(<<A0, Key(Kk)>>)>>), <<r>>), Render(<<Sx, Sx \o Sx>>))
            /\ Ev(Call("@map", <<A0, Arg(1)>>), <<r>>).k = "any"      \* only the documented bindings are specified
    [] law = "static" ->
         \* which expressions are compile-time constants ({i} bound by a sub-expression is not a lookup)
         /\ IsStatic(Call("@map", <<Call("@", <<Lit(Sa), Lit(Sb)>>), Call("upper", <<A0>>)>>))
         /\ ~IsStatic(Call("@map", <<Call("@", <<Lit(Sa), Lit(Sb)>>), Cat(<<A0, Key(Kk)>>)>>))
         /\ ~IsStatic(Call("@map", <<A0, A0>>))
         /\ IsStatic(Call("@for", <<Lit(I(0)), Call("lt", <<A0, Lit(I(3))>>), Call("sumi", <<A0, A1>>)>>))
         /\ Ev(Call("@select", <<A0, A1>>), <<Sa, I(0)>>).k = "marker"
         /\ Ev(Call("@select", <<A0, Call("@reduce", <<Call("@range", <<Lit(I(3))>>), Call("sumi", <<A0, A1>>)>>)>>), <<Render(Dist(5))>>) = OutS(<<121>>)
    [] law = "embed" ->
         \* the 64-bit @range on the arguments of the 3-bit machine scaled by 2^61 is the scaled 3-bit range
         \* (ExprArrayWidth: the loop of the code produces RangeInts on every 3..6-bit machine)
         LET a == x[1]  b == x[2]  s == x[3]
             e == Ev(Call("@range", <<Lit(SI(a)), Lit(SI(b)), Lit(SI(s))>>), <<>>)
             ri == RangeInts(a, b, s)
         IN IF s = 0 THEN e.k = "marker"
            ELSE IF (s > 0 /\ a > b) \/ (s < 0 /\ a < b) THEN e.k = "any"
            ELSE OutIs(e, Render([k \in 1..Len(ri) |-> SI(ri[k])]))
    [] law = "rangesmall" ->
         \* where TLC's integers reach, the digit-sequence generator is the closed form
         LET a == x[1]  b == x[2]  s == x[3] IN
         ~((s > 0 /\ a > b) \/ (s < 0 /\ a < b)) =>
           RangeW(WOfInt(a), WOfInt(b), WOfInt(s), MAXGEN + 1) = RangeL(a, b, s)
    [] law = "rangewide" ->
         \* next to the ends of the type: exactly start + k*incr strictly before stop, nothing missing
         LET a == x[1]  b == x[2]  s == x[3]
             e == Ev(Call("@range", <<WI(a), WI(b), WI(s)>>), <<>>)
             at(k) == WAdd(a, WMulInt(s, k))
             wrong == (~s.neg /\ WLess(b, a)) \/ (s.neg /\ WLess(a, b))
         IN IF wrong THEN e.k = "any"
            ELSE IF WBefore(at(MAXGEN), b, s) THEN e.k = "any"                 \* more than MAXGEN elements
            ELSE /\ IsOut(e)
                 /\ LET r == LOf(e)  n == Len(r) IN
                    /\ \A k \in 1..n : r[k] = WText(at(k - 1)) /\ WBefore(at(k - 1), b, s) /\ WFits64(at(k - 1))
                    /\ ~WBefore(at(n), b, s)
                    /\ (a = b => e.v = <<>>)
    [] law = "slicesmall" ->
         LET n == x[1]  s == x[2]  k == x[3]  l == Dist(n) IN
         /\ SliceAltsW(l, WOfInt(s), k >= 0, WOfInt(k)) = SliceAlts(l, s, k >= 0, k)
         /\ SelectW(l, WOfInt(s)) = SelectL(l, s)
    [] law = "slicewide" ->
         \* a length no list reaches is no length; a position no list reaches selects nothing / everything
         LET n == x[1]  s == x[2]  h == x[3]  l == Dist(n)  r == Render(l)
             S(args) == Ev(Call("@slice", <<A0>> \o args), <<r>>)
             whole == S(<<Lit(I(0))>>)
         IN /\ (s >= 0 - n => S(<<Lit(I(s)), WI(h)>>) = S(<<Lit(I(s))>>))
            /\ OutIs(S(<<WI(h)>>), <<>>) /\ OutIs(S(<<WI(h), Lit(I(2))>>), <<>>) /\ OutIs(S(<<WI(h), WI(h)>>), <<>>)
            /\ OutIs(whole, r) /\ S(<<WI(WNeg(h))>>) = whole /\ S(<<WI(WMin64)>>) = whole
            /\ OutIs(Ev(Call("@select", <<A0, WI(h)>>), <<r>>), <<>>)
            /\ OutIs(Ev(Call("@select", <<A0, WI(WNeg(h))>>), <<r>>), <<>>)
            /\ OutIs(Ev(Call("@select", <<A0, WI(WMin64)>>), <<r>>), <<>>)
            /\ LET e == S(<<WI(WMin64), WI(WMax64)>>) IN        \* virtual start -2^63 + n, length 2^63 - 1: ends before n - 1
                 IF n <= 1 THEN OutIs(e, r) \/ (n = 1 /\ e.k = "oneof")
                 ELSE e.k = "oneof" /\ {e.alts[j] : j \in 1..Len(e.alts)} = {r, Render(SubSeq(l, 1, n - 1))}
            /\ Ev(Call("@slice", <<A0, Lit(I(1)), WI(WNeg(h))>>), <<r>>).k = "any"
    [] law = "forwide" ->
         \* @for start {1} < n, {0} + c  is  @range start start + n*c c, wherever the values are in the type
         LET a == x[1]  s == x[2]  n == x[3]
             f == Ev(Call("@for", <<WI(a), Call("lt", <<A1, Lit(I(n))>>), Call("sumi", <<A0, WI(s)>>)>>), <<>>)
             fits == \A k \in 0..n : WFits64(WAdd(a, WMulInt(s, k)))
         IN IF ~fits THEN f.k = "any"
            ELSE /\ OutIs(f, Render([k \in 1..n |-> WText(WAdd(a, WMulInt(s, k - 1)))]))
                 /\ f = Ev(Call("@range", <<WI(a), WI(WAdd(a, WMulInt(s, n))), WI(s)>>), <<>>)

Init == c \in {[hdr |-> TRUE, law |-> w, x |-> 0] : w \in Laws}
Next == /\ c.hdr
        /\ \E x \in Cases(c.law) : c' = [hdr |-> FALSE, law |-> c.law, x |-> x]
LawHolds == c.hdr \/ LawOK(c.law, c.x)
=============================================================================

------------------------------- MODULE Follow -------------------------------
(* C15 - abstract specification of "following" a path (rare -f / -F, inotify   *)
(* or --poll, optionally --tail).                                               *)
(*                                                                              *)
(* The ENVIRONMENT owns the path: files[k] is the content of the k-th file that *)
(* ever existed at the path, cur is the one that is there now (0 = none).  Its  *)
(* operations are Append, Remove (only when everything appended so far has been *)
(* delivered - the property's precondition) and (re-)Create.                    *)
(* The READER is seen only through what Read returns: Deliver(data) and End     *)
(* (io.EOF).                                                                    *)
(*                                                                              *)
(* The property: delivered is always a prefix of Expected and, once the         *)
(* environment is quiet, becomes equal to it; plain follow ends the stream      *)
(* after the removal (and not before), re-open follow never ends it.            *)
(*                                                                              *)
(* THE PATH AND ITS NEIGHBOURS.  `cur` is the file the followed path RESOLVES   *)
(* TO: the path may be the file's own name or a symbolic link to it (in the same *)
(* or another directory) - the specification does not distinguish the two, so   *)
(* "the size of the path" in any implementation is the size of what the path     *)
(* leads to, never a property of the link.  Everything else that lives in the   *)
(* directory - files whose names are extensions, prefixes or suffixes of the     *)
(* followed name, created, appended to, renamed among themselves, removed - is   *)
(* EnvOther: it changes nothing the property talks about (law OthersInvisible in *)
(* FollowNotify.tla: the reader takes no event of another path for its own).     *)
(*                                                                              *)
(* `dom` is the explicit DOMAIN of the demands.  It is left only in poll +      *)
(* re-open mode, when a re-created file is not "still shorter than what was     *)
(* already delivered when the poller notices it".  The moment of noticing is    *)
(* internal, so the abstract specification is angelic about it: the demands     *)
(* are dropped as soon as the new file reaches that size at ANY moment before   *)
(* the reader has delivered a first byte of it (`fresh`).  FollowPoll.tla has   *)
(* the exact moment as a ghost variable and is checked against the exact form.  *)
EXTENDS Bytes, TLC

VARIABLES
  mode,       \* [poll |-> BOOLEAN, reopen |-> BOOLEAN, tail |-> BOOLEAN]; never changes
  files,      \* <<content of file 1, content of file 2, ...>>
  cur,        \* id of the file at the path now, 0 = none
  start,      \* offset in file 1 at which following starts (0, or its length at open with tail)
  delivered,  \* all bytes returned by Read so far
  ended,      \* Read has returned io.EOF
  fresh,      \* no byte of file `cur` has been delivered since it was (re-)created
  dom         \* the property's demands (still) apply

avars == <<mode, files, cur, start, delivered, ended, fresh, dom>>

Tail1 == SubSeq(files[1], start + 1, Len(files[1]))

\* what a follower must deliver, given everything the environment did so far
Expected ==
  IF mode.reopen THEN Tail1 \o Flatten(SubSeq(files, 2, Len(files))) ELSE Tail1

Drained == delivered = Expected

\* offset in Expected (re-open mode) at which the content of file k begins
RECURSIVE OffsetOf(_)
OffsetOf(k) == IF k <= 1 THEN 0
               ELSE IF k = 2 THEN Len(Tail1)
               ELSE OffsetOf(k - 1) + Len(files[k - 1])

\* bytes that were delivered out of file k (it was drained when it was removed)
DeliveredFrom(k) == IF k = 1 THEN Len(files[1]) - start ELSE Len(files[k])

\* poll-mode side condition, evaluated on the state after an environment step:
\* the re-created file fs[c] is no longer shorter than what was delivered of its predecessor
Breaks(fs, c, fr) ==
  /\ mode.poll /\ mode.reopen
  /\ c > 1 /\ fr
  /\ Len(fs[c]) >= (IF c = 2 THEN Len(fs[1]) - start ELSE Len(fs[c - 1]))

AInit(m, init) ==
  /\ mode = m
  /\ files = <<init>> /\ cur = 1
  /\ start = IF m.tail THEN Len(init) ELSE 0
  /\ delivered = <<>> /\ ended = FALSE /\ fresh = FALSE /\ dom = TRUE

------------------------------------------------------------------------------
\* environment
EnvAppend(b) ==
  /\ cur # 0 /\ b # <<>>
  /\ files' = [files EXCEPT ![cur] = @ \o b]
  /\ dom' = (dom /\ ~Breaks(files', cur, fresh))
  /\ UNCHANGED <<mode, cur, start, delivered, ended, fresh>>

EnvRemove ==
  /\ cur # 0
  /\ dom => Drained                \* "once delivered data is followed by removal"
  /\ cur' = 0
  /\ UNCHANGED <<mode, files, start, delivered, ended, fresh, dom>>

EnvCreate ==
  /\ cur = 0
  /\ files' = Append(files, <<>>)
  /\ cur' = Len(files) + 1
  /\ fresh' = TRUE
  /\ dom' = (dom /\ ~Breaks(files', cur', TRUE))
  /\ UNCHANGED <<mode, start, delivered, ended>>

\* any operation on ANOTHER path of the directory (a sibling is created, appended to, renamed to another
\* sibling name, removed): invisible - nothing the property talks about changes
EnvOther == UNCHANGED <<mode, files, cur, start, delivered, ended, fresh, dom>>

\* reader: the effect of a delivery on the observation variables (used by the
\* implementation-shaped models, which must NOT inherit the guard)
DeliverEffect(data) ==
  /\ delivered' = delivered \o data
  /\ fresh' = (fresh /\ ~(cur # 0 /\ mode.reopen /\ Len(delivered') > OffsetOf(cur)))

Deliver(data) ==
  /\ data # <<>>
  /\ dom => (~ended /\ IsPrefixOf(delivered \o data, Expected))
  /\ DeliverEffect(data)
  /\ UNCHANGED <<mode, files, cur, start, ended, dom>>

\* io.EOF: only plain follow, only after file 1 was removed ("blocks rather than ending while the file exists")
End ==
  /\ dom => (~ended /\ ~mode.reopen /\ cur # 1)
  /\ ended' = TRUE
  /\ UNCHANGED <<mode, files, cur, start, delivered, fresh, dom>>

\* parameter-free forms (targets of the refinement checks)
EnvAppendAny ==
  /\ cur # 0 /\ Len(files') = Len(files)
  /\ IsPrefixOf(files[cur], files'[cur]) /\ files'[cur] # files[cur]
  /\ EnvAppend(SubSeq(files'[cur], Len(files[cur]) + 1, Len(files'[cur])))
DeliverAny ==
  /\ IsPrefixOf(delivered, delivered') /\ delivered' # delivered
  /\ Deliver(SubSeq(delivered', Len(delivered) + 1, Len(delivered')))

ANext == EnvAppendAny \/ EnvRemove \/ EnvCreate \/ EnvOther \/ DeliverAny \/ End
ASpec == (\E m \in [poll : BOOLEAN, reopen : BOOLEAN, tail : BOOLEAN] :
           \E init \in Seq(0..255) : AInit(m, init)) /\ [][ANext]_avars
\* safety part as an action formula over given initial states
ASafe == [][ANext]_avars

------------------------------------------------------------------------------
\* is the end of the stream demanded in this state?  Plain follow, file 1 removed; a poller can
\* only see a removal while the path is empty (it compares nothing but existence).
EndDemanded == ~mode.reopen /\ cur # 1 /\ (mode.poll => cur = 0)

\* the state a quiet environment must lead to
Complete == dom => (Drained /\ (EndDemanded => ended))

PrefixOK   == dom => IsPrefixOf(delivered, Expected)
NoEarlyEnd == (dom /\ ended) => (~mode.reopen /\ cur # 1)
Live       == <>[]Complete
=============================================================================

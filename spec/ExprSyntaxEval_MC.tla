------------------------- MODULE ExprSyntaxEval_MC -------------------------
(* B3 for ExprSyntaxEval: every interleaving (Grain = "fine": of single steps)   *)
(* of the workers of every case of the pool.  Shared = {} must satisfy           *)
(* EvalLawsOK; Shared = {"cat"} (C09-5) and {"seq"} must violate EvalOK - with    *)
(* two workers on a template without any function of a funcs file, and with ONE  *)
(* worker on a funcs-file function applied to itself.                            *)
EXTENDS ExprSyntaxEval
\* every behaviour ends: no step is possible exactly when all workers have returned
Terminates == (~ENABLED Next) => Done
=============================================================================

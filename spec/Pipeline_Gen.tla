----------------------------- MODULE Pipeline_Gen -----------------------------
(* B1 generator: complete behaviours of Pipeline (run with -simulate), projected  *)
(* on what the environment of the real pipeline controls, plus the model's end    *)
(* state.  One JSON vector per behaviour:                                          *)
(*   kinds   the corpus (line kinds per file)                                      *)
(*   feed    the order in which the readers obtain their lines / see end of file: *)
(*           <<f, "line">>, <<f, "tick">> (line after which the flush timer cut   *)
(*           the batch), <<f, "eof">>                                              *)
(*   cuts    the batch lengths every reader produced                               *)
(*   full    the match channel was full at some point (consumer slower than the   *)
(*           workers)                                                              *)
(*   end     totals and the set of emitted lines <<f, i>> when the consumer saw   *)
(*           the channel closed                                                    *)
EXTENDS Pipeline_MC, Json
VARIABLES feed, cuts, full
gvars == <<vars, feed, cuts, full>>

GInit == Init /\ feed = <<>> /\ cuts = [f \in 1..NF |-> <<>>] /\ full = FALSE
Scanned == {f \in 1..NF : rpc[f] = "scan" /\ (pos'[f] # pos[f] \/ rpc'[f] \in {"final", "exit"})}
Sent == {f \in 1..NF : bstart'[f] # bstart[f]}
GNext ==
  /\ Step
  /\ feed' = IF Scanned = {} THEN feed
             ELSE LET f == CHOOSE x \in Scanned : TRUE IN
                  Append(feed, <<f, IF pos'[f] = pos[f] THEN "eof"
                                    ELSE IF rpc'[f] = "send" /\ Len(rbatch'[f]) < Batch THEN "tick"
                                    ELSE "line">>)
  /\ cuts' = IF Sent = {} THEN cuts
             ELSE LET f == CHOOSE x \in Sent : TRUE IN [cuts EXCEPT ![f] = Append(@, Len(rbatch[f]))]
  /\ full' = (full \/ Len(rchan') = ReadCap)
Dump == Terminated =>
  PrintT("VFJ " \o ToJson([corpus |-> Corpus, kinds |-> Kinds, batch |-> Batch, workers |-> Workers,
                           readers |-> Readers, buf |-> BufCap, tf |-> IF TimeFlush THEN 1 ELSE 0,
                           feed |-> feed, cuts |-> cuts, full |-> IF full THEN 1 ELSE 0,
                           end |-> [read |-> readLines, matched |-> matchedLines, ignored |-> ignoredLines,
                                    got |-> {id \in LineIds : got[id] > 0}]]))
=============================================================================

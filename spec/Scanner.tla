------------------------------ MODULE Scanner ------------------------------
(* C04 - abstract specification of a line scanner over a byte stream that is   *)
(* delivered by an unreliable reader in arbitrary chunks.                       *)
(*                                                                              *)
(* The scanner's observable behaviour: Deliver (the underlying reader returned  *)
(* bytes and/or an error), Emit (Scan() returned a line), ReportErr (the error  *)
(* callback ran), End (Scan() returned false).                                  *)
EXTENDS Bytes

\* ---- the reference: what the lines of a byte string are ---------------------
DropOneCR(s) == IF s # <<>> /\ s[Len(s)] = CR THEN SubSeq(s, 1, Len(s) - 1) ELSE s

\* lines of the bytes delivered so far; closed = the reader ended (EOF or error)
RefSplit(s, closed) ==
  LET parts == SplitOn(s, LF)
      n     == Len(parts)
      term  == [i \in 1..(n - 1) |-> DropOneCR(parts[i])]
      tail  == parts[n]
  IN IF closed /\ tail # <<>> THEN term \o <<tail>> ELSE term

VARIABLES
  pending,   \* bytes delivered by the reader and not yet returned as (part of) a line
  st,        \* "open" | "eof" | "fail" : state of the underlying reader
  errs,      \* number of error callbacks so far
  ntoks,     \* number of lines returned
  done       \* Scan() has returned false

avars == <<pending, st, errs, ntoks, done>>

AInit == pending = <<>> /\ st = "open" /\ errs = 0 /\ ntoks = 0 /\ done = FALSE

\* the reader returned data (possibly empty) with result e; never called again after an error
Deliver(data, e) ==
  /\ st = "open" /\ ~done
  /\ pending' = pending \o data
  /\ st' = IF e = "nil" THEN "open" ELSE e
  /\ UNCHANGED <<errs, ntoks, done>>

\* what the next line must be, given the pending bytes: <<tok, rest>> or <<>> if none is available
NextLine(p, closed) ==
  LET i == IndexByte(p, LF) IN
  IF i # 0 THEN <<DropOneCR(SubSeq(p, 1, i - 1)), DropFirst(p, i)>>
  ELSE IF closed /\ p # <<>> THEN <<p, <<>> >>
  ELSE <<>>

Emit(tok) ==
  /\ ~done
  /\ LET nl == NextLine(pending, st # "open") IN
       /\ nl # <<>>
       /\ tok = nl[1]
       /\ pending' = nl[2]
  /\ ntoks' = ntoks + 1
  /\ UNCHANGED <<st, errs, done>>

ReportErr ==
  /\ st = "fail" /\ errs = 0
  /\ errs' = 1
  /\ UNCHANGED <<pending, st, ntoks, done>>

End ==
  /\ ~done /\ st # "open" /\ pending = <<>>
  /\ st = "fail" => errs = 1
  /\ done' = TRUE
  /\ UNCHANGED <<pending, st, errs, ntoks>>

\* parameter-free forms, used as the target of refinement checks
DeliverAny ==
  /\ st = "open" /\ ~done
  /\ IsPrefixOf(pending, pending')
  /\ st' \in {"open", "eof", "fail"}
  /\ UNCHANGED <<errs, ntoks, done>>
EmitAny ==
  LET nl == NextLine(pending, st # "open") IN nl # <<>> /\ Emit(nl[1])
ANext == DeliverAny \/ EmitAny \/ ReportErr \/ End
ASpec == AInit /\ [][ANext]_avars

ErrOnce == errs <= 1 /\ (errs = 1 => st = "fail")
=============================================================================

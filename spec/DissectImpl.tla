----------------------------- MODULE DissectImpl -----------------------------
(* C12 - implementation-shaped model of one DissectInstance                     *)
(* (pkg/matchers/dissect/dissect.go, case.go, pkg/slicepool/intpool.go).        *)
(*                                                                              *)
(*  - CompileImpl / IndexIgnoreCase: see DissectOps;                            *)
(*  - the instance as a state machine: FindSubmatchIndex is a scan loop that    *)
(*    carves its result slice from an int pool (slabs of SlabRes results; a new *)
(*    slab is allocated when the current one is used up; nothing is recycled)   *)
(*    and fills it token by token.  IntPool.Get is written step by step, one    *)
(*    step per access to the pool header `s.pool`:                              *)
(*        get   : if len(s.pool) < n            (read)                          *)
(*        alloc :     s.pool = make(size)       (write)                         *)
(*        carve : ret = s.pool[:n]              (read; panics beyond the slab)  *)
(*        advr  : tmp = s.pool                  (read)                          *)
(*        advw  : s.pool = tmp[n:]              (write; panics beyond the slab) *)
(*    so that DissectShared can interleave several instances at this grain.     *)
(*    Ghost state: the value every result had when it was handed out.           *)
(*                                                                              *)
(* TLC checks: the compiler agrees with the abstract syntax (Dissect!Errs /     *)
(* Compiled), every returned result equals Dissect!Match / MatchFold, handed    *)
(* out slices are pairwise disjoint and never change afterwards, Get never      *)
(* slices beyond its slab.                                                      *)
EXTENDS DissectOps

CONSTANTS
  PatTexts,   \* the patterns (byte sequences) an instance may be created from; they must compile
  ICs,        \* the ignore-case flags to explore (subset of BOOLEAN)
  Lines,      \* set of lines the caller may pass
  MaxCalls,   \* bound on the number of FindSubmatchIndex calls
  SlabRes     \* results per pool slab (1024 in the code)

-----------------------------------------------------------------------------
(* the instance *)
VARIABLES
  inst,     \* CompileEx + CreateInstance: pattern text, flag, compiled pattern, derived sizes (never changes)
  slabs,    \* all slabs ever allocated: sequence of [1..SlabSize -> Int]
  hdr,      \* the pool header s.pool: [s, u] = slab it points into, ints of that slab already carved
  loc,      \* Get's temporary: the header read by `advr`
  pc,       \* "idle" | "prefix" | "get" | "alloc" | "carve" | "advr" | "advw" | "r0" | "tok" | "panic"
  line,     \* argument of the call in progress
  start,    \* scan position (0-based, like the code)
  k,        \* index of the token being processed
  idx,      \* next free position in ret (0-based)
  ret,      \* handle of the slice being filled: [s, o] = slab, offset
  handed,   \* handles returned to the caller so far (nil results are NoHandle)
  vals,     \* ghost: the value of every result when it was returned
  args      \* ghost: the line of every finished call
P        == inst.p
IC       == inst.ic
RLen     == inst.rlen            \* groupCount*2 + 2
SlabSize == inst.rlen * SlabRes
vars == <<inst, slabs, hdr, loc, pc, line, start, k, idx, ret, handed, vals, args>>

ZeroSlab == [i \in 1..SlabSize |-> 0]
ReadH(h) == IF h = NoHandle THEN Nil ELSE [i \in 1..RLen |-> slabs[h.s][h.o + i]]
Write(h, i, v) == [slabs EXCEPT ![h.s][h.o + i + 1] = v]        \* ret[i] = v, i 0-based

Init ==
  /\ \E text \in PatTexts, ic \in ICs :
       LET c == CompileImpl(text, ic) IN
       /\ inst = [text |-> text, ic |-> ic, p |-> c.p, rlen |-> 2 * Groups(c.p) + 2, err |-> c.err,
                  abs |-> Compiled(text)]
       \* CreateInstance: NewIntPool allocates the first slab
       /\ slabs = <<[i \in 1..((2 * Groups(c.p) + 2) * SlabRes) |-> 0]>>
  /\ hdr = [s |-> 1, u |-> 0] /\ loc = NoHdr
  /\ pc = "idle" /\ line = <<>> /\ start = 0 /\ k = 1 /\ idx = 2
  /\ ret = NoHandle /\ handed = <<>> /\ vals = <<>> /\ args = <<>>

Call(l) ==
  /\ pc = "idle" /\ Len(handed) < MaxCalls
  /\ line' = l /\ pc' = "prefix"
  /\ UNCHANGED <<inst, slabs, hdr, loc, start, k, idx, ret, handed, vals, args>>

ReturnNil ==
  /\ UNCHANGED inst /\ pc' = "idle" /\ ret' = NoHandle
  /\ handed' = Append(handed, NoHandle) /\ vals' = Append(vals, Nil) /\ args' = Append(args, line)

\* locate the prefix
Prefix ==
  /\ pc = "prefix"
  /\ LET i == IF P.prefix = <<>> THEN 0 ELSE IndexFn(IC, line, P.prefix) IN
     IF i < 0 THEN ReturnNil /\ UNCHANGED <<slabs, hdr, loc, line, start, k, idx>>
     ELSE /\ start' = i + Len(P.prefix) /\ pc' = "get"
          /\ UNCHANGED <<inst, slabs, hdr, loc, line, k, idx, ret, handed, vals, args>>

\* ret := groupPool.Get(RLen), one step per access to the pool header
GetChk ==
  /\ pc = "get"
  /\ pc' = IF SlabSize - hdr.u < RLen THEN "alloc" ELSE "carve"
  /\ UNCHANGED <<inst, slabs, hdr, loc, line, start, k, idx, ret, handed, vals, args>>

\* a fresh slab; the old one stays with the results carved from it - nothing is recycled
GetAlloc ==
  /\ pc = "alloc"
  /\ slabs' = Append(slabs, ZeroSlab) /\ hdr' = [s |-> Len(slabs) + 1, u |-> 0]
  /\ pc' = "carve"
  /\ UNCHANGED <<inst, loc, line, start, k, idx, ret, handed, vals, args>>

GetCarve ==
  /\ pc = "carve"
  /\ IF SlabSize - hdr.u < RLen THEN pc' = "panic" /\ ret' = ret        \* slice bounds out of range
     ELSE pc' = "advr" /\ ret' = [s |-> hdr.s, o |-> hdr.u]
  /\ UNCHANGED <<inst, slabs, hdr, loc, line, start, k, idx, handed, vals, args>>

GetAdvR ==
  /\ pc = "advr"
  /\ loc' = hdr /\ pc' = "advw"
  /\ UNCHANGED <<inst, slabs, hdr, line, start, k, idx, ret, handed, vals, args>>

GetAdvW ==
  /\ pc = "advw"
  /\ IF loc.u + RLen > SlabSize THEN pc' = "panic" /\ hdr' = hdr
     ELSE pc' = "r0" /\ hdr' = [loc EXCEPT !.u = @ + RLen]
  /\ loc' = NoHdr
  /\ UNCHANGED <<inst, slabs, line, start, k, idx, ret, handed, vals, args>>

\* ret[0] = start of the prefix
Ret0 ==
  /\ pc = "r0"
  /\ slabs' = Write(ret, 0, start - Len(P.prefix))
  /\ k' = 1 /\ idx' = 2 /\ pc' = "tok"
  /\ UNCHANGED <<inst, hdr, loc, line, start, ret, handed, vals, args>>

\* one iteration of the token loop
TokStep ==
  /\ pc = "tok" /\ k <= Len(P.tokens)
  /\ LET t    == P.tokens[k]
         rest == DropFirst(line, start)
         eo   == IF t.until = <<>> THEN Len(rest) ELSE IndexFn(IC, rest, t.until)
     IN IF eo < 0 THEN ReturnNil /\ UNCHANGED <<slabs, hdr, loc, line, start, k, idx>>     \* the carved slice is abandoned
        ELSE /\ slabs' = IF t.skip THEN slabs
                         ELSE [slabs EXCEPT ![ret.s][ret.o + idx + 1] = start,
                                            ![ret.s][ret.o + idx + 2] = start + eo]
             /\ idx' = IF t.skip THEN idx ELSE idx + 2
             /\ start' = start + eo + Len(t.until)
             /\ k' = k + 1
             /\ UNCHANGED <<inst, hdr, loc, pc, line, ret, handed, vals, args>>

\* ret[1] = start; return ret
Finish ==
  /\ pc = "tok" /\ k > Len(P.tokens)
  /\ slabs' = Write(ret, 1, start)
  /\ pc' = "idle" /\ ret' = NoHandle
  /\ handed' = Append(handed, ret)
  /\ vals' = Append(vals, [i \in 1..RLen |-> slabs'[ret.s][ret.o + i]])
  /\ args' = Append(args, line)
  /\ UNCHANGED <<inst, hdr, loc, line, start, k, idx>>

Get  == GetChk \/ GetAlloc \/ GetCarve \/ GetAdvR \/ GetAdvW
Next == (\E l \in Lines : Call(l)) \/ Prefix \/ Get \/ Ret0 \/ TokStep \/ Finish
Spec == Init /\ [][Next]_vars

-----------------------------------------------------------------------------
(* invariants *)
TypeOK ==
  /\ inst.err = "none"
  /\ hdr.s = Len(slabs) /\ hdr.u \in 0..SlabSize /\ hdr.u % RLen = 0
  /\ Len(handed) = Len(vals) /\ Len(vals) = Len(args)

NoPanic == pc # "panic"

\* every result the caller holds still reads as it did when it was returned
Lifetime == \A i \in 1..Len(handed) : ReadH(handed[i]) = vals[i]

\* the result slices (including the one being filled) never overlap
Live == ({handed[i] : i \in 1..Len(handed)} \cup {ret}) \ {NoHandle}
Disjoint ==
  /\ \A h \in Live : h.s \in 1..Len(slabs) /\ h.o + RLen <= SlabSize
  /\ \A i, j \in 1..Len(handed) : (i < j /\ handed[i] # NoHandle /\ handed[j] # NoHandle) =>
        (handed[i].s # handed[j].s \/ handed[i].o + RLen <= handed[j].o \/ handed[j].o + RLen <= handed[i].o)
  /\ \A i \in 1..Len(handed) : (ret # NoHandle /\ handed[i] # NoHandle) =>
        (handed[i].s # ret.s \/ handed[i].o + RLen <= ret.o \/ ret.o + RLen <= handed[i].o)

\* refinement of the abstract matcher: what is returned is what the specification says
P0 == inst.abs          \* the abstract pattern, Compiled(inst.text)
\* (checked when a result is returned; Lifetime carries it over to all later states)
Refines ==
  LET n == Len(vals) IN
  (n > 0 /\ pc = "idle") => vals[n] = Expected(P0, args[n], IC) /\ Allowed(P0, args[n], IC, vals[n])

\* constant-level facts, evaluated in the initial state only
AtStart == handed = <<>> /\ pc = "idle"
CompileOK == AtStart => CompileRefines(inst.text, IC)
IndexOK ==
  AtStart => \A l \in Lines :
    /\ IndexLaw(l, P0.prefix)
    /\ \A i \in 1..Len(P0.tokens) : \A from \in 0..Len(l) : IndexLaw(DropFirst(l, from), P0.tokens[i].until)
=============================================================================

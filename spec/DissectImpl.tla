----------------------------- MODULE DissectImpl -----------------------------
(* C12 - implementation-shaped model of one DissectInstance                     *)
(* (pkg/matchers/dissect/dissect.go, case.go, pkg/slicepool/intpool.go).        *)
(*                                                                              *)
(*  - CompileImpl: the left-to-right pattern compiler that stops at the first   *)
(*    error it meets;                                                           *)
(*  - IndexIgnoreCase: the case-insensitive substring search against a          *)
(*    pre-lowered needle (the four-way switch of case.go);                      *)
(*  - the instance as a state machine: FindSubmatchIndex is a scan loop that    *)
(*    carves its result slice from an int pool (slabs of SlabRes results; a new *)
(*    slab is allocated when the current one is used up; nothing is recycled)   *)
(*    and fills it token by token.  Ghost state: the value every result had     *)
(*    when it was handed out.                                                   *)
(*                                                                              *)
(* TLC checks: the compiler agrees with the abstract syntax (Dissect!Errs /     *)
(* Compiled), every returned result equals Dissect!Match / MatchFold, handed    *)
(* out slices are pairwise disjoint and never change afterwards.                *)
EXTENDS Dissect, TLC

CONSTANTS
  PatTexts,   \* the patterns (byte sequences) an instance may be created from; they must compile
  ICs,        \* the ignore-case flags to explore (subset of BOOLEAN)
  Lines,      \* set of lines the caller may pass
  MaxCalls,   \* bound on the number of FindSubmatchIndex calls
  SlabRes     \* results per pool slab (1024 in the code)

-----------------------------------------------------------------------------
(* the compiler, written like CompileEx: first error wins *)
RECURSIVE CompileLoop(_, _)
CompileLoop(rest, acc) ==        \* rest begins with %{
  LET body == DropFirst(rest, 2)
      stop == IndexByte(body, RBR)
  IN IF stop = 0 THEN [err |-> "unclosed", tokens |-> acc]
     ELSE
       LET raw   == TakeFirst(body, stop - 1)
           after == DropFirst(body, stop)
           pct   == IndexByte(after, PCT)
           until == IF pct = 0 THEN after ELSE TakeFirst(after, pct - 1)
           next  == IF pct = 0 THEN <<>> ELSE DropFirst(after, pct - 1)
           named == raw # <<>> /\ raw[1] = QM
           skip  == raw = <<>> \/ named
           name  == IF named THEN Tail(raw) ELSE raw
           dup   == \E i \in 1..Len(acc) : ~acc[i].skip /\ acc[i].name = name
       IN IF pct = 1 THEN [err |-> "sequential", tokens |-> acc]
          ELSE IF ~skip /\ dup THEN [err |-> "conflict", tokens |-> acc]
          ELSE IF next = <<>> THEN [err |-> "none", tokens |-> Append(acc, Tok(name, until, skip))]
          ELSE CompileLoop(next, Append(acc, Tok(name, until, skip)))

CompileImpl(text, ic) ==
  LET i == IndexFrom(text, <<PCT, LBR>>, 1)
      r == IF i = 0 THEN [err |-> "none", tokens |-> <<>>] ELSE CompileLoop(DropFirst(text, i - 1), <<>>)
      p == [prefix |-> IF i = 0 THEN text ELSE TakeFirst(text, i - 1), tokens |-> r.tokens]
  IN [err |-> r.err, p |-> IF ic THEN FoldPat(p) ELSE p]

\* the compiler implements the abstract syntax on every in-domain text
CompileRefines(text, ic) ==
  InDomain(text) =>
    LET c == CompileImpl(text, ic) IN
    IF Compiles(text) THEN c.err = "none" /\ c.p = (IF ic THEN FoldPat(Compiled(text)) ELSE Compiled(text))
    ELSE c.err \in Errs(Structure(text))

-----------------------------------------------------------------------------
(* case.go: 0-based index of the first case-insensitive occurrence, -1 if none *)
EqFoldAt(s, low, i) == \A j \in 1..Len(low) : LowerC(s[i + j]) = low[j]      \* i = 0-based offset
IndexIgnoreCase(s, low) ==
  LET n == Len(low) IN
  IF n = 0 THEN 0
  ELSE IF Len(s) < n THEN -1
  ELSE IF Len(s) = n THEN (IF EqFoldAt(s, low, 0) THEN 0 ELSE -1)
  ELSE LET H == {i \in 0..(Len(s) - n) : EqFoldAt(s, low, i)} IN IF H = {} THEN -1 ELSE MinOf(H)

IndexExact(s, sub) == IndexFrom(s, sub, 1) - 1          \* strings.Index
IndexFn(ic, s, sub) == IF ic THEN IndexIgnoreCase(s, sub) ELSE IndexExact(s, sub)

IndexLaw(s, sub) == IndexIgnoreCase(s, LowerASCII(sub)) = IndexExact(LowerASCII(s), LowerASCII(sub))

-----------------------------------------------------------------------------
(* the instance *)
VARIABLES
  inst,     \* CompileEx + CreateInstance: pattern text, flag, compiled pattern, derived sizes (never changes)
  slabs,    \* all slabs ever allocated: sequence of [1..SlabSize -> Int]
  used,     \* ints already carved from the newest slab
  pc,       \* "idle" | "prefix" | "tok" | "fin"
  line,     \* argument of the call in progress
  start,    \* scan position (0-based, like the code)
  k,        \* index of the token being processed
  idx,      \* next free position in ret (0-based)
  ret,      \* handle of the slice being filled: [s, o] = slab, offset
  handed,   \* handles returned to the caller so far (nil results are <<>>)
  vals,     \* ghost: the value of every result when it was returned
  args      \* ghost: the line of every finished call
P        == inst.p
IC       == inst.ic
RLen     == inst.rlen            \* groupCount*2 + 2
SlabSize == inst.rlen * SlabRes
vars == <<inst, slabs, used, pc, line, start, k, idx, ret, handed, vals, args>>

NoHandle == [s |-> 0, o |-> 0]
ZeroSlab == [i \in 1..SlabSize |-> 0]
ReadH(h) == IF h = NoHandle THEN Nil ELSE [i \in 1..RLen |-> slabs[h.s][h.o + i]]
Write(h, i, v) == [slabs EXCEPT ![h.s][h.o + i + 1] = v]        \* ret[i] = v, i 0-based

Init ==
  /\ \E text \in PatTexts, ic \in ICs :
       LET c == CompileImpl(text, ic) IN
       /\ inst = [text |-> text, ic |-> ic, p |-> c.p, rlen |-> 2 * Groups(c.p) + 2, err |-> c.err,
                  abs |-> Compiled(text)]
       /\ slabs = <<[i \in 1..((2 * Groups(c.p) + 2) * SlabRes) |-> 0]>> /\ used = 0 /\ pc = "idle" /\ line = <<>> /\ start = 0 /\ k = 1 /\ idx = 2
  /\ ret = NoHandle /\ handed = <<>> /\ vals = <<>> /\ args = <<>>

Call(l) ==
  /\ pc = "idle" /\ Len(handed) < MaxCalls
  /\ line' = l /\ pc' = "prefix"
  /\ UNCHANGED <<inst, slabs, used, start, k, idx, ret, handed, vals, args>>

ReturnNil ==
  /\ UNCHANGED inst /\ pc' = "idle" /\ ret' = NoHandle
  /\ handed' = Append(handed, NoHandle) /\ vals' = Append(vals, Nil) /\ args' = Append(args, line)

\* locate the prefix, take the result slice, ret[0] = start of the prefix
Prefix ==
  /\ pc = "prefix"
  /\ LET i == IF P.prefix = <<>> THEN 0 ELSE IndexFn(IC, line, P.prefix) IN
     IF i < 0 THEN ReturnNil /\ UNCHANGED <<slabs, used, line, start, k, idx>>
     ELSE \* ret := groupPool.Get(RLen): carve from the newest slab; when it is used up allocate a
          \* fresh slab (the old one stays with the results carved from it - nothing is recycled)
          LET fresh == SlabSize - used < RLen
              h     == IF fresh THEN [s |-> Len(slabs) + 1, o |-> 0] ELSE [s |-> Len(slabs), o |-> used]
              base  == IF fresh THEN Append(slabs, ZeroSlab) ELSE slabs
          IN
            /\ used' = (IF fresh THEN RLen ELSE used + RLen)
            /\ slabs' = [base EXCEPT ![h.s][h.o + 1] = i]          \* ret[0] = start of the prefix
            /\ ret' = h /\ start' = i + Len(P.prefix) /\ k' = 1 /\ idx' = 2
            /\ pc' = "tok" /\ UNCHANGED <<inst, line, handed, vals, args>>

\* one iteration of the token loop
TokStep ==
  /\ pc = "tok" /\ k <= Len(P.tokens)
  /\ LET t    == P.tokens[k]
         rest == DropFirst(line, start)
         eo   == IF t.until = <<>> THEN Len(rest) ELSE IndexFn(IC, rest, t.until)
     IN IF eo < 0 THEN ReturnNil /\ UNCHANGED <<slabs, used, line, start, k, idx>>     \* the carved slice is abandoned
        ELSE /\ slabs' = IF t.skip THEN slabs
                         ELSE [slabs EXCEPT ![ret.s][ret.o + idx + 1] = start,
                                            ![ret.s][ret.o + idx + 2] = start + eo]
             /\ idx' = IF t.skip THEN idx ELSE idx + 2
             /\ start' = start + eo + Len(t.until)
             /\ k' = k + 1
             /\ UNCHANGED <<inst, used, pc, line, ret, handed, vals, args>>

\* ret[1] = start; return ret
Finish ==
  /\ pc = "tok" /\ k > Len(P.tokens)
  /\ slabs' = Write(ret, 1, start)
  /\ pc' = "idle" /\ ret' = NoHandle
  /\ handed' = Append(handed, ret)
  /\ vals' = Append(vals, [i \in 1..RLen |-> slabs'[ret.s][ret.o + i]])
  /\ args' = Append(args, line)
  /\ UNCHANGED <<inst, used, line, start, k, idx>>

Next == (\E l \in Lines : Call(l)) \/ Prefix \/ TokStep \/ Finish
Spec == Init /\ [][Next]_vars

-----------------------------------------------------------------------------
(* invariants *)
TypeOK ==
  /\ inst.err = "none"
  /\ used \in 0..SlabSize /\ used % RLen = 0
  /\ Len(handed) = Len(vals) /\ Len(vals) = Len(args)

\* every result the caller holds still reads as it did when it was returned
Lifetime == \A i \in 1..Len(handed) : ReadH(handed[i]) = vals[i]

\* the result slices (including the one being filled) never overlap
Live == ({handed[i] : i \in 1..Len(handed)} \cup {ret}) \ {NoHandle}
Disjoint ==
  /\ \A h \in Live : h.s \in 1..Len(slabs) /\ h.o + RLen <= SlabSize
  /\ \A i, j \in 1..Len(handed) : (i < j /\ handed[i] # NoHandle /\ handed[j] # NoHandle) =>
        (handed[i].s # handed[j].s \/ handed[i].o + RLen <= handed[j].o \/ handed[j].o + RLen <= handed[i].o)
  /\ \A i \in 1..Len(handed) : (ret # NoHandle /\ handed[i] # NoHandle) =>
        (handed[i].s # ret.s \/ handed[i].o + RLen <= ret.o \/ ret.o + RLen <= handed[i].o)

\* refinement of the abstract matcher: what is returned is what the specification says
P0 == inst.abs          \* the abstract pattern, Compiled(inst.text)
\* (checked when a result is returned; Lifetime carries it over to all later states)
Refines ==
  LET n == Len(vals) IN
  (n > 0 /\ pc = "idle") => vals[n] = Expected(P0, args[n], IC) /\ Allowed(P0, args[n], IC, vals[n])

\* constant-level facts, evaluated in the initial state only
AtStart == handed = <<>> /\ pc = "idle"
CompileOK == AtStart => CompileRefines(inst.text, IC)
IndexOK ==
  AtStart => \A l \in Lines :
    /\ IndexLaw(l, P0.prefix)
    /\ \A i \in 1..Len(P0.tokens) : \A from \in 0..Len(l) : IndexLaw(DropFirst(l, from), P0.tokens[i].until)
=============================================================================

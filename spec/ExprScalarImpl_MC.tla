-------------------------- MODULE ExprScalarImpl_MC --------------------------
(* C11 - implementation-shaped designs of two mechanisms the scalar helpers    *)
(* share, checked against the documented semantics (ExprScalar.Expect):        *)
(*                                                                              *)
(*  truthiness (if / unless / switch / not), TruthDesign:                       *)
(*    "trimspace"    the code: decode runes (an ill-formed byte is U+FFFD),     *)
(*                   trim White_Space runes from both ends, true iff something  *)
(*                   is left                                                    *)
(*    "ascii_bytes"  negative control: a byte loop that knows the six ASCII     *)
(*                   blanks only (true at the first other byte)                 *)
(*    "latin1_bytes" negative control: a byte loop that also takes the bytes    *)
(*                   85 and A0 for blanks                                       *)
(*  float -> numeral (floor / ceil / round), NumDesign:                         *)
(*    "format"       the code: the exact binary64 value is formatted as a       *)
(*                   decimal (ties to even), whatever its size; non-finite      *)
(*                   values are spelled +Inf / -Inf / NaN                       *)
(*    "int64"        negative control: the rounded value is converted to int64  *)
(*                   and formatted as an integer (the conversion of a value     *)
(*                   beyond int64, of an infinity or NaN yields -2^63)          *)
(*    "int64_finite" negative control: the same, with infinities and NaN        *)
(*                   spelled as "format" does (a guard on non-finite values is  *)
(*                   not enough: 2^63, 10^19 are finite)                        *)
(*    "away"         admissible variant: ties away from zero (the docs do not   *)
(*                   say) - must pass as well                                   *)
(*                                                                              *)
(* Conforms: for every case the design's output is accepted by                  *)
(* Matches(Expect(f, args)).  TLC proves it for the code's designs and refutes  *)
(* each negative control.                                                       *)
EXTENDS ExprScalar, TLC

CONSTANTS TruthDesign, NumDesign, Thorough,
          Grps          \* the case groups to explore: a subset of {"cond", "num"}

VARIABLE c      \* [hdr, grp, f, args]

\* ---------------------------------------------------------------- truthiness designs
Runes(s) == LET d == U8Decode(s) IN [i \in 1..Len(d) |-> IF d[i] < 0 THEN 65533 ELSE d[i]]
RECURSIVE TrimL(_)
TrimL(r) == IF r # <<>> /\ r[1] \in U8WS THEN TrimL(Tail(r)) ELSE r
RECURSIVE TrimR(_)
TrimR(r) == IF r # <<>> /\ r[Len(r)] \in U8WS THEN TrimR(SubSeq(r, 1, Len(r) - 1)) ELSE r
RECURSIVE ByteLoop(_, _, _)
ByteLoop(s, i, blanks) == IF i > Len(s) THEN FALSE ELSE IF s[i] \in blanks THEN ByteLoop(s, i + 1, blanks) ELSE TRUE
TruthyD(s) ==
  CASE TruthDesign = "trimspace" -> TrimL(TrimR(Runes(s))) # <<>>
    [] TruthDesign = "ascii_bytes" -> ByteLoop(s, 1, {32, 9, 10, 13, 11, 12})
    [] TruthDesign = "latin1_bytes" -> ByteLoop(s, 1, {32, 9, 10, 13, 11, 12, 133, 160})

RECURSIVE SwitchD(_, _)
SwitchD(args, i) ==
  IF i > Len(args) THEN <<>>
  ELSE IF i = Len(args) THEN args[i]
  ELSE IF TruthyD(args[i]) THEN args[i + 1] ELSE SwitchD(args, i + 2)

\* ---------------------------------------------------------------- float -> numeral designs
M2x63 == <<45>> \o BnShl(<<49>>, 63)                           \* "-9223372036854775808"
Beyond63(d) == ~BnLess(d, BnShl(<<49>>, 63))                    \* |v| >= 2^63
ViaInt == NumDesign \in {"int64", "int64_finite"}
LastEven(d) == d = <<>> \/ (d[Len(d)] - 48) % 2 = 0
\* the numeral of (+/-) Q / 10^p under the design (Q the rounded magnitude)
Numeral(neg, Q, p) ==
  IF ViaInt /\ p = 0 THEN
       IF Beyond63(Q) THEN M2x63 ELSE Signed(neg /\ Q # <<>>, BnFmt(Q, 0))
  ELSE Signed(neg, BnFmt(Q, p))
RoundD(s, p) ==
  LET dp == DecParts(s)  r == BnRound(dp.ip, dp.fp, p)
      Q == IF r.st = "gt" THEN r.up
           ELSE IF r.st = "tie" THEN (IF NumDesign = "away" THEN r.up ELSE IF LastEven(r.dn) THEN r.dn ELSE r.up)
           ELSE r.dn
  IN Numeral(dp.neg, Q, p)
FloorD(f, s) ==
  LET dp == DecParts(s)
      up == dp.fp # <<>> /\ (dp.neg = (f = "floor"))            \* the magnitude grows
      Q == IF up THEN BnInc(dp.ip) ELSE dp.ip
  IN IF ViaInt /\ Beyond63(Q) THEN M2x63 ELSE Signed(dp.neg /\ Q # <<>>, BnFmt(Q, 0))
NonFiniteD(s, viaInt) ==
  IF viaInt THEN M2x63
  ELSE LET w == LowerASCII(s) IN
       IF w[Len(w)] = 110 /\ w[1] = 110 THEN <<78, 97, 78>>                     \* NaN
       ELSE IF w[1] = MINUS THEN <<45, 73, 110, 102>> ELSE <<43, 73, 110, 102>> \* -Inf / +Inf

\* ---------------------------------------------------------------- the designs' outputs
Output(f, args) ==
  CASE f = "if" -> IF TruthyD(args[1]) THEN args[2] ELSE IF Len(args) = 3 THEN args[3] ELSE <<>>
    [] f = "unless" -> IF TruthyD(args[1]) THEN <<>> ELSE args[2]
    [] f = "switch" -> SwitchD(args, 1)
    [] f = "not" -> IF TruthyD(args[1]) THEN <<>> ELSE ONE
    [] f = "round" -> LET p == IF Len(args) = 2 THEN IntVal(args[2]) ELSE 0 IN
                      IF IsInfNan(args[1]) THEN NonFiniteD(args[1], NumDesign = "int64" /\ p = 0) ELSE RoundD(args[1], p)
    [] f \in {"floor", "ceil"} -> IF IsInfNan(args[1]) THEN NonFiniteD(args[1], NumDesign = "int64") ELSE FloorD(f, args[1])

\* ---------------------------------------------------------------- cases
CpPool == U8WS \cup {132, 161, 173, 6158, 8203, 8239 + 1, 12289, 65279, 97, 233, 19990}
CpTexts(n) == {U8EncodeAll(q) : q \in UNION {[1..k -> CpPool] : k \in 0..n}}
Odd == {<<160>>, <<133>>, <<194>>, <<32, 160>>, <<160, 32>>, <<226, 128>>, <<192, 160>>, <<32, 194>>, <<255>>}
SmallPool == {32, 9, 133, 160, 5760, 8195, 8232, 12288, 8203, 65279, 97, 233}
Conds == CpTexts(2) \cup Odd
         \cup (IF Thorough THEN {U8EncodeAll(q) : q \in [1..3 -> SmallPool]} \cup {a \o b : a \in Odd, b \in CpTexts(1)} ELSE {})

Ms == IF Thorough THEN {1, 3, 5, 7, 10, 625, 999999999, 536870913} ELSE {1, 3, 625, 999999999}
Ks == IF Thorough THEN 0..72 \cup {100} ELSE {0, 1, 10, 31, 32, 40, 51, 52, 53, 62, 63, 64, 70, 100}
Frs == {<<DOT, 53>>, <<DOT, 50, 53>>, <<DOT, 55, 53>>, <<DOT, 49, 50, 53>>, <<DOT, 56, 55, 53>>}
\* exactly the texts the specification defines: short decimals and longer ones that binary64 holds exactly
\* (an integer m * 2^k with m < 2^53 always is: law "bigint" of ExprScalar_MC; with a fraction only below 2^52)
InDomain(t) == DecClass(t) = "dec" \/ IsBigExact(t)
Nums == {Signed(neg, BnFmt(BnShl(BnOfInt(m), k), 0)) : m \in Ms, k \in Ks, neg \in BOOLEAN}
        \cup {t \in {Signed(neg, BnFmt(BnShl(BnOfInt(m), k), 0) \o fr) : m \in Ms, k \in {k \in Ks : k <= 52}, fr \in Frs, neg \in BOOLEAN} : InDomain(t)}
        \cup {Signed(neg, BnFmt(BnOfInt(m), 0) \o fr) : m \in 0..12, fr \in Frs \cup {<<>>}, neg \in BOOLEAN}
NonFinite == {<<105, 110, 102>>, <<43, 73, 110, 102>>, <<45, 105, 110, 102>>, <<73, 110, 102, 105, 110, 105, 116, 121>>, <<78, 97, 78>>, <<110, 97, 110>>}

Call(f, args) == [f |-> f, args |-> args]
Sx == <<120>>
Sy == <<121>>
Cases(g) ==
  CASE g = "cond" -> {Call("if", <<v, Sx>>) : v \in Conds} \cup {Call("if", <<v, Sx, Sy>>) : v \in Conds}
                     \cup {Call("unless", <<v, Sy>>) : v \in Conds} \cup {Call("not", <<v>>) : v \in Conds}
                     \cup {Call("switch", <<v, Sx>>) : v \in Conds} \cup {Call("switch", <<v, Sx, Sy>>) : v \in Conds}
                     \cup {Call("switch", <<<<32, 194, 160>>, Sx, v, Sy, <<122>>>>) : v \in Conds}
    [] g = "num" -> {Call(f, <<t>>) : f \in {"floor", "ceil", "round"}, t \in Nums \cup NonFinite}
                    \cup {Call("round", <<t, <<48 + p>>>>) : t \in Nums \cup NonFinite, p \in 0..3}

Init == c \in {[hdr |-> TRUE, g |-> g, f |-> "", args |-> <<>>] : g \in Grps}
Next == c.hdr /\ \E k \in Cases(c.g) : c' = [hdr |-> FALSE, g |-> c.g, f |-> k.f, args |-> k.args]

AllC(n) == [i \in 1..n |-> "c"]
Conforms == c.hdr \/ Matches(c.f, c.args, Expect(c.f, c.args, AllC(Len(c.args))), Output(c.f, c.args), FALSE)
=============================================================================

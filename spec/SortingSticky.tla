--------------------------- MODULE SortingSticky ---------------------------
(* C13 - the contextual comparator written like the implementation               *)
(* (sorting.ByContextualEx): an object with two fields,                          *)
(*     set      - the calendar table inferred from the first key it is asked     *)
(*                about ("none" until then),                                     *)
(*     fallback - set for good at the first key the table does not hold,         *)
(* driving the insertion sort of SortingAlgo.tla (sort.Sort up to 12 keys) from  *)
(* every start permutation of a pool.  One comparison = one step.                *)
(*                                                                                *)
(* A setup <<Member, Pools, MaxN>> is picked by the initial state.               *)
(* `Member` says which keys a table holds:                                        *)
(*   "exact"   - the names and abbreviations of the table (the specification:    *)
(*               only these have a calendar position)                            *)
(*   "prefix3" - NEGATIVE CONTROL: also every longer key whose first three        *)
(*               letters are an abbreviation ("monitoring", "Thu.", "decoder")   *)
(* `Pools`: "homog" - pools whose order the property specifies (one kind: names  *)
(*   of one table, text - look-alikes included -, numbers); "any" - every pool;  *)
(*   "mixed" - every pool of a six-key part of the universe.                     *)
(* TLC decides, for every pool of 2..MaxN keys of the universe and every start:  *)
(*   SpecOrder      the final sequence is the specified one (homogeneous pools)  *)
(*   PermInvariant  every start permutation ends in the sequence the start in    *)
(*                  key order ends in - ALL pairwise decisions taken on the way  *)
(*                  were mutually consistent                                      *)
(*   MachineIsFn    the step machine computes the recursive function             *)
(* exact/homog: holds.  prefix3/homog: SpecOrder and PermInvariant refuted (text *)
(* pool {monitoring, friendly-bot, api}).  exact/any: PermInvariant refuted - the *)
(* known finding about the sticky fallback ({wed, thu, u}), kept as a control.   *)
EXTENDS Sorting, SortingUniv

CONSTANTS Which      \* "code": the specified membership on homogeneous pools; "all": that and the
                     \* two negative controls; "deep": "all" with pools of one more key
Setups == CASE Which = "code" -> {<<"exact", "homog", 4>>}
            [] Which = "all"  -> {<<"exact", "homog", 4>>, <<"prefix3", "homog", 3>>, <<"exact", "mixed", 3>>}
            [] Which = "deep" -> {<<"exact", "homog", 5>>, <<"prefix3", "homog", 4>>, <<"exact", "any", 4>>}

VARIABLES start, arr, i, j, st, setup
vars == <<start, arr, i, j, st, setup>>
Member == setup[1]
Pools  == setup[2]
MaxN   == setup[3]

\* universe: real names (two tables, mixed case), look-alikes of both tables, ordinary words,
\* numbers whose numeric order is not their text order
CU == {<<109, 111, 110>> (* mon *), <<84, 85, 69>> (* TUE *), <<102, 114, 105>> (* fri *),
       <<106, 97, 110>> (* jan *), <<70, 69, 66>> (* FEB *),
       <<109, 111, 110, 105, 116, 111, 114, 105, 110, 103>> (* monitoring *),
       <<102, 114, 105, 101, 110, 100, 108, 121, 45, 98, 111, 116>> (* friendly-bot *),
       <<84, 104, 117, 46>> (* Thu. *),
       <<109, 97, 114, 107, 101, 116, 105, 110, 103>> (* marketing *),
       <<100, 101, 99, 111, 100, 101, 114>> (* decoder *),
       <<97, 112, 105>> (* api *), <<50>> (* 2 *), <<49, 48>> (* 10 *)}

K(n) == [name |-> n, value |-> 0]
Pos(tab, s) == IF Member = "exact" THEN TabIdx(tab, s) ELSE Prefix3Idx(tab, s)
TabOf(set) == IF set = "weekday" THEN WeekdayTab ELSE MonthTab
\* inferSortSetByValue
Infer(s) == IF Pos(WeekdayTab, s) >= 0 THEN "weekday" ELSE IF Pos(MonthTab, s) >= 0 THEN "month" ELSE "nil"
\* ByNameSmart (the fallback) on keys that are numbers or text
SmartLess(a, b) ==
  IF IsNum(a) /\ IsNum(b) THEN (IF NumLess(a, b) THEN TRUE ELSE IF NumLess(b, a) THEN FALSE ELSE BytesLess(a, b))
  ELSE IF IsNum(a) # IsNum(b) THEN IsNum(a)
  ELSE BytesLess(a, b)
\* one call less(a, b) of the comparator object in state cs = [set, fb]: the decision and the next state
Cmp(cs, a, b) ==
  LET set1 == IF ~cs.fb /\ cs.set = "none" THEN Infer(a) ELSE cs.set
      fb1  == cs.fb \/ set1 = "nil"
      pa   == IF fb1 THEN 0 - 1 ELSE Pos(TabOf(set1), a)
      pb   == IF fb1 THEN 0 - 1 ELSE Pos(TabOf(set1), b)
  IN IF ~fb1 /\ pa >= 0 /\ pb >= 0
     THEN [less |-> IF pa # pb THEN pa < pb ELSE BytesLess(a, b), st |-> [set |-> set1, fb |-> FALSE]]
     ELSE [less |-> SmartLess(a, b), st |-> [set |-> set1, fb |-> TRUE]]
Fresh == [set |-> "none", fb |-> FALSE]

\* ------------------------------------------------ the sort as a function (state threaded through)
RECURSIVE Sink(_, _, _)
Sink(a, jj, cs) ==
  IF jj <= 1 THEN [arr |-> a, st |-> cs]
  ELSE LET c == Cmp(cs, a[jj], a[jj - 1]) IN
       IF c.less THEN Sink([a EXCEPT ![jj] = a[jj - 1], ![jj - 1] = a[jj]], jj - 1, c.st)
       ELSE [arr |-> a, st |-> c.st]
RECURSIVE SortFrom(_, _, _)
SortFrom(a, ii, cs) == IF ii > Len(a) THEN a ELSE LET r == Sink(a, ii, cs) IN SortFrom(r.arr, ii + 1, r.st)
SortFn(a) == SortFrom(a, 2, Fresh)

\* the specified sequence of a homogeneous pool: ordered by the reference comparator (the specified
\* order, ties - "mon" / "Monday" - on the raw bytes as the implementation breaks them)
Names(a) == {a[k] : k \in 1..Len(a)}
RefLess(x, y) == ModelLess("contextual", K(x), K(y))
RECURSIVE RefSorted(_)
RefSorted(S) == IF S = {} THEN <<>> ELSE
  LET m == CHOOSE x \in S : \A y \in S \ {x} : RefLess(x, y) IN <<m>> \o RefSorted(S \ {m})
\* the start in key (byte) order
RECURSIVE ByteSorted(_)
ByteSorted(S) == IF S = {} THEN <<>> ELSE
  LET m == CHOOSE x \in S : \A y \in S \ {x} : BytesLess(x, y) IN <<m>> \o ByteSorted(S \ {m})

\* ------------------------------------------------ the sort as a state machine
Homog(S) == Determined("contextual", SetToSeq(S))
\* "mixed": the pools of a six-key part of the universe (names, a look-alike, a word, a number)
CMixed == {<<109, 111, 110>>, <<84, 85, 69>>, <<102, 114, 105>>, <<109, 111, 110, 105, 116, 111, 114, 105, 110, 103>>,
           <<97, 112, 105>>, <<50>>}
PoolSets == {S \in SUBSET (IF Pools = "mixed" THEN CMixed ELSE CU) :
               Cardinality(S) >= 2 /\ Cardinality(S) <= MaxN /\ (Pools \in {"any", "mixed"} \/ Homog(S))}
SeqsOf(S) == {p \in [1..Cardinality(S) -> S] : \A x \in 1..Cardinality(S), y \in 1..Cardinality(S) : x # y => p[x] # p[y]}

Init == /\ setup \in Setups
        /\ \E S \in PoolSets : start \in SeqsOf(S)
        /\ arr = start /\ i = 2 /\ j = 2 /\ st = Fresh
Done == i > Len(arr)
\* less(arr[j], arr[j-1]) asked: the comparator object moves on, the sort swaps or ends the inner loop
Compare == /\ ~Done /\ j > 1
           /\ LET c == Cmp(st, arr[j], arr[j - 1]) IN
              /\ st' = c.st
              /\ IF c.less THEN /\ arr' = [arr EXCEPT ![j] = arr[j - 1], ![j - 1] = arr[j]]
                                /\ j' = j - 1 /\ i' = i
                 ELSE /\ arr' = arr /\ i' = i + 1 /\ j' = i + 1
           /\ UNCHANGED <<start, setup>>
Advance == /\ ~Done /\ j <= 1 /\ i' = i + 1 /\ j' = i + 1 /\ UNCHANGED <<start, arr, st, setup>>
Next == Compare \/ Advance
Spec == Init /\ [][Next]_vars

TypeOK == /\ Names(arr) = Names(start) /\ st.set \in {"none", "weekday", "month", "nil"} /\ st.fb \in BOOLEAN
          /\ (st.set = "nil" => st.fb)
MachineIsFn == Done => arr = SortFn(start)
SpecOrder == (Done /\ Homog(Names(start))) => arr = RefSorted(Names(start))
PermInvariant == Done => arr = SortFn(ByteSorted(Names(start)))
\* the universe holds what the laws are about
UniverseOK == (i = 2 /\ j = 2 /\ start = <<<<109, 111, 110>>, <<84, 85, 69>>>>) =>
              /\ TRUE
              /\ \E x \in CU, y \in CU : LookAlike(x) /\ LookAlike(y) /\ BytesLess(y, x)
                   /\ Prefix3Idx(WeekdayTab, x) >= 0 /\ Prefix3Idx(WeekdayTab, y) > Prefix3Idx(WeekdayTab, x)
              /\ \E x \in CU, y \in CU : LookAlike(x) /\ LookAlike(y) /\ BytesLess(y, x)
                   /\ Prefix3Idx(MonthTab, x) >= 0 /\ Prefix3Idx(MonthTab, y) > Prefix3Idx(MonthTab, x)
              /\ \E x \in CU : CalKind(x) = "no" /\ ~LookAlike(x) /\ NumKind(x) = "text"

\* ------------------------------------------------ one run for the implementation and the controls
\* the laws, demanded of the specified membership on the pools the property specifies
IsCode == Member = "exact" /\ Pools = "homog"
Laws == /\ TypeOK /\ MachineIsFn /\ UniverseOK
        /\ (IsCode => (SpecOrder /\ PermInvariant))
\* NEGATIVE CONTROLS: registers 1..3 record that TLC reached a state refuting
\*   1  prefix3 / homog : SpecOrder      (look-alikes ranked by calendar position)
\*   2  prefix3 / homog : PermInvariant  (... and the pairwise decisions are inconsistent)
\*   3  exact / any     : PermInvariant  (the known finding: sticky fallback on mixed pools)
CtlInit == TLCSet(1, FALSE) /\ TLCSet(2, FALSE) /\ TLCSet(3, FALSE) /\ Init
CtlMark == /\ ((Member = "prefix3" /\ Pools = "homog" /\ ~SpecOrder) => TLCSet(1, TRUE))
           /\ ((Member = "prefix3" /\ Pools = "homog" /\ ~PermInvariant) => TLCSet(2, TRUE))
           /\ ((Member = "exact" /\ Pools \in {"any", "mixed"} /\ ~PermInvariant) => TLCSet(3, TRUE))
CtlAllRefuted == TLCGet(1) /\ TLCGet(2) /\ TLCGet(3)
=============================================================================

--------------------------- MODULE TimeCalHist_Gen ---------------------------
(* B1 generator for C18, histories.  A behaviour of this machine is ONE evaluation   *)
(* history of ONE compiled expression:                                             *)
(*   header (zone, year)  ->  scenario (expression, pool, hist = <<1, 1>>)          *)
(*                        ->  ... append the largest pool index j such that the     *)
(*                            pair (last, j) has not been evaluated back to back    *)
(*                            yet ...  ->  leaf (no fresh pair left)                *)
(* so that at the leaf EVERY ordered pair of pool elements (also x after x) has     *)
(* been evaluated consecutively (K * K + 1 evaluations for K inputs; Dump checks    *)
(* it).  Pools are the adversarial ones of TimeCalHist: to the second around local  *)
(* midnights that start a year / quarter / ISO week-year / week (same UTC day on    *)
(* both sides), around the nearest UTC midnight (same local day on both sides),     *)
(* around both DST changes of the year, a week / 52 weeks / a year apart; for       *)
(* `time` and `buckettime` the texts the model prints for those instants; for       *)
(* format detection texts of all shapes, garbage, empty - and one history per       *)
(* first element, because the first date decides.  At the leaf the expected answer  *)
(* of every evaluation (TimeCalHist.Run) is printed; the Go driver replays the      *)
(* history on one compiled expression.                                              *)
EXTENDS TimeCalHist, Json, TLC

CONSTANTS Thorough, Seed, Part, NParts

VARIABLE g

ZoneSeq == <<"UTC", "America/New_York", "Etc/GMT-14", "Europe/Berlin", "Asia/Kolkata", "Australia/Sydney",
             "Etc/GMT+5", "Etc/GMT+12", "Etc/GMT-3">>
ZoneIdx(z) == CHOOSE i \in 1..Len(ZoneSeq) : ZoneSeq[i] = z
RuleZones == {"America/New_York", "Europe/Berlin", "Australia/Sydney"}
Pick(seq, i) == seq[(i % Len(seq)) + 1]
Rot(seq, r) == [i \in 1..Len(seq) |-> seq[((i - 1 + r) % Len(seq)) + 1]]

NF == SetToSeq(NamedFormats)
RTFormats    == {f \in KnownFormats : LET lay == Layout(f) IN HasDate(lay) /\ HasTime(lay) /\ HasNumOff(lay) /\ Parseable(lay)}
ParseFormats == {f \in KnownFormats : ParseFormat(f)}
RF == SetToSeq(RTFormats)
PF == SetToSeq(ParseFormats)
BK == <<"d", "hours", "mo", "y", "minute", "s", "m">>

\* expressions over unix seconds for zone z (h: a number to vary the choice)
UnixE(z, h) ==
  {MkE("timeattr", 3, "", z, a) : a \in AttrNames}
  \cup {MkE("timeformat", 3, "RFC3339", z, ""), MkE("timeformat", 3, Pick(NF, h), z, ""), MkE("timeformat", 3, Pick(NF, h + 7), z, ""),
        MkE("rt", 3, Pick(RF, h), z, ""), MkE("bucketrt", 4, Pick(PF, h), z, Pick(BK, h))}
  \cup (IF z = "UTC" THEN {MkE("timeattr", 2, "", "", Pick(SetToSeq(AttrNames), h)), MkE("timeformat", 1, "", "", ""),
                           MkE("timeformat", 2, Pick(NF, h + 3), "", "")} ELSE {})
\* expressions over texts printed with layout f
TextE(z, f, h) == {MkE("time", 3, f, z, ""), MkE("buckettime", 4, f, z, Pick(BK, h + 1))}

DetectE(z, h) ==
  <<MkE("time", 3, "cache", z, ""), MkE("time", 3, "auto", z, ""), MkE("buckettime", 4, "cache", z, Pick(BK, h)),
    MkE("buckettime", 4, "auto", z, Pick(BK, h + 2)), MkE("time", 3, "", z, "")>>
  \o (IF z = "UTC" THEN <<MkE("time", 1, "", "", ""), MkE("time", 2, "cache", "", ""), MkE("buckettime", 2, "", "", Pick(BK, h + 4))>> ELSE <<>>)

TextPool(z, a, b) ==
  LET zd == Zone(z) la == Local(zd, a) lb == Local(zd, b) ub == Local(Zone("UTC"), b)
      T(sh, l) == Format(Layout(ShapeFormat(sh)), l)
  IN {T("rfc3339o", la), T("rfc3339o", lb), T("rfc3339z", ub), T("ymdhms", la), T("ymdhms", lb), T("ymdhmso", lb), T("rfc1123z", la),
      <<120, 63>>, <<>>}

Sc(grp, e, pool) == [hdr |-> FALSE, grp |-> grp, e |-> e, pool |-> pool, hi |-> <<1, 1>>]
UnixPool(zd, P) == SetToSeq({UnixDigits(t) : t \in InDomainPool(zd, P)})
PrintPool(zd, f, P) == SetToSeq({Format(Layout(f), Local(zd, t)) : t \in InDomainPool(zd, P)})

H(z, y) == [hdr |-> TRUE, z |-> z, y |-> y]
Years == IF Thorough THEN {y \in 1970..2100 : (y + Seed) % 2 = 0} ELSE {2008 + ((Seed * 11) % 90), 1971 + ((Seed * 17) % 129)}
Headers == {H(z, y) : z \in {ZoneSeq[i] : i \in 1..Len(ZoneSeq)}, y \in Years}

Cases(hd) ==
  LET zd == Zone(hd.z)
      zi == ZoneIdx(hd.z)
      ms == UNION {Midnights(zd, d) : d \in BoundaryDays(hd.y)}
      trs == IF hd.z \in RuleZones /\ DaysFromCivil(hd.y, 1, 2) >= zd.from
             THEN LET tr == Transitions(zd.kind, hd.y) IN {tr.on, tr.off} ELSE {}
      m1 == IF ms = {} THEN {} ELSE {CHOOSE m \in ms : \A m2 \in ms : ~Before(m2, m)}
      rot == (Seed + hd.y + zi)
      pf(h) == Pick(PF, h)
      detect == Thorough \/ (zi + hd.y + Seed) % 3 = 0
  IN UNION {{Sc("midnight", e, Rot(UnixPool(zd, PoolMidnight(m)), rot)) : e \in UnixE(hd.z, m.d + zi)} : m \in ms}
     \cup UNION {{Sc("midnight-text", e, Rot(PrintPool(zd, pf(m.d + zi), PoolMidnight(m)), rot)) : e \in TextE(hd.z, pf(m.d + zi), m.d)} : m \in ms}
     \cup UNION {{Sc("dst", e, Rot(UnixPool(zd, PoolDst(t0)), rot)) : e \in UnixE(hd.z, t0.d + zi)} : t0 \in trs}
     \cup UNION {{Sc("dst-text", e, Rot(PrintPool(zd, pf(t0.d + zi), PoolDst(t0)), rot)) : e \in TextE(hd.z, pf(t0.d + zi), t0.d)} : t0 \in trs}
     \cup UNION {{Sc("far", e, Rot(UnixPool(zd, PoolFar(m)), rot)) : e \in UnixE(hd.z, m.d + zi + 1)} : m \in m1}
     \* format detection: one history per first element for `time ... cache`, one for the others
     \cup (IF ~detect THEN {} ELSE
           UNION {LET tp == SetToSeq(TextPool(hd.z, Plus(m, 0 - 1), m)) de == DetectE(hd.z, m.d) IN
                  {Sc("detect", de[1], Rot(tp, r)) : r \in 0..(Len(tp) - 1)}
                  \cup {Sc("detect", de[i], Rot(tp, rot + i)) : i \in 2..Len(de)} : m \in m1})

Scenarios(hd) == {s \in Cases(hd) : Len(s.pool) >= 2}

Init == g \in {hd \in Headers : (hd.y + ZoneIdx(hd.z)) % NParts = Part}

K(s) == Len(s.pool)
FreshPair(s, j) == \A k \in 1..(Len(s.hi) - 1) : ~(s.hi[k] = s.hi[Len(s.hi)] /\ s.hi[k + 1] = j)
Leaf(s) == \A j \in 1..K(s) : ~FreshPair(s, j)
Next ==
  \/ g.hdr /\ \E s \in Scenarios(g) : g' = s
  \/ ~g.hdr /\ ~Leaf(g) /\
     LET j == CHOOSE j \in 1..K(g) : FreshPair(g, j) /\ \A j2 \in (j + 1)..K(g) : ~FreshPair(g, j2)
     IN g' = [g EXCEPT !.hi = Append(@, j)]

PairsCovered(s) == Cardinality({<<s.hi[k], s.hi[k + 1]>> : k \in 1..(Len(s.hi) - 1)})

OutE(x) == [k |-> x.k, e |-> x.v, ce |-> IF x.ce THEN "y" ELSE "n"]
\* stateless expression: the expectation per pool element; remembering expression: per evaluation
Dump ==
  g.hdr \/ ~Leaf(g) \/
  LET e == g.e
      xs == [n \in 1..Len(g.hi) |-> g.pool[g.hi[n]]]
      rem == Remembers(e)
      exps == IF rem THEN Run(e, "", xs) ELSE [i \in 1..K(g) |-> Expect(CallOf(e, g.pool[i]))]
      ei == IF rem THEN [n \in 1..Len(g.hi) |-> n] ELSE g.hi
      shapes == {DetectShape(g.pool[i]) : i \in 1..K(g)}
  IN PrintT("VFJ " \o ToJson([grp |-> g.grp, f |-> e.f, n |-> e.n, fmt |-> e.fmt, z |-> e.z, b |-> e.b,
                              pool |-> g.pool, xi |-> g.hi, ei |-> ei, exps |-> [i \in 1..Len(exps) |-> OutE(exps[i])],
                              pairs |-> PairsCovered(g), k |-> K(g),
                              conc |-> IF ~rem \/ Cardinality(shapes) = 1 THEN "y" ELSE "n"]))
=============================================================================

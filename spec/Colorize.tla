------------------------------ MODULE Colorize ------------------------------
(* C02 - colourising a line by index pairs (pkg/color/coloring.go WrapIndices,    *)
(* cmd/filter.go).                                                                 *)
(*                                                                                 *)
(*   Accepted(g)        the property: going through the pairs in order, a pair is *)
(*                      coloured iff it is present, non-empty and starts at or    *)
(*                      after the end of the last coloured pair (absent, empty    *)
(*                      and overlapping groups are skipped);                       *)
(*   WrapIndices(s, g)  written like the code (string builder, lastIndex);        *)
(*   StripAnsi(t)       removes every  ESC ... m  sequence;                        *)
(*   ParseAnsi(t)       the text and the coloured spans of an SGR-decorated text, *)
(*                      whatever the palette.                                      *)
(* Theorems checked by Colorize_MC:  StripAnsi(WrapIndices(s, g)) = s  and         *)
(* the coloured spans of WrapIndices(s, g) are exactly Accepted(g).                *)
EXTENDS Bytes

ESC  == 27
LBRK == 91     \* [
MCH  == 109    \* m
Reset == <<ESC, LBRK, 48, MCH>>                        \* ESC[0m
\* color.GroupColors: Red Green Yellow Blue Magenta Cyan, then the six bright variants
GroupColor(k) == IF k < 6 THEN <<ESC, LBRK, 51, 49 + k, MCH>>
                 ELSE <<ESC, LBRK, 51, 49 + (k - 6), 59, 49, MCH>>
NColors == 12
BrightGreen  == <<ESC, LBRK, 51, 50, 59, 49, MCH>>
BrightYellow == <<ESC, LBRK, 51, 51, 59, 49, MCH>>

HasEsc(s) == \E i \in 1..Len(s) : s[i] = ESC
NPairs(g) == Len(g) \div 2
\* a group vector WrapIndices may be given for s: even length, every pair absent or inside s
GroupsOK(s, g) ==
  /\ Len(g) % 2 = 0
  /\ \A p \in 0..(NPairs(g) - 1) :
       \/ g[2 * p + 1] < 0 \/ g[2 * p + 2] < 0
       \/ g[2 * p + 1] > g[2 * p + 2]
       \/ g[2 * p + 2] <= Len(s)

\* ---------------------------------------------------------------- the property
\* spans <<start, end>> (0-based, half open) that are coloured, in order
RECURSIVE AcceptedFrom(_, _, _)
AcceptedFrom(g, p, last) ==
  IF p >= NPairs(g) THEN <<>>
  ELSE LET st == g[2 * p + 1]  en == g[2 * p + 2] IN
       IF st >= 0 /\ en > st /\ st >= last
       THEN <<<<st, en>>>> \o AcceptedFrom(g, p + 1, en)
       ELSE AcceptedFrom(g, p + 1, last)
Accepted(g) == IF Len(g) % 2 # 0 THEN <<>> ELSE AcceptedFrom(g, 0, 0)

\* ---------------------------------------------------------------- written like the code
RECURSIVE WrapLoop(_, _, _, _)
WrapLoop(s, g, i, lastIndex) ==          \* for i := 0; i < len(groups); i += 2
  IF i >= Len(g)
  THEN IF lastIndex < Len(s) THEN SubSeq(s, lastIndex + 1, Len(s)) ELSE <<>>
  ELSE LET start == g[i + 1]  stop == g[i + 2] IN
       IF start >= 0 /\ stop >= 0 /\ stop > start /\ start >= lastIndex
       THEN SubSeq(s, lastIndex + 1, start) \o GroupColor((i \div 2) % NColors)
            \o SubSeq(s, start + 1, stop) \o Reset \o WrapLoop(s, g, i + 2, stop)
       ELSE WrapLoop(s, g, i + 2, lastIndex)
WrapIndices(s, g) == IF Len(g) = 0 \/ Len(g) % 2 # 0 THEN s ELSE WrapLoop(s, g, 0, 0)

\* cmd/filter.go, default output of one match (colour enabled)
FilterRow(line, idx) == IF Len(idx) = 2 THEN WrapIndices(line, idx) ELSE WrapIndices(line, DropFirst(idx, 2))
\* color.Wrap(c, s) for a text that does not end in Reset
Wrap(c, s) == c \o s \o Reset
\* prefix written by `filter -l`
LinePrefix(src, no, colour) ==
  IF colour THEN Wrap(BrightGreen, src) \o <<SP>> \o Wrap(BrightYellow, Itoa(no)) \o <<58, SP>>
  ELSE src \o <<SP>> \o Itoa(no) \o <<58, SP>>

\* ---------------------------------------------------------------- reading decorated text
\* text with every ESC ... m sequence removed
RECURSIVE StripFrom(_, _, _)
StripFrom(t, i, inCode) ==
  IF i > Len(t) THEN <<>>
  ELSE IF inCode THEN StripFrom(t, i + 1, t[i] # MCH)
  ELSE IF t[i] = ESC THEN StripFrom(t, i + 1, TRUE)
  ELSE <<t[i]>> \o StripFrom(t, i + 1, FALSE)
StripAnsi(t) == StripFrom(t, 1, FALSE)

\* [text, spans, open, ok]: the plain text, the spans (0-based half open positions in the plain
\* text) between a colour-on code (any SGR sequence other than Reset) and the following Reset;
\* ok = codes alternate on/off and every code is a complete ESC [ ... m
RECURSIVE ParseFrom(_, _, _)
ParseFrom(t, i, acc) ==
  IF i > Len(t) THEN acc
  ELSE IF t[i] # ESC THEN ParseFrom(t, i + 1, [acc EXCEPT !.text = Append(@, t[i])])
  ELSE LET m == IndexByteFrom(t, MCH, i) IN
       IF m = 0 \/ i + 1 > Len(t) \/ t[i + 1] # LBRK THEN [acc EXCEPT !.ok = FALSE]
       ELSE LET code == SubSeq(t, i, m)
                pos  == Len(acc.text) IN
            IF code = Reset
            THEN IF acc.open < 0 THEN [acc EXCEPT !.ok = FALSE]
                 ELSE ParseFrom(t, m + 1, [acc EXCEPT !.spans = Append(@, <<acc.open, pos>>), !.open = 0 - 1])
            ELSE IF acc.open >= 0 THEN [acc EXCEPT !.ok = FALSE]
                 ELSE ParseFrom(t, m + 1, [acc EXCEPT !.open = pos])
ParseAnsi(t) == ParseFrom(t, 1, [text |-> <<>>, spans |-> <<>>, open |-> 0 - 1, ok |-> TRUE])

\* what the property demands of a colourised line, whatever the palette
WrapOK(s, g, got) ==
  LET p == ParseAnsi(got) IN
  /\ p.ok /\ p.open < 0
  /\ p.text = s
  /\ p.spans = Accepted(g)
=============================================================================

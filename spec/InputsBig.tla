----------------------------- MODULE InputsBig -----------------------------
(* C06 - inputs that are larger than any read buffer or probe window.           *)
(*                                                                              *)
(* The property quantifies over ALL inputs: "completely processed", "delivered  *)
(* decompressed", "read from their first byte" hold whatever the size of an     *)
(* input is relative to the sizes the implementation works with (read buffer,   *)
(* gzip probe window, decompressor window).  Inputs of several hundred KiB      *)
(* cannot be written down byte by byte in a TLC universe; here their CONTENT IS *)
(* SYMBOLIC:                                                                    *)
(*   g = [pre, w, n, tail]   an optional first line of pre bytes (terminator    *)
(*                           included; pre = 1: an empty line), n records of    *)
(*                           exactly w bytes (record i = decimal i padded with  *)
(*                           '.' to w-1 bytes, LF), an optional unterminated    *)
(*                           last line of tail bytes                            *)
(* BigBytes(g) are the bytes, BigLines(g) the lines in symbolic form; law       *)
(* LLayout (checked by TLC for all small g) ties the two together through       *)
(* Inputs!LinesOf, so what is demanded of a big input is what Inputs.tla        *)
(* demands.  Ends(g) are the stream offsets at which a line ends: laws LHit /   *)
(* LNear show that with w dividing B and pre = 0 (1, w-1) a line end falls      *)
(* exactly on (one byte after, one byte before) EVERY multiple of B inside the  *)
(* records - for every B, so a corpus built from several powers of two needs no *)
(* knowledge of the implementation's constants.                                 *)
(* An input is [name, g, k, mem, via]: kind "file" | "gz" | "mgz" (member sizes *)
(* mem, cut anywhere), reached as a regular file, a FIFO or standard input.     *)
(* Expected observation of a run: per source the RUNS of its numbered lines     *)
(* (run-length form of BigLines), no read error, exit status 0.                 *)
EXTENDS Inputs

Dot == 46
Pad(s, m, c) == [j \in 1..m |-> IF j <= Len(s) THEN s[j] ELSE c]
RecText(i, m) == Pad(Itoa(i), m, Dot)
PreText(m)  == [j \in 1..m |-> 112]      \* 'p'
TailText(m) == [j \in 1..m |-> 116]      \* 't'

ContentOK(g) == g.w >= 2 /\ g.n >= 0 /\ g.pre >= 0 /\ g.tail >= 0
Size(g) == g.pre + g.w * g.n + g.tail

RECURSIVE RecBytes(_, _, _)
RecBytes(w, i, n) == IF i >= n THEN <<>> ELSE RecText(i, w - 1) \o <<LF>> \o RecBytes(w, i + 1, n)
BigBytes(g) == (IF g.pre > 0 THEN PreText(g.pre - 1) \o <<LF>> ELSE <<>>) \o RecBytes(g.w, 0, g.n) \o TailText(g.tail)

\* the lines, symbolically: class + record number
HasPre(g) == IF g.pre > 0 THEN 1 ELSE 0
BigLines(g) ==
  (IF g.pre > 0 THEN <<[c |-> "pre", id |-> 0]>> ELSE <<>>)
  \o [i \in 1..g.n |-> [c |-> "rec", id |-> i - 1]]
  \o (IF g.tail > 0 THEN <<[c |-> "tail", id |-> 0]>> ELSE <<>>)
LineText(g, l) == CASE l.c = "pre" -> PreText(g.pre - 1) [] l.c = "rec" -> RecText(l.id, g.w - 1) [] l.c = "tail" -> TailText(g.tail)
NLines(g) == HasPre(g) + g.n + (IF g.tail > 0 THEN 1 ELSE 0)
\* lines the commands show (filter -m '^.+$'): the non-empty ones
NShown(g) == NLines(g) - (IF g.pre = 1 THEN 1 ELSE 0)

\* run-length form of the numbered lines that are shown: [line, c, id, cnt] = lines line..line+cnt-1 are of class
\* c with record numbers id..id+cnt-1
Runs(g) ==
  (IF g.pre > 1 THEN <<[line |-> 1, c |-> "pre", id |-> 0, cnt |-> 1]>> ELSE <<>>)
  \o (IF g.n > 0 THEN <<[line |-> HasPre(g) + 1, c |-> "rec", id |-> 0, cnt |-> g.n]>> ELSE <<>>)
  \o (IF g.tail > 0 THEN <<[line |-> HasPre(g) + g.n + 1, c |-> "tail", id |-> 0, cnt |-> 1]>> ELSE <<>>)
RECURSIVE Unroll(_)
Unroll(rs) ==
  IF rs = <<>> THEN <<>>
  ELSE [j \in 1..rs[1].cnt |-> [line |-> rs[1].line + j - 1, c |-> rs[1].c, id |-> IF rs[1].c = "rec" THEN rs[1].id + j - 1 ELSE 0]]
       \o Unroll(Tail(rs))

\* stream offsets (bytes from the start) at which a line terminator has just been delivered
Ends(g) == (IF g.pre > 0 THEN {g.pre} ELSE {}) \cup {g.pre + g.w * i : i \in 1..g.n}

\* ---- laws (decided by TLC for all small descriptors: InputsBig_MC) -----------------------------
LLayout(g) ==
  /\ Len(BigBytes(g)) = Size(g)
  /\ LinesOf(BigBytes(g)) = [j \in 1..NLines(g) |-> LineText(g, BigLines(g)[j])]
  /\ Len(BigLines(g)) = NLines(g)
  /\ \A e \in Ends(g) : BigBytes(g)[e] = LF
  /\ Cardinality(Ends(g)) = Cardinality({i \in 1..Size(g) : BigBytes(g)[i] = LF})
LRuns(g) ==
  LET u == Unroll(Runs(g))
      shown == {j \in 1..NLines(g) : LineText(g, BigLines(g)[j]) # <<>>} IN
  /\ Len(u) = NShown(g) /\ Cardinality(shown) = NShown(g)
  /\ \A x \in DOMAIN u : u[x].line \in shown /\ BigLines(g)[u[x].line] = [c |-> u[x].c, id |-> u[x].id]
  /\ \A x, y \in DOMAIN u : x < y => u[x].line < u[y].line
\* geometry: a window size B that the record width divides
LHit(g, B) ==
  (B % g.w = 0) =>
    \A k \in 1..((g.w * g.n) \div B) :
      /\ g.pre = 0 => k * B \in Ends(g)
      /\ g.pre = 1 => (k * B + 1) \in Ends(g) /\ (k * B) \notin Ends(g) \ {g.pre}
      /\ g.pre = g.w - 1 => (k * B - 1) \in Ends(g)

\* ---- inputs and runs ---------------------------------------------------------------------------
BigKinds == {"file", "gz", "mgz"}
Vias == {"file", "fifo", "stdin"}
InputOK(x) ==
  /\ ContentOK(x.g) /\ x.k \in BigKinds /\ x.via \in Vias
  /\ IF x.k = "mgz" THEN Len(x.mem) >= 2 /\ (\A j \in DOMAIN x.mem : x.mem[j] >= 0) /\ SumSeq(x.mem) = Size(x.g)
     ELSE x.mem = <<>>
\* a run: [ins, gz, readers, batch]; in the domain when names are distinct, compressed inputs only under -z,
\* standard input alone and not under -z (as in Inputs!InDomain)
RunOK(r) ==
  /\ r.ins # <<>> /\ \A i \in DOMAIN r.ins : InputOK(r.ins[i])
  /\ \A i, j \in DOMAIN r.ins : r.ins[i].name = r.ins[j].name => i = j
  /\ r.readers >= 1 /\ r.batch >= 1
  /\ ~r.gz => \A i \in DOMAIN r.ins : r.ins[i].k = "file"
  /\ (\E i \in DOMAIN r.ins : r.ins[i].via = "stdin") => (Len(r.ins) = 1 /\ ~r.gz)
SourceName(x) == IF x.via = "stdin" THEN StdinName ELSE x.name
\* what the run must show: per source its runs; counters; no error; exit status by Inputs!ExitCode
Expected(r) ==
  LET shown == SumSeq([i \in DOMAIN r.ins |-> NShown(r.ins[i].g)])
      read  == SumSeq([i \in DOMAIN r.ins |-> NLines(r.ins[i].g)]) IN
  [srcs |-> [i \in DOMAIN r.ins |-> [name |-> SourceName(r.ins[i]), runs |-> Runs(r.ins[i].g)]],
   nerr |-> 0, matched |-> shown, read |-> read, exit |-> ExitCode(0, 0, shown), msg |-> ExitMsg(0, 0)]
=============================================================================

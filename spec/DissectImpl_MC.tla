--------------------------- MODULE DissectImpl_MC ---------------------------
(* C12 - model-checking instances of DissectImpl: a catalogue of patterns and   *)
(* small line sets; the configuration picks the entries (PatNos).                              *)
EXTENDS DissectImpl
CONSTANT PatNos       \* which catalogue entries to explore

A == 97  UA == 65  BB == 98  COL == 58
EA == <<195, 169>>      \* e-acute, lower case (UTF-8)
UE == <<195, 137>>      \* E-acute, upper case (UTF-8)
T(name, skip) == <<PCT, LBR>> \o (IF skip /\ name # <<>> THEN <<QM>> ELSE <<>>) \o name \o <<RBR>>

Catalogue == <<
  T(<<120>>, FALSE),                                                      \* %{x}
  <<A>> \o T(<<120>>, FALSE) \o <<COL>>,                                    \* a%{x}:
  T(<<120>>, FALSE) \o <<COL>> \o T(<<121>>, FALSE) \o <<COL>>,              \* %{x}:%{y}:
  <<A, BB>> \o T(<<>>, TRUE) \o <<COL, COL>> \o T(<<121>>, FALSE),           \* ab%{}::%{y}
  T(<<120>>, FALSE) \o <<SP>> \o T(<<115>>, TRUE) \o <<COL>> \o T(<<122>>, FALSE), \* %{x} %{?s}:%{z}
  EA \o T(<<120>>, FALSE) \o EA,                                            \* e'%{x}e'
  <<UA>> \o T(<<120>>, FALSE) \o <<UA, COL>> \o T(<<121>>, FALSE) \o <<BB>>,  \* A%{x}A:%{y}b
  <<A>>,                                                                  \* a   (no tokens)
  <<>>                                                                    \* empty pattern
>>
MCPats == {Catalogue[i] : i \in PatNos}

Syms == {<<A>>, <<UA>>, <<BB>>, <<COL>>, <<SP>>, EA, UE}
AllLines(n) == {Flatten(f) : f \in UNION {[1..m -> Syms] : m \in 0..n}}
\* the lines offered to the instance (a few per feature: repeated delimiters, delimiter inside
\* the prefix, mixed case, multi-byte literals, no match)
MCLines == { <<>>, <<A, COL, BB, COL>>, <<A, BB, COL, COL, A>>, <<UA, A, UA, COL, A, BB>>, <<A, SP, BB, COL, A>>,
             EA \o <<A>> \o EA, UE \o <<A>> \o UE, <<BB, UA, COL, COL>> }
=============================================================================

------------------------------ MODULE LineText_MC ------------------------------
(* B3 laws of LineText over every source up to MaxLen over Alphabet, and the B1   *)
(* generator: the same sources with their lines (text of every line; the line     *)
(* number is the position).                                                       *)
EXTENDS LineText, TLC, Json
CONSTANTS MaxLen, Alphabet
Srcs == UNION {[1..n -> Alphabet] : n \in 0..MaxLen}
VARIABLE s
Init == s \in Srcs
Next == UNCHANGED s
Laws == /\ Lines(s) = Lines2(s)                                      \* the two readings agree
        /\ Rebuilt(s) = s                                            \* texts + terminators = the source, byte for byte
        /\ \A i \in 1..Len(Lines(s)) : \A j \in 1..Len(Lines(s)[i]) : Lines(s)[i][j] # LF
        /\ Len(Lines(s)) = Cardinality(LFs(s)) + (IF s # <<>> /\ s[Len(s)] # LF THEN 1 ELSE 0)
Dump == PrintT("VFJ " \o ToJson([s |-> s, lines |-> Lines(s)]))
=============================================================================

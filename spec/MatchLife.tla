------------------------------ MODULE MatchLife ------------------------------
(* C02 - lifetime of what a Match refers to.                                       *)
(*                                                                                 *)
(* extractor.Match does not copy: Match.Line is a string header over the bytes of  *)
(* the read buffer the scanner returned (unsafe cast in processLineSync), and      *)
(* Match.Indices is the slice the matcher returned - for dissect a piece carved    *)
(* from the instance's slicepool.IntPool.  The consumer may hold a Match for any   *)
(* time while the reader keeps scanning (the buffer fills up and is regrown) and   *)
(* the worker keeps matching (the pool is used up and refilled).                   *)
(*                                                                                 *)
(* This module composes                                                            *)
(*   - ScannerImm (C04): the memory model of readahead.ImmediateReadAhead.Scan:    *)
(*     numbered buffers, tokens handed out as views (buffer, lo, hi);              *)
(*   - the int pool (slicepool.IntPool.Get): slabs of SlabRes results, a result    *)
(*     is a handle (slab, offset);                                                 *)
(*   - a worker that takes the scanned tokens in order - any number of scan steps  *)
(*     later (batching) - runs a matcher on the bytes the view shows NOW, and       *)
(*     hands out a Match = (view, index handle); nothing is ever released (the     *)
(*     late consumer).                                                             *)
(* Invariants: every Match ever handed out still shows the true text of its line   *)
(* (the k-th line of the byte stream), its indices and its capture; no step        *)
(* writes a cell under a view or a handed-out index slice.                         *)
(* Negative controls (must be refuted): BufPolicy = "shift" (the regrow step       *)
(* compacts the buffer in place when it can, as bufio.Scanner does), PoolPolicy =  *)
(* "recycle" (Get starts again at the beginning of the slab when it is used up).   *)
EXTENDS ScannerImm

CONSTANTS
  SlabRes,     \* results per pool slab (1024 in dissect.CreateInstance)
  BufPolicy,   \* "fresh" (the code) | "shift"
  PoolPolicy   \* "fresh" (the code) | "recycle"

VARIABLES
  slabs,    \* all pool slabs ever allocated: sequence of [1..SlabSize -> Int]
  used,     \* ints already carved from the newest slab
  mpos,     \* number of tokens the worker has taken
  matches   \* Matches handed to the consumer (kept for ever), with ghost copies

C == INSTANCE Captures

mvars == <<slabs, used, mpos, matches>>
allvars == <<vars, mvars>>

\* the matcher of the model: one capture group (the first byte); an empty line does not match.
\* Result length 4:  <<0, Len, 0, 1>>   (values depend on the line, so that a recycled slice shows)
RLen == 4
SlabSize == RLen * SlabRes
MatcherResult(line) == IF line = <<>> THEN <<>> ELSE <<0, Len(line), 0, 1>>

ReadPool(h) == [i \in 1..RLen |-> slabs[h.s][h.o + i]]

MInit ==
  /\ Init
  /\ slabs = <<[i \in 1..SlabSize |-> 0]>> /\ used = 0 /\ mpos = 0 /\ matches = <<>>

\* ---- the scanner with the regrow policy as a parameter
\* "shift": when the buffer is full and a consumed prefix exists, move the unread tail to the front of
\* the SAME buffer instead of allocating
GrowShift ==
  /\ pc = "grow"
  /\ IF end >= Len(Buf) /\ offset > 0 THEN
       /\ bufs' = [bufs EXCEPT ![cur] = WriteAt(Buf, 0, SubSeq(Buf, offset + 1, end))]
       /\ end' = end - offset /\ offset' = 0 /\ cur' = cur
     ELSE IF end >= Len(Buf) THEN
       /\ bufs' = Append(bufs, WriteAt(Zeros(end - offset + BufSize), 0, SubSeq(Buf, offset + 1, end)))
       /\ cur' = Len(bufs) + 1 /\ end' = end - offset /\ offset' = 0
     ELSE UNCHANGED <<bufs, cur, end, offset>>
  /\ pc' = "read"
  /\ UNCHANGED <<eof, lastn, delivered, st, stalls, toks, handed, errs, done>>

ScanStep == (Call \/ Restart \/ (IF BufPolicy = "fresh" THEN Grow ELSE GrowShift) \/ Read \/ OnErr \/ Check)
            /\ UNCHANGED mvars

\* ---- the worker: processLineSync on the next scanned token
\* ret := pool.Get(RLen): carve from the newest slab; a used-up slab is replaced by a fresh one
\* ("recycle": the same slab is used again from its beginning)
MatchStep ==
  /\ mpos < Len(handed)
  /\ mpos' = mpos + 1
  /\ LET v    == handed[mpos + 1]
         line == View(v)                       \* the bytes the view shows at this moment
         r    == MatcherResult(line)
     IN IF r = <<>> THEN UNCHANGED <<slabs, used, matches>>
        ELSE LET full  == SlabSize - used < RLen
                 fresh == full /\ PoolPolicy = "fresh"
                 h     == IF fresh THEN [s |-> Len(slabs) + 1, o |-> 0]
                          ELSE IF full THEN [s |-> Len(slabs), o |-> 0]
                          ELSE [s |-> Len(slabs), o |-> used]
                 base  == IF fresh THEN Append(slabs, [i \in 1..SlabSize |-> 0]) ELSE slabs
             IN /\ slabs' = [base EXCEPT ![h.s] = [i \in 1..SlabSize |->
                                   IF i > h.o /\ i <= h.o + RLen THEN r[i - h.o] ELSE @[i]]]
                /\ used' = h.o + RLen
                /\ matches' = Append(matches, [tok |-> mpos + 1, h |-> h, line0 |-> line, idx0 |-> r])
  /\ UNCHANGED vars

MNext == ScanStep \/ MatchStep
MSpec == MInit /\ [][MNext]_allvars /\ WF_allvars(MNext)

\* ------------------------------------------------------------------ invariants
Lines == A!RefSplit(delivered, st # "open")        \* the true lines of the stream so far

\* Match.Line still is the text it had when the match was made
LineLifetime == \A i \in 1..Len(matches) : View(handed[matches[i].tok]) = matches[i].line0
\* Match.Indices still are the matcher's result
IdxLifetime == \A i \in 1..Len(matches) : ReadPool(matches[i].h) = matches[i].idx0
\* ... and that text is the true k-th line of the input (not only "unchanged since the worker saw it")
TrueText == \A i \in 1..Len(matches) :
              /\ matches[i].tok <= Len(Lines)
              /\ View(handed[matches[i].tok]) = Lines[matches[i].tok]
\* what an expression would read NOW from a held match: {0} the line, {1} its first byte
CapturesStable ==
  \A i \in 1..Len(matches) :
    LET m == matches[i]  ln == View(handed[m.tok])  ix == ReadPool(m.h) IN
    /\ C!WellFormedIdx(ln, ix)
    /\ C!GetMatch(ln, ix, 0) = Lines[m.tok]
    /\ C!GetMatch(ln, ix, 1) = <<Lines[m.tok][1]>>
\* index slices handed out never overlap
PoolDisjoint ==
  \A i, j \in 1..Len(matches) : i < j =>
     (matches[i].h.s # matches[j].h.s \/ matches[i].h.o + RLen <= matches[j].h.o
      \/ matches[j].h.o + RLen <= matches[i].h.o)
\* every non-empty line the worker has taken produced exactly one match, in order
MatchOrder ==
  /\ \A i \in 1..(Len(matches) - 1) : matches[i].tok < matches[i + 1].tok
  /\ mpos <= Len(handed)

\* ------------------------------------------------------------------ action properties
\* cells under a view that the worker has taken or may still take (every handed-out token)
Covered(b, i) == \E k \in 1..Len(handed) : handed[k].b = b /\ handed[k].lo < i /\ i <= handed[k].hi
NoWriteUnderView ==
  [][\A b \in 1..Len(bufs) : \A i \in 1..Len(bufs[b]) : bufs'[b][i] # bufs[b][i] => ~Covered(b, i)]_allvars
PoolCovered(sl, i) == \E k \in 1..Len(matches) : matches[k].h.s = sl /\ matches[k].h.o < i /\ i <= matches[k].h.o + RLen
NoWriteUnderIndices ==
  [][\A sl \in 1..Len(slabs) : \A i \in 1..SlabSize : slabs'[sl][i] # slabs[sl][i] => ~PoolCovered(sl, i)]_allvars

\* the run ends with every line matched
AllTaken == <>(done /\ mpos = Len(handed))
=============================================================================

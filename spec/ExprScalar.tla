----------------------------- MODULE ExprScalar -----------------------------
(* C11 - the documented semantics of the scalar helper functions of rare's      *)
(* expression language (docs/usage/expressions.md), as operators over byte      *)
(* sequences.                                                                   *)
(*                                                                              *)
(* Interface (for ExprArray / ExprOpt / ExprSyntax):                            *)
(*   Eval(f, args)         f: TLA+ string tag of the helper, args: sequence of  *)
(*                         byte sequences.  Result: an expectation record       *)
(*                         [k, v, alts, ce] (see below).                        *)
(*   Expect(f, args, pos)  Eval plus arity and constant-position rules;         *)
(*                         pos[i] \in {"c","d"}: argument i written as a        *)
(*                         constant in the template or read from the context.   *)
(*   Matches(f, args, e, got, cerr)   does an observed result satisfy e ?       *)
(*                                                                              *)
(* Expectation kinds (explicit domains, DESIGN.md 2.2 / Appendix C):            *)
(*   "out"    the result is exactly v                                           *)
(*   "oneof"  the result is one of alts (compared ignoring ASCII case when      *)
(*            v = <<1>>): used where the docs fix the value but not the         *)
(*            spelling (unit names, number of decimals of hf)                   *)
(*   "truthy" / "falsy"  docs only say "returns truthy"                         *)
(*   "marker" one of the documented error markers                               *)
(*   "csv"    the result parses (RFC 4180, Csv.tla) back to args                *)
(*   "notnum" the result is not a decimal numeral (an infinity or NaN has no    *)
(*            floor / ceil / rounded numeral; its spelling is not documented)   *)
(*   "any"    outside the documented domain: nothing is demanded                *)
(* ce: "y" compilation must report an error, "n" must not, "*" either.          *)
(*                                                                              *)
(* Numbers: TLC integers are 32 bit.  Integer arguments with at most 9 digits   *)
(* are evaluated; every intermediate result is guarded (|x| <= 10^9), beyond    *)
(* that the expectation is "any".  Decimals are exact scaled integers           *)
(* [neg, a, s] = (+/-) a / 10^s with at most 9 significant digits.  floor, ceil  *)
(* and round are also defined on decimals of any length that binary64 holds      *)
(* exactly (ExprScalarBig: digit-sequence arithmetic) - values beyond int64,     *)
(* 2^52 + 0.5, ... - and a rounding tie is one of the two neighbours.            *)
(* Text is UTF-8 (ExprScalarText): white space is Unicode White_Space.           *)
EXTENDS Csv, ExprScalarText, ExprScalarBig

LIM == 1000000000

\* ---------------------------------------------------------------- constants (byte strings)
BADTYPE  == <<60, 66, 65, 68, 45, 84, 89, 80, 69, 62>>                  \* <BAD-TYPE>
PARSEERR == <<60, 80, 65, 82, 83, 69, 45, 69, 82, 82, 79, 82, 62>>      \* <PARSE-ERROR>
ARGN     == <<60, 65, 82, 71, 78, 62>>                                  \* <ARGN>
CONSTM   == <<60, 67, 79, 78, 83, 84, 62>>                              \* <CONST>
ENUMM    == <<60, 69, 78, 85, 77, 62>>                                  \* <ENUM>
NAMEM    == <<60, 78, 65, 77, 69, 62>>                                  \* <NAME>
EMPTYM   == <<60, 69, 77, 80, 84, 89, 62>>                              \* <EMPTY>
FILEM    == <<60, 70, 73, 76, 69, 62>>                                  \* <FILE>
VALUEM   == <<60, 86, 65, 76, 85, 69, 62>>                              \* <VALUE>
Markers  == {BADTYPE, PARSEERR, ARGN, CONSTM, ENUMM, NAMEM, EMPTYM, FILEM, VALUEM}

ONE      == <<49>>                                                      \* TruthyVal "1"
WMIN     == <<109, 105, 110>>                                           \* min
WMAX     == <<109, 97, 120>>                                            \* max
RANGESEP == <<32, 45, 32>>                                              \* " - "
BADVERBD == <<37, 33, 100, 40, 115, 116, 114, 105, 110, 103, 61>>       \* %!d(string=
DOT      == 46
MINUS    == 45

\* ---------------------------------------------------------------- expectation records
Out(v)      == [k |-> "out",    v |-> v,    alts |-> <<>>, ce |-> "n"]
OutE(v)     == [k |-> "out",    v |-> v,    alts |-> <<>>, ce |-> "*"]   \* an error marker
ErrNum      == OutE(BADTYPE)
ArgN        == [k |-> "out",    v |-> ARGN, alts |-> <<>>, ce |-> "y"]
AnyR         == [k |-> "any",    v |-> <<>>, alts |-> <<>>, ce |-> "*"]
Marker      == [k |-> "marker", v |-> <<>>, alts |-> <<>>, ce |-> "*"]
TruthyR     == [k |-> "truthy", v |-> <<>>, alts |-> <<>>, ce |-> "n"]
FalsyR      == [k |-> "falsy",  v |-> <<>>, alts |-> <<>>, ce |-> "n"]
CsvR        == [k |-> "csv",    v |-> <<>>, alts |-> <<>>, ce |-> "n"]
OneOf(a)    == [k |-> "oneof",  v |-> <<>>, alts |-> a,    ce |-> "n"]
OneOfCI(a)  == [k |-> "oneof",  v |-> <<1>>, alts |-> a,   ce |-> "n"]
NotNumR     == [k |-> "notnum", v |-> <<>>, alts |-> <<>>, ce |-> "n"]
Bool(b)     == IF b THEN TruthyR ELSE FalsyR
Bool1(b)    == IF b THEN Out(ONE) ELSE Out(<<>>)

\* ---------------------------------------------------------------- small helpers
AbsI(x) == IF x < 0 THEN 0 - x ELSE x
RECURSIVE P10(_)
P10(n) == IF n <= 0 THEN 1 ELSE 10 * P10(n - 1)            \* n <= 9
MulFits(a, b) == a = 0 \/ b = 0 \/ AbsI(a) <= LIM \div AbsI(b)
IsAscii(s) == \A i \in 1..Len(s) : s[i] < 128
IsPrintable(s) == \A i \in 1..Len(s) : s[i] >= 32 /\ s[i] <= 126
RECURSIVE Zeros(_)
Zeros(n) == IF n <= 0 THEN <<>> ELSE <<48>> \o Zeros(n - 1)
PadZ(d, n) == Zeros(n - Len(d)) \o d                      \* left pad with '0' to n digits
RECURSIVE Spaces(_)
Spaces(n) == IF n <= 0 THEN <<>> ELSE <<32>> \o Spaces(n - 1)

\* Go integer division truncates toward zero, % has the sign of the dividend
TDiv(a, b) == IF (a >= 0) = (b > 0) THEN AbsI(a) \div AbsI(b) ELSE 0 - (AbsI(a) \div AbsI(b))
TMod(a, b) == a - b * TDiv(a, b)

\* ---------------------------------------------------------------- truthiness
\* "Truthiness is the presence of a value. False is an empty value (or only whitespace)"
\* Values are UTF-8 text: "whitespace" is the Unicode property White_Space (no-break space, next
\* line, U+2000..U+200A, line / paragraph separator, ideographic space, ... as well as the six ASCII
\* blanks).  "unknown": ill-formed UTF-8, or nothing but blanks and characters that are neither
\* White_Space nor certainly visible (controls, format characters, zero width space, ...).
TruthClass(s) ==
  IF s = <<>> THEN "empty"
  ELSE IF \A i \in 1..Len(s) : IsAsciiSpace(s[i]) THEN "blank"
  ELSE IF \E i \in 1..Len(s) : s[i] >= 33 /\ s[i] <= 126 THEN "true"
  ELSE IF U8AllBlank(s) THEN "blank"
  ELSE IF U8SomeVisible(s) THEN "true"
  ELSE "unknown"
\* if / unless / switch: whitespace-only is false (general rule of the docs)
CondClass(s) == LET c == TruthClass(s) IN IF c = "blank" THEN "empty" ELSE c
\* and / or / not: the docs contradict each other on whitespace-only -> outside the domain
LogicClass(s) == LET c == TruthClass(s) IN IF c = "blank" THEN "unknown" ELSE c

\* ---------------------------------------------------------------- integers (strconv.Atoi grammar)
IntDigits(s) == IF s[1] \in {43, 45} THEN Tail(s) ELSE s
RECURSIVE StripLeadZ(_)
StripLeadZ(d) == IF d # <<>> /\ d[1] = 48 THEN StripLeadZ(Tail(d)) ELSE d
RECURSIVE StripTrailZ(_)
StripTrailZ(d) == IF d # <<>> /\ d[Len(d)] = 48 THEN StripTrailZ(SubSeq(d, 1, Len(d) - 1)) ELSE d
\* "small": value fits the model; "big": certainly a valid int64, not evaluated;
\* "huge": 19+ digits, may overflow int64; "no": not an integer
IntClass(s) ==
  IF s = <<>> \/ ~ParseIntOK(s) THEN "no"
  ELSE LET n == Len(StripLeadZ(IntDigits(s))) IN
       IF n <= 9 THEN "small" ELSE IF n <= 18 THEN "big" ELSE "huge"
IntVal(s) == ParseIntVal(s)
Canonical(s) == Itoa(IntVal(s)) = s                       \* for IntClass(s) = "small"

\* ---------------------------------------------------------------- decimals
DecBodyOK(b) ==
  /\ Cardinality({i \in 1..Len(b) : b[i] = DOT}) <= 1
  /\ \A i \in 1..Len(b) : IsDigit(b[i]) \/ b[i] = DOT
  /\ \E i \in 1..Len(b) : IsDigit(b[i])
DecOK(s) == s # <<>> /\ DecBodyOK(IF s[1] \in {43, 45} THEN Tail(s) ELSE s)
DecParts(s) ==
  LET b  == IF s[1] \in {43, 45} THEN Tail(s) ELSE s
      d  == IndexByte(b, DOT)
  IN [neg |-> s[1] = MINUS,
      ip  |-> StripLeadZ(IF d = 0 THEN b ELSE SubSeq(b, 1, d - 1)),
      fp  |-> StripTrailZ(IF d = 0 THEN <<>> ELSE SubSeq(b, d + 1, Len(b)))]
DecSmall(p) == Len(p.ip) + Len(p.fp) <= 9
Dec(s) == LET p == DecParts(s) IN [neg |-> p.neg, a |-> DigitsVal(p.ip \o p.fp, 0), s |-> Len(p.fp)]
DecM(d) == IF d.neg THEN 0 - d.a ELSE d.a                  \* signed mantissa

\* characters that can occur in some string accepted by strconv.ParseFloat
FloatChar(c) == IsDigit(c) \/ c \in {43, 45, 46, 95}
                \/ LowerC(c) \in {97, 98, 99, 100, 101, 102, 120, 112, 105, 110, 116, 121}
InfNanWord(w) == w \in {<<105, 110, 102>>, <<105, 110, 102, 105, 110, 105, 116, 121>>, <<110, 97, 110>>}
\* certainly rejected by ParseFloat: a foreign character, or no digit and not inf/nan
NotFloat(s) ==
  \/ s = <<>>
  \/ \E i \in 1..Len(s) : ~FloatChar(s[i])
  \/ /\ \A i \in 1..Len(s) : ~IsDigit(s[i])
     /\ ~InfNanWord(LowerASCII(IF s[1] \in {43, 45} THEN Tail(s) ELSE s))
\* "dec": finite decimal evaluated by the model; "decbig": a decimal, too long for the model;
\* "no": certainly not a number; "other": exponent/hex/inf/nan/-0 forms -> outside the domain
DecClass(s) ==
  IF DecOK(s) THEN
    LET p == DecParts(s) IN
    IF ~DecSmall(p) THEN "decbig"
    ELSE IF p.neg /\ p.ip = <<>> /\ p.fp = <<>> THEN "other"   \* negative zero
    ELSE "dec"
  ELSE IF NotFloat(s) THEN "no" ELSE "other"

\* compare two decimals: -1, 0, 1;  CmpFits: the aligned mantissas fit
CmpFits(x, y) ==
  LET S == IF x.s > y.s THEN x.s ELSE y.s IN x.a <= LIM \div P10(S - x.s) /\ y.a <= LIM \div P10(S - y.s)
CmpDec(x, y) ==
  LET S == IF x.s > y.s THEN x.s ELSE y.s
      A == DecM(x) * P10(S - x.s)
      B == DecM(y) * P10(S - y.s)
  IN IF A < B THEN 0 - 1 ELSE IF A > B THEN 1 ELSE 0

\* Q / 10^p as fixed-point text (Q >= 0)
FmtFixed(Q, p) ==
  IF p = 0 THEN NatDigits(Q)
  ELSE NatDigits(Q \div P10(p)) \o <<DOT>> \o PadZ(NatDigits(Q % P10(p)), p)
Signed(neg, body) == IF neg THEN <<MINUS>> \o body ELSE body

\* a / 10^s rounded to p decimals, as integer Q scaled by 10^p; "tie": exactly half way (binary
\* floating point decides -> outside the domain); "ovf": does not fit the model
RoundScaled(a, s, p) ==
  IF p >= s THEN
    IF a <= LIM \div P10(p - s) THEN [st |-> "ok", q |-> a * P10(p - s)] ELSE [st |-> "ovf", q |-> 0]
  ELSE LET D == P10(s - p)  q == a \div D  r == a % D IN
       IF 2 * r = D THEN [st |-> "tie", q |-> q]            \* q and q + 1 are equally near
       ELSE [st |-> "ok", q |-> q + (IF 2 * r > D THEN 1 ELSE 0)]

\* n / d (n >= 0, d > 0) rounded to p decimals, scaled by 10^p, by long division
RECURSIVE LongDiv(_, _, _, _)
LongDiv(q, r, d, p) ==      \* q: digits so far as integer, r: remainder
  IF p = 0 THEN
    IF 2 * r = d THEN [st |-> "tie", q |-> 0]
    ELSE [st |-> "ok", q |-> q + (IF 2 * r > d THEN 1 ELSE 0)]
  ELSE IF r > 200000000 \/ q > 100000000 THEN [st |-> "ovf", q |-> 0]
  ELSE LongDiv(q * 10 + (r * 10) \div d, (r * 10) % d, d, p - 1)
DivRound(n, d, p) == IF d > LIM THEN [st |-> "ovf", q |-> 0] ELSE LongDiv(n \div d, n % d, d, p)

\* thousands separators: groups of three digits from the right
RECURSIVE Group3(_)
Group3(d) == IF Len(d) <= 3 THEN d ELSE Group3(SubSeq(d, 1, Len(d) - 3)) \o <<44>> \o SubSeq(d, Len(d) - 2, Len(d))
HiFmt(v) == Signed(v < 0, Group3(NatDigits(AbsI(v))))

\* whitespace separated fields (runs of separators count once, like strings.Fields)
RECURSIVE XFields(_, _, _, _)
XFields(s, ws, cur, acc) ==
  IF s = <<>> THEN (IF cur = <<>> THEN acc ELSE Append(acc, cur))
  ELSE IF s[1] \in ws THEN XFields(Tail(s), ws, <<>>, IF cur = <<>> THEN acc ELSE Append(acc, cur))
  ELSE XFields(Tail(s), ws, Append(cur, s[1]), acc)
FieldsOf(s, ws) == XFields(s, ws, <<>>, <<>>)

\* ================================================================= arity
ArityOK(f, n) ==
  CASE f \in {"sumi", "subi", "multi", "divi", "modi", "maxi", "mini",
              "sumf", "subf", "multf", "divf", "pow", "eq", "neq", "switch"} -> n >= 2
    [] f \in {"not", "isint", "isnum", "len", "upper", "lower", "expbucket", "hi", "hf",
              "floor", "ceil", "log10", "log2", "ln", "sqrt",
              "basename", "dirname", "extname"} -> n = 1
    [] f \in {"lt", "gt", "lte", "gte", "like", "prefix", "suffix", "select",
              "bucket", "bucketrange", "unless"} -> n = 2
    [] f \in {"substr", "clamp"} -> n = 3
    [] f = "if" -> n \in {2, 3}
    [] f \in {"round", "bytesize", "bytesizesi", "downscale"} -> n \in {1, 2}
    [] f = "percent" -> n \in 1..4
    [] f \in {"lookup", "haskey"} -> n \in {2, 3}
    [] OTHER -> n >= 1     \* and or coalesce tab csv format

\* arguments the docs write in quotes: evaluated at compile time, must be constants
ConstOnly(f) ==
  CASE f \in {"bucket", "bucketrange", "round", "percent", "bytesize", "bytesizesi", "downscale",
              "lookup", "haskey"} -> {2}
    [] f = "clamp" -> {2, 3}
    [] OTHER -> {}
\* documented as constants but not enforced / silently defaulted by the compiler: no demand
SoftConst(f) ==
  CASE f = "format" -> {1}
    [] f \in {"lookup", "haskey"} -> {3}
    [] OTHER -> {}

\* ================================================================= integer arithmetic
IntOp(f, a, b) ==           \* [st: "ok" | "ovf" | "zero", v]
  CASE f = "sumi" -> IF AbsI(a + b) <= LIM THEN [st |-> "ok", v |-> a + b] ELSE [st |-> "ovf", v |-> 0]
    [] f = "subi" -> IF AbsI(a - b) <= LIM THEN [st |-> "ok", v |-> a - b] ELSE [st |-> "ovf", v |-> 0]
    [] f = "multi" -> IF MulFits(a, b) THEN [st |-> "ok", v |-> a * b] ELSE [st |-> "ovf", v |-> 0]
    [] f = "divi" -> IF b = 0 THEN [st |-> "zero", v |-> 0] ELSE [st |-> "ok", v |-> TDiv(a, b)]
    [] f = "modi" -> IF b = 0 THEN [st |-> "zero", v |-> 0] ELSE [st |-> "ok", v |-> TMod(a, b)]
    [] f = "maxi" -> [st |-> "ok", v |-> IF a > b THEN a ELSE b]
    [] f = "mini" -> [st |-> "ok", v |-> IF a < b THEN a ELSE b]

RECURSIVE IntFold(_, _, _, _)
\* "Evaluates integers using operator from left to right"
IntFold(f, acc, args, i) ==
  IF i > Len(args) THEN Out(Itoa(acc))
  ELSE LET c == IntClass(args[i]) IN
       IF c = "no" THEN ErrNum
       ELSE IF c # "small" THEN AnyR
       ELSE LET r == IntOp(f, acc, IntVal(args[i])) IN
            IF r.st = "zero" THEN Marker         \* division by zero: some error marker, not a number
            ELSE IF r.st = "ovf" THEN AnyR
            ELSE IntFold(f, r.v, args, i + 1)
EvalIntFold(f, args) ==
  LET c == IntClass(args[1]) IN
  IF c = "no" THEN ErrNum ELSE IF c # "small" THEN AnyR ELSE IntFold(f, IntVal(args[1]), args, 2)

\* float arithmetic: only integer-valued operands with exact results are inside the domain
IsIntDec(s) == DecClass(s) = "dec" /\ Dec(s).s = 0
RECURSIVE FltFold(_, _, _, _, _)
FltFold(f, acc, args, i, sawneg) ==
  IF i > Len(args) THEN (IF acc = 0 /\ sawneg /\ f \in {"multf", "divf"} THEN AnyR ELSE Out(Itoa(acc)))
  ELSE LET b == DecM(Dec(args[i]))  sn == sawneg \/ b < 0 IN
    CASE f = "sumf" -> IF AbsI(acc + b) <= LIM THEN FltFold(f, acc + b, args, i + 1, sn) ELSE AnyR
      [] f = "subf" -> IF AbsI(acc - b) <= LIM THEN FltFold(f, acc - b, args, i + 1, sn) ELSE AnyR
      [] f = "multf" -> IF MulFits(acc, b) THEN FltFold(f, acc * b, args, i + 1, sn) ELSE AnyR
      [] f = "divf" -> IF b # 0 /\ acc % AbsI(b) = 0 THEN FltFold(f, TDiv(acc, b), args, i + 1, sn) ELSE AnyR
EvalFltFold(f, args) ==
  IF \E i \in 1..Len(args) : DecClass(args[i]) = "no" THEN ErrNum
  ELSE IF \E i \in 1..Len(args) : ~IsIntDec(args[i]) THEN AnyR
  ELSE LET a == DecM(Dec(args[1])) IN FltFold(f, a, args, 2, a < 0)

RECURSIVE PowI(_, _)
PowI(b, e) == IF e = 0 THEN 1 ELSE LET r == PowI(b, e - 1) IN IF r = 0 - 1 \/ ~MulFits(r, b) THEN 0 - 1 ELSE r * b
EvalPow(args) ==       \* {pow val exp}: small non-negative integer base and exponent, exact result
  IF \E i \in 1..Len(args) : DecClass(args[i]) = "no" THEN ErrNum
  ELSE IF Len(args) # 2 \/ ~IsIntDec(args[1]) \/ ~IsIntDec(args[2]) THEN AnyR
  ELSE LET b == DecM(Dec(args[1]))  e == DecM(Dec(args[2])) IN
       IF b < 1 \/ b > 1000 \/ e < 0 \/ e > 30 THEN AnyR
       ELSE LET r == PowI(b, e) IN IF r = 0 - 1 THEN AnyR ELSE Out(Itoa(r))
EvalSqrt(s) ==         \* perfect squares up to 10^6
  LET c == DecClass(s) IN
  IF c = "no" THEN ErrNum
  ELSE IF ~IsIntDec(s) THEN AnyR
  ELSE LET a == DecM(Dec(s)) IN
       IF a < 0 \/ a > 1000000 THEN AnyR
       ELSE LET R == {r \in 0..1000 : r * r = a} IN IF R = {} THEN AnyR ELSE Out(Itoa(CHOOSE r \in R : TRUE))

\* ================================================================= floor ceil round
\* an infinity / NaN spelling (ParseFloat accepts them): no numeral can be its floor, ceil or rounding
IsInfNan(s) == s # <<>> /\ InfNanWord(LowerASCII(IF s[1] \in {43, 45} THEN Tail(s) ELSE s))
\* a decimal too long for the scaled-integer model that binary64 holds exactly
IsBigExact(s) == DecClass(s) = "decbig" /\ LET p == DecParts(s) IN F64Exact(p.ip, p.fp)

\* scientific notation: [sign] digits [. digits] (e|E) [sign] digits, exponent of at most two digits.  ExpPlain is the
\* same number written without an exponent (the decimal point moved).  Whether such a spelling is a number at all is not
\* documented: the documented result for that number, or the error marker for non-numeric input, never another number.
ExpIdx(s) == LET S == {i \in 1..Len(s) : s[i] \in {101, 69}} IN IF Cardinality(S) = 1 THEN MinOf(S) ELSE 0
IsExpForm(s) ==
  LET i == ExpIdx(s) IN
  /\ i > 1 /\ i < Len(s)
  /\ DecOK(SubSeq(s, 1, i - 1))
  /\ LET x == SubSeq(s, i + 1, Len(s)) IN ParseIntOK(x) /\ Len(IntDigits(x)) <= 2
ExpPlain(s) ==
  LET i == ExpIdx(s)
      m == SubSeq(s, 1, i - 1)
      e == ParseIntVal(SubSeq(s, i + 1, Len(s)))
      neg == m[1] = MINUS
      b == IF m[1] \in {43, 45} THEN Tail(m) ELSE m
      d == IndexByte(b, DOT)
      ipr == IF d = 0 THEN b ELSE SubSeq(b, 1, d - 1)
      fpr == IF d = 0 THEN <<>> ELSE SubSeq(b, d + 1, Len(b))
      digs == ipr \o fpr
      pos == Len(ipr) + e                                    \* digits before the decimal point
      body == IF pos <= 0 THEN <<48, DOT>> \o Zeros(0 - pos) \o digs
              ELSE IF pos >= Len(digs) THEN digs \o Zeros(pos - Len(digs))
              ELSE SubSeq(digs, 1, pos) \o <<DOT>> \o SubSeq(digs, pos + 1, Len(digs))
  IN Signed(neg, body)
\* the expectation e for the plain spelling, opened to "not a number at all"
OrNotNumeric(e) ==
  IF e.k = "out" THEN [k |-> "oneof", v |-> <<>>, alts |-> <<e.v, BADTYPE>>, ce |-> "*"]
  ELSE IF e.k = "oneof" THEN [e EXCEPT !.alts = Append(e.alts, BADTYPE), !.ce = "*"]
  ELSE AnyR

RECURSIVE EvalFloorCeil(_, _)
EvalFloorCeil(f, s) ==
  LET c == DecClass(s) IN
  IF c = "other" /\ IsExpForm(s) THEN OrNotNumeric(EvalFloorCeil(f, ExpPlain(s))) ELSE
  IF c = "no" THEN ErrNum
  ELSE IF IsInfNan(s) THEN NotNumR
  ELSE IF IsBigExact(s) THEN
       LET p == DecParts(s) IN Out(IF f = "floor" THEN BnFloor(p.neg, p.ip, p.fp) ELSE BnCeil(p.neg, p.ip, p.fp))
  ELSE IF c # "dec" THEN AnyR
  ELSE LET d == Dec(s)  m == DecM(d)  D == P10(d.s) IN
       IF f = "floor" THEN Out(Itoa(m \div D))              \* TLA+ \div floors
       ELSE Out(Itoa(0 - ((0 - m) \div D)))

RECURSIVE EvalRound(_)
EvalRound(args) ==     \* {round val [precision=0]}
  IF DecClass(args[1]) = "other" /\ IsExpForm(args[1]) THEN OrNotNumeric(EvalRound([args EXCEPT ![1] = ExpPlain(args[1])])) ELSE
  LET pc == IF Len(args) = 2 THEN IntClass(args[2]) ELSE "small"
      p  == IF Len(args) = 2 /\ pc = "small" THEN IntVal(args[2]) ELSE 0
      c  == DecClass(args[1])
  IN
  IF pc = "no" THEN Marker
  ELSE IF pc # "small" \/ p < 0 \/ p > 6 THEN AnyR
  ELSE IF c = "no" THEN ErrNum
  ELSE IF IsInfNan(args[1]) THEN NotNumR
  ELSE IF IsBigExact(args[1]) THEN
       \* exact arithmetic on the digits; which neighbour a tie goes to is not documented
       LET dp == DecParts(args[1])  r == BnRound(dp.ip, dp.fp, p)
           txt(Q) == Signed(dp.neg, BnFmt(Q, p)) IN
       IF dp.neg /\ r.dn = <<>> THEN AnyR                    \* "-0" / "0" / "-1"
       ELSE IF r.st = "tie" THEN OneOf(<<txt(r.dn), txt(r.up)>>)
       ELSE Out(txt(IF r.st = "gt" THEN r.up ELSE r.dn))
  ELSE IF c # "dec" THEN AnyR
  ELSE LET d == Dec(args[1])  r == RoundScaled(d.a, d.s, p) IN
       IF r.st = "ovf" THEN AnyR
       ELSE IF d.neg /\ r.q = 0 THEN AnyR                    \* "-0" / "0": not defined by the docs
       ELSE IF r.st = "tie" THEN                             \* the docs do not say which neighbour
            OneOf(<<Signed(d.neg, FmtFixed(r.q, p)), Signed(d.neg, FmtFixed(r.q + 1, p))>>)
       ELSE Out(Signed(d.neg, FmtFixed(r.q, p)))

\* ================================================================= comparison and logic
EvalCompare(f, args) ==
  LET c1 == DecClass(args[1])  c2 == DecClass(args[2]) IN
  IF c1 = "no" \/ c2 = "no" THEN ErrNum
  ELSE IF c1 # "dec" \/ c2 # "dec" THEN AnyR
  ELSE LET x == Dec(args[1])  y == Dec(args[2]) IN
       IF ~CmpFits(x, y) THEN AnyR
       ELSE LET c == CmpDec(x, y) IN
            CASE f = "lt" -> Bool(c < 0) [] f = "gt" -> Bool(c > 0)
              [] f = "lte" -> Bool(c <= 0) [] f = "gte" -> Bool(c >= 0)

EvalAnd(args) ==
  IF \E i \in 1..Len(args) : LogicClass(args[i]) = "empty" THEN FalsyR
  ELSE IF \E i \in 1..Len(args) : LogicClass(args[i]) = "unknown" THEN AnyR
  ELSE TruthyR
EvalOr(args) ==
  IF \E i \in 1..Len(args) : LogicClass(args[i]) = "true" THEN TruthyR
  ELSE IF \E i \in 1..Len(args) : LogicClass(args[i]) = "unknown" THEN AnyR
  ELSE FalsyR
EvalNot(s) == LET c == LogicClass(s) IN IF c = "unknown" THEN AnyR ELSE Bool1(c = "empty")

EvalIf(args) ==
  LET c == CondClass(args[1]) IN
  IF c = "unknown" THEN AnyR
  ELSE IF c = "true" THEN Out(args[2])
  ELSE IF Len(args) = 3 THEN Out(args[3]) ELSE Out(<<>>)
EvalUnless(args) ==
  LET c == CondClass(args[1]) IN
  IF c = "unknown" THEN AnyR ELSE IF c = "true" THEN Out(<<>>) ELSE Out(args[2])
RECURSIVE SwitchFrom(_, _)
SwitchFrom(args, i) ==
  IF i > Len(args) THEN Out(<<>>)
  ELSE IF i = Len(args) THEN Out(args[i])                  \* odd count: the else value
  ELSE LET c == CondClass(args[i]) IN
       IF c = "unknown" THEN AnyR ELSE IF c = "true" THEN Out(args[i + 1]) ELSE SwitchFrom(args, i + 2)
EvalCoalesce(args) ==
  LET S == {i \in 1..Len(args) : args[i] # <<>>} IN IF S = {} THEN Out(<<>>) ELSE Out(args[MinOf(S)])

EvalIsInt(s) == LET c == IntClass(s) IN IF c = "no" THEN FalsyR ELSE IF c = "huge" THEN AnyR ELSE TruthyR
EvalIsNum(s) == LET c == DecClass(s) IN IF c = "no" THEN FalsyR ELSE IF c = "other" THEN AnyR ELSE TruthyR

\* ================================================================= strings
\* {like val contains} {prefix val startsWith} {suffix val endsWith}: "truthy check"
EvalContains(f, args) ==
  LET val == args[1]  sub == args[2]
      hit == CASE f = "like" -> ContainsSub(val, sub) [] f = "prefix" -> HasPrefix(val, sub)
               [] f = "suffix" -> HasSuffix(val, sub)
  IN IF ~hit THEN FalsyR
     ELSE IF TruthClass(val) = "true" THEN TruthyR ELSE AnyR   \* an empty/blank value cannot be truthy

EvalSubstr(args) ==    \* {substr s pos length}, pos >= 0, length >= 0
  LET s == args[1]  n == Len(s)  pc == IntClass(args[2])  lc == IntClass(args[3]) IN
  IF ~IsAscii(s) THEN AnyR
  ELSE IF n = 0 THEN (IF pc = "small" /\ lc = "small" THEN Out(<<>>) ELSE AnyR)
  ELSE IF pc = "no" \/ lc = "no" THEN ErrNum
  ELSE IF pc # "small" \/ lc # "small" THEN AnyR
  ELSE LET p == IntVal(args[2])  l == IntVal(args[3]) IN
       IF p < 0 \/ l < 0 THEN AnyR                           \* wrap-around is not documented
       ELSE LET left == IF p > n THEN n ELSE p
                right == IF left + l > n THEN n ELSE left + l
            IN Out(SubSeq(s, left + 1, right))

SelWS == {32, 9, 10}
EvalSelect(args) ==    \* {select s idx}: s a whitespace separated value
  LET s == args[1]  ic == IntClass(args[2]) IN
  IF ic = "no" THEN ErrNum
  ELSE IF ic # "small" THEN AnyR
  ELSE IF \E i \in 1..Len(s) : s[i] >= 128 \/ s[i] \in {0, 11, 12, 13, 34} THEN AnyR  \* quotes, NUL, other blanks
  ELSE IF s # <<>> /\ (s[1] \in SelWS \/ s[Len(s)] \in SelWS) THEN AnyR              \* leading/trailing blank
  ELSE LET fs == FieldsOf(s, SelWS)  i == IntVal(args[2]) IN
       IF i < 0 THEN AnyR ELSE IF i >= Len(fs) THEN Out(<<>>) ELSE Out(fs[i + 1])

\* {format "fmt" ...}: fmt.Sprintf with string operands; verbs %s %v %d %% and %Ns %-Ns
RECURSIVE FmtWalk(_, _, _, _)
FmtWalk(fm, i, as, acc) ==
  IF i > Len(fm) THEN (IF as = <<>> THEN Out(acc) ELSE AnyR)          \* EXTRA operands: not modelled
  ELSE IF fm[i] # 37 THEN FmtWalk(fm, i + 1, as, Append(acc, fm[i]))
  ELSE IF i = Len(fm) THEN AnyR
  ELSE LET c == fm[i + 1] IN
    IF c = 37 THEN FmtWalk(fm, i + 2, as, Append(acc, 37))
    ELSE IF as = <<>> THEN AnyR                                        \* MISSING operand: not modelled
    ELSE IF c \in {115, 118} THEN FmtWalk(fm, i + 2, Tail(as), acc \o as[1])
    ELSE IF c = 100 THEN FmtWalk(fm, i + 2, Tail(as), acc \o BADVERBD \o as[1] \o <<41>>)
    ELSE IF c >= 49 /\ c <= 57 /\ i + 2 <= Len(fm) /\ fm[i + 2] = 115
         THEN FmtWalk(fm, i + 3, Tail(as), acc \o Spaces((c - 48) - Len(as[1])) \o as[1])
    ELSE IF c = MINUS /\ i + 3 <= Len(fm) /\ fm[i + 2] >= 49 /\ fm[i + 2] <= 57 /\ fm[i + 3] = 115
         THEN FmtWalk(fm, i + 4, Tail(as), acc \o as[1] \o Spaces((fm[i + 2] - 48) - Len(as[1])))
    ELSE AnyR
EvalFormat(args) ==
  IF \E i \in 1..Len(args) : ~IsPrintable(args[i]) THEN AnyR ELSE FmtWalk(args[1], 1, Tail(args), <<>>)

\* ================================================================= bucketing
Bucket(v, s) == (v \div s) * s                             \* TLA+ \div floors: Bucket <= v < Bucket + s
EvalBucket(f, args) ==
  LET sc == IntClass(args[2])  vc == IntClass(args[1]) IN
  IF sc = "no" THEN Marker
  ELSE IF sc # "small" THEN AnyR
  ELSE IF IntVal(args[2]) <= 0 THEN Marker
  ELSE IF vc = "no" THEN ErrNum
  ELSE IF vc # "small" THEN AnyR
  ELSE LET b == Bucket(IntVal(args[1]), IntVal(args[2])) IN
       IF f = "bucket" THEN Out(Itoa(b))
       ELSE Out(Itoa(b) \o RANGESEP \o Itoa(b + IntVal(args[2]) - 1))

EvalClamp(args) ==     \* {clamp intVal "min" "max"}
  LET c1 == IntClass(args[1])  c2 == IntClass(args[2])  c3 == IntClass(args[3]) IN
  IF c2 = "no" \/ c3 = "no" THEN Marker
  ELSE IF c2 # "small" \/ c3 # "small" THEN AnyR
  ELSE IF c1 = "no" THEN ErrNum
  ELSE IF c1 # "small" THEN AnyR
  ELSE LET v == IntVal(args[1])  lo == IntVal(args[2])  hi == IntVal(args[3]) IN
       IF lo > hi THEN AnyR
       ELSE IF v < lo THEN Out(WMIN)
       ELSE IF v > hi THEN Out(WMAX)
       ELSE IF Canonical(args[1]) THEN Out(args[1]) ELSE OneOf(<<args[1], Itoa(v)>>)

RECURSIVE P10Floor(_, _)
P10Floor(v, p) == IF p > v \div 10 THEN p ELSE P10Floor(v, p * 10)   \* largest power of ten <= v (v >= 1)
EvalExpBucket(s) ==
  LET c == IntClass(s) IN
  IF c = "no" THEN ErrNum
  ELSE IF c # "small" THEN AnyR
  ELSE IF IntVal(s) < 1 THEN AnyR
  ELSE Out(Itoa(P10Floor(IntVal(s), 1)))

\* ================================================================= number formatting
EvalHi(s) ==           \* only inserts thousands separators
  LET c == IntClass(s) IN
  IF c = "no" THEN ErrNum
  ELSE IF c # "small" THEN AnyR
  ELSE IF ~Canonical(s) THEN AnyR
  ELSE Out(HiFmt(IntVal(s)))

\* hf: commas in the integer part; the number of decimals is not documented: any k >= scale
EvalHf(s) ==
  LET c == DecClass(s) IN
  IF c = "no" THEN ErrNum
  ELSE IF c # "dec" THEN AnyR
  ELSE LET d == Dec(s)
           ip == Group3(NatDigits(d.a \div P10(d.s)))
           fp == IF d.s = 0 THEN <<>> ELSE PadZ(NatDigits(d.a % P10(d.s)), d.s)
           form(k) == Signed(d.neg, IF k = 0 THEN ip ELSE ip \o <<DOT>> \o fp \o Zeros(k - d.s))
       IN IF d.s > 4 THEN AnyR                               \* would need rounding
          ELSE OneOf([i \in 1..(9 - d.s) |-> form(d.s + i - 1)])

UnitStep(f) == IF f = "bytesize" THEN 1024 ELSE 1000
UnitNames(f) ==
  CASE f = "bytesize"   -> <<<<66>>, <<75, 66>>, <<77, 66>>, <<71, 66>>>>          \* B KB MB GB
    [] f = "bytesizesi" -> <<<<98>>, <<107, 66>>, <<109, 66>>, <<103, 66>>>>       \* b kB mB gB
    [] f = "downscale"  -> <<<<>>, <<107>>, <<77>>, <<66>>>>                       \* "" k M B
\* {bytesize v [precision]} {bytesizesi ..} {downscale ..}: v scaled down by the largest power of
\* the step that is <= |v|, rounded to `precision` decimals, followed by the unit
EvalUnit(f, args) ==
  LET pc == IF Len(args) = 2 THEN IntClass(args[2]) ELSE "small"
      p  == IF Len(args) = 2 /\ pc = "small" THEN IntVal(args[2]) ELSE 0
      vc == IntClass(args[1])
      step == UnitStep(f)
  IN
  IF pc = "no" THEN Marker
  ELSE IF pc # "small" \/ p < 0 \/ p > 4 THEN AnyR
  ELSE IF vc = "no" THEN ErrNum
  ELSE IF vc # "small" \/ ~Canonical(args[1]) THEN AnyR
  ELSE IF f # "downscale" /\ IntVal(args[1]) < 0 THEN AnyR   \* a negative byte size
  ELSE
    LET v == IntVal(args[1])  a == AbsI(v)
        rank == IF a < step THEN 0 ELSE IF a < step * step THEN 1
                ELSE IF a < LIM \/ step = 1024 THEN 2 ELSE 3
        D == IF rank = 1 THEN step ELSE IF rank = 2 THEN step * step ELSE LIM
        unit == UnitNames(f)[rank + 1]
        seps == IF f = "downscale" THEN <<<<>>>> ELSE <<<<>>, <<32>>>>
        withUnit(num) == [i \in 1..Len(seps) |-> num \o seps[i] \o unit]
    IN
    IF rank = 0 THEN
      \* below one step: the value itself (decimals, if printed at all, are zeros)
      LET alts == withUnit(Itoa(v)) \o (IF p > 0 THEN withUnit(Signed(v < 0, FmtFixed(a * P10(p), p))) ELSE <<>>)
      IN IF f = "downscale" THEN OneOf(alts) ELSE OneOfCI(alts)
    ELSE
      LET r == DivRound(a, D, p) IN
      IF r.st # "ok" THEN AnyR
      ELSE IF r.q >= step * P10(p) THEN AnyR                 \* rounds up to the next unit
      ELSE LET alts == withUnit(Signed(v < 0, FmtFixed(r.q, p))) IN
           IF f = "downscale" THEN OneOf(alts) ELSE OneOfCI(alts)

\* {percent val ["precision=1"] [[min=0] max=1]} = (val-min)*100/(max-min) with precision decimals
EvalPercent(args) ==
  LET n  == Len(args)
      pc == IF n >= 2 THEN IntClass(args[2]) ELSE "small"
      p  == IF n >= 2 /\ pc = "small" THEN IntVal(args[2]) ELSE 1
      nums == <<args[1]>> \o (IF n = 3 THEN <<args[3]>> ELSE IF n = 4 THEN <<args[3], args[4]>> ELSE <<>>)
  IN
  IF pc = "no" THEN Marker
  ELSE IF pc # "small" \/ p < 0 \/ p > 4 THEN AnyR
  ELSE IF \E i \in 1..Len(nums) : DecClass(nums[i]) = "no" THEN ErrNum
  ELSE IF \E i \in 1..Len(nums) : DecClass(nums[i]) # "dec" THEN AnyR
  ELSE
    LET dv == Dec(args[1])
        dmin == IF n = 4 THEN Dec(args[3]) ELSE [neg |-> FALSE, a |-> 0, s |-> 0]
        dmax == IF n = 3 THEN Dec(args[3]) ELSE IF n = 4 THEN Dec(args[4]) ELSE [neg |-> FALSE, a |-> 1, s |-> 0]
        S == MaxOf({dv.s, dmin.s, dmax.s})
        fits(d) == d.a <= 1000000 \div P10(S - d.s)
    IN
    IF S > 6 \/ ~fits(dv) \/ ~fits(dmin) \/ ~fits(dmax) THEN AnyR
    ELSE
      LET V == DecM(dv) * P10(S - dv.s)  Mn == DecM(dmin) * P10(S - dmin.s)  Mx == DecM(dmax) * P10(S - dmax.s)
          D0 == Mx - Mn
          N0 == (V - Mn) * 100
          neg == (N0 < 0) # (D0 < 0)
          N == AbsI(N0)  D == AbsI(D0)
      IN
      IF D = 0 THEN AnyR
      ELSE IF N > 100000000 THEN AnyR
      ELSE LET r == DivRound(N, D, p) IN
           IF r.st # "ok" THEN AnyR
           ELSE IF neg /\ r.q = 0 THEN AnyR
           ELSE Out(Signed(neg /\ N # 0, FmtFixed(r.q, p)) \o <<37>>)

\* ================================================================= lookup tables
\* kv-pairs text: one pair per line, key and value separated by any whitespace; blank lines,
\* comment lines (starting with the prefix) and lines with too many values are ignored
LookupRes(key, tbl, pfx) ==     \* [st: "hit" | "miss" | "unknown", v]
  LET ls == SplitOn(tbl, 10)
      live == {i \in 1..Len(ls) : ~(pfx # <<>> /\ HasPrefix(ls[i], pfx))}
      fs(i) == FieldsOf(ls[i], {32, 9})
      hit2 == {i \in live : Len(fs(i)) = 2 /\ fs(i)[1] = key}
      hit1 == {i \in live : Len(fs(i)) = 1 /\ fs(i)[1] = key}     \* a key without a value: undocumented
      vals == {fs(i)[2] : i \in hit2}
  IN IF hit1 # {} THEN [st |-> "unknown", v |-> <<>>]
     ELSE IF hit2 = {} THEN [st |-> "miss", v |-> <<>>]
     ELSE IF Cardinality(vals) = 1 THEN [st |-> "hit", v |-> CHOOSE x \in vals : TRUE]
     ELSE [st |-> "unknown", v |-> <<>>]                           \* duplicate key: undocumented
TblChars(t) == \A i \in 1..Len(t) : (t[i] >= 32 /\ t[i] <= 126) \/ t[i] \in {9, 10}
EvalLookup(f, args) ==
  LET pfx == IF Len(args) = 3 THEN args[3] ELSE <<>> IN
  IF ~TblChars(args[2]) \/ ~IsPrintable(pfx) \/ ~IsAscii(args[1]) THEN AnyR
  ELSE LET r == LookupRes(args[1], args[2], pfx) IN
       IF r.st = "unknown" THEN AnyR
       ELSE IF f = "lookup" THEN Out(r.v) ELSE Bool(r.st = "hit")

\* ================================================================= paths
PathChar(c) == IsDigit(c) \/ IsLower(c) \/ IsUpper(c) \/ c \in {45, 46, 95}
PathOK(p) ==
  /\ p # <<>> /\ \A i \in 1..Len(p) : PathChar(p[i]) \/ p[i] = 47
  /\ LET segs == SplitOn(p, 47) IN
     /\ \A i \in 2..Len(segs) : segs[i] # <<>>
     /\ (segs[1] # <<>> \/ Len(segs) >= 2)
     /\ \A i \in 1..Len(segs) : segs[i] \notin {<<46>>, <<46, 46>>}
EvalPath(f, s) ==
  IF ~PathOK(s) THEN AnyR
  ELSE LET segs == SplitOn(s, 47)  n == Len(segs)  base == segs[n] IN
    CASE f = "basename" -> Out(base)
      [] f = "dirname" ->
           IF n = 1 THEN AnyR                                 \* no directory part: undocumented
           ELSE LET d == JoinSeq(SubSeq(segs, 1, n - 1), <<47>>) IN Out(IF d = <<>> THEN <<47>> ELSE d)
      [] f = "extname" ->
           LET dots == {i \in 1..Len(base) : base[i] = DOT} IN
           IF dots = {} THEN Out(<<>>)
           ELSE LET l == MaxOf(dots) IN
                IF l = 1 \/ l = Len(base) THEN AnyR           \* ".profile", "name.": undocumented
                ELSE Out(SubSeq(base, l, Len(base)))

\* ================================================================= Eval
Eval(f, args) ==
  CASE f \in {"sumi", "subi", "multi", "divi", "modi", "maxi", "mini"} -> EvalIntFold(f, args)
    [] f \in {"sumf", "subf", "multf", "divf"} -> EvalFltFold(f, args)
    [] f = "pow" -> EvalPow(args)
    [] f = "sqrt" -> EvalSqrt(args[1])
    [] f \in {"log10", "log2", "ln"} -> IF DecClass(args[1]) = "no" THEN ErrNum ELSE AnyR
    [] f \in {"floor", "ceil"} -> EvalFloorCeil(f, args[1])
    [] f = "round" -> EvalRound(args)
    [] f = "eq" -> IF Len(args) = 2 THEN Bool1(args[1] = args[2]) ELSE AnyR
    [] f = "neq" -> IF Len(args) = 2 THEN Bool1(args[1] # args[2]) ELSE AnyR
    [] f = "not" -> EvalNot(args[1])
    [] f = "and" -> EvalAnd(args)
    [] f = "or" -> EvalOr(args)
    [] f = "if" -> EvalIf(args)
    [] f = "unless" -> EvalUnless(args)
    [] f = "switch" -> SwitchFrom(args, 1)
    [] f = "coalesce" -> EvalCoalesce(args)
    [] f = "isint" -> EvalIsInt(args[1])
    [] f = "isnum" -> EvalIsNum(args[1])
    [] f \in {"lt", "gt", "lte", "gte"} -> EvalCompare(f, args)
    [] f = "len" -> IF IsAscii(args[1]) THEN Out(Itoa(Len(args[1]))) ELSE AnyR
    [] f \in {"like", "prefix", "suffix"} -> EvalContains(f, args)
    [] f = "substr" -> EvalSubstr(args)
    [] f = "select" -> EvalSelect(args)
    [] f = "upper" -> IF IsAscii(args[1]) THEN Out(UpperASCII(args[1])) ELSE AnyR
    [] f = "lower" -> IF IsAscii(args[1]) THEN Out(LowerASCII(args[1])) ELSE AnyR
    [] f = "format" -> EvalFormat(args)
    [] f = "tab" -> Out(JoinSeq(args, <<9>>))
    [] f \in {"bucket", "bucketrange"} -> EvalBucket(f, args)
    [] f = "clamp" -> EvalClamp(args)
    [] f = "expbucket" -> EvalExpBucket(args[1])
    [] f = "csv" -> CsvR
    [] f = "hi" -> EvalHi(args[1])
    [] f = "hf" -> EvalHf(args[1])
    [] f \in {"bytesize", "bytesizesi", "downscale"} -> EvalUnit(f, args)
    [] f = "percent" -> EvalPercent(args)
    [] f \in {"lookup", "haskey"} -> EvalLookup(f, args)
    [] f \in {"basename", "dirname", "extname"} -> EvalPath(f, args[1])

Funcs == {"sumi", "subi", "multi", "divi", "modi", "maxi", "mini", "sumf", "subf", "multf", "divf",
          "pow", "sqrt", "log10", "log2", "ln", "floor", "ceil", "round",
          "eq", "neq", "not", "and", "or", "if", "unless", "switch", "coalesce", "isint", "isnum",
          "lt", "gt", "lte", "gte", "len", "like", "prefix", "suffix", "substr", "select",
          "upper", "lower", "format", "tab", "bucket", "bucketrange", "clamp", "expbucket",
          "csv", "hi", "hf", "bytesize", "bytesizesi", "downscale", "percent",
          "lookup", "haskey", "basename", "dirname", "extname"}

\* the call `{f a1 .. an}` with argument i a template constant (pos[i] = "c") or `{i}` ("d")
Expect(f, args, pos) ==
  LET n == Len(args) IN
  IF ~ArityOK(f, n) THEN ArgN
  ELSE IF \E i \in ConstOnly(f) : i <= n /\ pos[i] = "d" THEN Marker
  ELSE IF \E i \in SoftConst(f) : i <= n /\ pos[i] = "d" THEN AnyR
  ELSE Eval(f, args)

\* ================================================================= matching an observation
FoldCase(e, s) == IF e.v = <<1>> THEN LowerASCII(s) ELSE s
Matches(f, args, e, got, cerr) ==
  /\ (e.ce = "*" \/ (e.ce = "y") = cerr)
  /\ CASE e.k = "any" -> TRUE
       [] e.k = "out" -> got = e.v
       [] e.k = "oneof" -> \E i \in 1..Len(e.alts) : FoldCase(e, got) = FoldCase(e, e.alts[i])
       [] e.k = "truthy" -> TruthClass(got) = "true"
       [] e.k = "falsy" -> TruthClass(got) \in {"empty", "blank"}
       [] e.k = "marker" -> got \in Markers
       [] e.k = "notnum" -> ~DecOK(got)
       [] e.k = "csv" -> LET d == CsvDecodeRecord(got) IN d.ok /\ d.fields = args
=============================================================================

------------------------- MODULE MathExprFold_Trace -------------------------
(* B2 for the second clause of C19.  One record = the whole recorded history of *)
(* one family: a tree of MathExprFold_Gen whose literals #i were given values   *)
(* by the driver (cid[i] = an identifier of the value of table entry i,         *)
(* bid[b] = the identifiers of the values x, y take in binding b; equal         *)
(* identifiers <=> the same float64), compiled in its variants vs (base, full   *)
(* parentheses, constant leaves with ordinals s lifted into variables bound to  *)
(* the same values, variables written as the literal of the value bound in      *)
(* binding b) by the engines 1..3, each compiled object evaluated along a       *)
(* schedule of bindings, some from several goroutines at once:                  *)
(*     ev[k] = <<variant, engine, object, goroutine, step, binding, out>>       *)
(* out = an index into outs, the distinct result texts.                         *)
(* The specification computes for every evaluation its key - the identifiers of *)
(* the values that reach the leaves of the variant's tree (MathExprFold!EffKey  *)
(* on Lift(tree, s) under the extended binding) - and demands:                  *)
(*     same engine, same key  =>  same text                                     *)
(* i.e. the result is a function of the formula and the current values only:    *)
(* not of which leaves are literals (compile-time simplification invisible),    *)
(* not of the object, the goroutine, or what was evaluated before.              *)
(* Nothing numeric is modelled: the law holds for every arithmetic.             *)
EXTENDS MathExprFold, Json, FiniteSets

Trace == ndJsonDeserialize("trace.ndjson")

VARIABLES l, bad, nontrivial
tvars == <<l, bad, nontrivial>>

KeyOf(r, e) ==
  LET va == r.vs[e[1]]
      b == IF va.kind = "sub" THEN va.b ELSE e[6]
      S == {va.s[i] : i \in DOMAIN va.s}
      lt == Lift(r.tree, S, 0)
      eb == [v \in 1..(NV0 + Len(r.ci)) |-> IF v <= NV0 THEN r.bid[b][v] ELSE r.cid[r.ci[v - NV0]]]
  IN EffKey(lt, r.cid, eb)
Pairs(r) == {<<r.ev[i][2], KeyOf(r, r.ev[i]), r.ev[i][7]>> : i \in DOMAIN r.ev}
FamClass(r) ==
  IF r.npanic > 0 THEN "panic"
  ELSE IF r.nerr > 0 THEN "reject-wellformed"
  ELSE IF \E i \in DOMAIN r.outs, j \in DOMAIN r.outs : i # j /\ r.outs[i] = r.outs[j] THEN "malformed-record"
  ELSE LET P == Pairs(r) IN
       IF Cardinality(P) = Cardinality({<<p[1], p[2]>> : p \in P}) THEN "" ELSE "law"
\* a family demands something when some key is reached by two different evaluations
Demands(r) == Len(r.ev) >= 2

TInit == l = 1 /\ bad = <<>> /\ nontrivial = 0
TNext ==
  /\ l <= Len(Trace)
  /\ l' = l + 1
  /\ LET c == FamClass(Trace[l]) IN
     bad' = IF c = "" THEN bad ELSE Append(bad, [t |-> l, l |-> l, class |-> c])
  /\ nontrivial' = nontrivial + (IF Demands(Trace[l]) THEN 1 ELSE 0)
TSpec == TInit /\ [][TNext]_tvars

Final == (l = Len(Trace) + 1) =>
  JsonSerialize("bad.json", [bad |-> bad, consumed |-> l - 1, done |-> TRUE, nontrivial |-> nontrivial])
=============================================================================

-------------------------- MODULE ExprScalarHist_Gen --------------------------
(* B1 for the history layer of C11: TLC enumerates the BEHAVIOURS of            *)
(* ExprScalarHist (design "fresh") as evaluation shapes                         *)
(*   [k, evs: <<[i, c]>>, grants: <<evaluation ids>>]                           *)
(* over abstract scenarios with k \in Ks dynamic arguments, NI instances and   *)
(* NC contexts.  grants is the schedule at the granularity the real code can be    *)
(* driven at from outside: the first grant of an evaluation starts it (it runs  *)
(* up to its first context read), every further grant lets one read return (it  *)
(* runs up to the next read, or to its end).  The driver realises a shape on    *)
(* the real compiler with a context whose GetMatch / GetKey wait for their      *)
(* grant - evaluations in goroutines of their own, and, for shapes of the       *)
(* "nested" schedule, re-entrantly on ONE goroutine - for pools of real calls   *)
(* whose expectations TLC computed (ExprScalar_Gen); by ExprScalarHist!Isolated *)
(* the expectation of every evaluation of every shape is Expect(own arguments). *)
EXTENDS ExprScalarHist, Json, TLC

CONSTANTS Ks, NI, NC

VARIABLE grants
gvars == <<sc, ev, slots, memo, stick, stack, grants>>

B(n) == <<48 + n>>
AbsScen(K) ==
  [f |-> "tab", pos |-> [j \in 1..(K + 1) |-> IF j <= K THEN "d" ELSE "c"],
   insts |-> [i \in 1..NI |-> [j \in 1..(K + 1) |-> <<105>> \o B(i)]],
   ctxs |-> [c \in 1..NC |-> [j \in 1..(K + 1) |-> <<99>> \o B(c) \o B(j)]]]

AbsScen1 == {AbsScen(k) : k \in Ks}

GInit == Init /\ grants = <<>>

\* an evaluation whose last read has returned runs to its end before anything else happens
PendingFinish == {e \in Running : ev[e].k = Len(Dyn)}

GNext ==
  \/ /\ PendingFinish = {}
     /\ \E i \in 1..Len(sc.insts), c \in 1..Len(sc.ctxs) : Begin(i, c)
     /\ grants' = Append(grants, Len(ev) + 1)
  \/ /\ PendingFinish = {}
     /\ \E e \in 1..Len(ev) : Read(e) /\ grants' = Append(grants, e)
  \/ \E e \in PendingFinish : Finish(e) /\ UNCHANGED grants

GSpec == GInit /\ [][GNext]_gvars

Complete == Running = {} /\ Len(ev) >= 1

Dump ==
  Complete =>
    PrintT("VFJ " \o ToJson([k |-> Len(Dyn), sched |-> Sched,
                             evs |-> [e \in 1..Len(ev) |-> <<ev[e].i, ev[e].c>>],
                             grants |-> grants]))
=============================================================================

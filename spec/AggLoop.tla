------------------------------- MODULE AggLoop -------------------------------
(* C05 - implementation-shaped model of rare's aggregation loop                 *)
(* (cmd/helpers/updatingAggregator.go RunAggregationLoop) together with an      *)
(* abstract producer side (pkg/extractor/batchers/fileBatcher.go readers,       *)
(* pkg/extractor/extractor.go workers) reduced to what the loop depends on:     *)
(* who sends on / closes which channel and when the matched-lines counter moves.*)
(*                                                                              *)
(*   env      releases the batches of each input file (data becomes readable)   *)
(*   reader r (R slots = the `sema` of OpenFilesToChan) claims the next file,   *)
(*            sends its batches on batchCh (cap BCap); after wg.Wait the        *)
(*            spawner closes batchCh.  A name that cannot be opened (a file     *)
(*            written <<>>: no content at all) leaves through the open-error    *)
(*            path, which gives the slot back like every other way out          *)
(*   worker w receives a batch, bumps the atomic matchedLines for every match,  *)
(*            sends the non-empty match batch on readCh (cap RCap; 5 in the     *)
(*            code); after wg.Wait a closer goroutine closes readCh             *)
(*   main     select on readCh; Lock; Sample each match; Unlock; when readCh is *)
(*            closed: `outputDone <- true` (unbuffered), final writeOutput, ret *)
(*   ticker   select { <-outputDone: return; <-time.After: Lock; writeOutput;   *)
(*            Unlock }                                                          *)
(*                                                                              *)
(* A line of the input is its extracted key (1..) or 0 for a line that does not *)
(* match.  Fault # "none" switches on one seeded design error; TLC must reject  *)
(* each of them (sensitivity of the laws below), and accept "none".             *)
EXTENDS Integers, Sequences, FiniteSets, Functions, FiniteSetsExt, SequencesExt

CONSTANTS
  Files,      \* <<file>>, file = <<batch>>, batch = <<key or 0>>
  W, R,       \* workers, concurrent readers
  BCap, RCap, \* capacities of batchCh and readCh
  MaxTicks,   \* bound on the number of 100 ms ticks that fire
  EnvSteps,   \* TRUE: input becomes readable batch by batch (env process)
  Fault       \* "none" | "nomutex" | "buffered" | "nofinal" | "earlyclose" | "latecount" | "slotleak"

NF == Len(Files)
AllBatches == {<<f, i>> : f \in 1..NF, i \in 1..3} \* ids; filtered below
BatchIds == {b \in AllBatches : b[2] <= Len(Files[b[1]])}
Lines(b) == Files[b[1]][b[2]]
Matches(b) == SelectSeq(Lines(b), LAMBDA k : k # 0)
Keys == UNION {ToSet(Matches(b)) : b \in BatchIds}
CountIn(s, k) == Cardinality({i \in 1..Len(s) : s[i] = k})
\* names that cannot be opened (missing, no permission): os.Open fails, nothing is ever read from them
Missing == {f \in 1..NF : Files[f] = <<>>}
Total == [k \in Keys |-> FoldSet(LAMBDA b, acc : acc + CountIn(Lines(b), k), 0, BatchIds)]

VARIABLES
  rel,        \* rel[f] = batches of file f made readable by the environment
  nextFile,   \* next file the spawner hands to a free reader slot
  rdr,        \* rdr[r] = [f |-> file being read (0 = idle), i |-> next batch]; an idle slot has i = 0 - a slot
              \* whose goroutine is gone (wg.Done) but whose token is still in `sema` has i = -1 (Fault "slotleak")
  batchCh, bClosed,
  wk,         \* wk[w] = [pc |-> "recv" | "send" | "done" (| "count"), out |-> match batch to send]
  readCh, rClosed,
  matched,    \* Extractor.matchedLines (atomic)
  mpc, mb,    \* main: program counter, rest of the match batch being sampled
  tpc, ticks, \* ticker goroutine
  mutex,      \* outputMutex: "free" | "main" | "tick"
  doneBuf,    \* only with Fault = "buffered": a value sits in outputDone
  cnt,        \* the aggregator: key -> count
  snap, snapM, fresh,   \* last render (see AggLoopObs)
  panic       \* a goroutine sent on a closed channel

vars == <<rel, nextFile, rdr, batchCh, bClosed, wk, readCh, rClosed, matched, mpc, mb,
          tpc, ticks, mutex, doneBuf, cnt, snap, snapM, fresh, panic>>

Obs == INSTANCE AggLoopObs WITH
         total <- Total, inS <- (mpc = "sampling"),
         inR <- (tpc = "render" \/ mpc = "finalR"), returned <- (mpc = "ret")

Init ==
  /\ rel = [f \in 1..NF |-> IF EnvSteps THEN 0 ELSE Len(Files[f])]
  /\ nextFile = 1
  /\ rdr = [r \in 1..R |-> [f |-> 0, i |-> 0]]
  /\ batchCh = <<>> /\ bClosed = FALSE
  /\ wk = [w \in 1..W |-> [pc |-> "recv", out |-> <<>>]]
  /\ readCh = <<>> /\ rClosed = FALSE
  /\ matched = 0
  /\ mpc = "select" /\ mb = <<>>
  /\ tpc = "select" /\ ticks = 0
  /\ mutex = "free" /\ doneBuf = FALSE
  /\ cnt = [k \in Keys |-> 0]
  /\ snap = [k \in Keys |-> 0] /\ snapM = 0 /\ fresh = FALSE
  /\ panic = FALSE

\* ------------------------------------------------------------ environment
EnvRel(f) ==
  /\ rel[f] < Len(Files[f])
  /\ rel' = [rel EXCEPT ![f] = @ + 1]
  /\ UNCHANGED <<nextFile, rdr, batchCh, bClosed, wk, readCh, rClosed, matched, mpc, mb,
                 tpc, ticks, mutex, doneBuf, cnt, snap, snapM, fresh, panic>>

\* ---------------------------------------------------------------- readers
prodUnch == <<matched, mpc, mb, tpc, ticks, mutex, doneBuf, cnt, snap, snapM, fresh>>

Claim(r) ==       \* sema <- struct{}{}; wg.Add(1); go func(filename)
  /\ rdr[r].f = 0 /\ rdr[r].i = 0 /\ nextFile <= NF
  /\ rdr' = [rdr EXCEPT ![r] = [f |-> nextFile, i |-> 1]]
  /\ nextFile' = nextFile + 1
  /\ UNCHANGED <<rel, batchCh, bClosed, wk, readCh, rClosed, panic>> /\ UNCHANGED prodUnch

RSend(r) ==       \* s.c <- InputBatch{...}
  LET f == rdr[r].f  i == rdr[r].i IN
  /\ f # 0 /\ i <= Len(Files[f]) /\ rel[f] >= i
  /\ IF bClosed THEN panic' = TRUE /\ UNCHANGED batchCh
     ELSE /\ Len(batchCh) < BCap
          /\ batchCh' = Append(batchCh, <<f, i>>) /\ UNCHANGED panic
  /\ rdr' = [rdr EXCEPT ![r].i = i + 1]
  /\ UNCHANGED <<rel, nextFile, bClosed, wk, readCh, rClosed>> /\ UNCHANGED prodUnch

\* openFileToReader fails: the error is logged and counted and the goroutine returns - through the
\* same deferred `<-sema; wg.Done()` as every other way out.  Seeded fault "slotleak": the open-error
\* path does wg.Done() but keeps the semaphore token
ROpenFail(r) ==
  /\ rdr[r].f \in Missing
  /\ rdr' = [rdr EXCEPT ![r] = [f |-> 0, i |-> IF Fault = "slotleak" THEN 0 - 1 ELSE 0]]
  /\ UNCHANGED <<rel, nextFile, batchCh, bClosed, wk, readCh, rClosed, panic>> /\ UNCHANGED prodUnch

RDone(r) ==       \* <-sema; wg.Done()
  /\ rdr[r].f # 0 /\ rdr[r].f \notin Missing /\ rdr[r].i > Len(Files[rdr[r].f])
  /\ rdr' = [rdr EXCEPT ![r] = [f |-> 0, i |-> 0]]
  /\ UNCHANGED <<rel, nextFile, batchCh, bClosed, wk, readCh, rClosed, panic>> /\ UNCHANGED prodUnch

CloseBatch ==     \* wg.Wait(); out.close()
  /\ ~bClosed /\ nextFile > NF /\ \A r \in 1..R : rdr[r].f = 0
  /\ bClosed' = TRUE
  /\ UNCHANGED <<rel, nextFile, rdr, batchCh, wk, readCh, rClosed, panic>> /\ UNCHANGED prodUnch

\* ---------------------------------------------------------------- workers
\* `batch, more := <-inputBatch`, then processLineSync for every line: the atomic matchedLines is
\* incremented per matching line BEFORE the match batch is sent (one step here: only the order
\* "count, then send" matters to the loop)
WRecv(w) ==
  /\ wk[w].pc = "recv" /\ batchCh # <<>>
  /\ LET out == Matches(Head(batchCh)) IN
       /\ wk' = [wk EXCEPT ![w] = [pc |-> IF out = <<>> THEN "recv" ELSE "send", out |-> out]]
       /\ matched' = IF Fault = "latecount" THEN matched ELSE matched + Len(out)
  /\ batchCh' = Tail(batchCh)
  /\ UNCHANGED <<rel, nextFile, rdr, bClosed, readCh, rClosed, mpc, mb, tpc, ticks, mutex,
                 doneBuf, cnt, snap, snapM, fresh, panic>>

WExit(w) ==       \* channel closed and drained: `break`, deferred wg.Done()
  /\ wk[w].pc = "recv" /\ batchCh = <<>> /\ bClosed
  /\ wk' = [wk EXCEPT ![w].pc = "done"]
  /\ UNCHANGED <<rel, nextFile, rdr, batchCh, bClosed, readCh, rClosed, matched, mpc, mb, tpc,
                 ticks, mutex, doneBuf, cnt, snap, snapM, fresh, panic>>

WSend(w) ==       \* s.readChan <- matchBatch
  /\ wk[w].pc = "send"
  /\ IF rClosed THEN panic' = TRUE /\ UNCHANGED readCh
     ELSE /\ Len(readCh) < RCap
          /\ readCh' = Append(readCh, wk[w].out) /\ UNCHANGED panic
  /\ wk' = IF Fault = "latecount" THEN [wk EXCEPT ![w].pc = "count"]
                                   ELSE [wk EXCEPT ![w] = [pc |-> "recv", out |-> <<>>]]
  /\ UNCHANGED <<rel, nextFile, rdr, batchCh, bClosed, rClosed, matched, mpc, mb, tpc, ticks, mutex,
                 doneBuf, cnt, snap, snapM, fresh>>

\* seeded fault "latecount": the matched-lines counter is bumped only after the batch was handed over
WCount(w) ==
  /\ wk[w].pc = "count"
  /\ matched' = matched + Len(wk[w].out)
  /\ wk' = [wk EXCEPT ![w] = [pc |-> "recv", out |-> <<>>]]
  /\ UNCHANGED <<rel, nextFile, rdr, batchCh, bClosed, readCh, rClosed, mpc, mb, tpc, ticks, mutex,
                 doneBuf, cnt, snap, snapM, fresh, panic>>

CloseRead ==      \* go func() { wg.Wait(); close(extractor.readChan) }()
  /\ ~rClosed
  /\ IF Fault = "earlyclose" THEN \E w \in 1..W : wk[w].pc = "done"
                             ELSE \A w \in 1..W : wk[w].pc = "done"
  /\ rClosed' = TRUE
  /\ UNCHANGED <<rel, nextFile, rdr, batchCh, bClosed, wk, readCh, matched, mpc, mb, tpc, ticks,
                 mutex, doneBuf, cnt, snap, snapM, fresh, panic>>

\* ------------------------------------------------------------------- main
loopUnch == <<rel, nextFile, rdr, batchCh, bClosed, wk, rClosed, matched, panic>>

MRecv ==          \* case matchBatch, more := <-reader  (more = true)
  /\ mpc = "select" /\ readCh # <<>>
  /\ mb' = Head(readCh) /\ readCh' = Tail(readCh) /\ mpc' = "lock"
  /\ UNCHANGED <<tpc, ticks, mutex, doneBuf, cnt, snap, snapM, fresh>> /\ UNCHANGED loopUnch

MClosed ==        \* !more: break PROCESSING_LOOP
  /\ mpc = "select" /\ readCh = <<>> /\ rClosed
  /\ mpc' = "sendDone"
  /\ UNCHANGED <<readCh, mb, tpc, ticks, mutex, doneBuf, cnt, snap, snapM, fresh>> /\ UNCHANGED loopUnch

MLock ==          \* outputMutex.Lock()
  /\ mpc = "lock" /\ mutex = "free"
  /\ mutex' = "main" /\ mpc' = "sample"
  /\ UNCHANGED <<readCh, mb, tpc, ticks, doneBuf, cnt, snap, snapM, fresh>> /\ UNCHANGED loopUnch

MSEnter ==        \* aggregator.Sample(match.Extracted) is entered
  /\ mpc = "sample" /\ mb # <<>>
  /\ mpc' = "sampling"
  /\ UNCHANGED <<readCh, mb, tpc, ticks, mutex, doneBuf, cnt, snap, snapM, fresh>> /\ UNCHANGED loopUnch

MSExit ==         \* ... and returns
  /\ mpc = "sampling"
  /\ cnt' = [cnt EXCEPT ![Head(mb)] = @ + 1]
  /\ mb' = Tail(mb) /\ mpc' = "sample" /\ fresh' = FALSE
  /\ UNCHANGED <<readCh, tpc, ticks, mutex, doneBuf, snap, snapM>> /\ UNCHANGED loopUnch

MUnlock ==        \* outputMutex.Unlock()
  /\ mpc = "sample" /\ mb = <<>>
  /\ mutex' = "free" /\ mpc' = "select"
  /\ UNCHANGED <<readCh, mb, tpc, ticks, doneBuf, cnt, snap, snapM, fresh>> /\ UNCHANGED loopUnch

\* outputDone <- true on the unbuffered channel: a rendezvous with the ticker's select
DoneRendezvous ==
  /\ mpc = "sendDone" /\ Fault # "buffered" /\ tpc = "select"
  /\ mpc' = "final" /\ tpc' = "exit"
  /\ UNCHANGED <<readCh, mb, ticks, mutex, doneBuf, cnt, snap, snapM, fresh>> /\ UNCHANGED loopUnch

\* seeded fault: outputDone has a buffer of one - the send does not wait for the ticker
DoneBufferedSend ==
  /\ mpc = "sendDone" /\ Fault = "buffered"
  /\ mpc' = "final" /\ doneBuf' = TRUE
  /\ UNCHANGED <<readCh, mb, tpc, ticks, mutex, cnt, snap, snapM, fresh>> /\ UNCHANGED loopUnch
DoneBufferedRecv ==
  /\ tpc = "select" /\ doneBuf
  /\ tpc' = "exit" /\ doneBuf' = FALSE
  /\ UNCHANGED <<readCh, mpc, mb, ticks, mutex, cnt, snap, snapM, fresh>> /\ UNCHANGED loopUnch

MFinalEnter ==    \* the final writeOutput() (no lock: the ticker is gone)
  /\ mpc = "final" /\ Fault # "nofinal"
  /\ snap' = cnt /\ snapM' = matched /\ fresh' = FALSE /\ mpc' = "finalR"
  /\ UNCHANGED <<readCh, mb, tpc, ticks, mutex, doneBuf, cnt>> /\ UNCHANGED loopUnch

MFinalExit ==
  /\ mpc = "finalR"
  /\ fresh' = TRUE /\ mpc' = "retp"
  /\ UNCHANGED <<readCh, mb, tpc, ticks, mutex, doneBuf, cnt, snap, snapM>> /\ UNCHANGED loopUnch

MRet ==
  /\ mpc = "retp" \/ (mpc = "final" /\ Fault = "nofinal")
  /\ mpc' = "ret"
  /\ UNCHANGED <<readCh, mb, tpc, ticks, mutex, doneBuf, cnt, snap, snapM, fresh>> /\ UNCHANGED loopUnch

\* ----------------------------------------------------------------- ticker
TTick ==          \* case <-time.After(100 * time.Millisecond)
  /\ tpc = "select" /\ ticks < MaxTicks
  /\ tpc' = "lock" /\ ticks' = ticks + 1
  /\ UNCHANGED <<readCh, mpc, mb, mutex, doneBuf, cnt, snap, snapM, fresh>> /\ UNCHANGED loopUnch

TRender ==        \* outputMutex.Lock(); writeOutput() starts: reads the aggregate, then MatchedLines()
  /\ tpc = "lock" /\ (mutex = "free" \/ Fault = "nomutex")
  /\ mutex' = IF Fault = "nomutex" THEN mutex ELSE "tick"
  /\ tpc' = "render"
  /\ snap' = cnt /\ snapM' = matched /\ fresh' = FALSE
  /\ UNCHANGED <<readCh, mpc, mb, ticks, doneBuf, cnt>> /\ UNCHANGED loopUnch

TUnlock ==        \* writeOutput() returns; outputMutex.Unlock()
  /\ tpc = "render"
  /\ mutex' = IF Fault = "nomutex" THEN mutex ELSE "free"
  /\ tpc' = "select" /\ fresh' = TRUE
  /\ UNCHANGED <<readCh, mpc, mb, ticks, doneBuf, cnt, snap, snapM>> /\ UNCHANGED loopUnch

\* -------------------------------------------------------------------- spec
Env     == \E f \in 1..NF : EnvRel(f)
Reader(r) == Claim(r) \/ RSend(r) \/ RDone(r) \/ ROpenFail(r)
Worker(w) == WRecv(w) \/ WExit(w) \/ WSend(w) \/ WCount(w)
Main    == MRecv \/ MClosed \/ MLock \/ MSEnter \/ MSExit \/ MUnlock \/ DoneRendezvous
           \/ DoneBufferedSend \/ MFinalEnter \/ MFinalExit \/ MRet
Ticker  == TTick \/ TRender \/ TUnlock \/ DoneBufferedRecv
\* the program is over once main returned (the process exits); a panic stops everything
Running == mpc # "ret" /\ ~panic
Terminated == ~Running /\ UNCHANGED vars
Next == \/ Running /\ (Env \/ (\E r \in 1..R : Reader(r)) \/ CloseBatch
                       \/ (\E w \in 1..W : Worker(w)) \/ CloseRead \/ Main \/ Ticker)
        \/ Terminated

Fairness ==
  /\ WF_vars(Running /\ Env)
  /\ \A r \in 1..R : WF_vars(Running /\ Reader(r))
  /\ WF_vars(Running /\ CloseBatch)
  /\ \A w \in 1..W : WF_vars(Running /\ Worker(w))
  /\ WF_vars(Running /\ CloseRead)
  /\ WF_vars(Running /\ Main)
  /\ WF_vars(Running /\ (TRender \/ TUnlock \/ DoneBufferedRecv))   \* a tick itself is never forced

Spec == Init /\ [][Next]_vars /\ Fairness

\* ------------------------------------------------------------- properties
TypeOK ==
  /\ \A f \in 1..NF : rel[f] \in 0..Len(Files[f])
  /\ nextFile \in 1..(NF + 1)
  /\ Len(batchCh) <= BCap /\ Len(readCh) <= RCap
  /\ \A i \in 1..Len(readCh) : readCh[i] # <<>>
  /\ mpc \in {"select", "lock", "sample", "sampling", "sendDone", "final", "finalR", "retp", "ret"}
  /\ tpc \in {"select", "lock", "render", "exit"}
  /\ mutex \in {"free", "main", "tick"}
  /\ ticks \in 0..MaxTicks

\* a render never runs while a match is being sampled; the two renderers never overlap
Mutex ==
  /\ ~(mpc \in {"sample", "sampling"} /\ tpc = "render")
  /\ ~(mpc = "finalR" /\ tpc = "render")
  /\ (mutex = "main") = (mpc \in {"sample", "sampling"})
  /\ (mutex = "tick") = (tpc = "render")

NoSendOnClosed == ~panic

\* every render shows counts <= the final counts, and a matched total >= their sum
SnapLeFinal == \A k \in Keys : snap[k] <= Total[k] /\ cnt[k] <= Total[k]
MatchedGeSum == snapM >= Obs!SumF(snap) /\ matched >= Obs!SumF(cnt)

\* the final render happens after the last Sample, after the ticker exited and after every worker
FinalAfterAll ==
  mpc \in {"finalR", "retp", "ret"} =>
     /\ cnt = Total /\ tpc = "exit" /\ rClosed /\ readCh = <<>>
     /\ \A w \in 1..W : wk[w].pc = "done"
FinalComplete == mpc = "ret" => snap = Total /\ snapM = Obs!SumF(Total) /\ fresh

\* reader slots: a slot is taken exactly while its goroutine lives, so the spawner is never kept from
\* starting the next name once a reader has left - whichever way it left (open error included)
SlotsOK ==
  /\ \A r \in 1..R : rdr[r].f = 0 => rdr[r].i = 0
  /\ (nextFile <= NF /\ \A r \in 1..R : rdr[r].f = 0) => \E r \in 1..R : ENABLED Claim(r)

\* nothing is left behind: the ticker goroutine is gone when the loop returns
NoLeak == mpc = "ret" => tpc = "exit" /\ mutex = "free"

Monotone == [][\A k \in Keys : cnt'[k] >= cnt[k] /\ snap'[k] >= snap[k]]_vars

Refines == Obs!OSpec
Terminates == <>(mpc = "ret")
=============================================================================

-------------------------- MODULE SortingAccum_Trace --------------------------
(* B2 for the accumulating group of C13: validates what REAL                      *)
(* aggregation.AccumulatingGroup objects listed against SortingAccum.tla.  The    *)
(* driver feeds families of random histories - one multiset of samples (3 groups, *)
(* values -3..3, up to 12 samples) delivered in several random orders, with        *)
(* displays at random moments - to one long-lived object per sort expression and  *)
(* direction and records every Groups() call:                                     *)
(*   {univ, expr, rev, ops: the samples folded so far, got: the groups listed      *)
(*    (indices into GroupNames(univ), 0 = not a group of the universe)}            *)
(* The specification folds `ops` into the rows itself and judges the listing:      *)
(*   perm   it lists exactly the groups present                                    *)
(*   order  no group after one whose CURRENT sort value the sorter puts behind it  *)
(*   rows   RowsOnly: it is the listing recorded earlier for EQUAL rows (same      *)
(*          universe, expression, direction), whatever history led to them         *)
(* Total: every record is consumed; broken laws are collected in `bad`.            *)
EXTENDS SortingAccum, Json

Trace == ndJsonDeserialize("trace.ndjson")

VARIABLES l, canon, bad
tvars == <<l, canon, bad>>
Ev == Trace[l]

RowSeq(rows) == [g \in G |-> <<rows[g].s, rows[g].c, rows[g].m>>]
WellFormed(e) ==
  /\ e.univ \in AccUnivs /\ e.expr \in Exprs /\ e.rev \in BOOLEAN
  /\ \A k \in 1..Len(e.ops) : e.ops[k][1] \in G /\ e.ops[k][2] \in (0 - 1000)..1000
  /\ Len(e.ops) <= 40
Laws(e) ==
  LET rows == RowsOf(e.ops)
      key  == <<e.univ, e.expr, e.rev, RowSeq(rows)>>
      perm == IsListingOf(e.got, rows)
  IN << <<"perm", perm>>,
        <<"order", perm => RanksOK(e.univ, e.expr, e.rev, rows, e.got)>>,
        <<"rows", (perm /\ key \in DOMAIN canon) => e.got = canon[key]>> >>
Failed(laws) == LET F == SelectSeq(laws, LAMBDA p : ~p[2]) IN [k \in 1..Len(F) |-> F[k][1]]

TStep ==
  /\ l <= Len(Trace) /\ l' = l + 1
  /\ IF ~WellFormed(Ev)
     THEN /\ bad' = Append(bad, [l |-> l, t |-> l, law |-> "harness", univ |-> "?", expr |-> "?", rev |-> FALSE])
          /\ canon' = canon
     ELSE LET laws == Laws(Ev)
              rows == RowsOf(Ev.ops)
              key  == <<Ev.univ, Ev.expr, Ev.rev, RowSeq(rows)>>
              f    == Failed(laws)
          IN /\ bad' = bad \o [k \in 1..Len(f) |-> [l |-> l, t |-> l, law |-> f[k], univ |-> Ev.univ, expr |-> Ev.expr, rev |-> Ev.rev]]
             /\ canon' = IF laws[1][2] /\ key \notin DOMAIN canon THEN canon @@ (key :> Ev.got) ELSE canon
TInit == l = 1 /\ canon = [x \in {} |-> <<>>] /\ bad = <<>>
TNext == TStep
TSpec == TInit /\ [][TNext]_tvars

Final == (l = Len(Trace) + 1) => JsonSerialize("bad.json", [bad |-> bad, consumed |-> l - 1, done |-> TRUE])
=============================================================================

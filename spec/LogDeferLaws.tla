----------------------------- MODULE LogDeferLaws -----------------------------
(* What a user of pkg/logger is owed, stated over a HISTORY of calls:             *)
(*   h   : sequence of [op \in {"P","D","I"}, w, k, s, e, vis]                    *)
(*         P = a Print* call of goroutine w with its k-th line, D = DeferLogs,    *)
(*         I = ImmediateLogs (k = position among the controller's calls);         *)
(*         s / e = stamps of a global event counter taken before the call and     *)
(*         after it returned (e = 0: not returned yet); vis = the line was on     *)
(*         stderr when the caller looked right after the return (before e).       *)
(*   err : the lines on stderr, in order, as <<w, k>>                             *)
(* The same operators are invariants of LogDefer.tla (TLC, all interleavings) and *)
(* the judge of histories recorded from the real package (LogDefer_Trace).        *)
EXTENDS Integers, Sequences, FiniteSets

LOCAL Ps(h) == {i \in 1..Len(h) : h[i].op = "P"}
LOCAL Cs(h, o) == {i \in 1..Len(h) : h[i].op = o}
LOCAL LineOf(r) == <<r.w, r.k>>
LOCAL Pos(err, m) == {i \in 1..Len(err) : err[i] = m}
LOCAL OnErr(err, m) == Pos(err, m) # {}
LOCAL First(S) == CHOOSE x \in S : \A y \in S : x <= y

\* the call is certainly made in deferred mode: a DeferLogs returned before it began and no ImmediateLogs that
\* comes later in the controller's script began before it ended
Deferred(h, i) == \E d \in Cs(h, "D") : /\ h[d].e > 0 /\ h[d].e < h[i].s
                                        /\ \A x \in Cs(h, "I") : h[x].k > h[d].k => (h[i].e > 0 /\ h[x].s > h[i].e)
\* the call is certainly made in immediate mode: every DeferLogs that began before it ended was followed by an
\* ImmediateLogs that returned before it began
Immediate(h, i) == /\ h[i].e > 0
                   /\ \A d \in Cs(h, "D") : h[d].s < h[i].e =>
                        \E x \in Cs(h, "I") : h[x].k > h[d].k /\ h[x].e > 0 /\ h[x].e < h[i].s

WhyPrefix(h, err) ==
  (IF \A i, j \in 1..Len(err) : i # j => err[i] # err[j] THEN {} ELSE {"dup"}) \cup
  (IF \A i \in 1..Len(err) : \E p \in Ps(h) : LineOf(h[p]) = err[i] THEN {} ELSE {"alien"}) \cup
  (IF \A a, b \in Ps(h) : (h[a].e > 0 /\ h[a].e < h[b].s /\ OnErr(err, LineOf(h[b])))
                            => (OnErr(err, LineOf(h[a])) /\ First(Pos(err, LineOf(h[a]))) < First(Pos(err, LineOf(h[b]))))
   THEN {} ELSE {"order"}) \cup
  (IF \A p \in Ps(h) : (h[p].e > 0 /\ Deferred(h, p)) => ~h[p].vis THEN {} ELSE {"defer-leak"}) \cup
  (IF \A p \in Ps(h) : Immediate(h, p) => h[p].vis THEN {} ELSE {"imm-hidden"})

\* of a finished history whose last controller call is ImmediateLogs and has returned
Why(h, err) ==
  WhyPrefix(h, err) \cup
  (IF \A p \in Ps(h) : OnErr(err, LineOf(h[p])) THEN {} ELSE {"lost"})
=============================================================================

----------------------------- MODULE InputsBuf -----------------------------
(* C06 - "completely processed" below the line level.                           *)
(*                                                                              *)
(* Inputs.tla says what an input must deliver: LinesOf(its bytes), every line   *)
(* once and intact.  In the code every input - file, -z stream, FIFO, standard  *)
(* input - is read through ONE scanner whose lines are views into its read      *)
(* buffer; the reader collects them in a batch, batches queue in a bounded      *)
(* channel, a worker and the consumer read the bytes under the views later,     *)
(* while the scanner goes on filling (and replacing) its buffer.  Whether the   *)
(* delivered lines are the lines of the input therefore depends on the GEOMETRY *)
(* of the input relative to the buffer: where Read results end, whether a line  *)
(* end falls on the last byte of a full buffer (nothing unread to carry over),  *)
(* one byte before or after it.                                                 *)
(*                                                                              *)
(* This module takes the byte-level composition scanner + reader loop + batch   *)
(* channel + worker + consumer (PipelineBuf over ScannerImm: the environment    *)
(* picks every Read result, so every chunk / buffer geometry within the bounds  *)
(* occurs, for every buffer size BufSize) and states C06's demand on it:        *)
(*   CompleteOK  when the run has drained, the consumer has seen, in order and  *)
(*               byte for byte, exactly Inputs!LinesOf(all bytes the input      *)
(*               delivered) - for EVERY buffer size and EVERY chunking          *)
(*   PrefixOK6   in every state what the consumer has seen is a prefix of it    *)
(* Reuse = "never" is the code (a full buffer is always replaced by a new one), *)
(* "free" an admissible optimisation (recycle only when nothing is held);       *)
(* "always" - recycle the buffer in place whenever it is full and completely    *)
(* consumed, i.e. when a line end sits on its last byte - must be refuted.      *)
EXTENDS PipelineBuf

I == INSTANCE Inputs

ConsumerSaw == [k \in 1..Len(seenC) |-> seenC[k][2]]
CompleteOK == (Drained /\ st # "open") => ConsumerSaw = I!LinesOf(delivered)
\* (a worker may still see a line that is about to be completed differently only at the very end of the stream;
\*  what the consumer saw so far never changes afterwards)
PrefixOK6 == st # "open" => LET all == I!LinesOf(delivered) IN
               Len(ConsumerSaw) <= Len(all) /\ ConsumerSaw = SubSeq(all, 1, Len(ConsumerSaw))
\* the geometry the property's "completely processed" is sensitive to is reachable in the model:
\* a full buffer whose last byte ends a line (this invariant must be REFUTED - coverage of the model)
NeverFullAndConsumed == ~(pc = "grow" /\ end >= Len(Buf) /\ offset = end /\ Held # {})
=============================================================================

--------------------------- MODULE MiniJson_Trace ---------------------------
(* C16 - B1/B2: validates recorded executions of the real code against the       *)
(* MiniJson specification, on the recorded output BYTES.  One record per line:   *)
(*                                                                              *)
(*  view{src, names, groups, named, numbered, out, alts, evals, gov}             *)
(*        a match with the group texts `groups` (group 0 first; read from        *)
(*        Match.Indices) and the named groups `names` (SubexpNameTable) was      *)
(*        evaluated `evals` times (same and fresh instances / processes) with    *)
(*        -e {.} / {#} / {.#}; out = the first text, alts = the other distinct   *)
(*        texts seen.  src: regex | dissect | cli-filter                         *)
(*  ops{src, ops, det, out, alts, evals, gov}                                    *)
(*        the builder used directly: ops = <<[op, key, val]>> with op in         *)
(*        "inferred" | "string" (minijson.JsonObjectBuilder, MarshalString-      *)
(*        MapInferred, `rare expression -d .. -k ..`); det = repeated            *)
(*        evaluation must give one text                                          *)
(*  histo{names, groups, lines, rows, ngroups}                                   *)
(*        `rare histogram -e {.}` over `lines` identical lines: rows =           *)
(*        <<key, count>> of the final table, ngroups = the reported group count  *)
(*  xv{text, gov, cmp, mem}                                                      *)
(*        cross-validation of THIS specification: gov = encoding/json accepts    *)
(*        `text` as one flat object; mem = its members as encoding/json decodes  *)
(*        them (compared when cmp).  A disagreement is a specification problem   *)
(*        (collected in specbad -> the check is inconclusive), never a verdict.  *)
(*                                                                              *)
(* `gov` of view/ops records is cross-checked the same way.  The trace spec is   *)
(* total: every record is consumed; the records the specification cannot         *)
(* explain are collected in `bad` with a class.                                  *)
EXTENDS MiniJson, Json, TLC

Trace == ndJsonDeserialize("trace.ndjson")

VARIABLES l, bad, specbad, stat
tvars == <<l, bad, specbad, stat>>

OpsExpected(ops) == [k \in 1..Len(ops) |-> Member(ops[k].key, ops[k].val)]
IsNumeral(n) == AllDigits(n) /\ (Len(n) = 1 \/ n[1] # ZERO)
OpsOK(ops) ==
  /\ \A k \in 1..Len(ops) : IsIdent(ops[k].key) \/ IsNumeral(ops[k].key)
  /\ \A j, k \in 1..Len(ops) : j # k => ops[j].key # ops[k].key

InDomain(r) ==
  CASE r.k = "view"  -> NamesOK(r.names, r.groups) /\ Len(r.groups) >= 1
    [] r.k = "ops"   -> OpsOK(r.ops)
    [] r.k = "histo" -> NamesOK(r.names, r.groups)
    [] OTHER -> FALSE

ExpOf(r) ==
  CASE r.k = "view"  -> Expected(r.names, r.groups, r.named, r.numbered)
    [] r.k = "ops"   -> OpsExpected(r.ops)
    [] r.k = "histo" -> Expected(r.names, r.groups, TRUE, FALSE)

\* the verdict on one record (p = Parse of its text): "ok" or the class of the disagreement
Class(r, p, e) ==                \* e = ExpOf(r)
  IF ~InDomain(r) THEN "ok"
  ELSE IF r.k = "histo"
       THEN IF r.ngroups # 1 \/ Len(r.rows) # 1 THEN "histogram:groups"
            ELSE IF r.rows[1][2] # r.lines THEN "histogram:count"
            ELSE Why(r.rows[1][1], e)
  ELSE LET w == WhyP(p, r.out, e) IN
       IF w # "ok" THEN w
       ELSE IF r.k = "ops" /\ ~r.det THEN "ok"
       ELSE IF r.alts # <<>> THEN "nondeterministic" ELSE "ok"

\* cross-validation of the recogniser / decoder against encoding/json
MemOf(p) == [i \in 1..Len(p.mem) |-> <<p.mem[i].key, p.mem[i].kind, p.mem[i].val>>]
SpecClass(r, p) ==
  IF r.k = "xv"
  THEN IF p.ok # r.gov THEN "valid"
       ELSE IF r.gov /\ r.cmp /\ MemOf(p) # r.mem THEN "decode" ELSE "ok"
  ELSE IF r.k \in {"view", "ops"} THEN (IF p.ok # r.gov THEN "valid" ELSE "ok")
  ELSE "ok"

Src(r) == IF r.k = "histo" THEN "cli-histogram" ELSE IF r.k = "xv" THEN "xv" ELSE r.src

TInit == l = 1 /\ bad = <<>> /\ specbad = <<>> /\ stat = [indomain |-> 0, nonutf8 |-> 0, numbers |-> 0, bools |-> 0]
TNext ==
  /\ l <= Len(Trace)
  /\ l' = l + 1
  /\ \E r \in {Trace[l]} :
     \E p \in {IF r.k \in {"view", "ops"} THEN Parse(r.out) ELSE IF r.k = "xv" THEN Parse(r.text) ELSE Fail} :   \* evaluated once
     \E e \in {IF InDomain(r) THEN ExpOf(r) ELSE <<>>} :
     \E cl \in {Class(r, p, e)} : \E sc \in {SpecClass(r, p)} :
     /\ bad' = IF cl = "ok" THEN bad ELSE Append(bad, [t |-> l, l |-> l, src |-> Src(r), class |-> cl])
     /\ specbad' = IF sc = "ok" THEN specbad ELSE Append(specbad, [l |-> l, class |-> sc])
     /\ stat' = IF r.k \in {"view", "ops"} /\ InDomain(r) /\ "canary" \notin DOMAIN r     \* (canary: a deliberately corrupted copy)
                THEN [indomain |-> stat.indomain + 1,
                      nonutf8  |-> stat.nonutf8 + (IF IsUtf8(r.out) THEN 0 ELSE 1),
                      numbers  |-> stat.numbers + Cardinality({i \in 1..Len(p.mem) : p.mem[i].kind = "n"}),
                      bools    |-> stat.bools + Cardinality({i \in 1..Len(p.mem) : p.mem[i].kind \in {"t", "f"}})]
                ELSE stat
TSpec == TInit /\ [][TNext]_tvars

Final == (l = Len(Trace) + 1) =>
  JsonSerialize("bad.json", [bad |-> bad, specbad |-> specbad, consumed |-> l - 1, done |-> TRUE, stat |-> stat])
=============================================================================

--------------------------- MODULE MiniJson_Trace ---------------------------
(* C16 - B1/B2: validates recorded executions of the real code against the       *)
(* MiniJson specification, on the recorded output BYTES.  One record per line:   *)
(*                                                                              *)
(*  view{src, names, groups, named, numbered, out, alts, evals, gov}             *)
(*        a match with the group texts `groups` (group 0 first; read from        *)
(*        Match.Indices) and the named groups `names` (SubexpNameTable) was      *)
(*        evaluated `evals` times (same and fresh instances / processes) with    *)
(*        -e {.} / {#} / {.#}; out = the first text, alts = the other distinct   *)
(*        texts seen.  src: regex | dissect | cli-filter                         *)
(*  ops{src, ops, det, out, alts, evals, gov}                                    *)
(*        the builder used directly: ops = <<[op, key, val]>> with op in         *)
(*        "inferred" | "string" (minijson.JsonObjectBuilder, MarshalString-      *)
(*        MapInferred, `rare expression -d .. -k ..`); det = repeated            *)
(*        evaluation must give one text                                          *)
(*  histo{names, groups, lines, rows, ngroups}                                   *)
(*        `rare histogram -e {.}` over `lines` identical lines: rows =           *)
(*        <<key, count>> of the final table, ngroups = the reported group count  *)
(*  hist{src, names, workers, batch, probes, evs}                                 *)
(*        ONE run of a long-lived evaluator over several sources: extractor.New  *)
(*        with `workers` workers fed the batches of 2.. sources whose line       *)
(*        numbers restart at 1 (or `rare filter` over several files); evs =      *)
(*        every view evaluation observed, in the order it was seen:              *)
(*        [s, line, phase, groups, named, numbered, out, crash, gov] - phase     *)
(*        "ignore" = evaluated by the ignore set before the extraction (the      *)
(*        same context, the same match), "extract" = Match.Extracted.  Checked   *)
(*        with MiniJsonHist!HistClasses: the text of a view is a function of     *)
(*        the captures of ITS match only, over the whole history                 *)
(*  mhisto{names, classes, rows, ngroups}                                        *)
(*        `rare histogram -e {.}` over SEVERAL files: classes = the distinct     *)
(*        matches [groups, count] of all the files together, rows / ngroups the  *)
(*        final table - one row per class (MiniJsonHist!AggClass)                *)
(*  any record with a field `crash`: the real code panicked instead of           *)
(*        returning a text (recovered by the driver / the process died)          *)
(*  xv{text, gov, cmp, mem}                                                      *)
(*        cross-validation of THIS specification: gov = encoding/json accepts    *)
(*        `text` as one flat object; mem = its members as encoding/json decodes  *)
(*        them (compared when cmp).  A disagreement is a specification problem   *)
(*        (collected in specbad -> the check is inconclusive), never a verdict.  *)
(*                                                                              *)
(* `gov` of view/ops records is cross-checked the same way.  The trace spec is   *)
(* total: every record is consumed; the records the specification cannot         *)
(* explain are collected in `bad` with a class.                                  *)
EXTENDS MiniJsonHist, Json, TLC

Trace == ndJsonDeserialize("trace.ndjson")

VARIABLES l, bad, specbad, stat
tvars == <<l, bad, specbad, stat>>

OpsExpected(ops) == [k \in 1..Len(ops) |-> Member(ops[k].key, ops[k].val)]
IsNumeral(n) == AllDigits(n) /\ (Len(n) = 1 \/ n[1] # ZERO)
OpsOK(ops) ==
  /\ \A k \in 1..Len(ops) : IsIdent(ops[k].key) \/ IsNumeral(ops[k].key)
  /\ \A j, k \in 1..Len(ops) : j # k => ops[j].key # ops[k].key

InDomain(r) ==
  CASE r.k = "view"  -> NamesOK(r.names, r.groups) /\ Len(r.groups) >= 1
    [] r.k = "ops"   -> OpsOK(r.ops)
    [] r.k = "histo" -> NamesOK(r.names, r.groups)
    [] r.k = "mhisto" -> AggDomain(r.names, r.classes)
    [] r.k = "hist"  -> \A i \in 1..Len(r.evs) : Len(r.evs[i].groups) >= 1 /\ NamesOK(r.names, r.evs[i].groups)
    [] OTHER -> FALSE

ExpOf(r) ==
  CASE r.k = "view"  -> Expected(r.names, r.groups, r.named, r.numbered)
    [] r.k = "ops"   -> OpsExpected(r.ops)
    [] r.k = "histo" -> Expected(r.names, r.groups, TRUE, FALSE)

\* the verdict on one record (p = Parse of its text): "ok" or the class of the disagreement
Class(r, p, e) ==                \* e = ExpOf(r)
  IF "crash" \in DOMAIN r THEN "crash"          \* a panic is never acceptable, whatever the input
  ELSE IF ~InDomain(r) THEN "ok"
  ELSE IF r.k = "mhisto" THEN AggClass(r.names, r.classes, r.rows, r.ngroups)
  ELSE IF r.k = "histo"
       THEN IF r.ngroups # 1 \/ Len(r.rows) # 1 THEN "histogram:groups"
            ELSE IF r.rows[1][2] # r.lines THEN "histogram:count"
            ELSE Why(r.rows[1][1], e)
  ELSE LET w == WhyP(p, r.out, e) IN
       IF w # "ok" THEN w
       ELSE IF r.k = "ops" /\ ~r.det THEN "ok"
       ELSE IF r.alts # <<>> THEN "nondeterministic" ELSE "ok"

\* cross-validation of the recogniser / decoder against encoding/json
MemOf(p) == [i \in 1..Len(p.mem) |-> <<p.mem[i].key, p.mem[i].kind, p.mem[i].val>>]
SpecClass(r, p) ==
  IF r.k = "xv"
  THEN IF p.ok # r.gov THEN "valid"
       ELSE IF r.gov /\ r.cmp /\ MemOf(p) # r.mem THEN "decode" ELSE "ok"
  ELSE IF r.k \in {"view", "ops"} THEN (IF p.ok # r.gov THEN "valid" ELSE "ok")
  ELSE "ok"

\* history records: one class per event; outside the domain only a crash counts
RECURSIVE CrashOnly(_, _)
CrashOnly(h, i) == IF i > Len(h) THEN <<>> ELSE <<IF h[i].crash THEN "crash" ELSE "ok">> \o CrashOnly(h, i + 1)
HistCl(r, ps) == IF InDomain(r) THEN HistClassesP(r.names, r.evs, ps) ELSE CrashOnly(r.evs, 1)
RECURSIVE HistBad(_, _, _, _)
HistBad(l0, r, cl, i) ==
  IF i > Len(cl) THEN <<>>
  ELSE (IF cl[i] = "ok" THEN <<>> ELSE <<[t |-> l0, l |-> l0, src |-> r.src, class |-> cl[i], i |-> i]>>) \o HistBad(l0, r, cl, i + 1)
HistSpecClass(r, ps) == IF \E i \in 1..Len(ps) : ~r.evs[i].crash /\ ps[i].ok # r.evs[i].gov THEN "valid" ELSE "ok"
RECURSIVE CountKinds(_, _, _)
CountKinds(ps, kinds, i) == IF i > Len(ps) THEN 0
                            ELSE Cardinality({j \in 1..Len(ps[i].mem) : ps[i].mem[j].kind \in kinds}) + CountKinds(ps, kinds, i + 1)

Src(r) == IF r.k \in {"histo", "mhisto"} THEN "cli-histogram" ELSE IF r.k = "xv" THEN "xv" ELSE r.src

TInit == l = 1 /\ bad = <<>> /\ specbad = <<>> /\ stat = [indomain |-> 0, nonutf8 |-> 0, numbers |-> 0, bools |-> 0]
TNext ==
  /\ l <= Len(Trace)
  /\ l' = l + 1
  /\ \E r \in {Trace[l]} :
     IF r.k = "hist" /\ "crash" \notin DOMAIN r
     THEN \E ps \in {Parses(r.evs)} : \E cl \in {HistCl(r, ps)} :                                   \* evaluated once
          /\ bad' = bad \o HistBad(l, r, cl, 1)
          /\ specbad' = IF HistSpecClass(r, ps) = "ok" THEN specbad ELSE Append(specbad, [l |-> l, class |-> "valid"])
          /\ stat' = IF InDomain(r) /\ "canary" \notin DOMAIN r
                     THEN [indomain |-> stat.indomain + 1,
                           nonutf8  |-> stat.nonutf8 + Cardinality({i \in 1..Len(r.evs) : ~IsUtf8(r.evs[i].out)}),
                           numbers  |-> stat.numbers + CountKinds(ps, {"n"}, 1),
                           bools    |-> stat.bools + CountKinds(ps, {"t", "f"}, 1)]
                     ELSE stat
     ELSE
     \E p \in {IF "crash" \in DOMAIN r THEN Fail
               ELSE IF r.k \in {"view", "ops"} THEN Parse(r.out) ELSE IF r.k = "xv" THEN Parse(r.text) ELSE Fail} :   \* evaluated once
     \E e \in {IF "crash" \notin DOMAIN r /\ r.k # "mhisto" /\ InDomain(r) THEN ExpOf(r) ELSE <<>>} :
     \E cl \in {Class(r, p, e)} : \E sc \in {IF "crash" \in DOMAIN r THEN "ok" ELSE SpecClass(r, p)} :
     /\ bad' = IF cl = "ok" THEN bad ELSE Append(bad, [t |-> l, l |-> l, src |-> Src(r), class |-> cl, i |-> 0])
     /\ specbad' = IF sc = "ok" THEN specbad ELSE Append(specbad, [l |-> l, class |-> sc])
     /\ stat' = IF r.k \in {"view", "ops"} /\ "crash" \notin DOMAIN r /\ InDomain(r) /\ "canary" \notin DOMAIN r     \* (canary: a deliberately corrupted copy)
                THEN [indomain |-> stat.indomain + 1,
                      nonutf8  |-> stat.nonutf8 + (IF IsUtf8(r.out) THEN 0 ELSE 1),
                      numbers  |-> stat.numbers + Cardinality({i \in 1..Len(p.mem) : p.mem[i].kind = "n"}),
                      bools    |-> stat.bools + Cardinality({i \in 1..Len(p.mem) : p.mem[i].kind \in {"t", "f"}})]
                ELSE stat
TSpec == TInit /\ [][TNext]_tvars

Final == (l = Len(Trace) + 1) =>
  JsonSerialize("bad.json", [bad |-> bad, specbad |-> specbad, consumed |-> l - 1, done |-> TRUE, stat |-> stat])
=============================================================================

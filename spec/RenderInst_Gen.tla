--------------------------- MODULE RenderInst_Gen ---------------------------
(* B1 generator for the instance machines of RenderInst.tla: every operation       *)
(* history up to MaxOps (exhaustively, or sampled with -simulate) with what the     *)
(* reader must see after each operation.  InstOK is checked in the same run, so     *)
(* the emitted screens are the contract's.  The alphabets of the generator keep     *)
(* keys within the default key columns (the padding of a key column that grows is   *)
(* not demanded of the histogram and the bar graph) and give every write its own    *)
(* text.                                                                            *)
EXTENDS RenderInst, Json

VARIABLES trail          \* sequence of [op, see]: the operation and what is on the screen after it
gvars == <<mach, pol, n, term, scr, memo, fout, fexp, hs, gmax, lastop, trail>>

t16 == [i \in 1..16 |-> 65 + i]                                   \* exactly as wide as the histogram's key column
t4 == <<98, 98, 98, 98>>
Stamp(k) == <<102, 48 + (k % 10)>>                                \* footer / line text of the k-th operation

GVIdx == IF Profile = 1 THEN {0, 1, 9, 10, 11, 20, 21, 45} ELSE IF Profile = 2 THEN {0, 1, 2, 9, 10, 11, 19, 20, 21, 22, 40, 41, 45, 90} ELSE 0..60
GHKeys == {tA, t16, tMulti}
GHVals == IF Profile = 1 THEN {-1, 0, 2, 4} ELSE {-1, 0, 1, 2, 4}
GHOps(rows) ==
  {<<"w", line, key, val>> : line \in 0..(Min2(rows, 3) - 1), key \in (IF Profile = 1 THEN {tA, t16} ELSE GHKeys), val \in GHVals}
  \cup {<<"w", rows, tA, 4>>} \cup {<<"t", t>> : t \in HTotals} \cup {<<"f", i>> : i \in HFootIdx}
GBOps == {<<"w", idx, key, vals>> : idx \in BRows, key \in {tA, t4}, vals \in BRowVals} \cup {<<"f", 0>>, <<"f", 1>>}

Screen == IF Machine = "vterm" THEN scr
          ELSE IF Machine = "fmt" THEN fexp
          ELSE IF Machine = "histo" THEN hs.term.l
          ELSE SubSeq(hs.term.l, 2, Len(hs.term.l))               \* line 0 is the legend (not modelled)

GenHisto == {<<"histo", CodePol>>}
GenOthers == {<<m, CodePol>> : m \in {"vterm", "fmt", "bars"}}

GInit ==
  /\ \E su \in Setups : mach = su[1] /\ pol = su[2]
  /\ n = 0 /\ lastop = <<>> /\ fout = <<>> /\ fexp = <<>> /\ gmax = 0 /\ scr = <<>> /\ trail = <<>> /\ memo = {}
  /\ CASE Machine = "vterm" -> term = Term0(10) /\ hs = [k |-> "none"]
       [] Machine = "fmt"   -> term = NoTerm /\ hs \in {[k |-> "fmt", tpl |-> t] : t \in Tpls}
       [] Machine = "histo" -> term = NoTerm /\ hs \in {Histo0(r, p, b) : r \in (IF Profile = 1 THEN {3} ELSE {0, 2, 3, 25}),
                                                                         p \in (IF Profile = 1 THEN {TRUE} ELSE BOOLEAN), b \in BOOLEAN}
       [] Machine = "bars"  -> term = NoTerm /\ hs \in {Bars0(s) : s \in BOOLEAN}

GStep ==
  CASE Machine = "vterm" ->
         \E i \in GVIdx : /\ term' = TWrite(term, i, Stamp(n)) /\ scr' = VWrite(scr, i, Stamp(n)) /\ lastop' = <<"w", i, Stamp(n)>>
                          /\ UNCHANGED <<memo, fout, fexp, hs, gmax>>
    [] Machine = "fmt" -> FNext
    [] Machine = "histo" ->
         \E op \in GHOps(Len(hs.items)) :
           /\ lastop' = IF op[1] = "f" THEN <<"f", op[2], Stamp(n)>> ELSE op
           /\ hs' = IF op[1] = "w" THEN HWriteForLine(hs, op[2], op[3], op[4])
                    ELSE IF op[1] = "t" THEN HUpdateTotal(hs, op[2])
                    ELSE [HWriteFooter(hs, op[2], Stamp(n)) EXCEPT !.foot = {e \in hs.foot : e[1] # op[2]} \cup {<<op[2], Stamp(n)>>}]
           /\ gmax' = IF op[1] = "w" /\ op[2] < Len(hs.items) THEN Max2(gmax, op[4]) ELSE gmax
           /\ UNCHANGED <<term, scr, memo, fout, fexp>>
    [] Machine = "bars" ->
         \E op \in GBOps :
           /\ (op[1] = "w" => op[2] <= Len(hs.rows)) /\ (op[1] = "f" => hs.rows # <<>>)
           /\ lastop' = IF op[1] = "f" THEN <<"f", op[2], Stamp(n)>> ELSE op
           /\ hs' = IF op[1] = "w" THEN BWrite(hs, op[2], op[3], op[4])
                    ELSE [BWriteFooter(hs, op[2], Stamp(n)) EXCEPT !.foot = {e \in hs.foot : e[1] # hs.maxRows + op[2]} \cup {<<hs.maxRows + op[2], Stamp(n)>>}]
           /\ gmax' = IF op[1] = "w" THEN Max2(gmax, BMeasure(hs, op[4])) ELSE gmax
           /\ UNCHANGED <<term, scr, memo, fout, fexp>>
GMax == IF mach = "vterm" THEN MaxOps + 1 ELSE MaxOps              \* the terminal's operations are the cheapest
GNext ==
  /\ n < GMax /\ n' = n + 1 /\ UNCHANGED <<mach, pol>>
  /\ GStep
  /\ trail' = Append(trail, [op |-> lastop', see |-> Screen'])

Config ==
  CASE Machine = "vterm" -> [cap |-> 10]
    [] Machine = "fmt"   -> [tpl |-> hs.tpl]
    [] Machine = "histo" -> [rows |-> Len(hs.items), pct |-> hs.pct, bar |-> hs.bar, tpl |-> Tpl]
    [] Machine = "bars"  -> [stacked |-> hs.stacked, tpl |-> Tpl]
Dump == (n = GMax) => PrintT("VFJ " \o ToJson([k |-> "inst", m |-> Machine, cfg |-> Config, trail |-> trail]))
=============================================================================

---------------------------- MODULE MiniJson_MC ----------------------------
(* B3 for C16: the laws of the property, decided by TLC on the model.            *)
(*                                                                              *)
(*  value   for every value v over the byte alphabet                             *)
(*            {a " \ 0x01 0x1f LF e-acute(2 bytes) 0xff 0 7 . - e +},  |v| <= N: *)
(*          Decode(Encode(m)) = m and Valid(Encode(m)) for the reference         *)
(*          encoder, both as an explicit string and with type inference;         *)
(*          a number is inferred only for JSON numbers and spelled as captured   *)
(*  views   Encode(names, groups, view) meets the abstract requirement           *)
(*          Meets(.., Expected(..)) for 1..3 groups x every choice of named      *)
(*          groups x the three views; members come named-then-numbered           *)
(*  number  number-shape classification over {0 7 . - e + E}: the recogniser     *)
(*          equals an independent statement of the RFC 8259 grammar; the         *)
(*          encoder infers a subset of it; an object with that literal is valid  *)
(*          iff the literal is a JSON number                                     *)
(*  numeq   "equal value" is numeric equality (exact scaled integers)            *)
(*  utf8    the UTF-8 table equals the arithmetic definition; \uXXXX decoding    *)
(*  byte    every byte value alone in a string: escaped form decodes to it,      *)
(*          raw control characters / quote / backslash make the text invalid     *)
(*  syntax  explicit positive and negative examples of the object grammar        *)
(*                                                                              *)
(* State space: one header state per (law, part); its successors are the cases   *)
(* (different workers expand different parts); invariant LawOK on every case.    *)
EXTENDS MiniJsonEnc

CONSTANTS N,        \* value length in symbols for the law "value"
          NumLen,   \* text length for the law "number"
          Laws,     \* the laws to check (a subset of AllLaws)
          Pool3     \* size of the value pool for three groups in the law "views"

VARIABLE c

Sym == {<<97>>, <<34>>, <<92>>, <<1>>, <<31>>, <<10>>, <<195, 169>>, <<255>>, <<48>>, <<55>>, <<46>>, <<45>>, <<101>>, <<43>>}
SymSeq == SetToSeq(Sym)
Strs(alpha, n) == UNION {[1..k -> alpha] : k \in 0..n}
Vals(n) == {Flatten(f) : f \in Strs(Sym, n)}

K == <<107>>                       \* the key "k"
Op(kind, key, val) == [op |-> kind, key |-> key, val |-> val]

\* ---- views --------------------------------------------------------------------
VPSeq == <<<<>>, <<97>>, <<48, 48, 55>>, <<55>>, <<84, 114, 117, 101>>, <<34>>, <<1>>, <<255>>, <<195, 169>>>>
VP == {VPSeq[i] : i \in 1..Len(VPSeq)}
VP3 == {VPSeq[i] : i \in 1..Pool3}
NameOf(i) == <<96 + i>>            \* a, b, c
BAR == 124
GroupsOf(vals) == <<JoinSeq(vals, <<BAR>>)>> \o vals
ViewCases(n) == {[vals |-> v, named |-> S, view |-> w] : v \in [1..n -> IF n = 3 THEN VP3 ELSE VP], S \in SUBSET (1..n), w \in {".", "#", ".#"}}
NamesOf(S) == LET q == SetToSeq(S) IN [k \in 1..Len(q) |-> <<NameOf(q[k]), q[k]>>]

ViewLaw(x) ==
  LET groups == GroupsOf(x.vals)
      names  == NamesOf(x.named)
      named  == x.view \in {".", ".#"}
      numb   == x.view \in {"#", ".#"}
      out    == Encode(names, groups, named, numb)
      exp    == Expected(names, groups, named, numb)
      p      == Parse(out)
      on     == OrderedNames(names)
      wantKeys == (IF named THEN [k \in 1..Len(on) |-> on[k][1]] ELSE <<>>)
                  \o (IF numb THEN SelectSeq([i \in 1..Len(groups) |-> IF groups[i] = <<>> THEN <<>> ELSE Itoa(i - 1)],
                                             LAMBDA z : z # <<>>) ELSE <<>>)
  IN /\ NamesOK(names, groups)
     /\ Meets(out, exp)
     /\ [i \in 1..Len(p.mem) |-> p.mem[i].key] = wantKeys        \* named (by index), then numbered
     /\ Encode(names, groups, TRUE, TRUE)                         \* {.#} = {.} and {#} put together
          = LET a == Encode(names, groups, TRUE, FALSE)  b == Encode(names, groups, FALSE, TRUE) IN
            IF Len(a) = 2 THEN b ELSE IF Len(b) = 2 THEN a
            ELSE SubSeq(a, 1, Len(a) - 1) \o <<COMMA, 32>> \o SubSeq(b, 2, Len(b))

\* ---- value ---------------------------------------------------------------------
ValueLaw(v) ==
  LET os == EncodeOps(<<Op("string", K, v)>>)
      oi == EncodeOps(<<Op("inferred", K, v)>>)
      ps == Parse(os)
      pi == Parse(oi)
  IN /\ ps.ok /\ Len(ps.mem) = 1 /\ ps.mem[1].key = K /\ ps.mem[1].kind = "s"
     /\ (IsUtf8(v) => ps.mem[1].val = v)                          \* Decode(Encode(m)) = m
     /\ FaithfulStr(ps.mem[1].val, v)                             \* ... up to U+FFFD for ill-formed bytes
     /\ Meets(os, <<Member(K, v)>>)
     /\ pi.ok /\ Len(pi.mem) = 1 /\ pi.mem[1].key = K
     /\ Meets(oi, <<Member(K, v)>>)
     /\ (pi.mem[1].kind = "n" <=> IsNumericImpl(v))
     /\ (pi.mem[1].kind = "n" => pi.mem[1].val = v /\ IsJsonNumber(v))
     /\ (pi.mem[1].kind = "s" => pi.mem[1].val = ps.mem[1].val)
     /\ (pi.mem[1].kind \in {"t", "f"} <=> LowerASCII(v) \in {TrueLit, FalseLit})
     \* two members: separator placement
     /\ LET o2 == EncodeOps(<<Op("inferred", K, v), Op("string", <<108>>, v)>>)  p2 == Parse(o2) IN
        p2.ok /\ Len(p2.mem) = 2 /\ Meets(o2, <<Member(K, v), Member(<<108>>, v)>>)

\* ---- number ---------------------------------------------------------------------
NumSym == {48, 55, 46, 45, 101, 43, 69}
IntPart(x)  == AllDigits(x) /\ (Len(x) = 1 \/ x[1] # ZERO)
FracPart(x) == x = <<>> \/ (x[1] = DOT /\ AllDigits(Tail(x)))
ExpPart(x)  == x = <<>> \/ (x[1] \in {LowE, UpE} /\
                 (AllDigits(Tail(x)) \/ (Len(x) >= 3 /\ x[2] \in {PLUS, MINUS} /\ AllDigits(SubSeq(x, 3, Len(x))))))
\* RFC 8259: number = [ minus ] int [ frac ] [ exp ], stated as a split of the text
GrammarNum(t) ==
  \E i0 \in {0, 1} : (i0 = 1 => t # <<>> /\ t[1] = MINUS) /\
    \E i1 \in i0..Len(t) : \E i2 \in i1..Len(t) :
       IntPart(SubSeq(t, i0 + 1, i1)) /\ FracPart(SubSeq(t, i1 + 1, i2)) /\ ExpPart(SubSeq(t, i2 + 1, Len(t)))
\* what the encoder writes as a number: digits [ . digits ] without a superfluous leading zero
GrammarInferred(t) ==
  \E i1 \in 1..Len(t) : IntPart(SubSeq(t, 1, i1)) /\ (i1 = Len(t) \/ (i1 + 1 < Len(t) /\ t[i1 + 1] = DOT /\ AllDigits(SubSeq(t, i1 + 2, Len(t)))))

ObjWith(lit) == <<LBRACE, QUOTE, 107, QUOTE, COLON>> \o lit \o <<RBRACE>>
NumberLaw(t) ==
  /\ IsJsonNumber(t) <=> GrammarNum(t)
  /\ IsNumericImpl(t) <=> GrammarInferred(t)
  /\ IsNumericImpl(t) => IsJsonNumber(t)
  /\ IsJsonNumber(t) => (NumShape(t).exp /\ Len(NumShape(t).edigits) > 6) \/ (NumericLooking(t) /\ NumEq(t, t))
  /\ Valid(ObjWith(t)) <=> IsJsonNumber(t)
  /\ (Valid(ObjWith(t)) => Decode(ObjWith(t)) = <<[key |-> K, kind |-> "n", val |-> t]>>)

\* ---- numeq: exact value as an integer scaled by 10^4 -----------------------------
EqSym == {48, 49, 50, 46, 45, 101, 43}
P10(k) == IF k = 0 THEN 1 ELSE IF k = 1 THEN 10 ELSE IF k = 2 THEN 100 ELSE IF k = 3 THEN 1000 ELSE IF k = 4 THEN 10000
          ELSE IF k = 5 THEN 100000 ELSE IF k = 6 THEN 1000000 ELSE 10000000
ExpVal(t) == LET p == NumShape(t) IN IF ~p.exp THEN 0 ELSE IF p.esign = MINUS THEN 0 - DigitsVal(p.edigits, 0) ELSE DigitsVal(p.edigits, 0)
EqDomain(t) == NumericLooking(t) /\ Len(NumShape(t).edigits) <= 1 /\ ExpVal(t) \in (0 - 2)..2 /\ Len(NumShape(t).frac) <= 2
Scaled(t) == LET p == NumShape(t)  m == DigitsVal(p.int \o p.frac, 0) * P10(ExpVal(t) - Len(p.frac) + 4) IN
             IF p.sign = MINUS THEN 0 - m ELSE m
EqTexts  == {t \in Strs(EqSym, 4) : EqDomain(t)}
EqTexts3 == {t \in Strs(EqSym, 3) : EqDomain(t)}
NumEqLaw(t) ==
  /\ NumEq(t, t)
  /\ \A u \in EqTexts3 : LET e == NumEq(t, u) IN (e <=> Scaled(t) = Scaled(u)) /\ (e <=> NumEq(u, t))

\* ---- utf8 ------------------------------------------------------------------------
\* arithmetic definition: leading byte pattern, continuation bytes, decode, shortest form
ArithLen(s, i) ==
  LET b == s[i]
      n == IF b < 128 THEN 1 ELSE IF b >= 192 /\ b < 224 THEN 2 ELSE IF b >= 224 /\ b < 240 THEN 3 ELSE IF b >= 240 /\ b < 248 THEN 4 ELSE 0
  IN IF n = 0 \/ i + n - 1 > Len(s) THEN 0
     ELSE IF \E k \in 1..(n - 1) : s[i + k] < 128 \/ s[i + k] > 191 THEN 0
     ELSE LET cp == CASE n = 1 -> b
                      [] n = 2 -> (b - 192) * 64 + (s[i + 1] - 128)
                      [] n = 3 -> ((b - 224) * 64 + (s[i + 1] - 128)) * 64 + (s[i + 2] - 128)
                      [] n = 4 -> (((b - 240) * 64 + (s[i + 1] - 128)) * 64 + (s[i + 2] - 128)) * 64 + (s[i + 3] - 128)
          IN IF cp > 1114111 \/ IsSurrogate(cp) \/ Utf8Enc(cp) # SubSeq(s, i, i + n - 1) THEN 0 ELSE n
RECURSIVE ArithFrom(_, _)
ArithFrom(s, i) == IF i > Len(s) THEN TRUE ELSE LET n == ArithLen(s, i) IN IF n = 0 THEN FALSE ELSE ArithFrom(s, i + n)

Edge == {65, 127, 128, 143, 144, 159, 160, 191, 192, 193, 194, 223, 224, 237, 239, 240, 244, 245, 255}
CPs == {0, 65, 127, 128, 2047, 2048, 4095, 4096, 55295, 55296, 56319, 56320, 57343, 57344, 65533, 65535}
Sup == {65536, 65537, 131071, 1048576, 1114111}
Hex4Of(u) == <<HexDigit(u \div 4096), HexDigit((u \div 256) % 16), HexDigit((u \div 16) % 16), HexDigit(u % 16)>>
UEsc(u) == <<BSL, 117>> \o Hex4Of(u)
Quoted(x) == <<QUOTE>> \o x \o <<QUOTE>>
StrOf(x) == StrBody(Quoted(x), 2, <<>>)
Utf8SeqLaw(s) ==
  /\ IsUtf8(s) <=> ArithFrom(s, 1)
  /\ \A i \in 1..Len(s) : Utf8Len(s, i) = ArithLen(s, i)
  /\ Scrub(Scrub(s)) = Scrub(s)
  /\ (IsUtf8(s) /\ ~ContainsSub(s, Repl)) => Scrub(s) = s
  /\ FaithfulStr(s, s)
Utf8CpLaw(cp) ==
  LET e == Utf8Enc(cp) IN
  /\ (cp <= 65535 /\ ~IsSurrogate(cp)) =>
        /\ IsUtf8(e) /\ Utf8Len(e, 1) = Len(e)
        /\ StrOf(UEsc(cp)) = [end |-> 9, val |-> e]                                  \* \uXXXX
        /\ (cp >= 32 /\ cp \notin {QUOTE, BSL}) => StrOf(e) = [end |-> Len(e) + 3, val |-> e]
  /\ IsSurrogate(cp) => ~IsUtf8(e) /\ StrOf(UEsc(cp)).val = Repl                      \* unpaired
  /\ cp > 65535 =>
        LET hi == 55296 + ((cp - 65536) \div 1024)  lo == 56320 + ((cp - 65536) % 1024) IN
        /\ IsUtf8(e) /\ Len(e) = 4
        /\ StrOf(UEsc(hi) \o UEsc(lo)) = [end |-> 15, val |-> e]
        /\ StrOf(UEsc(lo) \o UEsc(hi)).val = Repl \o Repl

\* ---- byte -------------------------------------------------------------------------
ByteLaw(b) ==
  LET raw == ObjWith(Quoted(<<b>>))
      esc == ObjWith(Quoted(Escape(<<b>>)))
  IN /\ Valid(raw) <=> (b >= 32 /\ b \notin {QUOTE, BSL})
     /\ Valid(esc)
     /\ Decode(esc) = <<[key |-> K, kind |-> "s", val |-> <<b>>]>>
     /\ (Mapped(b) <=> ~Valid(raw))                    \* exactly the bytes that must be escaped are escaped
     /\ (b < 128 => Escape(<<b, b>>) = Escape(<<b>>) \o Escape(<<b>>))

\* ---- syntax -----------------------------------------------------------------------
Good == { <<123, 125>>, <<32, 123, 32, 125, 10>>,
          <<123, 34, 97, 34, 58, 49, 125>>,                                  \* {"a":1}
          <<123, 34, 97, 34, 32, 58, 9, 45, 48, 46, 53, 101, 43, 49, 32, 44, 34, 98, 34, 58, 110, 117, 108, 108, 125>>,  \* {"a" :<TAB>-0.5e+1 ,"b":null}
          <<123, 34, 34, 58, 34, 34, 125>>,                                  \* {"":""}
          <<123, 34, 97, 34, 58, 116, 114, 117, 101, 44, 34, 98, 34, 58, 102, 97, 108, 115, 101, 125>>,
          <<123, 34, 92, 117, 48, 48, 52, 49, 92, 47, 34, 58, 34, 92, 98, 34, 125>> }   \* {"A\/":"\b"}
Bad ==  { <<>>, <<123>>, <<125>>, <<123, 125, 125>>, <<123, 44, 125>>, <<91, 93>>, <<49>>, <<34, 97, 34>>,
          <<123, 34, 97, 34, 58, 49, 44, 125>>,                              \* {"a":1,}
          <<123, 34, 97, 34, 32, 49, 125>>,                                  \* {"a" 1}
          <<123, 34, 97, 34, 58, 48, 49, 125>>,                              \* {"a":01}
          <<123, 34, 97, 34, 58, 48, 48, 55, 125>>,                          \* {"a":007}
          <<123, 34, 97, 34, 58, 49, 46, 125>>,                              \* {"a":1.}
          <<123, 34, 97, 34, 58, 46, 53, 125>>,                              \* {"a":.5}
          <<123, 34, 97, 34, 58, 43, 49, 125>>,                              \* {"a":+1}
          <<123, 34, 97, 34, 58, 45, 125>>,                                  \* {"a":-}
          <<123, 34, 97, 34, 58, 49, 101, 125>>,                             \* {"a":1e}
          <<123, 34, 97, 34, 58, 34, 92, 120, 34, 125>>,                     \* {"a":"\x"}
          <<123, 34, 97, 34, 58, 34, 92, 117, 49, 50, 34, 125>>,             \* {"a":"\u12"}
          <<123, 34, 97, 34, 58, 34, 1, 34, 125>>,                           \* raw 0x01 in a string
          <<123, 34, 97, 34, 58, 34, 10, 34, 125>>,                          \* raw LF in a string
          <<123, 97, 58, 49, 125>>,                                          \* {a:1}
          <<123, 34, 97, 34, 58, 49, 125, 123, 125>>,                        \* {"a":1}{}
          <<123, 34, 97, 34, 58, 123, 125, 125>>,                            \* {"a":{}}   (not flat)
          <<123, 34, 97, 34, 58, 91, 93, 125>>,                              \* {"a":[]}   (not flat)
          <<123, 34, 97, 34, 58, 110, 117, 108, 125>>,                       \* {"a":nul}
          <<123, 34, 97, 34, 58, 84, 82, 85, 69, 125>>,                      \* {"a":TRUE}
          <<123, 34, 97, 34, 58, 116, 114, 117, 101, 120, 125>>,             \* {"a":truex}
          <<123, 34, 97, 34, 58, 49, 32, 50, 125>>,                          \* {"a":1 2}
          <<123, 34, 97, 58, 49, 125>>,                                      \* {"a:1}
          <<123, 34, 97, 34, 58, 34, 98, 125>> }                             \* {"a":"b}
SyntaxLaw(x) ==
  /\ x.good => Valid(x.text)
  /\ ~x.good => ~Valid(x.text)
  /\ \* requirement examples: 007 may be the string "007" or the number 7, but never the bare 007
     LET c7 == <<48, 48, 55>> IN
     /\ Meets(ObjWith(Quoted(c7)), <<Member(K, c7)>>)
     /\ Meets(ObjWith(<<55>>), <<Member(K, c7)>>)
     /\ Meets(ObjWith(<<55, 46, 48>>), <<Member(K, c7)>>)
     /\ ~Meets(ObjWith(c7), <<Member(K, c7)>>)
     /\ ~Meets(ObjWith(<<55, 48>>), <<Member(K, c7)>>)
     /\ ~Meets(ObjWith(Quoted(<<55>>)), <<Member(K, c7)>>)
     /\ ~Meets(ObjWith(NullLit), <<Member(K, NullLit)>>)
     /\ Meets(ObjWith(TrueLit), <<Member(K, <<84, 82, 117, 101>>)>>)          \* TRue
     /\ ~Meets(ObjWith(TrueLit), <<Member(K, <<49>>)>>)
     /\ ~Meets(ObjWith(FalseLit), <<Member(K, <<102, 97, 108, 197, 191, 101>>)>>)     \* fal(long s)e is not false
     /\ Meets(<<123, 125>>, <<Member(K, <<>>)>>)                            \* an empty capture may be left out
     /\ ~Meets(<<123, 125>>, <<Member(K, <<97>>)>>)
     /\ ~Meets(ObjWith(<<49>>) , <<>>)                                      \* no invented members
     /\ ~Meets(<<123, 34, 107, 34, 58, 49, 44, 34, 107, 34, 58, 49, 125>>, <<Member(K, <<49>>)>>)   \* duplicate key
     /\ Meets(ObjWith(Quoted(Repl)), <<Member(K, <<255, 254>>)>>)           \* ill-formed bytes may become U+FFFD
     /\ ~Meets(ObjWith(Quoted(Repl)), <<Member(K, <<195, 169>>)>>)          \* ... well-formed text may not
     /\ ~Meets(ObjWith(Quoted(<<97>> \o Repl)), <<Member(K, <<98, 255>>)>>)

\* ---- the case space -------------------------------------------------------------------
AllLaws == {"value", "views", "number", "numeq", "utf8seq", "utf8cp", "byte", "syntax"}
Parts(law) == CASE law = "value" -> 0..Len(SymSeq) [] law = "views" -> 0..Pool3 [] law = "number" -> 0..7
                [] law = "numeq" -> 1..8 [] law = "utf8seq" -> 1..4 [] OTHER -> {0}

Cases(law, part) ==
  CASE law = "value"   -> IF part = 0 THEN {<<>>} ELSE {SymSeq[part] \o v : v \in Vals(N - 1)}
    [] law = "views"   -> IF part = 0 THEN ViewCases(1) \cup ViewCases(2) ELSE {x \in ViewCases(3) : x.vals[1] = VPSeq[part]}
    [] law = "number"  -> IF part = 0 THEN {<<>>} ELSE {<<SetToSeq(NumSym)[part]>> \o f : f \in Strs(NumSym, NumLen - 1)}
    [] law = "numeq"   -> {t \in EqTexts : (Len(t) + t[1] + t[Len(t)]) % 8 = part - 1}
    [] law = "utf8seq" -> {t \in Strs(Edge, 3) : (Len(t) < 3 /\ part = 1) \/ (Len(t) = 3 /\ part = 2 + (t[1] % 3))}
    [] law = "utf8cp"  -> CPs \cup Sup
    [] law = "byte"    -> 0..255
    [] law = "syntax"  -> {[good |-> TRUE, text |-> t] : t \in Good} \cup {[good |-> FALSE, text |-> t] : t \in Bad}

Init == c \in {[hdr |-> TRUE, law |-> l, part |-> p, x |-> <<>>] : l \in Laws, p \in UNION {Parts(l) : l \in Laws}} /\ c.part \in Parts(c.law)
Next == c.hdr /\ c' \in {[hdr |-> FALSE, law |-> c.law, part |-> c.part, x |-> x] : x \in Cases(c.law, c.part)}

LawOK ==
  c.hdr \/
  CASE c.law = "value"   -> ValueLaw(c.x)
    [] c.law = "views"   -> ViewLaw(c.x)
    [] c.law = "number"  -> NumberLaw(c.x)
    [] c.law = "numeq"   -> NumEqLaw(c.x)
    [] c.law = "utf8seq" -> Utf8SeqLaw(c.x)
    [] c.law = "utf8cp"  -> Utf8CpLaw(c.x)
    [] c.law = "byte"    -> ByteLaw(c.x)
    [] c.law = "syntax"  -> SyntaxLaw(c.x)
=============================================================================

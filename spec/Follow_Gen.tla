----------------------------- MODULE Follow_Gen -----------------------------
(* B1 generator for C15: every history of the abstract Follow specification    *)
(* within the bounds, interleaved with the controls the replay harness has     *)
(* over the reader, each with the specification's expectation:                  *)
(*   append/remove/create  environment operations on the real file             *)
(*   start    issue one Read call in the background (it blocks in the reader)  *)
(*   settle   give watcher / blocked reader / poller time to catch up           *)
(*   drain    call Read until everything the specification demands has come    *)
(*            (`expect` = the whole delivered stream so far, `eof` = the end    *)
(*            of the stream is demanded, `eofok` = it is allowed); afterwards   *)
(*            no Read call is outstanding                                       *)
(*   other    an operation on a SIBLING of the followed path (name class "suf":   *)
(*            ends with the followed name, "pre": begins with it, "oth":         *)
(*            unrelated): what = create | append | remove | rename (to the free  *)
(*            sibling name `to`).  Follow!EnvOther: the expectation of every      *)
(*            later drain is what it would be without it.  The siblings in Sibs   *)
(*            exist when following starts.                                        *)
(* Whether the followed path is the file's own name or a symbolic link to it is   *)
(* not a parameter of the specification (Follow.tla: `cur` is what the path       *)
(* leads to); the replay runs every history with both kinds of path.              *)
(* Histories stay inside the specification's domain (dom), so every drain has  *)
(* a definite expectation.  One JSON vector is printed per history that ends   *)
(* with a drain.                                                               *)
EXTENDS Follow, Json

CONSTANTS Poll, Reopen, TailMode, InitLen, AppLens, MaxAppends, MaxRemoves, MaxCreates,
          MaxStarts, MaxSettles, MaxDrains,
          Sibs, MaxOthers

VARIABLES hist, inflight, nA, nR, nC, nS, nP, nD, nb, sibs, nO

gvars == <<mode, files, cur, start, delivered, ended, fresh, dom, hist, inflight, nA, nR, nC, nS, nP, nD, nb, sibs, nO>>

Run(from, n) == [i \in 1..n |-> from + i - 1]
LastOp == IF hist = <<>> THEN "none" ELSE hist[Len(hist)].op

GInit ==
  /\ AInit([poll |-> Poll, reopen |-> Reopen, tail |-> TailMode], Run(65, InitLen))
  /\ hist = <<>> /\ inflight = FALSE
  /\ nA = 0 /\ nR = 0 /\ nC = 0 /\ nS = 0 /\ nP = 0 /\ nD = 0 /\ nb = 97
  /\ sibs = Sibs /\ nO = 0

GAppend ==
  /\ nA < MaxAppends /\ ~ended
  /\ \E n \in AppLens :
       /\ EnvAppend(Run(nb, n)) /\ nb' = nb + n
       /\ hist' = Append(hist, [op |-> "append", data |-> Run(nb, n)])
  /\ dom'
  /\ nA' = nA + 1 /\ inflight' = FALSE
  /\ UNCHANGED <<nR, nC, nS, nP, nD, sibs, nO>>

GRemove ==
  /\ nR < MaxRemoves /\ ~ended /\ Drained
  /\ EnvRemove
  /\ hist' = Append(hist, [op |-> "remove"])
  /\ nR' = nR + 1
  /\ UNCHANGED <<inflight, nA, nC, nS, nP, nD, nb, sibs, nO>>

GCreate ==
  /\ nC < MaxCreates /\ ~ended
  /\ EnvCreate /\ dom'
  /\ hist' = Append(hist, [op |-> "create"])
  /\ nC' = nC + 1
  /\ UNCHANGED <<inflight, nA, nR, nS, nP, nD, nb, sibs, nO>>

GStart ==
  /\ nS < MaxStarts /\ ~inflight /\ ~ended /\ LastOp # "start"
  /\ inflight' = TRUE
  /\ hist' = Append(hist, [op |-> "start"])
  /\ nS' = nS + 1
  /\ UNCHANGED <<mode, files, cur, start, delivered, ended, fresh, dom, nA, nR, nC, nP, nD, nb, sibs, nO>>

GSettle ==
  /\ nP < MaxSettles /\ LastOp \notin {"none", "settle", "drain"}
  /\ hist' = Append(hist, [op |-> "settle"])
  /\ nP' = nP + 1
  /\ UNCHANGED <<mode, files, cur, start, delivered, ended, fresh, dom, inflight, nA, nR, nC, nS, nD, nb, sibs, nO>>

\* the reader catches up with everything the specification demands: Deliver(rest), then End if demanded
GDrain ==
  /\ nD < MaxDrains /\ ~ended /\ LastOp # "drain"
  /\ LET rest == SubSeq(Expected, Len(delivered) + 1, Len(Expected)) IN
       IF rest # <<>> THEN DeliverEffect(rest) ELSE UNCHANGED <<delivered, fresh>>
  /\ ended' = EndDemanded
  /\ hist' = Append(hist, [op |-> "drain", expect |-> Expected, eof |-> EndDemanded,
                           eofok |-> (~mode.reopen /\ cur # 1)])
  /\ inflight' = FALSE /\ nD' = nD + 1
  /\ UNCHANGED <<mode, files, cur, start, dom, nA, nR, nC, nS, nP, nb, sibs, nO>>

\* something happens to a sibling of the followed path
GOther ==
  /\ nO < MaxOthers /\ ~ended
  /\ EnvOther
  /\ \E s \in Sibs :
       \/ /\ s \in sibs /\ UNCHANGED sibs
          /\ hist' = Append(hist, [op |-> "other", what |-> "append", name |-> s])
       \/ /\ s \in sibs /\ sibs' = sibs \ {s}
          /\ hist' = Append(hist, [op |-> "other", what |-> "remove", name |-> s])
       \/ /\ s \notin sibs /\ sibs' = sibs \cup {s}
          /\ hist' = Append(hist, [op |-> "other", what |-> "create", name |-> s])
       \/ \E t \in Sibs \ sibs :
            /\ s \in sibs /\ sibs' = (sibs \ {s}) \cup {t}
            /\ hist' = Append(hist, [op |-> "other", what |-> "rename", name |-> s, to |-> t])
  /\ nO' = nO + 1
  /\ UNCHANGED <<inflight, nA, nR, nC, nS, nP, nD, nb>>

GNext == GAppend \/ GRemove \/ GCreate \/ GStart \/ GSettle \/ GDrain \/ GOther

\* sanity of the generator itself: the composed steps are steps of the specification
GSafe == [][ANext \/ UNCHANGED avars \/ (DeliverAny \cdot End)]_avars

Dump == (LastOp = "drain") =>
  PrintT("VFJ " \o ToJson([poll |-> Poll, reopen |-> Reopen, tail |-> TailMode,
                           init |-> Run(65, InitLen), sibs |-> Sibs, steps |-> hist]))
=============================================================================

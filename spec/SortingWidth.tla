---------------------------- MODULE SortingWidth ----------------------------
(* C13 - totals are integers of a bounded type; `value` is specified on the      *)
(* mathematical integers.                                                         *)
(*                                                                                *)
(* Sorting.tla gives the width of the total type as a parameter and binds pools   *)
(* of narrow (W-bit) totals to the 64-bit code through Embed.  This module lets   *)
(* TLC decide, for every wide width B <= MaxB and every narrow width W <= B, why   *)
(* that binding is sound and what it is able to expose:                           *)
(*   EmbedRange      the embedded total is a B-bit integer                        *)
(*   EmbedMonotone   v < w  <=>  Embed(v) < Embed(w)   (same order, same ties)     *)
(*   EmbedExtremes   the smallest / largest W-bit total lands on the smallest /    *)
(*                   largest B-bit integer (offsets "zero" / "top")                *)
(*   EmbedNeighbours offset "lsb": totals 2h and 2h+1 land on neighbouring        *)
(*                   integers of the wide type, at every magnitude                *)
(*   EmbedHom        B-bit wrapping subtraction of embedded totals = 2^(B-W) *     *)
(*                   W-bit wrapping subtraction of the totals: overflow happens    *)
(*                   for the embedded pair exactly when it happens for (v, w)     *)
(*   WrapExact       where the difference fits, W-bit subtraction is exact ...    *)
(*   WrapInverts     ... and where it does not, its sign is the wrong one         *)
(*   DiffLessBroken  NEGATIVE CONTROL: the comparator "sign of the difference" is *)
(*                   neither asymmetric nor transitive on IntW(W) for W >= 2       *)
(*   MathLessOrder   the specified comparison is a strict total order on IntW(W)  *)
(* The instance B = 64 used by the driver is not reachable for TLC (32-bit         *)
(* integers); the laws are uniform in B.                                          *)
EXTENDS Sorting

CONSTANT MaxB

VARIABLES B, W
wvars == <<B, W>>

WInit == B \in 1..MaxB /\ W \in 1..B
WNext == FALSE /\ UNCHANGED wvars

V == IntW(W)
Tags == {t \in OffTags : OffTagOK(B, W, t)}
ScaleTags == Tags \ {"lsb"}
Dom(t) == EmbedDomain(W, t)
E(t, v) == Embed(B, W, t, v)

EmbedRange    == \A t \in Tags : \A v \in Dom(t) : E(t, v) \in IntW(B)
EmbedMonotone == \A t \in Tags : \A v \in Dom(t), w \in Dom(t) : (v < w) <=> (E(t, v) < E(t, w))
EmbedExtremes == /\ E("zero", 0 - Pow2(W - 1)) = 0 - Pow2(B - 1)
                 /\ E("top", Pow2(W - 1) - 1) = Pow2(B - 1) - 1
                 /\ "lsb" \in Tags => E("lsb", 0 - Pow2(W)) = 0 - Pow2(B - 1)
\* "lsb": the two totals 2*hi and 2*hi + 1 are neighbours in the wide type
EmbedNeighbours == "lsb" \in Tags => \A v \in Dom("lsb") : v % 2 = 0 => E("lsb", v + 1) = E("lsb", v) + 1
EmbedHom      == \A t \in ScaleTags, v \in V, w \in V :
                   WrapSub(B, E(t, v), E(t, w)) = Pow2(B - W) * WrapSub(W, v, w)
WrapExact     == \A v \in V, w \in V : (v - w \in V) => WrapSub(W, v, w) = v - w
WrapInverts   == \A v \in V, w \in V : (v - w \notin V) => (DiffLess(W, v, w) # (v < w))
\* the decision of the sign-of-difference comparator on the embedded totals is its decision on (v, w)
DiffLessCommutes == \A t \in ScaleTags, v \in V, w \in V : DiffLess(B, E(t, v), E(t, w)) = DiffLess(W, v, w)
DiffLessBroken ==
  W >= 2 => /\ \E v \in V, w \in V : v # w /\ DiffLess(W, v, w) /\ DiffLess(W, w, v)
            /\ \E u \in V, v \in V, w \in V : DiffLess(W, u, v) /\ DiffLess(W, v, w) /\ ~DiffLess(W, u, w)
MathLessOrder ==
  /\ \A v \in V, w \in V : v # w => ((v < w) # (w < v))
  /\ \A u \in V, v \in V, w \in V : (u < v /\ v < w) => u < w
=============================================================================

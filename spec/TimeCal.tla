------------------------------- MODULE TimeCal -------------------------------
(* C18 - time helpers agree with the calendar and round-trip.                      *)
(*                                                                                 *)
(* The calendar in pure integer arithmetic.  An instant is a pair                  *)
(*     [d |-> days since 1970-01-01 (UTC), s |-> second of that day, 0..86399]     *)
(* because unix seconds up to 2100 (4.1 * 10^9) do not fit TLC's 32 bit integers;  *)
(* the decimal text of the unix second is converted to and from that pair by       *)
(* InstOfDigits / UnixDigits (split at the last two digits: 86400 = 864 * 100).    *)
(*                                                                                 *)
(*   calendar   Civil / DaysFromCivil (proleptic Gregorian), weekday, ordinal day, *)
(*              ISO 8601 week and week-year, quarter = (month - 1) \div 3 + 1      *)
(*   zones      UTC, fixed offsets (Etc/GMT+-h, Asia/Kolkata), and three rule      *)
(*              zones written out here, each with its validity interval:           *)
(*              America/New_York from 2007, Europe/Berlin from 1996,               *)
(*              Australia/Sydney from 2008 (DST spans the new year); and, in        *)
(*              general, a zone given as a TRANSITION TABLE - the sorted instants   *)
(*              with the UTC offset and abbreviation in force from each (kind       *)
(*              "table", data handed to TLC: TimeTab.tla) - offset(t) is a lookup   *)
(*   Format     every named layout of timeformat (ANSIC ... RFC3339N, NGINX,       *)
(*              MONTH ... WDAY), the bucket layouts of buckettime and a few custom *)
(*              layouts, as a sequence of field tokens and literals                *)
(*   ParseM     the inverse for the layouts made of numeric fields, short names    *)
(*              and numeric offsets (strict: the widths and spellings Format       *)
(*              prints), with the range checks of a calendar date                  *)
(*   duration   the h/m/s duration grammar and the canonical XhYmZs text           *)
(*   Expect(c)  what the property demands of one call of timeformat, timeattr,     *)
(*              buckettime, time, duration, durationformat or of the nested        *)
(*              round trips - "val" with the exact text, or "any" outside the      *)
(*              specified domain                                                   *)
(*   detection  DetectShape: the five unmistakable text shapes for which the         *)
(*              documented format detection ("auto", "cache", format omitted) is     *)
(*              demanded; Expect is what a FRESHLY compiled expression answers -     *)
(*              sequences of evaluations of one compiled expression are in           *)
(*              TimeCalHist.tla                                                      *)
(* Text that is data crosses as sequences of byte values; format, zone, bucket and *)
(* attribute names are tags (TLA+ strings).                                        *)
EXTENDS Bytes

\* ================================================================ calendar
IsLeap(y) == (y % 4 = 0 /\ y % 100 # 0) \/ y % 400 = 0
DaysInMonth(y, m) ==
  IF m = 2 THEN (IF IsLeap(y) THEN 29 ELSE 28) ELSE IF m \in {4, 6, 9, 11} THEN 30 ELSE 31

\* days since 1970-01-01 of the civil date y-m-d (proleptic Gregorian)
DaysFromCivil(y, m, d) ==
  LET yy  == IF m <= 2 THEN y - 1 ELSE y
      era == yy \div 400
      yoe == yy - era * 400
      mp  == IF m > 2 THEN m - 3 ELSE m + 9
      doy == (153 * mp + 2) \div 5 + d - 1
      doe == yoe * 365 + yoe \div 4 - yoe \div 100 + doy
  IN era * 146097 + doe - 719468

Civil(days) ==
  LET z   == days + 719468
      era == z \div 146097
      doe == z - era * 146097
      yoe == (doe - doe \div 1460 + doe \div 36524 - doe \div 146096) \div 365
      doy == doe - (365 * yoe + yoe \div 4 - yoe \div 100)
      mp  == (5 * doy + 2) \div 153
      d   == doy - (153 * mp + 2) \div 5 + 1
      m   == IF mp < 10 THEN mp + 3 ELSE mp - 9
  IN [y |-> yoe + era * 400 + (IF m <= 2 THEN 1 ELSE 0), m |-> m, d |-> d]

Weekday(days) == (days + 4) % 7              \* 0 = Sunday; 1970-01-01 was a Thursday
IsoWd(days)   == ((days + 3) % 7) + 1         \* 1 = Monday .. 7 = Sunday
YearDay(days) == days - DaysFromCivil(Civil(days).y, 1, 1) + 1
Quarter(m)    == (m - 1) \div 3 + 1

\* ISO 8601: weeks start on Monday; week 1 is the week with the year's first Thursday
WeeksInYear(y) ==
  LET j == IsoWd(DaysFromCivil(y, 1, 1)) IN IF j = 4 \/ (j = 3 /\ IsLeap(y)) THEN 53 ELSE 52
IsoWeek(days) ==
  LET c == Civil(days)
      w == (YearDay(days) - IsoWd(days) + 10) \div 7
  IN IF w < 1 THEN [y |-> c.y - 1, w |-> WeeksInYear(c.y - 1)]
     ELSE IF w > WeeksInYear(c.y) THEN [y |-> c.y + 1, w |-> 1]
     ELSE [y |-> c.y, w |-> w]

\* ================================================================ instants
Inst(d, s)  == [d |-> d, s |-> s]
Norm(d, x)  == [d |-> d + (x \div 86400), s |-> x % 86400]      \* x: any number of seconds relative to day d
Before(a, b) == a.d < b.d \/ (a.d = b.d /\ a.s < b.s)          \* a < b
AtOrAfter(a, b) == ~Before(a, b)
Plus(t, x)  == Norm(t.d, t.s + x)

MinDay == 0                                   \* 1970-01-01
MaxDay == DaysFromCivil(2100, 12, 31)         \* 47846
InRange(t) == t.d >= MinDay /\ t.d <= MaxDay /\ t.s >= 0 /\ t.s < 86400

\* decimal text of d * 86400 + s, computed without leaving 32 bits
UnixDigits(t) ==
  LET a == t.d * 864 + t.s \div 100 IN
  IF a = 0 THEN NatDigits(t.s % 100) ELSE NatDigits(a) \o Pad2(t.s % 100)

\* Go strconv.ParseInt text -> instant; [ok |-> FALSE] when not a number of the specified range
StripPlus(x) == IF x # <<>> /\ x[1] = 43 THEN Tail(x) ELSE x
InstOfDigits(x) ==
  LET y == StripPlus(x)
      n == Len(y)
      hi == IF n <= 2 THEN 0 ELSE DigitsVal(SubSeq(y, 1, n - 2), 0)
      lo == IF n <= 2 THEN DigitsVal(y, 0) ELSE DigitsVal(SubSeq(y, n - 1, n), 0)
      t  == Inst(hi \div 864, ((hi % 864) * 100) + lo)
  IN IF AllDigits(y) /\ n <= 10 /\ InRange(t) THEN [ok |-> TRUE, t |-> t] ELSE [ok |-> FALSE, t |-> Inst(0, 0)]

\* ================================================================ zones
NthSunday(y, m, n) ==
  LET first == DaysFromCivil(y, m, 1) IN first + ((7 - Weekday(first)) % 7) + 7 * (n - 1)
LastSunday(y, m) ==
  LET last == DaysFromCivil(y, m, DaysInMonth(y, m)) IN last - Weekday(last)

bUTC == <<85, 84, 67>>
Fixed(off, abbr) == [kind |-> "fixed", std |-> off, dst |-> off, sabbr |-> abbr, dabbr |-> abbr, from |-> MinDay]
Rule(kind, std, dst, sabbr, dabbr, fromYear) ==
  [kind |-> kind, std |-> std, dst |-> dst, sabbr |-> sabbr, dabbr |-> dabbr, from |-> DaysFromCivil(fromYear, 1, 2)]

Zone(z) ==
  CASE z \in {"UTC", "utc"}     -> Fixed(0, bUTC)
    [] z = "Etc/GMT+5"          -> Fixed(0 - 18000, <<45, 48, 53>>)         \* POSIX sign: GMT+5 is UTC-5, "-05"
    [] z = "Etc/GMT+12"         -> Fixed(0 - 43200, <<45, 49, 50>>)
    [] z = "Etc/GMT-3"          -> Fixed(10800, <<43, 48, 51>>)
    [] z = "Etc/GMT-14"         -> Fixed(50400, <<43, 49, 52>>)
    [] z = "Asia/Kolkata"       -> Fixed(19800, <<73, 83, 84>>)             \* IST, +05:30 since 1945
    [] z = "America/New_York"   -> Rule("ny", 0 - 18000, 0 - 14400, <<69, 83, 84>>, <<69, 68, 84>>, 2007)
    [] z = "Europe/Berlin"      -> Rule("berlin", 3600, 7200, <<67, 69, 84>>, <<67, 69, 83, 84>>, 1996)
    [] z = "Australia/Sydney"   -> Rule("sydney", 36000, 39600, <<65, 69, 83, 84>>, <<65, 69, 68, 84>>, 2008)
    [] z = "Nowhere/Land"       -> [kind |-> "bogus"]
    [] OTHER                    -> [kind |-> "unknown"]
ZoneNames == {"UTC", "utc", "Etc/GMT+5", "Etc/GMT+12", "Etc/GMT-3", "Etc/GMT-14", "Asia/Kolkata",
              "America/New_York", "Europe/Berlin", "Australia/Sydney"}
Modelled(zd) == zd.kind \in {"fixed", "ny", "berlin", "sydney", "table"}
InZoneDomain(zd, t) == Modelled(zd) /\ InRange(t) /\ t.d >= zd.from

\* ---------------------------------------------------------------- zones given as a transition table
\* tab: a non-empty sequence of [d, s, off, abbr], strictly increasing in (d, s): from the instant (d, s) on - the
\* first entry: from the beginning of time - the zone is off seconds east of UTC and is called abbr
\* (a sequence of bytes).  The offset in force at t is the one of the last entry not after t.
RECURSIVE TabFind(_, _, _, _)
TabFind(tab, t, lo, hi) ==            \* the answer is in lo..hi
  IF lo >= hi THEN lo
  ELSE LET mid == (lo + hi + 1) \div 2 IN
       IF Before(t, tab[mid]) THEN TabFind(tab, t, lo, mid - 1) ELSE TabFind(tab, t, mid, hi)
TabIdx(tab, t) == TabFind(tab, t, 1, Len(tab))
TabSorted(tab) == Len(tab) >= 1 /\ \A i \in 1..(Len(tab) - 1) : Before(tab[i], tab[i + 1])
TableZone(tab) == [kind |-> "table", tab |-> tab, offs |-> {tab[i].off : i \in 1..Len(tab)}, from |-> MinDay]

\* the two rule instants of UTC year y: [on |-> DST begins, off |-> DST ends]
Transitions(kind, y) ==
  CASE kind = "ny" ->        \* second Sunday of March 02:00 EST = 07:00 UTC; first Sunday of November 02:00 EDT = 06:00 UTC
         [on |-> Inst(NthSunday(y, 3, 2), 25200), off |-> Inst(NthSunday(y, 11, 1), 21600)]
    [] kind = "berlin" ->    \* last Sunday of March / October, 01:00 UTC
         [on |-> Inst(LastSunday(y, 3), 3600), off |-> Inst(LastSunday(y, 10), 3600)]
    [] kind = "sydney" ->    \* first Sunday of October 02:00 AEST / of April 03:00 AEDT = Saturday 16:00 UTC
         [on |-> Inst(NthSunday(y, 10, 1) - 1, 57600), off |-> Inst(NthSunday(y, 4, 1) - 1, 57600)]
DstActive(zd, t) ==
  IF zd.kind = "fixed" THEN FALSE
  ELSE LET tr == Transitions(zd.kind, Civil(t.d).y) IN
       IF Before(tr.on, tr.off) THEN AtOrAfter(t, tr.on) /\ Before(t, tr.off)      \* northern
       ELSE Before(t, tr.off) \/ AtOrAfter(t, tr.on)                               \* southern
Offset(zd, t) == IF zd.kind = "table" THEN zd.tab[TabIdx(zd.tab, t)].off
                 ELSE IF DstActive(zd, t) THEN zd.dst ELSE zd.std

\* calendar fields of an instant that is off seconds east of UTC: the civil date of the shifted day number
LocalAt(t, off, abbr) ==
  LET l   == Plus(t, off)
      c   == Civil(l.d)
  IN [y |-> c.y, m |-> c.m, d |-> c.d, hh |-> l.s \div 3600, mi |-> (l.s % 3600) \div 60, ss |-> l.s % 60,
      wd |-> Weekday(l.d), ld |-> l.d, off |-> off, abbr |-> abbr]

\* calendar fields of the instant t in the zone zd
Local(zd, t) ==
  IF zd.kind = "table" THEN LET e == zd.tab[TabIdx(zd.tab, t)] IN LocalAt(t, e.off, e.abbr)
  ELSE LET dst == DstActive(zd, t) IN LocalAt(t, IF dst THEN zd.dst ELSE zd.std, IF dst THEN zd.dabbr ELSE zd.sabbr)

\* ================================================================ layouts
MonthName == <<
  <<74, 97, 110, 117, 97, 114, 121>>, <<70, 101, 98, 114, 117, 97, 114, 121>>, <<77, 97, 114, 99, 104>>,
  <<65, 112, 114, 105, 108>>, <<77, 97, 121>>, <<74, 117, 110, 101>>, <<74, 117, 108, 121>>,
  <<65, 117, 103, 117, 115, 116>>, <<83, 101, 112, 116, 101, 109, 98, 101, 114>>, <<79, 99, 116, 111, 98, 101, 114>>,
  <<78, 111, 118, 101, 109, 98, 101, 114>>, <<68, 101, 99, 101, 109, 98, 101, 114>> >>
DayName == <<     \* index weekday + 1 (Sunday first)
  <<83, 117, 110, 100, 97, 121>>, <<77, 111, 110, 100, 97, 121>>, <<84, 117, 101, 115, 100, 97, 121>>,
  <<87, 101, 100, 110, 101, 115, 100, 97, 121>>, <<84, 104, 117, 114, 115, 100, 97, 121>>, <<70, 114, 105, 100, 97, 121>>,
  <<83, 97, 116, 117, 114, 100, 97, 121>> >>
Short(name) == SubSeq(name, 1, 3)

F(k) == [f |-> k, v |-> <<>>]              \* a field of the reference time "Mon Jan 2 15:04:05 MST 2006"
L(v) == [f |-> "lit", v |-> v]             \* literal text
sp == L(<<32>>)   col == L(<<58>>)   dash == L(<<45>>)   slash == L(<<47>>)   cT == L(<<84>>)   comma == L(<<44, 32>>)
HMS == <<F("15"), col, F("04"), col, F("05")>>
HM  == <<F("15"), col, F("04")>>
YMD == <<F("2006"), dash, F("01"), dash, F("02")>>

NamedFormats == {"ANSIC", "UNIX", "RUBY", "RFC822", "RFC822Z", "RFC1123", "RFC1123Z", "RFC3339", "RFC3339N", "NGINX",
                 "MONTH", "MONTHNAME", "MNTH", "DAY", "YEAR", "HOUR", "MINUTE", "SECOND", "TIMEZONE", "NTIMEZONE",
                 "NTZ", "WEEKDAY", "WDAY"}
CustomFormats == {"2006-01-02 15:04:05 -0700", "2006-01-02 15:04:05", "2006-01-02T15:04", "2006-01-02",
                  "Monday, 02 January 2006", "15:04:05 on 02/01/06"}
KnownFormats == NamedFormats \cup CustomFormats

Layout(name) ==
  CASE name = "ANSIC"     -> <<F("Mon"), sp, F("Jan"), sp, F("_2"), sp>> \o HMS \o <<sp, F("2006")>>
    [] name = "UNIX"      -> <<F("Mon"), sp, F("Jan"), sp, F("_2"), sp>> \o HMS \o <<sp, F("MST"), sp, F("2006")>>
    [] name = "RUBY"      -> <<F("Mon"), sp, F("Jan"), sp, F("02"), sp>> \o HMS \o <<sp, F("-0700"), sp, F("2006")>>
    [] name = "RFC822"    -> <<F("02"), sp, F("Jan"), sp, F("06"), sp>> \o HM \o <<sp, F("MST")>>
    [] name = "RFC822Z"   -> <<F("02"), sp, F("Jan"), sp, F("06"), sp>> \o HM \o <<sp, F("-0700")>>
    [] name = "RFC1123"   -> <<F("Mon"), comma, F("02"), sp, F("Jan"), sp, F("2006"), sp>> \o HMS \o <<sp, F("MST")>>
    [] name = "RFC1123Z"  -> <<F("Mon"), comma, F("02"), sp, F("Jan"), sp, F("2006"), sp>> \o HMS \o <<sp, F("-0700")>>
    [] name = "RFC3339"   -> YMD \o <<cT>> \o HMS \o <<F("Z07:00")>>
    [] name = "RFC3339N"  -> YMD \o <<cT>> \o HMS \o <<F(".999999999"), F("Z07:00")>>
    [] name = "NGINX"     -> <<F("_2"), slash, F("Jan"), slash, F("2006"), col>> \o HMS \o <<sp, F("-0700")>>
    [] name = "MONTH"     -> <<F("01")>>
    [] name = "MONTHNAME" -> <<F("January")>>
    [] name = "MNTH"      -> <<F("Jan")>>
    [] name = "DAY"       -> <<F("02")>>
    [] name = "YEAR"      -> <<F("2006")>>
    [] name = "HOUR"      -> <<F("15")>>
    [] name = "MINUTE"    -> <<F("04")>>
    [] name = "SECOND"    -> <<F("05")>>
    [] name = "TIMEZONE"  -> <<F("MST")>>
    [] name = "NTIMEZONE" -> <<F("-0700")>>
    [] name = "NTZ"       -> <<F("-0700")>>
    [] name = "WEEKDAY"   -> <<F("Monday")>>
    [] name = "WDAY"      -> <<F("Mon")>>
    \* custom layouts (written with Go's reference time, the tag is the layout text itself)
    [] name = "2006-01-02 15:04:05 -0700" -> YMD \o <<sp>> \o HMS \o <<sp, F("-0700")>>
    [] name = "2006-01-02 15:04:05"       -> YMD \o <<sp>> \o HMS
    [] name = "2006-01-02T15:04"          -> YMD \o <<cT>> \o HM
    [] name = "2006-01-02"                -> YMD
    [] name = "Monday, 02 January 2006"   -> <<F("Monday"), comma, F("02"), sp, F("January"), sp, F("2006")>>
    [] name = "15:04:05 on 02/01/06"      -> HMS \o <<sp, L(<<111, 110>>), sp, F("02"), slash, F("01"), slash, F("06")>>

\* buckettime: the documented bucket names and the layout each one truncates to
BucketKind(b) ==
  CASE b \in {"n", "nano", "nanos"}        -> "nanos"
    [] b \in {"s", "second", "seconds"}    -> "seconds"
    [] b \in {"m", "minute", "minutes"}    -> "minutes"
    [] b \in {"h", "hour", "hours"}        -> "hours"
    [] b \in {"d", "day", "days"}          -> "days"
    [] b \in {"mo", "month", "months"}     -> "months"
    [] b \in {"y", "year", "years"}        -> "years"
    [] OTHER                               -> "none"
BucketNames == {"n", "nano", "nanos", "s", "second", "seconds", "m", "minute", "minutes", "h", "hour", "hours",
                "d", "day", "days", "mo", "month", "months", "y", "year", "years"}
BucketLayout(kind) ==
  CASE kind = "nanos"   -> YMD \o <<sp>> \o HMS \o <<F(".999999999")>>
    [] kind = "seconds" -> YMD \o <<sp>> \o HMS
    [] kind = "minutes" -> YMD \o <<sp>> \o HM
    [] kind = "hours"   -> YMD \o <<sp, F("15")>>
    [] kind = "days"    -> YMD
    [] kind = "months"  -> <<F("2006"), dash, F("01")>>
    [] kind = "years"   -> <<F("2006")>>

\* the start of the bucket that holds a reading l: the calendar fields of the reading itself, the finer ones cleared -
\* in the zone's own wall clock, whatever the zone does there (the first second of a day need not exist in a zone)
BucketDepth(kind) == CASE kind \in {"nanos", "seconds"} -> 6 [] kind = "minutes" -> 5 [] kind = "hours" -> 4
                       [] kind = "days" -> 3 [] kind = "months" -> 2 [] kind = "years" -> 1
BucketStart(kind, l) ==
  LET n == BucketDepth(kind) IN
  [l EXCEPT !.m = IF n >= 2 THEN l.m ELSE 1, !.d = IF n >= 3 THEN l.d ELSE 1, !.hh = IF n >= 4 THEN l.hh ELSE 0,
            !.mi = IF n >= 5 THEN l.mi ELSE 0, !.ss = IF n >= 6 THEN l.ss ELSE 0]
HasTok(lay, K) == \E i \in 1..Len(lay) : lay[i].f \in K
HasDate(lay)   == HasTok(lay, {"2006", "06"}) /\ HasTok(lay, {"01", "Jan", "January"}) /\ HasTok(lay, {"02", "_2"})
HasTime(lay)   == HasTok(lay, {"15"}) /\ HasTok(lay, {"04"})
HasNumOff(lay) == HasTok(lay, {"-0700", "Z07:00"})
ParseableToks  == {"lit", "2006", "06", "01", "Jan", "02", "_2", "15", "04", "05", "Mon", "-0700", "Z07:00", ".999999999"}
Parseable(lay) == \A i \in 1..Len(lay) : lay[i].f \in ParseableToks
\* the precision a layout carries: seconds if it prints them, else minutes, hours, days
TruncSecs(lay, s) ==
  IF HasTok(lay, {"05"}) THEN s ELSE IF HasTok(lay, {"04"}) THEN s - (s % 60)
  ELSE IF HasTok(lay, {"15"}) THEN s - (s % 3600) ELSE 0

\* ================================================================ Format
Pad4(n) == IF n < 10 THEN <<48, 48, 48, 48 + n>> ELSE IF n < 100 THEN <<48, 48>> \o NatDigits(n)
           ELSE IF n < 1000 THEN <<48>> \o NatDigits(n) ELSE NatDigits(n)
AbsI(n) == IF n < 0 THEN 0 - n ELSE n
OffHH(off) == Pad2(AbsI(off) \div 3600)
OffMM(off) == Pad2((AbsI(off) % 3600) \div 60)
OffSign(off) == IF off < 0 THEN <<45>> ELSE <<43>>

FieldText(k, l) ==
  CASE k = "2006"    -> Pad4(l.y)
    [] k = "06"      -> Pad2(l.y % 100)
    [] k = "01"      -> Pad2(l.m)
    [] k = "Jan"     -> Short(MonthName[l.m])
    [] k = "January" -> MonthName[l.m]
    [] k = "02"      -> Pad2(l.d)
    [] k = "_2"      -> IF l.d < 10 THEN <<32, 48 + l.d>> ELSE NatDigits(l.d)
    [] k = "15"      -> Pad2(l.hh)
    [] k = "04"      -> Pad2(l.mi)
    [] k = "05"      -> Pad2(l.ss)
    [] k = "Mon"     -> Short(DayName[l.wd + 1])
    [] k = "Monday"  -> DayName[l.wd + 1]
    [] k = "MST"     -> l.abbr
    [] k = "-0700"   -> OffSign(l.off) \o OffHH(l.off) \o OffMM(l.off)
    [] k = "Z07:00"  -> IF l.off = 0 THEN <<90>> ELSE OffSign(l.off) \o OffHH(l.off) \o <<58>> \o OffMM(l.off)
    [] k = ".999999999" -> <<>>          \* whole seconds: the optional fraction prints nothing

Format(lay, l) ==
  Flatten([i \in 1..Len(lay) |-> IF lay[i].f = "lit" THEN lay[i].v ELSE FieldText(lay[i].f, l)])

\* timeattr
AttrNames == {"weekday", "week", "yearweek", "quarter"}
AttrText(a, l) ==
  CASE a = "weekday"  -> Itoa(l.wd)
    [] a = "week"     -> Itoa(IsoWeek(l.ld).w)
    [] a = "yearweek" -> LET w == IsoWeek(l.ld) IN Itoa(w.y) \o <<45>> \o Itoa(w.w)
    [] a = "quarter"  -> Itoa(Quarter(l.m))

\* buckettime: the bucket start printed with the bucket's layout
BucketText(kind, l) == Format(BucketLayout(kind), BucketStart(kind, l))

\* ================================================================ ParseM (strict inverse of Format)
PBad == [ok |-> FALSE, pos |-> 0, y |-> 0, m |-> 0, d |-> 0, hh |-> 0, mi |-> 0, ss |-> 0, off |-> 0, hasoff |-> FALSE]
PInit == [ok |-> TRUE, pos |-> 1, y |-> 0, m |-> 0, d |-> 0, hh |-> 0, mi |-> 0, ss |-> 0, off |-> 0, hasoff |-> FALSE]

\* the n digits at s[pos..], or -1
Num(s, pos, n) ==
  IF pos + n - 1 <= Len(s) /\ \A k \in pos..(pos + n - 1) : IsDigit(s[k])
  THEN DigitsVal(SubSeq(s, pos, pos + n - 1), 0) ELSE 0 - 1
NameAt(names, s, pos) ==     \* index of the short name at s[pos..pos+2], or 0
  LET S == {k \in 1..Len(names) : OccursAt(s, Short(names[k]), pos)} IN IF S = {} THEN 0 ELSE MinOf(S)
SignAt(s, pos) == IF pos <= Len(s) /\ s[pos] = 43 THEN 1 ELSE IF pos <= Len(s) /\ s[pos] = 45 THEN 0 - 1 ELSE 0

PTok(tok, s, st) ==
  LET p == st.pos k == tok.f IN
  CASE k = "lit"  -> IF OccursAt(s, tok.v, p) THEN [st EXCEPT !.pos = p + Len(tok.v)] ELSE PBad
    [] k = "2006" -> LET v == Num(s, p, 4) IN IF v < 0 THEN PBad ELSE [st EXCEPT !.pos = p + 4, !.y = v]
    [] k = "06"   -> LET v == Num(s, p, 2) IN IF v < 0 THEN PBad
                     ELSE [st EXCEPT !.pos = p + 2, !.y = IF v >= 69 THEN 1900 + v ELSE 2000 + v]
    [] k = "01"   -> LET v == Num(s, p, 2) IN IF v < 1 \/ v > 12 THEN PBad ELSE [st EXCEPT !.pos = p + 2, !.m = v]
    [] k = "Jan"  -> LET v == NameAt(MonthName, s, p) IN IF v = 0 THEN PBad ELSE [st EXCEPT !.pos = p + 3, !.m = v]
    [] k = "Mon"  -> IF NameAt(DayName, s, p) = 0 THEN PBad ELSE [st EXCEPT !.pos = p + 3]    \* not cross-checked
    [] k = "02"   -> LET v == Num(s, p, 2) IN IF v < 1 THEN PBad ELSE [st EXCEPT !.pos = p + 2, !.d = v]
    [] k = "_2"   -> IF p <= Len(s) /\ s[p] = 32
                     THEN (LET v == Num(s, p + 1, 1) IN IF v < 1 THEN PBad ELSE [st EXCEPT !.pos = p + 2, !.d = v])
                     ELSE (LET v == Num(s, p, 2) IN IF v < 1 THEN PBad ELSE [st EXCEPT !.pos = p + 2, !.d = v])
    [] k = "15"   -> LET v == Num(s, p, 2) IN IF v < 0 \/ v > 23 THEN PBad ELSE [st EXCEPT !.pos = p + 2, !.hh = v]
    [] k = "04"   -> LET v == Num(s, p, 2) IN IF v < 0 \/ v > 59 THEN PBad ELSE [st EXCEPT !.pos = p + 2, !.mi = v]
    [] k = "05"   -> LET v == Num(s, p, 2) IN IF v < 0 \/ v > 59 THEN PBad ELSE [st EXCEPT !.pos = p + 2, !.ss = v]
    [] k = "-0700" -> LET sg == SignAt(s, p) h == Num(s, p + 1, 2) mm == Num(s, p + 3, 2) IN
                     IF sg = 0 \/ h < 0 \/ mm < 0 \/ h > 23 \/ mm > 59 THEN PBad
                     ELSE [st EXCEPT !.pos = p + 5, !.off = sg * (h * 3600 + mm * 60), !.hasoff = TRUE]
    [] k = "Z07:00" -> IF p <= Len(s) /\ s[p] = 90 THEN [st EXCEPT !.pos = p + 1, !.off = 0, !.hasoff = TRUE]
                     ELSE LET sg == SignAt(s, p) h == Num(s, p + 1, 2) mm == Num(s, p + 4, 2) IN
                          IF sg = 0 \/ h < 0 \/ mm < 0 \/ h > 23 \/ mm > 59 \/ p + 3 > Len(s) THEN PBad
                          ELSE IF s[p + 3] # 58 THEN PBad
                          ELSE [st EXCEPT !.pos = p + 6, !.off = sg * (h * 3600 + mm * 60), !.hasoff = TRUE]
    [] k = ".999999999" -> st
    [] OTHER -> PBad

RECURSIVE PWalk(_, _, _, _)
PWalk(lay, i, s, st) ==
  IF ~st.ok THEN PBad
  ELSE IF i > Len(lay) THEN (IF st.pos = Len(s) + 1 THEN st ELSE PBad)
  ELSE PWalk(lay, i + 1, s, PTok(lay[i], s, st))

\* fields of the text s read with layout lay (which has a full date); ok = FALSE: not a time of that layout
ParseM(lay, s) ==
  LET r == PWalk(lay, 1, s, PInit) IN
  IF r.ok /\ r.d <= DaysInMonth(r.y, r.m) THEN r ELSE PBad

\* the instant a parsed text denotes: [k |-> "one", t] or "none" (skipped hour) / "two" (repeated hour)
Resolve(r, zd) ==
  LET day  == DaysFromCivil(r.y, r.m, r.d)
      secs == r.hh * 3600 + r.mi * 60 + r.ss
  IN IF r.hasoff THEN [k |-> "one", t |-> Norm(day, secs - r.off)]
     ELSE IF zd.kind = "table" THEN       \* the readings: one per offset of the table that is in force at wall - offset
          LET C == {o \in zd.offs : Offset(zd, Norm(day, secs - o)) = o} IN
          IF C = {} THEN [k |-> "none", t |-> Norm(day, secs)]
          ELSE IF Cardinality(C) = 1 THEN [k |-> "one", t |-> Norm(day, secs - (CHOOSE o \in C : TRUE))]
          ELSE [k |-> "two", t |-> Norm(day, secs - (CHOOSE o \in C : \A p \in C : p <= o))]
     ELSE IF zd.kind = "fixed" THEN [k |-> "one", t |-> Norm(day, secs - zd.std)]
     ELSE LET c1 == Norm(day, secs - zd.std)  c2 == Norm(day, secs - zd.dst)
              v1 == c1.d >= zd.from /\ Offset(zd, c1) = zd.std
              v2 == c2.d >= zd.from /\ Offset(zd, c2) = zd.dst
          IN IF c1.d < zd.from + 1 \/ c2.d < zd.from + 1 THEN [k |-> "out", t |-> c1]
             ELSE IF v1 /\ v2 THEN [k |-> "two", t |-> c1]
             ELSE IF v1 THEN [k |-> "one", t |-> c1] ELSE IF v2 THEN [k |-> "one", t |-> c2]
             ELSE [k |-> "none", t |-> c1]

\* Go also accepts a fractional second after the seconds field although the layout has none
FractionLike(s) == \E i \in 2..(Len(s) - 1) : s[i] \in {44, 46} /\ IsDigit(s[i - 1]) /\ IsDigit(s[i + 1])

\* ================================================================ durations (whole seconds)
DurLimit == 1000000000
DurText(n) ==
  LET a == AbsI(n)
      h == a \div 3600   m == (a % 3600) \div 60   s == a % 60
      body == IF h > 0 THEN Itoa(h) \o <<104>> \o Itoa(m) \o <<109>> \o Itoa(s) \o <<115>>
              ELSE IF m > 0 THEN Itoa(m) \o <<109>> \o Itoa(s) \o <<115>>
              ELSE Itoa(s) \o <<115>>
  IN IF n < 0 THEN <<45>> \o body ELSE body

\* length of the run of characters satisfying P starting at s[i]
RECURSIVE RunLen(_, _, _)
RunLen(s, i, digit) ==
  IF i > Len(s) THEN 0
  ELSE IF (IsDigit(s[i]) = digit) /\ (digit \/ s[i] # 46) THEN 1 + RunLen(s, i + 1, digit) ELSE 0

DErr == [k |-> "err", v |-> 0]
DAny == [k |-> "any", v |-> 0]
UnitSecs(u) == IF u = <<104>> THEN 3600 ELSE IF u = <<109>> THEN 60 ELSE IF u = <<115>> THEN 1 ELSE 0
SubSecondUnits == {<<110, 115>>, <<117, 115>>, <<109, 115>>, <<194, 181, 115>>, <<206, 188, 115>>}
\* (number unit)+ with unit in h, m, s - the grammar of Go's ParseDuration restricted to whole seconds
RECURSIVE DurWalk(_, _, _)
DurWalk(s, i, acc) ==
  IF i > Len(s) THEN [k |-> "ok", v |-> acc]
  ELSE LET nd == RunLen(s, i, TRUE) IN
       IF nd = 0 THEN (IF s[i] = 46 THEN DAny ELSE DErr)
       ELSE IF nd > 9 THEN DAny
       ELSE IF i + nd > Len(s) THEN DErr                                  \* missing unit
       ELSE IF s[i + nd] = 46 THEN DAny                                  \* decimal fraction
       ELSE LET nu == RunLen(s, i + nd, FALSE)
                u  == SubSeq(s, i + nd, i + nd + nu - 1)
                n  == DigitsVal(SubSeq(s, i, i + nd - 1), 0)
            IN IF u \in SubSecondUnits THEN DAny
               ELSE IF UnitSecs(u) = 0 THEN DErr                          \* unknown unit
               ELSE IF n > DurLimit \div UnitSecs(u) \/ acc + n * UnitSecs(u) > DurLimit THEN DAny
               ELSE DurWalk(s, i + nd + nu, acc + n * UnitSecs(u))
DurParse(x) ==
  LET neg  == x # <<>> /\ x[1] = 45
      body == IF x # <<>> /\ x[1] \in {43, 45} THEN Tail(x) ELSE x
  IN IF body = <<>> THEN DErr
     ELSE IF body = <<48>> THEN [k |-> "ok", v |-> 0]
     ELSE LET r == DurWalk(body, 1, 0) IN IF r.k = "ok" /\ neg THEN [k |-> "ok", v |-> 0 - r.v] ELSE r

\* ================================================================ what one call must return
mPARSE == <<60, 80, 65, 82, 83, 69, 45, 69, 82, 82, 79, 82, 62>>      \* <PARSE-ERROR>
mTYPE  == <<60, 66, 65, 68, 45, 84, 89, 80, 69, 62>>                   \* <BAD-TYPE>
mENUM  == <<60, 69, 78, 85, 77, 62>>                                   \* <ENUM>

Val(v)  == [k |-> "val", v |-> v, ce |-> FALSE]
CErr(v) == [k |-> "val", v |-> v, ce |-> TRUE]       \* compile error and the marker
AnyV     == [k |-> "any", v |-> <<>>, ce |-> FALSE]

Funcs == {"timeformat", "timeattr", "buckettime", "time", "duration", "durationformat", "rt", "bucketrt", "durrt", "fmtdur"}

\* a call: [f, n (arguments written), x (principal argument, bytes), fmt, z, b (tags)]
\*   timeformat x [fmt] [z] | timeattr x b [z] | buckettime x b [fmt] [z] | time x [fmt] [z]
\*   rt       = {time {timeformat x fmt z} fmt z}        bucketrt = {buckettime {timeformat x fmt z} b fmt z}
\*   durrt    = {duration {durationformat x}}            fmtdur   = {durationformat {duration x}}
ZoneArgPos(f) == IF f \in {"buckettime"} THEN 4 ELSE 3
FmtArgPos(f)  == IF f \in {"buckettime"} THEN 3 ELSE 2
EffZone(c) == IF c.f \in {"rt", "bucketrt"} \/ c.n >= ZoneArgPos(c.f) THEN c.z ELSE "UTC"
HasFmt(c)  == c.f \in {"rt", "bucketrt"} \/ c.n >= FmtArgPos(c.f)

\* two-digit years are read back with the pivot 69: they carry the year only within 1969..2068
YearCarried(lay, l) == HasTok(lay, {"2006"}) \/ (l.y >= 1969 /\ l.y <= 2068)

ExpFormat(c, zd) ==
  LET fmt == IF HasFmt(c) THEN c.fmt ELSE "RFC3339"
      i   == InstOfDigits(c.x)
  IN IF ~ParseIntOK(c.x) THEN Val(mTYPE)
     ELSE IF ~i.ok \/ ~InZoneDomain(zd, i.t) \/ fmt \notin KnownFormats THEN AnyV
     ELSE Val(Format(Layout(fmt), Local(zd, i.t)))

ExpAttr(c, zd) ==
  LET i == InstOfDigits(c.x) IN
  IF c.b = "bogus" THEN CErr(mENUM)
  ELSE IF c.b \notin AttrNames THEN AnyV
  ELSE IF ~ParseIntOK(c.x) THEN Val(mTYPE)
  ELSE IF ~i.ok \/ ~InZoneDomain(zd, i.t) THEN AnyV
  ELSE Val(AttrText(c.b, Local(zd, i.t)))

\* explicit layouts a text can be read with: full date, fields ParseM knows
ParseFormat(fmt) == fmt \in KnownFormats /\ Parseable(Layout(fmt)) /\ HasDate(Layout(fmt))

\* ---------------------------------------------------------------- format detection ("auto", "cache", format omitted)
\* The documentation promises that the format of a date is resolved; the specification demands it only for
\* five unmistakable shapes (the strict reading of exactly one of them accepts the text):
\*   rfc3339z  2006-01-02T15:04:05Z          rfc3339o  2006-01-02T15:04:05+07:00
\*   ymdhmso   2006-01-02 15:04:05 -0700     ymdhms    2006-01-02 15:04:05 (read in the zone argument)
\*   rfc1123z  Mon, 02 Jan 2006 15:04:05 -0700
\* and that a text without any digit (Garbage) or the empty text is no date: the error marker.
DetectShapes == <<"rfc3339o", "rfc3339z", "ymdhmso", "ymdhms", "rfc1123z">>
ShapeFormat(sh) ==
  CASE sh \in {"rfc3339o", "rfc3339z"} -> "RFC3339"
    [] sh = "ymdhmso" -> "2006-01-02 15:04:05 -0700"
    [] sh = "ymdhms"  -> "2006-01-02 15:04:05"
    [] sh = "rfc1123z" -> "RFC1123Z"
ShapeAccepts(sh, x) ==
  /\ ParseM(Layout(ShapeFormat(sh)), x).ok
  /\ (sh = "rfc3339z" => x[Len(x)] = 90) /\ (sh = "rfc3339o" => x[Len(x)] # 90)
DetectShape(x) ==        \* "" : none of the shapes
  LET S == {i \in 1..Len(DetectShapes) : ShapeAccepts(DetectShapes[i], x)} IN IF S = {} THEN "" ELSE DetectShapes[MinOf(S)]
SameFamily(a, b) == a = b \/ {a, b} = {"rfc3339o", "rfc3339z"}      \* Z and +hh:mm are both RFC 3339: mixing them is left open
Garbage(x) == x # <<>> /\ \A i \in 1..Len(x) : x[i] \in {120, 35, 63}          \* x # ?

\* the text x read with the explicit layout fmt in zone zd
ExpTimeAs(fmt, x, zd) ==
  LET r == ParseM(Layout(fmt), x) IN
  IF ~r.ok THEN (IF FractionLike(x) THEN AnyV ELSE Val(mPARSE))
  ELSE LET q == Resolve(r, zd) IN
       IF q.k = "one" /\ InRange(q.t) THEN Val(UnixDigits(q.t)) ELSE AnyV

\* the bucket is the truncated wall-clock reading the text itself carries
ExpBucketAs(kind, fmt, x, zd) ==
  LET r == ParseM(Layout(fmt), x) IN
  IF ~r.ok THEN (IF FractionLike(x) THEN AnyV ELSE Val(mPARSE))
  ELSE LET q == Resolve(r, zd) IN
       IF q.k \in {"one", "two"} /\ r.y >= 1969 /\ r.y <= 2101 THEN Val(BucketText(kind, r)) ELSE AnyV

Detecting(c) == c.f \in {"time", "buckettime"} /\ (~HasFmt(c) \/ c.fmt \in {"auto", "cache", ""})

\* the first evaluation of a freshly compiled expression (and every evaluation with "auto")
ExpTime(c, zd) ==
  IF Detecting(c) THEN
     LET sh == DetectShape(c.x) IN
     IF c.x = <<>> \/ Garbage(c.x) THEN Val(mPARSE)
     ELSE IF sh = "" THEN AnyV ELSE ExpTimeAs(ShapeFormat(sh), c.x, zd)
  ELSE IF ~ParseFormat(c.fmt) THEN AnyV
  ELSE ExpTimeAs(c.fmt, c.x, zd)

ExpBucket(c, zd) ==
  LET kind == BucketKind(c.b) IN
  IF c.b = "bogus" THEN CErr(mENUM)
  ELSE IF kind = "none" THEN AnyV
  ELSE IF Detecting(c) THEN
     LET sh == DetectShape(c.x) IN
     IF c.x = <<>> \/ Garbage(c.x) THEN Val(mPARSE)
     ELSE IF sh = "" THEN AnyV ELSE ExpBucketAs(kind, ShapeFormat(sh), c.x, zd)
  ELSE IF ~ParseFormat(c.fmt) THEN AnyV
  ELSE ExpBucketAs(kind, c.fmt, c.x, zd)

\* {time {timeformat t F Z} F Z}: the instant again, to the precision the layout carries
ExpRoundTrip(c, zd) ==
  LET i == InstOfDigits(c.x) IN
  IF c.fmt \notin KnownFormats \/ ~i.ok \/ ~InZoneDomain(zd, i.t) THEN AnyV
  ELSE LET lay == Layout(c.fmt) IN
       IF ~(HasDate(lay) /\ HasTime(lay) /\ HasNumOff(lay) /\ Parseable(lay)) THEN AnyV
       ELSE IF ~YearCarried(lay, Local(zd, i.t)) THEN AnyV
       ELSE Val(UnixDigits(Inst(i.t.d, TruncSecs(lay, i.t.s))))

\* {buckettime {timeformat t F Z} b F Z}: the calendar fields of t in Z, truncated to the bucket
ExpBucketRT(c, zd) ==
  LET i == InstOfDigits(c.x) kind == BucketKind(c.b) IN
  IF c.fmt \notin KnownFormats \/ kind = "none" \/ ~i.ok \/ ~InZoneDomain(zd, i.t) THEN AnyV
  ELSE LET lay == Layout(c.fmt) IN
       IF ~(HasDate(lay) /\ Parseable(lay)) \/ ~YearCarried(lay, Local(zd, i.t)) THEN AnyV
       ELSE LET l  == Local(zd, i.t)
                ls == l.hh * 3600 + l.mi * 60 + l.ss
                tr == TruncSecs(lay, ls)               \* what the intermediate text dropped
            IN Val(BucketText(kind, [l EXCEPT !.hh = tr \div 3600, !.mi = (tr % 3600) \div 60, !.ss = tr % 60]))

ExpDuration(c) ==
  LET r == DurParse(c.x) IN
  IF r.k = "ok" THEN Val(Itoa(r.v)) ELSE IF r.k = "err" THEN Val(mPARSE) ELSE AnyV
IntInDurRange(x) == ParseIntOK(x) /\ Len(x) <= (IF x[1] \in {43, 45} THEN 10 ELSE 9)
ExpDurFormat(c) ==
  IF ~ParseIntOK(c.x) THEN Val(mTYPE)
  ELSE IF ~IntInDurRange(c.x) THEN AnyV ELSE Val(DurText(ParseIntVal(c.x)))
ExpDurRT(c) ==         \* seconds -> text -> seconds
  IF ~ParseIntOK(c.x) \/ ~IntInDurRange(c.x) THEN AnyV ELSE Val(Itoa(ParseIntVal(c.x)))
ExpFmtDur(c) ==        \* text -> seconds -> canonical text
  LET r == DurParse(c.x) IN IF r.k = "ok" THEN Val(DurText(r.v)) ELSE AnyV

\* what a call of a time helper must return when its zone argument denotes zd
ExpectIn(c, zd) ==
  IF zd.kind = "bogus" THEN    \* an unknown zone is a compile error (when nothing else is wrong with the call)
     (IF c.f \in {"timeformat", "time"} \/ (c.f = "timeattr" /\ c.b \in AttrNames) \/ (c.f = "buckettime" /\ BucketKind(c.b) # "none")
      THEN CErr(mPARSE) ELSE AnyV)
  ELSE IF ~Modelled(zd) THEN AnyV
  ELSE CASE c.f = "timeformat" -> ExpFormat(c, zd)
         [] c.f = "timeattr"   -> ExpAttr(c, zd)
         [] c.f = "time"       -> ExpTime(c, zd)
         [] c.f = "buckettime" -> ExpBucket(c, zd)
         [] c.f = "rt"         -> ExpRoundTrip(c, zd)
         [] c.f = "bucketrt"   -> ExpBucketRT(c, zd)
         [] OTHER -> AnyV

DurationFuncs == {"duration", "durationformat", "durrt", "fmtdur"}
ExpectDur(c) ==
  CASE c.f = "duration" -> ExpDuration(c)
    [] c.f = "durationformat" -> ExpDurFormat(c)
    [] c.f = "durrt" -> ExpDurRT(c)
    [] c.f = "fmtdur" -> ExpFmtDur(c)

Expect(c) == IF c.f \in DurationFuncs THEN ExpectDur(c) ELSE ExpectIn(c, Zone(EffZone(c)))

\* does the observation (got, cerr) satisfy the expectation?
Matches(e, got, cerr) == e.k = "any" \/ (got = e.v /\ cerr = e.ce)
=============================================================================

--------------------------- MODULE TermTrimSgr_MC ---------------------------
(* C20 B3: the width trimmer and colour sequences of ANY length.                     *)
(* The property's domain has no bound on the length of a colour sequence; what a     *)
(* line shows, where it is cut and that the cut never falls inside a sequence must    *)
(* not depend on it.  One state per (text, width, n): every colour sequence of the    *)
(* text is replaced by one of exactly n runes (Recolour), n \in SgrLens.              *)
(*   ScanBound = 0: the transcription of linetrim.go (Cut) - the laws must hold;      *)
(*   ScanBound = k > 0: the design "scan for the closing m bounded to k runes"        *)
(*       (CutBounded) - negative control: TLC must refute SgrTrimLaw as soon as        *)
(*       SgrLens holds a length > k + 1, and accept it when all lengths are <= k + 1.  *)
EXTENDS TermTrim
CONSTANTS MaxW, MaxTokens, SgrLens, ScanBound
VARIABLES text, w, n
SInit == /\ text \in {t \in Concats(TrimTokens, MaxTokens) \cup TextsB3x \cup TextsSgr : HasColour(t)}
         /\ w \in 1..MaxW /\ n \in SgrLens
SNext == UNCHANGED <<text, w, n>>
SSpec == SInit /\ [][SNext]_<<text, w, n>>

Stretched == Recolour(text, n)
TheCut    == IF ScanBound = 0 THEN Cut(Stretched, w) ELSE CutBounded(Stretched, w, ScanBound)

\* the oracle does not see the length of colour sequences
SgrOracleBlind == LengthBlind(text, n, w)
\* the trimming law on the stretched text
SgrTrimLaw == WellFormed(text) => GoodCut(Stretched, TheCut, w)
\* the cut shows the same runes whatever the length of the sequences
SgrLenIrrelevant == WellFormed(text) => Visible(TheCut) = Visible(Cut(text, w))
\* and on the terminal: one row, not wrapped, no sequence interrupted, the row is what the oracle shows
SgrNoWrapLaw ==
  WellFormed(text) =>
    LET t == Feed(Feed(NewTerm(w, TRUE, <<>>), Utf8(TheCut)), <<27, 91, 48, 75>>) IN
    ~t.wrapped /\ ~t.broken /\ Idle(t) /\ ~t.junk /\ Len(t.rows) = 1 /\ t.rows[1] = Shown(text, w, TRUE)
=============================================================================

------------------------------- MODULE LogDefer -------------------------------
(* X02 (beyond the listed properties): pkg/logger/logger.go - the log controller  *)
(* that keeps `[Log] ...` lines off the screen while an aggregator draws          *)
(* (DeferLogs in RunAggregationLoop) and hands them to stderr afterwards          *)
(* (ImmediateLogs in the command's After hook).                                   *)
(*                                                                                *)
(* Written like the code: one package-level logger whose sink is either stderr or *)
(* a buffer, a RWMutex; Print* = RLock; write one line to the current sink;       *)
(* RUnlock; DeferLogs / ImmediateLogs = Lock; switch (and flush); Unlock.  The    *)
(* write lock of Go's RWMutex is writer-preferring: a waiting Lock() keeps new    *)
(* RLock()s out, which is what makes the controller's calls terminate.            *)
(*                                                                                *)
(* What the user is owed (LogDeferLaws, the same operators judge real histories): *)
(*   every printed line reaches stderr exactly once, complete; lines reach stderr *)
(*   in the order of the calls (a call that returned before another began comes   *)
(*   first - in particular each goroutine's lines keep their order and the        *)
(*   deferred lines precede everything printed after the flush); a line printed   *)
(*   while deferred is not on stderr before the next ImmediateLogs begins; a line *)
(*   printed in immediate mode is on stderr when the call returns; after the last *)
(*   ImmediateLogs nothing is held back.                                          *)
(*                                                                                *)
(* Design \in {"rwlock" (the code), "nolock" (printers read the sink without the  *)
(* lock), "noflush" (ImmediateLogs forgets the buffer), "newbuf" (DeferLogs       *)
(* always starts a new buffer), "lateflush" (the buffer is written after the lock *)
(* was released)}: the last four are negative controls TLC must refute.           *)
EXTENDS Integers, Sequences, FiniteSets, SequencesExt, TLC

CONSTANTS Writers,      \* printing goroutines (readers reporting failures, workers)
          NMsg,         \* lines per goroutine
          Script,       \* the controller's calls, a sequence over {"D", "I"}, the last one "I"
          Design

VARIABLES sink,     \* "err" | "buf"        (logBuffer == nil or not)
          gen,      \* number of the current buffer (a printer may hold an old one)
          buf,      \* lines in the current buffer
          err,      \* lines on stderr
          lost,     \* lines written to a buffer nobody will flush
          rd,       \* holders of the read lock
          wr,       \* controller holds the write lock
          want,     \* controller waits for the write lock
          wpc,      \* printer: "idle" | "locked" | "written"
          tgt,      \* printer: the sink it read, <<"err">> or <<"buf", gen>>
          nxt,      \* printer: next line number
          cpc,      \* controller: "idle" | "wait" | "in" | "flushed" | "out"
          ci,       \* controller: index into Script
          pend,     \* "lateflush": lines taken out of the buffer, not yet written
          clock,    \* history: event counter
          hist      \* history: calls with begin/end stamps and what the caller saw
vars == <<sink, gen, buf, err, lost, rd, wr, want, wpc, tgt, nxt, cpc, ci, pend, clock, hist>>

Line(w, k) == <<w, k>>
Locking == Design # "nolock"

Init ==
  /\ sink = "err" /\ gen = 0 /\ buf = <<>> /\ err = <<>> /\ lost = {}
  /\ rd = {} /\ wr = FALSE /\ want = FALSE
  /\ wpc = [w \in Writers |-> "idle"] /\ tgt = [w \in Writers |-> <<"err">>]
  /\ nxt = [w \in Writers |-> 1]
  /\ cpc = "idle" /\ ci = 1 /\ pend = <<>> /\ clock = 0 /\ hist = <<>>

Tick == clock' = clock + 1

(* ---------------------------------------------------------------- printers *)
PBegin(w) ==
  /\ wpc[w] = "idle" /\ nxt[w] <= NMsg
  /\ Locking => (~wr /\ ~want)
  /\ rd' = IF Locking THEN rd \cup {w} ELSE rd
  /\ wpc' = [wpc EXCEPT ![w] = "locked"]
  /\ tgt' = [tgt EXCEPT ![w] = IF sink = "err" THEN <<"err">> ELSE <<"buf", gen>>]
  /\ Tick
  /\ hist' = Append(hist, [op |-> "P", w |-> w, k |-> nxt[w], s |-> clock + 1, e |-> 0, vis |-> FALSE])
  /\ UNCHANGED <<sink, gen, buf, err, lost, wr, want, nxt, cpc, ci, pend>>

PWrite(w) ==
  /\ wpc[w] = "locked"
  /\ LET m == Line(w, nxt[w]) IN
     IF tgt[w] = <<"err">> THEN err' = Append(err, m) /\ UNCHANGED <<buf, lost>>
     ELSE IF sink = "buf" /\ tgt[w][2] = gen THEN buf' = Append(buf, m) /\ UNCHANGED <<err, lost>>
     ELSE lost' = lost \cup {m} /\ UNCHANGED <<buf, err>>      \* a buffer that was dropped
  /\ wpc' = [wpc EXCEPT ![w] = "written"]
  /\ UNCHANGED <<sink, gen, rd, wr, want, tgt, nxt, cpc, ci, pend, clock, hist>>

IdxOf(w, k) == CHOOSE i \in 1..Len(hist) : hist[i].op = "P" /\ hist[i].w = w /\ hist[i].k = k
OnErr(m) == \E i \in 1..Len(err) : err[i] = m

PEnd(w) ==
  /\ wpc[w] = "written"
  /\ rd' = rd \ {w}
  /\ wpc' = [wpc EXCEPT ![w] = "idle"]
  /\ nxt' = [nxt EXCEPT ![w] = @ + 1]
  /\ Tick
  /\ hist' = [hist EXCEPT ![IdxOf(w, nxt[w])] = [@ EXCEPT !.e = clock + 1, !.vis = OnErr(Line(w, nxt[w]))]]
  /\ UNCHANGED <<sink, gen, buf, err, lost, wr, want, tgt, cpc, ci, pend>>

(* -------------------------------------------------------------- controller *)
CCall ==
  /\ cpc = "idle" /\ ci <= Len(Script)
  /\ cpc' = "wait" /\ want' = TRUE
  /\ Tick
  /\ hist' = Append(hist, [op |-> Script[ci], w |-> 0, k |-> ci, s |-> clock + 1, e |-> 0, vis |-> FALSE])
  /\ UNCHANGED <<sink, gen, buf, err, lost, rd, wr, wpc, tgt, nxt, ci, pend>>

CLock ==
  /\ cpc = "wait"
  /\ Locking => rd = {}
  /\ wr' = TRUE /\ want' = FALSE /\ cpc' = "in"
  /\ UNCHANGED <<sink, gen, buf, err, lost, rd, wpc, tgt, nxt, ci, pend, clock, hist>>

CDefer ==
  /\ cpc = "in" /\ Script[ci] = "D"
  /\ IF sink = "err" \/ Design = "newbuf"
       THEN /\ sink' = "buf" /\ gen' = gen + 1 /\ buf' = <<>>
            /\ lost' = lost \cup {buf[i] : i \in 1..Len(buf)}
       ELSE UNCHANGED <<sink, gen, buf, lost>>
  /\ cpc' = "out"
  /\ UNCHANGED <<err, rd, wr, want, wpc, tgt, nxt, ci, pend, clock, hist>>

(* ImmediateLogs in two steps (write the buffer; reset the logger): atomic for    *)
(* everybody who takes the lock, two separate moments for a printer who does not  *)
CFlush ==
  /\ cpc = "in" /\ Script[ci] = "I"
  /\ IF sink = "buf"
       THEN CASE Design = "noflush"   -> UNCHANGED <<err, pend>>
              [] Design = "lateflush" -> pend' = buf /\ UNCHANGED err
              [] OTHER                -> err' = err \o buf /\ UNCHANGED pend
       ELSE UNCHANGED <<err, pend>>
  /\ cpc' = "flushed"
  /\ UNCHANGED <<sink, gen, buf, lost, rd, wr, want, wpc, tgt, nxt, ci, clock, hist>>

CReset ==
  /\ cpc = "flushed"
  /\ IF sink = "buf"
       THEN /\ sink' = "err" /\ buf' = <<>>
            \* what is in the buffer now and was neither written nor taken along is gone
            /\ lost' = lost \cup ({buf[i] : i \in 1..Len(buf)} \ ({err[j] : j \in 1..Len(err)} \cup {pend[j] : j \in 1..Len(pend)}))
       ELSE UNCHANGED <<sink, buf, lost>>
  /\ cpc' = "out"
  /\ UNCHANGED <<gen, err, rd, wr, want, wpc, tgt, nxt, ci, pend, clock, hist>>

CUnlock ==
  /\ cpc = "out"
  /\ wr' = FALSE
  /\ cpc' = IF pend # <<>> THEN "late" ELSE "ret"
  /\ UNCHANGED <<sink, gen, buf, err, lost, rd, want, wpc, tgt, nxt, ci, pend, clock, hist>>

CLate ==     \* "lateflush" only: the copy taken under the lock is written after it
  /\ cpc = "late"
  /\ err' = err \o pend /\ pend' = <<>> /\ cpc' = "ret"
  /\ UNCHANGED <<sink, gen, buf, lost, rd, wr, want, wpc, tgt, nxt, ci, clock, hist>>

CRet ==
  /\ cpc = "ret"
  /\ cpc' = "idle" /\ ci' = ci + 1
  /\ Tick
  /\ hist' = [hist EXCEPT ![CHOOSE i \in 1..Len(hist) : hist[i].op # "P" /\ hist[i].k = ci] = [@ EXCEPT !.e = clock + 1]]
  /\ UNCHANGED <<sink, gen, buf, err, lost, rd, wr, want, wpc, tgt, nxt, pend>>

Next == \/ \E w \in Writers : PBegin(w) \/ PWrite(w) \/ PEnd(w)
        \/ CCall \/ CLock \/ CDefer \/ CFlush \/ CReset \/ CUnlock \/ CLate \/ CRet

Fair == /\ \A w \in Writers : WF_vars(PBegin(w)) /\ WF_vars(PWrite(w)) /\ WF_vars(PEnd(w))
        /\ WF_vars(CCall) /\ WF_vars(CLock) /\ WF_vars(CDefer) /\ WF_vars(CFlush) /\ WF_vars(CReset)
        /\ WF_vars(CUnlock) /\ WF_vars(CLate) /\ WF_vars(CRet)
Spec == Init /\ [][Next]_vars /\ Fair

(* ------------------------------------------------------------------ invariants *)
Done == (\A w \in Writers : nxt[w] > NMsg) /\ ci > Len(Script)
Written == {Line(w, k) : w \in Writers, k \in 1..NMsg} \cap
           {m \in Writers \X (1..NMsg) : m[2] < nxt[m[1]] \/ (m[2] = nxt[m[1]] /\ wpc[m[1]] = "written")}
InSeq(q, m) == \E i \in 1..Len(q) : q[i] = m
\* between CFlush and CReset the flushed lines are on stderr (or taken along) AND still in the buffer
Held == err \o pend \o SelectSeq(buf, LAMBDA m : ~InSeq(err, m) /\ ~InSeq(pend, m))

TypeOK == /\ sink \in {"err", "buf"} /\ wr \in BOOLEAN /\ want \in BOOLEAN
          /\ rd \subseteq Writers /\ (sink = "err" => buf = <<>>)
Mutex == ~(wr /\ rd # {}) \/ ~Locking
NoLoss == lost = {}
ExactlyOnce == /\ \A m \in Written : Cardinality({i \in 1..Len(Held) : Held[i] = m}) = 1
               /\ \A i \in 1..Len(Held) : Held[i] \in Written
WriterOrder == \A i, j \in 1..Len(err) : (i < j /\ err[i][1] = err[j][1]) => err[i][2] < err[j][2]
FinalOK == Done => (buf = <<>> /\ pend = <<>> /\ sink = "err" /\ Len(err) = Cardinality(Writers) * NMsg)
Terminates == <>Done

(* history laws - the operators of LogDeferLaws applied to the model's own history *)
INSTANCE LogDeferLaws
HistoryOK == Done => Why(hist, err) = {}
\* while running: the part of the laws that must hold of every prefix
PrefixOK == WhyPrefix(hist, err) = {}

Safe == TypeOK /\ Mutex /\ NoLoss /\ ExactlyOnce /\ WriterOrder /\ FinalOK /\ HistoryOK /\ PrefixOK
=============================================================================

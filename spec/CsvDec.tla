------------------------------- MODULE CsvDec -------------------------------
(* RFC 4180 record grammar as an explicit decoder over byte sequences (C03).     *)
(*                                                                               *)
(*   file        = [record *(EOL record) [EOL]]                                  *)
(*   record      = field *(COMMA field)                                          *)
(*   field       = escaped / non-escaped                                         *)
(*   escaped     = DQUOTE *(TEXTDATA / COMMA / CR / LF / 2DQUOTE) DQUOTE         *)
(*   non-escaped = *TEXTDATA            (no COMMA, DQUOTE, CR, LF)               *)
(*   EOL         = LF / CR LF           (RFC 4180 says CRLF; writers commonly    *)
(*                                       emit a bare LF, both are accepted)      *)
(*                                                                               *)
(* The decoder is a deterministic automaton run over the bytes with a left fold. *)
(* It is strict: a quote inside an unquoted field, bytes between a closing quote *)
(* and the next separator, a bare CR, or an unterminated quoted field make the   *)
(* whole text malformed.  A field is a sequence of byte values.                  *)
EXTENDS Integers, Sequences, SequencesExt

COMMA  == 44
DQUOTE == 34
C_LF   == 10
C_CR   == 13

\* automaton states
\*  "sof"  start of a field (nothing of it consumed yet)
\*  "unq"  inside an unquoted field
\*  "quo"  inside a quoted field
\*  "qq"   just saw a DQUOTE inside a quoted field (closing quote or first half of "")
\*  "cr"   saw CR outside quotes, LF must follow
\*  "bad"  malformed
DecInit == [st |-> "sof", fld |-> <<>>, rec |-> <<>>, recs |-> <<>>, open |-> FALSE]
\* `open` = the current record has consumed at least one byte (so that a final EOL does not
\* produce an extra empty record, while a line consisting of nothing is one record with one
\* empty field only if it is followed by more text -- RFC 4180 has no empty records; an empty
\* line decodes to the record <<"">>).

EndField(a)  == [a EXCEPT !.rec = Append(a.rec, a.fld), !.fld = <<>>, !.st = "sof", !.open = TRUE]
EndRecord(a) == LET b == EndField(a) IN [b EXCEPT !.recs = Append(b.recs, b.rec), !.rec = <<>>, !.open = FALSE]
Bad(a) == [a EXCEPT !.st = "bad"]

DecStep(a, c) ==
  CASE a.st = "bad" -> a
    [] a.st = "sof" ->
         IF c = DQUOTE THEN [a EXCEPT !.st = "quo", !.open = TRUE]
         ELSE IF c = COMMA THEN EndField(a)
         ELSE IF c = C_LF THEN EndRecord(a)
         ELSE IF c = C_CR THEN [a EXCEPT !.st = "cr"]
         ELSE [a EXCEPT !.st = "unq", !.fld = <<c>>, !.open = TRUE]
    [] a.st = "unq" ->
         IF c = DQUOTE THEN Bad(a)
         ELSE IF c = COMMA THEN EndField(a)
         ELSE IF c = C_LF THEN EndRecord(a)
         ELSE IF c = C_CR THEN [a EXCEPT !.st = "cr"]
         ELSE [a EXCEPT !.fld = Append(@, c)]
    [] a.st = "quo" ->
         IF c = DQUOTE THEN [a EXCEPT !.st = "qq"] ELSE [a EXCEPT !.fld = Append(@, c)]
    [] a.st = "qq" ->
         IF c = DQUOTE THEN [a EXCEPT !.st = "quo", !.fld = Append(@, DQUOTE)]
         ELSE IF c = COMMA THEN EndField(a)
         ELSE IF c = C_LF THEN EndRecord(a)
         ELSE IF c = C_CR THEN [a EXCEPT !.st = "cr"]
         ELSE Bad(a)
    [] a.st = "cr" -> IF c = C_LF THEN EndRecord(a) ELSE Bad(a)

\* end of input
DecFinish(a) ==
  CASE a.st \in {"bad", "quo", "cr"} -> [ok |-> FALSE, recs |-> <<>>]
    [] a.st \in {"unq", "qq"}        -> [ok |-> TRUE, recs |-> EndRecord(a).recs]
    [] a.st = "sof" -> IF a.open THEN [ok |-> TRUE, recs |-> EndRecord(a).recs]   \* "a," at EOF: trailing empty field
                       ELSE [ok |-> TRUE, recs |-> a.recs]                          \* text ended with EOL (or is empty)

Decode(bytes) == DecFinish(FoldLeft(DecStep, DecInit, bytes))

-----------------------------------------------------------------------------
(* Reference encoders, used only to state the laws TLC checks on the decoder.  *)
NeedsQuote(f) == \E i \in 1..Len(f) : f[i] \in {COMMA, DQUOTE, C_LF, C_CR}
RECURSIVE EscQ(_)
EscQ(f) == IF f = <<>> THEN <<>> ELSE (IF f[1] = DQUOTE THEN <<DQUOTE, DQUOTE>> ELSE <<f[1]>>) \o EscQ(Tail(f))
Quoted(f) == <<DQUOTE>> \o EscQ(f) \o <<DQUOTE>>
\* style "min": quote only when required; "all": quote every field;
\* "go": like encoding/csv (also quotes a field that starts with a space or tab)
EncField(f, style) ==
  IF style = "all" \/ NeedsQuote(f) \/ (style = "go" /\ f # <<>> /\ f[1] \in {32, 9}) THEN Quoted(f) ELSE f
RECURSIVE EncRec(_, _)
EncRec(r, style) ==
  IF Len(r) = 1 THEN EncField(r[1], style)
  ELSE EncField(r[1], style) \o <<COMMA>> \o EncRec(Tail(r), style)
\* a record consisting of one empty field would be an empty line; writers emit "" for it
EncRecord(r, style) == IF r = << <<>> >> THEN <<DQUOTE, DQUOTE>> ELSE EncRec(r, style)
RECURSIVE Encode(_, _, _)
Encode(recs, style, eol) ==
  IF recs = <<>> THEN <<>> ELSE EncRecord(recs[1], style) \o eol \o Encode(Tail(recs), style, eol)
=============================================================================

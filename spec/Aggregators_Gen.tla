--------------------------- MODULE Aggregators_Gen ---------------------------
(* B3 with a history variable + B1 generator.                                   *)
(* Every reachable state is one history: a sequence of samples, trims and        *)
(* OBSERVATIONS (accessor calls) in every order - one life of one aggregator     *)
(* instance.  TLC checks on it that the state machines hold the order-free bag   *)
(* fold of the samples whatever was read in between (FoldOK), that every         *)
(* permutation of the samples gives the same state (PermInv, count-style         *)
(* aggregators), for the numerical aggregator that the moments of the full       *)
(* (large) values are the shifted moments of the deltas (FoldOK, exact), the     *)
(* simulation relation of the implementation-shaped layer, and prints one vector *)
(* per history: the history - with what every accessor must return at each "o"   *)
(* step - and what every accessor must return after it (Dump).                   *)
EXTENDS AggregatorsImpl, Json

\* sequence of [op |-> "s" | "t" | "o", el |-> bytes, p |-> predicate, nsel |-> cells selected by the trim,
\*              obs |-> what every accessor must return at an "o" step,
\*              dec |-> how the specification reads the sample: the typed entry points (SampleValue /
\*                      SampleItem / Samplef) called with these arguments must act like Sample(el)]
\* The bindings replay a history on a SINGLE long-lived object, calling every accessor at each
\* "o" step and once more at the end.
VARIABLE hist
CONSTANT ObsRepeat     \* TRUE: "o" steps may follow each other (idempotence of the accessors)
NoPred == Pred("none", <<>>, <<>>, 0)
NoObs == [none |-> TRUE]

\* ---- expected observations -------------------------------------------------
Pairs(f) == {<<k, f[k]>> : k \in DOMAIN f}
QPoints == {0, 125, 250, 500, 750, 900, 990, 999, 1000}
ObsCtr == [items |-> Pairs(ctr.cnt), total |-> CtrTotal(ctr), groups |-> Cardinality(DOMAIN ctr.cnt), errors |-> ctr.err]
ObsSub == [subkeys |-> GridBs(sub),
           rows |-> {<<a, GridRowSum(sub, a), {<<b, GridAt(sub, a, b)>> : b \in GridBs(sub)}>> : a \in GridAs(sub)},
           errors |-> sub.err]
ObsTbl == [cols |-> GridBs(tbl), dirty |-> tbl.dirty,
           rows |-> {<<a, GridRowSum(tbl, a), {<<b, GridAt(tbl, a, b)>> : b \in GridBs(tbl)}>> : a \in GridAs(tbl)},
           coltot |-> {<<b, GridColSum(tbl, b)>> : b \in GridBs(tbl)},
           sum |-> GridSum(tbl), min |-> GridMinMax(tbl)[1], max |-> GridMinMax(tbl)[2], errors |-> tbl.err]
\* numerical: every value is RELATIVE TO THE BASE (milli units); the standard deviation is absolute
ObsNum ==
  LET m == IF num.n >= 1 THEN BToInt(num.s1) \div num.n ELSE 0
      var == NumVar(num)
      r == IF num.n >= 2 THEN ISqrt(BToInt(var[1]) \div BToInt(var[2])) ELSE 0
      k == NumSlack(num.n, MCBase)
  IN [n |-> num.n, errors |-> num.err,
      mean3 |-> IF num.n >= 1 THEN {x \in (m - 1 - k)..(m + 2 + k) : MeanOKs(num, x, k)} ELSE {},
      sd3   |-> IF num.n >= 2 THEN {x \in (IF r < 2 + k THEN 0 ELSE r - 2 - k)..(r + 3 + k) : SdOKv(var, x, k)} ELSE {},
      min3 |-> IF num.n >= 1 THEN NumMin(num) ELSE 0, max3 |-> IF num.n >= 1 THEN NumMax(num) ELSE 0,
      med3 |-> IF num.n >= 1 THEN <<ValueAt(num, MedianIdx(num.n), FALSE), ValueAt(num, MedianIdx(num.n), TRUE)>> ELSE <<>>,
      modes |-> IF num.n >= 1 THEN Modes(num) ELSE {},
      q |-> IF num.n >= 1 THEN {<<p3, ValueAt(num, QuantIdx(num.n, p3), FALSE), ValueAt(num, QuantIdx(num.n, p3), TRUE)>> :
                                 p3 \in {p \in QPoints : QuantDomain(num.n, p)}} ELSE {}]
ObsAcc == [data |-> Pairs(acc)]
Obs == CASE Which = "ctr" -> ObsCtr [] Which = "sub" -> ObsSub [] Which = "tbl" -> ObsTbl
         [] Which = "num" -> ObsNum [] Which = "acc" -> ObsAcc
AccCfgOut == [groups |-> [j \in 1..Len(AccCfg.groups) |-> <<AccCfg.groups[j].name, PrintExpr(AccCfg.groups[j].e)>>],
              cols |-> [j \in 1..Len(AccCfg.cols) |-> <<AccCfg.cols[j].name, AccCfg.cols[j].init, PrintExpr(AccCfg.cols[j].e)>>],
              sort |-> [j \in 1..Len(AccCfg.sort) |-> PrintExpr(AccCfg.sort[j])]]

\* ---- the machine with its history ---------------------------------------------
NoDec == [ok |-> FALSE, keys |-> <<>>, inc |-> 0]
DecOf(el) ==
  CASE Which = "ctr" -> Decode(el, 1)
    [] Which = "sub" -> Decode(el, 2)
    [] Which = "tbl" -> DecodeD(el, 2, MCDelim)              \* keys = <<column, row>>
    [] Which = "num" -> LET d == NumParseB(el, MCBase) IN [ok |-> d.c = "num", keys |-> <<>>, inc |-> d.v]   \* delta, milli
    [] OTHER -> NoDec
Step(op, el, p, nsel, obs) ==
  [op |-> op, el |-> el, p |-> p, nsel |-> nsel, obs |-> obs, dec |-> IF op = "s" THEN DecOf(el) ELSE NoDec]
GInit == Init /\ hist = <<>>
GNext ==
  /\ len < MaxLen /\ len' = len + 1
  /\ \/ \E el \in Elems : Sample(el) /\ hist' = Append(hist, Step("s", el, NoPred, 0, NoObs))
     \/ \E p \in Preds : Trim(p) /\ hist' = Append(hist, Step("t", <<>>, p, Cardinality(TblTrimmed(tbl, p)), NoObs))
     \/ /\ (IF ObsRepeat \/ hist = <<>> THEN TRUE ELSE hist[Len(hist)].op # "o")
        /\ Observe /\ hist' = Append(hist, Step("o", <<>>, NoPred, 0, Obs))

Samples == LET F[i \in 0..Len(hist)] ==
                 IF i = 0 THEN <<>> ELSE IF hist[i].op = "s" THEN Append(F[i - 1], hist[i].el) ELSE F[i - 1]
           IN F[Len(hist)]
NoTrim  == \A i \in 1..Len(hist) : hist[i].op # "t"
\* An "o" step changes neither the abstract state nor the samples of the history, so the fold
\* laws are evaluated on the histories without one (the others repeat the same computation);
\* that reads do not disturb the implementation-shaped state is what Sim says on ALL histories.
Plain   == \A i \in 1..Len(hist) : hist[i].op # "o"

\* the state is the bag fold of the samples
FoldOK ==
  Plain =>
  CASE Which = "ctr" -> ctr = CtrFold(Samples)
    [] Which = "sub" -> sub = SubFold(Samples)
    [] Which = "tbl" -> NoTrim => tbl = TblFoldD(Samples, MCDelim)
    [] Which = "num" -> /\ num = NumFoldB(Samples, MCBase)
                        /\ FullMomentsOK(num, MCBase, Samples)     \* exact moments of the full values
    [] Which = "acc" -> acc = AccFold(AccCfg, Samples)
RECURSIVE RunCtr(_, _)  RECURSIVE RunSub(_, _)  RECURSIVE RunTbl(_, _)  RECURSIVE RunNum(_, _)
RunCtr(s, h) == IF h = <<>> THEN s ELSE RunCtr(CtrStep(s, h[1]), Tail(h))
RunSub(s, h) == IF h = <<>> THEN s ELSE RunSub(SubStep(s, h[1]), Tail(h))
RunTbl(s, h) == IF h = <<>> THEN s ELSE RunTbl(TblStepD(s, h[1], MCDelim), Tail(h))
RunNum(s, h) == IF h = <<>> THEN s ELSE RunNum(NumStepB(s, h[1], MCBase), Tail(h))
RECURSIVE RunSk(_, _)  RECURSIVE RunTb(_, _)
RunSk(s, h) == IF h = <<>> THEN s ELSE RunSk(SkSample(s, h[1]), Tail(h))
RunTb(s, h) == IF h = <<>> THEN s ELSE RunTb(TbSample(s, h[1]), Tail(h))
\* the final state does not depend on the order of the samples - for the abstract machines and for
\* the implementation-shaped ones (whose vectors and totals are built incrementally)
\* all permutations up to length 3; beyond that the adjacent transpositions (which generate the
\* symmetric group - every reordering of a history is itself a reachable state and is checked too)
\* and the reversal
PermSet(n) ==
  IF n <= 3 THEN Permutations(1..n)
  ELSE {[i \in 1..n |-> IF i = j THEN j + 1 ELSE IF i = j + 1 THEN j ELSE i] : j \in 1..(n - 1)}
       \cup {[i \in 1..n |-> n + 1 - i]}
PermInv ==
  Plain /\ NoTrim =>
    \A pm \in PermSet(Len(Samples)) :
      LET h == [i \in 1..Len(Samples) |-> Samples[pm[i]]] IN
      CASE Which = "ctr" -> RunCtr(CtrInit, h) = ctr
        [] Which = "sub" -> RunSub(GridInit, h) = sub /\ RunSk(SkInit, h) = sk
        [] Which = "tbl" -> RunTbl(GridInit, h) = tbl /\ TbCore(RunTb(TbInit, h)) = TbCore(tb)
        [] Which = "num" -> RunNum(NumInit, h) = num
        [] OTHER -> TRUE

Dump == PrintT("VFJ " \o ToJson([agg |-> Which, prof |-> Profile, base |-> MCBaseText, delim |-> MCDelim, h |-> hist, exp |-> Obs,
                                 cfg |-> IF Which = "acc" THEN AccCfgOut ELSE NoObs]))
=============================================================================

--------------------------- MODULE Aggregators_Gen ---------------------------
(* B3 with a history variable + B1 generator.                                   *)
(* Every reachable state is one history (a sequence of samples / trims).  TLC    *)
(* checks on it that the state machines hold the order-free bag fold of the      *)
(* history (FoldOK), that every permutation of the history gives the same state  *)
(* (PermInv, count-style aggregators), the simulation relation of the            *)
(* implementation-shaped layer, and prints one vector per history: the history   *)
(* and every accessor value the specification expects after it (Dump).           *)
EXTENDS AggregatorsImpl, Json

VARIABLE hist      \* sequence of [op |-> "s" | "t", el |-> bytes, p |-> predicate, nsel |-> cells selected by the trim]
NoPred == Pred("none", <<>>, <<>>, 0)

GInit == Init /\ hist = <<>>
GNext ==
  /\ len < MaxLen /\ len' = len + 1
  /\ \/ \E el \in Elems : Sample(el) /\ hist' = Append(hist, [op |-> "s", el |-> el, p |-> NoPred, nsel |-> 0])
     \/ \E p \in Preds : Trim(p) /\ hist' = Append(hist, [op |-> "t", el |-> <<>>, p |-> p, nsel |-> Cardinality(TblTrimmed(tbl, p))])

Samples == [i \in 1..Len(hist) |-> hist[i].el]
NoTrim  == \A i \in 1..Len(hist) : hist[i].op = "s"

FoldOK ==
  CASE Which = "ctr" -> ctr = CtrFold(Samples)
    [] Which = "sub" -> sub = SubFold(Samples)
    [] Which = "tbl" -> NoTrim => tbl = TblFold(Samples)
    [] Which = "num" -> num = NumFold(Samples)
    [] Which = "acc" -> acc = AccFold(AccCfg, Samples)

RECURSIVE RunCtr(_, _)  RECURSIVE RunSub(_, _)  RECURSIVE RunTbl(_, _)  RECURSIVE RunNum(_, _)
RunCtr(s, h) == IF h = <<>> THEN s ELSE RunCtr(CtrStep(s, h[1]), Tail(h))
RunSub(s, h) == IF h = <<>> THEN s ELSE RunSub(SubStep(s, h[1]), Tail(h))
RunTbl(s, h) == IF h = <<>> THEN s ELSE RunTbl(TblStep(s, h[1]), Tail(h))
RunNum(s, h) == IF h = <<>> THEN s ELSE RunNum(NumStep(s, h[1]), Tail(h))
RECURSIVE RunSk(_, _)  RECURSIVE RunTb(_, _)
RunSk(s, h) == IF h = <<>> THEN s ELSE RunSk(SkSample(s, h[1]), Tail(h))
RunTb(s, h) == IF h = <<>> THEN s ELSE RunTb(TbSample(s, h[1]), Tail(h))
\* the final state does not depend on the order of the samples - for the abstract machines and for
\* the implementation-shaped ones (whose vectors and totals are built incrementally)
\* all permutations up to length 3; beyond that the adjacent transpositions (which generate the
\* symmetric group - every reordering of a history is itself a reachable state and is checked too)
\* and the reversal
PermSet(n) ==
  IF n <= 3 THEN Permutations(1..n)
  ELSE {[i \in 1..n |-> IF i = j THEN j + 1 ELSE IF i = j + 1 THEN j ELSE i] : j \in 1..(n - 1)}
       \cup {[i \in 1..n |-> n + 1 - i]}
PermInv ==
  NoTrim =>
    \A pm \in PermSet(Len(hist)) :
      LET h == [i \in 1..Len(hist) |-> Samples[pm[i]]] IN
      CASE Which = "ctr" -> RunCtr(CtrInit, h) = ctr
        [] Which = "sub" -> RunSub(GridInit, h) = sub /\ RunSk(SkInit, h) = sk
        [] Which = "tbl" -> RunTbl(GridInit, h) = tbl /\ RunTb(TbInit, h) = tb
        [] Which = "num" -> RunNum(NumInit, h) = num
        [] OTHER -> TRUE

\* ---- expected observations -------------------------------------------------
Pairs(f) == {<<k, f[k]>> : k \in DOMAIN f}
QPoints == {0, 125, 250, 500, 750, 900, 990, 999, 1000}
ObsCtr == [items |-> Pairs(ctr.cnt), total |-> CtrTotal(ctr), groups |-> Cardinality(DOMAIN ctr.cnt), errors |-> ctr.err]
ObsSub == [subkeys |-> GridBs(sub),
           rows |-> {<<a, GridRowSum(sub, a), {<<b, GridAt(sub, a, b)>> : b \in GridBs(sub)}>> : a \in GridAs(sub)},
           errors |-> sub.err]
ObsTbl == [cols |-> GridBs(tbl), dirty |-> tbl.dirty,
           rows |-> {<<a, GridRowSum(tbl, a), {<<b, GridAt(tbl, a, b)>> : b \in GridBs(tbl)}>> : a \in GridAs(tbl)},
           coltot |-> {<<b, GridColSum(tbl, b)>> : b \in GridBs(tbl)},
           sum |-> GridSum(tbl), min |-> GridMinMax(tbl)[1], max |-> GridMinMax(tbl)[2], errors |-> tbl.err]
ObsNum ==
  LET m == IF num.n >= 1 THEN BToInt(num.s1) \div num.n ELSE 0
      r == IF num.n >= 2 THEN ISqrt(BToInt(NumVar(num)[1]) \div BToInt(NumVar(num)[2])) ELSE 0
  IN [n |-> num.n, errors |-> num.err,
      mean3 |-> IF num.n >= 1 THEN {x \in (m - 1)..(m + 2) : MeanOK(num, x)} ELSE {},
      sd3   |-> IF num.n >= 2 THEN {x \in (IF r < 2 THEN 0 ELSE r - 2)..(r + 3) : SdOK(num, x)} ELSE {},
      min3 |-> IF num.n >= 1 THEN NumMin(num) ELSE 0, max3 |-> IF num.n >= 1 THEN NumMax(num) ELSE 0,
      med3 |-> IF num.n >= 1 THEN <<ValueAt(num, MedianIdx(num.n), FALSE), ValueAt(num, MedianIdx(num.n), TRUE)>> ELSE <<>>,
      modes |-> IF num.n >= 1 THEN Modes(num) ELSE {},
      q |-> IF num.n >= 1 THEN {<<p3, ValueAt(num, QuantIdx(num.n, p3), FALSE), ValueAt(num, QuantIdx(num.n, p3), TRUE)>> :
                                 p3 \in {p \in QPoints : QuantDomain(num.n, p)}} ELSE {}]
ObsAcc == [groups |-> [j \in 1..Len(AccCfg.groups) |-> <<AccCfg.groups[j].name, PrintExpr(AccCfg.groups[j].e)>>],
           cols |-> [j \in 1..Len(AccCfg.cols) |-> <<AccCfg.cols[j].name, AccCfg.cols[j].init, PrintExpr(AccCfg.cols[j].e)>>],
           data |-> Pairs(acc)]
Obs == CASE Which = "ctr" -> ObsCtr [] Which = "sub" -> ObsSub [] Which = "tbl" -> ObsTbl
         [] Which = "num" -> ObsNum [] Which = "acc" -> ObsAcc

Dump == PrintT("VFJ " \o ToJson([agg |-> Which, prof |-> Profile, h |-> hist, exp |-> Obs]))
=============================================================================

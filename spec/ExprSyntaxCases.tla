--------------------------- MODULE ExprSyntaxCases ---------------------------
(* The bounded case space of C09, shared by ExprSyntax_MC (B3: laws on the       *)
(* model) and ExprSyntax_Gen (B1: the same cases exported with the expected      *)
(* observable for replay on the real compiler).                                  *)
(*                                                                               *)
(* A case is an annotated template (ExprSyntax.tla): a plain tree from a small   *)
(* pool, annotated by a VARIANT = tapes of writer's choices (blank runs between  *)
(* arguments, quoting of arguments that need no quotes, blanks after `{` /       *)
(* before `}`, escape mode of top-level text) that are consumed by position, so  *)
(* different sites of one tree get different choices.                            *)
EXTENDS ExprSyntax

CONSTANT Thorough        \* BOOLEAN: larger pools

\* ------------------------------------------------------------------ annotation
PickT(tape, i) == tape[(i % Len(tape)) + 1]
NeedsQuote(s) == s = <<>> \/ \E i \in 1..Len(s) : IsSpaceU(s[i])

EscFlags(s, mode) ==
  [i \in 1..Len(s) |->
     IF s[i] \in {LBR, BSL} THEN 1
     ELSE IF s[i] \in {110, 116, 114} THEN 0
     ELSE CASE mode = "min" -> 0
            [] mode = "max" -> 1
            [] mode = "odd" -> i % 2
            [] OTHER -> (i + 1) % 2]

RECURSIVE Ann(_, _, _, _)
\* x plain node, v variant, d nesting depth (0 = top level), j position among its siblings
Ann(x, v, d, j) ==
  CASE x.k = "lit" ->
         AN("lit", x.s, 0, <<>>, <<>>, <<>>, <<>>,
            IF d = 0 THEN FALSE ELSE NeedsQuote(x.s) \/ PickT(v.quote, d + j),
            IF d = 0 THEN EscFlags(x.s, v.esc) ELSE <<>>, FALSE)
    [] x.k = "call" ->
         AN("call", x.s, 0, [i \in 1..Len(x.args) |-> Ann(x.args[i], v, d + 1, j + i)],
            [i \in 1..Len(x.args) |-> PickT(v.seps, d + j + i)],
            PickT(v.lead, d + j), PickT(v.trail, d + j), FALSE, <<>>, FALSE)
    [] x.k = "qt" ->
         AN("qt", <<>>, 0, [i \in 1..Len(x.args) |-> Ann(x.args[i], [v EXCEPT !.quote = <<FALSE>>], d + 1, j + i)],
            <<>>, <<>>, <<>>, FALSE, <<>>, FALSE)
    [] x.k = "empty" ->
         AN("empty", <<>>, 0, <<>>, <<>>, PickT(v.lead, d + j), <<>>, FALSE, <<>>, FALSE)
    [] OTHER ->
         AN(x.k, x.s, x.n, <<>>, <<>>, PickT(v.lead, d + j), PickT(v.trail, d + j), FALSE, <<>>, FALSE)
AnnT(tpl, v) == [j \in 1..Len(tpl) |-> Ann(tpl[j], v, 0, j)]

\* mark the k-th statement (preorder) as lacking its closing brace
RECURSIVE CountS(_)
CountS(a) == IF a.k \in {"lit", "qt"} THEN 0
             ELSE 1 + FoldLeft(LAMBDA acc, x : acc + CountS(x), 0, a.args)
RECURSIVE DropAt(_, _)
RECURSIVE DropArgs(_, _, _)
DropAt(a, k) ==
  IF a.k \in {"lit", "qt"} \/ k < 1 \/ k > CountS(a) THEN a
  ELSE IF k = 1 THEN [a EXCEPT !.drop = TRUE]
  ELSE [a EXCEPT !.args = DropArgs(a.args, 1, k - 1)]
DropArgs(args, j, k) ==
  IF j > Len(args) THEN args
  ELSE LET c == CountS(args[j]) IN
    IF k <= c THEN [args EXCEPT ![j] = DropAt(args[j], k)] ELSE DropArgs(args, j + 1, k - c)
RECURSIVE DropT(_, _, _)
DropT(tpl, j, k) ==
  IF j > Len(tpl) THEN tpl
  ELSE LET c == CountS(tpl[j]) IN
    IF k <= c THEN [tpl EXCEPT ![j] = DropAt(tpl[j], k)] ELSE DropT(tpl, j + 1, k - c)
CountT(tpl) == FoldLeft(LAMBDA acc, x : acc + CountS(x), 0, tpl)
\* all single-drop mutations of an annotated template, top-level `}` after the drop escaped
EscClose(a) == IF a.k = "lit" THEN [a EXCEPT !.esc = [i \in 1..Len(a.s) |-> IF a.s[i] = RBR THEN 1 ELSE a.esc[i]]] ELSE a
Drops(tpl) == {DropT([j \in 1..Len(tpl) |-> EscClose(tpl[j])], 1, k) : k \in 1..CountT(tpl)}

\* ------------------------------------------------------------------ variants
SPs == <<32>>
TBs == <<9>>
SepAll == {<<32>>, <<9>>, <<32, 32>>, <<32, 9>>, <<9, 32>>, <<9, 9>>}
Pads == {<<>>, <<32>>, <<9>>}
V(seps, quote, lead, trail, esc) == [seps |-> seps, quote |-> quote, lead |-> lead, trail |-> trail, esc |-> esc]

\* a covering selection for the large pools
VBase == {
  V(<<SPs>>, <<FALSE>>, <<<<>>>>, <<<<>>>>, "min"),
  V(<<TBs>>, <<TRUE>>, <<<<>>>>, <<<<>>>>, "max"),
  V(<<<<32, 32>>, TBs>>, <<TRUE, FALSE>>, <<SPs, <<>>>>, <<<<>>, TBs>>, "odd"),
  V(<<<<32, 9>>, SPs, <<9, 9>>>>, <<FALSE, TRUE>>, <<<<>>, TBs>>, <<SPs, <<>>>>, "even"),
  V(<<<<9, 32>>, <<32, 32>>>>, <<FALSE, FALSE, TRUE>>, <<TBs>>, <<SPs>>, "max"),
  V(<<SPs, <<9, 9>>, TBs>>, <<TRUE, TRUE, FALSE>>, <<SPs>>, <<TBs>>, "min")
}
\* the full product for the small pools: every separator pair, every quoting pattern, every padding
VAll == {V(<<s1, s2>>, <<q1, q2>>, <<l>>, <<t>>, e) :
           s1 \in SepAll, s2 \in SepAll, q1 \in BOOLEAN, q2 \in BOOLEAN, l \in Pads, t \in Pads, e \in {"min", "max"}}
VPad == {V(<<SPs>>, <<FALSE>>, <<l>>, <<t>>, e) : l \in Pads \cup {<<32, 9>>}, t \in Pads \cup {<<9, 32>>},
                                                    e \in IF Thorough THEN {"min", "max", "odd", "even"} ELSE {"max", "odd"}}
VMid == {V(<<s1, s2>>, <<q1, q2>>, <<l, <<>>>>, <<<<>>, t>>, "odd") :
           s1 \in SepAll, s2 \in {<<9, 32>>}, q1 \in BOOLEAN, q2 \in BOOLEAN, l \in Pads, t \in {SPs}}
VMidT == {V(<<s1, s2>>, <<q1, q2>>, <<l, <<>>>>, <<<<>>, t>>, "odd") :
           s1 \in SepAll, s2 \in {SPs, <<9, 32>>}, q1 \in BOOLEAN, q2 \in BOOLEAN, l \in Pads, t \in {<<>>, SPs}}

\* ---- white space: every Unicode White_Space character, as the ONLY separator / padding of a statement
WsChars == {9, 10, 11, 12, 13, 32, 133, 160, 5760, 8232, 8233, 8239, 8287, 12288} \cup (8192..8202)
\* three patterns per character c: c alone between the arguments; doubled, and as padding inside the braces;
\* mixed with space and tab, some arguments quoted
VWs == UNION {{V(<<<<ch>>>>, <<FALSE>>, <<<<>>>>, <<<<>>>>, "min"),
               V(<<<<ch, ch>>>>, <<FALSE>>, <<<<ch>>>>, <<<<ch>>>>, "odd"),
               V(<<<<ch>>, <<SP, ch>>, <<ch, TAB>>>>, <<TRUE, FALSE>>, <<<<ch>>, <<>>>>, <<<<>>, <<ch, ch>>>>, "even")} : ch \in WsChars}

\* ------------------------------------------------------------------ plain trees
Fn1 == <<102>>          \* f
Fn2 == <<103>>          \* g
Fn3 == <<955, 120>>     \* a non-ASCII name
FnX == <<122, 122>>     \* zz: not registered
FnY == <<70>>           \* F: not registered either (f is)
Ca == 97
C1 == 49

Strs(alpha, n) == UNION {[1..k -> alpha] : k \in 0..n}
LitsAll == Strs({Ca, C1, SP}, 2)                                      \* 13 argument literals over {a 1 space}
LitsFew == {<<>>, <<Ca>>, <<C1, Ca>>, <<Ca, SP, C1>>, <<SP>>, <<Ca, TAB>>}
LitsMin == {<<>>, <<Ca>>, <<Ca, SP, C1>>}
GrpsAll == {0, 1, 12, 999999999}
KeysAll == {<<107>>, <<Ca, C1>>, <<C1, Ca>>, <<46>>, <<35, 46>>, <<233, 95>>}     \* k a1 1a . #. e'_

Atoms(Ls, Gs, Ks) == {LitN(s) : s \in Ls} \cup {GrpN(n) : n \in Gs} \cup {KeyN(k) : k \in Ks}
Calls(Fs, Pool, m) == {CallN(f, args) : f \in Fs, args \in UNION {[1..k -> Pool] : k \in 1..m}}

AtomsAll == Atoms(LitsAll, GrpsAll, KeysAll)
AtomsFew == Atoms(LitsFew, {0, 12}, {<<107>>, <<C1, Ca>>})
AtomsMin == Atoms(LitsMin, {1}, {<<107>>})
\* quoted sub-templates: the "{0}" idiom, text around a statement, a nested call between text
QtAtoms == {QtN(<<GrpN(0)>>), QtN(<<LitN(<<Ca, SP>>), KeyN(<<107>>)>>),
            QtN(<<CallN(Fn2, <<LitN(<<Ca>>), GrpN(1)>>), LitN(<<SP, C1>>)>>), QtN(<<GrpN(1), GrpN(12)>>)}

\* top-level text placed around statements: every special character next to a brace
TopLits == {<<Ca>>, <<LBR>>, <<RBR>>, <<BSL>>, <<QUO>>, <<SP>>, <<110>>, <<LF>>, <<Ca, LBR, RBR>>, <<BSL, QUO, 116>>, <<TAB, 233>>}
Wrap(S, Pre, Post) == {<<x>> : x \in S}
                      \cup {<<LitN(p), x>> : p \in Pre, x \in S}
                      \cup {<<x, LitN(q)>> : q \in Post, x \in S}
                      \cup {<<LitN(p), x, LitN(q)>> : p \in Pre, q \in Post, x \in S}

\* depth 1: {f a b}
D1All == Calls({Fn1, Fn3}, AtomsAll, 2)
D1Few == Calls({Fn2}, AtomsMin, 2)
D1Qt == Calls({Fn1}, AtomsMin \cup QtAtoms \cup Calls({Fn2}, QtAtoms \cup {LitN(<<Ca>>)}, 2), 2)
D1Three == Calls({Fn1}, AtomsMin, 3)
\* depth 2: nested calls in any argument position
D2 == Calls({Fn1}, AtomsFew \cup D1Few, 2)
D2Big == Calls({Fn1}, AtomsFew \cup Calls({Fn2, Fn3}, AtomsFew, 2), 2)
\* depth 3, one shape per position
D3 == Calls({Fn1}, {LitN(<<Ca>>)} \cup Calls({Fn2}, {GrpN(1), LitN(<<>>)} \cup Calls({Fn1}, {KeyN(<<107>>), LitN(<<Ca, SP, C1>>)}, 1), 2), 2)

\* ---- written integers (ExprSyntaxIdx.tla): the boundaries of the 64-bit (and 32-bit) index range
GrpS(s) == N("grp", s, 0, <<>>)
IdxShift(x, k) == IF k >= 0 THEN IxAdd(x, Itoa(k)) ELSE IxSub(x, Itoa(0 - k))
IdxNats == {IdxShift(b, j) : b \in {IxP63, IxP64, IxAdd(IxP64, IxP64), Append(IxP64, 48), IxAdd(IxP63, IxP64)}, j \in -2..2}
           \cup {IdxShift(b, j) : b \in {IxP31, IxP32}, j \in {-1, 0, 1}}
           \cup {[i \in 1..20 |-> 57], <<49>> \o [i \in 1..19 |-> 48], <<49>> \o [i \in 1..25 |-> 48], <<55>>, <<48>>,
                 <<49, 50, 51, 52, 53, 54, 55, 56, 57, 48>>}
IdxStrs == IdxNats
           \cup {<<45>> \o IdxShift(IxP63, j) : j \in -2..2} \cup {<<45>> \o IdxShift(IxP64, j) : j \in {-1, 0, 1, 2}}
           \cup {<<45, 49>>, <<45, 48>>, <<48, 48, 55>>, <<45, 48, 49, 50>>, [i \in 1..21 |-> 48] \o <<49>>,
                 <<48, 48>> \o IxP63, <<48, 48>> \o IdxShift(IxP63, -1), <<48>> \o IdxShift(IxP64, 1), <<45, 48, 48>> \o IxP63}
IdxTrees == UNION {{<<GrpS(n)>>, <<LitN(<<Ca>>), GrpS(n), LitN(<<RBR>>)>>, <<CallN(Fn1, <<GrpS(n), LitN(<<Ca>>)>>)>>,
                    <<CallN(Fn2, <<QtN(<<LitN(<<Ca, SP>>), GrpS(n)>>), GrpS(n)>>)>>} : n \in IdxStrs}
\* ---- pools of the white-space groups: statements without any quote, brace or backslash inside (nothing but the
\* separators tells the arguments apart), and a few with them
WsAtoms == {LitN(<<Ca>>), LitN(<<C1, Ca>>), GrpN(1), GrpN(12), KeyN(<<107>>)}
WsTrees == {<<x>> : x \in {GrpN(1), KeyN(<<107>>), CallN(Fn3, <<LitN(<<Ca>>), GrpN(1)>>)} \cup Calls({Fn1}, WsAtoms, 2)
                          \cup Calls({Fn2}, {LitN(<<Ca>>), LitN(<<Ca, SP, C1>>), LitN(<<>>), CallN(Fn1, <<KeyN(<<107>>), LitN(<<C1>>)>>), QtN(<<GrpN(0)>>)}, 2)}
           \cup {<<LitN(<<Ca, LF>>), CallN(Fn1, <<LitN(<<Ca>>), GrpN(1), LitN(<<C1>>)>>), LitN(<<TAB>>)>>}
WsErrTrees == {<<x>> : x \in {EmptyN} \cup Calls({FnX}, {LitN(<<Ca>>), GrpN(1), KeyN(<<107>>)}, 2)
                             \cup Calls({Fn1}, {EmptyN, LitN(<<Ca>>), CallN(FnY, <<LitN(<<Ca>>), GrpN(1)>>)}, 2)}

Simple == {GrpN(n) : n \in GrpsAll} \cup {KeyN(k) : k \in KeysAll}

\* malformed pools: an empty statement or an unregistered function somewhere
AtomsErr == AtomsMin \cup {EmptyN}
E1 == Calls({Fn1, FnX, FnY}, AtomsErr, 2)
\* two different malformations inside one argument
E3 == Calls({Fn1}, Calls({Fn2}, {EmptyN, CallN(FnX, <<LitN(<<Ca>>)>>), LitN(<<Ca>>)}, 2), 1)
E2 == Calls({Fn1, FnX}, AtomsMin \cup {EmptyN} \cup Calls({Fn2, FnX}, AtomsErr, 1), 2)

\* ------------------------------------------------------------------ groups of cases
(* kind "rt"  : x = annotated well-formed template           law RoundTripOK     *)
(* kind "err" : x = annotated malformed template             law ErrClassOK      *)
(* kind "esc" : x = [s, esc]                                 law EscapeOK        *)
(* kind "any" : x = raw text                                 law: the model is total *)
Groups == {"simple", "d1", "qt", "d1wrap", "d1three", "d2", "d3", "two", "drop", "errnode", "escmode", "escall", "total"}
        \cup (IF Thorough THEN {"d2big", "d1all"} ELSE {})

\* white space (every Unicode White_Space character as the only separator / padding) and written integers (the ends of the
\* index range): explored by a run of their own (ExprSyntax_MC WsInit)
GroupsWs == {"ws", "wserr", "idx"}

KindOf(g) == CASE g \in {"drop", "errnode", "wserr"} -> "err" [] g \in {"escmode", "escall"} -> "esc"
               [] g = "total" -> "any" [] OTHER -> "rt"

EscAlpha == {Ca, LBR, RBR, BSL, QUO, SP, 110, 116}           \* a { } \ " space n t
EscAlpha2 == EscAlpha \cup {LF, TAB, CR, 114, 233}
EscAlpha4 == {Ca, LBR, RBR, BSL, QUO, 110, LF}
AllFlags(s) == {e \in [1..Len(s) -> {0, 1}] : \A i \in 1..Len(s) : EscOK(s[i], e[i])}
TotAlpha == {Ca, LBR, RBR, BSL, QUO, SP}
VOdd == CHOOSE v \in VBase : v.esc = "odd"
VEven == CHOOSE v \in VBase : v.esc = "even"

\* plain templates of a tree group
Trees(g) ==
  CASE g = "simple"  -> Wrap(Simple, TopLits, {<<Ca>>, <<RBR>>, <<LBR>>, <<SP>>})
    [] g = "d1"      -> {<<x>> : x \in IF Thorough THEN D1All ELSE Calls({Fn1, Fn3}, AtomsFew, 2)}
    [] g = "d1all"   -> {<<x>> : x \in Calls({Fn1}, AtomsMin, 2)}
    [] g = "d1wrap"  -> Wrap(Calls({Fn2}, AtomsMin, 2), TopLits, IF Thorough THEN TopLits ELSE {<<Ca>>, <<RBR>>, <<BSL, QUO, 116>>, <<LBR>>})
    [] g = "qt"      -> {<<x>> : x \in D1Qt}
    [] g = "d1three" -> {<<x>> : x \in D1Three}
    [] g = "d2"      -> {<<x>> : x \in D2}
    [] g = "d2big"   -> {<<x>> : x \in D2Big}
    [] g = "d3"      -> {<<x>> : x \in D3}
    [] g = "two"     -> {<<x, y>> : x \in Simple \cup D1Few, y \in {GrpN(0), KeyN(<<107>>), CallN(Fn1, <<LitN(<<>>)>>)}}
                        \cup {<<x, LitN(m), y>> : x \in {GrpN(1), CallN(Fn1, <<LitN(<<Ca>>), GrpN(0)>>)},
                                                   m \in TopLits, y \in {KeyN(<<107>>), CallN(Fn2, <<KeyN(<<107>>)>>)}}
    [] g = "drop"    -> Wrap(D1Few \cup Simple, {<<Ca>>, <<RBR>>}, {<<Ca>>, <<RBR, SP>>})
                        \cup {<<x>> : x \in D3 \cup (IF Thorough THEN D2 ELSE {})}
                        \cup {<<GrpN(1), LitN(<<Ca, RBR>>), CallN(Fn1, <<KeyN(<<107>>), LitN(<<Ca>>)>>), LitN(<<RBR>>), KeyN(<<107>>)>>}
    [] g = "errnode" -> Wrap(E1 \cup {EmptyN}, {<<Ca>>}, {<<RBR>>}) \cup {<<x>> : x \in E2 \cup E3}
    [] g = "ws"      -> WsTrees
    [] g = "wserr"   -> WsErrTrees
    [] g = "idx"     -> IdxTrees

\* sub-keys of a group: a case set is expanded per (group, sub-key) so that TLC workers share the work
Subs(g) ==
  CASE g = "simple"  -> VPad
    [] g = "d1"      -> VBase \cup VMid \cup (IF Thorough THEN {v \in VMidT : v.lead[1] = <<>>} ELSE {})
    [] g = "d1all"   -> VAll
    [] g \in {"d1wrap", "two", "qt"} -> VBase
    [] g = "d2big"   -> {VOdd, VEven, CHOOSE v \in VBase : v.seps = <<TBs>>}
    [] g = "drop"    -> {VOdd, VEven}
    [] g \in {"d1three", "d2", "d3"} -> VBase \cup (IF Thorough THEN VMid ELSE {})
    [] g = "errnode" -> {VOdd, VEven}
    [] g \in {"ws", "wserr"} -> VWs
    [] g = "idx"     -> {VOdd, VEven, CHOOSE v \in VWs : v.seps = <<<<LF>>>>}
    [] g = "escmode" -> {"min", "max", "odd"}
    [] g = "escall"  -> EscAlpha2 \cup {0}
    [] g = "total"   -> TotAlpha \cup {0}

\* strings over alpha up to length n that start with the character k (k = 0: the empty string)
StrsFrom(alpha, n, k) == IF k = 0 THEN {<<>>} ELSE {<<k>> \o s : s \in Strs(alpha, n - 1)}

Cases(g, k) ==
  CASE KindOf(g) = "rt" -> {AnnT(t, k) : t \in Trees(g)}
    [] g = "drop"    -> UNION {Drops(AnnT(t, k)) : t \in Trees(g)}
                        \cup (IF k = VOdd THEN UNION {UNION {Drops(d) : d \in Drops(AnnT(<<x>>, k))} : x \in D3} ELSE {})   \* two braces missing
    [] g \in {"errnode", "wserr"} -> {a \in {AnnT(t, k) : t \in Trees(g)} : ErrUpper(a) # {}}
    [] g = "escmode" -> {<<s, EscFlags(s, k)>> : s \in Strs(EscAlpha, IF Thorough THEN 5 ELSE 4)}
    [] g = "escall"  -> UNION {{<<s, e>> : e \in AllFlags(s)} :
                                 s \in StrsFrom(EscAlpha2, 3, k)
                                       \cup (IF Thorough /\ k \in EscAlpha4 THEN StrsFrom(EscAlpha4, 4, k) ELSE {})}
    [] g = "total"   -> StrsFrom(TotAlpha, IF Thorough THEN 6 ELSE 5, k)

Law(g, x) ==
  CASE KindOf(g) = "rt"  -> WFTpl(x) /\ ~Mutated(x) /\ RoundTripOK(x)
    [] KindOf(g) = "err" -> WFTpl(x) /\ Mutated(x) /\ ErrLower(x) # {} /\ ErrClassOK(x)
    [] KindOf(g) = "esc" -> EscapeOK(x[1], x[2])
    [] OTHER             -> LET p == ParseModel(x) IN Len(p.st) >= 0 /\ ErrSet(p) \subseteq {"unterminated", "empty", "unknownFunc"}
=============================================================================

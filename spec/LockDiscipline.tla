--------------------------- MODULE LockDiscipline ---------------------------
(* C05 - lock-discipline table for the state shared between the goroutines of  *)
(* the pipeline (a DESIGN check of the code as read; the data-race clause       *)
(* itself is decided by the Go race detector on real executions).               *)
(*                                                                              *)
(* One row per access site: variable, goroutine class, mode, locks held.        *)
(* Two accesses conflict when they touch the same variable from goroutines that *)
(* can run concurrently and at least one writes; a conflict is harmless only if *)
(* both are atomic operations or a common lock excludes them.                   *)
(* Fixed = FALSE is the table as read in the pinned commit (Batcher             *)
(* .setSourceCount wrote without mux; StatusString re-read readBytes plainly);  *)
(* Fixed = TRUE is the table after the two `fix:` commits.                      *)
EXTENDS Integers, FiniteSets

(*                                                                              *)
(* Variables that only mean something TOGETHER (an invariant relates them) form *)
(* a consistency group: making each of them atomic removes the data race but    *)
(* not the inconsistency - accesses to different members of a group need a      *)
(* common lock (or the group must be a single cell).  TimeCells selects what    *)
(* the default-format time stage remembers between evaluations (TimeMemo.tla):  *)
(* "format" (the code: one cell), "pair1" (last conversion in one cell),        *)
(* "pair2" (last input and last result in two atomic cells: must be rejected).  *)
CONSTANTS Fixed, TimeCells

\* goroutine classes; Multi = several instances may run at once
Multi == {"reader", "worker", "status"}
\* mode: "r" | "w" plain, "ar" | "aw" atomic;  locks: set of <<lock, "x" | "s">> (exclusive / shared)
A(v, site, g, m, ls) == [var |-> v, site |-> site, g |-> g, mode |-> m, locks |-> ls]
MUX == {<<"Batcher.mux", "x">>}
OUT == {<<"outputMutex", "x">>}

Accesses == {
  \* pkg/extractor/batchers/batcher.go
  A("sourceCount", "setSourceCount", "spawner", "w", IF Fixed THEN MUX ELSE {}),
  A("sourceCount", "StatusString", "status", "r", MUX),
  A("readCount", "stopFileReading", "reader", "w", MUX),
  A("readCount", "StatusString", "status", "r", MUX),
  A("errorCount", "incErrors", "reader", "w", MUX),
  A("errorCount", "ReadErrors", "status", "r", MUX),
  A("activeFiles", "startFileReading", "reader", "w", MUX),
  A("activeFiles", "stopFileReading", "reader", "w", MUX),
  A("activeFiles", "StatusString", "status", "r", MUX),
  A("activeFiles", "ActiveFileCount", "status", "r", MUX),
  A("readBytes", "incReadBytes", "reader", "aw", {}),
  A("readBytes", "ReadBytes", "status", "ar", {}),
  A("readBytes", "StatusString/load", "status", "ar", MUX),
  A("readBytes", "StatusString/rate", "status", IF Fixed THEN "ar" ELSE "r", MUX),
  A("lastRate", "StatusString", "status", "w", MUX),
  A("lastRateBytes", "StatusString", "status", "w", MUX),
  A("lastRateUpdate", "StatusString", "status", "w", MUX),
  \* pkg/extractor/extractor.go
  A("readLines", "processLineSync", "worker", "aw", {}),
  A("readLines", "ReadLines", "status", "ar", {}),
  A("matchedLines", "processLineSync", "worker", "aw", {}),
  A("matchedLines", "MatchedLines", "status", "ar", {}),
  A("ignoredLines", "processLineSync", "worker", "aw", {}),
  A("ignoredLines", "IgnoredLines", "status", "ar", {}),
  \* cmd/helpers/updatingAggregator.go: the aggregate
  A("aggregate", "Sample", "main", "w", OUT),
  A("aggregate", "writeOutput/tick", "ticker", "r", OUT),
  A("aggregate", "writeOutput/final", "main", "r", {}),   \* same goroutine as Sample; ticker has exited
  \* pkg/logger/logger.go
  A("logger", "DeferLogs", "main", "w", {<<"logger.mux", "x">>}),
  A("logger", "ImmediateLogs", "main", "w", {<<"logger.mux", "x">>}),
  A("logger", "Printf", "reader", "r", {<<"logger.mux", "s">>}),
  \* pkg/slicepool/objpool.go, shared by all workers evaluating one compiled expression
  A("ObjectPool.pool", "Get", "worker", "w", {<<"ObjectPool.m", "x">>}),
  A("ObjectPool.pool", "Return", "worker", "w", {<<"ObjectPool.m", "x">>}),
  \* pkg/expressions/stdlib/funcsTime.go
  A("atomicFormat", "Load", "worker", "ar", {}),
  A("atomicFormat", "Store", "worker", "aw", {})
} \cup (CASE TimeCells = "pair1" -> {A("lastConversion", "Load", "worker", "ar", {}), A("lastConversion", "Store", "worker", "aw", {})}
          [] TimeCells = "pair2" -> {A("lastTime", "Load", "worker", "ar", {}), A("lastTime", "Store", "worker", "aw", {}),
                                     A("lastResult", "Load", "worker", "ar", {}), A("lastResult", "Store", "worker", "aw", {})}
          [] OTHER -> {})

\* consistency groups: variable -> group (a variable not listed is a group of its own)
GroupOf(v) ==
  CASE v \in {"lastRate", "lastRateBytes", "lastRateUpdate"} -> "rate"          \* rate = bytes since lastRateUpdate
    [] v \in {"readCount", "activeFiles"} -> "files"                            \* a file leaves activeFiles as it is counted
    [] v \in {"lastTime", "lastResult"} -> "timeMemo"                           \* lastResult = conversion of lastTime
    [] OTHER -> v

Writes(a) == a.mode \in {"w", "aw"}
Atomic(a) == a.mode \in {"ar", "aw"}
Concurrent(a, b) == a.g # b.g \/ (a.g \in Multi /\ a # b) \/ (a.g \in Multi /\ Writes(a))
\* the final render is ordered after the ticker's exit by the outputDone rendezvous
Ordered(a, b) == {a.site, b.site} = {"writeOutput/final", "writeOutput/tick"}
Conflict(a, b) ==
  /\ a.var = b.var /\ Concurrent(a, b) /\ ~Ordered(a, b)
  /\ (Writes(a) \/ Writes(b))
  /\ ~(Atomic(a) /\ Atomic(b))
Excludes(a, b) == \E l \in a.locks : l[2] = "x" /\ \E m \in b.locks : m[1] = l[1]
Protected(a, b) == Excludes(a, b) \/ Excludes(b, a)

VARIABLE pair
Init == pair \in Accesses \X Accesses
Next == UNCHANGED pair
Spec == Init /\ [][Next]_pair

TypeOK == pair \in Accesses \X Accesses
Disciplined == Conflict(pair[1], pair[2]) => Protected(pair[1], pair[2])
\* accesses to DIFFERENT members of one group that can run concurrently, one of them writing: a common lock
\* (atomicity of the single cells does not count)
GroupConflict(a, b) ==
  /\ a.var # b.var /\ GroupOf(a.var) = GroupOf(b.var)
  /\ Concurrent(a, b) /\ (Writes(a) \/ Writes(b))
Grouped == GroupConflict(pair[1], pair[2]) => Protected(pair[1], pair[2])
=============================================================================

---------------------------- MODULE ExprScalar_MC ----------------------------
(* B3 for C11: the laws the property states, checked by TLC on the model         *)
(* (ExprScalar.Eval) over ranges.  A law is an independent characterisation of   *)
(* the documented result (e.g. "the multiple b of s with b <= v < b+s"), not a   *)
(* second copy of the definition; it shows that the specification the real code  *)
(* is compared with has the property's content.                                   *)
(* State space: one header state per law, its successors are the law's cases     *)
(* (different workers expand different laws); invariant LawOK on every case.     *)
EXTENDS ExprScalar, TLC

CONSTANT Thorough

VARIABLE c      \* [hdr, law, x]

I(n) == Itoa(n)
IsOut(e) == e.k = "out" /\ e.ce = "n"
Num(e) == IntVal(e.v)                         \* the integer an "out" expectation spells
DecStr(m, s) == Signed(m < 0, FmtFixed(AbsI(m), s))
Strs(alpha, n) == UNION {[1..k -> alpha] : k \in 0..n}
StripCommas(s) == SelectSeq(s, LAMBDA ch : ch # 44)
IsPow10(n) == n \in {P10(k) : k \in 0..9}
TruthOf(e) == e.k = "truthy"                  \* for expectations that are truthy / falsy
IsBool(e) == e.k \in {"truthy", "falsy"} /\ e.ce = "n"

RV == IF Thorough THEN 400 ELSE 200
RS == IF Thorough THEN 60 ELSE 40

Laws == {"bucket", "clamp", "csv", "csvnaive", "csvfile", "hi", "divmod", "minmax", "fold", "compare", "logic", "cond",
         "substr", "select", "contains", "case", "tab", "floorceil", "round", "expbucket", "unit", "percent",
         "path", "lookup", "errors", "arity", "hf", "constpos",
         "utf8", "utf8bad", "truth", "truthbad", "condws", "bignat", "bigsmall", "bigint", "bigfrac", "bigedge", "nonfinite", "expform"}

\* ---- text: scalar values around every White_Space code point, the near misses, some visible characters
WsNear == {132, 134, 159, 161, 173, 5759, 5761, 6158, 8191, 8203, 8204, 8205, 8206, 8231, 8234, 8238, 8240, 8286, 8288,
           12287, 12289, 65279, 65533}
CpPool == U8WS \cup WsNear \cup {97, 48, 233, 19990, 128512}
CpSeqs(n) == UNION {[1..k -> CpPool] : k \in 0..n}
IllFormed == {<<160>>, <<133>>, <<194>>, <<226, 128>>, <<192, 160>>, <<224, 128, 160>>, <<237, 160, 128>>, <<255>>,
              <<244, 144, 128, 128>>, <<226, 128, 40>>}
WsTexts == {U8EncodeAll(q) : q \in UNION {[1..k -> {32, 9, 133, 160, 5760, 8195, 8232, 12288}] : k \in 1..2}}

\* ---- numbers: m * 2^k as digit sequences
BigMs == {1, 3, 5, 7, 10, 625, 999999999, 123456789, 536870913}
BigKs == IF Thorough THEN 0..100 ELSE {0, 1, 20, 22, 23, 24, 30, 31, 32, 33, 34, 43, 52, 53, 62, 63, 64, 65, 70, 100}
BigNat(m, k) == BnShl(BnOfInt(m), k)
P2x63 == BigNat(1, 63)

CsvAlpha == {97, 44, 34, 13, 10, 32}
CsvLists == {<<a>> : a \in Strs(CsvAlpha, 2)} \cup {<<a, b>> : a, b \in Strs(CsvAlpha, 2)}
            \cup {<<a, b, d>> : a, b, d \in Strs(CsvAlpha, 1)}

Pairs(A, B) == {<<a, b>> : a \in A, b \in B}
Triples(A, B, C) == {<<a, b, d>> : a \in A, b \in B, d \in C}

DecPool == {DecStr(m, s) : m \in {0 - 150, 0 - 15, 0 - 1, 0, 1, 5, 10, 15, 99, 100, 101, 150, 1500}, s \in 0..2}
LogicVals == {<<>>, <<97>>, <<48>>, <<120, 32, 121>>}

Cases(law) ==
  CASE law = "bucket" -> Pairs((0 - RV)..RV, 1..RS) \cup Pairs({0 - 999999999, 999999999, 0 - 1000000, 0 - 999999000}, {1000, 999999999, 7})
    [] law = "clamp" -> Triples((0 - 12)..12, (0 - 6)..6, (0 - 6)..6)
    [] law \in {"csv", "csvnaive"} -> CsvLists
    [] law = "csvfile" -> Pairs(CsvLists, {<<a>> : a \in Strs(CsvAlpha, 1)} \cup {<<<<97>>, <<34, 10>>>>})
    [] law = "hi" -> ((0 - (IF Thorough THEN 120000 ELSE 12000))..(IF Thorough THEN 120000 ELSE 12000))
                     \cup UNION {{p - 1, p, p + 1, 0 - (p - 1), 0 - p, 0 - (p + 1)} : p \in {P10(k) : k \in 5..8}}
                     \cup {999999999, 0 - 999999999}
    [] law = "divmod" -> Pairs((0 - 25)..25, (0 - 25)..25)
    [] law = "minmax" -> Triples((0 - 3)..3, (0 - 3)..3, (0 - 3)..3)
    [] law = "fold" -> Triples((0 - 4)..4, (0 - 4)..4, (0 - 4)..4)
    [] law = "compare" -> Pairs(DecPool, DecPool)
    [] law = "logic" -> Triples(LogicVals, LogicVals, LogicVals)
    [] law = "cond" -> Triples({<<>>, <<32>>, <<97>>, <<9, 32>>}, {<<>>, <<120>>}, {<<>>, <<121>>})
    [] law = "substr" -> Triples(Strs({97, 98}, 4), 0..5, 0..5)
    [] law = "select" -> Strs({97, 98, 32, 9}, IF Thorough THEN 6 ELSE 5)
    [] law = "contains" -> Pairs(Strs({97, 98}, 3), Strs({97, 98}, 2))
    [] law = "case" -> Strs({97, 90, 49, 32, 122, 65, 64, 91, 96, 123}, 2)
    [] law = "tab" -> Triples(Strs({97, 32}, 1), Strs({97, 32}, 1), Strs({97, 32}, 1))
    [] law = "floorceil" -> Pairs((0 - 250)..250, 0..2)
    [] law = "round" -> Triples((0 - 260)..260, 0..3, 0..3)
    [] law = "expbucket" -> 1..(IF Thorough THEN 120000 ELSE 12000) \cup {P10(k) - 1 : k \in 5..9} \cup {P10(k) : k \in 5..8}
    [] law = "unit" -> Triples({"bytesize", "bytesizesi", "downscale"},
                               0..3000 \cup {1047552 + k : k \in 0..2100} \cup {999000 + k : k \in 0..2000}
                               \cup {123456789, 999999999, 1073741, 536870912}, 0..2)
    [] law = "percent" -> Triples((0 - 20)..120, {50, 100, 200, 3, 7}, 0..2)
    [] law = "path" -> Triples({<<>>, <<47>>}, {<<97>>, <<97, 47, 98, 46, 100>>, <<120, 46, 121>>}, {<<99>>, <<99, 46, 116, 120, 116>>, <<100, 46, 97, 46, 98>>})
    [] law = "lookup" -> Pairs(SUBSET {1, 2, 3}, {1, 2, 3, 4})
    [] law = "errors" -> Funcs
    [] law = "arity" -> Pairs(Funcs, 1..6)
    [] law = "hf" -> Pairs({0, 5, 999, 1000, 12345, 1234567, 99999999, 0 - 1000, 0 - 999999}, 0..4)
    [] law = "constpos" -> Pairs({"bucket", "bucketrange", "clamp", "round", "percent", "bytesize", "bytesizesi",
                                  "downscale", "lookup", "haskey"}, {"c", "d"})
    [] law = "utf8" -> (IF Thorough THEN 0..13000 ELSE 0..2300 \cup 5700..5800 \cup 8100..8400 \cup 12200..12400)
                       \cup {2047, 2048, 55295, 55296, 57343, 57344, 65279, 65535, 65536, 128512, 1114111}
    [] law = "utf8bad" -> IllFormed \cup {<<b>> : b \in 128..255}
    [] law = "truth" -> CpSeqs(IF Thorough THEN 3 ELSE 2)
    [] law = "truthbad" -> Triples(WsTexts \cup {<<>>}, IllFormed, WsTexts \cup {<<>>})
    [] law = "condws" -> Triples(CpSeqs(2), IF Thorough THEN {<<>>, <<120>>} ELSE {<<120>>}, {<<>>, <<121>>})
    [] law = "bignat" -> Pairs(BigMs \cup 0..40, BigKs)
    [] law = "bigsmall" -> Triples((0 - 260)..260, 0..3, 0..3)
    [] law = "bigint" -> Triples(BigMs, BigKs, {FALSE, TRUE})
    [] law = "bigfrac" -> Triples(BigMs \cup {2, 4, 6}, {0, 1, 10, 20, 21, 22, 23, 30, 40, 48, 49, 50, 51, 52},
                                  Pairs({<<53>>, <<50, 53>>, <<55, 53>>, <<49, 50, 53>>, <<51, 55, 53>>, <<54, 50, 53>>, <<48, 54, 50, 53>>}, {FALSE, TRUE}))
    [] law = "bigedge" -> {"2^53+1", "10^22", "10^23", "2^63-1", "2^63-1024", "0.1big", "long"}
    [] law = "expform" -> Triples({1, 5, 15, 25, 125, 1024, 999999999, 0 - 1, 0 - 25, 0 - 375}, (0 - 4)..24, {101, 69})
    [] law = "nonfinite" -> Pairs({"floor", "ceil", "round"},
                                  {<<105, 110, 102>>, <<43, 73, 110, 102>>, <<45, 105, 110, 102>>, <<73, 110, 102, 105, 110, 105, 116, 121>>,
                                   <<45, 105, 110, 102, 105, 110, 105, 116, 121>>, <<110, 97, 110>>, <<78, 97, 78>>})

E1(f, a) == Eval(f, <<a>>)
E2(f, a, b) == Eval(f, <<a, b>>)
E3(f, a, b, d) == Eval(f, <<a, b, d>>)

\* the decimal m / 10^s as [neg, a, s] (not normalised) compared with an integer n: m ? n * 10^s
KV(i) == <<107, 48 + i>>       \* key "k<i>"
VV(i) == <<118, 48 + i>>       \* value "v<i>"
TableOf(S) == Flatten([i \in 1..3 |-> IF i \in S THEN KV(i) \o <<32>> \o VV(i) \o <<10>> ELSE <<35>> \o KV(i) \o <<32, 120, 10>>])

Law(law, x) ==
  CASE law = "bucket" ->
         \* "bucket(v,s) is the multiple b of s with b <= v < b+s"; bucketrange spells b and b+s-1
         LET v == x[1]  s == x[2]  e == E2("bucket", I(v), I(s))  b == Num(e) IN
         /\ IsOut(e) /\ e.v = I(b) /\ b % s = 0 /\ b <= v /\ v < b + s
         /\ E2("bucketrange", I(v), I(s)) = Out(I(b) \o RANGESEP \o I(b + s - 1))
    [] law = "clamp" ->
         \* "clamp returns v iff min <= v <= max", else the word min / max
         LET v == x[1]  lo == x[2]  hi == x[3]  e == E3("clamp", I(v), I(lo), I(hi)) IN
         IF lo > hi THEN e = AnyR
         ELSE /\ IsOut(e)
              /\ (e.v = I(v)) <=> (lo <= v /\ v <= hi)
              /\ (e.v = WMIN) <=> v < lo
              /\ (e.v = WMAX) <=> v > hi
    [] law = "csv" ->
         \* the decoder inverts a correct RFC 4180 encoding of every argument list, and that is
         \* what the specification demands of {csv ..}
         /\ LET d == CsvDecodeRecord(CsvEncodeRecord(x)) IN d.ok /\ d.fields = x
         /\ Eval("csv", x) = CsvR
         /\ Matches("csv", x, CsvR, CsvEncodeRecord(x), FALSE)
    [] law = "csvnaive" ->
         \* the check has teeth: joining without quoting is rejected whenever a field needs quoting,
         \* and so is quoting without doubling the quotes
         LET naive == JoinSeq(x, <<44>>)
             undoubled == JoinSeq([i \in 1..Len(x) |-> IF CsvNeedsQuote(x[i]) THEN <<34>> \o x[i] \o <<34>> ELSE x[i]], <<44>>)
             special == \E i \in 1..Len(x) : CsvNeedsQuote(x[i])
             hasq == \E i \in 1..Len(x) : \E j \in 1..Len(x[i]) : x[i][j] = 34
         IN /\ Matches("csv", x, CsvR, naive, FALSE) <=> ~special
            /\ hasq => ~Matches("csv", x, CsvR, undoubled, FALSE)
    [] law = "csvfile" ->
         \* file mode: records separated by LF / CRLF, with or without a final line break
         LET a == CsvEncodeRecord(x[1])  b == CsvEncodeRecord(x[2])
             ok(t) == LET d == CsvDecodeFile(t) IN d.ok /\ d.recs = <<x[1], x[2]>>
         IN \* (a record that is one empty field is an empty line: not distinguishable from no record)
            x[1] = <<<<>>>> \/ x[2] = <<<<>>>> \/
            (ok(a \o <<10>> \o b) /\ ok(a \o <<13, 10>> \o b \o <<13, 10>>) /\ ok(a \o <<10>> \o b \o <<10>>))
    [] law = "hi" ->
         \* "hi only inserts thousands separators": removing them gives the number back; in the
         \* digits, position r from the right holds a comma iff r is a multiple of 4; sign first
         LET e == E1("hi", I(x))
             body == IF x < 0 THEN Tail(e.v) ELSE e.v
             n == Len(body)
         IN /\ IsOut(e) /\ StripCommas(e.v) = I(x)
            /\ (x < 0) <=> (e.v[1] = MINUS)
            /\ \A j \in 1..n : (body[j] = 44) <=> ((n - j + 1) % 4 = 0)
            /\ body[1] # 44
    [] law = "divmod" ->
         \* Go semantics: a = q*b + r, |r| < |b|, r has the sign of a; division by zero is an error marker
         LET a == x[1]  b == x[2]  q == E2("divi", I(a), I(b))  r == E2("modi", I(a), I(b)) IN
         IF b = 0 THEN q = Marker /\ r = Marker
         ELSE /\ IsOut(q) /\ IsOut(r)
              /\ a = Num(q) * b + Num(r) /\ AbsI(Num(r)) < AbsI(b)
              /\ (Num(r) = 0 \/ (Num(r) < 0) = (a < 0))
    [] law = "minmax" ->
         LET args == <<I(x[1]), I(x[2]), I(x[3])>>  mx == Eval("maxi", args)  mn == Eval("mini", args)
             S == {x[1], x[2], x[3]} IN
         /\ IsOut(mx) /\ Num(mx) \in S /\ \A y \in S : y <= Num(mx)
         /\ IsOut(mn) /\ Num(mn) \in S /\ \A y \in S : y >= Num(mn)
    [] law = "fold" ->
         \* "from left to right": f(a,b,c) = f(f(a,b),c); subi is sumi of the negation
         LET a == I(x[1])  b == I(x[2])  d == I(x[3]) IN
         /\ \A f \in {"sumi", "subi", "multi"} : E3(f, a, b, d) = E2(f, E2(f, a, b).v, d)
         /\ Num(E3("sumi", a, b, d)) = x[1] + x[2] + x[3]
         /\ Num(E3("subi", a, b, d)) = x[1] - x[2] - x[3]
         /\ Num(E3("multi", a, b, d)) = x[1] * x[2] * x[3]
         /\ E2("subi", a, b) = E2("sumi", a, I(0 - x[2]))
         /\ x[3] # 0 /\ x[2] # 0 => E3("divi", a, b, d) = E2("divi", E2("divi", a, b).v, d)
    [] law = "compare" ->
         \* a strict total order on the numbers: trichotomy, duality, converse; equal spellings equal
         LET a == x[1]  b == x[2]
             lt == E2("lt", a, b)  gt == E2("gt", a, b)  le == E2("lte", a, b)  ge == E2("gte", a, b)
             eqn == TruthOf(le) /\ TruthOf(ge)
         IN /\ IsBool(lt) /\ IsBool(gt) /\ IsBool(le) /\ IsBool(ge)
            /\ Cardinality({i \in 1..3 : <<TruthOf(lt), eqn, TruthOf(gt)>>[i]}) = 1
            /\ TruthOf(le) = ~TruthOf(gt) /\ TruthOf(ge) = ~TruthOf(lt)
            /\ TruthOf(lt) = TruthOf(E2("gt", b, a))
            /\ (a = b => eqn)
            /\ eqn <=> (Dec(a).a * P10(2 - Dec(a).s) = Dec(b).a * P10(2 - Dec(b).s) /\ (Dec(a).neg = Dec(b).neg \/ Dec(a).a = 0))
    [] law = "logic" ->
         \* and = all truthy, or = some truthy, De Morgan through not; eq / neq complementary
         LET a == x[1]  b == x[2]  d == x[3]
             t(s) == s # <<>>
             na == E1("not", a).v  nb == E1("not", b).v IN
         /\ TruthOf(E3("and", a, b, d)) = (t(a) /\ t(b) /\ t(d))
         /\ TruthOf(E3("or", a, b, d)) = (t(a) \/ t(b) \/ t(d))
         /\ E1("not", a) = Bool1(~t(a))
         /\ TruthOf(E2("and", na, nb)) = ~TruthOf(E2("or", a, b))
         /\ E2("eq", a, b) = Bool1(a = b) /\ E2("neq", a, b) = Bool1(a # b)
         /\ E3("coalesce", a, b, d) = Out(IF t(a) THEN a ELSE IF t(b) THEN b ELSE d)
    [] law = "cond" ->
         \* whitespace-only is false; unless = if with the branches swapped; switch with 3 args = if
         LET cnd == x[1]  y == x[2]  z == x[3]
             tr == \E i \in 1..Len(cnd) : ~IsAsciiSpace(cnd[i]) IN
         /\ E3("if", cnd, y, z) = Out(IF tr THEN y ELSE z)
         /\ E2("if", cnd, y) = Out(IF tr THEN y ELSE <<>>)
         /\ E2("unless", cnd, z) = E3("if", cnd, <<>>, z)
         /\ E3("switch", cnd, y, z) = E3("if", cnd, y, z)
         /\ E2("switch", cnd, y) = E2("if", cnd, y)
         /\ Eval("switch", <<<<>>, y, cnd, z, <<101>>>>) = Out(IF tr THEN z ELSE <<101>>)
    [] law = "substr" ->
         \* a contiguous piece starting at pos of at most `length` bytes; cutting at p loses nothing
         LET s == x[1]  p == x[2]  l == x[3]  e == E3("substr", s, I(p), I(l))  n == Len(s)
             want == IF p >= n THEN 0 ELSE IF p + l > n THEN n - p ELSE l IN
         /\ IsOut(e) /\ Len(e.v) = want
         /\ \A i \in 1..want : e.v[i] = s[p + i]
         /\ E3("substr", s, I(0), I(p)).v \o E3("substr", s, I(p), I(n)).v = s
    [] law = "select" ->
         \* the selected items, joined by one blank, are the value with its blank runs collapsed;
         \* beyond the last item nothing is selected
         LET s == x  inDom == s = <<>> \/ (s[1] \notin SelWS /\ s[Len(s)] \notin SelWS)
             items == [i \in 1..(Len(s) + 1) |-> E2("select", s, I(i - 1))]
             cnt == Cardinality({i \in 1..Len(s) : s[i] \notin SelWS /\ (i = 1 \/ s[i - 1] \in SelWS)})
         IN IF ~inDom THEN items[1] = AnyR
            ELSE /\ \A i \in 1..(Len(s) + 1) : IsOut(items[i]) /\ (items[i].v = <<>>) = (i > cnt)
                 /\ \A i \in 1..cnt : \A j \in 1..Len(items[i].v) : items[i].v[j] \notin SelWS
                 /\ LET joined == JoinSeq([i \in 1..cnt |-> items[i].v], <<32>>)
                        RECURSIVE Collapse(_)
                        Collapse(t) == IF t = <<>> THEN <<>>
                                       ELSE IF t[1] \in SelWS THEN (IF Len(t) > 1 /\ t[2] \in SelWS THEN Collapse(Tail(t)) ELSE <<32>> \o Collapse(Tail(t)))
                                       ELSE <<t[1]>> \o Collapse(Tail(t))
                    IN joined = Collapse(s)
    [] law = "contains" ->
         \* prefix and suffix imply like; like means: val = u \o sub \o w for some cut
         LET v == x[1]  s == x[2]
             like == E2("like", v, s)  pre == E2("prefix", v, s)  suf == E2("suffix", v, s)
             cuts == \E i \in 0..Len(v) : \E j \in i..Len(v) : SubSeq(v, i + 1, j) = s IN
         /\ (v # <<>> => (TruthOf(like) <=> cuts))
         /\ (TruthOf(pre) => TruthOf(like)) /\ (TruthOf(suf) => TruthOf(like))
         /\ (v # <<>> => (TruthOf(pre) <=> Len(s) <= Len(v) /\ SubSeq(v, 1, Len(s)) = s))
         /\ (v # <<>> => (TruthOf(suf) <=> Len(s) <= Len(v) /\ SubSeq(v, Len(v) - Len(s) + 1, Len(v)) = s))
         /\ (v = <<>> => like.k \in {"any", "falsy"})
    [] law = "case" ->
         \* upper/lower change letters only, keep the length, are idempotent and absorb each other
         LET u == E1("upper", x).v  lw == E1("lower", x).v IN
         /\ Len(u) = Len(x) /\ Len(lw) = Len(x) /\ E1("len", x) = Out(I(Len(x)))
         /\ E1("upper", u).v = u /\ E1("lower", lw).v = lw /\ E1("upper", lw).v = u /\ E1("lower", u).v = lw
         /\ \A i \in 1..Len(x) : /\ (~IsLower(x[i]) => u[i] = x[i]) /\ (~IsUpper(x[i]) => lw[i] = x[i])
                                 /\ (IsLower(x[i]) => u[i] = x[i] - 32) /\ (IsUpper(x[i]) => lw[i] = x[i] + 32)
    [] law = "tab" ->
         LET e == E3("tab", x[1], x[2], x[3]) IN IsOut(e) /\ SplitOn(e.v, 9) = x
    [] law = "floorceil" ->
         \* floor(x) <= x < floor(x)+1, ceil(x)-1 < x <= ceil(x), ceil(x) = -floor(-x)
         LET m == x[1]  s == x[2]  D == P10(s)  t == DecStr(m, s)
             fl == E1("floor", t)  ce == E1("ceil", t) IN
         IF m < 0 /\ m > 0 - 1 THEN TRUE
         ELSE /\ IsOut(fl) /\ Num(fl) * D <= m /\ m < (Num(fl) + 1) * D
              /\ IsOut(ce) /\ (Num(ce) - 1) * D < m /\ m <= Num(ce) * D
              /\ (m # 0 => Num(ce) = 0 - Num(E1("floor", DecStr(0 - m, s))))
    [] law = "round" ->
         \* the result has exactly p decimals and is the nearest such number; exactly half way between two
         \* of them it is either (both, and only those, are accepted)
         LET m == x[1]  s == x[2]  p == x[3]  t == DecStr(m, s)
             e == IF p = 0 /\ m % 2 = 0 THEN E1("round", t) ELSE E2("round", t, I(p))
             tie == s > p /\ (2 * (AbsI(m) % P10(s - p)) = P10(s - p)) IN
         IF e.k = "any" THEN
              (m < 0 /\ 2 * AbsI(m) <= P10(s - p) /\ s > p)                       \* rounds to -0 (or ties with it)
         ELSE IF e.k = "oneof" THEN
              /\ tie /\ Len(e.alts) = 2 /\ e.alts[1] # e.alts[2] /\ e.ce = "n"
              /\ \A i \in 1..2 : /\ DecOK(e.alts[i]) /\ Dec(e.alts[i]).neg = (m < 0)
                                  /\ (p = 0 => IndexByte(e.alts[i], DOT) = 0)
                                  /\ (p > 0 => IndexByte(e.alts[i], DOT) = Len(e.alts[i]) - p)
                                  /\ LET full == Dec(e.alts[i]) IN
                                     2 * AbsI(DecM(full) * P10(s - full.s) - m) = P10(s - p)
         ELSE /\ ~tie /\ IsOut(e) /\ DecOK(e.v)
              /\ LET d == DecParts(e.v)  full == Dec(e.v) IN
                 /\ (p = 0 => IndexByte(e.v, DOT) = 0)
                 /\ (p > 0 => IndexByte(e.v, DOT) = Len(e.v) - p)
                 \* |e - t| <= 1/2 unit of the last place:  compare at scale max(s,p)
                 /\ LET S == IF s > p THEN s ELSE p
                        A == DecM(full) * P10(S - full.s)
                        B == m * P10(S - s)
                    IN 2 * AbsI(A - B) <= P10(S - p) /\ (S = p => A = B)
    [] law = "expbucket" ->
         \* a power of ten r with r <= v < 10 r
         LET e == E1("expbucket", I(x))  r == Num(e) IN IsOut(e) /\ IsPow10(r) /\ r <= x /\ x \div 10 < r
    [] law = "unit" ->
         \* number * step^rank is within half a unit of the last printed place of v; 1 <= number < step
         LET f == x[1]  v == x[2]  p == x[3]  e == IF p = 0 THEN E1(f, I(v)) ELSE E2(f, I(v), I(p))
             step == UnitStep(f) IN
         IF e.k = "any" THEN v >= step                                  \* ties and roll-over only
         ELSE /\ e.k = "oneof" /\ Len(e.alts) >= 1
              /\ \A i \in 1..Len(e.alts) :
                   LET a == e.alts[i]
                       numlen == CHOOSE n \in 0..Len(a) : (\A j \in 1..n : IsDigit(a[j]) \/ a[j] = DOT) /\ (n = Len(a) \/ ~(IsDigit(a[n + 1]) \/ a[n + 1] = DOT))
                       num == SubSeq(a, 1, numlen)
                       unit == SelectSeq(SubSeq(a, numlen + 1, Len(a)), LAMBDA ch : ch # 32)
                       rank == CHOOSE k \in 0..3 : unit = UnitNames(f)[k + 1]
                       D == IF rank = 0 THEN 1 ELSE IF rank = 1 THEN step ELSE step * step
                       d == Dec(num)
                   IN /\ DecOK(num) /\ unit \in {UnitNames(f)[k] : k \in 1..4}
                      /\ (rank = 0 <=> v < step) /\ (rank = 1 <=> (v >= step /\ v < step * step))
                      /\ (rank = 0 => d.a = v * P10(d.s))
                      \* |num * D - v| * 2 * 10^p <= D      (num = d.a / 10^d.s, d.s <= p)
                      /\ (rank > 0 => /\ d.s <= p /\ d.a >= P10(d.s) /\ d.a < step * P10(d.s)
                                      /\ LET q == d.a * P10(p - d.s)           \* num scaled by 10^p
                                             lo == (v \div D) * P10(p)          \* integer part bound, avoids overflow
                                         IN q >= lo /\ q <= lo + P10(p)
                                            /\ LET rem == v % D                 \* fraction = rem / D
                                                   fq == q - lo                 \* printed fraction scaled by 10^p
                                               IN  (D <= 2000000 => 2 * AbsI(fq * D - rem * P10(p)) <= D))
    [] law = "percent" ->
         \* {percent v p max}: the printed number times max is within half a unit of 100 v
         LET v == x[1]  mx == x[2]  p == x[3]  e == E3("percent", I(v), I(p), I(mx)) IN
         /\ \/ e.k = "any"
            \/ /\ IsOut(e) /\ e.v[Len(e.v)] = 37
               /\ LET num == SubSeq(e.v, 1, Len(e.v) - 1)  d == Dec(num) IN
                  /\ DecOK(num) /\ (p = 0 => IndexByte(num, DOT) = 0) /\ (p > 0 => IndexByte(num, DOT) = Len(num) - p)
                  /\ 2 * AbsI(DecM(d) * P10(p - d.s) * mx - 100 * v * P10(p)) <= mx
                  /\ (v = mx => num = FmtFixed(100 * P10(p), p)) /\ (v = 0 => num = FmtFixed(0, p))
         \* {percent v p min max}: shifting value, min and max together changes nothing
         /\ Eval("percent", <<I(v + 10), I(p), I(10), I(mx + 10)>>) = e
         \* the default precision is 1, the default range 0..1
         /\ (p = 1 => Eval("percent", <<DecStr(v, 2)>>) = E3("percent", DecStr(v, 2), I(1), I(1)))
    [] law = "path" ->
         \* dirname / basename = path; extname is the part of basename from its last dot
         LET path == x[1] \o x[2] \o <<47>> \o x[3]
             dir == E1("dirname", path)  base == E1("basename", path)  ext == E1("extname", path) IN
         /\ IsOut(dir) /\ IsOut(base) /\ IsOut(ext)
         /\ dir.v \o <<47>> \o base.v = path
         /\ IndexByte(base.v, 47) = 0
         /\ HasSuffix(base.v, ext.v) /\ (ext.v # <<>> => ext.v[1] = DOT /\ IndexByte(Tail(ext.v), DOT) = 0)
         /\ (ext.v = <<>> <=> IndexByte(base.v, DOT) = 0)
    [] law = "lookup" ->
         \* keys of live lines are found with their values; commented-out and absent keys are not
         LET S == x[1]  i == x[2]  t == TableOf(S)
             lk == E3("lookup", KV(i), t, <<35>>)  hk == E3("haskey", KV(i), t, <<35>>) IN
         /\ lk = Out(IF i \in S THEN VV(i) ELSE <<>>)
         /\ hk = Bool(i \in S)
         /\ (i \in S => E2("lookup", KV(i), t) = lk)
    [] law = "errors" ->
         \* "non-numeric input yields the documented error marker": every numeric helper, numeric argument "abc"
         LET f == x  abc == <<97, 98, 99>>  one == <<49>>
             numeric == {"sumi", "subi", "multi", "divi", "modi", "maxi", "mini", "sumf", "subf", "multf", "divf", "pow",
                         "sqrt", "log10", "log2", "ln", "floor", "ceil", "round", "lt", "gt", "lte", "gte", "bucket",
                         "bucketrange", "clamp", "expbucket", "hi", "hf", "bytesize", "bytesizesi", "downscale", "percent"}
             n == CHOOSE k \in 1..3 : ArityOK(f, k)
             args == [j \in 1..n |-> IF j = 1 THEN abc ELSE one] IN
         (f \in numeric) => Eval(f, args) = ErrNum
    [] law = "arity" ->
         \* a call with an unsupported number of arguments is a compile error and evaluates to <ARGN>
         LET f == x[1]  n == x[2]  args == [j \in 1..n |-> <<49>>]  e == Expect(f, args, [j \in 1..n |-> "d"]) IN
         (~ArityOK(f, n)) <=> (e = ArgN)
    [] law = "hf" ->
         \* every accepted spelling, commas removed, is the decimal itself (plus trailing zeros)
         LET m == x[1]  s == x[2]  t == DecStr(m, s)  e == E1("hf", t) IN
         /\ e.k = "oneof" /\ Len(e.alts) >= 1
         /\ \A i \in 1..Len(e.alts) :
              LET plain == StripCommas(e.alts[i]) IN
              /\ DecOK(plain) /\ Dec(plain) = Dec(t)
              /\ LET ip == IF IndexByte(e.alts[i], DOT) = 0 THEN e.alts[i] ELSE SubSeq(e.alts[i], 1, IndexByte(e.alts[i], DOT) - 1)
                 IN ip = E1("hi", I(IF m < 0 THEN 0 - (AbsI(m) \div P10(s)) ELSE m \div P10(s))).v \/ (m < 0 /\ AbsI(m) < P10(s))
    [] law = "constpos" ->
         \* compile-time arguments supplied from the match context give an error marker, never a value
         LET f == x[1]  p == x[2]
             args == IF f = "clamp" THEN <<I(5), I(0), I(9)>> ELSE IF f \in {"lookup", "haskey"} THEN <<KV(1), TableOf({1})>> ELSE <<I(5), I(2)>>
             pos == [j \in 1..Len(args) |-> IF j = 1 THEN "d" ELSE p]
             e == Expect(f, args, pos) IN
         IF p = "d" THEN e = Marker ELSE e.k \in {"out", "oneof", "truthy"} /\ e.ce = "n"
    [] law = "utf8" ->
         \* encoding and decoding are inverse on the scalar values; lengths by range; surrogates are not scalar values
         LET cp == x  b == U8Encode(cp) IN
         IF cp >= 55296 /\ cp <= 57343 THEN ~U8WellFormed(b)
         ELSE /\ U8Decode(b) = <<cp>> /\ U8WellFormed(b)
              /\ Len(b) = (IF cp < 128 THEN 1 ELSE IF cp < 2048 THEN 2 ELSE IF cp < 65536 THEN 3 ELSE 4)
              /\ U8Decode(<<97>> \o b \o <<32>>) = <<97, cp, 32>>
              /\ (cp >= 128 => ~U8WellFormed(SubSeq(b, 1, Len(b) - 1)) /\ ~U8WellFormed(Tail(b)))
    [] law = "utf8bad" ->
         \* stray continuation bytes, truncated, overlong and out-of-range forms are ill-formed, never a blank
         /\ ~U8WellFormed(x) /\ ~U8AllBlank(x) /\ ~U8SomeVisible(x)
         /\ TruthClass(x) \in {"unknown", "true"}
    [] law = "truth" ->
         \* "False is an empty value (or only whitespace)": a text of scalar values is blank iff it is not empty
         \* and all of them are White_Space; it is true as soon as one of them is certainly visible
         LET s == U8EncodeAll(x)  cl == TruthClass(s)
             ws == \A i \in 1..Len(x) : x[i] \in U8WS
             vis == \E i \in 1..Len(x) : U8Visible(x[i]) IN
         /\ (cl = "empty") = (x = <<>>)
         /\ (cl = "blank") = (x # <<>> /\ ws)
         /\ (cl = "true") = vis
         /\ (cl = "unknown") = (~ws /\ ~vis)
         /\ U8Decode(s) = x
         \* the six ASCII blanks are not the whole of it: 19 further code points are white space
         /\ Cardinality(U8WS) = 25 /\ Cardinality({w \in U8WS : w >= 128}) = 19
    [] law = "truthbad" ->
         \* white space around an ill-formed piece is not a blank value (nothing is demanded of it)
         LET s == x[1] \o x[2] \o x[3] IN TruthClass(s) \in {"unknown", "true"} /\ (TruthClass(s) = "true") = (x[2] = <<226, 128, 40>>)
    [] law = "condws" ->
         \* whitespace-only (any White_Space) is false for if / unless / switch; one visible character makes it true;
         \* and / or / not on whitespace-only values stay outside the domain (the docs contradict themselves)
         LET cnd == U8EncodeAll(x[1])  y == x[2]  z == x[3]
             ws == \A i \in 1..Len(x[1]) : x[1][i] \in U8WS
             vis == \E i \in 1..Len(x[1]) : U8Visible(x[1][i]) IN
         IF ws THEN
           /\ E3("if", cnd, y, z) = Out(z) /\ E2("if", cnd, y) = Out(<<>>) /\ E2("unless", cnd, z) = Out(z)
           /\ E3("switch", cnd, y, z) = Out(z) /\ E2("switch", cnd, y) = Out(<<>>)
           /\ Eval("switch", <<cnd, y, <<97>>, z, <<101>>>>) = Out(z)
           /\ (cnd # <<>> => E1("not", cnd) = AnyR /\ E2("and", cnd, <<97>>) = AnyR /\ E2("or", cnd, <<>>) = AnyR)
         ELSE IF vis THEN
           /\ E3("if", cnd, y, z) = Out(y) /\ E2("unless", cnd, z) = Out(<<>>) /\ E3("switch", cnd, y, z) = Out(y)
           /\ Eval("switch", <<<<32, 194, 160>>, y, cnd, z, <<101>>>>) = Out(z)
           /\ E1("not", cnd) = Out(<<>>) /\ E2("and", cnd, <<97>>) = TruthyR
         ELSE E3("if", cnd, y, z) = AnyR /\ E2("unless", cnd, z) = AnyR /\ E1("not", cnd) = AnyR
    [] law = "bignat" ->
         \* the digit-sequence arithmetic: doubling and halving are inverse, parity, order, successor
         LET m == x[1]  k == x[2]  d == BigNat(m, k)  d2 == BnDouble(d) IN
         /\ BnIsNat(d) /\ BnNorm(d) = d
         /\ BnHalve(d2) = d /\ ~BnOdd(d2) /\ BnOdd(BnInc(d2)) /\ BnHalve(BnInc(d2)) = d
         /\ (m # 0 => BnLess(d, d2) /\ ~BnLess(d2, d)) /\ BnLess(d, BnInc(d)) /\ ~BnLess(d, d)
         /\ (k = 0 => d = BnOfInt(m) /\ BnInc(d) = BnOfInt(m + 1))
         /\ (m # 0 => BnOddPart(d) = BnOddPart(BnOfInt(m)))
         /\ (m # 0 /\ k <= 30 /\ m <= 1 => d = BnOfInt(2 ^ k))
    [] law = "bigsmall" ->
         \* where the 32 bit model and the digit arithmetic both apply they agree: floor, ceil and every rounding
         LET m == x[1]  s == x[2]  p == x[3]  t == DecStr(m, s)  dp == DecParts(t)
             fl == E1("floor", t)  ce == E1("ceil", t)  rs == RoundScaled(Dec(t).a, Dec(t).s, p)
             rb == BnRound(dp.ip, dp.fp, p) IN
         /\ DecClass(t) = "dec"
         /\ (m # 0 \/ TRUE) /\ fl = Out(BnFloor(dp.neg, dp.ip, dp.fp)) /\ ce = Out(BnCeil(dp.neg, dp.ip, dp.fp))
         /\ (rs.st = "tie") = (rb.st = "tie")
         /\ (rs.st = "tie" => BnOfInt(rs.q) = rb.dn /\ BnOfInt(rs.q + 1) = rb.up)
         /\ (rs.st = "ok" => BnOfInt(rs.q) = (IF rb.st = "gt" THEN rb.up ELSE rb.dn))
         /\ BnFmt(rb.dn, p) = FmtFixed(IF rs.st = "ok" /\ rb.st = "gt" THEN rs.q - 1 ELSE rs.q, p)
    [] law = "bigint" ->
         \* an integer m * 2^k (m < 2^53) is a binary64 value: floor, ceil and round leave it alone, whatever
         \* its size (2^63, 2^64, 2^100 ...); with a precision only zeros are added; the sign is kept
         LET d == BigNat(x[1], x[2])  t == Signed(x[3], d)
 IN
         /\ Len(d) <= 40                                       \* the bound of the digit arithmetic (BigBounds)
         /\ F64Exact(d, <<>>)
         /\ E1("floor", t) = Out(t) /\ E1("ceil", t) = Out(t) /\ E1("round", t) = Out(t)
         /\ LET r2 == E2("round", t, I(2)) IN r2 = Out(t \o <<DOT, 48, 48>>) \/ (DecClass(t) = "dec" /\ Len(d) >= 8 /\ r2 = AnyR)
         /\ (DecClass(t) = "decbig" => IsBigExact(t))
         \* a design that goes through int64 cannot: from 2^63 on the numeral differs from every int64
         /\ (~BnLess(d, P2x63) => Len(d) >= 19)
    [] law = "bigfrac" ->
         \* n + fr with n = m * 2^k below 2^52 and fr a dyadic fraction of 1..4 binary places, a binary64 value iff n * 2^places < 2^53:
         \* floor n (or -(n+1)), ceil n+1 (or -n), round to the nearer, a tie is either neighbour
         LET n == BigNat(x[1], x[2])  fr == x[3][1]  neg == x[3][2]
             t == Signed(neg, BnFmt(n, 0) \o <<DOT>> \o fr)
             fits == BnLess(BnShl(n, Len(fr)), P2x53)          \* fr has Len(fr) binary places: the value times 2^Len(fr) is odd
             n1 == BnInc(n)
             sg(d) == Signed(neg, d)
             half == IF fr = <<53>> THEN "tie" ELSE IF fr[1] >= 53 THEN "gt" ELSE "lt" IN
         IF ~fits THEN (DecClass(t) = "decbig" => ~IsBigExact(t) /\ E1("floor", t) = AnyR /\ E1("round", t) = AnyR)
         ELSE IF DecClass(t) # "decbig" THEN DecClass(t) = "dec"
         ELSE /\ IsBigExact(t)
              /\ E1("floor", t) = Out(IF neg THEN sg(n1) ELSE BnFmt(n, 0))
              /\ E1("ceil", t) = Out(IF neg THEN (IF n = <<>> THEN <<48>> ELSE sg(n)) ELSE n1)
              /\ LET r == E1("round", t) IN
                 IF neg /\ n = <<>> THEN r = AnyR
                 ELSE IF half = "tie" THEN r = OneOf(<<sg(BnFmt(n, 0)), sg(n1)>>)
                 ELSE r = Out(sg(IF half = "gt" THEN n1 ELSE BnFmt(n, 0)))
              /\ E2("round", t, I(Len(fr))) = Out(t)
              /\ E2("round", t, I(Len(fr) + 2)) = Out(t \o <<48, 48>>)
              \* one decimal fewer than the fraction has: the last digit is a 5, i.e. always a tie
              /\ LET r1 == E2("round", t, I(Len(fr) - 1)) IN
                 (neg /\ n = <<>> /\ BnAllZero(SubSeq(fr, 1, Len(fr) - 1))) \/ (r1.k = "oneof" /\ Len(r1.alts) = 2 /\ r1.alts[1] # r1.alts[2])
    [] law = "bigedge" ->
         LET e19 == <<49>> \o BnZeros(19) IN
         (CASE x = "2^53+1" -> /\ ~F64Exact(BnInc(P2x53), <<>>) /\ F64Exact(P2x53, <<>>) /\ F64Exact(BnInc(BnInc(P2x53)), <<>>)
                              /\ E1("floor", BnInc(P2x53)) = AnyR /\ E1("round", BnInc(P2x53)) = AnyR
           [] x = "10^22" -> /\ F64Exact(<<49>> \o BnZeros(22), <<>>) /\ E1("round", <<49>> \o BnZeros(22)) = Out(<<49>> \o BnZeros(22))
                             /\ E1("floor", e19) = Out(e19) /\ E1("ceil", <<MINUS>> \o e19) = Out(<<MINUS>> \o e19)
           [] x = "10^23" -> ~F64Exact(<<49>> \o BnZeros(23), <<>>) /\ E1("round", <<49>> \o BnZeros(23)) = AnyR
           [] x = "2^63-1" -> LET d == <<57, 50, 50, 51, 51, 55, 50, 48, 51, 54, 56, 53, 52, 55, 55, 53, 56, 48, 55>> IN
                              /\ BnInc(d) = P2x63 /\ ~F64Exact(d, <<>>) /\ E1("floor", d) = AnyR
                              /\ E1("floor", P2x63) = Out(P2x63) /\ E1("round", <<MINUS>> \o P2x63) = Out(<<MINUS>> \o P2x63)
           [] x = "2^63-1024" -> LET d == <<57, 50, 50, 51, 51, 55, 50, 48, 51, 54, 56, 53, 52, 55, 55, 52, 55, 56, 52>> IN
                              F64Exact(d, <<>>) /\ BnLess(d, P2x63) /\ E1("ceil", d) = Out(d)
           [] x = "0.1big" -> LET t == <<48, DOT, 49, 48, 48, 48, 48, 48, 48, 48, 48, 49>> IN DecClass(t) = "decbig" /\ ~IsBigExact(t) /\ E1("ceil", t) = AnyR
           [] x = "long" -> LET t == <<49>> \o BnZeros(41) IN DecClass(t) = "decbig" /\ ~IsBigExact(t) /\ E1("round", t) = AnyR)
    [] law = "expform" ->
         \* m e x is the number m * 10^x: the plain spelling is the digits of m with the point moved; floor / ceil / round give
         \* what they give for the plain spelling - or, should the spelling not count as a number, the error marker; nothing else
         LET m == x[1]  ex == x[2]  t == I(m) \o <<x[3]>> \o (IF ex >= 0 /\ m % 2 = 0 THEN <<43>> ELSE <<>>) \o I(ex)
             pl == ExpPlain(t)
             same(f) == LET a == E1(f, t)  b == E1(f, pl) IN
                        IF b.k = "out" THEN a.k = "oneof" /\ a.alts = <<b.v, BADTYPE>>
                        ELSE IF b.k = "oneof" THEN a.k = "oneof" /\ a.alts = Append(b.alts, BADTYPE)
                        ELSE a = AnyR IN
         /\ IsExpForm(t) /\ DecClass(t) = "other" /\ DecOK(pl) /\ ~IsExpForm(pl)
         /\ (ex >= 0 => pl = I(m) \o Zeros(ex))
         /\ (ex < 0 => LET dp == DecParts(pl)  dm == DecParts(DecStr(m, 0 - ex)) IN dp = dm)
         /\ same("floor") /\ same("ceil") /\ same("round")
         /\ (ex >= 0 /\ ex <= 19 /\ AbsI(m) <= 1024 => E1("floor", t).k = "oneof")       \* |m| * 5^ex < 2^53: a binary64 value
         /\ (m = 1 /\ ex = 19 => /\ E1("floor", t).alts = <<(<<49>> \o Zeros(19)), BADTYPE>>
                                /\ ~Matches("floor", <<t>>, E1("floor", t), <<45, 57, 50, 50, 51, 51, 55, 50, 48, 51, 54, 56, 53, 52, 55, 55, 53, 56, 48, 56>>, FALSE)
                                /\ Matches("floor", <<t>>, E1("floor", t), <<49>> \o Zeros(19), FALSE))
         /\ LET t2 == <<49, DOT, 53>> \o <<x[3]>> \o I(ex) IN          \* 1.5 e x
            /\ IsExpForm(t2)
            /\ (ex >= 1 => ExpPlain(t2) = <<49, 53>> \o Zeros(ex - 1))
            /\ (ex = 0 => ExpPlain(t2) = <<49, DOT, 53>>)
            /\ (ex < 0 => ExpPlain(t2) = <<48, DOT>> \o Zeros(0 - ex - 1) \o <<49, 53>>)
    [] law = "nonfinite" ->
         \* an infinity or NaN has no floor / ceil / rounded numeral: a numeral is never accepted, the error marker and any
         \* spelling of the non-finite value are
         LET e == IF x[1] = "round" THEN E2("round", x[2], I(0)) ELSE E1(x[1], x[2]) IN
         /\ e = NotNumR
         /\ ~Matches(x[1], <<x[2]>>, e, <<45, 57, 50, 50, 51, 51, 55, 50, 48, 51, 54, 56, 53, 52, 55, 55, 53, 56, 48, 56>>, FALSE)
         /\ ~Matches(x[1], <<x[2]>>, e, <<48>>, FALSE)
         /\ Matches(x[1], <<x[2]>>, e, <<43, 73, 110, 102>>, FALSE) /\ Matches(x[1], <<x[2]>>, e, <<78, 97, 78>>, FALSE)
         /\ Matches(x[1], <<x[2]>>, e, BADTYPE, FALSE)

Init == c \in {[hdr |-> TRUE, law |-> w, x |-> <<>>] : w \in Laws}
Next == c.hdr /\ \E x \in Cases(c.law) : c' = [hdr |-> FALSE, law |-> c.law, x |-> x]
LawOK == c.hdr \/ Law(c.law, c.x)
=============================================================================

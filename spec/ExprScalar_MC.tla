---------------------------- MODULE ExprScalar_MC ----------------------------
(* B3 for C11: the laws the property states, checked by TLC on the model         *)
(* (ExprScalar.Eval) over ranges.  A law is an independent characterisation of   *)
(* the documented result (e.g. "the multiple b of s with b <= v < b+s"), not a   *)
(* second copy of the definition; it shows that the specification the real code  *)
(* is compared with has the property's content.                                   *)
(* State space: one header state per law, its successors are the law's cases     *)
(* (different workers expand different laws); invariant LawOK on every case.     *)
EXTENDS ExprScalar, TLC

CONSTANT Thorough

VARIABLE c      \* [hdr, law, x]

I(n) == Itoa(n)
IsOut(e) == e.k = "out" /\ e.ce = "n"
Num(e) == IntVal(e.v)                         \* the integer an "out" expectation spells
DecStr(m, s) == Signed(m < 0, FmtFixed(AbsI(m), s))
Strs(alpha, n) == UNION {[1..k -> alpha] : k \in 0..n}
StripCommas(s) == SelectSeq(s, LAMBDA ch : ch # 44)
IsPow10(n) == n \in {P10(k) : k \in 0..9}
TruthOf(e) == e.k = "truthy"                  \* for expectations that are truthy / falsy
IsBool(e) == e.k \in {"truthy", "falsy"} /\ e.ce = "n"

RV == IF Thorough THEN 400 ELSE 200
RS == IF Thorough THEN 60 ELSE 40

Laws == {"bucket", "clamp", "csv", "csvnaive", "csvfile", "hi", "divmod", "minmax", "fold", "compare", "logic", "cond",
         "substr", "select", "contains", "case", "tab", "floorceil", "round", "expbucket", "unit", "percent",
         "path", "lookup", "errors", "arity", "hf", "constpos"}

CsvAlpha == {97, 44, 34, 13, 10, 32}
CsvLists == {<<a>> : a \in Strs(CsvAlpha, 2)} \cup {<<a, b>> : a, b \in Strs(CsvAlpha, 2)}
            \cup {<<a, b, d>> : a, b, d \in Strs(CsvAlpha, 1)}

Pairs(A, B) == {<<a, b>> : a \in A, b \in B}
Triples(A, B, C) == {<<a, b, d>> : a \in A, b \in B, d \in C}

DecPool == {DecStr(m, s) : m \in {0 - 150, 0 - 15, 0 - 1, 0, 1, 5, 10, 15, 99, 100, 101, 150, 1500}, s \in 0..2}
LogicVals == {<<>>, <<97>>, <<48>>, <<120, 32, 121>>}

Cases(law) ==
  CASE law = "bucket" -> Pairs((0 - RV)..RV, 1..RS) \cup Pairs({0 - 999999999, 999999999, 0 - 1000000, 0 - 999999000}, {1000, 999999999, 7})
    [] law = "clamp" -> Triples((0 - 12)..12, (0 - 6)..6, (0 - 6)..6)
    [] law \in {"csv", "csvnaive"} -> CsvLists
    [] law = "csvfile" -> Pairs(CsvLists, {<<a>> : a \in Strs(CsvAlpha, 1)} \cup {<<<<97>>, <<34, 10>>>>})
    [] law = "hi" -> ((0 - (IF Thorough THEN 120000 ELSE 12000))..(IF Thorough THEN 120000 ELSE 12000))
                     \cup UNION {{p - 1, p, p + 1, 0 - (p - 1), 0 - p, 0 - (p + 1)} : p \in {P10(k) : k \in 5..8}}
                     \cup {999999999, 0 - 999999999}
    [] law = "divmod" -> Pairs((0 - 25)..25, (0 - 25)..25)
    [] law = "minmax" -> Triples((0 - 3)..3, (0 - 3)..3, (0 - 3)..3)
    [] law = "fold" -> Triples((0 - 4)..4, (0 - 4)..4, (0 - 4)..4)
    [] law = "compare" -> Pairs(DecPool, DecPool)
    [] law = "logic" -> Triples(LogicVals, LogicVals, LogicVals)
    [] law = "cond" -> Triples({<<>>, <<32>>, <<97>>, <<9, 32>>}, {<<>>, <<120>>}, {<<>>, <<121>>})
    [] law = "substr" -> Triples(Strs({97, 98}, 4), 0..5, 0..5)
    [] law = "select" -> Strs({97, 98, 32, 9}, IF Thorough THEN 6 ELSE 5)
    [] law = "contains" -> Pairs(Strs({97, 98}, 3), Strs({97, 98}, 2))
    [] law = "case" -> Strs({97, 90, 49, 32, 122, 65, 64, 91, 96, 123}, 2)
    [] law = "tab" -> Triples(Strs({97, 32}, 1), Strs({97, 32}, 1), Strs({97, 32}, 1))
    [] law = "floorceil" -> Pairs((0 - 250)..250, 0..2)
    [] law = "round" -> Triples((0 - 260)..260, 0..3, 0..3)
    [] law = "expbucket" -> 1..(IF Thorough THEN 120000 ELSE 12000) \cup {P10(k) - 1 : k \in 5..9} \cup {P10(k) : k \in 5..8}
    [] law = "unit" -> Triples({"bytesize", "bytesizesi", "downscale"},
                               0..3000 \cup {1047552 + k : k \in 0..2100} \cup {999000 + k : k \in 0..2000}
                               \cup {123456789, 999999999, 1073741, 536870912}, 0..2)
    [] law = "percent" -> Triples((0 - 20)..120, {50, 100, 200, 3, 7}, 0..2)
    [] law = "path" -> Triples({<<>>, <<47>>}, {<<97>>, <<97, 47, 98, 46, 100>>, <<120, 46, 121>>}, {<<99>>, <<99, 46, 116, 120, 116>>, <<100, 46, 97, 46, 98>>})
    [] law = "lookup" -> Pairs(SUBSET {1, 2, 3}, {1, 2, 3, 4})
    [] law = "errors" -> Funcs
    [] law = "arity" -> Pairs(Funcs, 1..6)
    [] law = "hf" -> Pairs({0, 5, 999, 1000, 12345, 1234567, 99999999, 0 - 1000, 0 - 999999}, 0..4)
    [] law = "constpos" -> Pairs({"bucket", "bucketrange", "clamp", "round", "percent", "bytesize", "bytesizesi",
                                  "downscale", "lookup", "haskey"}, {"c", "d"})

E1(f, a) == Eval(f, <<a>>)
E2(f, a, b) == Eval(f, <<a, b>>)
E3(f, a, b, d) == Eval(f, <<a, b, d>>)

\* the decimal m / 10^s as [neg, a, s] (not normalised) compared with an integer n: m ? n * 10^s
KV(i) == <<107, 48 + i>>       \* key "k<i>"
VV(i) == <<118, 48 + i>>       \* value "v<i>"
TableOf(S) == Flatten([i \in 1..3 |-> IF i \in S THEN KV(i) \o <<32>> \o VV(i) \o <<10>> ELSE <<35>> \o KV(i) \o <<32, 120, 10>>])

Law(law, x) ==
  CASE law = "bucket" ->
         \* "bucket(v,s) is the multiple b of s with b <= v < b+s"; bucketrange spells b and b+s-1
         LET v == x[1]  s == x[2]  e == E2("bucket", I(v), I(s))  b == Num(e) IN
         /\ IsOut(e) /\ e.v = I(b) /\ b % s = 0 /\ b <= v /\ v < b + s
         /\ E2("bucketrange", I(v), I(s)) = Out(I(b) \o RANGESEP \o I(b + s - 1))
    [] law = "clamp" ->
         \* "clamp returns v iff min <= v <= max", else the word min / max
         LET v == x[1]  lo == x[2]  hi == x[3]  e == E3("clamp", I(v), I(lo), I(hi)) IN
         IF lo > hi THEN e = AnyR
         ELSE /\ IsOut(e)
              /\ (e.v = I(v)) <=> (lo <= v /\ v <= hi)
              /\ (e.v = WMIN) <=> v < lo
              /\ (e.v = WMAX) <=> v > hi
    [] law = "csv" ->
         \* the decoder inverts a correct RFC 4180 encoding of every argument list, and that is
         \* what the specification demands of {csv ..}
         /\ LET d == CsvDecodeRecord(CsvEncodeRecord(x)) IN d.ok /\ d.fields = x
         /\ Eval("csv", x) = CsvR
         /\ Matches("csv", x, CsvR, CsvEncodeRecord(x), FALSE)
    [] law = "csvnaive" ->
         \* the check has teeth: joining without quoting is rejected whenever a field needs quoting,
         \* and so is quoting without doubling the quotes
         LET naive == JoinSeq(x, <<44>>)
             undoubled == JoinSeq([i \in 1..Len(x) |-> IF CsvNeedsQuote(x[i]) THEN <<34>> \o x[i] \o <<34>> ELSE x[i]], <<44>>)
             special == \E i \in 1..Len(x) : CsvNeedsQuote(x[i])
             hasq == \E i \in 1..Len(x) : \E j \in 1..Len(x[i]) : x[i][j] = 34
         IN /\ Matches("csv", x, CsvR, naive, FALSE) <=> ~special
            /\ hasq => ~Matches("csv", x, CsvR, undoubled, FALSE)
    [] law = "csvfile" ->
         \* file mode: records separated by LF / CRLF, with or without a final line break
         LET a == CsvEncodeRecord(x[1])  b == CsvEncodeRecord(x[2])
             ok(t) == LET d == CsvDecodeFile(t) IN d.ok /\ d.recs = <<x[1], x[2]>>
         IN \* (a record that is one empty field is an empty line: not distinguishable from no record)
            x[1] = <<<<>>>> \/ x[2] = <<<<>>>> \/
            (ok(a \o <<10>> \o b) /\ ok(a \o <<13, 10>> \o b \o <<13, 10>>) /\ ok(a \o <<10>> \o b \o <<10>>))
    [] law = "hi" ->
         \* "hi only inserts thousands separators": removing them gives the number back; in the
         \* digits, position r from the right holds a comma iff r is a multiple of 4; sign first
         LET e == E1("hi", I(x))
             body == IF x < 0 THEN Tail(e.v) ELSE e.v
             n == Len(body)
         IN /\ IsOut(e) /\ StripCommas(e.v) = I(x)
            /\ (x < 0) <=> (e.v[1] = MINUS)
            /\ \A j \in 1..n : (body[j] = 44) <=> ((n - j + 1) % 4 = 0)
            /\ body[1] # 44
    [] law = "divmod" ->
         \* Go semantics: a = q*b + r, |r| < |b|, r has the sign of a; division by zero is an error marker
         LET a == x[1]  b == x[2]  q == E2("divi", I(a), I(b))  r == E2("modi", I(a), I(b)) IN
         IF b = 0 THEN q = Marker /\ r = Marker
         ELSE /\ IsOut(q) /\ IsOut(r)
              /\ a = Num(q) * b + Num(r) /\ AbsI(Num(r)) < AbsI(b)
              /\ (Num(r) = 0 \/ (Num(r) < 0) = (a < 0))
    [] law = "minmax" ->
         LET args == <<I(x[1]), I(x[2]), I(x[3])>>  mx == Eval("maxi", args)  mn == Eval("mini", args)
             S == {x[1], x[2], x[3]} IN
         /\ IsOut(mx) /\ Num(mx) \in S /\ \A y \in S : y <= Num(mx)
         /\ IsOut(mn) /\ Num(mn) \in S /\ \A y \in S : y >= Num(mn)
    [] law = "fold" ->
         \* "from left to right": f(a,b,c) = f(f(a,b),c); subi is sumi of the negation
         LET a == I(x[1])  b == I(x[2])  d == I(x[3]) IN
         /\ \A f \in {"sumi", "subi", "multi"} : E3(f, a, b, d) = E2(f, E2(f, a, b).v, d)
         /\ Num(E3("sumi", a, b, d)) = x[1] + x[2] + x[3]
         /\ Num(E3("subi", a, b, d)) = x[1] - x[2] - x[3]
         /\ Num(E3("multi", a, b, d)) = x[1] * x[2] * x[3]
         /\ E2("subi", a, b) = E2("sumi", a, I(0 - x[2]))
         /\ x[3] # 0 /\ x[2] # 0 => E3("divi", a, b, d) = E2("divi", E2("divi", a, b).v, d)
    [] law = "compare" ->
         \* a strict total order on the numbers: trichotomy, duality, converse; equal spellings equal
         LET a == x[1]  b == x[2]
             lt == E2("lt", a, b)  gt == E2("gt", a, b)  le == E2("lte", a, b)  ge == E2("gte", a, b)
             eqn == TruthOf(le) /\ TruthOf(ge)
         IN /\ IsBool(lt) /\ IsBool(gt) /\ IsBool(le) /\ IsBool(ge)
            /\ Cardinality({i \in 1..3 : <<TruthOf(lt), eqn, TruthOf(gt)>>[i]}) = 1
            /\ TruthOf(le) = ~TruthOf(gt) /\ TruthOf(ge) = ~TruthOf(lt)
            /\ TruthOf(lt) = TruthOf(E2("gt", b, a))
            /\ (a = b => eqn)
            /\ eqn <=> (Dec(a).a * P10(2 - Dec(a).s) = Dec(b).a * P10(2 - Dec(b).s) /\ (Dec(a).neg = Dec(b).neg \/ Dec(a).a = 0))
    [] law = "logic" ->
         \* and = all truthy, or = some truthy, De Morgan through not; eq / neq complementary
         LET a == x[1]  b == x[2]  d == x[3]
             t(s) == s # <<>>
             na == E1("not", a).v  nb == E1("not", b).v IN
         /\ TruthOf(E3("and", a, b, d)) = (t(a) /\ t(b) /\ t(d))
         /\ TruthOf(E3("or", a, b, d)) = (t(a) \/ t(b) \/ t(d))
         /\ E1("not", a) = Bool1(~t(a))
         /\ TruthOf(E2("and", na, nb)) = ~TruthOf(E2("or", a, b))
         /\ E2("eq", a, b) = Bool1(a = b) /\ E2("neq", a, b) = Bool1(a # b)
         /\ E3("coalesce", a, b, d) = Out(IF t(a) THEN a ELSE IF t(b) THEN b ELSE d)
    [] law = "cond" ->
         \* whitespace-only is false; unless = if with the branches swapped; switch with 3 args = if
         LET cnd == x[1]  y == x[2]  z == x[3]
             tr == \E i \in 1..Len(cnd) : ~IsAsciiSpace(cnd[i]) IN
         /\ E3("if", cnd, y, z) = Out(IF tr THEN y ELSE z)
         /\ E2("if", cnd, y) = Out(IF tr THEN y ELSE <<>>)
         /\ E2("unless", cnd, z) = E3("if", cnd, <<>>, z)
         /\ E3("switch", cnd, y, z) = E3("if", cnd, y, z)
         /\ E2("switch", cnd, y) = E2("if", cnd, y)
         /\ Eval("switch", <<<<>>, y, cnd, z, <<101>>>>) = Out(IF tr THEN z ELSE <<101>>)
    [] law = "substr" ->
         \* a contiguous piece starting at pos of at most `length` bytes; cutting at p loses nothing
         LET s == x[1]  p == x[2]  l == x[3]  e == E3("substr", s, I(p), I(l))  n == Len(s)
             want == IF p >= n THEN 0 ELSE IF p + l > n THEN n - p ELSE l IN
         /\ IsOut(e) /\ Len(e.v) = want
         /\ \A i \in 1..want : e.v[i] = s[p + i]
         /\ E3("substr", s, I(0), I(p)).v \o E3("substr", s, I(p), I(n)).v = s
    [] law = "select" ->
         \* the selected items, joined by one blank, are the value with its blank runs collapsed;
         \* beyond the last item nothing is selected
         LET s == x  inDom == s = <<>> \/ (s[1] \notin SelWS /\ s[Len(s)] \notin SelWS)
             items == [i \in 1..(Len(s) + 1) |-> E2("select", s, I(i - 1))]
             cnt == Cardinality({i \in 1..Len(s) : s[i] \notin SelWS /\ (i = 1 \/ s[i - 1] \in SelWS)})
         IN IF ~inDom THEN items[1] = AnyR
            ELSE /\ \A i \in 1..(Len(s) + 1) : IsOut(items[i]) /\ (items[i].v = <<>>) = (i > cnt)
                 /\ \A i \in 1..cnt : \A j \in 1..Len(items[i].v) : items[i].v[j] \notin SelWS
                 /\ LET joined == JoinSeq([i \in 1..cnt |-> items[i].v], <<32>>)
                        RECURSIVE Collapse(_)
                        Collapse(t) == IF t = <<>> THEN <<>>
                                       ELSE IF t[1] \in SelWS THEN (IF Len(t) > 1 /\ t[2] \in SelWS THEN Collapse(Tail(t)) ELSE <<32>> \o Collapse(Tail(t)))
                                       ELSE <<t[1]>> \o Collapse(Tail(t))
                    IN joined = Collapse(s)
    [] law = "contains" ->
         \* prefix and suffix imply like; like means: val = u \o sub \o w for some cut
         LET v == x[1]  s == x[2]
             like == E2("like", v, s)  pre == E2("prefix", v, s)  suf == E2("suffix", v, s)
             cuts == \E i \in 0..Len(v) : \E j \in i..Len(v) : SubSeq(v, i + 1, j) = s IN
         /\ (v # <<>> => (TruthOf(like) <=> cuts))
         /\ (TruthOf(pre) => TruthOf(like)) /\ (TruthOf(suf) => TruthOf(like))
         /\ (v # <<>> => (TruthOf(pre) <=> Len(s) <= Len(v) /\ SubSeq(v, 1, Len(s)) = s))
         /\ (v # <<>> => (TruthOf(suf) <=> Len(s) <= Len(v) /\ SubSeq(v, Len(v) - Len(s) + 1, Len(v)) = s))
         /\ (v = <<>> => like.k \in {"any", "falsy"})
    [] law = "case" ->
         \* upper/lower change letters only, keep the length, are idempotent and absorb each other
         LET u == E1("upper", x).v  lw == E1("lower", x).v IN
         /\ Len(u) = Len(x) /\ Len(lw) = Len(x) /\ E1("len", x) = Out(I(Len(x)))
         /\ E1("upper", u).v = u /\ E1("lower", lw).v = lw /\ E1("upper", lw).v = u /\ E1("lower", u).v = lw
         /\ \A i \in 1..Len(x) : /\ (~IsLower(x[i]) => u[i] = x[i]) /\ (~IsUpper(x[i]) => lw[i] = x[i])
                                 /\ (IsLower(x[i]) => u[i] = x[i] - 32) /\ (IsUpper(x[i]) => lw[i] = x[i] + 32)
    [] law = "tab" ->
         LET e == E3("tab", x[1], x[2], x[3]) IN IsOut(e) /\ SplitOn(e.v, 9) = x
    [] law = "floorceil" ->
         \* floor(x) <= x < floor(x)+1, ceil(x)-1 < x <= ceil(x), ceil(x) = -floor(-x)
         LET m == x[1]  s == x[2]  D == P10(s)  t == DecStr(m, s)
             fl == E1("floor", t)  ce == E1("ceil", t) IN
         IF m < 0 /\ m > 0 - 1 THEN TRUE
         ELSE /\ IsOut(fl) /\ Num(fl) * D <= m /\ m < (Num(fl) + 1) * D
              /\ IsOut(ce) /\ (Num(ce) - 1) * D < m /\ m <= Num(ce) * D
              /\ (m # 0 => Num(ce) = 0 - Num(E1("floor", DecStr(0 - m, s))))
    [] law = "round" ->
         \* the result has exactly p decimals and is the nearest such number (ties are outside the domain)
         LET m == x[1]  s == x[2]  p == x[3]  t == DecStr(m, s)
             e == IF p = 0 /\ m % 2 = 0 THEN E1("round", t) ELSE E2("round", t, I(p)) IN
         IF e.k = "any" THEN
              \/ (s > p /\ (2 * (AbsI(m) % P10(s - p)) = P10(s - p)))            \* a tie
              \/ (m < 0 /\ 2 * AbsI(m) < P10(s - p) /\ s > p)                    \* rounds to -0
              \/ (m = 0 /\ FALSE)
         ELSE /\ IsOut(e) /\ DecOK(e.v)
              /\ LET d == DecParts(e.v)  full == Dec(e.v) IN
                 /\ (p = 0 => IndexByte(e.v, DOT) = 0)
                 /\ (p > 0 => IndexByte(e.v, DOT) = Len(e.v) - p)
                 \* |e - t| <= 1/2 unit of the last place:  compare at scale max(s,p)
                 /\ LET S == IF s > p THEN s ELSE p
                        A == DecM(full) * P10(S - full.s)
                        B == m * P10(S - s)
                    IN 2 * AbsI(A - B) <= P10(S - p) /\ (S = p => A = B)
    [] law = "expbucket" ->
         \* a power of ten r with r <= v < 10 r
         LET e == E1("expbucket", I(x))  r == Num(e) IN IsOut(e) /\ IsPow10(r) /\ r <= x /\ x \div 10 < r
    [] law = "unit" ->
         \* number * step^rank is within half a unit of the last printed place of v; 1 <= number < step
         LET f == x[1]  v == x[2]  p == x[3]  e == IF p = 0 THEN E1(f, I(v)) ELSE E2(f, I(v), I(p))
             step == UnitStep(f) IN
         IF e.k = "any" THEN v >= step                                  \* ties and roll-over only
         ELSE /\ e.k = "oneof" /\ Len(e.alts) >= 1
              /\ \A i \in 1..Len(e.alts) :
                   LET a == e.alts[i]
                       numlen == CHOOSE n \in 0..Len(a) : (\A j \in 1..n : IsDigit(a[j]) \/ a[j] = DOT) /\ (n = Len(a) \/ ~(IsDigit(a[n + 1]) \/ a[n + 1] = DOT))
                       num == SubSeq(a, 1, numlen)
                       unit == SelectSeq(SubSeq(a, numlen + 1, Len(a)), LAMBDA ch : ch # 32)
                       rank == CHOOSE k \in 0..3 : unit = UnitNames(f)[k + 1]
                       D == IF rank = 0 THEN 1 ELSE IF rank = 1 THEN step ELSE step * step
                       d == Dec(num)
                   IN /\ DecOK(num) /\ unit \in {UnitNames(f)[k] : k \in 1..4}
                      /\ (rank = 0 <=> v < step) /\ (rank = 1 <=> (v >= step /\ v < step * step))
                      /\ (rank = 0 => d.a = v * P10(d.s))
                      \* |num * D - v| * 2 * 10^p <= D      (num = d.a / 10^d.s, d.s <= p)
                      /\ (rank > 0 => /\ d.s <= p /\ d.a >= P10(d.s) /\ d.a < step * P10(d.s)
                                      /\ LET q == d.a * P10(p - d.s)           \* num scaled by 10^p
                                             lo == (v \div D) * P10(p)          \* integer part bound, avoids overflow
                                         IN q >= lo /\ q <= lo + P10(p)
                                            /\ LET rem == v % D                 \* fraction = rem / D
                                                   fq == q - lo                 \* printed fraction scaled by 10^p
                                               IN  (D <= 2000000 => 2 * AbsI(fq * D - rem * P10(p)) <= D))
    [] law = "percent" ->
         \* {percent v p max}: the printed number times max is within half a unit of 100 v
         LET v == x[1]  mx == x[2]  p == x[3]  e == E3("percent", I(v), I(p), I(mx)) IN
         /\ \/ e.k = "any"
            \/ /\ IsOut(e) /\ e.v[Len(e.v)] = 37
               /\ LET num == SubSeq(e.v, 1, Len(e.v) - 1)  d == Dec(num) IN
                  /\ DecOK(num) /\ (p = 0 => IndexByte(num, DOT) = 0) /\ (p > 0 => IndexByte(num, DOT) = Len(num) - p)
                  /\ 2 * AbsI(DecM(d) * P10(p - d.s) * mx - 100 * v * P10(p)) <= mx
                  /\ (v = mx => num = FmtFixed(100 * P10(p), p)) /\ (v = 0 => num = FmtFixed(0, p))
         \* {percent v p min max}: shifting value, min and max together changes nothing
         /\ Eval("percent", <<I(v + 10), I(p), I(10), I(mx + 10)>>) = e
         \* the default precision is 1, the default range 0..1
         /\ (p = 1 => Eval("percent", <<DecStr(v, 2)>>) = E3("percent", DecStr(v, 2), I(1), I(1)))
    [] law = "path" ->
         \* dirname / basename = path; extname is the part of basename from its last dot
         LET path == x[1] \o x[2] \o <<47>> \o x[3]
             dir == E1("dirname", path)  base == E1("basename", path)  ext == E1("extname", path) IN
         /\ IsOut(dir) /\ IsOut(base) /\ IsOut(ext)
         /\ dir.v \o <<47>> \o base.v = path
         /\ IndexByte(base.v, 47) = 0
         /\ HasSuffix(base.v, ext.v) /\ (ext.v # <<>> => ext.v[1] = DOT /\ IndexByte(Tail(ext.v), DOT) = 0)
         /\ (ext.v = <<>> <=> IndexByte(base.v, DOT) = 0)
    [] law = "lookup" ->
         \* keys of live lines are found with their values; commented-out and absent keys are not
         LET S == x[1]  i == x[2]  t == TableOf(S)
             lk == E3("lookup", KV(i), t, <<35>>)  hk == E3("haskey", KV(i), t, <<35>>) IN
         /\ lk = Out(IF i \in S THEN VV(i) ELSE <<>>)
         /\ hk = Bool(i \in S)
         /\ (i \in S => E2("lookup", KV(i), t) = lk)
    [] law = "errors" ->
         \* "non-numeric input yields the documented error marker": every numeric helper, numeric argument "abc"
         LET f == x  abc == <<97, 98, 99>>  one == <<49>>
             numeric == {"sumi", "subi", "multi", "divi", "modi", "maxi", "mini", "sumf", "subf", "multf", "divf", "pow",
                         "sqrt", "log10", "log2", "ln", "floor", "ceil", "round", "lt", "gt", "lte", "gte", "bucket",
                         "bucketrange", "clamp", "expbucket", "hi", "hf", "bytesize", "bytesizesi", "downscale", "percent"}
             n == CHOOSE k \in 1..3 : ArityOK(f, k)
             args == [j \in 1..n |-> IF j = 1 THEN abc ELSE one] IN
         (f \in numeric) => Eval(f, args) = ErrNum
    [] law = "arity" ->
         \* a call with an unsupported number of arguments is a compile error and evaluates to <ARGN>
         LET f == x[1]  n == x[2]  args == [j \in 1..n |-> <<49>>]  e == Expect(f, args, [j \in 1..n |-> "d"]) IN
         (~ArityOK(f, n)) <=> (e = ArgN)
    [] law = "hf" ->
         \* every accepted spelling, commas removed, is the decimal itself (plus trailing zeros)
         LET m == x[1]  s == x[2]  t == DecStr(m, s)  e == E1("hf", t) IN
         /\ e.k = "oneof" /\ Len(e.alts) >= 1
         /\ \A i \in 1..Len(e.alts) :
              LET plain == StripCommas(e.alts[i]) IN
              /\ DecOK(plain) /\ Dec(plain) = Dec(t)
              /\ LET ip == IF IndexByte(e.alts[i], DOT) = 0 THEN e.alts[i] ELSE SubSeq(e.alts[i], 1, IndexByte(e.alts[i], DOT) - 1)
                 IN ip = E1("hi", I(IF m < 0 THEN 0 - (AbsI(m) \div P10(s)) ELSE m \div P10(s))).v \/ (m < 0 /\ AbsI(m) < P10(s))
    [] law = "constpos" ->
         \* compile-time arguments supplied from the match context give an error marker, never a value
         LET f == x[1]  p == x[2]
             args == IF f = "clamp" THEN <<I(5), I(0), I(9)>> ELSE IF f \in {"lookup", "haskey"} THEN <<KV(1), TableOf({1})>> ELSE <<I(5), I(2)>>
             pos == [j \in 1..Len(args) |-> IF j = 1 THEN "d" ELSE p]
             e == Expect(f, args, pos) IN
         IF p = "d" THEN e = Marker ELSE e.k \in {"out", "oneof", "truthy"} /\ e.ce = "n"

Init == c \in {[hdr |-> TRUE, law |-> w, x |-> <<>>] : w \in Laws}
Next == c.hdr /\ \E x \in Cases(c.law) : c' = [hdr |-> FALSE, law |-> c.law, x |-> x]
LawOK == c.hdr \/ Law(c.law, c.x)
=============================================================================

---------------------------- MODULE SortingAlgo ----------------------------
(* C13 - a comparison sort driven by an ARBITRARY comparator.                   *)
(*                                                                              *)
(* The aggregators hand their keys to sort.Sort in Go map order (any             *)
(* permutation).  The model: items 1..N, a comparator R chosen in the initial    *)
(* state (any relation, or any relation satisfying the order axioms), any start *)
(* permutation, and insertion sort written like the implementation               *)
(*    for i := 1; i < n; i++ { for j := i; j > 0 && less(j, j-1); j-- { swap } } *)
(* (sort.Sort uses exactly this for n <= 12).                                    *)
(* TLC shows: order axioms  =>  every start permutation ends in the same         *)
(* sequence (PermInvariant), the sequence the comparator orders (SortedOK), and  *)
(* it is the only such sequence (Unique: any correct comparison sort therefore   *)
(* returns it); with a merely asymmetric+total (non-transitive) comparator       *)
(* PermInvariant FAILS (config Sanity - expected counter-example).               *)
EXTENDS Integers, Sequences, FiniteSets, TLC

CONSTANTS N,          \* number of keys
          Comparators \* "orders": the order of every permutation; "axioms": brute force, every
                      \* asymmetric+total relation filtered by transitivity; "tournaments":
                      \* asymmetric + total only (transitivity dropped)

Items == 1..N
Pairs == Items \X Items
Perms == {p \in [Items -> Items] : \A x \in Items, y \in Items : x # y => p[x] # p[y]}
Identity == [x \in Items |-> x]

Asymmetric(R) == \A x \in Items, y \in Items : x # y => ~(R[x, y] /\ R[y, x])
TotalOn(R)    == \A x \in Items, y \in Items : x # y => (R[x, y] \/ R[y, x])
Transitive(R) == \A x \in Items, y \in Items, z \in Items :
                   (x # y /\ y # z /\ x # z /\ R[x, y] /\ R[y, z]) => R[x, z]
Irreflexive(R) == \A x \in Items : ~R[x, x]
StrictTotal(R) == Asymmetric(R) /\ TotalOn(R) /\ Transitive(R)

\* the strict total order "position in p"
PosIn(p, x) == CHOOSE k \in Items : p[k] = x
RelOf(p) == [q \in Pairs |-> PosIn(p, q[1]) < PosIn(p, q[2])]
Orders == {RelOf(p) : p \in Perms}
\* every asymmetric + total relation (irreflexive): one direction per unordered pair
UP == {q \in Pairs : q[1] < q[2]}
TourOf(f) == [q \in Pairs |-> IF q[1] < q[2] THEN f[q] ELSE IF q[1] > q[2] THEN ~f[<<q[2], q[1]>>] ELSE FALSE]
Tournaments == {TourOf(f) : f \in [UP -> BOOLEAN]}
AxiomSet == {r \in Tournaments : Transitive(r)}      \* = every relation with StrictTotal

\* ------------------------------------------------ the sort as a function
RECURSIVE Sink(_, _, _)
\* inner loop: item at position j moves left while it is less than its left neighbour
Sink(a, j, R) ==
  IF j > 1 /\ R[a[j], a[j - 1]]
  THEN Sink([a EXCEPT ![j] = a[j - 1], ![j - 1] = a[j]], j - 1, R)
  ELSE a
RECURSIVE SortFrom(_, _, _)
SortFrom(a, i, R) == IF i > N THEN a ELSE SortFrom(Sink(a, i, R), i + 1, R)
SortFn(a, R) == SortFrom(a, 2, R)

Ordered(a, R) == \A x \in Items, y \in Items : x < y => R[a[x], a[y]]

\* ------------------------------------------------ the sort as a state machine
VARIABLES R, arr, i, j, start
vars == <<R, arr, i, j, start>>

CmpSet == CASE Comparators = "orders" -> Orders
            [] Comparators = "axioms" -> AxiomSet
            [] Comparators = "tournaments" -> Tournaments

Init == /\ R \in CmpSet
        /\ arr \in Perms /\ start = arr
        /\ i = 2 /\ j = 2

Done == i > N

\* less(j, j-1) is true: swap and keep sinking
Swap == /\ ~Done /\ j > 1 /\ R[arr[j], arr[j - 1]]
        /\ arr' = [arr EXCEPT ![j] = arr[j - 1], ![j - 1] = arr[j]]
        /\ j' = j - 1 /\ UNCHANGED <<R, i, start>>
\* inner loop ends: next i
Advance == /\ ~Done /\ ~(j > 1 /\ R[arr[j], arr[j - 1]])
           /\ i' = i + 1 /\ j' = i + 1 /\ UNCHANGED <<R, arr, start>>
Next == Swap \/ Advance
Spec == Init /\ [][Next]_vars /\ WF_vars(Next)

TypeOK == arr \in Perms /\ i \in 2..(N + 1) /\ j \in 1..(N + 1)
\* the machine computes the function
MachineIsFn == Done => arr = SortFn(start, R)
\* every start permutation ends in the same sequence as the identity permutation
PermInvariant == Done => arr = SortFn(Identity, R)
\* and that sequence is the one the comparator orders
SortedOK == Done => Ordered(arr, R)
\* why it works (needs the axioms): the prefix 1..i is ordered except for the key in flight at j,
\* which is smaller than everything to its right within the prefix
Lim == IF i > N THEN N ELSE i
PrefixOrdered ==
  /\ \A x \in 1..Lim, y \in 1..Lim : (x < y /\ x # j /\ y # j) => R[arr[x], arr[y]]
  /\ \A y \in 1..Lim : (j <= N /\ j < y) => R[arr[j], arr[y]]
Terminates == <>Done

\* ------------------------------------------------ constant-level laws (Init-time)
\* L1: the relations satisfying the axioms are exactly the orders induced by a permutation
AxiomsAreOrders == AxiomSet = Orders /\ \A r \in AxiomSet : StrictTotal(r) /\ Irreflexive(r)
\* L2: for a strict total order exactly one sequence is ordered: any correct comparison sort
\*     returns it from every start
Unique == \A r \in Orders : Cardinality({p \in Perms : Ordered(p, r)}) = 1
\* L3: the converse of a strict total order is one, and its sorted sequence is the reversed one
ConverseOf(r) == [q \in Pairs |-> r[q[2], q[1]]]
ReverseSeq(p) == [k \in Items |-> p[N + 1 - k]]
ConverseReverses == \A r \in Orders : /\ ConverseOf(r) \in Orders
                                      /\ SortFn(Identity, ConverseOf(r)) = ReverseSeq(SortFn(Identity, r))
\* L4: negating a strict total order (sorting.Reverse) is its converse on distinct keys
NegationIsConverse == \A r \in Orders : \A x \in Items, y \in Items : x # y => (~r[x, y]) = ConverseOf(r)[x, y]
\* L5: a tournament that is not transitive sorts some two permutations differently
NonTransitiveBreaks ==
  \A r \in Tournaments : ~Transitive(r) => \E p \in Perms, q \in Perms : SortFn(p, r) # SortFn(q, r)
\* one-state behaviour used to evaluate the laws
LawInit == R = RelOf(Identity) /\ arr = Identity /\ start = Identity /\ i = N + 1 /\ j = N + 1
LawNext == FALSE /\ UNCHANGED vars
Laws == AxiomsAreOrders /\ Unique /\ ConverseReverses /\ NegationIsConverse /\ NonTransitiveBreaks
=============================================================================

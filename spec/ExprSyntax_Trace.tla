-------------------------- MODULE ExprSyntax_Trace --------------------------
(* B2 for C09: recorded compilations/evaluations of the REAL compiler            *)
(*   {kind, tpl, text, out, errs, errn, out2, errs2, errn2, panic}               *)
(*   (errs: the set of reported classes, errn: how many errors of each class)    *)
(* kind "tree": the driver generated a random annotated tree `tpl` (depth <= 4,  *)
(*   <= 4 arguments, large alphabets incl. multi-byte runes, random malformations)*)
(*   and printed it itself as `text`; out/errs come from the optimising key      *)
(*   builder, out2/errs2 from the non-optimising one.  The specification checks  *)
(*   that tpl is inside the documented domain and that text is ITS print of tpl  *)
(*   (else the harness is wrong), that ParseModel agrees with the tree (else the *)
(*   model is wrong - both reported as infrastructure trouble), and then that    *)
(*   the real result is the spelling of the tree / the documented error classes. *)
(*   conc: the distinct (worker, output) pairs seen when both compiled templates  *)
(*   are evaluated by 3 goroutines at once, 4 times each, every goroutine against *)
(*   its own context (answers tagged :w): each must be the spelling of the tree   *)
(*   in that worker's context (ExprSyntaxEval.tla: evaluations share nothing).    *)
(* kind "wild": arbitrary text (random edits with { } " \ blanks), outside the   *)
(*   documented domain: the compiler only has to return.                         *)
(* The trace spec is total: every record is consumed, what the specification     *)
(* cannot explain is collected in `bad` and written by the Final invariant.      *)
EXTENDS ExprSyntax, Json

Trace == ndJsonDeserialize("trace.ndjson")

VARIABLES l, bad, nontrivial
tvars == <<l, bad, nontrivial>>


ErrsOK(tpl, es) == ErrLower(tpl) \subseteq es /\ es \subseteq ErrUpper(tpl)
\* every malformed statement is reported as an error of its own
CountsOK(tpl, en) == \A cl \in ErrClasses : en[cl] >= ErrLowCnts(tpl)[cl]

Class(r) ==
  IF r.panic THEN "panic"
  ELSE IF r.kind # "tree" THEN "ok"
  ELSE IF ~WFTpl(r.tpl) THEN "harness-wf"
  ELSE IF PrintTpl(r.tpl) # r.text THEN "harness-print"
  ELSE IF Mutated(r.tpl) THEN
    IF ~ErrClassOK(r.tpl) THEN "model"
    ELSE IF ~ErrsOK(r.tpl, ToSet(r.errs)) \/ ~ErrsOK(r.tpl, ToSet(r.errs2)) THEN "errs"
    ELSE IF ~CountsOK(r.tpl, r.errn) \/ ~CountsOK(r.tpl, r.errn2) THEN "errcount"
    ELSE "ok"
  ELSE
    IF ~RoundTripOK(r.tpl) THEN "model"
    ELSE IF r.errs # <<>> \/ r.errs2 # <<>> THEN "errs"
    ELSE IF r.out # Spell(StripT(r.tpl)) \/ r.out2 # Spell(StripT(r.tpl)) THEN "out"
    ELSE IF \E j \in 1..Len(r.conc) : r.conc[j].out # SpellT(StripT(r.tpl), <<58>> \o Itoa(r.conc[j].w)) THEN "conc"
    ELSE "ok"

TInit == l = 1 /\ bad = <<>> /\ nontrivial = 0
TNext ==
  /\ l <= Len(Trace)
  /\ l' = l + 1
  /\ LET cl == Class(Trace[l]) IN
     bad' = IF cl = "ok" THEN bad ELSE Append(bad, [t |-> l, l |-> l, class |-> cl])
  /\ nontrivial' = nontrivial + (IF Trace[l].kind = "tree" THEN 1 ELSE 0)
TSpec == TInit /\ [][TNext]_tvars

Final == (l = Len(Trace) + 1) =>
  JsonSerialize("bad.json", [bad |-> bad, consumed |-> l - 1, done |-> TRUE, nontrivial |-> nontrivial])
=============================================================================
